(* TuPivot.v -- total unimodularity is preserved by a pivot on a +-1 entry (matrix level), and the
   corresponding statements for the executable pivot model of PivotModel.v / PivotProofs.v. *)
From Coq Require Import ZArith List.
From mathcomp Require Import all_ssreflect all_fingroup all_algebra.
From mathcomp Require Import ssrZ zify.
From Cmr Require Import Base Det BaseProofs PivotModel PivotProofs SpModel RelModel TuProofs TuClosure.
Set Implicit Arguments. Unset Strict Implicit. Unset Printing Implicit Defensive.
Import GRing.Theory.
Local Open Scope ring_scope.
Import mathcomp.ssreflect.seq.
Delimit Scope nat_scope with N.

(* ========================================================================================== *)
(* 1. the pivot of a matrix, minors avoiding the pivot row and column (Schur complement)       *)
(* ========================================================================================== *)

Definition pivmx (m n : nat) (A : 'M[Z]_(m, n)) (r : 'I_m) (c : 'I_n) : 'M[Z]_(m, n) :=
  \matrix_(i, j) if i == r then (if j == c then - A r c else A r c * A r j)
                 else if j == c then A r c * A i c
                 else A i j - A r c * A i c * A r j.

(* index map x :: f *)
Definition cons_idx (p k : nat) (x : 'I_p) (f : 'I_k -> 'I_p) (i : 'I_(1 + k)) : 'I_p :=
  match fintype.split i with inl _ => x | inr j => f j end.

Lemma det_schur k (e : Z) (u : 'rV[Z]_k) (v : 'cV[Z]_k) (D : 'M[Z]_k) : e * e = 1 ->
  \det (block_mx (e%:M : 'M_1) u v D) = e * \det (D - e *: (v *m u)).
Proof.
move=> ee.
have -> : block_mx (e%:M : 'M_1) u v D =
  block_mx 1%:M 0 (e *: v) 1%:M *m block_mx (e%:M : 'M_1) u 0 (D - e *: (v *m u)).
  rewrite mulmx_block !mul1mx !mul0mx ?mulmx0 !addr0.
  by rewrite mul_mx_scalar scalerA ee scale1r -scalemxAl addrC subrK.
by rewrite det_mulmx det_lblock det_ublock !det1 !mul1r det_scalar1.
Qed.

Section Pivot.
Variables (m n : nat).
Implicit Types (A : 'M[Z]_(m, n)).

Lemma mxsub_cons A r c k (f : 'I_k -> 'I_m) (g : 'I_k -> 'I_n) :
  mxsub (cons_idx r f) (cons_idx c g) A =
  block_mx ((A r c)%:M : 'M_1) (\row_j A r (g j)) (\col_i A (f i) c) (mxsub f g A).
Proof.
apply/matrixP => i j; rewrite -[i]splitK -[j]splitK [LHS]mxE /cons_idx !unsplitK.
case: (fintype.split i) => i'; case: (fintype.split j) => j' /=.
- by rewrite block_mxEul !mxE !ord1 eqxx mulr1n.
- by rewrite block_mxEur !mxE.
- by rewrite block_mxEdl !mxE.
- by rewrite block_mxEdr !mxE.
Qed.

Lemma pivmx_avoid A r c k (f : 'I_k -> 'I_m) (g : 'I_k -> 'I_n) :
  (forall i, f i != r) -> (forall j, g j != c) ->
  mxsub f g (pivmx A r c) =
  mxsub f g A - A r c *: ((\col_i A (f i) c) *m (\row_j A r (g j))).
Proof.
move=> Hf Hg; apply/matrixP => i j.
by rewrite !mxE (negbTE (Hf i)) (negbTE (Hg j)) big_ord1 !mxE mulrA.
Qed.

(* a minor of the pivoted matrix that avoids row r and column c is +- the minor of A with row r
   and column c added *)
Lemma det_pivmx_avoid A r c k (f : 'I_k -> 'I_m) (g : 'I_k -> 'I_n) :
  A r c * A r c = 1 -> (forall i, f i != r) -> (forall j, g j != c) ->
  \det (mxsub f g (pivmx A r c)) = A r c * \det (mxsub (cons_idx r f) (cons_idx c g) A).
Proof.
by move=> ee Hf Hg; rewrite mxsub_cons det_schur // -pivmx_avoid // mulrA ee mul1r.
Qed.

Lemma small_pivmx_avoid A r c k (f : 'I_k -> 'I_m) (g : 'I_k -> 'I_n) :
  A r c \in [:: 1; -1] -> TUmx A -> (forall i, f i != r) -> (forall j, g j != c) ->
  \det (mxsub f g (pivmx A r c)) \in [:: -1; 0; 1].
Proof.
move=> he TU Hf Hg; rewrite det_pivmx_avoid //; last exact: pm1_sqr.
by apply: small_mul; [exact: pm1_small | exact: TU].
Qed.

(* A bordered by a unit column e_r and a unit row e_c (new row and column first) *)
Definition hatmx A (r : 'I_m) (c : 'I_n) : 'M[Z]_(m.+1, n.+1) :=
  \matrix_(i, j) match unlift ord0 i, unlift ord0 j with
                 | Some i', Some j' => A i' j'
                 | Some i', None => (i' == r)%:R
                 | None, Some j' => (j' == c)%:R
                 | None, None => 0
                 end.

Lemma hat_ll A r c i j : hatmx A r c (lift ord0 i) (lift ord0 j) = A i j.
Proof. by rewrite mxE !liftK. Qed.

Lemma hat_l0 A r c i : hatmx A r c (lift ord0 i) ord0 = (i == r)%:R.
Proof. by rewrite mxE liftK unlift_none. Qed.

Lemma hat_0l A r c j : hatmx A r c ord0 (lift ord0 j) = (j == c)%:R.
Proof. by rewrite mxE liftK unlift_none. Qed.

Lemma hat_00 A r c : hatmx A r c ord0 ord0 = 0.
Proof. by rewrite mxE !unlift_none. Qed.

Lemma TUmx_hat A r c : TUmx A -> TUmx (hatmx A r c).
Proof.
move=> TU.
have TU1 : TUmx (row' ord0 (hatmx A r c)).
  apply: (@TUmx_add_unit_col _ _ _ ord0 _ r).
  - suff -> : col' ord0 (row' ord0 (hatmx A r c)) = A by [].
    by apply/matrixP => i j; rewrite !mxE !liftK.
  - by move=> i ne; rewrite mxE hat_l0 (negbTE ne).
  - by rewrite mxE hat_l0 eqxx.
apply: (@TUmx_add_unit_row _ _ _ ord0 TU1 (lift ord0 c)).
- move=> j; case: (unliftP ord0 j) => [j'|] -> ne; last by rewrite hat_00.
  rewrite hat_0l; have -> // : (j' == c) = false.
  by apply: contraNF ne => /eqP ->.
- by rewrite hat_0l eqxx.
Qed.

End Pivot.

(* ========================================================================================== *)
(* 2. the main theorem                                                                         *)
(* ========================================================================================== *)
(* Proof idea: border A with a unit column e_r and a unit row e_c (hatmx, still TU by
   TUmx_add_unit_row/col).  In the pivot of the bordered matrix at the same entry, the new row is
   minus the pivot row of pivmx A r c and the new column is minus its pivot column, so EVERY minor
   of pivmx A r c is, up to signs of rows and columns, a minor of the bordered pivot that avoids
   the pivot row and column; such minors are Schur complements (det_pivmx_avoid), i.e. +- minors
   of the bordered matrix.  No injectivity of the index maps and no case analysis is needed. *)

Section PivotTU.
Variables (m n : nat) (A : 'M[Z]_(m, n)) (r : 'I_m) (c : 'I_n).
Let e := A r c.
Let Ah := hatmx A r c.
Let r' : 'I_m.+1 := lift ord0 r.
Let c' : 'I_n.+1 := lift ord0 c.

Lemma hat_piv : Ah r' c' = e.
Proof. by rewrite /Ah hat_ll. Qed.

(* rows/columns of the pivot of the bordered matrix: the new row 0 is minus the pivot row, the
   new column 0 is minus the pivot column *)
Lemma pivhat_ll i j : i != r -> j != c ->
  pivmx Ah r' c' (lift ord0 i) (lift ord0 j) = pivmx A r c i j.
Proof.
move=> ni nj; rewrite [LHS]mxE [RHS]mxE !(eqtype.inj_eq lift_inj) (negbTE ni) (negbTE nj).
by rewrite /Ah !hat_ll.
Qed.

Lemma pivhat_0l j : j != c -> pivmx Ah r' c' ord0 (lift ord0 j) = - pivmx A r c r j.
Proof.
move=> nj; rewrite [LHS]mxE [pivmx A r c r j]mxE (eqtype.inj_eq lift_inj) (negbTE nj) eqxx.
rewrite (negbTE (neq_lift ord0 r)) /Ah !hat_ll !hat_0l (negbTE nj) eqxx.
by rewrite sub0r mulr1.
Qed.

Lemma pivhat_l0 i : i != r -> pivmx Ah r' c' (lift ord0 i) ord0 = - pivmx A r c i c.
Proof.
move=> ni; rewrite [LHS]mxE [pivmx A r c i c]mxE (eqtype.inj_eq lift_inj) (negbTE ni) eqxx.
rewrite (negbTE (neq_lift ord0 c)) /Ah !hat_ll !hat_l0 (negbTE ni) eqxx.
by rewrite sub0r mulr1.
Qed.

Lemma pivhat_00 : pivmx Ah r' c' ord0 ord0 = pivmx A r c r c.
Proof.
rewrite [LHS]mxE [RHS]mxE !eqxx.
rewrite ?(negbTE (neq_lift ord0 r)) ?(negbTE (neq_lift ord0 c)).
by rewrite /Ah hat_00 hat_ll hat_0l hat_l0 !eqxx sub0r !mulr1.
Qed.

Theorem TUmx_pivot : A r c \in [:: 1; -1] -> TUmx A -> TUmx (pivmx A r c).
Proof.
move=> he TU k f g.
pose f' i := if f i == r then ord0 else lift ord0 (f i).
pose g' j := if g j == c then ord0 else lift ord0 (g j).
pose s i : Z := if f i == r then -1 else 1.
pose t j : Z := if g j == c then -1 else 1.
have -> : mxsub f g (pivmx A r c) =
          \matrix_(i, j) (s i * t j * mxsub f' g' (pivmx Ah r' c') i j).
  apply/matrixP => i j; rewrite [LHS]mxE [RHS]mxE [mxsub _ _ _ _ _]mxE /s /t /f' /g'.
  case: (f i =P r) => [->|/eqP nf]; case: (g j =P c) => [->|/eqP ng].
  - by rewrite pivhat_00 mulrNN !mul1r.
  - by rewrite pivhat_0l // mulr1 mulN1r opprK.
  - by rewrite pivhat_l0 // mul1r mulN1r opprK.
  - by rewrite pivhat_ll // !mul1r.
rewrite det_scale; apply: small_mul.
  apply: pm1_small; apply: pm1_mul; apply: prod_pm1 => i; rewrite /s /t; by case: ifP.
apply: small_pivmx_avoid.
- by rewrite hat_piv.
- exact: TUmx_hat.
- move=> i; rewrite /f' /r'; case: ifPn => [_|nf]; last by rewrite (eqtype.inj_eq lift_inj).
  by rewrite neq_lift.
- move=> j; rewrite /g' /c'; case: ifPn => [_|ng]; last by rewrite (eqtype.inj_eq lift_inj).
  by rewrite neq_lift.
Qed.

End PivotTU.

(* pivoting twice at the same position gives the matrix back, with row r and column c negated
   (the pivot entry itself unchanged) *)
Lemma pivmx_twice m n (A : 'M[Z]_(m, n)) r c : A r c \in [:: 1; -1] ->
  pivmx (pivmx A r c) r c =
  \matrix_(i, j) ((if i == r then -1 else 1) * (if j == c then -1 else 1) * A i j).
Proof.
move=> he; apply/matrixP => i j; rewrite !mxE !eqxx.
case: (i =P r) => [->|_]; case: (j =P c) => [ej|_]; rewrite ?ej;
  move: (A r c) he => e; rewrite !inE => /orP [] /eqP ->;
  rewrite ?mulN1r ?opprK ?mul1r ?mulN1r ?mulNr ?mulrN ?opprK ?subrK ?addrK //.
Qed.

Theorem TUmx_pivot_iff m n (A : 'M[Z]_(m, n)) r c : A r c \in [:: 1; -1] ->
  TUmx (pivmx A r c) <-> TUmx A.
Proof.
move=> he; split; last exact: TUmx_pivot.
have he' : pivmx A r c r c \in [:: 1; -1].
  by rewrite mxE !eqxx; move: he; rewrite !inE => /orP [] /eqP ->.
move=> /(TUmx_pivot he'); rewrite pivmx_twice // => /TUmx_scale_iff; apply => i; by case: ifP.
Qed.

Lemma pivmx_tr m n (A : 'M[Z]_(m, n)) r c : pivmx A^T c r = (pivmx A r c)^T.
Proof.
apply/matrixP => i j; rewrite !mxE.
by case: (i =P c) => _; case: (j =P r) => _ //; rewrite mulrAC.
Qed.

Print Assumptions TUmx_pivot.
Print Assumptions TUmx_pivot_iff.

(* ========================================================================================== *)
(* 3. list level: the executable pivot model                                                   *)
(* ========================================================================================== *)

Lemma pm1_of_or (x : Z) : x = 1 \/ x = -1 -> x \in [:: 1; -1].
Proof. by case=> ->. Qed.

Lemma pm1_line (e x : Z) : e \in [:: 1; -1] ->
  (if Z.eqb e (Zneg xH) then Z.opp x else x) = e * x.
Proof. by rewrite !inE => /orP [] /eqP ->; rewrite ?mul1r ?mulN1r. Qed.

Lemma mx_of_pivot_raw m n (M : mat) r c (ltr : (r < m)%N) (ltc : (c < n)%N) :
  get M r c \in [:: 1; -1] ->
  mx_of m n (pivot_raw m n M r c) = pivmx (mx_of m n M) (Ordinal ltr) (Ordinal ltc).
Proof.
move=> he; apply/matrixP => i j; rewrite !mxE get_pivot_raw; [|exact/ltP..].
rewrite !pm1_line // !eqbE.
rewrite (_ : (i == r :> nat) = (i == Ordinal ltr)) // (_ : (j == c :> nat) = (j == Ordinal ltc)) //.
by case: (i =P Ordinal ltr) => [->|_]; case: (j =P Ordinal ltc) => [ej|_]; rewrite ?ej.
Qed.

Theorem tu_bf_pivot_raw m n (M : mat) r c : (r < m)%N -> (c < n)%N ->
  (get M r c = 1 \/ get M r c = -1) ->
  tu_bf m n M = true -> tu_bf m n (pivot_raw m n M r c) = true.
Proof.
move=> ltr ltc /pm1_of_or he /tu_bfP TU; apply/tu_bfP.
rewrite (mx_of_pivot_raw ltr ltc he); apply: TUmx_pivot => //.
by rewrite mxE.
Qed.

(* reduction modulo 3 is the identity (entrywise, inside the m x n window) on a matrix with entries
   in {-1,0,1} *)
Lemma mx_of_reduce_small m n (P : mat) :
  (forall i j, (i < m)%N -> (j < n)%N -> get P i j \in [:: -1; 0; 1]) ->
  mx_of m n (reduce (Zpos (xI xH)) P) = mx_of m n P.
Proof.
move=> H; apply/matrixP => i j; rewrite !mxE get_reduce modulo_ternary_idem3 //.
by have := H i j (ltn_ord i) (ltn_ord j); rewrite !inE => /or3P [] /eqP ->; auto.
Qed.

Lemma tu_bf_tpivot_fwd m n (M : mat) r c : (r < m)%N -> (c < n)%N ->
  (get M r c = 1 \/ get M r c = -1) ->
  tu_bf m n M = true -> tu_bf m n (tpivot m n M r c) = true.
Proof.
move=> ltr ltc he tu; have /tu_bfP TUP := tu_bf_pivot_raw ltr ltc he tu.
apply/tu_bfP; rewrite /tpivot mx_of_reduce_small //.
exact: TUmx_entries TUP.
Qed.

Lemma mx_of_negcross m n (M : mat) (r c : nat) :
  mx_of m n (mk_mat m n (fun i j => if xorb (Nat.eqb i r) (Nat.eqb j c)
                                    then Z.opp (get M i j) else get M i j)) =
  \matrix_(i < m, j < n) ((if i == r :> nat then -1 else 1) * (if j == c :> nat then -1 else 1) *
                          mx_of m n M i j).
Proof.
apply/matrixP => i j; rewrite !mxE get_mk_mat; [|exact/ltP..].
by rewrite !eqbE; case: eqP => _; case: eqP => _ /=;
   rewrite ?mulrNN ?mul1r ?mulN1r ?mulr1.
Qed.

(* the ternary pivot (kind: reduce 3 after the pivot over Z) neither creates nor destroys TU *)
Theorem tu_bf_tpivot m n (M : mat) r c :
  wf_mat m n M = true -> is_ternary M = true -> (r < m)%N -> (c < n)%N -> get M r c <> 0 ->
  tu_bf m n (tpivot m n M r c) = tu_bf m n M.
Proof.
move=> wf tern ltr ltc nz.
have pm M' : is_ternary M' = true -> get M' r c <> 0 -> get M' r c = 1 \/ get M' r c = -1.
  by move=> t; case: (PivotProofs.get_ternary M' r c t) => [->|[->|->]]; auto.
apply/idP/idP => [tu'|tu]; last by apply: tu_bf_tpivot_fwd => //; apply: pm.
have nz' : get (tpivot m n M r c) r c <> 0.
  rewrite (@ternary_pivot_entries m n M r c wf tern) //; [|exact/ltP..].
  by rewrite !Nat.eqb_refl => h; apply: nz; lia.
have := tu_bf_tpivot_fwd ltr ltc (pm _ (tpivot_ternary m n M r c) nz') tu'.
rewrite ternary_pivot_twice //; [|exact/ltP..].
move=> /tu_bfP; rewrite mx_of_negcross => /TUmx_scale_iff H; apply/tu_bfP; apply: H => i;
  by case: ifP.
Qed.

Corollary tu_bf_reduce3_pivot_raw m n (M : mat) r c :
  wf_mat m n M = true -> is_ternary M = true -> (r < m)%N -> (c < n)%N -> get M r c <> 0 ->
  tu_bf m n (reduce (Zpos (xI xH)) (pivot_raw m n M r c)) = tu_bf m n M.
Proof. exact: tu_bf_tpivot. Qed.

Print Assumptions mx_of_pivot_raw.
Print Assumptions tu_bf_pivot_raw.
Print Assumptions tu_bf_tpivot.
Print Assumptions tu_bf_reduce3_pivot_raw.

(* stdlib-phrased form used by Properties_C10 / Properties_C13 *)
Corollary tu_bf_tpivot_std m n (M : mat) r c :
  wf_mat m n M = true -> is_ternary M = true -> Nat.ltb r m = true -> Nat.ltb c n = true -> get M r c <> 0 ->
  tu_bf m n (reduce (Zpos (xI xH)) (pivot_raw m n M r c)) = tu_bf m n M.
Proof. by rewrite !ltbE => wf tern ltr ltc nz; apply: tu_bf_reduce3_pivot_raw. Qed.

Corollary tu_bf_pivot_raw_std m n (M : mat) r c :
  Nat.ltb r m = true -> Nat.ltb c n = true -> (get M r c = 1 \/ get M r c = -1) ->
  tu_bf m n M = true -> tu_bf m n (pivot_raw m n M r c) = true.
Proof. by rewrite !ltbE => ltr ltc pm; apply: tu_bf_pivot_raw. Qed.
Print Assumptions tu_bf_tpivot_std.

Corollary TUmx_pivot_iff_std m n (A : 'M[Z]_(m, n)) r c : (A r c = 1 \/ A r c = -1) ->
  TUmx (pivmx A r c) <-> TUmx A.
Proof. by move=> h; apply: TUmx_pivot_iff; case: h => ->. Qed.
