(* MatModel.v — C20: the matrix utilities (transpose, permute, slice, support, signed support, determinant, value-type
   conversion, equality / transpose tests, 1-sum) and the submatrix utilities (text round trip, slice, unslice) as
   functions on dense matrices / index lists, and the judge for `matutil` records.  No proofs here. *)
From Cmr Require Import Base Det.
Local Open Scope Z_scope.

Definition sgnz (x : Z) : Z := if x =? 0 then 0 else if 0 <? x then 1 else -1.
Definition signed_support (M : mat) : mat := map (map sgnz) M.
Definition in_char (x : Z) : bool := (-128 <=? x) && (x <=? 127).

Definition block_diag2 (m1 n1 : nat) (A : mat) (m2 n2 : nat) (B : mat) : mat :=
  mk_mat (m1 + m2) (n1 + n2) (fun i j =>
    if Nat.ltb i m1 then (if Nat.ltb j n1 then get A i j else 0)
    else (if Nat.ltb j n1 then 0 else get B (i - m1) (j - n1))).

(* index of x in l *)
Fixpoint index_of (x : nat) (l : list nat) : option nat :=
  match l with
  | [] => None
  | y :: r => if Nat.eqb x y then Some O else match index_of x r with Some k => Some (S k) | None => None end
  end.
Fixpoint map_opt {A B} (f : A -> option B) (l : list A) : option (list B) :=
  match l with
  | [] => Some []
  | x :: r => match f x, map_opt f r with Some y, Some ys => Some (y :: ys) | _, _ => None end
  end.
(* CMRsubmatSlice: `input` (indices of the parent) expressed in the numbering of `base`; defined iff contained *)
Definition sub_slice (base input : list nat) : option (list nat) := map_opt (fun x => index_of x base) input.
(* CMRsubmatUnslice: `input` (indices into `base`) expressed in the numbering of the parent *)
Definition sub_unslice (base input : list nat) : option (list nat) :=
  map_opt (fun k => nth_error base k) input.

Definition dnatlist : dec (list nat) := dlist dnat.
(* permutation arguments: count -1 stands for NULL = identity *)
Definition dperm (k : nat) : dec (list nat) :=
  fun l => match l with
           | c :: r => if c =? -1 then Some (iota 0 k, r) else drep dnat (Z.to_nat c) (if c <? 0 then [] else r)
           | [] => None end.

Definition natlist_eqb' := list_eqb Nat.eqb.

(* the result part of a record: rc kind ... *)
Inductive mres :=
| RNone                                   (* kind 0 *)
| RMat (ty : Z) (x : nat * nat * mat)     (* kind 1: value type, dense view of a well-formed CSR result *)
| RVal (v : Z)                            (* kind 2 *)
| RSub (m n : nat) (rs cs : list nat).    (* kind 3 *)

Definition dres : dec mres :=
  k <- dZ ;;
  if k =? 0 then dret RNone
  else if k =? 1 then (ty <- dZ ;; x <- dcsr_dense ;; dret (RMat ty x))
  else if k =? 2 then (v <- dZ ;; dret (RVal v))
  else if k =? 3 then (m <- dnat ;; n <- dnat ;; rs <- dnatlist ;; cs <- dnatlist ;; dret (RSub m n rs cs))
  else fun _ => None.

Definition mat_is (x : nat * nat * mat) (m n : nat) (M : mat) : bool :=
  let '(m', n', M') := x in Nat.eqb m' m && Nat.eqb n' n && mat_eqb M' M.

(* 0 accepted; 1 malformed record / ill-formed CSR result; 300 call failed; 301 result differs from the model;
   302 wrong result kind; 303 an invalid request was not refused; 304 determinant differs *)
Definition judge_matutil (rec : list Z) : Z :=
  match (op <- dZ ;; ty <- dZ ;; x <- dmat ;; dret (op, ty, x)) rec with
  | Some ((op, ty, (m, n, M)), rest) =>
    let sq := Nat.eqb m n in
    if (op =? 1) || (op =? 4) || (op =? 5) || (op =? 6) || (op =? 7) then
      match (rc <- dZ ;; r <- dres ;; dend (rc, r)) rest with
      | Some ((rc, r), _) =>
        if op =? 6 then
          (if negb sq then (if rc =? 0 then 303 else 0)
           else if negb (rc =? 0) then 300
           else match r with RVal v => if v =? det m M then 0 else 304 | _ => 302 end)
        else if (op =? 7) && (ty =? 1) && negb (mat_forall in_char M) then (if rc =? 0 then 303 else 0)
        else if negb (rc =? 0) then 300
        else match r with
             | RMat ty' x =>
               if op =? 1 then (if (ty' =? ty) && mat_is x n m (transpose m n M) then 0 else 301)
               else if op =? 4 then (if (ty' =? 0) && mat_is x m n (support M) then 0 else 301)
               else if op =? 5 then (if (ty' =? 0) && mat_is x m n (signed_support M) then 0 else 301)
               else (if (ty' =? 1 - ty) && mat_is x m n M then 0 else 301)
             | _ => 302
             end
      | None => 1
      end
    else if (op =? 2) || (op =? 3) then
      match ((if op =? 2 then (rs <- dperm m ;; cs <- dperm n ;; dret (rs, cs))
              else (rs <- dnatlist ;; cs <- dnatlist ;; dret (rs, cs))) rest) with
      | Some ((rs, cs), rest2) =>
        match (rc <- dZ ;; r <- dres ;; dend (rc, r)) rest2 with
        | Some ((rc, r), _) =>
          if negb (all_lt m rs && all_lt n cs) then (if rc =? 0 then 303 else 0)
          else if negb (rc =? 0) then 300
          else match r with
               | RMat ty' x => if (ty' =? ty) && mat_is x (length rs) (length cs) (submat M rs cs) then 0 else 301
               | _ => 302
               end
        | None => 1
        end
      | None => 1
      end
    else if (op =? 8) || (op =? 9) || (op =? 10) then
      match (x2 <- dmat ;; rc <- dZ ;; r <- dres ;; dend (x2, rc, r)) rest with
      | Some (((m2, n2, M2), rc, r), _) =>
        if negb (rc =? 0) then 300
        else if op =? 8 then
          match r with RVal v => if Bool.eqb (v =? 1) (Nat.eqb m m2 && Nat.eqb n n2 && mat_eqb M M2) then 0 else 301 | _ => 302 end
        else if op =? 9 then
          match r with RVal v => if Bool.eqb (v =? 1) (Nat.eqb m n2 && Nat.eqb n m2 && mat_eqb M2 (transpose m n M)) then 0 else 301
                     | _ => 302 end
        else match r with
             | RMat ty' x => if (ty' =? 0) && mat_is x (m + m2) (n + n2) (block_diag2 m n M m2 n2 M2) then 0 else 301
             | _ => 302
             end
      | None => 1
      end
    else if op =? 11 then
      match (rs <- dnatlist ;; cs <- dnatlist ;; rc <- dZ ;; r <- dres ;; dend (rs, cs, rc, r)) rest with
      | Some ((rs, cs, rc, r), _) =>
        if negb (all_lt m rs && all_lt n cs) then 0          (* only in-range submatrices are offered to the printer *)
        else if negb (rc =? 0) then 300
        else match r with
             | RSub m' n' rs' cs' =>
               if Nat.eqb m' m && Nat.eqb n' n && natlist_eqb' rs' rs && natlist_eqb' cs' cs then 0 else 301
             | _ => 302
             end
      | None => 1
      end
    else if (op =? 12) || (op =? 13) then
      match (brs <- dnatlist ;; bcs <- dnatlist ;; irs <- dnatlist ;; ics <- dnatlist ;; rc <- dZ ;; r <- dres ;;
             dend (brs, bcs, irs, ics, rc, r)) rest with
      | Some ((brs, bcs, irs, ics, rc, r), _) =>
        let f := if op =? 12 then sub_slice else sub_unslice in
        match f brs irs, f bcs ics with
        | Some ers, Some ecs =>
          if negb (rc =? 0) then 300
          else match r with
               | RSub _ _ rs' cs' => if natlist_eqb' rs' ers && natlist_eqb' cs' ecs then 0 else 301
               | _ => 302
               end
        | _, _ => if rc =? 0 then 303 else 0
        end
      | None => 1
      end
    else 1
  | None => 1
  end.
