(* TextModel.v — the documented text formats for matrices (doc/file-formats.md): dense and sparse, as parsers and
   printers over byte lists, and the judges for the stream readers and writers (C20).  No proofs here. *)
From Cmr Require Import Base.
Local Open Scope Z_scope.

Definition is_ws (b : Z) : bool := (b =? 32) || ((9 <=? b) && (b <=? 13)).

(* maximal non-whitespace byte sequences *)
Fixpoint tokens_aux (cur : list Z) (bytes : list Z) : list (list Z) :=
  match bytes with
  | [] => match cur with [] => [] | _ => [rev cur] end
  | b :: r => if is_ws b then (match cur with [] => tokens_aux [] r | _ => rev cur :: tokens_aux [] r end)
              else tokens_aux (b :: cur) r
  end.
Definition tokens (bytes : list Z) : list (list Z) := tokens_aux [] bytes.

Definition is_digit (b : Z) : bool := (48 <=? b) && (b <=? 57).
Fixpoint digits_val (acc : Z) (ds : list Z) : Z :=
  match ds with [] => acc | d :: r => digits_val (acc * 10 + (d - 48)) r end.

(* -?[0-9]+ *)
Definition parse_int (tok : list Z) : option Z :=
  match tok with
  | 45 :: ds => match ds with [] => None | _ => if forallb is_digit ds then Some (- digits_val 0 ds) else None end
  | [] => None
  | _ => if forallb is_digit tok then Some (digits_val 0 tok) else None
  end.

(* value ranges of the three matrix types: 0 = char, 1 = int, 2 = double (integer-valued entries only) *)
Definition fits (ty : Z) (v : Z) : bool :=
  if ty =? 0 then (-128 <=? v) && (v <=? 127)
  else if ty =? 1 then (-2147483648 <=? v) && (v <=? 2147483647)
  else (-9007199254740992 <=? v) && (v <=? 9007199254740992).

Inductive tres := TOk (m n : nat) (M : mat) | TErr.

Fixpoint take_ints (k : nat) (toks : list (list Z)) : option (list Z * list (list Z)) :=
  match k with
  | O => Some ([], toks)
  | S k' => match toks with
            | t :: r => match parse_int t, take_ints k' r with
                        | Some v, Some (vs, rest) => Some (v :: vs, rest)
                        | _, _ => None
                        end
            | [] => None
            end
  end.

Fixpoint chunk (n : nat) (k : nat) (l : list Z) : mat :=
  match k with O => [] | S k' => firstn' n l :: chunk n k' (skipn' n l) end.

Definition size_ok (v : Z) : bool := (0 <=? v) && (v <=? 100000).

Definition parse_dense (ty : Z) (bytes : list Z) : tres :=
  match take_ints 2 (tokens bytes) with
  | Some ([m; n], rest) =>
    if size_ok m && size_ok n then
      let mm := Z.to_nat m in let nn := Z.to_nat n in
      match take_ints (mm * nn) rest with
      | Some (vs, _) => if forallb (fits ty) vs then TOk mm nn (chunk nn mm vs) else TErr
      | None => TErr
      end
    else TErr
  | _ => TErr
  end.

(* sparse: m n k then k triples (row, column, value), indices from 1; explicit zeros are dropped; a position given
   twice is an error *)
Fixpoint triples (k : nat) (toks : list (list Z)) : option (list (Z * Z * Z)) :=
  match k with
  | O => Some []
  | S k' => match take_ints 3 toks with
            | Some ([r; c; v], rest) => match triples k' rest with Some l => Some ((r, c, v) :: l) | None => None end
            | _ => None
            end
  end.

Fixpoint dup_pos (l : list (Z * Z * Z)) : bool :=
  match l with
  | [] => false
  | (r, c, _) :: rest => existsb (fun t => (fst (fst t) =? r) && (snd (fst t) =? c)) rest || dup_pos rest
  end.

Definition entry_of (l : list (Z * Z * Z)) (i j : nat) : Z :=
  match filter (fun t => (fst (fst t) =? Z.of_nat i + 1) && (snd (fst t) =? Z.of_nat j + 1)) l with
  | (_, _, v) :: _ => v
  | [] => 0
  end.

Definition parse_sparse (ty : Z) (bytes : list Z) : tres :=
  match take_ints 3 (tokens bytes) with
  | Some ([m; n; k], rest) =>
    if size_ok m && size_ok n && size_ok k then
      match triples (Z.to_nat k) rest with
      | Some l =>
        let nz := filter (fun t => negb (snd t =? 0)) l in
        if forallb (fun t => (1 <=? fst (fst t)) && (fst (fst t) <=? m) && (1 <=? snd (fst t)) && (snd (fst t) <=? n) &&
                             fits ty (snd t)) l && negb (dup_pos nz)
        then TOk (Z.to_nat m) (Z.to_nat n) (mk_mat (Z.to_nat m) (Z.to_nat n) (entry_of nz))
        else TErr
      | None => TErr
      end
    else TErr
  | _ => TErr
  end.

Definition parse (fmt ty : Z) (bytes : list Z) : tres := if fmt =? 0 then parse_dense ty bytes else parse_sparse ty bytes.

(* ---------- printers (the documented formats; whitespace layout as simple as possible) ---------- *)
Fixpoint pos_digits (fuel : nat) (n : Z) (acc : list Z) : list Z :=
  match fuel with
  | O => acc
  | S f => if n <? 10 then (48 + n) :: acc else pos_digits f (n / 10) ((48 + n mod 10) :: acc)
  end.
Definition print_int (v : Z) : list Z :=
  if v <? 0 then 45 :: pos_digits 80 (- v) [] else pos_digits 80 v [].
Definition print_ints (vs : list Z) : list Z := flat_map (fun v => print_int v ++ [32]) vs.
Definition print_dense (m n : nat) (M : mat) : list Z :=
  print_ints [Z.of_nat m; Z.of_nat n] ++ [10] ++ flat_map (fun r => print_ints r ++ [10]) M.
Definition print_sparse (m n : nat) (M : mat) : list Z :=
  let trip := flat_map (fun i => flat_map (fun j => let v := get M i j in
                                  if v =? 0 then [] else [[Z.of_nat i + 1; Z.of_nat j + 1; v]]) (iota 0 n)) (iota 0 m) in
  print_ints [Z.of_nat m; Z.of_nat n; Z.of_nat (length trip)] ++ [10] ++ flat_map (fun t => print_ints t ++ [10]) trip.

(* ---------- judges ---------- *)
Definition dbytes : dec (list Z) := dlist dZ.
Definition dcsr_m : dec (option (nat * nat * mat)) :=
  h <- dbool ;; if h then (x <- dcsr_dense ;; dret (Some x)) else dret None.

(* record (textread): fmt ty bytes rc hasM [csr]    the reader must accept exactly the documented inputs *)
Definition judge_textread (rec : list Z) : Z :=
  match (fmt <- dZ ;; ty <- dZ ;; bytes <- dbytes ;; rc <- dZ ;; res <- dcsr_m ;; dend (fmt, ty, bytes, rc, res)) rec with
  | Some ((fmt, ty, bytes, rc, res), _) =>
    match parse fmt ty bytes with
    | TErr => if rc =? 0 then 303 else 0
    | TOk m n M =>
      if negb (rc =? 0) then 301
      else match res with
           | Some (m', n', R) => if Nat.eqb m m' && Nat.eqb n n' && mat_eqb R M then 0 else 302
           | None => 302
           end
    end
  | None => 1
  end.

(* record (textwrite): fmt ty M bytes(printed by the library) rc2 hasM2 [csr re-read by the library]
   the printed text parses (by the documented grammar) to the same matrix and the library reads it back equal *)
Definition judge_textwrite (rec : list Z) : Z :=
  match (fmt <- dZ ;; ty <- dZ ;; x <- dmat ;; bytes <- dbytes ;; rc2 <- dZ ;; res <- dcsr_m ;;
         dend (fmt, ty, x, bytes, rc2, res)) rec with
  | Some ((fmt, ty, (m, n, M), bytes, rc2, res), _) =>
    if negb (forallb (forallb (fits ty)) M) then 0
    else
      match parse fmt ty bytes with
      | TOk m' n' M' =>
        if negb (Nat.eqb m m' && Nat.eqb n n' && mat_eqb M' M) then 311
        else if negb (rc2 =? 0) then 312
        else match res with
             | Some (m2, n2, R) => if Nat.eqb m m2 && Nat.eqb n n2 && mat_eqb R M then 0 else 313
             | None => 313
             end
      | TErr => 310
      end
  | None => 1
  end.
