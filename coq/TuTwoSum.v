(* TuTwoSum.v -- the 2-sum of two totally unimodular matrices is totally unimodular (and conversely),
   at the level of the textbook definition TUmx, and for the executable model KsumModel.twosum. *)
From Coq Require Import ZArith List.
From mathcomp Require Import all_ssreflect all_fingroup all_algebra.
From mathcomp Require Import ssrZ zify.
From Cmr Require Import Base Det BaseProofs PivotModel PivotProofs KsumModel KsumProofs SpModel RelModel TuProofs TuClosure TuPivot.
Set Implicit Arguments. Unset Strict Implicit. Unset Printing Implicit Defensive.
Import GRing.Theory.
Local Open Scope ring_scope.
Import mathcomp.ssreflect.seq.
Delimit Scope nat_scope with N.

(* ========================================================================================== *)
(* 1. block-triangular determinants of a square matrix of order a + b                          *)
(* ========================================================================================== *)

Lemma det_ur0 a b (S : 'M[Z]_(a + b)) :
  (forall i j, S (lshift b i) (rshift a j) = 0) -> \det S = \det (ulsubmx S) * \det (drsubmx S).
Proof.
move=> H; rewrite -{1}(submxK S).
have -> : ursubmx S = 0 by apply/matrixP => i j; rewrite !mxE H.
by rewrite det_lblock.
Qed.

Lemma det_dl0 a b (S : 'M[Z]_(a + b)) :
  (forall i j, S (rshift a i) (lshift b j) = 0) -> \det S = \det (ulsubmx S) * \det (drsubmx S).
Proof.
move=> H; rewrite -{1}(submxK S).
have -> : dlsubmx S = 0 by apply/matrixP => i j; rewrite !mxE H.
by rewrite det_ublock.
Qed.

(* ========================================================================================== *)
(* 2. gluing two TU matrices along a common column:  [X x 0; 0 y Y]                            *)
(* ========================================================================================== *)

Section Glue.
Variables (m1 n1 m2 n2 : nat).
Variables (X : 'M[Z]_(m1, n1)) (x : 'cV[Z]_m1) (y : 'cV[Z]_m2) (Y : 'M[Z]_(m2, n2)).
Let G : 'M[Z]_(m1 + m2, (n1 + 1) + n2) := block_mx (row_mx X x) 0 (row_mx 0 y) Y.

Lemma gl_ul (i : 'I_(m1 + m2)) (j : 'I_(n1 + 1 + n2)) (hi : (i < m1)%N) (hj : (j < n1 + 1)%N) :
  G i j = (row_mx X x) (Ordinal hi) (Ordinal hj).
Proof.
rewrite /G [LHS]mxE; case: splitP => i' ei; last by lia.
rewrite [LHS]mxE; case: splitP => j' ej; last by lia.
by congr (row_mx X x _ _); apply: val_inj.
Qed.

Lemma gl_ur (i : 'I_(m1 + m2)) (j : 'I_(n1 + 1 + n2)) :
  (i < m1)%N -> (n1 + 1 <= j)%N -> G i j = 0.
Proof.
move=> hi hj; rewrite /G [LHS]mxE; case: splitP => i' ei; last by lia.
rewrite [LHS]mxE; case: splitP => j' ej; last by rewrite mxE.
by have := ltn_ord j'; lia.
Qed.

Lemma gl_dl (i : 'I_(m1 + m2)) (j : 'I_(n1 + 1 + n2)) :
  (m1 <= i)%N -> (j < n1)%N -> G i j = 0.
Proof.
move=> hi hj; rewrite /G [LHS]mxE; case: splitP => i' ei.
  by have := ltn_ord i'; lia.
rewrite [LHS]mxE; case: splitP => j' ej; last by lia.
rewrite [LHS]mxE; case: splitP => j'' ej'; first by rewrite mxE.
by lia.
Qed.

Lemma gl_dr (i : 'I_(m1 + m2)) (j : 'I_(n1 + 1 + n2))
  (hi : (i - m1 < m2)%N) (hj : (j - n1 < 1 + n2)%N) :
  (m1 <= i)%N -> (n1 <= j)%N -> G i j = (row_mx y Y) (Ordinal hi) (Ordinal hj).
Proof.
move=> li lj; rewrite /G [LHS]mxE; case: splitP => i' ei.
  by have := ltn_ord i'; lia.
rewrite [LHS]mxE [RHS]mxE; case: splitP => j' ej.
  rewrite [LHS]mxE; case: splitP => j'' ej'; first by have := ltn_ord j''; lia.
  case: splitP => j3 /= ej3; last by have := ltn_ord j''; lia.
  by rewrite [j'']ord1 [j3]ord1; congr (y _ _); apply: val_inj => /=; lia.
case: splitP => j3 /= ej3; first by have := ltn_ord j3; lia.
by congr (Y _ _); apply: val_inj => /=; lia.
Qed.

Hypotheses (T1 : TUmx (row_mx X x)) (T2 : TUmx (row_mx y Y)).

Lemma glue_core a b (f : 'I_(a + b) -> 'I_(m1 + m2)) (g : 'I_(a + b) -> 'I_(n1 + 1 + n2)) :
  (forall i, (f i < m1)%N = (i < a)%N) ->
  (forall j : 'I_(a + b), (j < a)%N -> (g j < n1 + 1)%N) ->
  (forall j : 'I_(a + b), (a <= j)%N -> (n1 <= g j)%N) ->
  (forall j : 'I_(a + b), (j < a)%N -> (g j < n1)%N) \/
  (forall j : 'I_(a + b), (a <= j)%N -> (n1 + 1 <= g j)%N) ->
  \det (mxsub f g G) \in [:: -1; 0; 1].
Proof.
move=> Hf Hg1 Hg2 Hor.
have fa_lt (i : 'I_a) : (f (lshift b i) < m1)%N by rewrite Hf /=.
have ga_lt (j : 'I_a) : (g (lshift b j) < n1 + 1)%N by apply: Hg1 => /=.
have fb_ge (i : 'I_b) : (m1 <= f (rshift a i))%N by rewrite leqNgt Hf /= -leqNgt leq_addr.
have gb_ge (j : 'I_b) : (n1 <= g (rshift a j))%N by apply: Hg2; rewrite /= leq_addr.
have fb_lt (i : 'I_b) : (f (rshift a i) - m1 < m2)%N.
  by have := ltn_ord (f (rshift a i)); have := fb_ge i; lia.
have gb_lt (j : 'I_b) : (g (rshift a j) - n1 < 1 + n2)%N.
  by have := ltn_ord (g (rshift a j)); have := gb_ge j; lia.
pose fa i := Ordinal (fa_lt i). pose ga j := Ordinal (ga_lt j).
pose fb i := Ordinal (fb_lt i). pose gb j := Ordinal (gb_lt j).
have Eul : ulsubmx (mxsub f g G) = mxsub fa ga (row_mx X x).
  by apply/matrixP => i j; rewrite 3![LHS]mxE [RHS]mxE; apply: gl_ul.
have Edr : drsubmx (mxsub f g G) = mxsub fb gb (row_mx y Y).
  by apply/matrixP => i j; rewrite 3![LHS]mxE [RHS]mxE; apply: gl_dr.
have -> : \det (mxsub f g G) = \det (mxsub fa ga (row_mx X x)) * \det (mxsub fb gb (row_mx y Y)).
  rewrite -Eul -Edr; case: Hor => H.
  - apply: det_dl0 => i j; rewrite [LHS]mxE; apply: gl_dl => //.
    by apply: H => /=.
  - apply: det_ur0 => i j; rewrite [LHS]mxE; apply: gl_ur; first by rewrite Hf /=.
    by apply: H; rewrite /= leq_addr.
by apply: small_mul; [apply: T1 | apply: T2].
Qed.

Lemma glue_inc k (f : 'I_k -> 'I_(m1 + m2)) (g : 'I_k -> 'I_(n1 + 1 + n2)) :
  (forall i j : 'I_k, (i < j)%N -> (f i < f j)%N) ->
  (forall i j : 'I_k, (i < j)%N -> (g i < g j)%N) ->
  \det (mxsub f g G) \in [:: -1; 0; 1].
Proof.
move=> finc ginc.
have [a ak Ha] := inc_split m1 finc.
have [c ck Hc] := inc_split n1 ginc.
have [c' ck' Hc'] := inc_split (n1 + 1) ginc.
case: (ltngtP a c) => [ac|ca|eac].
- (* the rows below a live in fewer than k - a columns *)
  rewrite -det_tr (@det0_pigeon _ _ c a) ?inE ?eqxx ?orbT // => j i jc ai.
  by do 2!rewrite [LHS]mxE; apply: gl_dl; rewrite ?Hc // leqNgt Ha -leqNgt.
- case: (ltnP c' a) => [c'a|ac'].
    rewrite (@det0_pigeon _ _ a c') ?inE ?eqxx ?orbT // => i j ia cj.
    by rewrite [LHS]mxE; apply: gl_ur; rewrite ?Ha // leqNgt Hc' -leqNgt.
  have ltck : (c < k)%N by lia.
  have gc : (n1 <= g (Ordinal ltck))%N by rewrite leqNgt Hc /= ltnn.
  have Hr (j : 'I_k) : (a <= j)%N -> (n1 + 1 <= g j)%N.
    move=> aj; have /ginc : (Ordinal ltck < j)%N by rewrite /=; lia.
    by lia.
  have H1 (j : 'I_k) : (j < a)%N -> (g j < n1 + 1)%N by move=> ja; rewrite Hc'; lia.
  have H2 (j : 'I_k) : (a <= j)%N -> (n1 <= g j)%N by move=> /Hr; lia.
  have e : k = (a + (k - a))%N by lia.
  clear gc; clear ltck.
  move: (k - a)%N e => b e; move: f g {finc ginc Hc Hc'} Ha Hr H1 H2 {ak ck ck'}.
  rewrite e => f g Ha Hr H1 H2.
  by apply: glue_core => //; right.
- have H0 (j : 'I_k) : (j < a)%N -> (g j < n1)%N by rewrite Hc eac.
  have H1 (j : 'I_k) : (j < a)%N -> (g j < n1 + 1)%N by move=> /H0; lia.
  have H2 (j : 'I_k) : (a <= j)%N -> (n1 <= g j)%N by rewrite eac leqNgt -Hc -leqNgt.
  have e : k = (a + (k - a))%N by lia.
  move: (k - a)%N e => b e; move: f g {finc ginc Hc Hc'} Ha H0 H1 H2 {ak ck ck'}.
  rewrite e => f g Ha H0 H1 H2.
  by apply: glue_core => //; left.
Qed.

Theorem TUmx_glue : TUmx (block_mx (row_mx X x) 0 (row_mx 0 y) Y).
Proof.
move=> k f g.
case: (not_inj_witness f) => [finj|[i1 [i2 [ne e]]]]; last first.
  rewrite (determinant_alternate ne) ?inE ?eqxx ?orbT // => j.
  by rewrite !mxE e.
case: (not_inj_witness g) => [ginj|[j1 [j2 [ne e]]]]; last first.
  rewrite -det_tr (determinant_alternate ne) ?inE ?eqxx ?orbT // => i.
  by rewrite !mxE e.
have [s [f' [finc fE]]] := inj_factor finj.
have [t [g' [ginc gE]]] := inj_factor ginj.
have -> : mxsub f g (block_mx (row_mx X x) 0 (row_mx 0 y) Y) =
          row_perm s (col_perm t (mxsub f' g' G)).
  by apply/matrixP => i j; rewrite !mxE fE gE.
rewrite det_row_perm det_col_perm; do 2!apply: small_sign.
exact: glue_inc.
Qed.

End Glue.

(* ========================================================================================== *)
(* 3. the 2-sum                                                                                *)
(* ========================================================================================== *)

(* appending (rather than prepending) a unit column *)
Lemma TUmx_add_unit_col_right m n (X : 'M[Z]_(m, n)) (x : 'cV[Z]_m) (i1 : 'I_m) :
  TUmx X -> (forall i, i != i1 -> x i ord0 = 0) -> x i1 ord0 \in [:: -1; 0; 1] ->
  TUmx (row_mx X x).
Proof.
move=> TX hz hs.
have T : TUmx (row_mx x X).
  apply: (@TUmx_add_unit_col _ _ (row_mx x X) ord0 _ i1).
  - have -> // : col' ord0 (row_mx x X) = X.
    by apply/matrixP => i j; rewrite mxE -rshift1; exact: row_mxEr.
  - move=> i ne; rewrite -(hz i ne) -(row_mxEl x X).
    by congr (row_mx _ _ _ _); apply: val_inj.
  - suff -> : row_mx x X i1 ord0 = x i1 ord0 by [].
    by rewrite -(row_mxEl x X); congr (row_mx _ _ _ _); apply: val_inj.
pose g (j : 'I_(n + 1)) : 'I_(1 + n) :=
  match fintype.split j with inl j' => rshift 1 j' | inr j' => lshift n j' end.
have -> : row_mx X x = mxsub id g (row_mx x X).
  apply/matrixP => i j; rewrite -[j]splitK [RHS]mxE /g unsplitK.
  by case: (fintype.split j) => j' /=; rewrite ?row_mxEl ?row_mxEr.
exact: TUmx_mxsub.
Qed.

Lemma TUmx_entry m n (M : 'M[Z]_(m, n)) i j : TUmx M -> M i j \in [:: -1; 0; 1].
Proof. by move=> /(_ 1%N (fun=> i) (fun=> j)); rewrite det_mx11 mxE. Qed.

Lemma small_prod_pm1 (u v : Z) : u * v \in [:: -1; 0; 1] -> u != 0 -> v != 0 ->
  u \in [:: 1; -1] /\ v \in [:: 1; -1].
Proof.
rewrite !inE => H /eqP nu /eqP nv.
have [hu hv] : (u = 1 \/ u = -1) /\ (v = 1 \/ v = -1).
  by case/or3P: H => /eqP H; nia.
by case: hu => ->; case: hv => ->.
Qed.

Section TwoSum.
Variables (m1 n1 m2 n2 : nat).
Variables (A : 'M[Z]_(m1, n1)) (a : 'rV[Z]_n1) (b : 'cV[Z]_m2) (B : 'M[Z]_(m2, n2)).

(* [A 0 0; a -1 0; 0 b B]: pivoting on the -1 produces the 2-sum (in the other rows and columns) *)
Let xc : 'cV[Z]_(m1 + 1) := col_mx 0 (-1)%:M.
Let P : 'M[Z]_(m1 + 1 + m2, n1 + 1 + n2) := block_mx (row_mx (col_mx A a) xc) 0 (row_mx 0 b) B.
Let r : 'I_(m1 + 1 + m2) := lshift m2 (rshift m1 ord0).
Let c : 'I_(n1 + 1 + n2) := lshift n2 (rshift n1 ord0).
Let fM (i : 'I_(m1 + m2)) : 'I_(m1 + 1 + m2) :=
  match fintype.split i with inl i' => lshift m2 (lshift 1 i') | inr i' => rshift (m1 + 1) i' end.
Let gM (j : 'I_(n1 + n2)) : 'I_(n1 + 1 + n2) :=
  match fintype.split j with inl j' => lshift n2 (lshift 1 j') | inr j' => rshift (n1 + 1) j' end.

Lemma twosum_as_pivot : block_mx A 0 (b *m a) B = mxsub fM gM (pivmx P r c).
Proof.
have Prc : P r c = -1.
  by rewrite /P /r /c block_mxEul row_mxEr col_mxEd mxE eqxx.
apply/matrixP => i j; rewrite -[i]splitK -[j]splitK [RHS]mxE /fM /gM !unsplitK.
case: (fintype.split i) => i'; case: (fintype.split j) => j' /=.
- rewrite block_mxEul [RHS]mxE /r /c !eq_shift.
  rewrite Prc /P !block_mxEul row_mxEl row_mxEr !col_mxEu mxE.
  by rewrite mulr0 mul0r subr0.
- rewrite block_mxEur [RHS]mxE /r /c !eq_shift.
  rewrite Prc /P !block_mxEul !block_mxEur row_mxEr !col_mxEu !mxE.
  by rewrite mulr0 subr0.
- rewrite block_mxEdl [RHS]mxE /r /c !eq_shift.
  rewrite Prc /P !block_mxEul !block_mxEdl !row_mxEl !row_mxEr col_mxEd !mxE big_ord1.
  by rewrite sub0r mulN1r mulNr opprK.
- rewrite block_mxEdr [RHS]mxE /r /c !eq_shift.
  rewrite Prc /P !block_mxEur !block_mxEdr !mxE.
  by rewrite mulr0 subr0.
Qed.

Theorem TUmx_twosum :
  TUmx (col_mx A a) -> TUmx (row_mx b B) -> TUmx (block_mx A 0 (b *m a) B).
Proof.
move=> T1 T2.
have T1' : TUmx (row_mx (col_mx A a) xc).
  apply: (@TUmx_add_unit_col_right _ _ _ _ (rshift m1 ord0)) => //.
  - move=> i; rewrite -[i]splitK; case: (fintype.split i) => i' /=.
      by rewrite /xc col_mxEu mxE.
    by rewrite [i']ord1 eqxx.
  - by rewrite /xc col_mxEd mxE eqxx.
have TP : TUmx P := TUmx_glue T1' T2.
have Prc : P r c \in [:: 1; -1].
  by rewrite /P /r /c block_mxEul row_mxEr col_mxEd mxE eqxx.
rewrite twosum_as_pivot; apply: TUmx_mxsub.
exact: TUmx_pivot.
Qed.

Theorem TUmx_twosum_conv : a != 0 -> b != 0 ->
  TUmx (block_mx A 0 (b *m a) B) -> TUmx (col_mx A a) /\ TUmx (row_mx b B).
Proof.
move=> /rV0Pn [j0 aj0] /cV0Pn [i0 bi0] TU.
set M := block_mx A 0 (b *m a) B in TU.
have [hb ha] : b i0 ord0 \in [:: 1; -1] /\ a ord0 j0 \in [:: 1; -1].
  apply: small_prod_pm1 => //.
  have := TUmx_entry (rshift m1 i0) (lshift n2 j0) TU.
  by rewrite /M block_mxEdl mxE big_ord1.
split.
- pose f1 (i : 'I_(m1 + 1)) : 'I_(m1 + m2) :=
    match fintype.split i with inl i' => lshift m2 i' | inr _ => rshift m1 i0 end.
  pose r1 (i : 'I_(m1 + 1)) : Z :=
    match fintype.split i with inl _ => 1 | inr _ => b i0 ord0 end.
  have -> : col_mx A a = \matrix_(i, j) (r1 i * (fun=> 1) j * mxsub f1 (lshift n2) M i j).
    apply/matrixP => i j; rewrite -[i]splitK [RHS]mxE [mxsub _ _ _ _ _]mxE /f1 /r1 unsplitK.
    case: (fintype.split i) => i' /=.
    - by rewrite col_mxEu block_mxEul !mul1r.
    - rewrite col_mxEd block_mxEdl mxE big_ord1 [i']ord1 mulr1 mulrA pm1_sqr //.
      by rewrite mul1r.
  apply: TUmx_scale => //; last exact: TUmx_mxsub.
  by move=> i; rewrite /r1; case: (fintype.split i).
- pose g2 (j : 'I_(1 + n2)) : 'I_(n1 + n2) :=
    match fintype.split j with inl _ => lshift n2 j0 | inr j' => rshift n1 j' end.
  pose c2 (j : 'I_(1 + n2)) : Z :=
    match fintype.split j with inl _ => a ord0 j0 | inr _ => 1 end.
  have -> : row_mx b B = \matrix_(i, j) ((fun=> 1) i * c2 j * mxsub (@rshift m1 m2) g2 M i j).
    apply/matrixP => i j; rewrite -[j]splitK [RHS]mxE [mxsub _ _ _ _ _]mxE /g2 /c2 unsplitK.
    case: (fintype.split j) => j' /=.
    - rewrite row_mxEl block_mxEdl mxE big_ord1 [j']ord1 mul1r mulrCA pm1_sqr //.
      by rewrite mulr1.
    - by rewrite row_mxEr block_mxEdr !mul1r.
  apply: TUmx_scale => //; last exact: TUmx_mxsub.
  by move=> j; rewrite /c2; case: (fintype.split j).
Qed.

End TwoSum.

(* the transposed variant: special column of the first operand, special row of the second *)
Section TwoSumTr.
Variables (m1 n1 m2 n2 : nat).
Variables (A : 'M[Z]_(m1, n1)) (a : 'cV[Z]_m1) (bt : 'rV[Z]_n2) (D : 'M[Z]_(m2, n2)).

Lemma twosum_tr : (block_mx A (a *m bt) 0 D)^T = block_mx A^T 0 (bt^T *m a^T) D^T.
Proof. by rewrite tr_block_mx trmx0 trmx_mul. Qed.

Theorem TUmx_twosum_tr :
  TUmx (row_mx A a) -> TUmx (col_mx bt D) -> TUmx (block_mx A (a *m bt) 0 D).
Proof.
move=> T1 T2; apply/TUmx_tr_iff; rewrite twosum_tr; apply: TUmx_twosum.
- by rewrite -tr_row_mx; apply: TUmx_tr.
- by rewrite -tr_col_mx; apply: TUmx_tr.
Qed.

Theorem TUmx_twosum_tr_conv : a != 0 -> bt != 0 ->
  TUmx (block_mx A (a *m bt) 0 D) -> TUmx (row_mx A a) /\ TUmx (col_mx bt D).
Proof.
move=> na nb /TUmx_tr; rewrite twosum_tr => /TUmx_twosum_conv.
rewrite -tr_row_mx -tr_col_mx !trmx_eq0 => /(_ na nb) [H1 H2].
by split; apply/TUmx_tr_iff.
Qed.

End TwoSumTr.


(* ========================================================================================== *)
(* 4. list level: the executable 2-sum of KsumModel.v                                          *)
(* ========================================================================================== *)

(* index maps between index sets of equal size *)
Lemma TUmx_mxsub_bij m n m' n' (A : 'M[Z]_(m, n)) (f : 'I_m' -> 'I_m) (g : 'I_n' -> 'I_n) :
  injective f -> injective g -> (m <= m')%N -> (n <= n')%N ->
  TUmx (mxsub f g A) <-> TUmx A.
Proof.
move=> fi gi lm ln; split; last exact: TUmx_mxsub.
have [f' _ fK] : bijective f by apply: inj_card_bij => //; rewrite !card_ord.
have [g' _ gK] : bijective g by apply: inj_card_bij => //; rewrite !card_ord.
move=> /(@TUmx_mxsub _ _ _ _ _ f' g'); rewrite -mxsub_comp.
set A' := (X in TUmx X); suff -> : A' = A by [].
by apply/matrixP => i j; rewrite !mxE /= fK gK.
Qed.

(* the positions 0..k-1 except r, as an injective index map *)
Lemma keep1_map k r : (r < k)%N ->
  exists h : 'I_(k - 1) -> 'I_k,
    [/\ injective h, (forall i, val (h i) != r) &
        forall i, val (h i) = List.nth i (keep_idx k [:: r]) 0%N].
Proof.
move=> lr; have L := keep_idx_length1 k r (elimT ltP lr).
have lt (i : 'I_(k - 1)) : (List.nth i (keep_idx k [:: r]) 0%N < k)%N.
  by apply/ltP; apply: keep_idx_nth_lt; rewrite L; apply/ltP.
exists (fun i => Ordinal (lt i)); split=> //.
- move=> i j /(congr1 val) /= e; apply: val_inj.
  have /(NoDup_nth _ 0%N) H := keep_idx_NoDup k [:: r].
  by apply: H; rewrite ?L; [apply/ltP; exact: ltn_ord | apply/ltP; exact: ltn_ord | exact: e].
- move=> i /=; apply/eqP => e.
  have : In (List.nth i (keep_idx k [:: r]) 0%N) (keep_idx k [:: r]).
    by apply: nth_In; rewrite L; apply/ltP.
  by move=> /keep_idx_In [_]; apply; left.
Qed.

Lemma snoc_map_inj k' k (h : 'I_k' -> 'I_k) (x : 'I_k) :
  injective h -> (forall i, h i != x) ->
  injective (fun i : 'I_(k' + 1) =>
               match fintype.split i with inl i' => h i' | inr _ => x end).
Proof.
move=> hi hx i j; rewrite -[i]splitK -[j]splitK !unsplitK.
case: (fintype.split i) => i'; case: (fintype.split j) => j' //=.
- by move=> /hi ->.
- by move=> e; have := hx i'; rewrite e eqxx.
- by move=> e; have := hx j'; rewrite -e eqxx.
- by rewrite [i']ord1 [j']ord1.
Qed.

Lemma cons_map_inj k' k (h : 'I_k' -> 'I_k) (x : 'I_k) :
  injective h -> (forall i, h i != x) ->
  injective (fun i : 'I_(1 + k') =>
               match fintype.split i with inl _ => x | inr i' => h i' end).
Proof.
move=> hi hx i j; rewrite -[i]splitK -[j]splitK !unsplitK.
case: (fintype.split i) => i'; case: (fintype.split j) => j' //=.
- by rewrite [i']ord1 [j']ord1.
- by move=> e; have := hx j'; rewrite -e eqxx.
- by move=> e; have := hx i'; rewrite e eqxx.
- by move=> /hi ->.
Qed.

Lemma small_or (x : Z) : x \in [:: -1; 0; 1] -> (x = -1 \/ x = 0 \/ x = 1)%Z.
Proof. by rewrite !inE => /or3P [] /eqP ->; auto. Qed.

(* variant 1: special row r1 of M1 (moved to the bottom: N1 = [A; a]), special column c2 of M2 (moved
   to the front: N2 = [b B]); the model's result is the matrix-level 2-sum of N1 and N2 *)
Lemma twosum_row_col_shape m1 n1 (M1 : mat) m2 n2 (M2 : mat) r1 c2 (M : mat) :
  twosum (Zpos (xI xH)) m1 n1 M1 m2 n2 M2 (Some r1) None None (Some c2) = KOk M ->
  (forall i j, (i < m2)%N -> (j < n1)%N -> get M2 i c2 * get M1 r1 j \in [:: -1; 0; 1]) ->
  exists (f : 'I_(m1 - 1 + 1) -> 'I_m1) (g : 'I_(1 + (n2 - 1)) -> 'I_n2),
    let N1 := mxsub f id (mx_of m1 n1 M1) in
    let N2 := mxsub id g (mx_of m2 n2 M2) in
    [/\ injective f, injective g,
        (forall i, val (f (rshift (m1 - 1) i)) = r1),
        (forall j, val (g (lshift (n2 - 1) j)) = c2) &
        mx_of (m1 - 1 + m2) (n1 + (n2 - 1)) M =
        block_mx (usubmx N1) 0 (lsubmx N2 *m dsubmx N1) (rsubmx N2)].
Proof.
move=> /twosum_spec_row_col /= [[/ltP lr1 /ltP lc2] [[L1 L2] [_ [Hul [Hur [Hdl Hdr]]]]]] sm.
rewrite !length_iota L1 L2 in Hul Hur Hdl Hdr.
have [hR [hRi hRr hRE]] := keep1_map lr1.
have [hC [hCi hCc hCE]] := keep1_map lc2.
exists (fun i => match fintype.split i with inl i' => hR i' | inr _ => Ordinal lr1 end).
exists (fun j => match fintype.split j with inl _ => Ordinal lc2 | inr j' => hC j' end).
split.
- exact: snoc_map_inj.
- exact: cons_map_inj.
- by move=> i; rewrite (unsplitK (inr i)).
- by move=> j; rewrite (unsplitK (inl j)).
apply/matrixP => i j; rewrite -[i]splitK -[j]splitK [LHS]mxE.
case: (fintype.split i) => i'; case: (fintype.split j) => j' /=.
- rewrite block_mxEul !mxE (unsplitK (inl i')) Hul ?KsumProofs.nth_iota ?hRE //; exact/ltP.
- rewrite block_mxEur mxE Hur //; exact/ltP.
- rewrite block_mxEdl mxE big_ord1 !mxE (unsplitK (inl ord0)) (unsplitK (inr ord0)) /= Hdl;
    [|exact/ltP..].
  by apply: modulo_ternary_idem3; apply: small_or; apply: sm.
- rewrite block_mxEdr !mxE (unsplitK (inr j')) Hdr ?KsumProofs.nth_iota ?hCE //; exact/ltP.
Qed.

(* variant 2: special column c1 of M1 (moved to the end: N1 = [A a]), special row r2 of M2 (moved to
   the top: N2 = [b^T; D]) *)
Lemma twosum_col_row_shape m1 n1 (M1 : mat) m2 n2 (M2 : mat) c1 r2 (M : mat) :
  twosum (Zpos (xI xH)) m1 n1 M1 m2 n2 M2 None (Some c1) (Some r2) None = KOk M ->
  (forall i j, (i < m1)%N -> (j < n2)%N -> get M1 i c1 * get M2 r2 j \in [:: -1; 0; 1]) ->
  exists (g : 'I_(n1 - 1 + 1) -> 'I_n1) (f : 'I_(1 + (m2 - 1)) -> 'I_m2),
    let N1 := mxsub id g (mx_of m1 n1 M1) in
    let N2 := mxsub f id (mx_of m2 n2 M2) in
    [/\ injective g, injective f,
        (forall j, val (g (rshift (n1 - 1) j)) = c1),
        (forall i, val (f (lshift (m2 - 1) i)) = r2) &
        mx_of (m1 + (m2 - 1)) (n1 - 1 + n2) M =
        block_mx (lsubmx N1) (rsubmx N1 *m usubmx N2) 0 (dsubmx N2)].
Proof.
move=> /twosum_spec_col_row /= [[/ltP lc1 /ltP lr2] [[L1 L2] [_ [Hul [Hur [Hdl Hdr]]]]]] sm.
rewrite !length_iota L1 L2 in Hul Hur Hdl Hdr.
have [hC [hCi hCc hCE]] := keep1_map lc1.
have [hR [hRi hRr hRE]] := keep1_map lr2.
exists (fun j => match fintype.split j with inl j' => hC j' | inr _ => Ordinal lc1 end).
exists (fun i => match fintype.split i with inl _ => Ordinal lr2 | inr i' => hR i' end).
split.
- exact: snoc_map_inj.
- exact: cons_map_inj.
- by move=> j; rewrite (unsplitK (inr j)).
- by move=> i; rewrite (unsplitK (inl i)).
apply/matrixP => i j; rewrite -[i]splitK -[j]splitK [LHS]mxE.
case: (fintype.split i) => i'; case: (fintype.split j) => j' /=.
- rewrite block_mxEul !mxE (unsplitK (inl j')) Hul ?KsumProofs.nth_iota ?hCE //; exact/ltP.
- rewrite block_mxEur mxE big_ord1 !mxE (unsplitK (inl ord0)) (unsplitK (inr ord0)) /= Hur;
    [|exact/ltP..].
  by apply: modulo_ternary_idem3; apply: small_or; apply: sm.
- rewrite block_mxEdl mxE Hdl //; exact/ltP.
- rewrite block_mxEdr !mxE (unsplitK (inr i')) Hdr ?KsumProofs.nth_iota ?hRE //; exact/ltP.
Qed.

Lemma small_get_mul m1 n1 (M1 : mat) m2 n2 (M2 : mat) i1 j1 i2 j2 :
  TUmx (mx_of m1 n1 M1) -> TUmx (mx_of m2 n2 M2) ->
  (i1 < m1)%N -> (j1 < n1)%N -> (i2 < m2)%N -> (j2 < n2)%N ->
  get M1 i1 j1 * get M2 i2 j2 \in [:: -1; 0; 1].
Proof. by move=> T1 T2 *; apply: small_mul; [apply: TUmx_entries T1 _ _ _ _ | apply: TUmx_entries T2 _ _ _ _]. Qed.

Lemma twosum_row_col_bounds p m1 n1 (M1 : mat) m2 n2 (M2 : mat) r1 c2 (M : mat) :
  twosum p m1 n1 M1 m2 n2 M2 (Some r1) None None (Some c2) = KOk M -> (r1 < m1)%N /\ (c2 < n2)%N.
Proof. by move=> /twosum_spec_row_col /= [[/ltP lr1 /ltP lc2] _]. Qed.

Lemma twosum_col_row_bounds p m1 n1 (M1 : mat) m2 n2 (M2 : mat) c1 r2 (M : mat) :
  twosum p m1 n1 M1 m2 n2 M2 None (Some c1) (Some r2) None = KOk M -> (c1 < n1)%N /\ (r2 < m2)%N.
Proof. by move=> /twosum_spec_col_row /= [[/ltP lc1 /ltP lr2] _]. Qed.

(* ---- variant 1 (special row of M1, special column of M2) ---- *)

Theorem tu_bf_twosum_row_col m1 n1 (M1 : mat) m2 n2 (M2 : mat) r1 c2 (M : mat) :
  twosum (Zpos (xI xH)) m1 n1 M1 m2 n2 M2 (Some r1) None None (Some c2) = KOk M ->
  tu_bf m1 n1 M1 = true -> tu_bf m2 n2 M2 = true ->
  tu_bf (m1 - 1 + m2) (n1 + (n2 - 1)) M = true.
Proof.
move=> tw /tu_bfP T1 /tu_bfP T2; have [lr1 lc2] := twosum_row_col_bounds tw.
have [f [g /= [_ _ _ _ EM]]] :=
  twosum_row_col_shape tw (fun i j hi hj => small_get_mul T2 T1 hi lc2 lr1 hj).
by apply/tu_bfP; rewrite EM; apply: TUmx_twosum; rewrite ?vsubmxK ?hsubmxK; apply: TUmx_mxsub.
Qed.

(* the statement in the form requested by the checks (well-formedness is not needed) *)
Corollary tu_bf_twosum m1 n1 (M1 : mat) m2 n2 (M2 : mat) r1 c2 (M : mat) :
  twosum (Zpos (xI xH)) m1 n1 M1 m2 n2 M2 (Some r1) None None (Some c2) = KOk M ->
  wf_mat m1 n1 M1 = true -> wf_mat m2 n2 M2 = true ->
  tu_bf m1 n1 M1 = true -> tu_bf m2 n2 M2 = true ->
  tu_bf (m1 - 1 + m2) (n1 + (n2 - 1)) M = true.
Proof. by move=> tw _ _; apply: tu_bf_twosum_row_col tw. Qed.

Theorem tu_bf_twosum_row_col_conv m1 n1 (M1 : mat) m2 n2 (M2 : mat) r1 c2 (M : mat) :
  twosum (Zpos (xI xH)) m1 n1 M1 m2 n2 M2 (Some r1) None None (Some c2) = KOk M ->
  is_ternary M1 = true -> is_ternary M2 = true ->
  (exists j, (j < n1)%N /\ get M1 r1 j <> Z0) -> (exists i, (i < m2)%N /\ get M2 i c2 <> Z0) ->
  tu_bf (m1 - 1 + m2) (n1 + (n2 - 1)) M = true ->
  tu_bf m1 n1 M1 = true /\ tu_bf m2 n2 M2 = true.
Proof.
move=> tw t1 t2 [j0 [lj0 nz1]] [i0 [li0 nz2]] /tu_bfP TU.
have [lr1 lc2] := twosum_row_col_bounds tw.
have [f [g /= [fi gi fr gc EM]]] :=
  twosum_row_col_shape tw (fun i j _ _ => small_mul (TuClosure.get_ternary i c2 t2)
                                                     (TuClosure.get_ternary r1 j t1)).
rewrite EM in TU.
have na : dsubmx (mxsub f id (mx_of m1 n1 M1)) != 0.
  by apply/rV0Pn; exists (Ordinal lj0); rewrite !mxE fr; apply/eqP.
have nb : lsubmx (mxsub id g (mx_of m2 n2 M2)) != 0.
  by apply/cV0Pn; exists (Ordinal li0); rewrite !mxE gc; apply/eqP.
have [] := TUmx_twosum_conv na nb TU; rewrite vsubmxK hsubmxK => H1 H2.
split; apply/tu_bfP.
- by apply/(TUmx_mxsub_bij _ fi (@inj_id _)) => //; lia.
- by apply/(TUmx_mxsub_bij _ (@inj_id _) gi) => //; lia.
Qed.

(* ---- variant 2 (special column of M1, special row of M2) ---- *)

Theorem tu_bf_twosum_col_row m1 n1 (M1 : mat) m2 n2 (M2 : mat) c1 r2 (M : mat) :
  twosum (Zpos (xI xH)) m1 n1 M1 m2 n2 M2 None (Some c1) (Some r2) None = KOk M ->
  tu_bf m1 n1 M1 = true -> tu_bf m2 n2 M2 = true ->
  tu_bf (m1 + (m2 - 1)) (n1 - 1 + n2) M = true.
Proof.
move=> tw /tu_bfP T1 /tu_bfP T2; have [lc1 lr2] := twosum_col_row_bounds tw.
have [g [f /= [_ _ _ _ EM]]] :=
  twosum_col_row_shape tw (fun i j hi hj => small_get_mul T1 T2 hi lc1 lr2 hj).
by apply/tu_bfP; rewrite EM; apply: TUmx_twosum_tr; rewrite ?vsubmxK ?hsubmxK; apply: TUmx_mxsub.
Qed.

Theorem tu_bf_twosum_col_row_conv m1 n1 (M1 : mat) m2 n2 (M2 : mat) c1 r2 (M : mat) :
  twosum (Zpos (xI xH)) m1 n1 M1 m2 n2 M2 None (Some c1) (Some r2) None = KOk M ->
  is_ternary M1 = true -> is_ternary M2 = true ->
  (exists i, (i < m1)%N /\ get M1 i c1 <> Z0) -> (exists j, (j < n2)%N /\ get M2 r2 j <> Z0) ->
  tu_bf (m1 + (m2 - 1)) (n1 - 1 + n2) M = true ->
  tu_bf m1 n1 M1 = true /\ tu_bf m2 n2 M2 = true.
Proof.
move=> tw t1 t2 [i0 [li0 nz1]] [j0 [lj0 nz2]] /tu_bfP TU.
have [lc1 lr2] := twosum_col_row_bounds tw.
have [g [f /= [gi fi gc fr EM]]] :=
  twosum_col_row_shape tw (fun i j _ _ => small_mul (TuClosure.get_ternary i c1 t1)
                                                     (TuClosure.get_ternary r2 j t2)).
rewrite EM in TU.
have na : rsubmx (mxsub id g (mx_of m1 n1 M1)) != 0.
  by apply/cV0Pn; exists (Ordinal li0); rewrite !mxE gc; apply/eqP.
have nb : usubmx (mxsub f id (mx_of m2 n2 M2)) != 0.
  by apply/rV0Pn; exists (Ordinal lj0); rewrite !mxE fr; apply/eqP.
have [] := TUmx_twosum_tr_conv na nb TU; rewrite vsubmxK hsubmxK => H1 H2.
split; apply/tu_bfP.
- by apply/(TUmx_mxsub_bij _ (@inj_id _) gi) => //; lia.
- by apply/(TUmx_mxsub_bij _ fi (@inj_id _)) => //; lia.
Qed.

Print Assumptions TUmx_glue.
Print Assumptions TUmx_twosum.
Print Assumptions TUmx_twosum_conv.
Print Assumptions TUmx_twosum_tr.
Print Assumptions TUmx_twosum_tr_conv.
Print Assumptions tu_bf_twosum_row_col.
Print Assumptions tu_bf_twosum.
Print Assumptions tu_bf_twosum_row_col_conv.
Print Assumptions tu_bf_twosum_col_row.
Print Assumptions tu_bf_twosum_col_row_conv.
