(* NetworkSpec.v -- what check_network_cert establishes, in the form needed for total unimodularity:
   (a) the telescoping ("potential") identity: for every node potential pi and every column j,
         sum_{i<m} (pi (head T_i) - pi (tail T_i)) * M i j = pi (head C_j) - pi (tail C_j),
       i.e. D_T * M = D_C for the node-arc incidence matrices of the forest arcs T and the coforest arcs C;
   (b) facts about leaves of forests used to show that D_T has a unimodular square row submatrix.
   Standard-library style, no MathComp. *)
From Coq Require Import List ZArith Bool Lia Permutation.
From Cmr Require Import Base Det BaseProofs GraphModel GraphProofs.
Import ListNotations.
Local Open Scope Z_scope.

(* ------------------------------------------------------------------------------------------ *)
(* sums                                                                                         *)
(* ------------------------------------------------------------------------------------------ *)

Fixpoint zsum (f : nat -> Z) (k : nat) : Z :=
  match k with O => 0 | S k' => zsum f k' + f k' end.

Definition lsum (l : list Z) : Z := fold_right Z.add 0 l.

Lemma zsum_ext : forall f g k, (forall i, (i < k)%nat -> f i = g i) -> zsum f k = zsum g k.
Proof.
  intros f g; induction k as [|k IH]; intros H; simpl; [reflexivity|].
  rewrite IH, H; auto.
Qed.

Lemma zsum_shift : forall f k, zsum f (S k) = f O + zsum (fun i => f (S i)) k.
Proof.
  intros f; induction k as [|k IH]; [simpl; lia|].
  change (zsum f (S (S k))) with (zsum f (S k) + f (S k)). rewrite IH. simpl. lia.
Qed.

Lemma zsum_nth : forall (h : edge -> Z) T,
  zsum (fun i => h (nth i T dflt)) (length T) = lsum (map h T).
Proof.
  intros h; induction T as [|a T IH]; [reflexivity|].
  simpl length. rewrite zsum_shift. simpl. rewrite IH. reflexivity.
Qed.

Lemma lsum_add : forall (a b : edge -> Z) T,
  lsum (map (fun e => a e + b e) T) = lsum (map a T) + lsum (map b T).
Proof. intros a b; induction T as [|x T IH]; simpl; [reflexivity | rewrite IH; lia]. Qed.

Lemma lsum_scal : forall c (a : edge -> Z) T,
  lsum (map (fun e => c * a e) T) = c * lsum (map a T).
Proof. intros c a; induction T as [|x T IH]; simpl; [lia | rewrite IH; lia]. Qed.

Lemma lsum_zero : forall (a : edge -> Z) T, (forall e, In e T -> a e = 0) -> lsum (map a T) = 0.
Proof.
  intros a; induction T as [|x T IH]; intros H; simpl; [reflexivity|].
  rewrite H, IH; simpl; auto. intros e He. apply H. simpl; auto.
Qed.

Lemma lsum_ext : forall (a b : edge -> Z) T, (forall e, In e T -> a e = b e) ->
  lsum (map a T) = lsum (map b T).
Proof. intros a b T H. f_equal. apply map_ext_in. exact H. Qed.

(* ------------------------------------------------------------------------------------------ *)
(* telescoping along a walk                                                                     *)
(* ------------------------------------------------------------------------------------------ *)

Definition sgn (b : bool) : Z := if b then 1 else -1.
Definition pd (pi : nat -> Z) (e : edge) : Z := pi (e_v e) - pi (e_u e).

Definition walk_sum (pi : nat -> Z) (p : list (edge * bool)) : Z :=
  fold_right (fun q acc => sgn (snd q) * pd pi (fst q) + acc) 0 p.

Lemma walk_telescope : forall pi es x y p, is_walk es x y p -> walk_sum pi p = pi y - pi x.
Proof.
  intros pi es x y p H; induction H as [x|x y e fwd p Hin Hs Hw IH]; simpl; [lia|].
  fold (walk_sum pi p). rewrite IH. unfold pd, sgn. destruct fwd; subst x; lia.
Qed.

(* coefficient of the edge e in the signed edge set of p *)
Definition coef (p : list (edge * bool)) (e : edge) : Z :=
  fold_right (fun q acc => (if edge_eq_dec (fst q) e then sgn (snd q) else 0) + acc) 0 p.

Lemma coef_notin : forall p e, ~ In e (map fst p) -> coef p e = 0.
Proof.
  induction p as [|q p IH]; intros e H; simpl; [reflexivity|].
  destruct (edge_eq_dec (fst q) e) as [E|E].
  - exfalso. apply H. simpl; auto.
  - rewrite IH; [reflexivity|]. intros Hin. apply H. simpl; auto.
Qed.

Lemma coef_in : forall p e b, NoDup (map fst p) -> In (e, b) p -> coef p e = sgn b.
Proof.
  induction p as [|q p IH]; intros e b Hnd Hin; simpl in *; [contradiction|].
  inversion Hnd as [|x l Hx Hnd']; subst.
  destruct Hin as [E|Hin].
  - subst q. simpl in *. destruct (edge_eq_dec e e) as [_|N]; [|congruence].
    rewrite coef_notin; [lia | exact Hx].
  - destruct (edge_eq_dec (fst q) e) as [E|E].
    + exfalso. apply Hx. rewrite E. apply (in_map fst) in Hin. exact Hin.
    + rewrite (IH e b); auto.
Qed.

Lemma lsum_pick : forall (g : edge -> Z) e0 T, NoDup T -> In e0 T ->
  lsum (map (fun e => g e * (if edge_eq_dec e0 e then 1 else 0)) T) = g e0.
Proof.
  intros g e0; induction T as [|x T IH]; intros Hnd Hin; simpl in *; [contradiction|].
  inversion Hnd as [|y l Hx Hnd']; subst.
  destruct (edge_eq_dec e0 x) as [E|E].
  - subst x. rewrite lsum_zero; [lia|].
    intros e He. destruct (edge_eq_dec e0 e) as [E'|E']; [subst; contradiction | lia].
  - destruct Hin as [Hin|Hin]; [congruence|]. rewrite IH; auto. lia.
Qed.

(* re-indexing: the sum over the forest of (g e) * (coefficient of e in p) is the sum over the steps of p *)
Lemma lsum_coef : forall (g : edge -> Z) T, NoDup T ->
  forall p, (forall q, In q p -> In (fst q) T) ->
  lsum (map (fun e => g e * coef p e) T) =
  fold_right (fun q acc => sgn (snd q) * g (fst q) + acc) 0 p.
Proof.
  intros g T HT; induction p as [|q p IH]; intros Hsub; simpl.
  - apply lsum_zero. intros; lia.
  - rewrite <- IH; [|intros q' Hq'; apply Hsub; simpl; auto].
    rewrite <- (lsum_pick g (fst q) T HT); [|apply Hsub; simpl; auto].
    rewrite <- lsum_scal, <- lsum_add. apply lsum_ext. intros e He.
    destruct (edge_eq_dec (fst q) e); lia.
Qed.

(* ------------------------------------------------------------------------------------------ *)
(* the certificate check gives the potential identity                                           *)
(* ------------------------------------------------------------------------------------------ *)

Definition potential_spec (m n : nat) (M : mat) (T C : list edge) : Prop :=
  forall (pi : nat -> Z) j, (j < n)%nat ->
    zsum (fun i => pd pi (nth i T dflt) * get M i j) m = pd pi (nth j C dflt).

Theorem check_network_cert_potential : forall m n M G rev forest coforest,
  check_network_cert m n M G rev forest coforest = true ->
  exists T C,
    lookup_all (map (orient rev) (g_edges G)) forest = Some T /\ length T = m /\
    lookup_all (map (orient rev) (g_edges G)) coforest = Some C /\ length C = n /\
    NoDup T /\ is_forest T /\ potential_spec m n M T C.
Proof.
  intros m n M G rev forest coforest H. unfold check_network_cert in H.
  apply andb_true_iff in H; destruct H as [H Hcols].
  apply andb_true_iff in H; destruct H as [H Hcover].
  apply andb_true_iff in H; destruct H as [H Hnd].
  apply andb_true_iff in H; destruct H as [H Hlc].
  apply andb_true_iff in H; destruct H as [Hok Hlf].
  apply Nat.eqb_eq in Hlc, Hlf. apply nodupn_NoDup in Hnd.
  destruct (lookup_all (map (orient rev) (g_edges G)) forest) as [T|] eqn:ET; [|discriminate].
  destruct (lookup_all (map (orient rev) (g_edges G)) coforest) as [C|] eqn:EC; [|discriminate].
  apply andb_true_iff in Hcols; destruct Hcols as [Hacyc Hcols].
  destruct (lookup_all_spec _ _ _ ET) as [TI [TIn TL]].
  destruct (lookup_all_spec _ _ _ EC) as [CI [CIn CL]].
  assert (HndT : NoDup (map e_id T)).
  { rewrite TI. eapply NoDup_app_l; eauto. }
  assert (HT : NoDup T) by (eapply NoDup_map_NoDup; eauto).
  assert (HlenT : length T = m) by congruence.
  exists T, C. repeat split; try congruence; auto.
  - apply acyclic_forest. exact Hacyc.
  - intros pi j Hj. rewrite forallb_forall in Hcols.
    assert (Hin : In j (iota 0 n)) by (apply in_iota; lia).
    specialize (Hcols j Hin). cbv beta in Hcols.
    destruct (nth_error C j) as [f|] eqn:EF; [|discriminate].
    cbv zeta in Hcols.
    destruct (path_of (map (fun i => nth i T {| e_id := 0; e_u := 0; e_v := 0 |}) (col_support m M j))
                      (e_u f) (e_v f)) as [p|] eqn:EP; [|discriminate].
    destruct (column_path m M T j _ _ p HndT HlenT EP) as [Hsp [Hndp Hiff]].
    rewrite (nth_error_nth _ _ dflt EF).
    destruct Hsp as [Hw Hnodes].
    (* entries are the coefficients of the forest arcs in p *)
    assert (Hentry : forall i, (i < m)%nat -> get M i j = coef p (nth i T dflt)).
    { intros i Hi. destruct (Z.eq_dec (get M i j) 0) as [E0|Hnz].
      - rewrite E0. symmetry. apply coef_notin. intros Hin'. apply Hiff in Hin'; auto.
      - rewrite forallb_forall in Hcols.
        assert (Hrow : In i (col_support m M j)) by (apply col_support_In; auto).
        specialize (Hcols i Hrow). cbv beta zeta in Hcols.
        apply existsb_exists in Hcols. destruct Hcols as [[e b] [Hq Hc]].
        apply andb_true_iff in Hc. destruct Hc as [Hid Hval]. simpl in Hid, Hval.
        apply Nat.eqb_eq in Hid. apply Z.eqb_eq in Hval.
        assert (e = nth i T dflt).
        { apply (NoDup_map_inj _ _ e_id T); auto.
          - apply (is_walk_edges _ _ _ _ Hw (e, b) Hq).
          - apply nth_In. lia. }
        subst e. rewrite (coef_in p _ b Hndp Hq). rewrite Hval. destruct b; reflexivity. }
    pose proof (zsum_nth (fun e => pd pi e * coef p e) T) as Hz. cbv beta in Hz.
    rewrite (zsum_ext _ (fun i => pd pi (nth i T dflt) * coef p (nth i T dflt)));
      [|intros i Hi; rewrite Hentry; auto].
    rewrite <- HlenT, Hz, (lsum_coef (pd pi) T HT p).
    + apply (walk_telescope pi T _ _ p Hw).
    + intros q Hq. eapply is_walk_edges; eauto.
Qed.

(* ------------------------------------------------------------------------------------------ *)
(* leaves of forests                                                                            *)
(* ------------------------------------------------------------------------------------------ *)

Lemma degree0_not_incident : forall L z e, degree L z = O -> In e L -> e_u e <> z /\ e_v e <> z.
Proof.
  intros L z e Hd Hin.
  destruct (incident e z) eqn:Hi.
  - pose proof (degree_incident_ge _ _ _ Hin Hi). lia.
  - unfold incident in Hi. apply orb_false_iff in Hi. destruct Hi as [A B].
    apply Nat.eqb_neq in A. apply Nat.eqb_neq in B. auto.
Qed.

(* the leaf edge e of l1 ++ e :: l2: it has an end node z, it is not a loop, and no other edge touches z *)
Lemma forest_leaf_facts : forall l1 e l2,
  is_loop e = false ->
  (degree (l1 ++ e :: l2) (e_u e) = 1%nat \/ degree (l1 ++ e :: l2) (e_v e) = 1%nat) ->
  exists z, (z = e_u e \/ z = e_v e) /\ e_u e <> e_v e /\
            forall e', In e' (l1 ++ l2) -> e_u e' <> z /\ e_v e' <> z.
Proof.
  intros l1 e l2 Hloop Hdeg.
  unfold is_loop in Hloop. apply Nat.eqb_neq in Hloop.
  assert (Hz : exists z, (z = e_u e \/ z = e_v e) /\ degree (l1 ++ e :: l2) z = 1%nat).
  { destruct Hdeg as [H|H]; [exists (e_u e) | exists (e_v e)]; auto. }
  destruct Hz as [z [Hz Hd]]. exists z. split; [exact Hz|]. split; [exact Hloop|].
  assert (Hinc : incident e z = true).
  { destruct Hz as [-> | ->]; [apply incident_u | apply incident_v]. }
  pose proof (contrib_incident _ _ Hinc) as Hc.
  rewrite degree_app, degree_cons in Hd.
  assert (Hd0 : degree (l1 ++ l2) z = O) by (rewrite degree_app; lia).
  intros e' He'. eapply degree0_not_incident; eauto.
Qed.

Lemma in_mid_iff : forall (l1 l2 : list edge) e e',
  In e' (l1 ++ e :: l2) <-> e' = e \/ In e' (l1 ++ l2).
Proof.
  intros l1 l2 e e'. rewrite !in_app_iff. simpl. intuition congruence.
Qed.

(* a bound on the node numbers of an edge list *)
Definition node_bound (es : list edge) : nat :=
  S (fold_right (fun e acc => Nat.max (Nat.max (e_u e) (e_v e)) acc) O es).

Lemma node_bound_spec : forall es e, In e es -> (e_u e < node_bound es /\ e_v e < node_bound es)%nat.
Proof.
  unfold node_bound. induction es as [|a es IH]; intros e H; simpl in *; [contradiction|].
  destruct H as [->|H]; [lia|]. specialize (IH e H). lia.
Qed.

(* injectivity of nth on a NoDup list, and membership, in the form used on the MathComp side *)
Lemma nth_inj_NoDup : forall (T : list edge) i j, NoDup T -> (i < length T)%nat -> (j < length T)%nat ->
  nth i T dflt = nth j T dflt -> i = j.
Proof. intros T i j H Hi Hj E. eapply (proj1 (NoDup_nth T dflt) H); eauto. Qed.

Lemma In_nth_iff : forall (T : list edge) e, In e T <-> exists i, (i < length T)%nat /\ nth i T dflt = e.
Proof.
  intros T e. split.
  - intros H. destruct (In_nth T e dflt H) as [i [A B]]. exists i; auto.
  - intros [i [A B]]. subst e. apply nth_In. exact A.
Qed.

Print Assumptions check_network_cert_potential.
Print Assumptions forest_leaf_facts.
