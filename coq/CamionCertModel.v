(* CamionCertModel.v — C09 at every size for matrices whose support is certified regular: the case carries a matrix N with the
   same support as the input M that is certified totally unimodular (network matrix with its digraph, or series-parallel).
   Scaling rows and columns of N by -1 keeps it totally unimodular (TuClosure.tu_bf_scale), and by Camion's theorem
   (CamionUnique.v) every totally unimodular matrix with that support is such a scaling.  Hence: the signed output must be a
   scaling of N, and the signedness test must answer yes exactly when M is one.  No proofs here. *)
From Cmr Require Import Base Det TuModel GraphModel SpModel TuNetModel CamionModel RelModel.
Local Open Scope Z_scope.

Definition set_nth (l : list Z) (k : nat) (x : Z) : list Z :=
  map (fun p => if Nat.eqb (fst p) k then x else snd p) (combine (iota 0 (length l)) l).

(* one propagation pass over all entries of the common support: a known sign on one side of a nonzero entry determines the other
   (signs: 1 / -1, 0 = not yet determined); q = M_ij * N_ij is the factor the entry demands for r_i * c_j *)
Definition prop_entry (N M : mat) (st : list Z * list Z) (ij : nat * nat) : list Z * list Z :=
  let '(rs, cs) := st in
  let '(i, j) := ij in
  if get N i j =? 0 then st
  else
    let q := get M i j * get N i j in
    let r := nthZ rs i in let c := nthZ cs j in
    if negb (r =? 0) && (c =? 0) then (rs, set_nth cs j (q * r))
    else if (r =? 0) && negb (c =? 0) then (set_nth rs i (q * c), cs)
    else st.

Definition all_pairs (m n : nat) : list (nat * nat) := flat_map (fun i => map (fun j => (i, j)) (iota 0 n)) (iota 0 m).

Definition prop_pass (m n : nat) (N M : mat) (st : list Z * list Z) : list Z * list Z :=
  fold_left (prop_entry N M) (all_pairs m n) st.

Fixpoint first_zero (l : list Z) (k : nat) : option nat :=
  match l with [] => None | x :: r => if x =? 0 then Some k else first_zero r (S k) end.

Definition count_known (st : list Z * list Z) : nat :=
  length (filter (fun x => negb (x =? 0)) (fst st)) + length (filter (fun x => negb (x =? 0)) (snd st)).

(* propagate until nothing changes; then give the first undetermined row (else column) the sign 1 and go on *)
Fixpoint solve_signs (fuel m n : nat) (N M : mat) (st : list Z * list Z) : list Z * list Z :=
  match fuel with
  | O => st
  | S f =>
    let st' := prop_pass m n N M st in
    if Nat.ltb (count_known st) (count_known st') then solve_signs f m n N M st'
    else match first_zero (fst st) 0 with
         | Some i => solve_signs f m n N M (set_nth (fst st) i 1, snd st)
         | None => match first_zero (snd st) 0 with
                   | Some j => solve_signs f m n N M (fst st, set_nth (snd st) j 1)
                   | None => st
                   end
         end
  end.

Definition scaled (m n : nat) (N : mat) (rs cs : list Z) : mat :=
  mk_mat m n (fun i j => nthZ rs i * nthZ cs j * get N i j).

(* is M (m x n) obtained from N by multiplying rows and columns by -1?  the candidate signs are verified entry by entry *)
Definition is_scaling_of (m n : nat) (N M : mat) : bool :=
  let '(rs, cs) := solve_signs (2 * (m + n) + 2) m n N M (repeat 0 m, repeat 0 n) in
  forallb is_pm1' rs && forallb is_pm1' cs && Nat.eqb (length rs) m && Nat.eqb (length cs) n &&
  mat_eqb M (scaled m n N rs cs).

Definition camion_cert_input :=
  x <- dmat ;;
  rc1 <- dZ ;; v <- dZ ;; viol <- dsub3 ;;
  rc2 <- dZ ;; was <- dZ ;; Sg <- dcsr_opt ;; viol2 <- dsub3 ;;
  rc3 <- dZ ;; v' <- dZ ;;
  rc4 <- dZ ;; was2 <- dZ ;; S2 <- dcsr_opt ;;
  y <- dmat ;; w <- dwitness ;;
  dend (x, (rc1, v, viol), (rc2, was, Sg, viol2), (rc3, v'), (rc4, was2, S2), y, w).

Definition camion_certified (m n : nat) (M : mat) (mN nN : nat) (N : mat) (w : witness) : bool :=
  Nat.eqb mN m && Nat.eqb nN n && wf_mat m n M && wf_mat m n N && is_ternary M && same_support M N && tu_certified m n N w.

(* record: the record of `camion` followed by N and its witness
   0 accepted (also when N is not certified or has another support: nothing claimed); 1 malformed; 470 a call failed;
   471 the signed output is not a scaling of the certified totally unimodular matrix (so it is not totally unimodular);
   472 the signedness test says no although M is totally unimodular (a scaling of N); 473 it says yes although M is not *)
Definition judge_camion_cert (rec : list Z) : Z :=
  match camion_cert_input rec with
  | Some (((m, n, M), (rc1, v, viol), (rc2, was, Sg, viol2), (rc3, v'), (rc4, was2, S2), (mN, nN, N), w), _) =>
    if negb (camion_certified m n M mN nN N w) then 0
    else if negb ((rc1 =? 0) && (rc2 =? 0)) then 470
    else match Sg with
         | Some (ms, ns, Sm) =>
           if negb (Nat.eqb ms m && Nat.eqb ns n && is_scaling_of m n N Sm) then 471
           else if is_scaling_of m n N M then (if v =? 1 then 0 else 472)
           else (if v =? 0 then 0 else 473)
         | None => 470
         end
  | None => 1
  end.
