(* MatProofs.v — proofs about MatModel.v: algebraic laws of the dense-matrix model of the matrix utilities,
   laws of sub_slice / sub_unslice, and soundness of judge_matutil (one theorem per operation group). *)
From Cmr Require Import Base Det BaseProofs MatModel.
From Cmr Require Import TextModel TextProofs.
Local Open Scope Z_scope.

(* ========================================================================================== *)
(* 0. Helpers                                                                                   *)
(* ========================================================================================== *)

Lemma nthR_map_gen : forall (f : list Z -> list Z) (M : mat) i,
  f [] = [] -> nthR (map f M) i = f (nthR M i).
Proof.
  intros f; induction M as [|r M IH]; intros i H0.
  - destruct i; cbn [map nthR]; now rewrite H0.
  - destruct i; cbn [map nthR]; [reflexivity | now apply IH].
Qed.

Lemma nthZ_map_gen : forall (f : Z -> Z) (l : list Z) j,
  f 0 = 0 -> nthZ (map f l) j = f (nthZ l j).
Proof.
  intros f; induction l as [|x l IH]; intros j H0.
  - destruct j; cbn [map nthZ]; now rewrite H0.
  - destruct j; cbn [map nthZ]; [reflexivity | now apply IH].
Qed.

Lemma get_map_map : forall (f : Z -> Z) M i j, f 0 = 0 -> get (map (map f) M) i j = f (get M i j).
Proof.
  intros f M i j H0. unfold get. rewrite (nthR_map_gen (map f)) by reflexivity.
  now apply nthZ_map_gen.
Qed.

Lemma nthR_map_nat : forall (f : nat -> list Z) (l : list nat) i,
  (i < length l)%nat -> nthR (map f l) i = f (nth i l 0%nat).
Proof.
  intros f; induction l as [|x l IH]; intros i Hi; cbn [length] in Hi; [lia|].
  destruct i; cbn [map nthR nth]; [reflexivity | apply IH; lia].
Qed.

Lemma nthZ_map_nat : forall (f : nat -> Z) (l : list nat) i,
  (i < length l)%nat -> nthZ (map f l) i = f (nth i l 0%nat).
Proof.
  intros f; induction l as [|x l IH]; intros i Hi; cbn [length] in Hi; [lia|].
  destruct i; cbn [map nthZ nth]; [reflexivity | apply IH; lia].
Qed.

Lemma all_lt_nth : forall k l i, all_lt k l = true -> (i < length l)%nat -> (nth i l 0%nat < k)%nat.
Proof.
  intros k l i H Hi. unfold all_lt in H. rewrite forallb_forall in H.
  apply Nat.ltb_lt. apply H. now apply nth_In.
Qed.

Lemma all_lt_iff : forall k l, all_lt k l = true <-> (forall x, In x l -> (x < k)%nat).
Proof.
  intros k l. unfold all_lt. rewrite forallb_forall. split; intros H x Hx.
  - apply Nat.ltb_lt. now apply H.
  - apply Nat.ltb_lt. now apply H.
Qed.

Lemma natlist_eqb'_eq : forall a b, natlist_eqb' a b = true <-> a = b.
Proof. apply list_eqb_eq. apply Nat.eqb_eq. Qed.

(* ========================================================================================== *)
(* 1. Algebraic laws                                                                            *)
(* ========================================================================================== *)

(* ---------- transpose ---------- *)

Theorem wf_transpose : forall m n M, wf_mat n m (transpose m n M) = true.
Proof. intros. apply wf_mk_mat. Qed.

Theorem get_transpose : forall m n M i j,
  (i < n)%nat -> (j < m)%nat -> get (transpose m n M) i j = get M j i.
Proof. intros m n M i j Hi Hj. unfold transpose. now rewrite get_mk_mat. Qed.

Theorem transpose_involutive : forall m n M,
  wf_mat m n M = true -> transpose n m (transpose m n M) = M.
Proof.
  intros m n M H. apply (mat_ext m n); [apply wf_transpose | exact H |].
  intros i j Hi Hj. rewrite get_transpose by assumption. now apply get_transpose.
Qed.

(* ---------- submat (permute / slice) ---------- *)

Theorem wf_submat : forall M rs cs, wf_mat (length rs) (length cs) (submat M rs cs) = true.
Proof.
  intros M rs cs. unfold wf_mat, submat. rewrite map_length, Nat.eqb_refl. cbn [andb].
  apply forallb_forall. intros r Hr. apply in_map_iff in Hr. destruct Hr as [i [<- _]].
  rewrite map_length. apply Nat.eqb_refl.
Qed.

Theorem get_submat : forall M rs cs i j,
  (i < length rs)%nat -> (j < length cs)%nat ->
  get (submat M rs cs) i j = get M (nth i rs 0%nat) (nth j cs 0%nat).
Proof.
  intros M rs cs i j Hi Hj. unfold submat, get at 1.
  rewrite nthR_map_nat by assumption. now rewrite nthZ_map_nat.
Qed.

(* composition of slices: the inner index lists are addressed through the outer ones *)
Theorem submat_submat : forall M rs cs rs' cs',
  all_lt (length rs) rs' = true -> all_lt (length cs) cs' = true ->
  submat (submat M rs cs) rs' cs' =
  submat M (map (fun i => nth i rs 0%nat) rs') (map (fun j => nth j cs 0%nat) cs').
Proof.
  intros M rs cs rs' cs' Hr Hc. unfold submat at 1 3. rewrite map_map.
  apply map_ext_in. intros i Hi. rewrite map_map. apply map_ext_in. intros j Hj.
  apply get_submat.
  - now apply (proj1 (all_lt_iff _ _) Hr).
  - now apply (proj1 (all_lt_iff _ _) Hc).
Qed.

Theorem submat_id : forall m n M, wf_mat m n M = true -> submat M (iota 0 m) (iota 0 n) = M.
Proof. intros m n M H. exact (mk_mat_get m n M H). Qed.

Theorem transpose_submat : forall m n M rs cs,
  all_lt m rs = true -> all_lt n cs = true ->
  transpose (length rs) (length cs) (submat M rs cs) = submat (transpose m n M) cs rs.
Proof.
  intros m n M rs cs Hr Hc.
  apply (mat_ext (length cs) (length rs)); [apply wf_transpose | apply wf_submat |].
  intros i j Hi Hj. rewrite get_transpose by assumption.
  rewrite !get_submat by assumption. symmetry. apply get_transpose.
  - now apply all_lt_nth.
  - now apply all_lt_nth.
Qed.

(* ---------- support / signed support ---------- *)

Definition supp1 (x : Z) : Z := if x =? 0 then 0 else 1.

Lemma support_eq : forall M, support M = map (map supp1) M.
Proof. reflexivity. Qed.

Lemma map_map_ext : forall (f g : Z -> Z) (M : mat),
  (forall x, f x = g x) -> map (map f) M = map (map g) M.
Proof. intros f g M H. apply map_ext. intros r. now apply map_ext. Qed.

Lemma map_map_comp : forall (f g : Z -> Z) (M : mat),
  map (map g) (map (map f) M) = map (map (fun x => g (f x))) M.
Proof. intros f g M. rewrite map_map. apply map_ext. intros r. apply map_map. Qed.

Lemma supp1_idem : forall x, supp1 (supp1 x) = supp1 x.
Proof. intros x. unfold supp1. destruct (x =? 0); reflexivity. Qed.

Lemma supp1_sgnz : forall x, supp1 (sgnz x) = supp1 x.
Proof. intros x. unfold supp1, sgnz. destruct (x =? 0); [reflexivity|]. destruct (0 <? x); reflexivity. Qed.

Lemma sgnz_idem : forall x, sgnz (sgnz x) = sgnz x.
Proof. intros x. unfold sgnz. destruct (x =? 0); [reflexivity|]. destruct (0 <? x); reflexivity. Qed.

Lemma sgnz_supp1 : forall x, sgnz (supp1 x) = supp1 x.
Proof. intros x. unfold supp1, sgnz. destruct (x =? 0); reflexivity. Qed.

Theorem support_idempotent : forall M, support (support M) = support M.
Proof.
  intros M. rewrite (support_eq (support M)), (support_eq M), map_map_comp.
  apply map_map_ext, supp1_idem.
Qed.

Theorem support_signed : forall M, support (signed_support M) = support M.
Proof.
  intros M. rewrite (support_eq (signed_support M)), (support_eq M). unfold signed_support.
  rewrite map_map_comp. apply map_map_ext, supp1_sgnz.
Qed.

Theorem signed_support_idempotent : forall M, signed_support (signed_support M) = signed_support M.
Proof. intros M. unfold signed_support. rewrite map_map_comp. apply map_map_ext, sgnz_idem. Qed.

Theorem signed_support_support : forall M, signed_support (support M) = support M.
Proof.
  intros M. rewrite (support_eq M). unfold signed_support. rewrite map_map_comp.
  apply map_map_ext, sgnz_supp1.
Qed.

Theorem get_support : forall M i j, get (support M) i j = supp1 (get M i j).
Proof. intros M i j. rewrite support_eq. now apply get_map_map. Qed.

Theorem get_signed_support : forall M i j, get (signed_support M) i j = sgnz (get M i j).
Proof. intros M i j. unfold signed_support. now apply get_map_map. Qed.

Lemma wf_map_map : forall (f : Z -> Z) m n M, wf_mat m n (map (map f) M) = wf_mat m n M.
Proof.
  intros f m n M. unfold wf_mat. rewrite map_length. f_equal.
  induction M as [|r M IH]; cbn [map forallb]; [reflexivity|]. now rewrite map_length, IH.
Qed.

Theorem wf_support : forall m n M, wf_mat m n (support M) = wf_mat m n M.
Proof. intros. rewrite support_eq. apply wf_map_map. Qed.

Theorem wf_signed_support : forall m n M, wf_mat m n (signed_support M) = wf_mat m n M.
Proof. intros. apply wf_map_map. Qed.

Lemma map_map_mk_mat : forall (f : Z -> Z) m n g,
  map (map f) (mk_mat m n g) = mk_mat m n (fun i j => f (g i j)).
Proof.
  intros f m n g. unfold mk_mat. rewrite map_map. apply map_ext. intros i. now rewrite map_map.
Qed.

Theorem support_transpose : forall m n M, support (transpose m n M) = transpose m n (support M).
Proof.
  intros m n M. rewrite (support_eq (transpose m n M)). unfold transpose. rewrite map_map_mk_mat.
  unfold mk_mat. apply map_ext. intros i. apply map_ext. intros j. symmetry. apply get_support.
Qed.

Theorem signed_support_transpose : forall m n M,
  signed_support (transpose m n M) = transpose m n (signed_support M).
Proof.
  intros m n M. unfold signed_support at 1. unfold transpose. rewrite map_map_mk_mat.
  unfold mk_mat. apply map_ext. intros i. apply map_ext. intros j. symmetry. apply get_signed_support.
Qed.

Theorem support_submat : forall M rs cs, support (submat M rs cs) = submat (support M) rs cs.
Proof.
  intros M rs cs. rewrite (support_eq (submat M rs cs)). unfold submat. rewrite map_map.
  apply map_ext. intros i. rewrite map_map. apply map_ext. intros j. symmetry. apply get_support.
Qed.

Lemma map_map_id_forall : forall (f : Z -> Z) (p : Z -> bool) (M : mat),
  (forall x, p x = true -> f x = x) -> mat_forall p M = true -> map (map f) M = M.
Proof.
  intros f p M H HM. unfold mat_forall in HM. rewrite forallb_forall in HM.
  rewrite <- (map_id M) at 2. apply map_ext_in. intros r Hr.
  specialize (HM r Hr). rewrite forallb_forall in HM.
  rewrite <- (map_id r) at 2. apply map_ext_in. intros x Hx. apply H. now apply HM.
Qed.

Theorem signed_support_ternary : forall M, is_ternary M = true -> signed_support M = M.
Proof.
  intros M H. unfold signed_support. apply (map_map_id_forall sgnz is_ternary_entry); [|exact H].
  intros x Hx. unfold is_ternary_entry in Hx. rewrite !orb_true_iff, !Z.eqb_eq in Hx.
  destruct Hx as [[-> | ->] | ->]; reflexivity.
Qed.

Theorem support_binary : forall M, is_binary M = true -> support M = M.
Proof.
  intros M H. rewrite support_eq. apply (map_map_id_forall supp1 is_binary_entry); [|exact H].
  intros x Hx. apply is_binary_entry_iff in Hx. destruct Hx as [-> | ->]; reflexivity.
Qed.

Theorem support_is_binary : forall M, is_binary (support M) = true.
Proof.
  intros M. unfold is_binary, mat_forall, support. apply forallb_forall. intros r Hr.
  apply in_map_iff in Hr. destruct Hr as [r0 [<- _]]. apply forallb_forall. intros x Hx.
  apply in_map_iff in Hx. destruct Hx as [x0 [<- _]]. destruct (x0 =? 0); reflexivity.
Qed.

Theorem signed_support_is_ternary : forall M, is_ternary (signed_support M) = true.
Proof.
  intros M. unfold is_ternary, mat_forall, signed_support. apply forallb_forall. intros r Hr.
  apply in_map_iff in Hr. destruct Hr as [r0 [<- _]]. apply forallb_forall. intros x Hx.
  apply in_map_iff in Hx. destruct Hx as [x0 [<- _]]. unfold sgnz.
  destruct (x0 =? 0); [reflexivity|]. destruct (0 <? x0); reflexivity.
Qed.

(* ---------- block_diag2 (1-sum) ---------- *)

Theorem wf_block_diag2 : forall m1 n1 A m2 n2 B,
  wf_mat (m1 + m2) (n1 + n2) (block_diag2 m1 n1 A m2 n2 B) = true.
Proof. intros. apply wf_mk_mat. Qed.

Theorem get_block_diag2_A : forall m1 n1 A m2 n2 B i j,
  (i < m1)%nat -> (j < n1)%nat -> get (block_diag2 m1 n1 A m2 n2 B) i j = get A i j.
Proof.
  intros m1 n1 A m2 n2 B i j Hi Hj. unfold block_diag2. rewrite get_mk_mat by lia.
  rewrite (proj2 (Nat.ltb_lt i m1) Hi), (proj2 (Nat.ltb_lt j n1) Hj). reflexivity.
Qed.

Theorem get_block_diag2_topright : forall m1 n1 A m2 n2 B i j,
  (i < m1)%nat -> (n1 <= j < n1 + n2)%nat -> get (block_diag2 m1 n1 A m2 n2 B) i j = 0.
Proof.
  intros m1 n1 A m2 n2 B i j Hi Hj. unfold block_diag2. rewrite get_mk_mat by lia.
  rewrite (proj2 (Nat.ltb_lt i m1) Hi), (proj2 (Nat.ltb_ge j n1)) by lia. reflexivity.
Qed.

Theorem get_block_diag2_bottomleft : forall m1 n1 A m2 n2 B i j,
  (m1 <= i < m1 + m2)%nat -> (j < n1)%nat -> get (block_diag2 m1 n1 A m2 n2 B) i j = 0.
Proof.
  intros m1 n1 A m2 n2 B i j Hi Hj. unfold block_diag2. rewrite get_mk_mat by lia.
  rewrite (proj2 (Nat.ltb_ge i m1)) by lia. rewrite (proj2 (Nat.ltb_lt j n1) Hj). reflexivity.
Qed.

Theorem get_block_diag2_B : forall m1 n1 A m2 n2 B i j,
  (m1 <= i < m1 + m2)%nat -> (n1 <= j < n1 + n2)%nat ->
  get (block_diag2 m1 n1 A m2 n2 B) i j = get B (i - m1) (j - n1).
Proof.
  intros m1 n1 A m2 n2 B i j Hi Hj. unfold block_diag2. rewrite get_mk_mat by lia.
  rewrite (proj2 (Nat.ltb_ge i m1)) by lia. rewrite (proj2 (Nat.ltb_ge j n1)) by lia. reflexivity.
Qed.

(* same, indexed from the corner of the B block *)
Corollary get_block_diag2_B' : forall m1 n1 A m2 n2 B i j,
  (i < m2)%nat -> (j < n2)%nat -> get (block_diag2 m1 n1 A m2 n2 B) (m1 + i) (n1 + j) = get B i j.
Proof.
  intros m1 n1 A m2 n2 B i j Hi Hj. rewrite get_block_diag2_B by lia. f_equal; lia.
Qed.

(* the two diagonal blocks can be sliced back out *)
Theorem block_diag2_slice_A : forall m1 n1 A m2 n2 B,
  wf_mat m1 n1 A = true -> submat (block_diag2 m1 n1 A m2 n2 B) (iota 0 m1) (iota 0 n1) = A.
Proof.
  intros m1 n1 A m2 n2 B HA. change (mk_mat m1 n1 (get (block_diag2 m1 n1 A m2 n2 B)) = A).
  apply (mat_ext m1 n1); [apply wf_mk_mat | exact HA |].
  intros i j Hi Hj. rewrite get_mk_mat by assumption. now apply get_block_diag2_A.
Qed.

Theorem block_diag2_transpose : forall m1 n1 A m2 n2 B,
  transpose (m1 + m2) (n1 + n2) (block_diag2 m1 n1 A m2 n2 B) =
  block_diag2 n1 m1 (transpose m1 n1 A) n2 m2 (transpose m2 n2 B).
Proof.
  intros m1 n1 A m2 n2 B.
  apply (mat_ext (n1 + n2) (m1 + m2)); [apply wf_transpose | apply wf_block_diag2 |].
  intros i j Hi Hj. rewrite get_transpose by assumption.
  destruct (Nat.ltb_spec i n1) as [Hi1 | Hi1]; destruct (Nat.ltb_spec j m1) as [Hj1 | Hj1].
  - rewrite !get_block_diag2_A by assumption. symmetry. now apply get_transpose.
  - rewrite get_block_diag2_bottomleft by lia. now rewrite get_block_diag2_topright by lia.
  - rewrite get_block_diag2_topright by lia. now rewrite get_block_diag2_bottomleft by lia.
  - rewrite !get_block_diag2_B by lia. symmetry. apply get_transpose; lia.
Qed.

(* ---------- sub_slice / sub_unslice ---------- *)

Lemma index_of_nth_error : forall x l k, index_of x l = Some k -> nth_error l k = Some x.
Proof.
  intros x; induction l as [|y l IH]; intros k H; cbn [index_of] in H; [discriminate|].
  destruct (Nat.eqb x y) eqn:E.
  - apply Nat.eqb_eq in E. inversion H; subst. reflexivity.
  - destruct (index_of x l) as [k'|]; [|discriminate]. inversion H; subst.
    cbn [nth_error]. now apply IH.
Qed.

Lemma index_of_first : forall x l k, index_of x l = Some k ->
  forall k', (k' < k)%nat -> nth_error l k' <> Some x.
Proof.
  intros x; induction l as [|y l IH]; intros k H k' Hk'; cbn [index_of] in H; [discriminate|].
  destruct (Nat.eqb x y) eqn:E.
  - inversion H; subst. lia.
  - destruct (index_of x l) as [k0|] eqn:E0; [|discriminate]. inversion H; subst.
    destruct k' as [|k']; cbn [nth_error].
    + intros HH. inversion HH; subst. rewrite Nat.eqb_refl in E. discriminate.
    + apply (IH k0 eq_refl). lia.
Qed.

Lemma index_of_Some_In : forall x l k, index_of x l = Some k -> In x l.
Proof. intros x l k H. apply (nth_error_In l k). now apply index_of_nth_error. Qed.

Lemma index_of_None : forall x l, index_of x l = None <-> ~ In x l.
Proof.
  intros x; induction l as [|y l IH]; cbn [index_of In].
  - split; [intros _ [] | reflexivity].
  - destruct (Nat.eqb x y) eqn:E.
    + apply Nat.eqb_eq in E. split; [discriminate | intros H; exfalso; apply H; left; congruence].
    + apply Nat.eqb_neq in E. destruct (index_of x l) as [k|] eqn:E0.
      * split; [discriminate|]. intros H. exfalso. apply H. right. now apply (index_of_Some_In x l k).
      * split; [|reflexivity]. intros _ [H | H]; [congruence|]. now apply (proj1 IH).
Qed.

Lemma nth_error_index_of : forall l k x,
  NoDup l -> nth_error l k = Some x -> index_of x l = Some k.
Proof.
  induction l as [|y l IH]; intros k x ND H.
  - destruct k; discriminate.
  - inversion ND as [|y' l' Hnin ND']; subst.
    destruct k as [|k]; cbn [nth_error] in H; cbn [index_of].
    + inversion H; subst. now rewrite Nat.eqb_refl.
    + destruct (Nat.eqb x y) eqn:E.
      * apply Nat.eqb_eq in E. subst. exfalso. apply Hnin. now apply (nth_error_In l k).
      * now rewrite (IH k x ND' H).
Qed.

(* index_of returns the FIRST position holding x *)
Theorem index_of_spec : forall x l k,
  index_of x l = Some k <->
  nth_error l k = Some x /\ (forall k', (k' < k)%nat -> nth_error l k' <> Some x).
Proof.
  intros x l k. split.
  - intros H. split; [now apply index_of_nth_error | now apply index_of_first].
  - revert k. induction l as [|y l IH]; intros k [H1 H2].
    + destruct k; discriminate.
    + cbn [index_of]. destruct (Nat.eqb x y) eqn:E.
      * apply Nat.eqb_eq in E. subst y. destruct k as [|k]; [reflexivity|].
        exfalso. apply (H2 0%nat); [lia | reflexivity].
      * destruct k as [|k]; cbn [nth_error] in H1.
        -- inversion H1; subst. rewrite Nat.eqb_refl in E. discriminate.
        -- rewrite (IH k); [reflexivity|]. split; [exact H1|].
           intros k' Hk'. apply (H2 (S k')). lia.
Qed.

Lemma map_opt_Forall2 : forall (A B : Type) (f : A -> option B) l out,
  map_opt f l = Some out <-> Forall2 (fun x y => f x = Some y) l out.
Proof.
  intros A B f; induction l as [|x l IH]; intros out; cbn [map_opt].
  - split; intros H; [inversion H; constructor | inversion H; reflexivity].
  - split.
    + intros H. destruct (f x) as [y|] eqn:E; [|discriminate].
      destruct (map_opt f l) as [ys|] eqn:E2; [|discriminate]. inversion H; subst.
      constructor; [exact E | now apply IH].
    + intros H. inversion H as [|x' y l' ys Hxy Hrest]; subst. rewrite Hxy.
      rewrite (proj2 (IH ys) Hrest). reflexivity.
Qed.

Lemma map_opt_None : forall (A B : Type) (f : A -> option B) l,
  map_opt f l = None <-> exists x, In x l /\ f x = None.
Proof.
  intros A B f; induction l as [|x l IH]; cbn [map_opt In].
  - split; [discriminate | intros [x [[] _]]].
  - destruct (f x) as [y|] eqn:E.
    + destruct (map_opt f l) as [ys|] eqn:E2.
      * split; [discriminate|]. intros [x0 [[<- | Hin] Hx0]]; [congruence|].
        assert (HN : Some ys = None) by (apply IH; exists x0; auto). discriminate HN.
      * split; [|reflexivity]. intros _. destruct (proj1 IH eq_refl) as [x0 [Hin Hx0]].
        exists x0; auto.
    + split; [|reflexivity]. intros _. exists x; auto.
Qed.

Lemma map_opt_length : forall (A B : Type) (f : A -> option B) l out,
  map_opt f l = Some out -> length out = length l.
Proof.
  intros A B f l out H. apply map_opt_Forall2 in H.
  induction H as [|x y l l' Hxy Hrest IH]; cbn [length]; [reflexivity | now rewrite IH].
Qed.

Lemma Forall2_impl' : forall (A B : Type) (R1 R2 : A -> B -> Prop),
  (forall a b, R1 a b -> R2 a b) -> forall l l', Forall2 R1 l l' -> Forall2 R2 l l'.
Proof. intros A B R1 R2 HR l l' H. induction H; constructor; auto. Qed.

Lemma Forall2_nth_both : forall (A B : Type) (R : A -> B -> Prop) l l' (d : A) (d' : B),
  Forall2 R l l' -> forall k, (k < length l)%nat -> R (nth k l d) (nth k l' d').
Proof.
  intros A B R l l' d d' H. induction H as [|x y l l' Hxy Hrest IH]; intros k Hk; cbn [length] in Hk; [lia|].
  destruct k; cbn [nth]; [exact Hxy | apply IH; lia].
Qed.

(* slice then unslice gives the input back (no NoDup needed in this direction) *)
Theorem sub_slice_unslice : forall base input out,
  sub_slice base input = Some out -> sub_unslice base out = Some input.
Proof.
  intros base; unfold sub_slice, sub_unslice; induction input as [|x l IH]; intros out H; cbn [map_opt] in H.
  - inversion H; reflexivity.
  - destruct (index_of x base) as [k|] eqn:E; [|discriminate].
    destruct (map_opt (fun x0 => index_of x0 base) l) as [ks|] eqn:E2; [|discriminate].
    inversion H; subst. cbn [map_opt].
    rewrite (index_of_nth_error _ _ _ E), (IH ks eq_refl). reflexivity.
Qed.

Corollary sub_slice_unslice_nodup : forall base input out,
  NoDup base -> sub_slice base input = Some out -> sub_unslice base out = Some input.
Proof. intros base input out _. apply sub_slice_unslice. Qed.

Theorem sub_unslice_slice : forall base input out,
  NoDup base -> sub_unslice base input = Some out -> sub_slice base out = Some input.
Proof.
  intros base input out ND; unfold sub_slice, sub_unslice; revert out.
  induction input as [|k l IH]; intros out H; cbn [map_opt] in H.
  - inversion H; reflexivity.
  - destruct (nth_error base k) as [x|] eqn:E; [|discriminate].
    destruct (map_opt (fun k0 => nth_error base k0) l) as [xs|] eqn:E2; [|discriminate].
    inversion H; subst. cbn [map_opt].
    rewrite (nth_error_index_of _ _ _ ND E), (IH xs eq_refl). reflexivity.
Qed.

Theorem sub_slice_Forall2 : forall base input out,
  sub_slice base input = Some out -> Forall2 (fun x k => nth_error base k = Some x) input out.
Proof.
  intros base input out H. unfold sub_slice in H. apply map_opt_Forall2 in H.
  eapply Forall2_impl'; [|exact H]. intros x k Hxk. now apply index_of_nth_error.
Qed.

(* exact characterisation: out lists, position by position, the first occurrence in base *)
Theorem sub_slice_spec : forall base input out,
  sub_slice base input = Some out <->
  Forall2 (fun x k => nth_error base k = Some x /\
                      forall k', (k' < k)%nat -> nth_error base k' <> Some x) input out.
Proof.
  intros base input out. unfold sub_slice. rewrite map_opt_Forall2. split; intros H.
  - eapply Forall2_impl'; [|exact H]. intros x k Hxk. now apply index_of_spec.
  - eapply Forall2_impl'; [|exact H]. intros x k Hxk. now apply index_of_spec.
Qed.

Corollary sub_slice_nth : forall base input out,
  sub_slice base input = Some out ->
  length out = length input /\
  forall k, (k < length input)%nat ->
    nth_error base (nth k out 0%nat) = Some (nth k input 0%nat) /\
    (forall k', (k' < nth k out 0%nat)%nat -> nth_error base k' <> Some (nth k input 0%nat)).
Proof.
  intros base input out H. split; [now apply (map_opt_length _ _ _ _ _ H)|].
  apply sub_slice_spec in H. intros k Hk.
  exact (Forall2_nth_both _ _ _ _ _ 0%nat 0%nat H k Hk).
Qed.

Theorem sub_slice_None : forall base input,
  sub_slice base input = None <-> exists x, In x input /\ ~ In x base.
Proof.
  intros base input. unfold sub_slice. rewrite map_opt_None. split; intros [x [Hin Hx]]; exists x.
  - split; [exact Hin | now apply index_of_None].
  - split; [exact Hin | now apply index_of_None].
Qed.

Theorem sub_slice_Some_iff : forall base input,
  (exists out, sub_slice base input = Some out) <-> incl input base.
Proof.
  intros base input. split.
  - intros [out H] x Hx. destruct (in_dec Nat.eq_dec x base) as [Hin | Hnin]; [exact Hin|].
    assert (HN : sub_slice base input = None) by (apply sub_slice_None; exists x; auto). congruence.
  - intros Hincl. destruct (sub_slice base input) as [out|] eqn:E; [now exists out|].
    apply sub_slice_None in E. destruct E as [x [Hin Hnin]]. exfalso. apply Hnin. now apply Hincl.
Qed.

Theorem sub_unslice_None : forall base input,
  sub_unslice base input = None <-> exists k, In k input /\ (length base <= k)%nat.
Proof.
  intros base input. unfold sub_unslice. rewrite map_opt_None. split; intros [k [Hin Hk]]; exists k.
  - split; [exact Hin | now apply nth_error_None].
  - split; [exact Hin | now apply nth_error_None].
Qed.

Theorem sub_unslice_Forall2 : forall base input out,
  sub_unslice base input = Some out <-> Forall2 (fun k x => nth_error base k = Some x) input out.
Proof. intros base input out. unfold sub_unslice. apply map_opt_Forall2. Qed.

(* the sliced indices are in range of base *)
Theorem sub_slice_all_lt : forall base input out,
  sub_slice base input = Some out -> all_lt (length base) out = true.
Proof.
  intros base input out H. apply sub_slice_Forall2 in H. apply all_lt_iff.
  induction H as [|x k l l' Hxk Hrest IH]; intros y Hy; [destruct Hy|].
  destruct Hy as [<- | Hy]; [|now apply IH].
  apply nth_error_Some. congruence.
Qed.

(* ========================================================================================== *)
(* 2. Soundness of judge_matutil                                                                *)
(* ========================================================================================== *)

(* the two decoding expressions that judge_matutil applies to every record *)
Definition matutil_head : dec (Z * Z * (nat * nat * mat)) :=
  op <- dZ ;; ty <- dZ ;; x <- dmat ;; dret (op, ty, x).
Definition matutil_result : dec (Z * mres) := rc <- dZ ;; r <- dres ;; dend (rc, r).

(* "x is the dense view of a well-formed CSR matrix": what dcsr_dense guarantees *)
Definition from_csr (x : nat * nat * mat) : Prop :=
  exists s, csr_wf s = true /\ x = (c_rows s, c_cols s, dense_of_csr s).

Lemma dcsr_dense_from_csr : forall l x r, dcsr_dense l = Some (x, r) -> from_csr x.
Proof.
  intros l x r H. unfold dcsr_dense in H. destruct (dcsr l) as [[s r']|]; [|discriminate].
  destruct (csr_wf s) eqn:E; [|discriminate]. inversion H; subst. exists s; auto.
Qed.

Lemma dcsr_dense_spec : forall l x r,
  dcsr_dense l = Some (x, r) <->
  exists s, dcsr l = Some (s, r) /\ csr_wf s = true /\ x = (c_rows s, c_cols s, dense_of_csr s).
Proof.
  intros l x r. unfold dcsr_dense. split.
  - intros H. destruct (dcsr l) as [[s r']|]; [|discriminate].
    destruct (csr_wf s) eqn:E; [|discriminate]. inversion H; subst. exists s; auto.
  - intros [s [H1 [H2 H3]]]. rewrite H1, H2, H3. reflexivity.
Qed.

Lemma from_csr_wf : forall m n R, from_csr (m, n, R) -> wf_mat m n R = true.
Proof. intros m n R [s [_ H]]. inversion H; subst. apply dense_of_csr_wf. Qed.

(* the CSR matrix behind a result is unique *)
Lemma from_csr_unique : forall s t,
  csr_wf s = true -> csr_wf t = true ->
  (c_rows s, c_cols s, dense_of_csr s) = (c_rows t, c_cols t, dense_of_csr t) -> s = t.
Proof. intros s t Hs Ht H. inversion H. now apply dense_of_csr_inj. Qed.

Ltac dinv H :=
  repeat (cbv beta iota in H;
          match type of H with
          | match ?X with Some _ => _ | None => _ end = Some _ =>
            let D := fresh "D" in destruct X as [[? ?]|] eqn:D; [|discriminate H]
          end).

Lemma dres_RMat : forall l ty x r, dres l = Some (RMat ty x, r) -> from_csr x.
Proof.
  intros l ty x r H. unfold dres, dbind in H. destruct l as [|k l]; cbn [dZ] in H; [discriminate|].
  destruct (k =? 0); [unfold dret in H; discriminate|].
  destruct (k =? 1).
  { dinv H. unfold dret in H. inversion H; subst. eapply dcsr_dense_from_csr; eassumption. }
  destruct (k =? 2); [dinv H; unfold dret in H; discriminate|].
  destruct (k =? 3); [dinv H; unfold dret in H; discriminate|].
  discriminate.
Qed.

Lemma dend_inv : forall (A : Type) (a b : A) l r, dend a l = Some (b, r) -> a = b /\ l = [] /\ r = [].
Proof. intros A a b l r H. unfold dend in H. destruct l; [|discriminate]. inversion H; auto. Qed.

Lemma result_RMat : forall rest rc ty x rest',
  matutil_result rest = Some ((rc, RMat ty x), rest') -> from_csr x.
Proof.
  intros rest rc ty x rest' H. unfold matutil_result, dbind in H. dinv H.
  apply dend_inv in H. destruct H as [H _]. inversion H; subst. eapply dres_RMat; eassumption.
Qed.

Lemma head_wf : forall rec op ty m n M rest,
  matutil_head rec = Some ((op, ty, (m, n, M)), rest) -> wf_mat m n M = true.
Proof.
  intros rec op ty m n M rest H. unfold matutil_head, dbind in H. dinv H.
  unfold dret in H. inversion H; subst. eapply dmat_wf; eassumption.
Qed.

Lemma mat_is_eq : forall x m n M, mat_is x m n M = true <-> x = (m, n, M).
Proof.
  intros [[m' n'] M'] m n M. unfold mat_is. rewrite !andb_true_iff, !Nat.eqb_eq, mat_eqb_eq.
  split; [intros [[-> ->] ->]; reflexivity | intros H; inversion H; auto].
Qed.

Lemma mat_forall_false : forall (p : Z -> bool) (M : mat),
  mat_forall p M = false <-> exists r x, In r M /\ In x r /\ p x = false.
Proof.
  intros p M. unfold mat_forall. split.
  - intros H. induction M as [|r M IH]; cbn [forallb] in H; [discriminate|].
    apply andb_false_iff in H. destruct H as [H | H].
    + clear IH. induction r as [|x r IHr]; cbn [forallb] in H; [discriminate|].
      apply andb_false_iff in H. destruct H as [H | H].
      * exists (x :: r), x. cbn [In]. auto.
      * destruct (IHr H) as [r0 [x0 [Hr0 [Hx0 Hp]]]]. destruct Hr0 as [<- | Hr0].
        -- exists (x :: r), x0. cbn [In]. auto.
        -- exists r0, x0. cbn [In]. auto.
    + destruct (IH H) as [r0 [x0 [Hr0 [Hx0 Hp]]]]. exists r0, x0. cbn [In]. auto.
  - intros [r [x [Hr [Hx Hp]]]]. destruct (forallb (forallb p) M) eqn:E; [|reflexivity].
    rewrite forallb_forall in E. specialize (E r Hr). rewrite forallb_forall in E.
    rewrite (E x Hx) in Hp. discriminate.
Qed.

Lemma in_char_false : forall x, in_char x = false <-> (x < -128 \/ 127 < x).
Proof.
  intros x. unfold in_char. rewrite andb_false_iff, !Z.leb_gt. reflexivity.
Qed.

(* one `if` / `match` of the judge at a time *)
Ltac jif H :=
  match type of H with
  | (if ?b then _ else _) = 0 => let E := fresh "E" in destruct b eqn:E; try discriminate H
  end.
Ltac jopen H H1 :=
  unfold judge_matutil in H; rewrite H1 in H; cbv beta iota zeta in H;
  cbn [Z.eqb Pos.eqb orb andb negb] in H.

(* ---------- op 1: transpose ---------- *)
Theorem judge_matutil_transpose : forall rec ty m n M rest rc r rest',
  matutil_head rec = Some ((1, ty, (m, n, M)), rest) ->
  matutil_result rest = Some ((rc, r), rest') ->
  judge_matutil rec = 0 ->
  rc = 0 /\ r = RMat ty (n, m, transpose m n M) /\ from_csr (n, m, transpose m n M).
Proof.
  intros rec ty m n M rest rc r rest' H1 H2 HJ. pose proof H2 as H2'.
  unfold matutil_head in H1. unfold matutil_result in H2.
  jopen HJ H1. rewrite H2 in HJ. cbv beta iota in HJ.
  jif HJ. apply negb_false_iff, Z.eqb_eq in E.
  destruct r as [|ty' x|v|m' n' rs cs]; try discriminate HJ.
  jif HJ. apply andb_true_iff in E0. destruct E0 as [Et Ex].
  apply Z.eqb_eq in Et. apply mat_is_eq in Ex. subst.
  split; [reflexivity|]. split; [reflexivity|]. eapply result_RMat; exact H2'.
Qed.

(* ---------- op 4: support ---------- *)
Theorem judge_matutil_support : forall rec ty m n M rest rc r rest',
  matutil_head rec = Some ((4, ty, (m, n, M)), rest) ->
  matutil_result rest = Some ((rc, r), rest') ->
  judge_matutil rec = 0 ->
  rc = 0 /\ r = RMat 0 (m, n, support M) /\ from_csr (m, n, support M).
Proof.
  intros rec ty m n M rest rc r rest' H1 H2 HJ. pose proof H2 as H2'.
  unfold matutil_head in H1. unfold matutil_result in H2.
  jopen HJ H1. rewrite H2 in HJ. cbv beta iota in HJ.
  jif HJ. apply negb_false_iff, Z.eqb_eq in E.
  destruct r as [|ty' x|v|m' n' rs cs]; try discriminate HJ.
  jif HJ. apply andb_true_iff in E0. destruct E0 as [Et Ex].
  apply Z.eqb_eq in Et. apply mat_is_eq in Ex. subst.
  split; [reflexivity|]. split; [reflexivity|]. eapply result_RMat; exact H2'.
Qed.

(* ---------- op 5: signed support ---------- *)
Theorem judge_matutil_signed_support : forall rec ty m n M rest rc r rest',
  matutil_head rec = Some ((5, ty, (m, n, M)), rest) ->
  matutil_result rest = Some ((rc, r), rest') ->
  judge_matutil rec = 0 ->
  rc = 0 /\ r = RMat 0 (m, n, signed_support M) /\ from_csr (m, n, signed_support M).
Proof.
  intros rec ty m n M rest rc r rest' H1 H2 HJ. pose proof H2 as H2'.
  unfold matutil_head in H1. unfold matutil_result in H2.
  jopen HJ H1. rewrite H2 in HJ. cbv beta iota in HJ.
  jif HJ. apply negb_false_iff, Z.eqb_eq in E.
  destruct r as [|ty' x|v|m' n' rs cs]; try discriminate HJ.
  jif HJ. apply andb_true_iff in E0. destruct E0 as [Et Ex].
  apply Z.eqb_eq in Et. apply mat_is_eq in Ex. subst.
  split; [reflexivity|]. split; [reflexivity|]. eapply result_RMat; exact H2'.
Qed.

(* ---------- op 7: value-type conversion (ty 0 = char -> int, ty 1 = int -> char) ---------- *)
Theorem judge_matutil_convert : forall rec ty m n M rest rc r rest',
  matutil_head rec = Some ((7, ty, (m, n, M)), rest) ->
  matutil_result rest = Some ((rc, r), rest') ->
  judge_matutil rec = 0 ->
  (ty = 1 /\ mat_forall in_char M = false -> rc <> 0) /\
  (ty <> 1 \/ mat_forall in_char M = true ->
   rc = 0 /\ r = RMat (1 - ty) (m, n, M) /\ from_csr (m, n, M)).
Proof.
  intros rec ty m n M rest rc r rest' H1 H2 HJ. pose proof H2 as H2'.
  unfold matutil_head in H1. unfold matutil_result in H2.
  jopen HJ H1. rewrite H2 in HJ. cbv beta iota in HJ.
  jif HJ.
  - (* the conversion must be refused *)
    jif HJ. apply Z.eqb_neq in E0.
    apply andb_true_iff in E. destruct E as [Et Ec]. apply Z.eqb_eq in Et.
    apply negb_true_iff in Ec. split; [intros _; exact E0|].
    intros [Hne | Hc]; [contradiction | congruence].
  - assert (Hcase : ty <> 1 \/ mat_forall in_char M = true).
    { apply andb_false_iff in E. destruct E as [E | E].
      - left. now apply Z.eqb_neq.
      - right. now apply negb_false_iff in E. }
    split.
    { intros [Ht Hc]. destruct Hcase as [Hne | Hc']; [contradiction | congruence]. }
    intros _. jif HJ. apply negb_false_iff, Z.eqb_eq in E0.
    destruct r as [|ty' x|v|m' n' rs cs]; try discriminate HJ.
    jif HJ. apply andb_true_iff in E1. destruct E1 as [Et Ex].
    apply Z.eqb_eq in Et. apply mat_is_eq in Ex. subst.
    split; [reflexivity|]. split; [reflexivity|]. eapply result_RMat; exact H2'.
Qed.

(* the refusal condition spelled out on entries *)
Corollary judge_matutil_convert_refused : forall rec m n M rest rc r rest',
  matutil_head rec = Some ((7, 1, (m, n, M)), rest) ->
  matutil_result rest = Some ((rc, r), rest') ->
  judge_matutil rec = 0 ->
  (exists row x, In row M /\ In x row /\ (x < -128 \/ 127 < x)) -> rc <> 0.
Proof.
  intros rec m n M rest rc r rest' H1 H2 HJ [row [x [Hr [Hx Hb]]]].
  apply (proj1 (judge_matutil_convert _ _ _ _ _ _ _ _ _ H1 H2 HJ)). split; [reflexivity|].
  apply mat_forall_false. exists row, x. split; [exact Hr|]. split; [exact Hx|]. now apply in_char_false.
Qed.

(* ---------- ops 1, 4, 5, 7 together ---------- *)
Definition unary_ty (op ty : Z) : Z :=
  if op =? 1 then ty else if op =? 4 then 0 else if op =? 5 then 0 else 1 - ty.
Definition unary_model (op : Z) (m n : nat) (M : mat) : nat * nat * mat :=
  if op =? 1 then (n, m, transpose m n M)
  else if op =? 4 then (m, n, support M)
  else if op =? 5 then (m, n, signed_support M)
  else (m, n, M).

Theorem judge_matutil_unary : forall rec op ty m n M rest rc r rest',
  matutil_head rec = Some ((op, ty, (m, n, M)), rest) ->
  matutil_result rest = Some ((rc, r), rest') ->
  judge_matutil rec = 0 ->
  op = 1 \/ op = 4 \/ op = 5 \/ op = 7 ->
  if (op =? 7) && (ty =? 1) && negb (mat_forall in_char M) then rc <> 0
  else rc = 0 /\ r = RMat (unary_ty op ty) (unary_model op m n M) /\ from_csr (unary_model op m n M).
Proof.
  intros rec op ty m n M rest rc r rest' H1 H2 HJ [-> | [-> | [-> | ->]]].
  - exact (judge_matutil_transpose _ _ _ _ _ _ _ _ _ H1 H2 HJ).
  - exact (judge_matutil_support _ _ _ _ _ _ _ _ _ H1 H2 HJ).
  - exact (judge_matutil_signed_support _ _ _ _ _ _ _ _ _ H1 H2 HJ).
  - destruct (judge_matutil_convert _ _ _ _ _ _ _ _ _ H1 H2 HJ) as [Ha Hb].
    change (7 =? 7) with true. cbn [andb].
    destruct ((ty =? 1) && negb (mat_forall in_char M)) eqn:E.
    + apply andb_true_iff in E. destruct E as [Et Ec]. apply Z.eqb_eq in Et.
      apply negb_true_iff in Ec. now apply Ha.
    + apply Hb. apply andb_false_iff in E. destruct E as [E | E].
      * left. now apply Z.eqb_neq.
      * right. now apply negb_false_iff in E.
Qed.

(* ---------- ops 2, 3: permute (NULL = identity) and slice ---------- *)
Definition submat_args (op : Z) (m n : nat) : dec (list nat * list nat) :=
  if op =? 2 then (rs <- dperm m ;; cs <- dperm n ;; dret (rs, cs))
  else (rs <- dnatlist ;; cs <- dnatlist ;; dret (rs, cs)).

Lemma dperm_null : forall k l, dperm k (-1 :: l) = Some (iota 0 k, l).
Proof. reflexivity. Qed.

Lemma dperm_list : forall k c l, 0 <= c -> dperm k (c :: l) = drep dnat (Z.to_nat c) l.
Proof.
  intros k c l Hc. unfold dperm. destruct (c =? -1) eqn:E; [apply Z.eqb_eq in E; lia|].
  destruct (c <? 0) eqn:E2; [apply Z.ltb_lt in E2; lia | reflexivity].
Qed.

Theorem judge_matutil_submat : forall rec op ty m n M rest rs cs rest2 rc r rest3,
  matutil_head rec = Some ((op, ty, (m, n, M)), rest) ->
  submat_args op m n rest = Some ((rs, cs), rest2) ->
  matutil_result rest2 = Some ((rc, r), rest3) ->
  judge_matutil rec = 0 ->
  op = 2 \/ op = 3 ->
  if all_lt m rs && all_lt n cs
  then rc = 0 /\ r = RMat ty (length rs, length cs, submat M rs cs) /\
       from_csr (length rs, length cs, submat M rs cs)
  else rc <> 0.
Proof.
  intros rec op ty m n M rest rs cs rest2 rc r rest3 H1 H2 H3 HJ Hop. pose proof H3 as H3'.
  unfold matutil_head in H1. unfold matutil_result in H3. unfold submat_args in H2.
  destruct Hop as [-> | ->]; cbn [Z.eqb Pos.eqb] in H2.
  - jopen HJ H1. rewrite H2 in HJ. cbv beta iota in HJ. rewrite H3 in HJ. cbv beta iota in HJ.
    destruct (all_lt m rs && all_lt n cs); cbn [negb] in HJ.
    + jif HJ. apply negb_false_iff, Z.eqb_eq in E.
      destruct r as [|ty' x|v|m' n' rs' cs']; try discriminate HJ.
      jif HJ. apply andb_true_iff in E0. destruct E0 as [Et Ex].
      apply Z.eqb_eq in Et. apply mat_is_eq in Ex. subst.
      split; [reflexivity|]. split; [reflexivity|]. eapply result_RMat; exact H3'.
    + jif HJ. now apply Z.eqb_neq in E.
  - jopen HJ H1. rewrite H2 in HJ. cbv beta iota in HJ. rewrite H3 in HJ. cbv beta iota in HJ.
    destruct (all_lt m rs && all_lt n cs); cbn [negb] in HJ.
    + jif HJ. apply negb_false_iff, Z.eqb_eq in E.
      destruct r as [|ty' x|v|m' n' rs' cs']; try discriminate HJ.
      jif HJ. apply andb_true_iff in E0. destruct E0 as [Et Ex].
      apply Z.eqb_eq in Et. apply mat_is_eq in Ex. subst.
      split; [reflexivity|]. split; [reflexivity|]. eapply result_RMat; exact H3'.
    + jif HJ. now apply Z.eqb_neq in E.
Qed.

(* NULL permutations: the identity, so the result is the matrix itself *)
Corollary judge_matutil_permute_null : forall rec ty m n M rest2 rc r rest3,
  matutil_head rec = Some ((2, ty, (m, n, M)), -1 :: -1 :: rest2) ->
  matutil_result rest2 = Some ((rc, r), rest3) ->
  judge_matutil rec = 0 ->
  rc = 0 /\ r = RMat ty (m, n, M).
Proof.
  intros rec ty m n M rest2 rc r rest3 H1 H3 HJ.
  assert (H2 : submat_args 2 m n (-1 :: -1 :: rest2) = Some ((iota 0 m, iota 0 n), rest2)) by reflexivity.
  pose proof (judge_matutil_submat _ _ _ _ _ _ _ _ _ _ _ _ _ H1 H2 H3 HJ (or_introl eq_refl)) as H.
  assert (Hm : all_lt m (iota 0 m) = true) by (apply all_lt_iff; intros x Hx; apply in_iota in Hx; lia).
  assert (Hn : all_lt n (iota 0 n) = true) by (apply all_lt_iff; intros x Hx; apply in_iota in Hx; lia).
  rewrite Hm, Hn in H. cbn [andb] in H. destruct H as [Hrc [Hr _]]. split; [exact Hrc|].
  rewrite Hr, !length_iota. rewrite (submat_id m n M); [reflexivity|].
  eapply head_wf; exact H1.
Qed.

(* ---------- ops 8, 9, 10: equality test, transpose test, 1-sum ---------- *)
Definition binary_args : dec ((nat * nat * mat) * Z * mres) :=
  x2 <- dmat ;; rc <- dZ ;; r <- dres ;; dend (x2, rc, r).

Lemma binary_args_RMat : forall rest x2 rc ty x rest',
  binary_args rest = Some ((x2, rc, RMat ty x), rest') -> from_csr x.
Proof.
  intros rest x2 rc ty x rest' H. unfold binary_args, dbind in H. dinv H.
  apply dend_inv in H. destruct H as [H _]. inversion H; subst. eapply dres_RMat; eassumption.
Qed.

Lemma binary_args_wf : forall rest m2 n2 M2 rc r rest',
  binary_args rest = Some (((m2, n2, M2), rc, r), rest') -> wf_mat m2 n2 M2 = true.
Proof.
  intros rest m2 n2 M2 rc r rest' H. unfold binary_args, dbind in H. dinv H.
  apply dend_inv in H. destruct H as [H _]. inversion H; subst. eapply dmat_wf; eassumption.
Qed.

Lemma eqb_flag : forall v b, Bool.eqb (v =? 1) b = true -> (v = 1 <-> b = true).
Proof.
  intros v b H. apply Bool.eqb_prop in H. rewrite <- H. symmetry. apply Z.eqb_eq.
Qed.

Theorem judge_matutil_equal : forall rec ty m n M rest m2 n2 M2 rc r rest',
  matutil_head rec = Some ((8, ty, (m, n, M)), rest) ->
  binary_args rest = Some (((m2, n2, M2), rc, r), rest') ->
  judge_matutil rec = 0 ->
  rc = 0 /\ exists v, r = RVal v /\ (v = 1 <-> (m = m2 /\ n = n2 /\ M = M2)).
Proof.
  intros rec ty m n M rest m2 n2 M2 rc r rest' H1 H2 HJ.
  unfold matutil_head in H1. unfold binary_args in H2.
  jopen HJ H1. rewrite H2 in HJ. cbv beta iota in HJ.
  jif HJ. apply negb_false_iff, Z.eqb_eq in E.
  destruct r as [|ty' x|v|m' n' rs cs]; try discriminate HJ.
  jif HJ. apply eqb_flag in E0. split; [exact E|]. exists v. split; [reflexivity|].
  rewrite E0, !andb_true_iff, !Nat.eqb_eq, mat_eqb_eq. tauto.
Qed.

Theorem judge_matutil_is_transpose : forall rec ty m n M rest m2 n2 M2 rc r rest',
  matutil_head rec = Some ((9, ty, (m, n, M)), rest) ->
  binary_args rest = Some (((m2, n2, M2), rc, r), rest') ->
  judge_matutil rec = 0 ->
  rc = 0 /\ exists v, r = RVal v /\ (v = 1 <-> (m2 = n /\ n2 = m /\ M2 = transpose m n M)).
Proof.
  intros rec ty m n M rest m2 n2 M2 rc r rest' H1 H2 HJ.
  unfold matutil_head in H1. unfold binary_args in H2.
  jopen HJ H1. rewrite H2 in HJ. cbv beta iota in HJ.
  jif HJ. apply negb_false_iff, Z.eqb_eq in E.
  destruct r as [|ty' x|v|m' n' rs cs]; try discriminate HJ.
  jif HJ. apply eqb_flag in E0. split; [exact E|]. exists v. split; [reflexivity|].
  rewrite E0, !andb_true_iff, !Nat.eqb_eq, mat_eqb_eq.
  split; [intros [[-> ->] ->]; auto | intros [-> [-> ->]]; auto].
Qed.

Theorem judge_matutil_tests : forall rec op ty m n M rest m2 n2 M2 rc r rest',
  matutil_head rec = Some ((op, ty, (m, n, M)), rest) ->
  binary_args rest = Some (((m2, n2, M2), rc, r), rest') ->
  judge_matutil rec = 0 ->
  op = 8 \/ op = 9 ->
  rc = 0 /\ exists v, r = RVal v /\
    (v = 1 <-> if op =? 8 then (m = m2 /\ n = n2 /\ M = M2)
               else (m2 = n /\ n2 = m /\ M2 = transpose m n M)).
Proof.
  intros rec op ty m n M rest m2 n2 M2 rc r rest' H1 H2 HJ [-> | ->].
  - exact (judge_matutil_equal _ _ _ _ _ _ _ _ _ _ _ _ H1 H2 HJ).
  - exact (judge_matutil_is_transpose _ _ _ _ _ _ _ _ _ _ _ _ H1 H2 HJ).
Qed.

Theorem judge_matutil_onesum : forall rec ty m n M rest m2 n2 M2 rc r rest',
  matutil_head rec = Some ((10, ty, (m, n, M)), rest) ->
  binary_args rest = Some (((m2, n2, M2), rc, r), rest') ->
  judge_matutil rec = 0 ->
  rc = 0 /\ r = RMat 0 ((m + m2)%nat, (n + n2)%nat, block_diag2 m n M m2 n2 M2) /\
  from_csr ((m + m2)%nat, (n + n2)%nat, block_diag2 m n M m2 n2 M2).
Proof.
  intros rec ty m n M rest m2 n2 M2 rc r rest' H1 H2 HJ. pose proof H2 as H2'.
  unfold matutil_head in H1. unfold binary_args in H2.
  jopen HJ H1. rewrite H2 in HJ. cbv beta iota in HJ.
  jif HJ. apply negb_false_iff, Z.eqb_eq in E.
  destruct r as [|ty' x|v|m' n' rs cs]; try discriminate HJ.
  jif HJ. apply andb_true_iff in E0. destruct E0 as [Et Ex].
  apply Z.eqb_eq in Et. apply mat_is_eq in Ex. subst.
  split; [reflexivity|]. split; [reflexivity|]. eapply binary_args_RMat; exact H2'.
Qed.

(* ---------- op 11: submatrix text round trip ---------- *)
Definition subio_args : dec (list nat * list nat * Z * mres) :=
  rs <- dnatlist ;; cs <- dnatlist ;; rc <- dZ ;; r <- dres ;; dend (rs, cs, rc, r).

Theorem judge_matutil_subio : forall rec ty m n M rest rs cs rc r rest',
  matutil_head rec = Some ((11, ty, (m, n, M)), rest) ->
  subio_args rest = Some ((rs, cs, rc, r), rest') ->
  judge_matutil rec = 0 ->
  all_lt m rs = true -> all_lt n cs = true ->
  rc = 0 /\ r = RSub m n rs cs.
Proof.
  intros rec ty m n M rest rs cs rc r rest' H1 H2 HJ Hr Hc.
  unfold matutil_head in H1. unfold subio_args in H2.
  jopen HJ H1. rewrite H2 in HJ. cbv beta iota in HJ.
  rewrite Hr, Hc in HJ. cbn [andb negb] in HJ.
  jif HJ. apply negb_false_iff, Z.eqb_eq in E.
  destruct r as [|ty' x|v|m' n' rs' cs']; try discriminate HJ.
  jif HJ. rewrite !andb_true_iff, !Nat.eqb_eq, !natlist_eqb'_eq in E0.
  destruct E0 as [[[-> ->] ->] ->]. split; [exact E | reflexivity].
Qed.

(* ---------- ops 12, 13: CMRsubmatSlice / CMRsubmatUnslice ---------- *)
Definition subslice_args : dec (list nat * list nat * list nat * list nat * Z * mres) :=
  brs <- dnatlist ;; bcs <- dnatlist ;; irs <- dnatlist ;; ics <- dnatlist ;; rc <- dZ ;; r <- dres ;;
  dend (brs, bcs, irs, ics, rc, r).

Theorem judge_matutil_subslice : forall rec ty m n M rest brs bcs irs ics rc r rest',
  matutil_head rec = Some ((12, ty, (m, n, M)), rest) ->
  subslice_args rest = Some ((brs, bcs, irs, ics, rc, r), rest') ->
  judge_matutil rec = 0 ->
  match sub_slice brs irs, sub_slice bcs ics with
  | Some ers, Some ecs => rc = 0 /\ exists m' n', r = RSub m' n' ers ecs
  | _, _ => rc <> 0
  end.
Proof.
  intros rec ty m n M rest brs bcs irs ics rc r rest' H1 H2 HJ.
  unfold matutil_head in H1. unfold subslice_args in H2.
  jopen HJ H1. rewrite H2 in HJ. cbv beta iota zeta in HJ.
  destruct (sub_slice brs irs) as [ers|]; [destruct (sub_slice bcs ics) as [ecs|]|].
  - jif HJ. apply negb_false_iff, Z.eqb_eq in E.
    destruct r as [|ty' x|v|m' n' rs' cs']; try discriminate HJ.
    jif HJ. rewrite !andb_true_iff, !natlist_eqb'_eq in E0. destruct E0 as [-> ->].
    split; [exact E|]. exists m', n'. reflexivity.
  - jif HJ. now apply Z.eqb_neq in E.
  - jif HJ. now apply Z.eqb_neq in E.
Qed.

Theorem judge_matutil_subunslice : forall rec ty m n M rest brs bcs irs ics rc r rest',
  matutil_head rec = Some ((13, ty, (m, n, M)), rest) ->
  subslice_args rest = Some ((brs, bcs, irs, ics, rc, r), rest') ->
  judge_matutil rec = 0 ->
  match sub_unslice brs irs, sub_unslice bcs ics with
  | Some ers, Some ecs => rc = 0 /\ exists m' n', r = RSub m' n' ers ecs
  | _, _ => rc <> 0
  end.
Proof.
  intros rec ty m n M rest brs bcs irs ics rc r rest' H1 H2 HJ.
  unfold matutil_head in H1. unfold subslice_args in H2.
  jopen HJ H1. rewrite H2 in HJ. cbv beta iota zeta in HJ.
  destruct (sub_unslice brs irs) as [ers|]; [destruct (sub_unslice bcs ics) as [ecs|]|].
  - jif HJ. apply negb_false_iff, Z.eqb_eq in E.
    destruct r as [|ty' x|v|m' n' rs' cs']; try discriminate HJ.
    jif HJ. rewrite !andb_true_iff, !natlist_eqb'_eq in E0. destruct E0 as [-> ->].
    split; [exact E|]. exists m', n'. reflexivity.
  - jif HJ. now apply Z.eqb_neq in E.
  - jif HJ. now apply Z.eqb_neq in E.
Qed.

(* ---------- op 6: determinant (square matrices only) ---------- *)
Theorem judge_matutil_det : forall rec ty m n M rest rc r rest',
  matutil_head rec = Some ((6, ty, (m, n, M)), rest) ->
  matutil_result rest = Some ((rc, r), rest') ->
  judge_matutil rec = 0 ->
  if Nat.eqb m n then rc = 0 /\ r = RVal (det m M) else rc <> 0.
Proof.
  intros rec ty m n M rest rc r rest' H1 H2 HJ.
  unfold matutil_head in H1. unfold matutil_result in H2.
  jopen HJ H1. rewrite H2 in HJ. cbv beta iota in HJ.
  destruct (Nat.eqb m n); cbn [negb] in HJ.
  - jif HJ. apply negb_false_iff, Z.eqb_eq in E.
    destruct r as [|ty' x|v|m' n' rs cs]; try discriminate HJ.
    jif HJ. apply Z.eqb_eq in E0. subst. auto.
  - jif HJ. now apply Z.eqb_neq in E.
Qed.

(* ========================================================================================== *)
(* 3. Examples                                                                                  *)
(* ========================================================================================== *)

(* record layout: op ty | M = m n entries | parameters | rc kind ...;
   kind 1 = ty' then CSR "m n nnz slice[m+1] cols[nnz] vals[nnz]"; kind 2 = value; kind 3 = m n |rs| rs |cs| cs *)

(* op 1: transpose of [[1;0;-1];[0;1;1]] *)
Example ex_transpose_ok :
  judge_matutil [1; 0; 2; 3; 1;0;-1;0;1;1;  0; 1; 0; 3; 2; 4; 0;1;2;4; 0;1;0;1; 1;1;-1;1] = 0.
Proof. vm_compute. reflexivity. Qed.
Example ex_transpose_wrong_value :
  judge_matutil [1; 0; 2; 3; 1;0;-1;0;1;1;  0; 1; 0; 3; 2; 4; 0;1;2;4; 0;1;0;1; 1;1;1;1] = 301.
Proof. vm_compute. reflexivity. Qed.
(* columns of a row not increasing: the CSR result is ill-formed, the record is rejected as malformed *)
Example ex_transpose_bad_csr :
  judge_matutil [1; 0; 2; 3; 1;0;-1;0;1;1;  0; 1; 0; 3; 2; 4; 0;1;2;4; 0;1;1;0; 1;1;-1;1] = 1.
Proof. vm_compute. reflexivity. Qed.

(* op 4: support of [[2;0;-1];[0;3;1]] *)
Example ex_support_ok :
  judge_matutil [4;0;2;3;2;0;-1;0;3;1; 0;1;0; 2;3;4; 0;2;4; 0;2;1;2; 1;1;1;1] = 0.
Proof. vm_compute. reflexivity. Qed.
Example ex_support_signed_leak :
  judge_matutil [4;0;2;3;2;0;-1;0;3;1; 0;1;0; 2;3;4; 0;2;4; 0;2;1;2; 1;-1;1;1] = 301.
Proof. vm_compute. reflexivity. Qed.

(* op 3: slice rows [1], columns [2;0] *)
Example ex_slice_ok :
  judge_matutil [3;0;2;3;1;0;-1;0;1;1; 1;1; 2;2;0; 0;1;0; 1;2;1; 0;1; 0; 1] = 0.
Proof. vm_compute. reflexivity. Qed.
Example ex_slice_out_of_range_not_refused :
  judge_matutil [3;0;2;3;1;0;-1;0;1;1; 1;2; 2;2;0; 0;1;0; 1;2;1; 0;1; 0; 1] = 303.
Proof. vm_compute. reflexivity. Qed.
Example ex_slice_out_of_range_refused :
  judge_matutil [3;0;2;3;1;0;-1;0;1;1; 1;2; 2;2;0; 1;0] = 0.
Proof. vm_compute. reflexivity. Qed.

(* op 2: permute with NULL, NULL = identity; and with rows swapped but the result not permuted *)
Example ex_permute_null_ok :
  judge_matutil [2;0;2;3;1;0;-1;0;1;1; -1; -1; 0;1;0; 2;3;4; 0;2;4; 0;2;1;2; 1;-1;1;1] = 0.
Proof. vm_compute. reflexivity. Qed.
Example ex_permute_ignored :
  judge_matutil [2;0;2;3;1;0;-1;0;1;1; 2;1;0; -1; 0;1;0; 2;3;4; 0;2;4; 0;2;1;2; 1;-1;1;1] = 301.
Proof. vm_compute. reflexivity. Qed.

(* op 7: int -> char with an entry 200 *)
Example ex_convert_overflow_not_refused :
  judge_matutil [7;1;1;2;200;1; 0;1;0; 1;2;2; 0;2; 0;1; 200;1] = 303.
Proof. vm_compute. reflexivity. Qed.
Example ex_convert_overflow_refused : judge_matutil [7;1;1;2;200;1; 1;0] = 0.
Proof. vm_compute. reflexivity. Qed.
Example ex_convert_ok : judge_matutil [7;1;1;2;100;1; 0;1;0; 1;2;2; 0;2; 0;1; 100;1] = 0.
Proof. vm_compute. reflexivity. Qed.

(* ops 8, 9 *)
Example ex_equal_ok : judge_matutil [8;0;2;2;1;0;0;1; 2;2;1;0;0;1; 0; 2; 1] = 0.
Proof. vm_compute. reflexivity. Qed.
Example ex_equal_wrong : judge_matutil [8;0;2;2;1;0;0;1; 2;2;1;0;0;1; 0; 2; 0] = 301.
Proof. vm_compute. reflexivity. Qed.
Example ex_is_transpose_ok : judge_matutil [9;0;1;2;1;-1; 2;1;1;-1; 0; 2; 1] = 0.
Proof. vm_compute. reflexivity. Qed.
Example ex_is_transpose_wrong : judge_matutil [9;0;1;2;1;-1; 2;1;1;1; 0; 2; 1] = 301.
Proof. vm_compute. reflexivity. Qed.

(* op 10: [[1]] (+) [[1;-1]] = [[1;0;0];[0;1;-1]] *)
Example ex_onesum_ok :
  judge_matutil [10;0;1;1;1; 1;2;1;-1; 0; 1;0; 2;3;3; 0;1;3; 0;1;2; 1;1;-1] = 0.
Proof. vm_compute. reflexivity. Qed.
Example ex_onesum_wrong_row :
  judge_matutil [10;0;1;1;1; 1;2;1;-1; 0; 1;0; 2;3;3; 0;2;3; 0;1;2; 1;1;-1] = 301.
Proof. vm_compute. reflexivity. Qed.

(* op 11 *)
Example ex_subio_ok : judge_matutil [11;0;2;3;1;0;-1;0;1;1; 1;1; 2;2;0; 0; 3; 2;3; 1;1; 2;2;0] = 0.
Proof. vm_compute. reflexivity. Qed.
Example ex_subio_reordered : judge_matutil [11;0;2;3;1;0;-1;0;1;1; 1;1; 2;2;0; 0; 3; 2;3; 1;1; 2;0;2] = 301.
Proof. vm_compute. reflexivity. Qed.

(* ops 12, 13: base rows [5;3;7], base columns [2;4] *)
Example ex_subslice_ok :
  judge_matutil [12;0;0;0; 3;5;3;7; 2;2;4; 2;7;5; 1;4; 0; 3; 3;2; 2;2;0; 1;1] = 0.
Proof. vm_compute. reflexivity. Qed.
Example ex_subslice_not_contained :
  judge_matutil [12;0;0;0; 3;5;3;7; 2;2;4; 2;7;9; 1;4; 0; 3; 3;2; 2;2;0; 1;1] = 303.
Proof. vm_compute. reflexivity. Qed.
Example ex_subunslice_ok :
  judge_matutil [13;0;0;0; 3;5;3;7; 2;2;4; 2;2;0; 1;1; 0; 3; 3;2; 2;7;5; 1;4] = 0.
Proof. vm_compute. reflexivity. Qed.
Example ex_subunslice_wrong :
  judge_matutil [13;0;0;0; 3;5;3;7; 2;2;4; 2;2;0; 1;1; 0; 3; 3;2; 2;7;5; 1;2] = 301.
Proof. vm_compute. reflexivity. Qed.

(* op 6 *)
Example ex_det_ok : judge_matutil [6;0;2;2;1;2;3;4; 0;2;-2] = 0.
Proof. vm_compute. reflexivity. Qed.
Example ex_det_wrong : judge_matutil [6;0;2;2;1;2;3;4; 0;2;2] = 304.
Proof. vm_compute. reflexivity. Qed.

(* the soundness theorem applied to a concrete accepted record *)
Example ex_transpose_sound :
  from_csr (3%nat, 2%nat, transpose 2 3 [[1;0;-1];[0;1;1]]).
Proof.
  refine (proj2 (proj2 (judge_matutil_transpose
    [1; 0; 2; 3; 1;0;-1;0;1;1;  0; 1; 0; 3; 2; 4; 0;1;2;4; 0;1;0;1; 1;1;-1;1]
    0 2 3 [[1;0;-1];[0;1;1]] _ 0 _ _ _ _ _))).
  - vm_compute. reflexivity.
  - vm_compute. reflexivity.
  - vm_compute. reflexivity.
Qed.

Print Assumptions transpose_involutive.
Print Assumptions submat_submat.
Print Assumptions transpose_submat.
Print Assumptions support_transpose.
Print Assumptions block_diag2_transpose.
Print Assumptions sub_slice_unslice.
Print Assumptions sub_unslice_slice.
Print Assumptions sub_slice_spec.
Print Assumptions sub_slice_None.
Print Assumptions judge_matutil_unary.
Print Assumptions judge_matutil_convert_refused.
Print Assumptions judge_matutil_submat.
Print Assumptions judge_matutil_permute_null.
Print Assumptions judge_matutil_tests.
Print Assumptions judge_matutil_onesum.
Print Assumptions judge_matutil_subio.
Print Assumptions judge_matutil_subslice.
Print Assumptions judge_matutil_subunslice.
Print Assumptions judge_matutil_det.
Print Assumptions ex_transpose_sound.
