(* EquiAux.v — plain-Coq auxiliary lemmas for EquiUnique.v / EquiCertProofs.v: gcd of a list, sums against a unit column,
   the minors of a column submatrix, and constructed equimodular instances M = L X with an identity inside X. *)
From Cmr Require Import Base Det BaseProofs BalancedProofs TuModel GraphModel SpModel TuNetModel EquiModel EquiProofs EquiCertModel.
Local Open Scope Z_scope.

(* ------------------------------------------------------------------------------------------ *)
(* 0. mat_mul of the model file is mat_mul_cols                                                 *)
(* ------------------------------------------------------------------------------------------ *)

Lemma mat_mul_eq : forall m r n A X, mat_mul m r n A X = mat_mul_cols m r n A X.
Proof. reflexivity. Qed.

(* ------------------------------------------------------------------------------------------ *)
(* 1. gcd_list                                                                                  *)
(* ------------------------------------------------------------------------------------------ *)

Lemma gcd_list_all_zero : forall l, (forall x, In x l -> x = 0) -> gcd_list l = 0.
Proof.
  induction l as [|a l IH]; intros H; [reflexivity|]. cbn [gcd_list].
  rewrite IH by (intros x Hx; apply H; now right). rewrite (H a) by now left. reflexivity.
Qed.

Lemma gcd_list_pos_exists : forall l, 0 < gcd_list l -> exists x, In x l /\ x <> 0.
Proof.
  induction l as [|a l IH]; intros H; [cbn in H; lia|]. cbn [gcd_list] in H.
  destruct (Z.eq_dec a 0) as [->|Ha].
  - rewrite Z.gcd_0_l in H. pose proof (gcd_list_nonneg l). rewrite Z.abs_eq in H by assumption.
    destruct (IH H) as [x [Hx Hx0]]. exists x. split; [now right | assumption].
  - exists a. split; [now left | assumption].
Qed.

Lemma gcd_list_map_mul : forall c l, gcd_list (map (Z.mul c) l) = Z.abs c * gcd_list l.
Proof.
  intros c; induction l as [|a l IH]; cbn [map gcd_list]; [lia|].
  rewrite IH. pose proof (gcd_list_nonneg l) as Hn.
  rewrite <- (Z.gcd_mul_mono_l a (gcd_list l) c).
  rewrite <- (Z.gcd_abs_r (c * a) (c * gcd_list l)). rewrite Z.abs_mul.
  rewrite (Z.abs_eq (gcd_list l)) by assumption.
  rewrite <- (Z.gcd_abs_r (c * a) (Z.abs c * gcd_list l)). rewrite Z.abs_mul, Z.abs_involutive.
  rewrite (Z.abs_eq (gcd_list l)) by assumption. reflexivity.
Qed.

Lemma gcd_list_map_unit : forall c l, c = 1 \/ c = -1 -> gcd_list (map (Z.mul c) l) = gcd_list l.
Proof.
  intros c l H. rewrite gcd_list_map_mul.
  destruct H as [-> | ->]; [change (Z.abs 1) with 1 | change (Z.abs (-1)) with 1]; apply Z.mul_1_l.
Qed.

Lemma gcd_list_single : forall x, gcd_list [x] = Z.abs x.
Proof. intros x. cbn [gcd_list]. apply Z.gcd_0_r. Qed.

(* gcd_list l is the greatest common divisor of the elements of l *)
Lemma gcd_list_divide_in : forall l x, In x l -> (gcd_list l | x).
Proof.
  induction l as [|a l IH]; intros x Hx; [contradiction|]. cbn [gcd_list]. destruct Hx as [<-|Hx].
  - apply Z.gcd_divide_l.
  - apply Z.divide_trans with (gcd_list l); [apply Z.gcd_divide_r | now apply IH].
Qed.

Lemma gcd_list_greatest : forall l g, (forall x, In x l -> (g | x)) -> (g | gcd_list l).
Proof.
  induction l as [|a l IH]; intros g H; cbn [gcd_list]; [apply Z.divide_0_r|].
  apply Z.gcd_greatest; [apply H; now left | apply IH; intros x Hx; apply H; now right].
Qed.

(* two lists that have the same common divisors have the same gcd *)
Lemma gcd_list_same_divisors : forall l l',
  (forall g, (forall x, In x l -> (g | x)) -> (forall x, In x l' -> (g | x))) ->
  (forall g, (forall x, In x l' -> (g | x)) -> (forall x, In x l -> (g | x))) ->
  gcd_list l = gcd_list l'.
Proof.
  intros l l' H1 H2. apply Z.divide_antisym_nonneg; try apply gcd_list_nonneg.
  - apply gcd_list_greatest. apply H1. apply gcd_list_divide_in.
  - apply gcd_list_greatest. apply H2. apply gcd_list_divide_in.
Qed.

(* a list all of whose elements are multiples of one of them, x *)
Lemma gcd_list_generator : forall l x, In x l -> (forall y, In y l -> (x | y)) -> gcd_list l = Z.abs x.
Proof.
  intros l x Hx H. apply Z.divide_antisym_nonneg; [apply gcd_list_nonneg | apply Z.abs_nonneg | |].
  - apply Z.divide_abs_r. now apply gcd_list_divide_in.
  - apply Z.divide_abs_l. now apply gcd_list_greatest.
Qed.

(* ------------------------------------------------------------------------------------------ *)
(* 2. sums against a unit vector                                                                *)
(* ------------------------------------------------------------------------------------------ *)

Lemma delta_sum_out : forall (f : nat -> Z) k s b, (b < s \/ s + k <= b)%nat ->
  fold_right Z.add 0 (map (fun a => f a * (if Nat.eqb a b then 1 else 0)) (iota s k)) = 0.
Proof.
  intros f; induction k as [|k IH]; intros s b H; [reflexivity|].
  cbn [iota map fold_right]. rewrite IH by lia.
  destruct (Nat.eqb s b) eqn:E; [apply Nat.eqb_eq in E; lia | lia].
Qed.

Lemma delta_sum : forall (f : nat -> Z) k s b, (s <= b < s + k)%nat ->
  fold_right Z.add 0 (map (fun a => f a * (if Nat.eqb a b then 1 else 0)) (iota s k)) = f b.
Proof.
  intros f; induction k as [|k IH]; intros s b H; [lia|].
  cbn [iota map fold_right]. destruct (Nat.eqb s b) eqn:E.
  - apply Nat.eqb_eq in E. subst b. rewrite delta_sum_out by lia. lia.
  - apply Nat.eqb_neq in E. rewrite IH by lia. lia.
Qed.

(* ------------------------------------------------------------------------------------------ *)
(* 3. entries of submatrices, the minors of M_B                                                 *)
(* ------------------------------------------------------------------------------------------ *)

Lemma nthR_map_nthn : forall (f : nat -> list Z) rs i,
  (i < length rs)%nat -> nthR (map f rs) i = f (nthn rs i).
Proof.
  intros f; induction rs as [|c cs IH]; intros i Hi; simpl in Hi; [lia|].
  destruct i as [|i]; [reflexivity|]. cbn [map nthR nthn]. apply IH. lia.
Qed.

Lemma get_submat : forall M rs cs i j, (i < length rs)%nat -> (j < length cs)%nat ->
  get (submat M rs cs) i j = get M (nthn rs i) (nthn cs j).
Proof.
  intros M rs cs i j Hi Hj. unfold submat. unfold get at 1.
  rewrite nthR_map_nthn by assumption. now rewrite nthZ_map_nthn.
Qed.

Lemma nthn_iota : forall k s i, (i < k)%nat -> nthn (iota s k) i = (s + i)%nat.
Proof.
  induction k as [|k IH]; intros s i Hi; [lia|]. destruct i as [|i]; cbn [iota nthn]; [lia|].
  rewrite IH by lia. lia.
Qed.

Lemma nthn_In : forall l i, (i < length l)%nat -> In (nthn l i) l.
Proof.
  induction l as [|a l IH]; intros i Hi; simpl in Hi; [lia|].
  destruct i as [|i]; [now left|]. right. apply IH. lia.
Qed.

Lemma wf_submat : forall M rs cs, wf_mat (length rs) (length cs) (submat M rs cs) = true.
Proof.
  intros M rs cs. unfold wf_mat, submat. rewrite map_length, Nat.eqb_refl. cbn [andb].
  apply forallb_forall. intros r Hr. apply in_map_iff in Hr. destruct Hr as [i [<- _]].
  rewrite map_length. apply Nat.eqb_refl.
Qed.

Lemma get_submat_cols : forall M m B i a, (i < m)%nat -> (a < length B)%nat ->
  get (submat M (iota 0 m) B) i a = get M i (nthn B a).
Proof.
  intros M m B i a Hi Ha. rewrite get_submat by (rewrite ?length_iota; assumption).
  now rewrite nthn_iota.
Qed.

(* a square submatrix of the column submatrix M_B is a submatrix of M *)
Lemma submat_submat_cols : forall M m B rs, all_lt m rs = true ->
  submat (submat M (iota 0 m) B) rs (iota 0 (length B)) = submat M rs B.
Proof.
  intros M m B rs H. rewrite all_lt_spec in H.
  change (submat M rs B) with (map (fun i => map (fun j => get M i j) B) rs).
  unfold submat at 1. apply map_ext_in. intros i Hi. specialize (H i Hi).
  transitivity (map (fun j => get M i j) (map (nthn B) (iota 0 (length B)))).
  - rewrite map_map. apply map_ext_in. intros a Ha. apply in_iota in Ha. apply get_submat_cols; lia.
  - now rewrite map_nthn_iota.
Qed.

Lemma minors_gcd_cols : forall M m B,
  minors_gcd m (length B) (submat M (iota 0 m) B) =
  gcd_list (map (fun rs => det (length B) (submat M rs B)) (subseqs (length B) (iota 0 m))).
Proof.
  intros M m B. unfold minors_gcd. f_equal. apply map_ext_in. intros rs Hrs.
  apply subseqs_iota0_spec in Hrs. destruct Hrs as (_ & _ & H). now rewrite submat_submat_cols.
Qed.

(* ------------------------------------------------------------------------------------------ *)
(* 4. the square case                                                                           *)
(* ------------------------------------------------------------------------------------------ *)

Lemma subseqs_long : forall r l, (length l < r)%nat -> subseqs r l = [].
Proof.
  intros r l; revert r; induction l as [|a l IH]; intros r H; destruct r as [|r]; simpl in H; try lia.
  - reflexivity.
  - cbn [subseqs]. rewrite (IH r) by lia. rewrite (IH (S r)) by lia. reflexivity.
Qed.

Lemma subseqs_full : forall k s, subseqs k (iota s k) = [iota s k].
Proof.
  induction k as [|k IH]; intros s; [reflexivity|].
  cbn [iota subseqs]. rewrite IH. rewrite subseqs_long by (rewrite length_iota; lia). reflexivity.
Qed.

Lemma submat_full : forall m n L, wf_mat m n L = true -> submat L (iota 0 m) (iota 0 n) = L.
Proof. intros m n L H. exact (mk_mat_get m n L H). Qed.

Theorem minors_gcd_square : forall m L, wf_mat m m L = true -> minors_gcd m m L = Z.abs (det m L).
Proof.
  intros m L H. unfold minors_gcd. rewrite subseqs_full. cbn [map]. rewrite gcd_list_single.
  now rewrite submat_full.
Qed.

(* ------------------------------------------------------------------------------------------ *)
(* 5. constructed instances                                                                     *)
(* ------------------------------------------------------------------------------------------ *)

Lemma identity_at_spec : forall r X B,
  identity_at r X B = true <->
  (forall a b, (a < r)%nat -> (b < r)%nat -> get X a (nthn B b) = if Nat.eqb a b then 1 else 0).
Proof.
  intros r X B. unfold identity_at. rewrite forallb_forall. split.
  - intros H a b Ha Hb. assert (Ha' : In a (iota 0 r)) by (apply in_iota; lia).
    specialize (H a Ha'). rewrite forallb_forall in H.
    assert (Hb' : In b (iota 0 r)) by (apply in_iota; lia). specialize (H b Hb'). now apply Z.eqb_eq in H.
  - intros H a Ha. apply in_iota in Ha. apply forallb_forall. intros b Hb. apply in_iota in Hb.
    apply Z.eqb_eq. apply H; lia.
Qed.

Theorem equimodular_construct : forall m r n L X B,
  wf_mat m r L = true -> wf_mat r n X = true -> length B = r ->
  strictly_increasing B = true -> all_lt n B = true ->
  (forall a b, (a < r)%nat -> (b < r)%nat -> get X a (nthn B b) = if Nat.eqb a b then 1 else 0) ->
  tu_bf r n X = true -> 0 < minors_gcd m r L ->
  Equimodular m n (mat_mul_cols m r n L X) (minors_gcd m r L).
Proof.
  intros m r n L X B HL HX HB Hsi Hlt Hid Htu Hpos.
  assert (Hcols : submat (mat_mul_cols m r n L X) (iota 0 m) B = L).
  { apply (mat_ext m r).
    - rewrite <- HB at 1. rewrite <- (length_iota m 0) at 1. apply wf_submat.
    - assumption.
    - intros i a Hi Ha. rewrite get_submat_cols by lia.
      assert (Hn : (nthn B a < n)%nat).
      { rewrite all_lt_spec in Hlt. apply Hlt. apply nthn_In. lia. }
      unfold mat_mul_cols. rewrite get_mk_mat by assumption.
      rewrite <- (delta_sum (fun a' => get L i a') r 0 a) by lia.
      f_equal. apply map_ext_in. intros a' Ha'. apply in_iota in Ha'. rewrite Hid by lia. reflexivity. }
  exists B, X. rewrite HB, Hcols. repeat split; try assumption.
Qed.

Corollary equimodular_construct_b : forall m r n L X B,
  wf_mat m r L = true -> wf_mat r n X = true -> length B = r ->
  strictly_increasing B = true -> all_lt n B = true -> identity_at r X B = true ->
  tu_bf r n X = true -> 0 < minors_gcd m r L ->
  Equimodular m n (mat_mul_cols m r n L X) (minors_gcd m r L).
Proof.
  intros m r n L X B HL HX HB Hsi Hlt Hid Htu Hpos.
  pose proof (proj1 (identity_at_spec r X B) Hid) as Hid'.
  now apply (equimodular_construct m r n L X B).
Qed.

Print Assumptions minors_gcd_square.
Print Assumptions equimodular_construct.
Print Assumptions equimodular_construct_b.
