(* GraphProofs.v — soundness of the graph certificate checkers of GraphModel.v with respect to a
   mathematical specification of walks, simple paths and cycles. *)
From Coq Require Import List ZArith Bool Lia Permutation.
From Cmr Require Import Base Det BaseProofs GraphModel.
Import ListNotations.

(* ------------------------------------------------------------------------------------------ *)
(* 0. Specification                                                                             *)
(* ------------------------------------------------------------------------------------------ *)

(* a walk in the edge list es from x to y: a list of (edge, forward?) steps, each edge a member of es *)
Inductive is_walk (es : list edge) : nat -> nat -> list (edge * bool) -> Prop :=
| walk_nil x : is_walk es x x []
| walk_cons x y e (fwd : bool) p :
    In e es -> (if fwd then e_u e = x else e_v e = x) ->
    is_walk es (if fwd then e_v e else e_u e) y p -> is_walk es x y ((e, fwd) :: p).

(* nodes visited by a walk starting at x *)
Fixpoint walk_nodes (x : nat) (p : list (edge * bool)) : list nat :=
  match p with [] => [x] | (e, fwd) :: q => x :: walk_nodes (if fwd then e_v e else e_u e) q end.

Definition simple_path (es : list edge) (x y : nat) (p : list (edge * bool)) : Prop :=
  is_walk es x y p /\ NoDup (walk_nodes x p).

(* identifiers of the edges of a walk *)
Definition step_ids (p : list (edge * bool)) : list nat := map (fun q => e_id (fst q)) p.

(* no cycle: there is no nonempty closed walk that uses pairwise distinct edges (by id) *)
Definition has_cycle (es : list edge) : Prop :=
  exists x p, p <> [] /\ is_walk es x x p /\ NoDup (map (fun q => e_id (fst q)) p).

Definition dflt : edge := {| e_id := 0; e_u := 0; e_v := 0 |}.

(* ------------------------------------------------------------------------------------------ *)
(* 1. Bridging lemmas                                                                           *)
(* ------------------------------------------------------------------------------------------ *)

Ltac split_andb :=
  repeat match goal with
  | H : _ && _ = true |- _ => apply andb_true_iff in H; destruct H
  end.

Lemma memn_In : forall x l, memn x l = true <-> In x l.
Proof.
  intros x; induction l as [|y l IH]; simpl.
  - split; [discriminate | intros []].
  - rewrite orb_true_iff, Nat.eqb_eq, IH. split; intros [H|H]; auto.
Qed.

Lemma memn_false : forall x l, memn x l = false <-> ~ In x l.
Proof.
  intros x l. rewrite <- memn_In. destruct (memn x l); split; intros H; auto; try discriminate.
  exfalso; apply H; reflexivity.
Qed.

Lemma nodupn_NoDup : forall l, nodupn l = true <-> NoDup l.
Proof.
  induction l as [|x l IH]; simpl.
  - split; [constructor | reflexivity].
  - rewrite andb_true_iff, negb_true_iff, memn_false, IH. split.
    + intros [H1 H2]; constructor; assumption.
    + intros H; inversion H; auto.
Qed.

Lemma NoDup_iota : forall k s, NoDup (iota s k).
Proof.
  induction k; intros s; simpl; constructor.
  - rewrite in_iota. lia.
  - apply IHk.
Qed.

Lemma NoDup_map_inj_in : forall (A B : Type) (f : A -> B) (l : list A),
  (forall a b, In a l -> In b l -> f a = f b -> a = b) -> NoDup l -> NoDup (map f l).
Proof.
  intros A B f; induction l as [|x l IH]; intros Hinj Hnd; simpl; [constructor|].
  inversion Hnd; subst. constructor.
  - intros Hin. apply in_map_iff in Hin. destruct Hin as [y [Hy Hin]].
    assert (y = x) by (apply Hinj; simpl; auto). subst. contradiction.
  - apply IH; auto. intros a b Ha Hb. apply Hinj; simpl; auto.
Qed.

Lemma NoDup_app_l : forall (A : Type) (a b : list A), NoDup (a ++ b) -> NoDup a.
Proof.
  intros A; induction a as [|x a IH]; intros b H; simpl in H; [constructor|].
  apply NoDup_cons_iff in H. destruct H as [H1 H2]. constructor.
  - intros Hin. apply H1. apply in_or_app. left; exact Hin.
  - eapply IH; eauto.
Qed.

Lemma NoDup_map_NoDup : forall (A B : Type) (f : A -> B) (l : list A), NoDup (map f l) -> NoDup l.
Proof.
  intros A B f; induction l as [|x l IH]; simpl; intros H; [constructor|].
  inversion H; subst. constructor; auto.
  intros Hin. apply H2. apply in_map. assumption.
Qed.

Lemma NoDup_map_inj : forall (A B : Type) (f : A -> B) (l : list A) a b,
  NoDup (map f l) -> In a l -> In b l -> f a = f b -> a = b.
Proof.
  intros A B f; induction l as [|x l IH]; simpl; intros a b H Ha Hb E; [contradiction|].
  inversion H; subst.
  destruct Ha as [Ha|Ha], Hb as [Hb|Hb]; subst; auto.
  - exfalso. apply H2. rewrite E. apply in_map; assumption.
  - exfalso. apply H2. rewrite <- E. apply in_map; assumption.
Qed.

Lemma edge_eq_dec : forall a b : edge, {a = b} + {a <> b}.
Proof. decide equality; apply Nat.eq_dec. Qed.

Lemma step_eq_dec : forall a b : edge * bool, {a = b} + {a <> b}.
Proof. decide equality; [apply bool_dec | apply edge_eq_dec]. Qed.

(* ------------------------------------------------------------------------------------------ *)
(* 2. Walks                                                                                     *)
(* ------------------------------------------------------------------------------------------ *)

Lemma is_walk_edges : forall es x y p, is_walk es x y p -> forall q, In q p -> In (fst q) es.
Proof.
  intros es x y p H; induction H; intros q Hq; simpl in Hq; [contradiction|].
  destruct Hq as [<-|Hq]; auto.
Qed.

Lemma is_walk_incl : forall es es' x y p,
  (forall q, In q p -> In (fst q) es') -> is_walk es x y p -> is_walk es' x y p.
Proof.
  intros es es' x y p Hin H; induction H; [constructor|].
  constructor; auto.
  - apply (Hin (e, fwd)). simpl; auto.
  - apply IHis_walk. intros q Hq. apply Hin. simpl; auto.
Qed.

Lemma is_walk_app : forall es x y z p1 p2,
  is_walk es x y p1 -> is_walk es y z p2 -> is_walk es x z (p1 ++ p2).
Proof.
  intros es x y z p1 p2 H1 H2; induction H1; simpl; auto.
  constructor; auto.
Qed.

Lemma is_walk_cons_inv : forall es x y e fwd p,
  is_walk es x y ((e, fwd) :: p) ->
  In e es /\ (if fwd then e_u e = x else e_v e = x) /\
  is_walk es (if fwd then e_v e else e_u e) y p.
Proof. intros es x y e fwd p H. inversion H; subst. auto. Qed.

Lemma is_walk_split : forall es p1 p2 x z,
  is_walk es x z (p1 ++ p2) -> exists y, is_walk es x y p1 /\ is_walk es y z p2.
Proof.
  intros es; induction p1 as [|[e fwd] p1 IH]; intros p2 x z H; simpl in H.
  - exists x. split; [constructor | assumption].
  - apply is_walk_cons_inv in H. destruct H as [Hin [Hs H7]].
    destruct (IH _ _ _ H7) as [y [Ha Hb]].
    exists y. split; auto. constructor; auto.
Qed.

Lemma walk_nodes_hd : forall x p, walk_nodes x p = x :: tl (walk_nodes x p).
Proof. intros x [|[e fwd] p]; reflexivity. Qed.

Lemma is_walk_last_node : forall es x y p, is_walk es x y p -> In y (walk_nodes x p).
Proof.
  intros es x y p H; induction H; simpl; auto.
Qed.

(* ------------------------------------------------------------------------------------------ *)
(* 3. take_incident, walk, path_of                                                              *)
(* ------------------------------------------------------------------------------------------ *)

Lemma take_incident_spec : forall es x e r,
  take_incident es x = Some (e, r) -> incident e x = true /\ Permutation es (e :: r).
Proof.
  induction es as [|a es IH]; intros x e r H; simpl in H; [discriminate|].
  destruct (incident a x) eqn:Ha.
  - inversion H; subst. split; auto.
  - destruct (take_incident es x) as [[e' r']|] eqn:E; [|discriminate].
    inversion H; subst. destruct (IH _ _ _ E) as [Hi Hp]. split; auto.
    apply perm_trans with (a :: e :: r'); [apply perm_skip; exact Hp | apply perm_swap].
Qed.

Lemma walk_nil_eq : forall fuel cur target visited,
  walk fuel cur target visited [] = if Nat.eqb cur target then Some [] else None.
Proof. intros [|f]; reflexivity. Qed.

Lemma walk_S_cons : forall f cur target visited e0 rest0,
  walk (S f) cur target visited (e0 :: rest0) =
  match take_incident (e0 :: rest0) cur with
  | None => None
  | Some (e, rest') =>
    let fwd := Nat.eqb (e_u e) cur in
    let nxt := if fwd then e_v e else e_u e in
    if is_loop e || memn nxt visited then None
    else match walk f nxt target (nxt :: visited) rest' with
         | Some p => Some ((e, fwd) :: p)
         | None => None
         end
  end.
Proof. reflexivity. Qed.

Lemma walk_0_cons : forall cur target visited e0 rest0,
  walk 0 cur target visited (e0 :: rest0) = None.
Proof. reflexivity. Qed.

Theorem walk_sound : forall fuel cur target visited rest p,
  walk fuel cur target visited rest = Some p ->
  is_walk rest cur target p /\
  Permutation (map fst p) rest /\
  (forall z, In z (tl (walk_nodes cur p)) -> ~ In z visited) /\
  NoDup (tl (walk_nodes cur p)).
Proof.
  induction fuel as [|f IH]; intros cur target visited rest p H.
  - destruct rest as [|e0 rest0].
    + rewrite walk_nil_eq in H. destruct (Nat.eqb cur target) eqn:E; [|discriminate].
      inversion H; subst. apply Nat.eqb_eq in E; subst. simpl.
      repeat split; try constructor. intros z [].
    + rewrite walk_0_cons in H. discriminate.
  - destruct rest as [|e0 rest0].
    + rewrite walk_nil_eq in H. destruct (Nat.eqb cur target) eqn:E; [|discriminate].
      inversion H; subst. apply Nat.eqb_eq in E; subst. simpl.
      repeat split; try constructor. intros z [].
    + rewrite walk_S_cons in H.
      destruct (take_incident (e0 :: rest0) cur) as [[e rest']|] eqn:TI; [|discriminate].
      cbv zeta in H.
      destruct (is_loop e || memn (if Nat.eqb (e_u e) cur then e_v e else e_u e) visited) eqn:Hg;
        [discriminate|].
      apply orb_false_iff in Hg. destruct Hg as [Hloop Hvis].
      destruct (walk f (if Nat.eqb (e_u e) cur then e_v e else e_u e) target
                  ((if Nat.eqb (e_u e) cur then e_v e else e_u e) :: visited) rest') as [q|] eqn:W;
        [|discriminate].
      inversion H; subst p; clear H.
      destruct (take_incident_spec _ _ _ _ TI) as [Hinc Hperm].
      destruct (IH _ _ _ _ _ W) as [Hw [Hp [Hv Hnd]]].
      set (fwd := Nat.eqb (e_u e) cur) in *.
      set (nxt := if fwd then e_v e else e_u e) in *.
      assert (Hin : forall a, In a (e :: rest') -> In a (e0 :: rest0)).
      { intros a Ha. eapply Permutation_in; [apply Permutation_sym; exact Hperm | exact Ha]. }
      split; [|split; [|split]].
      * constructor.
        -- apply Hin. simpl; auto.
        -- unfold fwd. destruct (Nat.eqb (e_u e) cur) eqn:E.
           ++ apply Nat.eqb_eq in E; exact E.
           ++ unfold incident in Hinc. rewrite E in Hinc. simpl in Hinc.
              apply Nat.eqb_eq in Hinc; exact Hinc.
        -- fold nxt. eapply is_walk_incl; [|exact Hw].
           intros a Ha. apply Hin. right. eapply is_walk_edges; eauto.
      * simpl. apply perm_trans with (e :: rest'); [apply perm_skip; exact Hp|].
        apply Permutation_sym; exact Hperm.
      * simpl. fold nxt. rewrite walk_nodes_hd. intros z [Hz|Hz].
        -- subst z. apply memn_false; exact Hvis.
        -- intros Hz'. apply (Hv z Hz). right; exact Hz'.
      * simpl. fold nxt. rewrite walk_nodes_hd. constructor; auto.
        intros Hz. apply (Hv nxt Hz). left; reflexivity.
Qed.

Theorem path_of_sound : forall es u v p,
  path_of es u v = Some p -> simple_path es u v p /\ Permutation (map fst p) es.
Proof.
  intros es u v p H. unfold path_of in H.
  destruct (walk_sound _ _ _ _ _ _ H) as [Hw [Hp [Hv Hnd]]].
  split; [split|]; auto.
  rewrite walk_nodes_hd. constructor; auto.
  intros Hin. apply (Hv u Hin). left; reflexivity.
Qed.

(* a simple path has pairwise distinct steps/edges when its edge list is a permutation of a NoDup list;
   and a simple closed path is empty *)
Lemma simple_path_closed_nil : forall es x p, simple_path es x x p -> p = [].
Proof.
  intros es x p [Hw Hnd]. destruct p as [|[e fwd] p]; [reflexivity|].
  apply is_walk_cons_inv in Hw. destruct Hw as [Hin [Hs H7]].
  simpl in Hnd. apply NoDup_cons_iff in Hnd. destruct Hnd as [H1 _].
  exfalso. apply H1. destruct fwd; subst; eapply is_walk_last_node; eassumption.
Qed.

(* ------------------------------------------------------------------------------------------ *)
(* 4. Acyclicity: leaf stripping is sound                                                       *)
(* ------------------------------------------------------------------------------------------ *)

Definition contrib (e : edge) (z : nat) : nat :=
  (if Nat.eqb (e_u e) z then 1 else 0) + (if Nat.eqb (e_v e) z then 1 else 0).

Lemma degree_cons : forall e es z, degree (e :: es) z = contrib e z + degree es z.
Proof. reflexivity. Qed.

Lemma degree_app : forall a b z, degree (a ++ b) z = degree a z + degree b z.
Proof.
  induction a as [|e a IH]; intros b z; [reflexivity|].
  rewrite <- app_comm_cons, !degree_cons, IH. lia.
Qed.

Lemma contrib_incident : forall e z, incident e z = true -> 1 <= contrib e z.
Proof.
  intros e z H. unfold incident in H. unfold contrib.
  destruct (Nat.eqb (e_u e) z); destruct (Nat.eqb (e_v e) z); simpl in *; try lia; discriminate.
Qed.

Lemma degree_incident_ge : forall es e z, In e es -> incident e z = true -> 1 <= degree es z.
Proof.
  intros es e z Hin Hinc. apply in_split in Hin. destruct Hin as [l1 [l2 ->]].
  rewrite degree_app, degree_cons. pose proof (contrib_incident _ _ Hinc). lia.
Qed.

Lemma degree_two : forall es e e' z,
  In e es -> In e' es -> e <> e' -> incident e z = true -> incident e' z = true -> 2 <= degree es z.
Proof.
  intros es e e' z Hin Hin' Hne Hinc Hinc'.
  apply in_split in Hin. destruct Hin as [l1 [l2 ->]].
  assert (H' : In e' (l1 ++ l2)).
  { apply in_app_or in Hin'. apply in_or_app. destruct Hin' as [H|[H|H]]; auto. congruence. }
  rewrite degree_app, degree_cons.
  pose proof (contrib_incident _ _ Hinc).
  pose proof (degree_incident_ge _ _ _ H' Hinc') as H2. rewrite degree_app in H2. lia.
Qed.

(* the first step of a walk leaves its start node *)
Lemma walk_touch_start : forall es x y p, is_walk es x y p -> x <> y ->
  exists q, In q p /\ incident (fst q) x = true.
Proof.
  intros es x y p H Hne. inversion H; subst; [congruence|].
  exists (e, fwd). split; [left; reflexivity|].
  unfold incident. simpl. destruct fwd; subst.
  - rewrite Nat.eqb_refl. reflexivity.
  - rewrite Nat.eqb_refl. apply orb_true_r.
Qed.

(* some step of a walk enters its end node *)
Lemma walk_touch_end : forall es x y p, is_walk es x y p -> x <> y ->
  exists q, In q p /\ incident (fst q) y = true.
Proof.
  intros es x y p H; induction H; intros Hne; [congruence|].
  destruct (Nat.eq_dec (if fwd then e_v e else e_u e) y) as [E|E].
  - exists (e, fwd). split; [left; reflexivity|].
    unfold incident. simpl. destruct fwd; subst.
    + rewrite Nat.eqb_refl. apply orb_true_r.
    + rewrite Nat.eqb_refl. reflexivity.
  - destruct (IHis_walk E) as [q [Hq Hi]]. exists q. split; [right|]; assumption.
Qed.

(* an edge that starts a closed walk with distinct edge ids and is not a loop: both ends have degree >= 2 *)
Lemma cycle_first_edge_degree : forall L x e fwd p2,
  is_walk L x x ((e, fwd) :: p2) -> NoDup (step_ids ((e, fwd) :: p2)) -> is_loop e = false ->
  2 <= degree L (e_u e) /\ 2 <= degree L (e_v e).
Proof.
  intros L x e fwd p2 Hw Hnd Hloop.
  apply is_walk_cons_inv in Hw. destruct Hw as [Hin [Hs H7]].
  simpl in Hnd. apply NoDup_cons_iff in Hnd. destruct Hnd as [H1 _]. simpl in H1.
  unfold is_loop in Hloop. apply Nat.eqb_neq in Hloop.
  assert (Hne : forall q, In q p2 -> e <> fst q).
  { intros q Hq E. apply H1. unfold step_ids. rewrite E.
    apply (in_map (fun q => e_id (fst q))). exact Hq. }
  assert (Hinc_u : incident e (e_u e) = true).
  { unfold incident. rewrite Nat.eqb_refl. reflexivity. }
  assert (Hinc_v : incident e (e_v e) = true).
  { unfold incident. rewrite Nat.eqb_refl. apply orb_true_r. }
  destruct fwd; simpl in Hs; subst x.
  - (* from e_u e to e_v e, then p2 from e_v e back to e_u e *)
    assert (Hd : e_v e <> e_u e) by congruence.
    destruct (walk_touch_start _ _ _ _ H7 Hd) as [q1 [Hq1 Hi1]].
    destruct (walk_touch_end _ _ _ _ H7 Hd) as [q2 [Hq2 Hi2]].
    split.
    + apply (degree_two L e (fst q2)); auto. eapply is_walk_edges; eauto.
    + apply (degree_two L e (fst q1)); auto. eapply is_walk_edges; eauto.
  - assert (Hd : e_u e <> e_v e) by congruence.
    destruct (walk_touch_start _ _ _ _ H7 Hd) as [q1 [Hq1 Hi1]].
    destruct (walk_touch_end _ _ _ _ H7 Hd) as [q2 [Hq2 Hi2]].
    split.
    + apply (degree_two L e (fst q1)); auto. eapply is_walk_edges; eauto.
    + apply (degree_two L e (fst q2)); auto. eapply is_walk_edges; eauto.
Qed.

(* KEY LEMMA: a non-loop edge with an end node of degree 1 lies on no cycle *)
Lemma leaf_edge_not_on_cycle : forall L x p e,
  is_walk L x x p -> NoDup (step_ids p) -> is_loop e = false ->
  (degree L (e_u e) = 1 \/ degree L (e_v e) = 1) ->
  ~ In e (map fst p).
Proof.
  intros L x p e Hw Hnd Hloop Hdeg Hin.
  apply in_map_iff in Hin. destruct Hin as [[e' fwd] [E Hin]]. simpl in E; subst e'.
  apply in_split in Hin. destruct Hin as [p1 [p2 ->]].
  destruct (is_walk_split _ _ _ _ _ Hw) as [y [Ha Hb]].
  assert (Hw' : is_walk L y y (((e, fwd) :: p2) ++ p1)) by (eapply is_walk_app; eassumption).
  assert (Hnd' : NoDup (step_ids (((e, fwd) :: p2) ++ p1))).
  { unfold step_ids in *. eapply Permutation_NoDup; [|exact Hnd].
    apply Permutation_map. apply Permutation_app_comm. }
  rewrite <- app_comm_cons in Hw', Hnd'.
  destruct (cycle_first_edge_degree _ _ _ _ _ Hw' Hnd' Hloop) as [H1 H2]. lia.
Qed.

Lemma strip_one_spec : forall all es r, strip_one all es = Some r ->
  exists e l1 l2, es = l1 ++ e :: l2 /\ r = l1 ++ l2 /\ is_loop e = false /\
                  (degree all (e_u e) = 1 \/ degree all (e_v e) = 1).
Proof.
  intros all; induction es as [|a es IH]; intros r H; simpl in H; [discriminate|].
  destruct (negb (is_loop a) && (Nat.eqb (degree all (e_u a)) 1 || Nat.eqb (degree all (e_v a)) 1)) eqn:G.
  - inversion H; subst. exists a, [], r. apply andb_true_iff in G. destruct G as [G1 G2].
    apply negb_true_iff in G1. apply orb_true_iff in G2. rewrite !Nat.eqb_eq in G2.
    repeat split; auto.
  - destruct (strip_one all es) as [r'|] eqn:E; [|discriminate]. inversion H; subst.
    destruct (IH _ eq_refl) as [e [l1 [l2 [E1 [E2 [E3 E4]]]]]]. subst.
    exists e, (a :: l1), l2. repeat split; auto.
Qed.

Lemma strip_sound : forall fuel L, strip fuel L = true ->
  forall x p, p <> [] -> is_walk L x x p -> NoDup (step_ids p) -> False.
Proof.
  induction fuel as [|f IH]; intros L H x p Hne Hw Hnd.
  - destruct L as [|a L]; [|discriminate].
    destruct p as [|q p]; [congruence|]. apply (is_walk_edges _ _ _ _ Hw q). left; reflexivity.
  - destruct L as [|a L].
    + destruct p as [|q p]; [congruence|]. apply (is_walk_edges _ _ _ _ Hw q). left; reflexivity.
    + remember (a :: L) as L0. simpl in H. rewrite HeqL0 in H. rewrite <- HeqL0 in H.
      destruct (strip_one L0 L0) as [L'|] eqn:E; [|discriminate].
      destruct (strip_one_spec _ _ _ E) as [e [l1 [l2 [E1 [E2 [E3 E4]]]]]].
      pose proof (leaf_edge_not_on_cycle _ _ _ _ Hw Hnd E3 E4) as Hnot.
      apply (IH L' H x p Hne); auto.
      eapply is_walk_incl; [|exact Hw]. intros q Hq.
      pose proof (is_walk_edges _ _ _ _ Hw q Hq) as Hin. rewrite E1 in Hin. rewrite E2.
      apply in_app_or in Hin. apply in_or_app. destruct Hin as [Hin|[Hin|Hin]]; auto.
      exfalso. apply Hnot. rewrite Hin. apply in_map. exact Hq.
Qed.

(* the general statement: no hypothesis on es at all *)
Theorem acyclic_sound_gen : forall es, acyclic es = true -> ~ has_cycle es.
Proof.
  intros es H [x [p [Hne [Hw Hnd]]]]. unfold acyclic in H.
  eapply strip_sound; eauto.
Qed.

Theorem acyclic_sound : forall es, NoDup (map e_id es) -> acyclic es = true -> ~ has_cycle es.
Proof. intros es _. apply acyclic_sound_gen. Qed.

(* ------------------------------------------------------------------------------------------ *)
(* 5. lookup_all, col_support, one column of the certificate                                    *)
(* ------------------------------------------------------------------------------------------ *)

Lemma find_edge_spec : forall es i e, find_edge es i = Some e -> In e es /\ e_id e = i.
Proof.
  induction es as [|a es IH]; intros i e H; simpl in H; [discriminate|].
  destruct (Nat.eqb (e_id a) i) eqn:E.
  - inversion H; subst. apply Nat.eqb_eq in E. split; [left; reflexivity | exact E].
  - destruct (IH _ _ H) as [H1 H2]. split; [right|]; assumption.
Qed.

Lemma lookup_all_spec : forall es ids l, lookup_all es ids = Some l ->
  map e_id l = ids /\ (forall e, In e l -> In e es) /\ length l = length ids.
Proof.
  intros es; induction ids as [|i ids IH]; intros l H; simpl in H.
  - inversion H; subst. simpl. repeat split; auto. intros e [].
  - destruct (find_edge es i) as [e|] eqn:F; [|discriminate].
    destruct (lookup_all es ids) as [l'|] eqn:L; [|discriminate].
    inversion H; subst. destruct (find_edge_spec _ _ _ F) as [F1 F2].
    destruct (IH _ eq_refl) as [I1 [I2 I3]]. simpl. repeat split.
    + congruence.
    + intros e' [<-|H']; auto.
    + congruence.
Qed.

Lemma col_support_In : forall m M j i,
  In i (col_support m M j) <-> (i < m /\ get M i j <> 0%Z).
Proof.
  intros m M j i. unfold col_support. rewrite filter_In, in_iota, negb_true_iff, Z.eqb_neq. lia.
Qed.

Lemma NoDup_col_support : forall m M j, NoDup (col_support m M j).
Proof. intros. unfold col_support. apply NoDup_filter. apply NoDup_iota. Qed.

Lemma NoDup_fst_unique : forall (A B : Type) (p : list (A * B)) a b b',
  NoDup (map fst p) -> In (a, b) p -> In (a, b') p -> b = b'.
Proof.
  intros A B p a b b' Hnd H1 H2.
  assert (E : (a, b) = (a, b')) by (eapply (NoDup_map_inj _ _ fst); eauto).
  congruence.
Qed.

(* the heart of both certificate checks: the forest edges selected by the support of column j form a
   simple path in T, and the selection is faithful *)
Lemma column_path : forall m M T j u v p,
  NoDup (map e_id T) -> length T = m ->
  path_of (map (fun i => nth i T dflt) (col_support m M j)) u v = Some p ->
  simple_path T u v p /\ NoDup (map fst p) /\
  forall i, i < m -> (In (nth i T dflt) (map fst p) <-> get M i j <> 0%Z).
Proof.
  intros m M T j u v p HndT HlenT Hpath.
  destruct (path_of_sound _ _ _ _ Hpath) as [[Hw Hndn] Hperm].
  set (S := map (fun i => nth i T dflt) (col_support m M j)) in *.
  assert (HT : NoDup T) by (eapply NoDup_map_NoDup; eauto).
  assert (HST : forall e, In e S -> In e T).
  { intros e He. unfold S in He. apply in_map_iff in He. destruct He as [i [<- Hi]].
    apply col_support_In in Hi. apply nth_In. lia. }
  assert (HndS : NoDup S).
  { unfold S. apply NoDup_map_inj_in; [|apply NoDup_col_support].
    intros a b Ha Hb E. apply col_support_In in Ha. apply col_support_In in Hb.
    eapply (proj1 (NoDup_nth T dflt) HT); [lia | lia | exact E]. }
  split; [split; auto|split].
  - eapply is_walk_incl; [|exact Hw]. intros q Hq. apply HST.
    eapply is_walk_edges; eauto.
  - eapply Permutation_NoDup; [apply Permutation_sym; exact Hperm | exact HndS].
  - intros i Hi. split.
    + intros Hin. apply (Permutation_in _ Hperm) in Hin. unfold S in Hin.
      apply in_map_iff in Hin. destruct Hin as [i' [E Hi']].
      pose proof (proj1 (col_support_In _ _ _ _) Hi') as [Hlt Hnz].
      assert (i' = i) by (eapply (proj1 (NoDup_nth T dflt) HT); [lia | lia | exact E]).
      subst i'. exact Hnz.
    + intros Hnz. apply (Permutation_in _ (Permutation_sym Hperm)). unfold S.
      apply (in_map (fun i => nth i T dflt)). apply col_support_In. split; assumption.
Qed.

(* ------------------------------------------------------------------------------------------ *)
(* 6. Uniqueness of simple paths in a forest                                                    *)
(* ------------------------------------------------------------------------------------------ *)

(* what a successful run of strip establishes: the list can be emptied by removing leaf edges *)
Inductive is_forest : list edge -> Prop :=
| forest_nil : is_forest []
| forest_leaf l1 e l2 :
    is_loop e = false ->
    (degree (l1 ++ e :: l2) (e_u e) = 1 \/ degree (l1 ++ e :: l2) (e_v e) = 1) ->
    is_forest (l1 ++ l2) -> is_forest (l1 ++ e :: l2).

Lemma strip_forest : forall fuel L, strip fuel L = true -> is_forest L.
Proof.
  induction fuel as [|f IH]; intros L H.
  - destruct L; [constructor | discriminate].
  - destruct L as [|a L]; [constructor|].
    remember (a :: L) as L0. simpl in H. rewrite HeqL0 in H. rewrite <- HeqL0 in H.
    destruct (strip_one L0 L0) as [L'|] eqn:E; [|discriminate].
    destruct (strip_one_spec _ _ _ E) as [e [l1 [l2 [E1 [E2 [E3 E4]]]]]].
    rewrite E1. constructor; auto.
    + rewrite <- E1. exact E4.
    + rewrite <- E2. apply IH. exact H.
Qed.

Lemma acyclic_forest : forall T, acyclic T = true -> is_forest T.
Proof. intros T H. eapply strip_forest; exact H. Qed.

(* the only edge at a node of degree 1 *)
Lemma leaf_unique_edge : forall L z e e',
  degree L z = 1 -> In e L -> incident e z = true -> In e' L -> incident e' z = true -> e' = e.
Proof.
  intros L z e e' Hd He Hi He' Hi'.
  destruct (edge_eq_dec e' e) as [E|E]; [exact E|].
  pose proof (degree_two L e' e z He' He E Hi' Hi). lia.
Qed.

(* both ends of every traversed edge are visited *)
Lemma walk_step_nodes : forall es x y p, is_walk es x y p ->
  forall e b, In (e, b) p -> In (e_u e) (walk_nodes x p) /\ In (e_v e) (walk_nodes x p).
Proof.
  intros es x y p H; induction H; intros e0 b0 Hin; simpl in Hin; [contradiction|].
  destruct Hin as [E|Hin].
  - inversion E; subst e0 b0. simpl.
    assert (In (if fwd then e_v e else e_u e) (walk_nodes (if fwd then e_v e else e_u e) p)).
    { rewrite walk_nodes_hd. left; reflexivity. }
    destruct fwd; subst; split; auto.
  - destruct (IHis_walk _ _ Hin) as [A B]. simpl. split; right; assumption.
Qed.

Lemma incident_u : forall e, incident e (e_u e) = true.
Proof. intros e. unfold incident. rewrite Nat.eqb_refl. reflexivity. Qed.
Lemma incident_v : forall e, incident e (e_v e) = true.
Proof. intros e. unfold incident. rewrite Nat.eqb_refl. apply orb_true_r. Qed.

(* a leaf node is never an interior node of a simple path *)
Lemma leaf_not_interior : forall L z e,
  degree L z = 1 -> In e L -> incident e z = true -> is_loop e = false ->
  forall x y p, is_walk L x y p -> NoDup (walk_nodes x p) -> In z (walk_nodes x p) ->
  z = x \/ z = y.
Proof.
  intros L z e Hd He Hi Hloop x y p Hw; induction Hw as [x|x y e1 b1 p1 Hin1 Hs1 Hw1 IH]; intros Hnd Hz.
  - simpl in Hz. destruct Hz as [Hz|[]]. left; auto.
  - simpl in Hz, Hnd. destruct Hz as [Hz|Hz]; [left; auto|].
    apply NoDup_cons_iff in Hnd. destruct Hnd as [Hx Hnd1].
    destruct (IH Hnd1 Hz) as [E|E]; [|right; exact E].
    (* z is the node after the first step *)
    destruct (Nat.eq_dec z y) as [Ey|Ey]; [right; exact Ey|]. exfalso.
    destruct p1 as [|[e2 b2] p2].
    + inversion Hw1; subst. congruence.
    + apply is_walk_cons_inv in Hw1. destruct Hw1 as [Hin2 [Hs2 Hw2]].
      assert (E1 : e1 = e).
      { apply (leaf_unique_edge L z); auto. rewrite E.
        destruct b1; [apply incident_v | apply incident_u]. }
      assert (E2 : e2 = e).
      { apply (leaf_unique_edge L z); auto. rewrite E.
        destruct b2; rewrite <- Hs2; [apply incident_u | apply incident_v]. }
      subst e1 e2. apply Hx. simpl. right.
      rewrite walk_nodes_hd. left.
      unfold is_loop in Hloop. apply Nat.eqb_neq in Hloop.
      destruct b1, b2; simpl in *; congruence.
Qed.

(* reversal of walks *)
Definition rev_path (p : list (edge * bool)) : list (edge * bool) :=
  rev (map (fun q => (fst q, negb (snd q))) p).

Lemma rev_path_involutive : forall p, rev_path (rev_path p) = p.
Proof.
  intros p. unfold rev_path. rewrite map_rev, rev_involutive, map_map.
  rewrite <- (map_id p) at 2. apply map_ext. intros [e b]. simpl. rewrite negb_involutive. reflexivity.
Qed.

Lemma is_walk_snoc : forall es x y p e (fwd : bool),
  is_walk es x y p -> In e es -> (if fwd then e_u e = y else e_v e = y) ->
  is_walk es x (if fwd then e_v e else e_u e) (p ++ [(e, fwd)]).
Proof.
  intros es x y p e fwd H Hin Hs. eapply is_walk_app; [exact H|].
  constructor; auto. constructor.
Qed.

Lemma walk_nodes_snoc : forall p x e (fwd : bool),
  walk_nodes x (p ++ [(e, fwd)]) = walk_nodes x p ++ [if fwd then e_v e else e_u e].
Proof.
  induction p as [|[e1 b1] p IH]; intros x e fwd; simpl; [reflexivity|].
  rewrite IH. reflexivity.
Qed.

Lemma is_walk_rev : forall es x y p, is_walk es x y p ->
  is_walk es y x (rev_path p) /\ walk_nodes y (rev_path p) = rev (walk_nodes x p).
Proof.
  intros es x y p H; induction H as [x|x y e fwd p Hin Hs Hw [IH1 IH2]].
  - split; [constructor | reflexivity].
  - unfold rev_path in *. simpl.
    assert (Hend : (if negb fwd then e_v e else e_u e) = x) by (destruct fwd; simpl; auto).
    split.
    + rewrite <- Hend.
      apply (is_walk_snoc es y (if fwd then e_v e else e_u e)); auto. destruct fwd; reflexivity.
    + rewrite walk_nodes_snoc, IH2, Hend. reflexivity.
Qed.

Lemma simple_path_rev : forall es x y p, simple_path es x y p -> simple_path es y x (rev_path p).
Proof.
  intros es x y p [Hw Hnd]. destruct (is_walk_rev _ _ _ _ Hw) as [H1 H2].
  split; auto. rewrite H2. apply NoDup_rev. exact Hnd.
Qed.

Lemma in_remove_mid : forall (A : Type) (l1 l2 : list A) a b,
  In b (l1 ++ a :: l2) -> b <> a -> In b (l1 ++ l2).
Proof.
  intros A l1 l2 a b H Hne. apply in_app_or in H. apply in_or_app.
  destruct H as [H|[H|H]]; auto. congruence.
Qed.

(* a simple path that avoids the leaf node lives in the list without the leaf edge *)
Lemma avoid_leaf_restrict : forall l1 e l2 z x y p,
  incident e z = true -> is_walk (l1 ++ e :: l2) x y p -> ~ In z (walk_nodes x p) ->
  is_walk (l1 ++ l2) x y p.
Proof.
  intros l1 e l2 z x y p Hi Hw Hz.
  eapply is_walk_incl; [|exact Hw]. intros [e1 b1] Hq. simpl.
  apply (in_remove_mid _ l1 l2 e); [eapply (is_walk_edges _ _ _ _ Hw (e1, b1)); exact Hq|].
  intros E. subst e1. destruct (walk_step_nodes _ _ _ _ Hw _ _ Hq) as [A B].
  unfold incident in Hi. apply orb_true_iff in Hi. rewrite !Nat.eqb_eq in Hi.
  destruct Hi as [Hi|Hi]; subst z; contradiction.
Qed.

(* two simple paths starting at the leaf node *)
Lemma unique_from_leaf : forall l1 e l2 z,
  (forall x y p q, simple_path (l1 ++ l2) x y p -> simple_path (l1 ++ l2) x y q -> p = q) ->
  is_loop e = false -> degree (l1 ++ e :: l2) z = 1 -> incident e z = true ->
  forall y p q, simple_path (l1 ++ e :: l2) z y p -> simple_path (l1 ++ e :: l2) z y q -> p = q.
Proof.
  intros l1 e l2 z IH Hloop Hd Hi y p q [Hwp Hnp] [Hwq Hnq].
  assert (He : In e (l1 ++ e :: l2)) by (apply in_or_app; right; left; reflexivity).
  destruct p as [|[e1 b1] p1]; destruct q as [|[e2 b2] q1]; auto.
  - inversion Hwp; subst. symmetry. apply (simple_path_closed_nil (l1 ++ e :: l2) y). split; auto.
  - inversion Hwq; subst. apply (simple_path_closed_nil (l1 ++ e :: l2) y). split; auto.
  - apply is_walk_cons_inv in Hwp. destruct Hwp as [Hin1 [Hs1 Hw1]].
    apply is_walk_cons_inv in Hwq. destruct Hwq as [Hin2 [Hs2 Hw2]].
    assert (E1 : e1 = e).
    { apply (leaf_unique_edge (l1 ++ e :: l2) z); auto. 
      destruct b1; rewrite <- Hs1; [apply incident_u | apply incident_v]. }
    assert (E2 : e2 = e).
    { apply (leaf_unique_edge (l1 ++ e :: l2) z); auto. 
      destruct b2; rewrite <- Hs2; [apply incident_u | apply incident_v]. }
    subst e1 e2.
    assert (Eb : b1 = b2).
    { unfold is_loop in Hloop. apply Nat.eqb_neq in Hloop.
      destruct b1, b2; auto; exfalso; congruence. }
    subst b2. f_equal.
    simpl in Hnp, Hnq.
    apply NoDup_cons_iff in Hnp. destruct Hnp as [Hzp Hnp].
    apply NoDup_cons_iff in Hnq. destruct Hnq as [Hzq Hnq].
    apply (IH (if b1 then e_v e else e_u e) y); split; auto.
    + eapply avoid_leaf_restrict; eauto.
    + eapply avoid_leaf_restrict; eauto.
Qed.

Theorem forest_path_unique : forall L, is_forest L ->
  forall x y p q, simple_path L x y p -> simple_path L x y q -> p = q.
Proof.
  intros L HF; induction HF as [|l1 e l2 Hloop Hdeg HF IH]; intros x y p q Hp Hq.
  - destruct Hp as [Hp _], Hq as [Hq _].
    destruct p as [|s p]; [|exfalso; apply (is_walk_edges _ _ _ _ Hp s); left; reflexivity].
    destruct q as [|s q]; [|exfalso; apply (is_walk_edges _ _ _ _ Hq s); left; reflexivity].
    reflexivity.
  - (* z : the leaf node of e *)
    assert (Hz : exists z, degree (l1 ++ e :: l2) z = 1 /\ incident e z = true).
    { destruct Hdeg as [H|H]; [exists (e_u e) | exists (e_v e)]; split; auto;
        [apply incident_u | apply incident_v]. }
    destruct Hz as [z [Hd Hi]].
    assert (He : In e (l1 ++ e :: l2)) by (apply in_or_app; right; left; reflexivity).
    destruct (Nat.eq_dec x y) as [Exy|Exy].
    { subst y. rewrite (simple_path_closed_nil _ _ _ Hp), (simple_path_closed_nil _ _ _ Hq). reflexivity. }
    destruct (Nat.eq_dec z x) as [Ezx|Ezx].
    { subst z. eapply unique_from_leaf; eauto. }
    destruct (Nat.eq_dec z y) as [Ezy|Ezy].
    { subst z. apply simple_path_rev in Hp. apply simple_path_rev in Hq.
      assert (E : rev_path p = rev_path q) by (eapply unique_from_leaf; eauto).
      rewrite <- (rev_path_involutive p), <- (rev_path_involutive q), E. reflexivity. }
    (* z is neither end: it is not visited at all *)
    destruct Hp as [Hwp Hnp], Hq as [Hwq Hnq].
    assert (Hzp : ~ In z (walk_nodes x p)).
    { intros H. destruct (leaf_not_interior _ _ _ Hd He Hi Hloop _ _ _ Hwp Hnp H); congruence. }
    assert (Hzq : ~ In z (walk_nodes x q)).
    { intros H. destruct (leaf_not_interior _ _ _ Hd He Hi Hloop _ _ _ Hwq Hnq H); congruence. }
    apply (IH x y); split; auto; eapply avoid_leaf_restrict; eauto.
Qed.

Theorem acyclic_path_unique : forall T x y p q,
  acyclic T = true -> simple_path T x y p -> simple_path T x y q -> p = q.
Proof. intros T x y p q H. apply forest_path_unique. apply acyclic_forest. exact H. Qed.

(* ------------------------------------------------------------------------------------------ *)
(* 7. check_graph_cert is sound: M = M(G,T) entry for entry                                     *)
(* ------------------------------------------------------------------------------------------ *)

(* M restricted to m x n is the fundamental-cycle matrix of the forest edges T (rows) and the coforest edges C
   (columns): column j marks exactly the edges of a simple T-path between the ends of C_j *)
Definition fund_cycle_spec (m n : nat) (M : mat) (T C : list edge) : Prop :=
  forall j, j < n -> exists f p, nth_error C j = Some f /\
    simple_path T (e_u f) (e_v f) p /\
    forall i, i < m -> (get M i j = 1%Z <-> In (nth i T dflt) (map fst p)).

(* signed version: +1 for forest arcs traversed forwardly by the T-path from the tail to the head of C_j,
   -1 for those traversed backwardly, 0 off the path *)
Definition network_spec (m n : nat) (M : mat) (T C : list edge) : Prop :=
  forall j, j < n -> exists f p, nth_error C j = Some f /\
    simple_path T (e_u f) (e_v f) p /\
    forall i, i < m ->
      (get M i j = 1%Z <-> In (nth i T dflt, true) p) /\
      (get M i j = (-1)%Z <-> In (nth i T dflt, false) p) /\
      (get M i j = 0%Z <-> ~ In (nth i T dflt) (map fst p)).

Theorem check_graph_cert_sound : forall m n M G forest coforest,
  check_graph_cert m n M G forest coforest = true -> is_binary M = true ->
  exists T C,
    graph_ok G = true /\
    lookup_all (g_edges G) forest = Some T /\ length T = m /\
    lookup_all (g_edges G) coforest = Some C /\ length C = n /\
    NoDup (forest ++ coforest) /\
    (forall e, In e (g_edges G) -> In (e_id e) (forest ++ coforest)) /\
    ~ has_cycle T /\ acyclic T = true /\
    fund_cycle_spec m n M T C.
Proof.
  intros m n M G forest coforest H Hbin. unfold check_graph_cert in H.
  apply andb_true_iff in H; destruct H as [H Hcols].
  apply andb_true_iff in H; destruct H as [H Hcover].
  apply andb_true_iff in H; destruct H as [H Hnd].
  apply andb_true_iff in H; destruct H as [H Hlc].
  apply andb_true_iff in H; destruct H as [Hok Hlf].
  apply Nat.eqb_eq in Hlc, Hlf. apply nodupn_NoDup in Hnd.
  destruct (lookup_all (g_edges G) forest) as [T|] eqn:ET; [|discriminate].
  destruct (lookup_all (g_edges G) coforest) as [C|] eqn:EC; [|discriminate].
  apply andb_true_iff in Hcols; destruct Hcols as [Hacyc Hcols].
  destruct (lookup_all_spec _ _ _ ET) as [TI [TIn TL]].
  destruct (lookup_all_spec _ _ _ EC) as [CI [CIn CL]].
  assert (HndT : NoDup (map e_id T)).
  { rewrite TI. eapply NoDup_app_l; eauto. }
  exists T, C. repeat split; try congruence; auto.
  - intros e He. rewrite forallb_forall in Hcover. apply memn_In. apply Hcover. exact He.
  - apply acyclic_sound_gen. exact Hacyc.
  - intros j Hj. rewrite forallb_forall in Hcols.
    assert (Hin : In j (iota 0 n)) by (apply in_iota; lia).
    specialize (Hcols j Hin). cbv beta in Hcols.
    destruct (nth_error C j) as [f|] eqn:EF; [|discriminate].
    cbv zeta in Hcols.
    destruct (path_of (map (fun i => nth i T {| e_id := 0; e_u := 0; e_v := 0 |}) (col_support m M j))
                      (e_u f) (e_v f)) as [p|] eqn:EP; [|discriminate].
    destruct (column_path m M T j _ _ p HndT (eq_trans TL Hlf) EP) as [Hsp [Hndp Hiff]].
    exists f, p. repeat split; try apply Hsp.
    + intros H1. apply Hiff; auto. rewrite H1. discriminate.
    + intros Hi'. apply Hiff in Hi'; auto.
      destruct (get_binary M i j Hbin) as [H0|H1]; [contradiction | exact H1].
Qed.

(* the exact statement asked for (with the unnecessary well-formedness hypothesis) *)
Corollary check_graph_cert_sound_wf : forall m n M G forest coforest,
  check_graph_cert m n M G forest coforest = true -> is_binary M = true -> wf_mat m n M = true ->
  exists T C,
    lookup_all (g_edges G) forest = Some T /\ length T = m /\
    lookup_all (g_edges G) coforest = Some C /\ length C = n /\
    NoDup (forest ++ coforest) /\
    (forall e, In e (g_edges G) -> In (e_id e) (forest ++ coforest)) /\
    ~ has_cycle T /\
    forall j, j < n -> exists p,
      simple_path T (e_u (nth j C dflt)) (e_v (nth j C dflt)) p /\
      forall i, i < m -> (get M i j = 1%Z <-> In (nth i T dflt) (map fst p)).
Proof.
  intros m n M G forest coforest H Hbin _.
  destruct (check_graph_cert_sound _ _ _ _ _ _ H Hbin)
    as [T [C [_ [H1 [H2 [H3 [H4 [H5 [H6 [H7 [_ H8]]]]]]]]]]].
  exists T, C. repeat (split; [assumption|]).
  intros j Hj. destruct (H8 j Hj) as [f [p [E [Hsp Hi]]]].
  rewrite (nth_error_nth _ _ dflt E). exists p. split; assumption.
Qed.

(* a coforest loop: the path is empty and the column is zero *)
Corollary check_graph_cert_loop_column : forall m n M G forest coforest,
  check_graph_cert m n M G forest coforest = true -> is_binary M = true ->
  forall C j f, lookup_all (g_edges G) coforest = Some C -> nth_error C j = Some f ->
  j < n -> e_u f = e_v f -> forall i, i < m -> get M i j = 0%Z.
Proof.
  intros m n M G forest coforest H Hbin C j f EC EF Hj Hloop i Hi.
  destruct (check_graph_cert_sound _ _ _ _ _ _ H Hbin)
    as [T [C' [_ [H1 [H2 [H3 [H4 [H5 [H6 [H7 [_ H8]]]]]]]]]]].
  rewrite EC in H3. inversion H3; subst C'.
  destruct (H8 j Hj) as [f' [p [E [Hsp Hiff]]]]. rewrite EF in E. inversion E; subst f'.
  rewrite Hloop in Hsp. apply simple_path_closed_nil in Hsp. subst p.
  destruct (get_binary M i j Hbin) as [H0|H1']; [exact H0|].
  apply Hiff in H1'; [destruct H1' | exact Hi].
Qed.

(* ------------------------------------------------------------------------------------------ *)
(* 8. check_network_cert is sound: M = M(D,T) entry for entry, with signs                        *)
(* ------------------------------------------------------------------------------------------ *)

Lemma orient_spec : forall rev e,
  e_id (orient rev e) = e_id e /\
  ((In (e_id e) rev /\ e_u (orient rev e) = e_v e /\ e_v (orient rev e) = e_u e) \/
   (~ In (e_id e) rev /\ orient rev e = e)).
Proof.
  intros rev e. unfold orient. destruct (memn (e_id e) rev) eqn:E.
  - simpl. split; auto. left. apply memn_In in E. auto.
  - split; auto. right. apply memn_false in E. auto.
Qed.

Theorem check_network_cert_sound : forall m n M G rev forest coforest,
  check_network_cert m n M G rev forest coforest = true ->
  exists T C,
    graph_ok G = true /\
    lookup_all (map (orient rev) (g_edges G)) forest = Some T /\ length T = m /\
    lookup_all (map (orient rev) (g_edges G)) coforest = Some C /\ length C = n /\
    NoDup (forest ++ coforest) /\
    (forall e, In e (g_edges G) -> In (e_id e) (forest ++ coforest)) /\
    ~ has_cycle T /\ acyclic T = true /\
    network_spec m n M T C.
Proof.
  intros m n M G rev forest coforest H. unfold check_network_cert in H.
  apply andb_true_iff in H; destruct H as [H Hcols].
  apply andb_true_iff in H; destruct H as [H Hcover].
  apply andb_true_iff in H; destruct H as [H Hnd].
  apply andb_true_iff in H; destruct H as [H Hlc].
  apply andb_true_iff in H; destruct H as [Hok Hlf].
  apply Nat.eqb_eq in Hlc, Hlf. apply nodupn_NoDup in Hnd.
  destruct (lookup_all (map (orient rev) (g_edges G)) forest) as [T|] eqn:ET; [|discriminate].
  destruct (lookup_all (map (orient rev) (g_edges G)) coforest) as [C|] eqn:EC; [|discriminate].
  apply andb_true_iff in Hcols; destruct Hcols as [Hacyc Hcols].
  destruct (lookup_all_spec _ _ _ ET) as [TI [TIn TL]].
  destruct (lookup_all_spec _ _ _ EC) as [CI [CIn CL]].
  assert (HndT : NoDup (map e_id T)).
  { rewrite TI. eapply NoDup_app_l; eauto. }
  assert (HlenT : length T = m) by congruence.
  exists T, C. repeat split; try congruence; auto.
  - intros e He. rewrite forallb_forall in Hcover. apply memn_In. apply Hcover. exact He.
  - apply acyclic_sound_gen. exact Hacyc.
  - intros j Hj. rewrite forallb_forall in Hcols.
    assert (Hin : In j (iota 0 n)) by (apply in_iota; lia).
    specialize (Hcols j Hin). cbv beta in Hcols.
    destruct (nth_error C j) as [f|] eqn:EF; [|discriminate].
    cbv zeta in Hcols.
    destruct (path_of (map (fun i => nth i T {| e_id := 0; e_u := 0; e_v := 0 |}) (col_support m M j))
                      (e_u f) (e_v f)) as [p|] eqn:EP; [|discriminate].
    destruct (column_path m M T j _ _ p HndT HlenT EP) as [Hsp [Hndp Hiff]].
    exists f, p. split; [reflexivity|]. split; [exact Hsp|].
    intros i Hi.
    (* a nonzero entry is the sign of the traversal of T_i *)
    assert (Hsign : get M i j <> 0%Z ->
                    exists b : bool, In (nth i T dflt, b) p /\ get M i j = (if b then 1 else -1)%Z).
    { intros Hnz. rewrite forallb_forall in Hcols.
      assert (Hrow : In i (col_support m M j)) by (apply col_support_In; auto).
      specialize (Hcols i Hrow). cbv beta zeta in Hcols.
      apply existsb_exists in Hcols. destruct Hcols as [[e b] [Hq Hc]].
      apply andb_true_iff in Hc. destruct Hc as [Hid Hval]. simpl in Hid, Hval.
      apply Nat.eqb_eq in Hid. apply Z.eqb_eq in Hval.
      assert (e = nth i T dflt).
      { apply (NoDup_map_inj _ _ e_id T); auto.
        - destruct Hsp as [Hw _]. apply (is_walk_edges _ _ _ _ Hw (e, b) Hq).
        - apply nth_In. lia. }
      subst e. exists b. split; assumption. }
    assert (Hfst : forall b, In (nth i T dflt, b) p -> get M i j <> 0%Z).
    { intros b Hb. apply Hiff; auto. apply (in_map fst) in Hb. exact Hb. }
    split; [|split].
    + split.
      * intros H1. destruct Hsign as [b [Hb Hv]]; [rewrite H1; discriminate|].
        destruct b; [exact Hb | rewrite H1 in Hv; discriminate].
      * intros Hb. destruct (Hsign (Hfst _ Hb)) as [b' [Hb' Hv]].
        assert (true = b') by (eapply NoDup_fst_unique; eauto). subst b'. exact Hv.
    + split.
      * intros H1. destruct Hsign as [b [Hb Hv]]; [rewrite H1; discriminate|].
        destruct b; [rewrite H1 in Hv; discriminate | exact Hb].
      * intros Hb. destruct (Hsign (Hfst _ Hb)) as [b' [Hb' Hv]].
        assert (false = b') by (eapply NoDup_fst_unique; eauto). subst b'. exact Hv.
    + split.
      * intros H0 Hin'. apply Hiff in Hin'; auto.
      * intros Hnot. destruct (Z.eq_dec (get M i j) 0) as [E|E]; [exact E|].
        exfalso. apply Hnot. apply Hiff; auto.
Qed.

(* consequence: inside the m x n window a certified matrix is ternary *)
Corollary check_network_cert_ternary : forall m n M G rev forest coforest,
  check_network_cert m n M G rev forest coforest = true ->
  forall i j, i < m -> j < n -> (get M i j = 0 \/ get M i j = 1 \/ get M i j = -1)%Z.
Proof.
  intros m n M G rev forest coforest H i j Hi Hj.
  destruct (check_network_cert_sound _ _ _ _ _ _ _ H)
    as [T [C [_ [H1 [H2 [H3 [H4 [H5 [H6 [H7 [_ H8]]]]]]]]]]].
  destruct (H8 j Hj) as [f [p [E [Hsp Hall]]]].
  destruct (Hall i Hi) as [Ha [Hb Hc]].
  destruct (in_dec step_eq_dec (nth i T dflt, true) p) as [I1|I1]; [right; left; apply Ha; exact I1|].
  destruct (in_dec step_eq_dec (nth i T dflt, false) p) as [I2|I2]; [right; right; apply Hb; exact I2|].
  left. apply Hc. intros Hin. apply in_map_iff in Hin. destruct Hin as [[e b] [E' Hin]].
  simpl in E'; subst e. destruct b; contradiction.
Qed.

(* ------------------------------------------------------------------------------------------ *)
(* 9. The represented matrix is uniquely determined by (T, C)                                   *)
(* ------------------------------------------------------------------------------------------ *)

Lemma network_spec_ternary : forall m n M T C, network_spec m n M T C ->
  forall i j, i < m -> j < n -> (get M i j = 0 \/ get M i j = 1 \/ get M i j = -1)%Z.
Proof.
  intros m n M T C H8 i j Hi Hj.
  destruct (H8 j Hj) as [f [p [E [Hsp Hall]]]].
  destruct (Hall i Hi) as [Ha [Hb Hc]].
  destruct (in_dec step_eq_dec (nth i T dflt, true) p) as [I1|I1]; [right; left; apply Ha; exact I1|].
  destruct (in_dec step_eq_dec (nth i T dflt, false) p) as [I2|I2]; [right; right; apply Hb; exact I2|].
  left. apply Hc. intros Hin. apply in_map_iff in Hin. destruct Hin as [[e b] [E' Hin]].
  simpl in E'; subst e. destruct b; contradiction.
Qed.

Theorem FundCycle_functional : forall m n M M' T C,
  is_forest T -> is_binary M = true -> is_binary M' = true ->
  wf_mat m n M = true -> wf_mat m n M' = true ->
  fund_cycle_spec m n M T C -> fund_cycle_spec m n M' T C -> M = M'.
Proof.
  intros m n M M' T C HF Hb Hb' Hwf Hwf' HS HS'.
  apply (mat_ext m n); auto. intros i j Hi Hj.
  destruct (HS j Hj) as [f [p [E [Hp H1]]]]. destruct (HS' j Hj) as [f' [p' [E' [Hp' H1']]]].
  rewrite E in E'. inversion E'; subst f'.
  assert (p' = p) by (eapply forest_path_unique; eauto). subst p'.
  specialize (H1 i Hi). specialize (H1' i Hi).
  destruct (get_binary M i j Hb) as [A|A], (get_binary M' i j Hb') as [B|B]; try congruence.
  - apply H1' in B. apply H1 in B. congruence.
  - apply H1 in A. apply H1' in A. congruence.
Qed.

Theorem Network_functional : forall m n M M' T C,
  is_forest T -> wf_mat m n M = true -> wf_mat m n M' = true ->
  network_spec m n M T C -> network_spec m n M' T C -> M = M'.
Proof.
  intros m n M M' T C HF Hwf Hwf' HS HS'.
  apply (mat_ext m n); auto. intros i j Hi Hj.
  pose proof (network_spec_ternary _ _ _ _ _ HS i j Hi Hj) as Htern.
  destruct (HS j Hj) as [f [p [E [Hp H1]]]]. destruct (HS' j Hj) as [f' [p' [E' [Hp' H1']]]].
  rewrite E in E'. inversion E'; subst f'.
  assert (p' = p) by (eapply forest_path_unique; eauto). subst p'.
  destruct (H1 i Hi) as [A1 [A2 A3]]. destruct (H1' i Hi) as [B1 [B2 B3]].
  destruct Htern as [Z|[Z|Z]]; rewrite Z; symmetry.
  - apply B3. apply A3. exact Z.
  - apply B1. apply A1. exact Z.
  - apply B2. apply A2. exact Z.
Qed.

Corollary check_graph_cert_functional : forall m n M M' G forest coforest,
  check_graph_cert m n M G forest coforest = true ->
  check_graph_cert m n M' G forest coforest = true ->
  is_binary M = true -> is_binary M' = true -> wf_mat m n M = true -> wf_mat m n M' = true ->
  M = M'.
Proof.
  intros m n M M' G forest coforest H H' Hb Hb' Hwf Hwf'.
  destruct (check_graph_cert_sound _ _ _ _ _ _ H Hb)
    as [T [C [_ [H1 [H2 [H3 [H4 [H5 [H6 [H7 [Hac H8]]]]]]]]]]].
  destruct (check_graph_cert_sound _ _ _ _ _ _ H' Hb')
    as [T' [C' [_ [H1' [_ [H3' [_ [_ [_ [_ [_ H8']]]]]]]]]]].
  rewrite H1 in H1'. inversion H1'; subst T'. rewrite H3 in H3'. inversion H3'; subst C'.
  eapply FundCycle_functional; eauto. apply acyclic_forest; exact Hac.
Qed.

Corollary check_network_cert_functional : forall m n M M' G rev forest coforest,
  check_network_cert m n M G rev forest coforest = true ->
  check_network_cert m n M' G rev forest coforest = true ->
  wf_mat m n M = true -> wf_mat m n M' = true ->
  M = M'.
Proof.
  intros m n M M' G rev forest coforest H H' Hwf Hwf'.
  destruct (check_network_cert_sound _ _ _ _ _ _ _ H)
    as [T [C [_ [H1 [H2 [H3 [H4 [H5 [H6 [H7 [Hac H8]]]]]]]]]]].
  destruct (check_network_cert_sound _ _ _ _ _ _ _ H')
    as [T' [C' [_ [H1' [_ [H3' [_ [_ [_ [_ [_ H8']]]]]]]]]]].
  rewrite H1 in H1'. inversion H1'; subst T'. rewrite H3 in H3'. inversion H3'; subst C'.
  eapply Network_functional; eauto. apply acyclic_forest; exact Hac.
Qed.

(* ------------------------------------------------------------------------------------------ *)
(* 10. Non-vacuity: concrete instances                                                           *)
(* ------------------------------------------------------------------------------------------ *)

Definition ed (i u v : nat) : edge := {| e_id := i; e_u := u; e_v := v |}.

(* triangle on nodes 0,1,2 with edges 0:(0,1), 1:(1,2), 2:(0,2) *)
Definition tri : graph := {| g_nodes := [0; 1; 2]; g_edges := [ed 0 0 1; ed 1 1 2; ed 2 0 2] |}.

Example tri_graph_accept : check_graph_cert 2 1 [[1%Z]; [1%Z]] tri [0; 1] [2] = true.
Proof. vm_compute. reflexivity. Qed.

Example tri_graph_reject : check_graph_cert 2 1 [[1%Z]; [0%Z]] tri [0; 1] [2] = false.
Proof. vm_compute. reflexivity. Qed.

(* arcs 0->1, 1->2, coforest arc 0->2: both forest arcs are traversed forwardly *)
Example tri_network_accept : check_network_cert 2 1 [[1%Z]; [1%Z]] tri [] [0; 1] [2] = true.
Proof. vm_compute. reflexivity. Qed.

Example tri_network_reject_sign : check_network_cert 2 1 [[1%Z]; [(-1)%Z]] tri [] [0; 1] [2] = false.
Proof. vm_compute. reflexivity. Qed.

(* reversing arc 1 (now 2->1) flips the sign of its entry *)
Example tri_network_accept_rev : check_network_cert 2 1 [[1%Z]; [(-1)%Z]] tri [1] [0; 1] [2] = true.
Proof. vm_compute. reflexivity. Qed.

Example tri_network_reject : check_network_cert 2 1 [[1%Z]; [0%Z]] tri [] [0; 1] [2] = false.
Proof. vm_compute. reflexivity. Qed.

(* a forest that is not a forest is rejected: all three triangle edges as rows *)
Example tri_cycle_reject : check_graph_cert 3 0 [[]; []; []] tri [0; 1; 2] [] = false.
Proof. vm_compute. reflexivity. Qed.

(* the specification side is inhabited as well: the triangle has a cycle, its two-edge path has none *)
Example tri_has_cycle : has_cycle (g_edges tri).
Proof.
  exists 0, [(ed 0 0 1, true); (ed 1 1 2, true); (ed 2 0 2, false)].
  split; [discriminate|]. split.
  - repeat (constructor; simpl; auto).
  - simpl. repeat constructor; simpl; intuition discriminate.
Qed.

Example tri_not_acyclic : acyclic (g_edges tri) = false.
Proof. vm_compute. reflexivity. Qed.

Example tri_forest_no_cycle : ~ has_cycle [ed 0 0 1; ed 1 1 2].
Proof. apply acyclic_sound_gen. vm_compute. reflexivity. Qed.

(* the soundness theorem instantiated: [[1];[1]] is the fundamental-cycle matrix of the triangle *)
Example tri_fund_cycle : fund_cycle_spec 2 1 [[1%Z]; [1%Z]] [ed 0 0 1; ed 1 1 2] [ed 2 0 2].
Proof.
  destruct (check_graph_cert_sound _ _ _ _ _ _ tri_graph_accept eq_refl)
    as [T [C [_ [H1 [_ [H3 [_ [_ [_ [_ [_ H8]]]]]]]]]]].
  vm_compute in H1, H3. inversion H1; subst T. inversion H3; subst C. exact H8.
Qed.

Example tri_network : network_spec 2 1 [[1%Z]; [(-1)%Z]] [ed 0 0 1; ed 1 2 1] [ed 2 0 2].
Proof.
  destruct (check_network_cert_sound _ _ _ _ _ _ _ tri_network_accept_rev)
    as [T [C [_ [H1 [_ [H3 [_ [_ [_ [_ [_ H8]]]]]]]]]]].
  vm_compute in H1, H3. inversion H1; subst T. inversion H3; subst C. exact H8.
Qed.

(* ------------------------------------------------------------------------------------------ *)
(* 11. Assumption audit                                                                          *)
(* ------------------------------------------------------------------------------------------ *)

Print Assumptions take_incident_spec.
Print Assumptions walk_sound.
Print Assumptions path_of_sound.
Print Assumptions acyclic_sound_gen.
Print Assumptions acyclic_sound.
Print Assumptions check_graph_cert_sound.
Print Assumptions check_graph_cert_sound_wf.
Print Assumptions check_graph_cert_loop_column.
Print Assumptions check_network_cert_sound.
Print Assumptions check_network_cert_ternary.
Print Assumptions forest_path_unique.
Print Assumptions acyclic_path_unique.
Print Assumptions FundCycle_functional.
Print Assumptions Network_functional.
Print Assumptions check_graph_cert_functional.
Print Assumptions check_network_cert_functional.
Print Assumptions tri_fund_cycle.
Print Assumptions tri_network.

(* ------------------------------------------------------------------------------------------ *)
(* What acceptance by judge_graphic / judge_network means for a "yes" answer                     *)
(* ------------------------------------------------------------------------------------------ *)

Local Open Scope Z_scope.

Definition graphic_input :=
  tr <- dbool ;; x <- dmat ;; rc <- dZ ;; v <- dZ ;; h <- dbool ;;
  cert <- (if h then (c <- dgraph_cert ;; dret (Some c)) else dret None) ;;
  w <- dwitness ;;
  dend (tr, x, rc, v, cert, w).

(* the matrix the verdict is about: M itself, or its transpose for the transposed entry point *)
Definition oriented (tr : bool) (m0 n0 : nat) (M0 : mat) : nat * nat * mat :=
  if tr then (n0, m0, transpose m0 n0 M0) else (m0, n0, M0).

Theorem judge_graphic_yes_sound : forall rec tr m0 n0 M0 rc cert w rest,
  graphic_input rec = Some ((tr, (m0, n0, M0), rc, 1, cert, w), rest) ->
  judge_graphic rec = 0 ->
  let '(m, n, M) := oriented tr m0 n0 M0 in
  is_binary M = true ->
  rc = 0 /\
  exists G f c T C, cert = Some (G, f, c) /\
    lookup_all (g_edges G) f = Some T /\ length T = m /\
    lookup_all (g_edges G) c = Some C /\ length C = n /\
    NoDup (f ++ c) /\ (forall e, In e (g_edges G) -> In (e_id e) (f ++ c)) /\
    ~ has_cycle T /\ fund_cycle_spec m n M T C.
Proof.
  intros rec tr m0 n0 M0 rc cert w rest Hdec Hj.
  unfold judge_graphic in Hj. unfold graphic_input in Hdec. rewrite Hdec in Hj.
  unfold oriented.
  destruct (if tr then (n0, m0, transpose m0 n0 M0) else (m0, n0, M0)) as [[m n] M] eqn:Ho.
  intros Hbin. rewrite Hbin in Hj. cbn [negb] in Hj.
  destruct (rc =? 0) eqn:Hrc; cbn [negb] in Hj; [|discriminate].
  apply Z.eqb_eq in Hrc. split; [exact Hrc|].
  change ((1 =? 0) || (1 =? 1)) with true in Hj. cbn [negb] in Hj.
  change (1 =? 1) with true in Hj. change (1 =? 0) with false in Hj.
  destruct (Nat.leb m 4 && negb (Bool.eqb true (graphic_bf m n M))) eqn:H92; [discriminate|].
  assert (Hfin : match cert with
                 | Some (G, f, c) => if check_graph_cert m n M G f c then 0 else 93
                 | None => 94
                 end = 0).
  { destruct w as [|Gw fw cw rw|rsw csw].
    - exact Hj.
    - rewrite andb_false_r in Hj. exact Hj.
    - destruct (increasing_in m rsw && increasing_in n csw && Nat.leb (length rsw) 4 &&
                negb (graphic_bf (length rsw) (length csw) (submat M rsw csw)) && true); [discriminate|exact Hj]. }
  destruct cert as [[[G f] c]|]; [|discriminate].
  destruct (check_graph_cert m n M G f c) eqn:Hc; [|discriminate].
  destruct (check_graph_cert_sound _ _ _ _ _ _ Hc Hbin) as [T [C [_ [H1 [H2 [H3 [H4 [H5 [H6 [H7 [_ H9]]]]]]]]]]].
  exists G, f, c, T, C. auto 10.
Qed.
