(* BalancedCertModel.v — C17 at every size for certified totally unimodular matrices: the case carries a digraph witness (network
   matrix) or none (series-parallel {-1,0,1} matrix, certified by the reduction model).  A certified matrix is totally unimodular
   (NetworkTU.v, SpTU.v) and therefore balanced (TuBalanced.v), so CMRbalancedTest must answer "balanced" and return no
   violator, whatever its parameters.  No proofs here. *)
From Cmr Require Import Base Det TuModel GraphModel SpModel TuNetModel.
Local Open Scope Z_scope.

Definition balanced_cert_input :=
  alg <- dZ ;; sp <- dbool ;; ws <- dbool ;; x <- dmat ;; rc <- dZ ;; v <- dZ ;; sub <- dsubm ;; w <- dwitness ;;
  dend (alg, sp, ws, x, rc, v, sub, w).

(* record: algorithm seriesParallel wantSub M rc verdict(0/1, 2 = not written) hasSub [sub] witness
   0 accepted (also when nothing certifies the matrix: then nothing is claimed; and the graph-based algorithm, documented as
   not implemented, may fail); 1 malformed record; 460 CMRbalancedTest failed on a certified matrix; 461 verdict not written;
   462 a totally unimodular matrix is reported not balanced; 463 a violating submatrix is returned for it *)
Definition judge_balanced_cert (rec : list Z) : Z :=
  match balanced_cert_input rec with
  | Some ((alg, sp, ws, (m, n, M), rc, v, sub, w), _) =>
    if (alg =? 2) && negb (rc =? 0) then 0
    else if (rc =? 0) && (v =? 1) && (match sub with None => true | Some _ => false end) then 0
    else if negb (tu_certified m n M w) then 0
    else if negb (rc =? 0) then 460
    else if v =? 2 then 461
    else if negb (v =? 1) then 462
    else match sub with None => 0 | Some _ => 463 end
  | None => 1
  end.
