From Cmr Require Import Base Det BaseProofs TuModel GraphModel RegCertModel.
From Cmr Require GraphicRegular.
Local Open Scope Z_scope.

(* an accepted record whose witness certifies that the 0/1 matrix (orientation 0) or its transpose (orientation 1) is graphic:
   the call succeeded, the matrix IS regular by the definition-level oracle (for every size), and a written verdict says so *)
Theorem judge_regular_cert_sound : forall rec cfg m n M rc v tr G f c r rest,
  regular_cert_input rec = Some ((cfg, (m, n, M), rc, v, tr, WGraph G f c r), rest) ->
  wf_mat m n M = true -> is_binary M = true -> cert_holds tr m n M G f c = true ->
  judge_regular_cert rec = 0 ->
  rc = 0 /\ regular_bf m n M = true /\ (v = 2 -> cfg_stopflags cfg = true) /\ (v <> 2 -> v = 1).
Proof.
  intros rec cfg m n M rc v tr G f c r rest Hdec Hwf Hbin Hcert HJ.
  unfold judge_regular_cert in HJ. rewrite Hdec in HJ. rewrite Hwf, Hbin, Hcert in HJ. cbn [andb negb] in HJ.
  destruct (rc =? 0) eqn:Erc; cbn [negb] in HJ; [|discriminate].
  apply Z.eqb_eq in Erc. split; [exact Erc|].
  split.
  { unfold cert_holds in Hcert. destruct tr.
    - eapply GraphicRegular.graph_cert_regular_transpose; eassumption.
    - eapply GraphicRegular.graph_cert_regular; eassumption. }
  destruct (v =? 2) eqn:E2.
  - apply Z.eqb_eq in E2. split; [intros _; destruct (cfg_stopflags cfg); [reflexivity|discriminate] | intros H; contradiction].
  - apply Z.eqb_neq in E2. split; [intros H; contradiction|]. intros _.
    destruct (v =? 1) eqn:E1; cbn [negb] in HJ; [|discriminate]. apply Z.eqb_eq in E1. exact E1.
Qed.
Print Assumptions judge_regular_cert_sound.
