From Cmr Require Import Base Det BaseProofs TuModel GraphModel RegCertModel.
From Cmr Require GraphicRegular.
Local Open Scope Z_scope.

From Cmr Require SpTU.

Lemma regular_certified_regular : forall tr m n M w, regular_certified tr m n M w = true -> regular_bf m n M = true.
Proof.
  intros tr m n M w H. unfold regular_certified in H.
  apply andb_true_iff in H. destruct H as [H Hc]. apply andb_true_iff in H. destruct H as [Hwf Hbin].
  destruct w as [|G f c r|rs cs].
  - apply SpTU.sp_binary_regular; assumption.
  - unfold cert_holds in Hc. destruct tr.
    + eapply GraphicRegular.graph_cert_regular_transpose; eassumption.
    + eapply GraphicRegular.graph_cert_regular; eassumption.
  - discriminate Hc.
Qed.

(* an accepted record that certifies its 0/1 matrix (graph witness for it or its transpose, or series-parallel reducible):
   the call succeeded, the matrix IS regular by the definition-level oracle (for every size), and a written verdict says so *)
Theorem judge_regular_cert_sound_gen : forall rec cfg m n M rc v tr w rest,
  regular_cert_input rec = Some ((cfg, (m, n, M), rc, v, tr, w), rest) ->
  regular_certified tr m n M w = true ->
  judge_regular_cert rec = 0 ->
  rc = 0 /\ regular_bf m n M = true /\ (v = 2 -> cfg_stopflags cfg = true) /\ (v <> 2 -> v = 1).
Proof.
  intros rec cfg m n M rc v tr w rest Hdec Hcert HJ.
  pose proof (regular_certified_regular tr m n M w Hcert) as HR.
  unfold judge_regular_cert in HJ. rewrite Hdec in HJ. rewrite Hcert in HJ. cbn [negb] in HJ.
  destruct ((rc =? 0) && (v =? 1)) eqn:Efast.
  { apply andb_true_iff in Efast. destruct Efast as [E0 E1]. apply Z.eqb_eq in E0, E1. subst rc v.
    split; [reflexivity|]. split; [exact HR|]. split; [intros H; discriminate H | intros _; reflexivity]. }
  destruct (rc =? 0) eqn:Erc; cbn [negb] in HJ; [|discriminate].
  apply Z.eqb_eq in Erc. split; [exact Erc|].
  split; [exact HR|].
  destruct (v =? 2) eqn:E2.
  - apply Z.eqb_eq in E2. split; [intros _; destruct (cfg_stopflags cfg); [reflexivity|discriminate] | intros H; contradiction].
  - apply Z.eqb_neq in E2. split; [intros H; contradiction|]. intros _.
    destruct (v =? 1) eqn:E1; cbn [negb] in HJ; [|discriminate]. apply Z.eqb_eq in E1. exact E1.
Qed.

Theorem judge_regular_cert_sound : forall rec cfg m n M rc v tr G f c r rest,
  regular_cert_input rec = Some ((cfg, (m, n, M), rc, v, tr, WGraph G f c r), rest) ->
  wf_mat m n M = true -> is_binary M = true -> cert_holds tr m n M G f c = true ->
  judge_regular_cert rec = 0 ->
  rc = 0 /\ regular_bf m n M = true /\ (v = 2 -> cfg_stopflags cfg = true) /\ (v <> 2 -> v = 1).
Proof.
  intros rec cfg m n M rc v tr G f c r rest Hdec Hwf Hbin Hcert HJ. eapply judge_regular_cert_sound_gen; eauto.
  unfold regular_certified. rewrite Hwf, Hbin, Hcert. reflexivity.
Qed.

Theorem judge_regular_cert_sound_sp : forall rec cfg m n M rc v tr rest,
  regular_cert_input rec = Some ((cfg, (m, n, M), rc, v, tr, WNone), rest) ->
  wf_mat m n M = true -> is_binary M = true -> SpModel.sp_greedy false m n M = true ->
  judge_regular_cert rec = 0 ->
  rc = 0 /\ regular_bf m n M = true /\ (v = 2 -> cfg_stopflags cfg = true) /\ (v <> 2 -> v = 1).
Proof.
  intros rec cfg m n M rc v tr rest Hdec Hwf Hbin HS HJ. eapply judge_regular_cert_sound_gen; eauto.
  unfold regular_certified. rewrite Hwf, Hbin, HS. reflexivity.
Qed.
Print Assumptions judge_regular_cert_sound.
Print Assumptions judge_regular_cert_sound_sp.
