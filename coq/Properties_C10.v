(* Properties_C10.v — C10: verdicts are invariant under the operations the matrix classes are closed under.
   The oracles tu_bf / sp_greedy / balanced_bf are the executable definitions the recognizers are compared with in
   C01 / C08 / C17 (tu_bf is proved equal to the determinant definition in TuProofs.v); here they are proved invariant
   under exactly the transforms that judge_rel accepts, and judge_rel is proved to demand exactly the corresponding
   relation between the implementation's verdict vectors.  Proofs: TuClosure.v (MathComp), RelProofs.v. *)
From Cmr Require Import Base Det SpModel RelModel.
From Cmr Require TuClosure RelProofs TuProofs.
From mathcomp Require ssralg matrix ssrZ.
Local Open Scope Z_scope.

(* ---------- total unimodularity ---------- *)
Theorem C10_tu_permutation : forall m n M rp cp,
  is_perm_l m rp = true -> is_perm_l n cp = true -> tu_bf m n (submat M rp cp) = tu_bf m n M.
Proof. exact TuClosure.tu_bf_perm. Qed.
Print Assumptions C10_tu_permutation.

Theorem C10_tu_transpose : forall m n M, tu_bf n m (transpose m n M) = tu_bf m n M.
Proof. exact TuClosure.tu_bf_transpose. Qed.
Print Assumptions C10_tu_transpose.

Theorem C10_tu_scaling : forall m n M rs cs,
  length rs = m -> length cs = n -> forallb is_pm1' rs = true -> forallb is_pm1' cs = true ->
  tu_bf m n (mk_mat m n (fun i j => nthZ rs i * nthZ cs j * get M i j)) = tu_bf m n M.
Proof. exact TuClosure.tu_bf_scale. Qed.
Print Assumptions C10_tu_scaling.

Theorem C10_tu_submatrix : forall m n M rs cs,
  all_lt m rs = true -> all_lt n cs = true -> tu_bf m n M = true ->
  tu_bf (length rs) (length cs) (submat M rs cs) = true.
Proof. exact TuClosure.tu_bf_submat. Qed.
Print Assumptions C10_tu_submatrix.

(* adding a zero line, a (signed) unit line or a (signed) copy of another line *)
Theorem C10_tu_add_reducible_line : forall m' n' M' (isr : bool) k,
  is_ternary M' = true -> (if isr then Nat.ltb k m' else Nat.ltb k n') = true ->
  line_reducible true m' n' M' isr k = true ->
  tu_bf m' n' M' = if isr then tu_bf (m' - 1) n' (submat M' (keep_line m' k) (iota 0 n'))
                   else tu_bf m' (n' - 1) (submat M' (iota 0 m') (keep_line n' k)).
Proof. exact TuClosure.tu_bf_add_line. Qed.
Print Assumptions C10_tu_add_reducible_line.

(* 1-sums: block-diagonal composition, at the level of the definition *)
Theorem C10_tu_block_diagonal : forall m1 n1 m2 n2 (A : matrix.matrix Z m1 n1) (B : matrix.matrix Z m2 n2),
  TuProofs.TUmx (matrix.block_mx A
       (ssralg.GRing.zero (matrix.matrix_zmodType ssrZ.ZInstances.Z_zmodType m1 n2))
       (ssralg.GRing.zero (matrix.matrix_zmodType ssrZ.ZInstances.Z_zmodType m2 n1)) B)
  <-> TuProofs.TUmx A /\ TuProofs.TUmx B.
Proof. exact TuClosure.TUmx_block_diag_iff. Qed.
Print Assumptions C10_tu_block_diagonal.

(* ---------- series-parallel ---------- *)
Theorem C10_sp_permutation : forall t m n M rp cp,
  is_perm_l m rp = true -> is_perm_l n cp = true -> sp_greedy t m n (submat M rp cp) = sp_greedy t m n M.
Proof. exact RelProofs.sp_greedy_perm. Qed.
Print Assumptions C10_sp_permutation.

Theorem C10_sp_transpose : forall t m n M, sp_greedy t n m (transpose m n M) = sp_greedy t m n M.
Proof. exact RelProofs.sp_greedy_transpose. Qed.
Print Assumptions C10_sp_transpose.

Theorem C10_sp_scaling : forall m n M rs cs,
  length rs = m -> length cs = n -> forallb is_pm1' rs = true -> forallb is_pm1' cs = true ->
  sp_greedy true m n (mk_mat m n (fun i j => nthZ rs i * nthZ cs j * get M i j)) = sp_greedy true m n M.
Proof. exact RelProofs.sp_greedy_scale. Qed.
Print Assumptions C10_sp_scaling.

Theorem C10_sp_add_reducible_line : forall t m' n' M' (isr : bool) k,
  line_reducible t m' n' M' isr k = true -> (k < (if isr then m' else n'))%nat ->
  sp_greedy t m' n' M' = if isr then sp_greedy t (m' - 1) n' (submat M' (keep_line m' k) (iota 0 n'))
                         else sp_greedy t m' (n' - 1) (submat M' (iota 0 m') (keep_line n' k)).
Proof. exact RelProofs.sp_greedy_add_line. Qed.
Print Assumptions C10_sp_add_reducible_line.

Theorem C10_sp_submatrix : forall t m n M rs cs,
  strictly_increasing rs = true -> all_lt m rs = true -> strictly_increasing cs = true -> all_lt n cs = true ->
  sp_greedy t m n M = true -> sp_greedy t (length rs) (length cs) (submat M rs cs) = true.
Proof. exact RelProofs.sp_greedy_submat. Qed.
Print Assumptions C10_sp_submatrix.

(* ---------- balancedness ---------- *)
Theorem C10_balanced_permutation : forall m n M rp cp,
  is_perm_l m rp = true -> is_perm_l n cp = true -> balanced_bf m n (submat M rp cp) = balanced_bf m n M.
Proof. exact RelProofs.balanced_bf_perm. Qed.
Print Assumptions C10_balanced_permutation.

Theorem C10_balanced_transpose : forall m n M, balanced_bf n m (transpose m n M) = balanced_bf m n M.
Proof. exact RelProofs.balanced_bf_transpose. Qed.
Print Assumptions C10_balanced_transpose.

Theorem C10_balanced_scaling : forall m n M rs cs, is_ternary M = true ->
  length rs = m -> length cs = n -> forallb is_pm1' rs = true -> forallb is_pm1' cs = true ->
  balanced_bf m n (mk_mat m n (fun i j => nthZ rs i * nthZ cs j * get M i j)) = balanced_bf m n M.
Proof. exact RelProofs.balanced_bf_scale. Qed.
Print Assumptions C10_balanced_scaling.

Theorem C10_balanced_submatrix : forall m n M rs cs,
  strictly_increasing rs = true -> all_lt m rs = true -> strictly_increasing cs = true -> all_lt n cs = true ->
  balanced_bf m n M = true -> balanced_bf (length rs) (length cs) (submat M rs cs) = true.
Proof. exact RelProofs.balanced_bf_submat. Qed.
Print Assumptions C10_balanced_submatrix.

(* ---------- the judge demands exactly these relations of the implementation's verdicts ----------
   (a verdict entry is compared only if both presentations gave a definite 0/1 answer; the Camion entry only when one
   side is reported TU, see DESIGN.md) *)
Theorem C10_judge_permutation : forall rec p1 p2 m n M m' n' M' v v' rest i,
  RelProofs.rel_input rec = Some ((1, p1, p2, (m, n, M), (m', n', M'), v, v'), rest) -> judge_rel rec = 0 ->
  (i < 9)%nat -> RelProofs.is01 (vget v i) -> RelProofs.is01 (vget v' i) -> vget v i = vget v' i.
Proof. exact RelProofs.judge_rel_kind1_verdicts. Qed.
Print Assumptions C10_judge_permutation.

Theorem C10_judge_scaling : forall rec p1 p2 m n M m' n' M' v v' rest i,
  RelProofs.rel_input rec = Some ((2, p1, p2, (m, n, M), (m', n', M'), v, v'), rest) -> judge_rel rec = 0 ->
  In i [V_TU; V_NET; V_CONET; V_SPT; V_BAL] ->
  RelProofs.is01 (vget v i) -> RelProofs.is01 (vget v' i) -> vget v i = vget v' i.
Proof. exact RelProofs.judge_rel_kind2_verdicts. Qed.
Print Assumptions C10_judge_scaling.

Theorem C10_judge_transpose : forall rec p1 p2 m n M m' n' M' v v' rest,
  RelProofs.rel_input rec = Some ((3, p1, p2, (m, n, M), (m', n', M'), v, v'), rest) -> judge_rel rec = 0 ->
  (forall i, In i [V_TU; V_REG; V_SPT; V_SPB; V_BAL] ->
     RelProofs.is01 (vget v i) -> RelProofs.is01 (vget v' i) -> vget v i = vget v' i) /\
  (forall i i', In (i, i') [(V_GRA, V_COG); (V_COG, V_GRA); (V_NET, V_CONET); (V_CONET, V_NET)] ->
     RelProofs.is01 (vget v i) -> RelProofs.is01 (vget v' i') -> vget v i = vget v' i').
Proof. exact RelProofs.judge_rel_kind3_verdicts. Qed.
Print Assumptions C10_judge_transpose.

Theorem C10_judge_add_line : forall rec p1 p2 m n M m' n' M' v v' rest i,
  RelProofs.rel_input rec = Some ((4, p1, p2, (m, n, M), (m', n', M'), v, v'), rest) -> judge_rel rec = 0 ->
  In i [V_TU; V_REG; V_GRA; V_COG; V_NET; V_CONET; V_SPT; V_BAL] ->
  RelProofs.is01 (vget v i) -> RelProofs.is01 (vget v' i) -> vget v i = vget v' i.
Proof. exact RelProofs.judge_rel_kind4_verdicts. Qed.
Print Assumptions C10_judge_add_line.

Theorem C10_judge_submatrix : forall rec p1 p2 m n M m' n' M' v v' rest i,
  RelProofs.rel_input rec = Some ((5, p1, p2, (m, n, M), (m', n', M'), v, v'), rest) -> judge_rel rec = 0 ->
  (i < 9)%nat -> RelProofs.is01 (vget v i) -> RelProofs.is01 (vget v' i) -> vget v i = 1 -> vget v' i = 1.
Proof. exact RelProofs.judge_rel_kind5_verdicts. Qed.
Print Assumptions C10_judge_submatrix.

(* the judge also checks, rather than trusts, that M' is the stated transform of M *)
Theorem C10_judge_checks_transform_permutation : forall rec p1 p2 m n M m' n' M' v v' rest,
  RelProofs.rel_input rec = Some ((1, p1, p2, (m, n, M), (m', n', M'), v, v'), rest) -> judge_rel rec = 0 ->
  let rp := map Z.to_nat p1 in let cp := map Z.to_nat p2 in
  is_perm_l m rp = true /\ is_perm_l n cp = true /\ m' = m /\ n' = n /\ M' = submat M rp cp.
Proof.
  intros rec p1 p2 m n M m' n' M' v v' rest H J.
  pose proof (RelProofs.judge_rel_kind1 rec p1 p2 m n M m' n' M' v v' rest H J) as K.
  cbv zeta in K. cbv zeta. tauto.
Qed.
Print Assumptions C10_judge_checks_transform_permutation.

(* ---------- pivots (kind 6): total unimodularity is invariant under ternary pivots ---------- *)
From Cmr Require TuPivot RelPivot PivotModel.

(* at the level of the definition: a pivot over Z on a +-1 entry of a TU matrix gives a TU matrix, and conversely *)
Theorem C10_TU_closed_under_pivot : forall m n (A : matrix.matrix Z m n) r c,
  (matrix.fun_of_matrix A r c = 1 \/ matrix.fun_of_matrix A r c = -1) ->
  TuProofs.TUmx (TuPivot.pivmx A r c) <-> TuProofs.TUmx A.
Proof. exact TuPivot.TUmx_pivot_iff_std. Qed.
Print Assumptions C10_TU_closed_under_pivot.

(* for the executable model of CMRchrmatTernaryPivot (PivotModel.pivot_raw followed by reduction to {-1,0,1}) *)
Theorem C10_tu_ternary_pivot : forall m n M r c,
  wf_mat m n M = true -> is_ternary M = true -> Nat.ltb r m = true -> Nat.ltb c n = true -> get M r c <> 0 ->
  tu_bf m n (PivotModel.reduce 3 (PivotModel.pivot_raw m n M r c)) = tu_bf m n M.
Proof. exact TuPivot.tu_bf_tpivot_std. Qed.
Print Assumptions C10_tu_ternary_pivot.

(* the judge verifies that M' is the ternary pivot of M and demands equal TU verdicts; the demand is a theorem *)
Theorem C10_judge_ternary_pivot : forall rec p1 p2 m n M m' n' M' v v' rest,
  RelProofs.rel_input rec = Some ((6, p1, p2, (m, n, M), (m', n', M'), v, v'), rest) -> judge_rel rec = 0 ->
  tu_bf m' n' M' = tu_bf m n M /\
  (RelProofs.is01 (vget v V_TU) -> RelProofs.is01 (vget v' V_TU) -> vget v V_TU = vget v' V_TU).
Proof. exact RelPivot.judge_rel_kind6_verdicts. Qed.
Print Assumptions C10_judge_ternary_pivot.

(* ---------- binary pivots (kind 7): regularity of a 0/1 matrix is invariant under GF(2) pivots ---------- *)
From Cmr Require RegPivot RelPivot7 TuModel.
Theorem C10_regular_binary_pivot : forall m n M r c,
  wf_mat m n M = true -> is_binary M = true -> Nat.ltb r m = true -> Nat.ltb c n = true -> get M r c = 1 ->
  TuModel.regular_bf m n (PivotModel.reduce 2 (PivotModel.pivot_raw m n M r c)) = TuModel.regular_bf m n M.
Proof. exact RegPivot.regular_bf_bpivot_std. Qed.
Print Assumptions C10_regular_binary_pivot.

Theorem C10_judge_binary_pivot : forall rec p1 p2 m n M m' n' M' v v' rest,
  RelProofs.rel_input rec = Some ((7, p1, p2, (m, n, M), (m', n', M'), v, v'), rest) -> judge_rel rec = 0 ->
  TuModel.regular_bf m' n' M' = TuModel.regular_bf m n M /\
  (RelProofs.is01 (vget v V_REG) -> RelProofs.is01 (vget v' V_REG) -> vget v V_REG = vget v' V_REG).
Proof. exact RelPivot7.judge_rel_kind7_verdicts. Qed.
Print Assumptions C10_judge_binary_pivot.

(* ---------- adding or removing a zero, unit or duplicated line (kind 4): the demanded equalities for regularity and
   balancedness are theorems as well (RegClosure.v, BalClosure.v); with C10_* for TU and SP above, what remains classical for
   kind 4 are the (co)graphic / (co)network verdicts ---------- *)
From Cmr Require RegClosure BalClosure OneSum MatModel KsumModel.
Theorem C10_regular_reducible_line : forall m' n' M' (isr : bool) k, wf_mat m' n' M' = true -> is_binary M' = true ->
  (if isr then Nat.ltb k m' else Nat.ltb k n') = true -> line_reducible false m' n' M' isr k = true ->
  TuModel.regular_bf m' n' M' =
  (if isr then TuModel.regular_bf (m' - 1) n' (submat M' (keep_line m' k) (iota 0 n'))
   else TuModel.regular_bf m' (n' - 1) (submat M' (iota 0 m') (keep_line n' k))).
Proof. exact RegClosure.regular_bf_add_line. Qed.
Print Assumptions C10_regular_reducible_line.

Theorem C10_balanced_reducible_line : forall m' n' M' (isr : bool) k, is_ternary M' = true ->
  (if isr then Nat.ltb k m' else Nat.ltb k n') = true -> line_reducible true m' n' M' isr k = true ->
  balanced_bf m' n' M' =
  (if isr then balanced_bf (m' - 1) n' (submat M' (keep_line m' k) (iota 0 n'))
   else balanced_bf m' (n' - 1) (submat M' (iota 0 m') (keep_line n' k))).
Proof. exact BalClosure.balanced_bf_add_line. Qed.
Print Assumptions C10_balanced_reducible_line.

Theorem C10_regular_submatrix : forall m n M rs cs, wf_mat m n M = true -> all_lt m rs = true -> all_lt n cs = true ->
  TuModel.regular_bf m n M = true -> TuModel.regular_bf (length rs) (length cs) (submat M rs cs) = true.
Proof. exact RegClosure.regular_bf_submat. Qed.
Print Assumptions C10_regular_submatrix.

Theorem C10_regular_transpose : forall m n M, wf_mat m n M = true ->
  TuModel.regular_bf n m (transpose m n M) = TuModel.regular_bf m n M.
Proof. exact RegClosure.regular_bf_transpose. Qed.
Print Assumptions C10_regular_transpose.

(* ---------- 1-sums: a block diagonal matrix is a yes-instance exactly when both blocks are (OneSum.v) ---------- *)
Theorem C10_onesum_TU : forall m1 n1 A m2 n2 B, wf_mat m1 n1 A = true -> wf_mat m2 n2 B = true ->
  tu_bf (m1 + m2) (n1 + n2) (MatModel.block_diag2 m1 n1 A m2 n2 B) = tu_bf m1 n1 A && tu_bf m2 n2 B.
Proof. exact OneSum.tu_bf_onesum. Qed.
Print Assumptions C10_onesum_TU.

Theorem C10_onesum_regular : forall m1 n1 A m2 n2 B, wf_mat m1 n1 A = true -> wf_mat m2 n2 B = true ->
  TuModel.regular_bf (m1 + m2) (n1 + n2) (MatModel.block_diag2 m1 n1 A m2 n2 B) =
  TuModel.regular_bf m1 n1 A && TuModel.regular_bf m2 n2 B.
Proof. exact OneSum.regular_bf_onesum. Qed.
Print Assumptions C10_onesum_regular.

Theorem C10_onesum_balanced : forall m1 n1 A m2 n2 B, wf_mat m1 n1 A = true -> wf_mat m2 n2 B = true ->
  is_ternary A = true -> is_ternary B = true ->
  balanced_bf (m1 + m2) (n1 + n2) (MatModel.block_diag2 m1 n1 A m2 n2 B) = balanced_bf m1 n1 A && balanced_bf m2 n2 B.
Proof. exact OneSum.balanced_bf_onesum. Qed.
Print Assumptions C10_onesum_balanced.

Theorem C10_onesum_series_parallel : forall t m1 n1 A m2 n2 B, wf_mat m1 n1 A = true -> wf_mat m2 n2 B = true ->
  sp_greedy t (m1 + m2) (n1 + n2) (MatModel.block_diag2 m1 n1 A m2 n2 B) = sp_greedy t m1 n1 A && sp_greedy t m2 n2 B.
Proof. exact OneSum.sp_greedy_onesum. Qed.
Print Assumptions C10_onesum_series_parallel.

(* ---------- 2-sums of regular 0/1 matrices are regular, and the components of a regular 2-sum with nonzero connecting
   lines are regular (RegClosure.v; the TU statements for the ternary 2-sum are in Properties_C12) ---------- *)
Theorem C10_twosum_regular : forall m1 n1 M1 m2 n2 M2 r1 c2 M, wf_mat m1 n1 M1 = true -> wf_mat m2 n2 M2 = true ->
  KsumModel.twosum 2 m1 n1 M1 m2 n2 M2 (Some r1) None None (Some c2) = KsumModel.KOk M ->
  TuModel.regular_bf m1 n1 M1 = true -> TuModel.regular_bf m2 n2 M2 = true ->
  TuModel.regular_bf (m1 - 1 + m2) (n1 + (n2 - 1)) M = true.
Proof. exact RegClosure.regular_bf_twosum_row_col. Qed.
Print Assumptions C10_twosum_regular.

Theorem C10_twosum_regular_variant : forall m1 n1 M1 m2 n2 M2 c1 r2 M, wf_mat m1 n1 M1 = true -> wf_mat m2 n2 M2 = true ->
  KsumModel.twosum 2 m1 n1 M1 m2 n2 M2 None (Some c1) (Some r2) None = KsumModel.KOk M ->
  TuModel.regular_bf m1 n1 M1 = true -> TuModel.regular_bf m2 n2 M2 = true ->
  TuModel.regular_bf (m1 + (m2 - 1)) (n1 - 1 + n2) M = true.
Proof. exact RegClosure.regular_bf_twosum_col_row. Qed.
Print Assumptions C10_twosum_regular_variant.

Theorem C10_twosum_regular_components : forall m1 n1 M1 m2 n2 M2 r1 c2 M, wf_mat m1 n1 M1 = true -> wf_mat m2 n2 M2 = true ->
  KsumModel.twosum 2 m1 n1 M1 m2 n2 M2 (Some r1) None None (Some c2) = KsumModel.KOk M ->
  is_binary M1 = true -> is_binary M2 = true ->
  (exists j, (j < n1)%nat /\ get M1 r1 j <> 0) -> (exists i, (i < m2)%nat /\ get M2 i c2 <> 0) ->
  TuModel.regular_bf (m1 - 1 + m2) (n1 + (n2 - 1)) M = true ->
  TuModel.regular_bf m1 n1 M1 = true /\ TuModel.regular_bf m2 n2 M2 = true.
Proof. exact RegClosure.regular_bf_twosum_row_col_conv. Qed.
Print Assumptions C10_twosum_regular_components.

(* ---------- graphicness (as defined by certificates: GraphicClosure.GraphicP) is invariant under permutations (kind 1), under
   adding / removing a zero, unit or duplicated line (kind 4), and hereditary for submatrices (kind 5): pendant edges, loops,
   parallel edges, subdivision and contraction of tree edges (GraphicClosure.v).  What remains classical: the signed (network)
   analogues ---------- *)
From Cmr Require GraphicClosure.
Theorem C10_graphic_permutation :
    forall (m n : nat) (M : mat) (rp cp : list nat),
    wf_mat m n M = true ->
    is_binary M = true ->
    RelModel.is_perm_l m rp = true ->
    RelModel.is_perm_l n cp = true ->
    GraphicClosure.GraphicP m n M <-> GraphicClosure.GraphicP m n (submat M rp cp).
Proof. exact GraphicClosure.GraphicP_perm_iff. Qed.
Print Assumptions C10_graphic_permutation.
Theorem C10_graphic_reducible_line :
    forall (m' n' : nat) (M' : mat) (isr : bool) (k : nat),
    wf_mat m' n' M' = true ->
    is_binary M' = true ->
    (if isr then (k <? m')%nat else (k <? n')%nat) = true ->
    RelModel.line_reducible false m' n' M' isr k = true ->
    GraphicClosure.GraphicP m' n' M' <->
    (if isr
    then GraphicClosure.GraphicP (m' - 1) n' (submat M' (RelModel.keep_line m' k) (iota 0 n'))
    else GraphicClosure.GraphicP m' (n' - 1) (submat M' (iota 0 m') (RelModel.keep_line n' k))).
Proof. exact GraphicClosure.GraphicP_reducible_line. Qed.
Print Assumptions C10_graphic_reducible_line.
Theorem C10_graphic_submatrix :
    forall (m n : nat) (M : mat) (rs cs : list nat),
    wf_mat m n M = true ->
    strictly_increasing rs = true ->
    strictly_increasing cs = true ->
    all_lt m rs = true ->
    all_lt n cs = true ->
    GraphicClosure.GraphicP m n M -> GraphicClosure.GraphicP (length rs) (length cs) (submat M rs cs).
Proof. exact GraphicClosure.GraphicP_submat. Qed.
Print Assumptions C10_graphic_submatrix.

(* ---------- the judge accepts EXACTLY the records that satisfy its specification (JudgeComplete3.v): completeness besides soundness,
   a record of a correct answer is never rejected ---------- *)
From Cmr Require JudgeComplete3.
Theorem C10_judge_rel_kind1_accepts_exactly_the_specification :
    forall (rec p1 p2 : list Z) (m n : nat) (M : mat) (m' n' : nat) (M' : mat) (v v' rest : list Z),
    RelProofs.rel_input rec = Some (1%Z, p1, p2, (m, n, M), (m', n', M'), v, v', rest) ->
    RelModel.judge_rel rec = 0%Z <-> JudgeComplete3.rel_spec1 p1 p2 m n M m' n' M' v v'.
Proof. exact JudgeComplete3.judge_rel_kind1_iff. Qed.
Print Assumptions C10_judge_rel_kind1_accepts_exactly_the_specification.
Theorem C10_judge_rel_kind2_accepts_exactly_the_specification :
    forall (rec p1 p2 : list Z) (m n : nat) (M : mat) (m' n' : nat) (M' : mat) (v v' rest : list Z),
    RelProofs.rel_input rec = Some (2%Z, p1, p2, (m, n, M), (m', n', M'), v, v', rest) ->
    RelModel.judge_rel rec = 0%Z <-> JudgeComplete3.rel_spec2 p1 p2 m n M m' n' M' v v'.
Proof. exact JudgeComplete3.judge_rel_kind2_iff. Qed.
Print Assumptions C10_judge_rel_kind2_accepts_exactly_the_specification.
Theorem C10_judge_rel_kind3_accepts_exactly_the_specification :
    forall (rec p1 p2 : list Z) (m n : nat) (M : mat) (m' n' : nat) (M' : mat) (v v' rest : list Z),
    RelProofs.rel_input rec = Some (3%Z, p1, p2, (m, n, M), (m', n', M'), v, v', rest) ->
    RelModel.judge_rel rec = 0%Z <-> JudgeComplete3.rel_spec3 m n M m' n' M' v v'.
Proof. exact JudgeComplete3.judge_rel_kind3_iff. Qed.
Print Assumptions C10_judge_rel_kind3_accepts_exactly_the_specification.
Theorem C10_judge_rel_kind4_accepts_exactly_the_specification :
    forall (rec p1 p2 : list Z) (m n : nat) (M : mat) (m' n' : nat) (M' : mat) (v v' rest : list Z),
    RelProofs.rel_input rec = Some (4%Z, p1, p2, (m, n, M), (m', n', M'), v, v', rest) ->
    RelModel.judge_rel rec = 0%Z <-> JudgeComplete3.rel_spec4 p1 m n M m' n' M' v v'.
Proof. exact JudgeComplete3.judge_rel_kind4_iff. Qed.
Print Assumptions C10_judge_rel_kind4_accepts_exactly_the_specification.
Theorem C10_judge_rel_kind5_accepts_exactly_the_specification :
    forall (rec p1 p2 : list Z) (m n : nat) (M : mat) (m' n' : nat) (M' : mat) (v v' rest : list Z),
    RelProofs.rel_input rec = Some (5%Z, p1, p2, (m, n, M), (m', n', M'), v, v', rest) ->
    RelModel.judge_rel rec = 0%Z <-> JudgeComplete3.rel_spec5 p1 p2 m n M m' n' M' v v'.
Proof. exact JudgeComplete3.judge_rel_kind5_iff. Qed.
Print Assumptions C10_judge_rel_kind5_accepts_exactly_the_specification.
Theorem C10_judge_rel_kind6_accepts_exactly_the_specification :
    forall (rec p1 p2 : list Z) (m n : nat) (M : mat) (m' n' : nat) (M' : mat) (v v' rest : list Z),
    RelProofs.rel_input rec = Some (6%Z, p1, p2, (m, n, M), (m', n', M'), v, v', rest) ->
    RelModel.judge_rel rec = 0%Z <-> JudgeComplete3.rel_spec6 p1 m n M m' n' M' v v'.
Proof. exact JudgeComplete3.judge_rel_kind6_iff. Qed.
Print Assumptions C10_judge_rel_kind6_accepts_exactly_the_specification.
Theorem C10_judge_rel_kind7_accepts_exactly_the_specification :
    forall (rec p1 p2 : list Z) (m n : nat) (M : mat) (m' n' : nat) (M' : mat) (v v' rest : list Z),
    RelProofs.rel_input rec = Some (7%Z, p1, p2, (m, n, M), (m', n', M'), v, v', rest) ->
    RelModel.judge_rel rec = 0%Z <-> JudgeComplete3.rel_spec7 p1 m n M m' n' M' v v'.
Proof. exact JudgeComplete3.judge_rel_kind7_iff. Qed.
Print Assumptions C10_judge_rel_kind7_accepts_exactly_the_specification.

(* ---------- network matrices as defined by certificates (NetworkClosure.NetworkP: some forest T and non-forest arcs C satisfy the
   signed path specification) are closed under the operations of C10: permutations, +-1 scaling of lines (arc reversal), zero / unit /
   (negated) duplicated lines, submatrices (contraction of tree arcs) ---------- *)
From Cmr Require NetworkClosure.
Theorem C10_network_permutation :
    forall (m n : nat) (M : mat) (rp cp : list nat),
    wf_mat m n M = true ->
    RelModel.is_perm_l m rp = true ->
    RelModel.is_perm_l n cp = true ->
    NetworkClosure.NetworkP m n M <-> NetworkClosure.NetworkP m n (submat M rp cp).
Proof. exact NetworkClosure.NetworkP_perm_iff. Qed.
Print Assumptions C10_network_permutation.
Theorem C10_network_scaling :
    forall (m n : nat) (M : mat) (p1 p2 : list Z),
    wf_mat m n M = true ->
    length p1 = m ->
    length p2 = n ->
    forallb RelModel.is_pm1' p1 = true ->
    forallb RelModel.is_pm1' p2 = true ->
    NetworkClosure.NetworkP m n M <->
    NetworkClosure.NetworkP m n (mk_mat m n (fun i j : nat => (nthZ p1 i * nthZ p2 j * get M i j)%Z)).
Proof. exact NetworkClosure.NetworkP_scale. Qed.
Print Assumptions C10_network_scaling.
Theorem C10_network_reducible_line :
    forall (m' n' : nat) (M' : mat) (isr : bool) (k : nat),
    wf_mat m' n' M' = true ->
    is_ternary M' = true ->
    (if isr then (k <? m')%nat else (k <? n')%nat) = true ->
    RelModel.line_reducible true m' n' M' isr k = true ->
    NetworkClosure.NetworkP m' n' M' <->
    (if isr
    then NetworkClosure.NetworkP (m' - 1) n' (submat M' (RelModel.keep_line m' k) (iota 0 n'))
    else NetworkClosure.NetworkP m' (n' - 1) (submat M' (iota 0 m') (RelModel.keep_line n' k))).
Proof. exact NetworkClosure.NetworkP_reducible_line. Qed.
Print Assumptions C10_network_reducible_line.
Theorem C10_network_submatrix :
    forall (m n : nat) (M : mat) (rs cs : list nat),
    wf_mat m n M = true ->
    strictly_increasing rs = true ->
    strictly_increasing cs = true ->
    all_lt m rs = true ->
    all_lt n cs = true ->
    NetworkClosure.NetworkP m n M -> NetworkClosure.NetworkP (length rs) (length cs) (submat M rs cs).
Proof. exact NetworkClosure.NetworkP_submat. Qed.
Print Assumptions C10_network_submatrix.

(* ---------- everything the development proves about the two matrices of an accepted metamorphic record, per kind (RelClosureAll.v):
   the equalities of verdicts judge_rel demands are consequences of theorems about the definitions ---------- *)
From Cmr Require RelClosureAll.
Local Close Scope Z_scope.
Theorem C10_accepted_kind1_record_relates_equal_instances :
    forall (rec p1 p2 : list Z) (m n : nat) (M : mat) (m' n' : nat) (M' : mat) (v v' rest : list Z),
    RelProofs.rel_input rec = Some (1%Z, p1, p2, (m, n, M), (m', n', M'), v, v', rest) ->
    RelModel.judge_rel rec = 0%Z ->
    let rp := map Z.to_nat p1 in
    let cp := map Z.to_nat p2 in
    RelModel.is_perm_l m rp = true /\
    RelModel.is_perm_l n cp = true /\
    m' = m /\
    n' = n /\
    M' = submat M rp cp /\
    (forall i : nat, i < 10 -> RelModel.same_at v v' i i = true) /\
    tu_bf m' n' M' = tu_bf m n M /\
    TuModel.regular_bf m' n' M' = TuModel.regular_bf m n M /\
    (forall t : bool, SpModel.sp_greedy t m' n' M' = SpModel.sp_greedy t m n M) /\
    SpModel.balanced_bf m' n' M' = SpModel.balanced_bf m n M /\
    (is_binary M = true -> GraphicClosure.GraphicP m n M <-> GraphicClosure.GraphicP m' n' M') /\
    (NetworkClosure.NetworkP m n M <-> NetworkClosure.NetworkP m' n' M').
Proof. exact RelClosureAll.judge_rel_kind1_closure. Qed.
Print Assumptions C10_accepted_kind1_record_relates_equal_instances.
Theorem C10_accepted_kind2_record_relates_equal_instances :
    forall (rec p1 p2 : list Z) (m n : nat) (M : mat) (m' n' : nat) (M' : mat) (v v' rest : list Z),
    RelProofs.rel_input rec = Some (2%Z, p1, p2, (m, n, M), (m', n', M'), v, v', rest) ->
    RelModel.judge_rel rec = 0%Z ->
    length p1 = m /\
    length p2 = n /\
    forallb RelModel.is_pm1' p1 = true /\
    forallb RelModel.is_pm1' p2 = true /\
    m' = m /\
    n' = n /\
    M' = mk_mat m n (fun i j : nat => (nthZ p1 i * nthZ p2 j * get M i j)%Z) /\
    (forall i : nat,
    In i
    [RelModel.V_TU; RelModel.V_NET; RelModel.V_CONET; RelModel.V_SPT; RelModel.V_BAL; RelModel.V_CAM] ->
    RelModel.same_at v v' i i = true) /\
    tu_bf m' n' M' = tu_bf m n M /\
    SpModel.sp_greedy true m' n' M' = SpModel.sp_greedy true m n M /\
    (is_ternary M = true -> SpModel.balanced_bf m' n' M' = SpModel.balanced_bf m n M) /\
    (NetworkClosure.NetworkP m n M <-> NetworkClosure.NetworkP m' n' M').
Proof. exact RelClosureAll.judge_rel_kind2_closure. Qed.
Print Assumptions C10_accepted_kind2_record_relates_equal_instances.
Theorem C10_accepted_kind3_record_relates_equal_instances :
    forall (rec p1 p2 : list Z) (m n : nat) (M : mat) (m' n' : nat) (M' : mat) (v v' rest : list Z),
    RelProofs.rel_input rec = Some (3%Z, p1, p2, (m, n, M), (m', n', M'), v, v', rest) ->
    RelModel.judge_rel rec = 0%Z ->
    m' = n /\
    n' = m /\
    M' = transpose m n M /\
    (forall i : nat,
    In i [RelModel.V_TU; RelModel.V_REG; RelModel.V_SPT; RelModel.V_SPB; RelModel.V_BAL; RelModel.V_CAM] ->
    RelModel.same_at v v' i i = true) /\
    RelModel.same_at v v' RelModel.V_GRA RelModel.V_COG = true /\
    RelModel.same_at v v' RelModel.V_COG RelModel.V_GRA = true /\
    RelModel.same_at v v' RelModel.V_NET RelModel.V_CONET = true /\
    RelModel.same_at v v' RelModel.V_CONET RelModel.V_NET = true /\
    tu_bf m' n' M' = tu_bf m n M /\
    TuModel.regular_bf m' n' M' = TuModel.regular_bf m n M /\
    (forall t : bool, SpModel.sp_greedy t m' n' M' = SpModel.sp_greedy t m n M) /\
    SpModel.balanced_bf m' n' M' = SpModel.balanced_bf m n M.
Proof. exact RelClosureAll.judge_rel_kind3_closure. Qed.
Print Assumptions C10_accepted_kind3_record_relates_equal_instances.
Theorem C10_accepted_kind4_record_relates_equal_instances :
    forall (rec p1 p2 : list Z) (m n : nat) (M : mat) (m' n' : nat) (M' : mat) (v v' rest : list Z),
    RelProofs.rel_input rec = Some (4%Z, p1, p2, (m, n, M), (m', n', M'), v, v', rest) ->
    RelModel.judge_rel rec = 0%Z ->
    exists isrow pos : Z,
    p1 = [isrow; pos] /\
    (let k := Z.to_nat pos in
    let isr := negb (isrow =? 0)%Z in
    (if isr
    then m' = S m /\ n' = n /\ k < m' /\ submat M' (RelModel.keep_line m' k) (iota 0 n') = M
    else m' = m /\ n' = S n /\ k < n' /\ submat M' (iota 0 m') (RelModel.keep_line n' k) = M) /\
    RelModel.line_reducible true m' n' M' isr k = true /\
    is_ternary M' = true /\
    (forall i : nat,
    In i
    [RelModel.V_TU; RelModel.V_REG; RelModel.V_GRA; RelModel.V_COG; RelModel.V_NET;
    RelModel.V_CONET; RelModel.V_SPT; RelModel.V_BAL] -> RelModel.same_at v v' i i = true) /\
    (RelModel.line_reducible false m' n' M' isr k = true ->
    RelModel.same_at v v' RelModel.V_SPB RelModel.V_SPB = true) /\
    tu_bf m' n' M' = tu_bf m n M /\
    SpModel.sp_greedy true m' n' M' = SpModel.sp_greedy true m n M /\
    SpModel.balanced_bf m' n' M' = SpModel.balanced_bf m n M /\
    (NetworkClosure.NetworkP m' n' M' <-> NetworkClosure.NetworkP m n M) /\
    (RelModel.line_reducible false m' n' M' isr k = true ->
    SpModel.sp_greedy false m' n' M' = SpModel.sp_greedy false m n M) /\
    (RelModel.line_reducible false m' n' M' isr k = true ->
    is_binary M' = true ->
    TuModel.regular_bf m' n' M' = TuModel.regular_bf m n M /\
    (GraphicClosure.GraphicP m' n' M' <-> GraphicClosure.GraphicP m n M))).
Proof. exact RelClosureAll.judge_rel_kind4_closure. Qed.
Print Assumptions C10_accepted_kind4_record_relates_equal_instances.
Theorem C10_accepted_kind5_record_relates_equal_instances :
    forall (rec p1 p2 : list Z) (m n : nat) (M : mat) (m' n' : nat) (M' : mat) (v v' rest : list Z),
    RelProofs.rel_input rec = Some (5%Z, p1, p2, (m, n, M), (m', n', M'), v, v', rest) ->
    RelModel.judge_rel rec = 0%Z ->
    let rs := map Z.to_nat p1 in
    let cs := map Z.to_nat p2 in
    strictly_increasing rs = true /\
    strictly_increasing cs = true /\
    all_lt m rs = true /\
    all_lt n cs = true /\
    m' = length rs /\
    n' = length cs /\
    M' = submat M rs cs /\
    (forall i : nat, i < 9 -> RelModel.imp_at v v' i = true) /\
    (tu_bf m n M = true -> tu_bf m' n' M' = true) /\
    (TuModel.regular_bf m n M = true -> TuModel.regular_bf m' n' M' = true) /\
    (forall t : bool, SpModel.sp_greedy t m n M = true -> SpModel.sp_greedy t m' n' M' = true) /\
    (SpModel.balanced_bf m n M = true -> SpModel.balanced_bf m' n' M' = true) /\
    (GraphicClosure.GraphicP m n M -> GraphicClosure.GraphicP m' n' M') /\
    (NetworkClosure.NetworkP m n M -> NetworkClosure.NetworkP m' n' M').
Proof. exact RelClosureAll.judge_rel_kind5_closure. Qed.
Print Assumptions C10_accepted_kind5_record_relates_equal_instances.
Local Open Scope Z_scope.
