From Cmr Require Import Base Det RelModel.
Theorem placeholder_C10 : True. Proof. exact I. Qed.
