From Cmr Require Import Base Det BaseProofs TuModel GraphModel TuNetModel.
From Cmr Require NetworkTU.
Local Open Scope Z_scope.

(* an accepted record whose witness certifies a network matrix: the call succeeded, the matrix IS totally unimodular by
   the definition-level oracle (for every size: NetworkTU.network_cert_tu_bf), and a written verdict says so *)
Theorem judge_tu_net_sound : forall rec cfg m n M rc v sub G f c r rest,
  tu_net_input rec = Some ((cfg, (m, n, M), rc, v, sub, WGraph G f c r), rest) ->
  check_network_cert m n M G r f c = true ->
  judge_tu_net rec = 0 ->
  rc = 0 /\ tu_bf m n M = true /\ (v = 2 -> cfg_stopflags cfg = true) /\ (v <> 2 -> v = 1 /\ sub = None).
Proof.
  intros rec cfg m n M rc v sub G f c r rest Hdec Hcert HJ.
  unfold judge_tu_net in HJ. rewrite Hdec in HJ. rewrite Hcert in HJ. cbn [negb] in HJ.
  destruct ((rc =? 0) && (v =? 1) && (match sub with None => true | Some _ => false end)) eqn:Efast.
  { apply andb_true_iff in Efast. destruct Efast as [Efast Es]. apply andb_true_iff in Efast. destruct Efast as [E0 E1].
    apply Z.eqb_eq in E0, E1. subst rc v. split; [reflexivity|].
    split; [eapply NetworkTU.network_cert_tu_bf; exact Hcert|].
    split; [intros H; discriminate H|]. intros _. split; [reflexivity|]. destruct sub; [discriminate|reflexivity]. }
  destruct (rc =? 0) eqn:Erc; cbn [negb] in HJ; [|discriminate].
  apply Z.eqb_eq in Erc. split; [exact Erc|].
  split; [eapply NetworkTU.network_cert_tu_bf; exact Hcert|].
  destruct (v =? 2) eqn:E2.
  - apply Z.eqb_eq in E2. split; [intros _; destruct (cfg_stopflags cfg); [reflexivity|discriminate] | intros H; contradiction].
  - apply Z.eqb_neq in E2. split; [intros H; contradiction|]. intros _.
    destruct (v =? 1) eqn:E1; cbn [negb] in HJ; [|discriminate].
    apply Z.eqb_eq in E1. split; [exact E1|]. destruct sub; [discriminate|reflexivity].
Qed.
Print Assumptions judge_tu_net_sound.
