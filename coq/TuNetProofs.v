From Cmr Require Import Base Det BaseProofs TuModel GraphModel TuNetModel.
From Cmr Require NetworkTU.
Local Open Scope Z_scope.

From Cmr Require SpTU.

Lemma tu_certified_tu_bf : forall m n M w, tu_certified m n M w = true -> tu_bf m n M = true.
Proof.
  intros m n M w H. destruct w as [|G f c r|rs cs]; cbn [tu_certified] in H.
  - apply andb_true_iff in H. destruct H as [HT HS]. apply SpTU.sp_ternary_TU_nowf; assumption.
  - eapply NetworkTU.network_cert_tu_bf; exact H.
  - discriminate H.
Qed.

(* an accepted record that certifies its matrix (network witness, or series-parallel reducible ternary matrix): the call
   succeeded, the matrix IS totally unimodular by the definition-level oracle (for every size), and a written verdict says so *)
Theorem judge_tu_net_sound_gen : forall rec cfg m n M rc v sub w rest,
  tu_net_input rec = Some ((cfg, (m, n, M), rc, v, sub, w), rest) ->
  tu_certified m n M w = true ->
  judge_tu_net rec = 0 ->
  rc = 0 /\ tu_bf m n M = true /\ (v = 2 -> cfg_stopflags cfg = true) /\ (v <> 2 -> v = 1 /\ sub = None).
Proof.
  intros rec cfg m n M rc v sub w rest Hdec Hcert HJ.
  unfold judge_tu_net in HJ. rewrite Hdec in HJ. rewrite Hcert in HJ. cbn [negb] in HJ.
  pose proof (tu_certified_tu_bf m n M w Hcert) as HTU.
  destruct ((rc =? 0) && (v =? 1) && (match sub with None => true | Some _ => false end)) eqn:Efast.
  { apply andb_true_iff in Efast. destruct Efast as [Efast Es]. apply andb_true_iff in Efast. destruct Efast as [E0 E1].
    apply Z.eqb_eq in E0, E1. subst rc v. split; [reflexivity|].
    split; [exact HTU|].
    split; [intros H; discriminate H|]. intros _. split; [reflexivity|]. destruct sub; [discriminate|reflexivity]. }
  destruct (rc =? 0) eqn:Erc; cbn [negb] in HJ; [|discriminate].
  apply Z.eqb_eq in Erc. split; [exact Erc|].
  split; [exact HTU|].
  destruct (v =? 2) eqn:E2.
  - apply Z.eqb_eq in E2. split; [intros _; destruct (cfg_stopflags cfg); [reflexivity|discriminate] | intros H; contradiction].
  - apply Z.eqb_neq in E2. split; [intros H; contradiction|]. intros _.
    destruct (v =? 1) eqn:E1; cbn [negb] in HJ; [|discriminate].
    apply Z.eqb_eq in E1. split; [exact E1|]. destruct sub; [discriminate|reflexivity].
Qed.

Theorem judge_tu_net_sound : forall rec cfg m n M rc v sub G f c r rest,
  tu_net_input rec = Some ((cfg, (m, n, M), rc, v, sub, WGraph G f c r), rest) ->
  check_network_cert m n M G r f c = true ->
  judge_tu_net rec = 0 ->
  rc = 0 /\ tu_bf m n M = true /\ (v = 2 -> cfg_stopflags cfg = true) /\ (v <> 2 -> v = 1 /\ sub = None).
Proof. intros. eapply judge_tu_net_sound_gen; eauto. Qed.

(* the same for a record without witness whose {-1,0,1} matrix is series-parallel *)
Theorem judge_tu_net_sound_sp : forall rec cfg m n M rc v sub rest,
  tu_net_input rec = Some ((cfg, (m, n, M), rc, v, sub, WNone), rest) ->
  is_ternary M = true -> SpModel.sp_greedy true m n M = true ->
  judge_tu_net rec = 0 ->
  rc = 0 /\ tu_bf m n M = true /\ (v = 2 -> cfg_stopflags cfg = true) /\ (v <> 2 -> v = 1 /\ sub = None).
Proof.
  intros rec cfg m n M rc v sub rest Hdec HT HS HJ. eapply judge_tu_net_sound_gen; eauto.
  cbn [tu_certified]. rewrite HT, HS. reflexivity.
Qed.
Print Assumptions judge_tu_net_sound.
Print Assumptions judge_tu_net_sound_sp.
