(* CamionModel.v — judge for CMRcamionTestSigns / CMRcamionComputeSigns (C09), decided through the
   proved oracles tu_bf / regular_bf and observable fixpoint behaviour.  No proofs here. *)
From Cmr Require Import Base Det TuModel SpModel.
Local Open Scope Z_scope.

Definition same_support (M S : mat) : bool :=
  list_eqb (list_eqb (fun x s => Z.eqb (Z.abs s) (Z.abs x))) M S.

Definition check_camion_violator (m n : nat) (M : mat) (rs cs : list nat) : bool :=
  Nat.eqb (length rs) (length cs) && all_lt m rs && all_lt n cs && nodupn rs && nodupn cs &&
  two_per_line (length rs) (submat M rs cs) &&
  (let d := det (length rs) (submat M rs cs) in (d =? 2) || (d =? -2)).

Definition dsub3 : dec (option (list nat * list nat)) :=
  h <- dbool ;; if h then (rs <- dlist dnat ;; cs <- dlist dnat ;; dret (Some (rs, cs))) else dret None.
Definition dcsr_opt : dec (option (nat * nat * mat)) :=
  h <- dbool ;; if h then (x <- dcsr_dense ;; dret (Some x)) else dret None.

(* record: M | test: rc v(0/1/2) violator | compute on a copy: rc was(0/1/2) S violator |
            test on S: rc v' | compute on a copy of S: rc was2 S2 *)
Definition judge_camion (rec : list Z) : Z :=
  match (x <- dmat ;;
         rc1 <- dZ ;; v <- dZ ;; viol <- dsub3 ;;
         rc2 <- dZ ;; was <- dZ ;; Sg <- dcsr_opt ;; viol2 <- dsub3 ;;
         rc3 <- dZ ;; v' <- dZ ;;
         rc4 <- dZ ;; was2 <- dZ ;; S2 <- dcsr_opt ;;
         dend (x, (rc1, v, viol), (rc2, was, Sg, viol2), (rc3, v'), (rc4, was2, S2))) rec with
  | Some (((m, n, M), (rc1, v, viol), (rc2, was, Sg, viol2), (rc3, v'), (rc4, was2, S2)), _) =>
    if negb (is_ternary M) then 0
    else if negb ((rc1 =? 0) && (rc2 =? 0) && (rc3 =? 0) && (rc4 =? 0)) then 120
    else if negb (((v =? 0) || (v =? 1)) && ((was =? 0) || (was =? 1)) && ((v' =? 0) || (v' =? 1)) && ((was2 =? 0) || (was2 =? 1))) then 121
    else
      match Sg, S2 with
      | Some (ms, ns, Sm), Some (ms2, ns2, Sm2) =>
        if negb (Nat.eqb ms m && Nat.eqb ns n && same_support M Sm) then 122      (* shape and support stay *)
        else if negb (Bool.eqb (v =? 1) (mat_eqb Sm M)) then 123                   (* test says yes iff signing changes nothing *)
        else if negb (Bool.eqb (was =? 1) (mat_eqb Sm M)) then 124
        else if negb (v' =? 1) then 125                                            (* the output passes the test *)
        else if negb (Nat.eqb ms2 m && Nat.eqb ns2 n && mat_eqb Sm2 Sm && (was2 =? 1)) then 126   (* idempotent *)
        else if negb (v =? 1) && Nat.leb (m * n) 42 && tu_bf m n M then 127        (* every TU matrix is Camion-signed (oracle: small sizes) *)
        else
          let reg := if Nat.leb (m * n) 20 then regular_bf m n (support M) else false in
          if reg && negb (tu_bf m n Sm) then 128                                   (* regular support: output is TU *)
          else if reg && (v =? 1) && negb (tu_bf m n M) then 129                   (* regular support: yes only if TU *)
          else
            match (if v =? 0 then viol else None) with
            | Some (rs, cs) => if check_camion_violator m n M rs cs then 0 else 130
            | None => match viol with Some _ => if v =? 1 then 131 else 0 | None => 0 end
            end
      | _, _ => 132
      end
  | None => 1
  end.
