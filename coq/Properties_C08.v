From Cmr Require Import Base Det SpModel.
Theorem placeholder_C08 : True. Proof. exact I. Qed.
