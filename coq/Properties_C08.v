(* Properties_C08.v — C08: series-parallel test: verdict, reductions, reduced matrix exact.
   Statements closed by `exact`; proofs in SpProofs.v. *)
From Cmr Require Import Base Det BaseProofs SpModel SpProofs.
Local Open Scope Z_scope.

(* SP-reducibility is hereditary: every sub-configuration (fewer live rows / columns) of a configuration that reduces
   to the empty matrix reduces to the empty matrix.  All sizes, ternary and binary reductions. *)
Theorem C08_SP_hereditary : forall ternary M lr lc lr' lc',
  length lr' = length lr -> length lc' = length lc -> sub_mask lr' lr -> sub_mask lc' lc ->
  SPred ternary M (lr, lc) -> SPred ternary M (lr', lc').
Proof. exact SP_hereditary. Qed.
Print Assumptions C08_SP_hereditary.

(* hence a non-empty irreducible sub-configuration refutes SP-reducibility: "no" answers are certified *)
Theorem C08_irreducible_witness : forall ternary M lr lc lr' lc',
  sub_mask lr' lr -> sub_mask lc' lc ->
  irreducible ternary M lr' lc' = true -> is_empty lr' lc' = false -> ~ SPred ternary M (lr, lc).
Proof. exact SP_witness_gen. Qed.
Print Assumptions C08_irreducible_witness.

(* the greedy oracle decides the definition (reducible to the empty matrix by zero / unit / copy removals) *)
Theorem C08_oracle_is_definition : forall ternary m n M,
  sp_greedy ternary m n M = true <-> SPred ternary M (all_true m, all_true n).
Proof. exact sp_greedy_correct. Qed.
Print Assumptions C08_oracle_is_definition.

(* certificate theorem, any size: reported reductions that are genuine one after another, followed by an irreducible
   remainder, decide the verdict: the remainder is empty iff the matrix is series-parallel *)
Theorem C08_certificate_decides : forall ternary M m n reds lr' lc',
  apply_reds ternary M (all_true m) (all_true n) reds = Some (lr', lc') ->
  irreducible ternary M lr' lc' = true ->
  (is_empty lr' lc' = true <-> SPred ternary M (all_true m, all_true n)).
Proof. exact cert_verdict. Qed.
Print Assumptions C08_certificate_decides.

(* every accepted reduction is a genuine zero / unit / copy removal of the current configuration *)
Theorem C08_reduction_genuine : forall ternary M lr lc e mate,
  red_valid ternary M lr lc e mate = true -> sp_step ternary M (lr, lc) (remove_elem lr lc e).
Proof. exact red_valid_step. Qed.
Print Assumptions C08_reduction_genuine.

(* whenever the judge accepts an in-domain record of CMRspTest* / CMRspDecompose* (no bound on the number of
   reductions): the call succeeded; a requested verdict flag was written and is right; requested reductions are genuine in
   order, counted correctly, leave an irreducible remainder, and that remainder is empty iff the matrix is SP *)
Theorem C08_judge_sound : forall rec tern api maxred wv wr wd wviol ws m n M rc v nred reds reduced viol sepa rest,
  sp_input rec = Some ((tern, api, maxred, (wv, wr, wd, wviol, ws), (m, n, M), rc, v, nred, reds, reduced, viol, sepa), rest) ->
  sp_domain tern M = true -> maxred < 0 ->
  judge_sp rec = 0 ->
  rc = 0 /\
  (wv = true -> (v = 0 \/ v = 1) /\ (v = 1 <-> SPred tern M (all_true m, all_true n))) /\
  (wr = true ->
     exists lr lc,
       apply_reds tern M (all_true m) (all_true n)
                  (map (fun p => (elem_of_Z (fst p), elem_of_Z (snd p))) reds) = Some (lr, lc) /\
       nred = Z.of_nat (length reds) /\
       irreducible tern M lr lc = true /\
       (is_empty lr lc = true <-> SPred tern M (all_true m, all_true n))).
Proof. exact judge_sp_sound. Qed.
Print Assumptions C08_judge_sound.

Example C08_nonvacuous :
  sp_greedy true 3 3 [[1;1;0];[1;0;1];[0;1;1]] = false /\ sp_greedy true 2 2 [[1;-1];[-1;1]] = true /\
  apply_reds true [[1;-1];[-1;1]] (all_true 2) (all_true 2)
    [(ERow 0, ERow 1); (ECol 0, ECol 1); (ERow 1, ECol 1); (ECol 1, ENone)] = Some ([false;false],[false;false]).
Proof. repeat split; vm_compute; reflexivity. Qed.

(* ---------- the C text of projectSignedHash (hashtable.h), translated on every run (tools/c2gallina.py -> LeafGen.v):
   no signed overflow for every argument the callers can form (3*h, h+g, h-g with |h|,|g| < RANGE), the result lies in
   the symmetric range and is the canonical representative of its residue class — equal residues get equal hash values
   independently of the order of accumulation, which is what makes the reductions independent of the hash history ---------- *)
From Cmr Require LeafSem LeafGen LeafProofs.
Theorem C08_hash_projection_defined_in_range_congruent : forall v,
  -9223372036854775808 <= v <= 9223372036854775807 - LeafProofs.HR ->
  exists r, LeafGen.c_projectSignedHash v = Some r /\ - (LeafProofs.HR - 1) <= r <= LeafProofs.HR - 1 /\
            (r - v) mod (2 * LeafProofs.HR - 1) = 0.
Proof. exact LeafProofs.c_projectSignedHash_spec. Qed.
Print Assumptions C08_hash_projection_defined_in_range_congruent.

Theorem C08_hash_projection_canonical : forall v w r s, LeafProofs.psh_pre v -> LeafProofs.psh_pre w ->
  LeafGen.c_projectSignedHash v = Some r -> LeafGen.c_projectSignedHash w = Some s ->
  (v - w) mod (2 * LeafProofs.HR - 1) = 0 -> r = s.
Proof. exact LeafProofs.c_projectSignedHash_canonical. Qed.
Print Assumptions C08_hash_projection_canonical.

Theorem C08_hash_arguments_in_range : forall h g, - LeafProofs.HR < h < LeafProofs.HR -> - LeafProofs.HR < g < LeafProofs.HR ->
  LeafProofs.psh_pre (3 * h) /\ LeafProofs.psh_pre (h + g) /\ LeafProofs.psh_pre (h - g).
Proof. exact LeafProofs.project_args_in_range. Qed.
Print Assumptions C08_hash_arguments_in_range.

(* a bound on the number of reductions: SIZE_MAX is reported exactly when the bound is exceeded *)
Theorem C08_reduction_bound_reported_exactly : forall rec tern api maxred wv wr wd wviol ws m n M rc v nred reds reduced viol sepa rest,
  sp_input rec = Some ((tern, api, maxred, (wv, wr, wd, wviol, ws), (m, n, M), rc, v, nred, reds, reduced, viol, sepa), rest) ->
  sp_domain tern M = true -> 0 <= maxred -> nred <> -2 ->
  judge_sp rec = 0 ->
  rc = 0 /\
  (maxred < Z.of_nat (total_reds tern m n M) -> nred = -1) /\
  (Z.of_nat (total_reds tern m n M) <= maxred -> nred = Z.of_nat (total_reds tern m n M)).
Proof. exact judge_sp_limited_sound. Qed.
Print Assumptions C08_reduction_bound_reported_exactly.

(* ---------- the tools' verdict lines and violator files (CliModel.judge_cliverdict / judge_clisub; also used for
   cmr-tu, cmr-regular, cmr-graphic, cmr-balanced, cmr-ctu, cmr-k-ary) ---------- *)
From Coq Require Import String.
From Cmr Require TextModel CliModel CliProofs.
Theorem C08_tool_verdict_judge_sound : forall rec tool variant infmt inb rc txt rest m n M name expected,
  CliProofs.cliverdict_input rec = Some ((tool, variant, infmt, inb, rc, txt), rest) ->
  CliModel.judge_cliverdict rec = 0 ->
  TextModel.parse infmt 1 inb = TextModel.TOk m n M ->
  CliModel.verdict_spec tool variant m n M = Some (name, expected) ->
  rc = 0 /\
  CliModel.contains (List.app (CliModel.zs "Matrix IS "%string) (CliModel.zs name)) txt = expected /\
  CliModel.contains (List.app (CliModel.zs "NOT "%string) (CliModel.zs name)) txt = negb expected.
Proof. exact CliProofs.judge_cliverdict_sound. Qed.
Print Assumptions C08_tool_verdict_judge_sound.

Theorem C08_tool_violator_file_judge_sound : forall rec tool variant infmt inb rc hasout outb rest m n M name has_property,
  CliProofs.clisub_input rec = Some ((tool, variant, infmt, inb, rc, hasout, outb), rest) ->
  CliModel.judge_clisub rec = 0 ->
  TextModel.parse infmt 1 inb = TextModel.TOk m n M ->
  CliModel.verdict_spec (if tool =? 14 then 4 else tool) variant m n M = Some (name, has_property) ->
  rc = 0 /\
  (tool = 0 -> has_property = false ->
     exists rs cs, hasout = true /\ CliModel.parse_submat_file outb = Some (m, n, rs, cs) /\
                   check_min_violator m n M rs cs = true) /\
  (tool = 4 -> has_property = false ->
     exists rs cs, hasout = true /\ CliModel.parse_submat_file outb = Some (m, n, rs, cs) /\
                   check_sp_violator (variant =? 0) m n M rs cs = true) /\
  (tool = 5 -> has_property = false ->
     exists rs cs, hasout = true /\ CliModel.parse_submat_file outb = Some (m, n, rs, cs) /\
                   check_unbalanced m n M rs cs = true) /\
  (tool <> 14 -> has_property = true -> hasout = false).
Proof. exact CliProofs.judge_clisub_sound. Qed.
Print Assumptions C08_tool_violator_file_judge_sound.

(* ---------- what "series-parallel" implies: a {-1,0,1} matrix reduced to nothing is totally unimodular, a 0/1 matrix reduced
   to nothing by binary reductions is reduced to nothing by ternary reductions and is regular (SpTU.v; every size) ---------- *)
From Cmr Require SpTU TuModel.
Theorem C08_series_parallel_ternary_is_TU : forall m n M, wf_mat m n M = true -> is_ternary M = true ->
  sp_greedy true m n M = true -> tu_bf m n M = true.
Proof. exact SpTU.sp_ternary_TU. Qed.
Print Assumptions C08_series_parallel_ternary_is_TU.

Theorem C08_binary_reductions_are_ternary_reductions : forall m n M, is_binary M = true ->
  sp_greedy false m n M = true -> sp_greedy true m n M = true.
Proof. exact SpTU.sp_greedy_mono_binary_ternary. Qed.
Print Assumptions C08_binary_reductions_are_ternary_reductions.

Theorem C08_series_parallel_binary_is_regular : forall m n M, wf_mat m n M = true -> is_binary M = true ->
  sp_greedy false m n M = true -> TuModel.regular_bf m n M = true.
Proof. exact SpTU.sp_binary_regular. Qed.
Print Assumptions C08_series_parallel_binary_is_regular.

(* ---------- the judge accepts EXACTLY the records that satisfy its specification: besides soundness (above) also completeness,
   i.e. a record of a correct answer is never rejected (JudgeComplete2.v) ---------- *)
From Cmr Require JudgeComplete2.
Theorem C08_judge_sp_accepts_exactly_the_specification :
    forall (rec : list Z) (tern : bool) (api maxred : Z) (wv wr wd wviol ws : bool) 
    (m n : nat) (M : mat) (rc v nred : Z) (reds : list (Z * Z))
    (reduced viol : option (list nat * list nat)) (sepa : option (list Z * list Z * Z)) 
    (rest : list Z),
    SpProofs.sp_input rec =
    Some
    (tern, api, maxred, (wv, wr, wd, wviol, ws), (m, n, M), rc, v, nred, reds, reduced, viol, sepa, rest) ->
    SpModel.judge_sp rec = 0%Z <->
    JudgeComplete2.sp_spec tern maxred wv wr wd wviol ws m n M rc v nred reds reduced viol sepa.
Proof. exact JudgeComplete2.judge_sp_iff. Qed.
Print Assumptions C08_judge_sp_accepts_exactly_the_specification.
