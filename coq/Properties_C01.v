(* Properties_C01.v — C01: the TU verdict equals the definition.  Statements closed by `exact`. *)
From Coq Require Import ZArith List.
From mathcomp Require Import all_ssreflect all_algebra.
From mathcomp Require Import ssrZ.
From Cmr Require Import Base Det TuModel TuProofs TuJudgeProofs TuSpec.
Import mathcomp.ssreflect.seq.
Local Open Scope ring_scope.

(* The executable oracle that the library's verdict is compared with is the definition: every square
   submatrix (any pair of index maps into the rows and columns) has determinant -1, 0 or +1, for MathComp's
   \det over Z.  Holds for every integer matrix of every shape (entries outside {-1,0,1} are 1x1 minors). *)
Theorem C01_oracle_is_definition : forall m n (M : mat), reflect (TUmx (mx_of m n M)) (tu_bf m n M).
Proof. exact tu_bfP. Qed.
Print Assumptions C01_oracle_is_definition.

(* Whenever the extracted judge accepts a record of CMRtuTest — whatever algorithm and parameters the call
   used — the call returned CMR_OKAY, a reported verdict is the definition's, and the verdict may be left
   unwritten only if one of the three (co)graphicness stop flags was set. *)
Theorem C01_accepted_verdict_is_definition :
  forall rec cfg m n (M : mat) rc v sub rest,
  tu_input rec = Some ((cfg, (m, n, M), rc, v, sub), rest) -> judge_tu rec = Z0 ->
  rc = Z0 /\
  (v = Z0 \/ v = Zpos xH \/ (v = Zpos (xO xH) /\ cfg_stopflags cfg = true)) /\
  (v = Zpos xH -> TUmx (mx_of m n M)) /\
  (v = Z0 -> ~ TUmx (mx_of m n M)).
Proof. exact tu_verdict_is_definition. Qed.
Print Assumptions C01_accepted_verdict_is_definition.

(* entries of a TU matrix are in {-1,0,1}: the documented entry check is implied by the definition *)
Theorem C01_entries : forall m n (M : mat), TUmx (mx_of m n M) ->
  forall i j, (i < m)%N -> (j < n)%N -> get M i j \in [:: Zneg xH; Z0; Zpos xH].
Proof. exact TUmx_entries. Qed.
Print Assumptions C01_entries.

(* ---------- every size: network matrices, certified by their digraph, are TU (NetworkTU.v), so an accepted `tu_net` record
   carries a verdict that equals the definition although no brute-force oracle could decide it ---------- *)
From Cmr Require GraphModel NetworkTU TuNetModel TuNetProofs.
Theorem C01_network_matrices_of_every_size : forall rec cfg m n M rc v sub G f c r rest,
  TuNetModel.tu_net_input rec = Some ((cfg, (m, n, M), rc, v, sub, GraphModel.WGraph G f c r), rest) ->
  GraphModel.check_network_cert m n M G r f c = true ->
  TuNetModel.judge_tu_net rec = Z0 ->
  rc = Z0 /\ tu_bf m n M = true /\ (v = Zpos (xO xH) -> cfg_stopflags cfg = true) /\
  (v <> Zpos (xO xH) -> v = Zpos xH /\ sub = None).
Proof. exact TuNetProofs.judge_tu_net_sound. Qed.
Print Assumptions C01_network_matrices_of_every_size.

Theorem C01_network_matrix_is_TU_by_definition : forall m n M G rv forest coforest,
  GraphModel.check_network_cert m n M G rv forest coforest = true -> TUmx (mx_of m n M).
Proof. exact NetworkTU.network_cert_TU_gen. Qed.
Print Assumptions C01_network_matrix_is_TU_by_definition.

(* ---------- every size: a {-1,0,1} matrix that series-parallel reductions (zero / unit / (negated) copy lines) reduce to
   nothing is totally unimodular (SpTU.v, by induction over the reductions), so `tu_net` records without witness whose matrix
   the reduction model accepts are judged against the definition as well ---------- *)
From Cmr Require SpModel SpTU.
Theorem C01_series_parallel_matrices_of_every_size : forall rec cfg m n M rc v sub rest,
  TuNetModel.tu_net_input rec = Some ((cfg, (m, n, M), rc, v, sub, GraphModel.WNone), rest) ->
  is_ternary M = true -> SpModel.sp_greedy true m n M = true ->
  TuNetModel.judge_tu_net rec = Z0 ->
  rc = Z0 /\ tu_bf m n M = true /\ (v = Zpos (xO xH) -> cfg_stopflags cfg = true) /\
  (v <> Zpos (xO xH) -> v = Zpos xH /\ sub = None).
Proof. exact TuNetProofs.judge_tu_net_sound_sp. Qed.
Print Assumptions C01_series_parallel_matrices_of_every_size.

Theorem C01_series_parallel_is_TU : forall m n M, wf_mat m n M = true -> is_ternary M = true ->
  SpModel.sp_greedy true m n M = true -> tu_bf m n M = true.
Proof. exact SpTU.sp_ternary_TU. Qed.
Print Assumptions C01_series_parallel_is_TU.

(* ---------- the judge accepts EXACTLY the records that satisfy its specification: besides soundness (above) also completeness,
   i.e. a record of a correct answer is never rejected (JudgeComplete1.v) ---------- *)
From Cmr Require JudgeComplete1.
Theorem C01_judge_tu_accepts_exactly_the_specification :
    forall (rec cfg : list Z) (m n : nat) (M : mat) (rc v : Z) (sub : option (list nat * list nat))
    (rest : list Z),
    TuJudgeProofs.tu_input rec = Some (cfg, (m, n, M), rc, v, sub, rest) ->
    TuModel.judge_tu rec = 0%Z <-> JudgeComplete1.tu_spec cfg m n M rc v sub.
Proof. exact JudgeComplete1.judge_tu_iff. Qed.
Print Assumptions C01_judge_tu_accepts_exactly_the_specification.
Theorem C01_judge_tu_net_accepts_exactly_the_specification :
    forall (rec cfg : list Z) (m n : nat) (M : mat) (rc v : Z) (sub : option (list nat * list nat))
    (w : GraphModel.witness) (rest : list Z),
    TuNetModel.tu_net_input rec = Some (cfg, (m, n, M), rc, v, sub, w, rest) ->
    TuNetModel.judge_tu_net rec = 0%Z <-> JudgeComplete1.tu_net_spec cfg m n M rc v sub w.
Proof. exact JudgeComplete1.judge_tu_net_iff. Qed.
Print Assumptions C01_judge_tu_net_accepts_exactly_the_specification.

(* ---------- the judge accepts EXACTLY the records that satisfy its specification (JudgeComplete3.v): completeness besides soundness,
   a record of a correct answer is never rejected ---------- *)
From Cmr Require JudgeComplete3.
Theorem C01_judge_cliverdict_accepts_exactly_the_specification :
    forall (rec : list Z) (tool variant infmt : Z) (inb : list Z) (rc : Z) (txt rest : list Z),
    CliProofs.cliverdict_input rec = Some (tool, variant, infmt, inb, rc, txt, rest) ->
    CliModel.judge_cliverdict rec = 0%Z <-> JudgeComplete3.cliverdict_spec tool variant infmt inb rc txt.
Proof. exact JudgeComplete3.judge_cliverdict_iff. Qed.
Print Assumptions C01_judge_cliverdict_accepts_exactly_the_specification.
