(* JudgeComplete2.v -- COMPLETENESS of the judges: a record that satisfies the specification is accepted.
   For every judge: the specification X_spec (a readable Prop over the decoded fields), the theorem
   judge_X_complete (X_input rec = Some (fields, rest) -> X_spec fields -> judge_X rec = 0), the converse
   judge_X_sound' (from the existing soundness theorem where the two line up, proved here where the specification had
   to be strengthened to what the judge checks) and the corollary judge_X_iff. *)
From Coq Require Import List ZArith Bool Lia.
From Cmr Require Import Base Det BaseProofs TuModel SpModel SpProofs CamionModel CamionProofs PivotModel PivotProofs
  GraphModel GraphProofs NetworkJudge KsumModel KsumProofs TextModel TextProofs RtModel RtProofs.
Import ListNotations.
Local Open Scope Z_scope.

(* ------------------------------------------------------------------------------------------ *)
(* 0. helpers                                                                                   *)
(* ------------------------------------------------------------------------------------------ *)

Lemma mat_eqb_refl : forall A, mat_eqb A A = true.
Proof. intros A. apply mat_eqb_eq. reflexivity. Qed.

Lemma triple_eqb_refl : forall (m n : nat) (M : mat), Nat.eqb m m && Nat.eqb n n && mat_eqb M M = true.
Proof. intros. rewrite !Nat.eqb_refl, mat_eqb_refl. reflexivity. Qed.

Lemma eqb_Zeqb_iff : forall (x c : Z) (b : bool), (x = c <-> b = true) -> Bool.eqb (x =? c) b = true.
Proof.
  intros x c b H. destruct (x =? c) eqn:E; destruct b; cbn; try reflexivity.
  - apply Z.eqb_eq in E. apply H in E. discriminate.
  - apply Z.eqb_neq in E. exfalso. apply E. apply H. reflexivity.
Qed.

Lemma Zeqb_eqb_iff : forall (x c : Z) (b : bool), Bool.eqb (x =? c) b = true -> (x = c <-> b = true).
Proof.
  intros x c b H. apply Bool.eqb_prop in H. rewrite <- H. symmetry. apply Z.eqb_eq.
Qed.

(* ------------------------------------------------------------------------------------------ *)
(* 1. judge_pivot                                                                               *)
(* ------------------------------------------------------------------------------------------ *)

(* literally the conclusion of judge_pivot_sound, guarded by its domain hypothesis (the judge accepts every record
   outside the documented domain) *)
Definition pivot_spec (q : Z) (m n : nat) (M : mat) (rs cs : list nat) (rc : Z) (res : option (nat * nat * mat))
    (viol : option (list nat * list nat)) (rc1 : Z) (res1 : option (nat * nat * mat))
    (viol1 : option (list nat * list nat)) : Prop :=
  pivot_domain q m n M rs cs = true ->
  match pivots q m n M rs cs [] [] with
  | PErr => rc = 1 /\ rc1 = 1
  | POk R => rc = 0 /\ res = Some (m, n, reduce q R) /\ rc1 = 0 /\ res1 = Some (m, n, reduce q R) /\
             viol = None /\ viol1 = None
  | PViol _ _ => rc = 0 /\ res = None /\ exists ar ac, viol = Some (ar, ac) /\ check_violator m n M ar ac = true
  end.

Theorem judge_pivot_complete : forall rec q m n M rs cs rc res viol rc1 res1 viol1 rest,
  pivot_input rec = Some ((q, (m, n, M), rs, cs, rc, res, viol, rc1, res1, viol1), rest) ->
  pivot_spec q m n M rs cs rc res viol rc1 res1 viol1 ->
  judge_pivot rec = 0.
Proof.
  intros rec q m n M rs cs rc res viol rc1 res1 viol1 rest Hdec Hs.
  unfold judge_pivot. unfold pivot_input in Hdec. rewrite Hdec. cbv beta iota.
  unfold pivot_spec, pivot_domain in Hs.
  match goal with |- context [negb ?c] => destruct c eqn:Hdom end; cbn [negb]; [|reflexivity].
  specialize (Hs eq_refl).
  destruct (pivots q m n M rs cs [] []) as [R| |vr vc].
  - destruct Hs as [-> [-> [-> [-> [-> ->]]]]].
    change (0 =? 0) with true. cbn [negb].
    unfold same_shape_eq. rewrite triple_eqb_refl. cbn [negb]. reflexivity.
  - destruct Hs as [-> ->]. reflexivity.
  - destruct Hs as [-> [-> [ar [ac [-> Hc]]]]].
    change (0 =? 0) with true. cbn [negb]. rewrite Hc. reflexivity.
Qed.

Theorem judge_pivot_sound' : forall rec q m n M rs cs rc res viol rc1 res1 viol1 rest,
  pivot_input rec = Some ((q, (m, n, M), rs, cs, rc, res, viol, rc1, res1, viol1), rest) ->
  judge_pivot rec = 0 ->
  pivot_spec q m n M rs cs rc res viol rc1 res1 viol1.
Proof.
  intros rec q m n M rs cs rc res viol rc1 res1 viol1 rest Hdec Hj Hdom.
  exact (judge_pivot_sound _ _ _ _ _ _ _ _ _ _ _ _ _ _ Hdec Hdom Hj).
Qed.

Corollary judge_pivot_iff : forall rec q m n M rs cs rc res viol rc1 res1 viol1 rest,
  pivot_input rec = Some ((q, (m, n, M), rs, cs, rc, res, viol, rc1, res1, viol1), rest) ->
  (judge_pivot rec = 0 <-> pivot_spec q m n M rs cs rc res viol rc1 res1 viol1).
Proof.
  intros. split; [eapply judge_pivot_sound' | eapply judge_pivot_complete]; eassumption.
Qed.

Print Assumptions judge_pivot_complete.
Print Assumptions judge_pivot_iff.

(* ------------------------------------------------------------------------------------------ *)
(* 2. judge_camion                                                                              *)
(* ------------------------------------------------------------------------------------------ *)

(* The conclusion of judge_camion_sound, guarded by its domain hypothesis, plus the two conditions the judge checks
   and the soundness theorem does not state:
     (+1)  was = 0 \/ was = 1          (code 121: the "was Camion-signed" flag of the compute call is a written boolean)
     (+2)  v = 1 -> viol = None        (code 131: no violator is returned together with the answer "yes") *)
Definition camion_spec (m n : nat) (M : mat) (rc1 v : Z) (viol : option (list nat * list nat))
    (rc2 was : Z) (Sg : option (nat * nat * mat)) (viol2 : option (list nat * list nat))
    (rc3 v' rc4 was2 : Z) (S2 : option (nat * nat * mat)) : Prop :=
  is_ternary M = true ->
  rc1 = 0 /\ rc2 = 0 /\ rc3 = 0 /\ rc4 = 0 /\
  exists Sm,
    Sg = Some (m, n, Sm) /\
    same_support M Sm = true /\
    (v = 1 <-> Sm = M) /\ (v = 0 \/ v = 1) /\
    (was = 1 <-> Sm = M) /\
    (was = 0 \/ was = 1) /\                                                   (* +1 *)
    v' = 1 /\
    S2 = Some (m, n, Sm) /\ was2 = 1 /\
    ((m * n <= 42)%nat -> tu_bf m n M = true -> v = 1) /\
    ((m * n <= 20)%nat -> regular_bf m n (support M) = true ->
       tu_bf m n Sm = true /\ (v = 1 -> tu_bf m n M = true)) /\
    (v = 0 -> forall rs cs, viol = Some (rs, cs) -> check_camion_violator m n M rs cs = true) /\
    (v = 1 -> viol = None).                                                   (* +2 *)

Theorem judge_camion_complete : forall rec m n M rc1 v viol rc2 was Sg viol2 rc3 v' rc4 was2 S2 rest,
  camion_input rec = Some (((m, n, M), (rc1, v, viol), (rc2, was, Sg, viol2), (rc3, v'), (rc4, was2, S2)), rest) ->
  camion_spec m n M rc1 v viol rc2 was Sg viol2 rc3 v' rc4 was2 S2 ->
  judge_camion rec = 0.
Proof.
  intros rec m n M rc1 v viol rc2 was Sg viol2 rc3 v' rc4 was2 S2 rest Hdec Hs.
  unfold judge_camion. unfold camion_input in Hdec. rewrite Hdec. cbv beta iota.
  unfold camion_spec in Hs.
  destruct (is_ternary M) eqn:Htern; cbn [negb]; [|reflexivity].
  destruct (Hs eq_refl) as [-> [-> [-> [-> [Sm [-> [Hsup [Hv [Hv01 [Hwas [Hwas01 [-> [-> [-> [H42 [H20 [Hviol Hnov]]]]]]]]]]]]]]]]].
  clear Hs.
  change (0 =? 0) with true. change (1 =? 0) with false. change (1 =? 1) with true. cbn [andb orb negb].
  assert (Ev : ((v =? 0) || (v =? 1)) = true) by (destruct Hv01 as [->| ->]; reflexivity).
  assert (Ew : ((was =? 0) || (was =? 1)) = true) by (destruct Hwas01 as [->| ->]; reflexivity).
  rewrite Ev, Ew. cbn [andb negb].
  rewrite !Nat.eqb_refl, Hsup. cbn [andb negb].
  assert (Ev1 : Bool.eqb (v =? 1) (mat_eqb Sm M) = true).
  { apply eqb_Zeqb_iff. rewrite mat_eqb_eq. exact Hv. }
  assert (Ew1 : Bool.eqb (was =? 1) (mat_eqb Sm M) = true).
  { apply eqb_Zeqb_iff. rewrite mat_eqb_eq. exact Hwas. }
  rewrite Ev1, Ew1. cbn [negb]. rewrite mat_eqb_refl. cbn [negb].
  (* 127 *)
  assert (E127 : negb (v =? 1) && Nat.leb (m * n) 42 && tu_bf m n M = false).
  { destruct (v =? 1) eqn:E; cbn [negb andb]; [reflexivity|].
    destruct (Nat.leb (m * n) 42) eqn:L; cbn [andb]; [|reflexivity].
    destruct (tu_bf m n M) eqn:T; [|reflexivity].
    apply Nat.leb_le in L. apply Z.eqb_neq in E. exfalso. apply E. apply H42; [exact L|reflexivity]. }
  rewrite E127.
  (* 128 / 129 *)
  assert (E128 : (if Nat.leb (m * n) 20 then regular_bf m n (support M) else false) = true ->
                 tu_bf m n Sm = true /\ (v = 1 -> tu_bf m n M = true)).
  { intros H. destruct (Nat.leb (m * n) 20) eqn:L; [|discriminate].
    apply Nat.leb_le in L. apply H20; assumption. }
  set (reg := if Nat.leb (m * n) 20 then regular_bf m n (support M) else false) in *.
  assert (E128' : reg && negb (tu_bf m n Sm) = false).
  { destruct reg; cbn [andb]; [|reflexivity]. destruct (E128 eq_refl) as [-> _]. reflexivity. }
  assert (E129 : reg && (v =? 1) && negb (tu_bf m n M) = false).
  { destruct reg; cbn [andb]; [|reflexivity].
    destruct (v =? 1) eqn:E; cbn [andb]; [|reflexivity].
    apply Z.eqb_eq in E. destruct (E128 eq_refl) as [_ H]. rewrite (H E). reflexivity. }
  rewrite E128', E129.
  destruct Hv01 as [->| ->].
  - change (0 =? 0) with true. cbv beta iota.
    destruct viol as [[rs cs]|]; [|reflexivity].
    rewrite (Hviol eq_refl rs cs eq_refl). reflexivity.
  - change (1 =? 0) with false. cbv beta iota. rewrite (Hnov eq_refl). reflexivity.
Qed.

Theorem judge_camion_sound' : forall rec m n M rc1 v viol rc2 was Sg viol2 rc3 v' rc4 was2 S2 rest,
  camion_input rec = Some (((m, n, M), (rc1, v, viol), (rc2, was, Sg, viol2), (rc3, v'), (rc4, was2, S2)), rest) ->
  judge_camion rec = 0 ->
  camion_spec m n M rc1 v viol rc2 was Sg viol2 rc3 v' rc4 was2 S2.
Proof.
  intros rec m n M rc1 v viol rc2 was Sg viol2 rc3 v' rc4 was2 S2 rest Hdec Hj Htern.
  destruct (judge_camion_sound _ _ _ _ _ _ _ _ _ _ _ _ _ _ _ _ _ Hdec Htern Hj)
    as [R1 [R2 [R3 [R4 [Sm [HSg [Hsup [Hv [Hv01 [Hwas [Hv' [HS2 [Hw2 [H42 [H20 Hviol]]]]]]]]]]]]]]].
  split; [exact R1|]. split; [exact R2|]. split; [exact R3|]. split; [exact R4|].
  exists Sm. split; [exact HSg|]. split; [exact Hsup|]. split; [exact Hv|]. split; [exact Hv01|].
  split; [exact Hwas|].
  (* the two extra conditions, read off the judge *)
  unfold judge_camion in Hj. unfold camion_input in Hdec. rewrite Hdec in Hj. cbv beta iota in Hj.
  rewrite Htern in Hj. cbn [negb] in Hj.
  kill_if Hj Erc. kill_if Hj Eflags.
  apply andb_true_iff in Eflags. destruct Eflags as [Eflags W2]. apply andb_true_iff in Eflags. destruct Eflags as [Eflags V'].
  apply andb_true_iff in Eflags. destruct Eflags as [V W].
  split. { apply orb_true_iff in W. destruct W as [W|W]; apply Z.eqb_eq in W; auto. }
  split; [exact Hv'|]. split; [exact HS2|]. split; [exact Hw2|]. split; [exact H42|]. split; [exact H20|].
  split; [exact Hviol|].
  intros Hv1. subst v Sg S2.
  kill_if Hj E122. kill_if Hj E123. kill_if Hj E124. kill_if Hj E125. kill_if Hj E126. kill_if Hj E127.
  kill_if Hj E128. kill_if Hj E129.
  change (1 =? 0) with false in Hj. change (1 =? 1) with true in Hj. cbv beta iota in Hj.
  destruct viol; [discriminate Hj|reflexivity].
Qed.

Corollary judge_camion_iff : forall rec m n M rc1 v viol rc2 was Sg viol2 rc3 v' rc4 was2 S2 rest,
  camion_input rec = Some (((m, n, M), (rc1, v, viol), (rc2, was, Sg, viol2), (rc3, v'), (rc4, was2, S2)), rest) ->
  (judge_camion rec = 0 <-> camion_spec m n M rc1 v viol rc2 was Sg viol2 rc3 v' rc4 was2 S2).
Proof.
  intros. split; [eapply judge_camion_sound' | eapply judge_camion_complete]; eassumption.
Qed.

Print Assumptions judge_camion_complete.
Print Assumptions judge_camion_iff.

(* ------------------------------------------------------------------------------------------ *)
(* 3. judge_sp                                                                                  *)
(* ------------------------------------------------------------------------------------------ *)

Lemma eqb_bool_iff : forall a b : bool, (a = true <-> b = true) -> Bool.eqb a b = true.
Proof.
  intros [|] [|] H; cbn; try reflexivity.
  - apply H. reflexivity.
  - apply H. reflexivity.
Qed.

Lemma eqb_bool_iff_conv : forall a b : bool, Bool.eqb a b = true -> (a = true <-> b = true).
Proof. intros a b H. apply Bool.eqb_prop in H. subst. tauto. Qed.

Lemma negb_and_false : forall a b : bool, (a = true -> b = true) -> a && negb b = false.
Proof. intros [|] b H; cbn [andb]; [rewrite H; reflexivity | reflexivity]. Qed.

(* the matrix is series-parallel: it can be SP-reduced to the empty matrix *)
Definition sp_yes (tern : bool) (m n : nat) (M : mat) : Prop := SPred tern M (all_true m, all_true n).

(* what the judge demands of the reduced submatrix, the violator and the separation (all absent from
   judge_sp_sound); (lr, lc) are the lines left by the reported reductions (all lines when none were requested) *)
Definition sp_tail_spec (tern : bool) (maxred : Z) (wr wd wviol ws : bool) (m n : nat) (M : mat) (lr lc : list bool)
    (reduced viol : option (list nat * list nat)) (sepa : option (list Z * list Z * Z)) : Prop :=
  match reduced with
  | Some (rr, rcs) =>
    (* the reduced submatrix is a submatrix *)
    all_lt m rr = true /\ all_lt n rcs = true /\ nodupn rr = true /\ nodupn rcs = true /\
    (* without a bound: it is SP-irreducible, it is what the reported reductions leave, and it is empty iff SP *)
    (maxred < 0 ->
       irreducible tern M (mask_of m rr) (mask_of n rcs) = true /\
       (wr = true -> same_set rr (live_list lr) = true /\ same_set rcs (live_list lc) = true) /\
       ((rr = [] /\ rcs = []) <-> sp_yes tern m n M)) /\
    (* a violator / a 2-separation of the reduced submatrix only for a non-SP matrix, and then a checked one *)
    (forall vr vc, viol = Some (vr, vc) -> ~ sp_yes tern m n M /\ check_sp_violator tern m n M vr vc = true) /\
    (forall rf cf t, sepa = Some (rf, cf, t) -> ~ sp_yes tern m n M /\ check_sepa2 tern M rr rcs rf cf = true) /\
    (* a requested violator is delivered for a non-SP matrix unless a separation was also requested *)
    (viol = None -> sepa = None -> wviol = true -> maxred < 0 -> ws = false -> sp_yes tern m n M)
  | None =>
    (wd = true -> 0 <= maxred) /\          (* a requested reduced submatrix is delivered *)
    (forall vr vc, viol = Some (vr, vc) -> ~ sp_yes tern m n M /\ check_sp_violator tern m n M vr vc = true) /\
    (viol = None -> wviol = true -> maxred < 0 -> ws = false -> sp_yes tern m n M)
  end.

(* The conclusions of judge_sp_sound (maxred < 0) and judge_sp_limited_sound (0 <= maxred) under their common domain
   hypothesis, plus what the judge checks beyond them:
     - the verdict flag is 0/1 also with a bound (codes 71 / 1);
     - the reduction list replays (apply_reds) also with a bound (code 73);
     - sp_tail_spec (codes 78-87). *)
Definition sp_spec (tern : bool) (maxred : Z) (wv wr wd wviol ws : bool) (m n : nat) (M : mat) (rc v nred : Z)
    (reds : list (Z * Z)) (reduced viol : option (list nat * list nat)) (sepa : option (list Z * list Z * Z)) : Prop :=
  sp_domain tern M = true ->
  rc = 0 /\
  (0 <= maxred -> nred <> -2 ->
     (maxred < Z.of_nat (total_reds tern m n M) -> nred = -1) /\
     (Z.of_nat (total_reds tern m n M) <= maxred -> nred = Z.of_nat (total_reds tern m n M))) /\
  (wv = true -> (v = 0 \/ v = 1) /\ (maxred < 0 -> (v = 1 <-> sp_yes tern m n M))) /\
  exists lr lc,
    (if wr then apply_reds tern M (all_true m) (all_true n) (map (fun p => (elem_of_Z (fst p), elem_of_Z (snd p))) reds)
     else Some (all_true m, all_true n)) = Some (lr, lc) /\
    (wr = true -> maxred < 0 ->
       nred = Z.of_nat (length reds) /\ irreducible tern M lr lc = true /\
       (is_empty lr lc = true <-> sp_yes tern m n M)) /\
    sp_tail_spec tern maxred wr wd wviol ws m n M lr lc reduced viol sepa.

(* the judge's code for the tail, verbatim *)
Definition sp_tail_code (tern unlimited truth wr wd wviol ws : bool) (m n : nat) (M : mat) (lr lc : list bool)
    (reduced viol : option (list nat * list nat)) (sepa : option (list Z * list Z * Z)) : Z :=
        match reduced with
        | Some (rr, rcs) =>
          if negb (all_lt m rr && all_lt n rcs && nodupn rr && nodupn rcs) then 78
          else if unlimited && negb (irreducible tern M (mask_of m rr) (mask_of n rcs)) then 79
          else if unlimited && wr && negb (same_set rr (live_list lr) && same_set rcs (live_list lc)) then 80
          else if unlimited && negb (Bool.eqb (match rr, rcs with [], [] => true | _, _ => false end) truth) then 81
          else
          match viol with
          | Some (vr, vc) =>
            if truth then 82 else if check_sp_violator tern m n M vr vc then
              (match sepa with
               | Some (rf, cf, t) => if check_sepa2 tern M rr rcs rf cf then 0 else 85
               | None => 0 end)
            else 83
          | None =>
            match sepa with
            | Some (rf, cf, t) =>
              if truth then 84
              else if check_sepa2 tern M rr rcs rf cf then 0 else 85
            | None => if wviol && unlimited && negb truth && negb ws then 86 else 0
            end
          end
        | None =>
          if wd && unlimited then 87 else
          match viol with
          | Some (vr, vc) => if truth then 82 else if check_sp_violator tern m n M vr vc then 0 else 83
          | None => if wviol && unlimited && negb truth && negb ws then 86 else 0
          end
        end.

Lemma empty_pair_iff : forall rr rcs : list nat,
  (match rr, rcs with [], [] => true | _, _ => false end) = true <-> (rr = [] /\ rcs = []).
Proof.
  intros [|x rr] [|y rcs]; split; intros H; try reflexivity; try discriminate; try (split; reflexivity);
    destruct H as [H1 H2]; discriminate.
Qed.

Lemma code86_false : forall (wviol unlimited truth ws : bool),
  (wviol = true -> unlimited = true -> ws = false -> truth = true) ->
  wviol && unlimited && negb truth && negb ws = false.
Proof. intros [|] [|] [|] [|] H; cbn; try reflexivity. discriminate (H eq_refl eq_refl eq_refl). Qed.

Lemma code86_conv : forall (wviol unlimited truth ws : bool),
  wviol && unlimited && negb truth && negb ws = false ->
  wviol = true -> unlimited = true -> ws = false -> truth = true.
Proof. intros [|] [|] [|] [|] H; cbn in H; intros; try reflexivity; discriminate. Qed.

Lemma sp_tail_complete : forall tern maxred truth wr wd wviol ws m n M lr lc reduced viol sepa,
  (truth = true <-> sp_yes tern m n M) ->
  sp_tail_spec tern maxred wr wd wviol ws m n M lr lc reduced viol sepa ->
  sp_tail_code tern (maxred <? 0) truth wr wd wviol ws m n M lr lc reduced viol sepa = 0.
Proof.
  intros tern maxred truth wr wd wviol ws m n M lr lc reduced viol sepa Ht Hs.
  assert (Hnot : forall P : Prop, ~ sp_yes tern m n M /\ P -> truth = false /\ P).
  { intros P [H1 H2]. split; [|exact H2]. destruct truth; [|reflexivity]. exfalso. apply H1, Ht. reflexivity. }
  unfold sp_tail_code, sp_tail_spec in *.
  destruct reduced as [[rr rcs]|].
  - destruct Hs as [H1 [H2 [H3 [H4 [Hunl [Hviol [Hsepa H86]]]]]]].
    rewrite H1, H2, H3, H4. cbn [andb negb].
    assert (E79 : (maxred <? 0) && negb (irreducible tern M (mask_of m rr) (mask_of n rcs)) = false).
    { apply negb_and_false. intros H. apply Z.ltb_lt in H. apply Hunl. exact H. }
    assert (E80 : (maxred <? 0) && wr && negb (same_set rr (live_list lr) && same_set rcs (live_list lc)) = false).
    { apply negb_and_false. intros H. apply andb_true_iff in H. destruct H as [H Hwr]. apply Z.ltb_lt in H.
      destruct (Hunl H) as [_ [Hss _]]. destruct (Hss Hwr) as [-> ->]. reflexivity. }
    assert (E81 : (maxred <? 0) &&
                  negb (Bool.eqb (match rr, rcs with [], [] => true | _, _ => false end) truth) = false).
    { apply negb_and_false. intros H. apply Z.ltb_lt in H. destruct (Hunl H) as [_ [_ He]].
      apply eqb_bool_iff. rewrite empty_pair_iff, Ht. exact He. }
    rewrite E79, E80, E81.
    destruct viol as [[vr vc]|].
    + destruct (Hnot _ (Hviol vr vc eq_refl)) as [-> Hc]. rewrite Hc.
      destruct sepa as [[[rf cf] t]|]; [|reflexivity].
      destruct (Hnot _ (Hsepa rf cf t eq_refl)) as [_ Hc2]. rewrite Hc2. reflexivity.
    + destruct sepa as [[[rf cf] t]|].
      * destruct (Hnot _ (Hsepa rf cf t eq_refl)) as [-> Hc2]. rewrite Hc2. reflexivity.
      * rewrite code86_false; [reflexivity|].
        intros Hw Hu Hws. apply Z.ltb_lt in Hu. apply Ht. apply H86; auto.
  - destruct Hs as [Hwd [Hviol H86]].
    assert (E87 : wd && (maxred <? 0) = false).
    { destruct wd; cbn [andb]; [|reflexivity]. apply Z.ltb_ge. apply Hwd. reflexivity. }
    rewrite E87.
    destruct viol as [[vr vc]|].
    + destruct (Hnot _ (Hviol vr vc eq_refl)) as [-> Hc]. rewrite Hc. reflexivity.
    + rewrite code86_false; [reflexivity|].
      intros Hw Hu Hws. apply Z.ltb_lt in Hu. apply Ht. apply H86; auto.
Qed.

Ltac kif H E :=
  match type of H with
  | (if negb ?c then _ else _) = 0 => destruct c eqn:E; cbn [negb] in H; [|discriminate H]
  | (if ?c then 0 else _) = 0 => destruct c eqn:E; [|discriminate H]
  | (if ?c then _ else _) = 0 => destruct c eqn:E; [discriminate H|]
  end.

Lemma sp_tail_sound : forall tern maxred truth wr wd wviol ws m n M lr lc reduced viol sepa,
  (truth = true <-> sp_yes tern m n M) ->
  sp_tail_code tern (maxred <? 0) truth wr wd wviol ws m n M lr lc reduced viol sepa = 0 ->
  sp_tail_spec tern maxred wr wd wviol ws m n M lr lc reduced viol sepa.
Proof.
  intros tern maxred truth wr wd wviol ws m n M lr lc reduced viol sepa Ht Hj.
  assert (Hnot : truth = false -> ~ sp_yes tern m n M).
  { intros H1 H2. apply Ht in H2. rewrite H1 in H2. discriminate. }
  unfold sp_tail_code, sp_tail_spec in *.
  destruct reduced as [[rr rcs]|].
  - kif Hj E78. kif Hj E79. kif Hj E80. kif Hj E81.
    apply andb_true_iff in E78. destruct E78 as [E78 H4]. apply andb_true_iff in E78. destruct E78 as [E78 H3].
    apply andb_true_iff in E78. destruct E78 as [H1 H2].
    split; [exact H1|]. split; [exact H2|]. split; [exact H3|]. split; [exact H4|].
    split.
    { intros Hmax. apply Z.ltb_lt in Hmax. rewrite Hmax in E79, E80, E81. cbn [andb] in E79, E80, E81.
      apply negb_false_iff in E79, E81.
      split; [exact E79|]. split.
      - intros ->. cbn [andb] in E80. apply negb_false_iff in E80. apply andb_true_iff in E80. exact E80.
      - apply eqb_bool_iff_conv in E81. rewrite <- Ht, <- E81. symmetry. apply empty_pair_iff. }
    destruct viol as [[vr vc]|].
    + kif Hj E82. destruct (check_sp_violator tern m n M vr vc) eqn:E83; [|discriminate Hj].
      split. { intros vr' vc' E. injection E as <- <-. split; [apply Hnot; reflexivity | exact E83]. }
      split.
      { intros rf cf t ->. kif Hj E85. split; [apply Hnot; reflexivity | reflexivity]. }
      intros H; discriminate H.
    + split; [intros vr vc H; discriminate H|].
      destruct sepa as [[[rf cf] t]|].
      * kif Hj E84. kif Hj E85.
        split. { intros rf' cf' t' E. injection E as <- <- <-. split; [apply Hnot; reflexivity | exact E85]. }
        intros _ H; discriminate H.
      * split; [intros rf cf t H; discriminate H|].
        kif Hj E86. intros _ _ Hw Hmax Hws. apply Ht. apply Z.ltb_lt in Hmax.
        eapply code86_conv; eassumption.
  - kif Hj E87.
    split. { intros ->. cbn [andb] in E87. apply Z.ltb_ge. exact E87. }
    destruct viol as [[vr vc]|].
    + kif Hj E82. kif Hj E83.
      split. { intros vr' vc' E. injection E as <- <-. split; [apply Hnot; reflexivity | exact E83]. }
      intros H; discriminate H.
    + split; [intros vr vc H; discriminate H|].
      kif Hj E86. intros _ Hw Hmax Hws. apply Ht. apply Z.ltb_lt in Hmax.
      eapply code86_conv; eassumption.
Qed.

Theorem judge_sp_complete :
  forall rec tern api maxred wv wr wd wviol ws m n M rc v nred reds reduced viol sepa rest,
  sp_input rec = Some ((tern, api, maxred, (wv, wr, wd, wviol, ws), (m, n, M), rc, v, nred, reds, reduced, viol, sepa), rest) ->
  sp_spec tern maxred wv wr wd wviol ws m n M rc v nred reds reduced viol sepa ->
  judge_sp rec = 0.
Proof.
  intros rec tern api maxred wv wr wd wviol ws m n M rc v nred reds reduced viol sepa rest Hdec Hs.
  unfold judge_sp. unfold sp_input in Hdec. rewrite Hdec. cbv beta iota zeta.
  change (if tern then is_ternary M else is_binary M) with (sp_domain tern M).
  unfold sp_spec in Hs.
  destruct (sp_domain tern M) eqn:Hdom; cbn [negb]; [|reflexivity].
  destruct (Hs eq_refl) as [-> [Hlim [Hwv [lr [lc [Hap [Hwr Htail]]]]]]]. clear Hs.
  change (0 =? 0) with true. cbn [negb].
  pose proof (sp_greedy_correct tern m n M) as Ht. fold (sp_yes tern m n M) in Ht.
  set (truth := sp_greedy tern m n M) in *.
  set (total := total_reds tern m n M) in *.
  assert (E77 : negb (maxred <? 0) && negb (nred =? -2) &&
                negb (nred =? (if maxred <? Z.of_nat total then -1 else Z.of_nat total)) = false).
  { destruct (maxred <? 0) eqn:Hu; cbn [negb andb]; [reflexivity|]. apply Z.ltb_ge in Hu.
    destruct (nred =? -2) eqn:H2; cbn [negb andb]; [reflexivity|]. apply Z.eqb_neq in H2.
    destruct (Hlim Hu H2) as [Ha Hb].
    destruct (maxred <? Z.of_nat total) eqn:Hc.
    - apply Z.ltb_lt in Hc. rewrite (Ha Hc). reflexivity.
    - apply Z.ltb_ge in Hc. rewrite (Hb Hc), Z.eqb_refl. reflexivity. }
  rewrite E77.
  assert (E71 : wv && (v =? 2) = false).
  { destruct wv; [|reflexivity]. destruct (Hwv eq_refl) as [[->| ->] _]; reflexivity. }
  assert (E1 : wv && negb ((v =? 0) || (v =? 1)) = false).
  { destruct wv; [|reflexivity]. destruct (Hwv eq_refl) as [[->| ->] _]; reflexivity. }
  assert (E72 : wv && (maxred <? 0) && negb (Bool.eqb (v =? 1) truth) = false).
  { apply negb_and_false. intros H. apply andb_true_iff in H. destruct H as [Hw H]. apply Z.ltb_lt in H.
    destruct (Hwv Hw) as [_ Hi]. apply eqb_Zeqb_iff. rewrite Ht. exact (Hi H). }
  rewrite E71, E1, E72. rewrite Hap.
  assert (Hwr' : wr && (maxred <? 0) = true ->
                 nred = Z.of_nat (length reds) /\ irreducible tern M lr lc = true /\
                 (is_empty lr lc = true <-> sp_yes tern m n M)).
  { intros H. apply andb_true_iff in H. destruct H as [Hw H]. apply Z.ltb_lt in H. exact (Hwr Hw H). }
  assert (E74 : wr && (maxred <? 0) && negb (nred =? Z.of_nat (length reds)) = false).
  { apply negb_and_false. intros H. destruct (Hwr' H) as [-> _]. apply Z.eqb_refl. }
  assert (E75 : wr && (maxred <? 0) && negb (irreducible tern M lr lc) = false).
  { apply negb_and_false. intros H. destruct (Hwr' H) as [_ [Hi _]]. exact Hi. }
  assert (E76 : wr && (maxred <? 0) && negb (Bool.eqb (is_empty lr lc) truth) = false).
  { apply negb_and_false. intros H. destruct (Hwr' H) as [_ [_ Hi]]. apply eqb_bool_iff. rewrite Ht. exact Hi. }
  rewrite E74, E75, E76.
  exact (sp_tail_complete _ _ _ _ _ _ _ _ _ _ _ _ _ _ _ Ht Htail).
Qed.

Theorem judge_sp_sound' :
  forall rec tern api maxred wv wr wd wviol ws m n M rc v nred reds reduced viol sepa rest,
  sp_input rec = Some ((tern, api, maxred, (wv, wr, wd, wviol, ws), (m, n, M), rc, v, nred, reds, reduced, viol, sepa), rest) ->
  judge_sp rec = 0 ->
  sp_spec tern maxred wv wr wd wviol ws m n M rc v nred reds reduced viol sepa.
Proof.
  intros rec tern api maxred wv wr wd wviol ws m n M rc v nred reds reduced viol sepa rest Hdec Hj Hdom.
  unfold judge_sp in Hj. unfold sp_input in Hdec. rewrite Hdec in Hj. cbv beta iota zeta in Hj.
  change (if tern then is_ternary M else is_binary M) with (sp_domain tern M) in Hj.
  rewrite Hdom in Hj. cbn [negb] in Hj.
  kif Hj Hrc. apply Z.eqb_eq in Hrc.
  pose proof (sp_greedy_correct tern m n M) as Ht. fold (sp_yes tern m n M) in Ht.
  set (truth := sp_greedy tern m n M) in *.
  set (total := total_reds tern m n M) in *.
  kif Hj E77. kif Hj E71. kif Hj E1. kif Hj E72.
  destruct (if wr then apply_reds tern M (all_true m) (all_true n)
                         (map (fun p => (elem_of_Z (fst p), elem_of_Z (snd p))) reds)
            else Some (all_true m, all_true n)) as [[lr lc]|] eqn:Hap; [|discriminate Hj].
  kif Hj E74. kif Hj E75. kif Hj E76.
  apply (sp_tail_sound _ _ _ _ _ _ _ _ _ _ _ _ _ _ _ Ht) in Hj.
  split; [exact Hrc|].
  split.
  { intros Hu H2. apply Z.ltb_ge in Hu. apply Z.eqb_neq in H2. rewrite Hu, H2 in E77. cbn [negb andb] in E77.
    apply negb_false_iff in E77. apply Z.eqb_eq in E77.
    destruct (maxred <? Z.of_nat total) eqn:Hc.
    - apply Z.ltb_lt in Hc. split; [intros _; exact E77 | intros H; lia].
    - apply Z.ltb_ge in Hc. split; [intros H; lia | intros _; exact E77]. }
  split.
  { intros ->. cbn [andb] in E71, E1, E72. split.
    - apply negb_false_iff in E1. apply orb_true_iff in E1. destruct E1 as [E|E]; apply Z.eqb_eq in E; auto.
    - intros Hu. apply Z.ltb_lt in Hu. rewrite Hu in E72. cbn [andb] in E72. apply negb_false_iff in E72.
      apply Zeqb_eqb_iff in E72. rewrite E72. exact Ht. }
  exists lr, lc. split; [reflexivity|].
  split; [|exact Hj].
  intros -> Hu. apply Z.ltb_lt in Hu. rewrite Hu in E74, E75, E76. cbn [andb] in E74, E75, E76.
  apply negb_false_iff in E74, E75, E76. apply Z.eqb_eq in E74. apply eqb_bool_iff_conv in E76.
  split; [exact E74|]. split; [exact E75|]. rewrite E76. exact Ht.
Qed.

Corollary judge_sp_iff :
  forall rec tern api maxred wv wr wd wviol ws m n M rc v nred reds reduced viol sepa rest,
  sp_input rec = Some ((tern, api, maxred, (wv, wr, wd, wviol, ws), (m, n, M), rc, v, nred, reds, reduced, viol, sepa), rest) ->
  (judge_sp rec = 0 <-> sp_spec tern maxred wv wr wd wviol ws m n M rc v nred reds reduced viol sepa).
Proof.
  intros. split; [eapply judge_sp_sound' | eapply judge_sp_complete]; eassumption.
Qed.

(* sp_spec does imply the conclusions of the two existing soundness theorems *)
Corollary sp_spec_unlimited :
  forall tern maxred wv wr wd wviol ws m n M rc v nred reds reduced viol sepa,
  sp_spec tern maxred wv wr wd wviol ws m n M rc v nred reds reduced viol sepa ->
  sp_domain tern M = true -> maxred < 0 ->
  rc = 0 /\
  (wv = true -> (v = 0 \/ v = 1) /\ (v = 1 <-> SPred tern M (all_true m, all_true n))) /\
  (wr = true ->
     exists lr lc,
       apply_reds tern M (all_true m) (all_true n)
                  (map (fun p => (elem_of_Z (fst p), elem_of_Z (snd p))) reds) = Some (lr, lc) /\
       nred = Z.of_nat (length reds) /\
       irreducible tern M lr lc = true /\
       (is_empty lr lc = true <-> SPred tern M (all_true m, all_true n))).
Proof.
  intros tern maxred wv wr wd wviol ws m n M rc v nred reds reduced viol sepa Hs Hdom Hu.
  destruct (Hs Hdom) as [Hrc [_ [Hwv [lr [lc [Hap [Hwr _]]]]]]].
  split; [exact Hrc|]. split.
  - intros Hw. destruct (Hwv Hw) as [H1 H2]. split; [exact H1 | exact (H2 Hu)].
  - intros Hw. subst wr. exists lr, lc. split; [exact Hap|]. exact (Hwr eq_refl Hu).
Qed.

Corollary sp_spec_limited :
  forall tern maxred wv wr wd wviol ws m n M rc v nred reds reduced viol sepa,
  sp_spec tern maxred wv wr wd wviol ws m n M rc v nred reds reduced viol sepa ->
  sp_domain tern M = true -> 0 <= maxred -> nred <> -2 ->
  rc = 0 /\
  (maxred < Z.of_nat (total_reds tern m n M) -> nred = -1) /\
  (Z.of_nat (total_reds tern m n M) <= maxred -> nred = Z.of_nat (total_reds tern m n M)).
Proof.
  intros tern maxred wv wr wd wviol ws m n M rc v nred reds reduced viol sepa Hs Hdom Hu H2.
  destruct (Hs Hdom) as [Hrc [Hlim _]]. split; [exact Hrc | exact (Hlim Hu H2)].
Qed.

Print Assumptions judge_sp_complete.
Print Assumptions judge_sp_iff.

(* ------------------------------------------------------------------------------------------ *)
(* 4. judge_graphic                                                                             *)
(* ------------------------------------------------------------------------------------------ *)

(* judge_graphic_yes_sound only speaks about accepted "yes" records and only about the returned graph.  The judge
   checks more; graphic_spec characterises acceptance exactly.  (m, n, M) is the matrix the verdict is about.  Added
   relative to the soundness theorem: the verdict is 0/1 (91); it agrees with the brute-force oracle when there are at
   most 4 rows (92); it is consistent with the generator's witness (96, 97); "no" comes without a graph (95).  The
   "yes" clause keeps the certificate as check_graph_cert = true, whose Prop-level meaning is check_graph_cert_sound
   (that is how judge_graphic_yes_sound is obtained, see graphic_spec_yes below). *)
Definition graphic_spec (tr : bool) (m0 n0 : nat) (M0 : mat) (rc v : Z)
    (cert : option (graph * list nat * list nat)) (w : witness) : Prop :=
  let '(m, n, M) := oriented tr m0 n0 M0 in
  is_binary M = true ->
  rc = 0 /\ (v = 0 \/ v = 1) /\
  ((m <= 4)%nat -> (v = 1 <-> graphic_bf m n M = true)) /\
  (forall G f c r, w = WGraph G f c r -> check_graph_cert m n M G f c = true -> v = 1) /\
  (forall rs cs, w = WCore rs cs ->
     increasing_in m rs = true -> increasing_in n cs = true -> (length rs <= 4)%nat ->
     graphic_bf (length rs) (length cs) (submat M rs cs) = false -> v = 0) /\
  (v = 1 -> exists G f c, cert = Some (G, f, c) /\ check_graph_cert m n M G f c = true) /\
  (v = 0 -> cert = None).

Theorem judge_graphic_complete : forall rec tr m0 n0 M0 rc v cert w rest,
  graphic_input rec = Some ((tr, (m0, n0, M0), rc, v, cert, w), rest) ->
  graphic_spec tr m0 n0 M0 rc v cert w ->
  judge_graphic rec = 0.
Proof.
  intros rec tr m0 n0 M0 rc v cert w rest Hdec Hs.
  unfold judge_graphic. unfold graphic_input in Hdec. rewrite Hdec. cbv beta iota.
  unfold graphic_spec, oriented in Hs.
  destruct (if tr then (n0, m0, transpose m0 n0 M0) else (m0, n0, M0)) as [[m n] M].
  destruct (is_binary M) eqn:Hbin; cbn [negb]; [|reflexivity].
  destruct (Hs eq_refl) as [-> [Hv01 [H92 [H96 [H97 [Hyes Hno]]]]]]. clear Hs.
  change (0 =? 0) with true. cbn [negb].
  assert (Ev : ((v =? 0) || (v =? 1)) = true) by (destruct Hv01 as [->| ->]; reflexivity).
  rewrite Ev. cbn [negb].
  assert (E92 : Nat.leb m 4 && negb (Bool.eqb (v =? 1) (graphic_bf m n M)) = false).
  { apply negb_and_false. intros H. apply Nat.leb_le in H. apply eqb_Zeqb_iff. exact (H92 H). }
  rewrite E92.
  assert (E96 : match w with
                | WGraph G f c _ => check_graph_cert m n M G f c && (v =? 0)
                | _ => false end = false).
  { destruct w as [|G f c r|rs cs]; try reflexivity.
    destruct (check_graph_cert m n M G f c) eqn:Hc; cbn [andb]; [|reflexivity].
    rewrite (H96 G f c r eq_refl Hc). reflexivity. }
  rewrite E96.
  assert (E97 : match w with
                | WCore rs cs => increasing_in m rs && increasing_in n cs && Nat.leb (length rs) 4 &&
                                 negb (graphic_bf (length rs) (length cs) (submat M rs cs)) && (v =? 1)
                | _ => false end = false).
  { destruct w as [|G f c r|rs cs]; try reflexivity.
    destruct (increasing_in m rs) eqn:H1; cbn [andb]; [|reflexivity].
    destruct (increasing_in n cs) eqn:H2; cbn [andb]; [|reflexivity].
    destruct (Nat.leb (length rs) 4) eqn:H3; cbn [andb]; [|reflexivity].
    destruct (graphic_bf (length rs) (length cs) (submat M rs cs)) eqn:H4; cbn [negb andb]; [reflexivity|].
    apply Nat.leb_le in H3. rewrite (H97 rs cs eq_refl H1 H2 H3 H4). reflexivity. }
  rewrite E97.
  destruct Hv01 as [->| ->].
  - change (0 =? 1) with false. cbv beta iota. rewrite (Hno eq_refl). reflexivity.
  - change (1 =? 1) with true. cbv beta iota.
    destruct (Hyes eq_refl) as [G [f [c [-> Hc]]]]. rewrite Hc. reflexivity.
Qed.

Theorem judge_graphic_sound' : forall rec tr m0 n0 M0 rc v cert w rest,
  graphic_input rec = Some ((tr, (m0, n0, M0), rc, v, cert, w), rest) ->
  judge_graphic rec = 0 ->
  graphic_spec tr m0 n0 M0 rc v cert w.
Proof.
  intros rec tr m0 n0 M0 rc v cert w rest Hdec Hj.
  unfold judge_graphic in Hj. unfold graphic_input in Hdec. rewrite Hdec in Hj. cbv beta iota in Hj.
  unfold graphic_spec, oriented.
  destruct (if tr then (n0, m0, transpose m0 n0 M0) else (m0, n0, M0)) as [[m n] M].
  intros Hbin. rewrite Hbin in Hj. cbn [negb] in Hj.
  kif Hj Hrc. apply Z.eqb_eq in Hrc. kif Hj Ev. kif Hj E92. kif Hj E96. kif Hj E97.
  assert (Hv01 : v = 0 \/ v = 1).
  { apply orb_true_iff in Ev. destruct Ev as [E|E]; apply Z.eqb_eq in E; auto. }
  split; [exact Hrc|]. split; [exact Hv01|].
  split.
  { intros Hm. apply Nat.leb_le in Hm. rewrite Hm in E92. cbn [andb] in E92. apply negb_false_iff in E92.
    apply Zeqb_eqb_iff. exact E92. }
  split.
  { intros G f c r -> Hc. rewrite Hc in E96. cbn [andb] in E96.
    destruct Hv01 as [->| ->]; [discriminate E96 | reflexivity]. }
  split.
  { intros rs cs -> H1 H2 H3 H4. apply Nat.leb_le in H3. rewrite H1, H2, H3, H4 in E97. cbn [andb negb] in E97.
    destruct Hv01 as [->| ->]; [reflexivity | discriminate E97]. }
  split.
  - intros ->. change (1 =? 1) with true in Hj. cbv beta iota in Hj.
    destruct cert as [[[G f] c]|]; [|discriminate Hj].
    kif Hj Hc. exists G, f, c. split; [reflexivity | exact Hc].
  - intros ->. change (0 =? 1) with false in Hj. cbv beta iota in Hj.
    destruct cert; [discriminate Hj | reflexivity].
Qed.

Corollary judge_graphic_iff : forall rec tr m0 n0 M0 rc v cert w rest,
  graphic_input rec = Some ((tr, (m0, n0, M0), rc, v, cert, w), rest) ->
  (judge_graphic rec = 0 <-> graphic_spec tr m0 n0 M0 rc v cert w).
Proof.
  intros. split; [eapply judge_graphic_sound' | eapply judge_graphic_complete]; eassumption.
Qed.

(* graphic_spec implies the conclusion of judge_graphic_yes_sound *)
Corollary graphic_spec_yes : forall tr m0 n0 M0 rc cert w,
  graphic_spec tr m0 n0 M0 rc 1 cert w ->
  let '(m, n, M) := oriented tr m0 n0 M0 in
  is_binary M = true ->
  rc = 0 /\
  exists G f c T C, cert = Some (G, f, c) /\
    lookup_all (g_edges G) f = Some T /\ length T = m /\
    lookup_all (g_edges G) c = Some C /\ length C = n /\
    NoDup (f ++ c) /\ (forall e, In e (g_edges G) -> In (e_id e) (f ++ c)) /\
    ~ has_cycle T /\ fund_cycle_spec m n M T C.
Proof.
  intros tr m0 n0 M0 rc cert w Hs. unfold graphic_spec in Hs.
  destruct (oriented tr m0 n0 M0) as [[m n] M]. intros Hbin.
  destruct (Hs Hbin) as [Hrc [_ [_ [_ [_ [Hyes _]]]]]]. split; [exact Hrc|].
  destruct (Hyes eq_refl) as [G [f [c [-> Hc]]]].
  destruct (check_graph_cert_sound _ _ _ _ _ _ Hc Hbin) as [T [C [_ [H1 [H2 [H3 [H4 [H5 [H6 [H7 [_ H9]]]]]]]]]]].
  exists G, f, c, T, C. auto 10.
Qed.

Print Assumptions judge_graphic_complete.
Print Assumptions judge_graphic_iff.

(* ------------------------------------------------------------------------------------------ *)
(* 5. judge_network                                                                             *)
(* ------------------------------------------------------------------------------------------ *)

(* judge_network_yes_TU only speaks about accepted "yes" records.  network_spec characterises acceptance exactly.
   Added relative to the soundness theorem: the verdict is 0/1 (101); a written support-graphicness flag agrees with
   the oracle on the support when there are at most 4 rows (102); "yes" is never combined with "support not graphic"
   (103); consistency with the generator's witness (107, 108); for "no" a returned violating submatrix lies inside the
   matrix (106).  The total unimodularity stated by judge_network_yes_TU is a consequence of the certificate check
   (network_cert_tu_bf), see network_spec_yes below. *)
Definition network_spec (tr : bool) (m0 n0 : nat) (M0 : mat) (rc v sg : Z)
    (cert : option (graph * list nat * list nat * list nat)) (sub : option (list nat * list nat)) (w : witness) : Prop :=
  let '(m, n, M) := oriented tr m0 n0 M0 in
  is_ternary M = true ->
  rc = 0 /\ (v = 0 \/ v = 1) /\
  ((m <= 4)%nat -> sg <> 2 -> (sg = 1 <-> graphic_bf m n (support M) = true)) /\
  (v = 1 -> sg <> 0) /\
  (forall G f c r, w = WGraph G f c r -> check_network_cert m n M G r f c = true -> v = 1) /\
  (forall rs cs, w = WCore rs cs ->
     increasing_in m rs = true -> increasing_in n cs = true -> (length rs <= 4)%nat ->
     graphic_bf (length rs) (length cs) (support (submat M rs cs)) = false -> v = 0) /\
  (v = 1 -> exists G f c r, cert = Some ((G, f, c), r) /\ check_network_cert m n M G r f c = true) /\
  (v = 0 -> forall rs cs, sub = Some (rs, cs) ->
     let rs' := if tr then cs else rs in let cs' := if tr then rs else cs in
     all_lt m rs' = true /\ all_lt n cs' = true /\ nodupn rs' = true /\ nodupn cs' = true).

Theorem judge_network_complete : forall rec tr m0 n0 M0 rc v sg cert sub w rest,
  network_input rec = Some ((tr, (m0, n0, M0), rc, v, sg, cert, sub, w), rest) ->
  network_spec tr m0 n0 M0 rc v sg cert sub w ->
  judge_network rec = 0.
Proof.
  intros rec tr m0 n0 M0 rc v sg cert sub w rest Hdec Hs.
  unfold judge_network. unfold network_input in Hdec. rewrite Hdec. cbv beta iota.
  unfold network_spec, oriented in Hs.
  destruct (if tr then (n0, m0, transpose m0 n0 M0) else (m0, n0, M0)) as [[m n] M].
  destruct (is_ternary M) eqn:Htern; cbn [negb]; [|reflexivity].
  destruct (Hs eq_refl) as [-> [Hv01 [H102 [H103 [H107 [H108 [Hyes Hno]]]]]]]. clear Hs.
  change (0 =? 0) with true. cbn [negb].
  assert (Ev : ((v =? 0) || (v =? 1)) = true) by (destruct Hv01 as [->| ->]; reflexivity).
  rewrite Ev. cbn [negb].
  assert (E102 : Nat.leb m 4 && negb (sg =? 2) && negb (Bool.eqb (sg =? 1) (graphic_bf m n (support M))) = false).
  { apply negb_and_false. intros H. apply andb_true_iff in H. destruct H as [H1 H2]. apply Nat.leb_le in H1.
    apply negb_true_iff in H2. apply Z.eqb_neq in H2. apply eqb_Zeqb_iff. exact (H102 H1 H2). }
  rewrite E102.
  assert (E103 : (v =? 1) && (sg =? 0) = false).
  { destruct (v =? 1) eqn:E; cbn [andb]; [|reflexivity]. apply Z.eqb_eq in E. apply Z.eqb_neq. exact (H103 E). }
  rewrite E103.
  assert (E107 : match w with
                 | WGraph G f c r => (v =? 0) && check_network_cert m n M G r f c
                 | _ => false end = false).
  { destruct w as [|G f c r|rs cs]; try reflexivity.
    destruct (check_network_cert m n M G r f c) eqn:Hc; [|apply andb_false_r].
    rewrite (H107 G f c r eq_refl Hc). reflexivity. }
  rewrite E107.
  assert (E108 : match w with
                 | WCore rs cs => increasing_in m rs && increasing_in n cs && Nat.leb (length rs) 4 &&
                                  negb (graphic_bf (length rs) (length cs) (support (submat M rs cs))) && (v =? 1)
                 | _ => false end = false).
  { destruct w as [|G f c r|rs cs]; try reflexivity.
    destruct (increasing_in m rs) eqn:H1; cbn [andb]; [|reflexivity].
    destruct (increasing_in n cs) eqn:H2; cbn [andb]; [|reflexivity].
    destruct (Nat.leb (length rs) 4) eqn:H3; cbn [andb]; [|reflexivity].
    destruct (graphic_bf (length rs) (length cs) (support (submat M rs cs))) eqn:H4; cbn [negb andb]; [reflexivity|].
    apply Nat.leb_le in H3. rewrite (H108 rs cs eq_refl H1 H2 H3 H4). reflexivity. }
  rewrite E108.
  destruct Hv01 as [->| ->].
  - change (0 =? 1) with false. cbv beta iota.
    destruct sub as [[rs cs]|]; [|reflexivity].
    destruct (Hno eq_refl rs cs eq_refl) as [H1 [H2 [H3 H4]]].
    destruct tr; cbv beta iota zeta; rewrite H1, H2, H3, H4; reflexivity.
  - change (1 =? 1) with true. cbv beta iota.
    destruct (Hyes eq_refl) as [G [f [c [r [-> Hc]]]]]. rewrite Hc. reflexivity.
Qed.

Theorem judge_network_sound' : forall rec tr m0 n0 M0 rc v sg cert sub w rest,
  network_input rec = Some ((tr, (m0, n0, M0), rc, v, sg, cert, sub, w), rest) ->
  judge_network rec = 0 ->
  network_spec tr m0 n0 M0 rc v sg cert sub w.
Proof.
  intros rec tr m0 n0 M0 rc v sg cert sub w rest Hdec Hj.
  unfold judge_network in Hj. unfold network_input in Hdec. rewrite Hdec in Hj. cbv beta iota in Hj.
  unfold network_spec, oriented.
  destruct (if tr then (n0, m0, transpose m0 n0 M0) else (m0, n0, M0)) as [[m n] M].
  intros Htern. rewrite Htern in Hj. cbn [negb] in Hj.
  kif Hj Hrc. apply Z.eqb_eq in Hrc. kif Hj Ev. kif Hj E102. kif Hj E103. kif Hj E107. kif Hj E108.
  assert (Hv01 : v = 0 \/ v = 1).
  { apply orb_true_iff in Ev. destruct Ev as [E|E]; apply Z.eqb_eq in E; auto. }
  split; [exact Hrc|]. split; [exact Hv01|].
  split.
  { intros Hm Hsg. apply Nat.leb_le in Hm. apply Z.eqb_neq in Hsg. rewrite Hm, Hsg in E102. cbn [andb negb] in E102.
    apply negb_false_iff in E102. apply Zeqb_eqb_iff. exact E102. }
  split.
  { intros -> Hsg. subst sg. discriminate E103. }
  split.
  { intros G f c r -> Hc. rewrite Hc in E107. rewrite andb_true_r in E107.
    destruct Hv01 as [->| ->]; [discriminate E107 | reflexivity]. }
  split.
  { intros rs cs -> H1 H2 H3 H4. apply Nat.leb_le in H3. rewrite H1, H2, H3, H4 in E108. cbn [andb negb] in E108.
    destruct Hv01 as [->| ->]; [reflexivity | discriminate E108]. }
  split.
  - intros ->. change (1 =? 1) with true in Hj. cbv beta iota in Hj.
    destruct cert as [[[[G f] c] r]|]; [|discriminate Hj].
    kif Hj Hc. exists G, f, c, r. split; [reflexivity | exact Hc].
  - intros -> rs cs ->. change (0 =? 1) with false in Hj. cbv beta iota in Hj.
    destruct tr; cbv beta iota zeta in Hj |- *; kif Hj E;
      apply andb_true_iff in E; destruct E as [E H4]; apply andb_true_iff in E; destruct E as [E H3];
      apply andb_true_iff in E; destruct E as [H1 H2]; auto.
Qed.

Corollary judge_network_iff : forall rec tr m0 n0 M0 rc v sg cert sub w rest,
  network_input rec = Some ((tr, (m0, n0, M0), rc, v, sg, cert, sub, w), rest) ->
  (judge_network rec = 0 <-> network_spec tr m0 n0 M0 rc v sg cert sub w).
Proof.
  intros. split; [eapply judge_network_sound' | eapply judge_network_complete]; eassumption.
Qed.

(* network_spec implies the conclusion of judge_network_yes_TU *)
Corollary network_spec_yes : forall tr m0 n0 M0 rc sg cert sub w,
  network_spec tr m0 n0 M0 rc 1 sg cert sub w ->
  let '(m, n, M) := oriented tr m0 n0 M0 in
  is_ternary M = true ->
  rc = 0 /\
  (exists G f c r, cert = Some ((G, f, c), r) /\ check_network_cert m n M G r f c = true) /\
  tu_bf m n M = true.
Proof.
  intros tr m0 n0 M0 rc sg cert sub w Hs. unfold network_spec in Hs.
  destruct (oriented tr m0 n0 M0) as [[m n] M]. intros Htern.
  destruct (Hs Htern) as [Hrc [_ [_ [_ [_ [_ [Hyes _]]]]]]]. split; [exact Hrc|].
  destruct (Hyes eq_refl) as [G [f [c [r [-> Hc]]]]].
  split; [exists G, f, c, r; split; [reflexivity | exact Hc]|].
  eapply NetworkTU.network_cert_tu_bf. exact Hc.
Qed.

Print Assumptions judge_network_complete.
Print Assumptions judge_network_iff.

(* ------------------------------------------------------------------------------------------ *)
(* 6. judge_kcompose                                                                            *)
(* ------------------------------------------------------------------------------------------ *)

(* literally the conclusion of judge_kcompose_sound, guarded by its domain hypothesis *)
Definition kcompose_spec (kind p : Z) (m1 n1 : nat) (M1 : mat) (m2 n2 : nat) (M2 : mat)
    (fsr fsc ssr ssc : list nat) (rc : Z) (res : option (nat * nat * mat)) : Prop :=
  ((p =? 2) || (p =? 3)) && in_dom p M1 && in_dom p M2 = true ->
  (forall M, ksum kind p m1 n1 M1 m2 n2 M2 fsr fsc ssr ssc = KOk M ->
     rc = 0 /\ exists m n, res = Some (m, n, M) /\
       ((p =? 3) && small m n && small m1 n1 && small m2 n2 &&
        tu_bf m1 n1 M1 && tu_bf m2 n2 M2 = true -> tu_bf m n M = true)) /\
  (ksum kind p m1 n1 M1 m2 n2 M2 fsr fsc ssr ssc = KErr -> rc <> 0).

Theorem judge_kcompose_complete :
  forall rec kind p m1 n1 M1 m2 n2 M2 fsr fsc ssr ssc rc res rest,
  kcompose_input rec = Some ((kind, p, (m1, n1, M1), (m2, n2, M2), fsr, fsc, ssr, ssc, rc, res), rest) ->
  kcompose_spec kind p m1 n1 M1 m2 n2 M2 fsr fsc ssr ssc rc res ->
  judge_kcompose rec = 0.
Proof.
  intros rec kind p m1 n1 M1 m2 n2 M2 fsr fsc ssr ssc rc res rest Hdec Hs.
  unfold judge_kcompose. unfold kcompose_input in Hdec. rewrite Hdec. cbv beta iota.
  unfold kcompose_spec in Hs.
  destruct (((p =? 2) || (p =? 3)) && in_dom p M1 && in_dom p M2) eqn:Hdom; cbn [negb]; [|reflexivity].
  destruct (Hs eq_refl) as [Hok Herr]. clear Hs.
  destruct (ksum kind p m1 n1 M1 m2 n2 M2 fsr fsc ssr ssc) as [Mc|].
  - destruct (Hok Mc eq_refl) as [-> [m [n [-> Htu]]]].
    change (0 =? 0) with true. cbn [negb]. rewrite mat_eqb_refl. cbn [negb].
    rewrite (negb_and_false _ _ Htu). reflexivity.
  - destruct (rc =? 0) eqn:E; [|reflexivity]. apply Z.eqb_eq in E. exfalso. exact (Herr eq_refl E).
Qed.

Theorem judge_kcompose_sound' :
  forall rec kind p m1 n1 M1 m2 n2 M2 fsr fsc ssr ssc rc res rest,
  kcompose_input rec = Some ((kind, p, (m1, n1, M1), (m2, n2, M2), fsr, fsc, ssr, ssc, rc, res), rest) ->
  judge_kcompose rec = 0 ->
  kcompose_spec kind p m1 n1 M1 m2 n2 M2 fsr fsc ssr ssc rc res.
Proof.
  intros rec kind p m1 n1 M1 m2 n2 M2 fsr fsc ssr ssc rc res rest Hdec Hj Hdom.
  exact (judge_kcompose_sound _ _ _ _ _ _ _ _ _ _ _ _ _ _ _ _ Hdec Hdom Hj).
Qed.

Corollary judge_kcompose_iff :
  forall rec kind p m1 n1 M1 m2 n2 M2 fsr fsc ssr ssc rc res rest,
  kcompose_input rec = Some ((kind, p, (m1, n1, M1), (m2, n2, M2), fsr, fsc, ssr, ssc, rc, res), rest) ->
  (judge_kcompose rec = 0 <-> kcompose_spec kind p m1 n1 M1 m2 n2 M2 fsr fsc ssr ssc rc res).
Proof.
  intros. split; [eapply judge_kcompose_sound' | eapply judge_kcompose_complete]; eassumption.
Qed.

Print Assumptions judge_kcompose_complete.
Print Assumptions judge_kcompose_iff.

(* ------------------------------------------------------------------------------------------ *)
(* 7. judge_kdecomp                                                                             *)
(* ------------------------------------------------------------------------------------------ *)

(* literally the conclusion of judge_kdecomp_sound, guarded by its two hypotheses: the library reported a
   decomposition (ok = 1; judge_kdecomp_sound has the literal 1 in the decoder equation) and the domain *)
Definition kdecomp_spec (kind p : Z) (m n : nat) (M : mat) (ok : Z) (both : bool)
    (rc1 : Z) (X1 : option (nat * nat * mat)) (ro1 co1 : list Z) (fsr fsc : list nat)
    (rc2 : Z) (X2 : option (nat * nat * mat)) (ro2 co2 : list Z) (ssr ssc : list nat)
    (rcc : Z) (res : option (nat * nat * mat)) : Prop :=
  ok = 1 ->
  ((p =? 2) || (p =? 3)) && in_dom p M = true ->
  rc1 = 0 /\ rc2 = 0 /\ rcc = 0 /\
  exists m1 n1 M1 m2 n2 M2 Mc,
    X1 = Some (m1, n1, M1) /\ X2 = Some (m2, n2, M2) /\
    ksum kind p m1 n1 M1 m2 n2 M2 fsr fsc ssr ssc = KOk Mc /\
    let orow := kd_orow kind m1 m2 ro1 ro2 fsr ssr in
    let ocol := kd_ocol kind n1 n2 co1 co2 fsc ssc in
    is_perm_of m orow = true /\ is_perm_of n ocol = true /\
    Mc = submat M (map Z.to_nat orow) (map Z.to_nat ocol) /\
    (exists mr nr, res = Some (mr, nr, Mc)) /\
    (kd_tu_applies kind p both m1 n1 m2 n2 fsr fsc ssr ssc && small m n && tu_bf m n M = true ->
     tu_bf m1 n1 M1 = true /\ tu_bf m2 n2 M2 = true).

Theorem judge_kdecomp_complete :
  forall rec kind p m n M ok both rc1 X1 ro1 co1 fsr fsc rc2 X2 ro2 co2 ssr ssc rcc res rest,
  kdecomp_input rec =
    Some ((kind, p, (m, n, M), ok, both, (rc1, X1, ro1, co1, fsr, fsc), (rc2, X2, ro2, co2, ssr, ssc), rcc, res), rest) ->
  kdecomp_spec kind p m n M ok both rc1 X1 ro1 co1 fsr fsc rc2 X2 ro2 co2 ssr ssc rcc res ->
  judge_kdecomp rec = 0.
Proof.
  intros rec kind p m n M ok both rc1 X1 ro1 co1 fsr fsc rc2 X2 ro2 co2 ssr ssc rcc res rest Hdec Hs.
  unfold judge_kdecomp. unfold kdecomp_input in Hdec. rewrite Hdec. cbv beta iota.
  unfold kdecomp_spec in Hs. cbv zeta in Hs.
  destruct (ok =? 1) eqn:Hok; cbn [negb]; [|reflexivity]. apply Z.eqb_eq in Hok.
  destruct (((p =? 2) || (p =? 3)) && in_dom p M) eqn:Hdom; cbn [negb]; [|reflexivity].
  destruct (Hs Hok eq_refl) as [-> [-> [-> [m1 [n1 [M1 [m2 [n2 [M2 [Mc [-> [-> [Hk [Hpr [Hpc [HMc [[mr [nr ->]] Htu]]]]]]]]]]]]]]]]].
  clear Hs.
  change (0 =? 0) with true. cbn [andb negb]. cbv beta iota.
  rewrite Hk. cbv beta iota zeta.
  fold (kd_orow kind m1 m2 ro1 ro2 fsr ssr).
  fold (kd_ocol kind n1 n2 co1 co2 fsc ssc).
  rewrite Hpr, Hpc. cbn [andb negb].
  rewrite <- HMc. rewrite mat_eqb_refl. cbn [negb].
  apply (f_equal (fun b : bool => if b then 156 else 0)
           (y := false)).
  apply negb_and_false. intros H.
  apply andb_true_iff. exact (Htu H).
Qed.

Theorem judge_kdecomp_sound' :
  forall rec kind p m n M ok both rc1 X1 ro1 co1 fsr fsc rc2 X2 ro2 co2 ssr ssc rcc res rest,
  kdecomp_input rec =
    Some ((kind, p, (m, n, M), ok, both, (rc1, X1, ro1, co1, fsr, fsc), (rc2, X2, ro2, co2, ssr, ssc), rcc, res), rest) ->
  judge_kdecomp rec = 0 ->
  kdecomp_spec kind p m n M ok both rc1 X1 ro1 co1 fsr fsc rc2 X2 ro2 co2 ssr ssc rcc res.
Proof.
  intros rec kind p m n M ok both rc1 X1 ro1 co1 fsr fsc rc2 X2 ro2 co2 ssr ssc rcc res rest Hdec Hj Hok Hdom.
  subst ok.
  exact (judge_kdecomp_sound _ _ _ _ _ _ _ _ _ _ _ _ _ _ _ _ _ _ _ _ _ _ Hdec Hdom Hj).
Qed.

Corollary judge_kdecomp_iff :
  forall rec kind p m n M ok both rc1 X1 ro1 co1 fsr fsc rc2 X2 ro2 co2 ssr ssc rcc res rest,
  kdecomp_input rec =
    Some ((kind, p, (m, n, M), ok, both, (rc1, X1, ro1, co1, fsr, fsc), (rc2, X2, ro2, co2, ssr, ssc), rcc, res), rest) ->
  (judge_kdecomp rec = 0 <-> kdecomp_spec kind p m n M ok both rc1 X1 ro1 co1 fsr fsc rc2 X2 ro2 co2 ssr ssc rcc res).
Proof.
  intros. split; [eapply judge_kdecomp_sound' | eapply judge_kdecomp_complete]; eassumption.
Qed.

Print Assumptions judge_kdecomp_complete.
Print Assumptions judge_kdecomp_iff.

(* ------------------------------------------------------------------------------------------ *)
(* 9. judge_reprt                                                                               *)
(* ------------------------------------------------------------------------------------------ *)

(* literally the conclusion of judge_reprt_sound, guarded by its hypothesis cf = 1 (the offered edge list is a
   correct spanning forest; the judge accepts every other record) *)
Definition reprt_spec (rc cf : Z) (Mo : option (nat * nat * mat)) (rc2 v rc3 : Z) (M2o : option (nat * nat * mat)) : Prop :=
  cf = 1 ->
  rc = 0 /\ rc2 = 0 /\ v = 1 /\ rc3 = 0 /\ exists m n M, Mo = Some (m, n, M) /\ M2o = Some (m, n, M).

Theorem judge_reprt_complete : forall rec signed rc cf Mo rc2 v rc3 M2o rest,
  reprt_input rec = Some ((signed, rc, cf, Mo, rc2, v, rc3, M2o), rest) ->
  reprt_spec rc cf Mo rc2 v rc3 M2o ->
  judge_reprt rec = 0.
Proof.
  intros rec signed rc cf Mo rc2 v rc3 M2o rest Hdec Hs.
  unfold judge_reprt. unfold reprt_input in Hdec. rewrite Hdec. cbv beta iota.
  unfold reprt_spec in Hs.
  destruct (cf =? 1) eqn:Hcf; cbn [negb]; [|reflexivity]. apply Z.eqb_eq in Hcf.
  destruct (Hs Hcf) as [-> [-> [-> [-> [m [n [M [-> ->]]]]]]]].
  change (0 =? 0) with true. change (1 =? 1) with true. cbn [negb]. cbv beta iota.
  rewrite triple_eqb_refl. reflexivity.
Qed.

Theorem judge_reprt_sound' : forall rec signed rc cf Mo rc2 v rc3 M2o rest,
  reprt_input rec = Some ((signed, rc, cf, Mo, rc2, v, rc3, M2o), rest) ->
  judge_reprt rec = 0 ->
  reprt_spec rc cf Mo rc2 v rc3 M2o.
Proof.
  intros rec signed rc cf Mo rc2 v rc3 M2o rest Hdec Hj Hcf.
  exact (judge_reprt_sound _ _ _ _ _ _ _ _ _ _ Hdec Hcf Hj).
Qed.

Corollary judge_reprt_iff : forall rec signed rc cf Mo rc2 v rc3 M2o rest,
  reprt_input rec = Some ((signed, rc, cf, Mo, rc2, v, rc3, M2o), rest) ->
  (judge_reprt rec = 0 <-> reprt_spec rc cf Mo rc2 v rc3 M2o).
Proof.
  intros. split; [eapply judge_reprt_sound' | eapply judge_reprt_complete]; eassumption.
Qed.

Print Assumptions judge_reprt_complete.
Print Assumptions judge_reprt_iff.

(* ------------------------------------------------------------------------------------------ *)
(* 10. judge_textread                                                                           *)
(* ------------------------------------------------------------------------------------------ *)

(* literally the conclusion of judge_textread_sound *)
Definition textread_spec (fmt ty : Z) (bytes : list Z) (rc : Z) (res : option (nat * nat * mat)) : Prop :=
  (parse fmt ty bytes = TErr -> rc <> 0) /\
  (forall m n M, parse fmt ty bytes = TOk m n M -> rc = 0 /\ res = Some (m, n, M)).

Theorem judge_textread_complete : forall rec fmt ty bytes rc res rest,
  textread_input rec = Some ((fmt, ty, bytes, rc, res), rest) ->
  textread_spec fmt ty bytes rc res ->
  judge_textread rec = 0.
Proof.
  intros rec fmt ty bytes rc res rest Hdec [Herr Hok].
  unfold judge_textread. unfold textread_input in Hdec. rewrite Hdec. cbv beta iota.
  destruct (parse fmt ty bytes) as [m n M|].
  - destruct (Hok m n M eq_refl) as [-> ->].
    change (0 =? 0) with true. cbn [negb]. cbv beta iota. rewrite triple_eqb_refl. reflexivity.
  - destruct (rc =? 0) eqn:E; [|reflexivity]. apply Z.eqb_eq in E. exfalso. exact (Herr eq_refl E).
Qed.

Corollary judge_textread_iff : forall rec fmt ty bytes rc res rest,
  textread_input rec = Some ((fmt, ty, bytes, rc, res), rest) ->
  (judge_textread rec = 0 <-> textread_spec fmt ty bytes rc res).
Proof.
  intros rec fmt ty bytes rc res rest Hdec. split.
  - intros Hj. exact (judge_textread_sound _ _ _ _ _ _ _ Hdec Hj).
  - intros Hs. exact (judge_textread_complete _ _ _ _ _ _ _ Hdec Hs).
Qed.

Print Assumptions judge_textread_complete.
Print Assumptions judge_textread_iff.

(* ------------------------------------------------------------------------------------------ *)
(* 11. judge_textwrite                                                                          *)
(* ------------------------------------------------------------------------------------------ *)

(* literally the conclusion of judge_textwrite_sound, guarded by its hypothesis (all entries fit the matrix type) *)
Definition textwrite_spec (fmt ty : Z) (m n : nat) (M : mat) (bytes : list Z) (rc2 : Z)
    (res : option (nat * nat * mat)) : Prop :=
  forallb (forallb (fits ty)) M = true ->
  parse fmt ty bytes = TOk m n M /\ rc2 = 0 /\ res = Some (m, n, M).

Theorem judge_textwrite_complete : forall rec fmt ty m n M bytes rc2 res rest,
  textwrite_input rec = Some ((fmt, ty, (m, n, M), bytes, rc2, res), rest) ->
  textwrite_spec fmt ty m n M bytes rc2 res ->
  judge_textwrite rec = 0.
Proof.
  intros rec fmt ty m n M bytes rc2 res rest Hdec Hs.
  unfold judge_textwrite. unfold textwrite_input in Hdec. rewrite Hdec. cbv beta iota.
  unfold textwrite_spec in Hs.
  destruct (forallb (forallb (fits ty)) M) eqn:Hfit; cbn [negb]; [|reflexivity].
  destruct (Hs eq_refl) as [-> [-> ->]].
  cbv beta iota. rewrite triple_eqb_refl. change (0 =? 0) with true. cbn [negb]. reflexivity.
Qed.

Corollary judge_textwrite_iff : forall rec fmt ty m n M bytes rc2 res rest,
  textwrite_input rec = Some ((fmt, ty, (m, n, M), bytes, rc2, res), rest) ->
  (judge_textwrite rec = 0 <-> textwrite_spec fmt ty m n M bytes rc2 res).
Proof.
  intros rec fmt ty m n M bytes rc2 res rest Hdec. split.
  - intros Hj Hfit. exact (judge_textwrite_sound _ _ _ _ _ _ _ _ _ _ Hdec Hj Hfit).
  - intros Hs. exact (judge_textwrite_complete _ _ _ _ _ _ _ _ _ _ Hdec Hs).
Qed.

Print Assumptions judge_textwrite_complete.
Print Assumptions judge_textwrite_iff.
