(* TuClosure.v -- closure properties of total unimodularity, at the level of the textbook
   definition TUmx and transported to the executable brute-force oracle tu_bf through tu_bfP.
   These are the facts the verdict relations of RelModel.judge_rel (V_TU position) rely on. *)
From Coq Require Import ZArith List.
From mathcomp Require Import all_ssreflect all_fingroup all_algebra.
From mathcomp Require Import ssrZ zify.
From Cmr Require Import Base Det BaseProofs PivotModel SpModel RelModel TuProofs.
Set Implicit Arguments. Unset Strict Implicit. Unset Printing Implicit Defensive.
Import GRing.Theory.
Local Open Scope ring_scope.
Import mathcomp.ssreflect.seq.
Delimit Scope nat_scope with N.

(* ========================================================================================== *)
(* 1. matrix-level closure lemmas                                                              *)
(* ========================================================================================== *)

Lemma small_mul (a b : Z) :
  a \in [:: -1; 0; 1] -> b \in [:: -1; 0; 1] -> a * b \in [:: -1; 0; 1].
Proof. by rewrite !inE => /or3P [] /eqP -> /or3P [] /eqP ->. Qed.

Lemma pm1_small (a : Z) : a \in [:: 1; -1] -> a \in [:: -1; 0; 1].
Proof. by rewrite !inE => /orP [] /eqP ->. Qed.

Lemma pm1_mul (a b : Z) : a \in [:: 1; -1] -> b \in [:: 1; -1] -> a * b \in [:: 1; -1].
Proof. by rewrite !inE => /orP [] /eqP -> /orP [] /eqP ->. Qed.

Lemma pm1_sqr (a : Z) : a \in [:: 1; -1] -> a * a = 1.
Proof. by rewrite !inE => /orP [] /eqP ->. Qed.

Lemma prod_pm1 (I : finType) (F : I -> Z) :
  (forall i, F i \in [:: 1; -1]) -> \prod_i F i \in [:: 1; -1].
Proof.
move=> H; apply: (big_ind (fun x : Z => x \in [:: 1; -1])) => //.
exact: pm1_mul.
Qed.

Lemma sign_small (k : nat) : (-1 : Z) ^+ k \in [:: -1; 0; 1].
Proof. by rewrite -signr_odd; case: (odd k). Qed.

Section MatrixLevel.
Variables (m n : nat).
Implicit Types (A : 'M[Z]_(m, n)).

Lemma TUmx_mxsub A m' n' (f : 'I_m' -> 'I_m) (g : 'I_n' -> 'I_n) :
  TUmx A -> TUmx (mxsub f g A).
Proof. by move=> TU k f' g'; rewrite -mxsub_comp; apply: TU. Qed.

Lemma TUmx_tr A : TUmx A -> TUmx A^T.
Proof. by move=> TU k f g; rewrite -trmx_mxsub det_tr; apply: TU. Qed.

(* a square matrix whose rows and columns are scaled by +-1 *)
Lemma det_scale k (d e : 'I_k -> Z) (B : 'M[Z]_k) :
  \det (\matrix_(i, j) (d i * e j * B i j)) = (\prod_i d i) * (\prod_j e j) * \det B.
Proof.
have -> : \matrix_(i, j) (d i * e j * B i j) =
          diag_mx (\row_i d i) *m B *m diag_mx (\row_j e j).
  rewrite mul_diag_mx mul_mx_diag; apply/matrixP => i j; rewrite !mxE.
  by rewrite mulrAC.
rewrite !det_mulmx !det_diag mulrAC; congr (_ * _ * _); apply: eq_bigr => i _;
  by rewrite mxE.
Qed.

Lemma TUmx_scale A (r : 'I_m -> Z) (c : 'I_n -> Z) :
  (forall i, r i \in [:: 1; -1]) -> (forall j, c j \in [:: 1; -1]) ->
  TUmx A -> TUmx (\matrix_(i, j) (r i * c j * A i j)).
Proof.
move=> Hr Hc TU k f g.
have -> : mxsub f g (\matrix_(i, j) (r i * c j * A i j)) =
          \matrix_(i, j) (r (f i) * c (g j) * (mxsub f g A) i j).
  by apply/matrixP => i j; rewrite !mxE.
rewrite det_scale; apply: small_mul; last exact: TU.
by apply: pm1_small; apply: pm1_mul; apply: prod_pm1.
Qed.

Lemma TUmx_scale_iff A (r : 'I_m -> Z) (c : 'I_n -> Z) :
  (forall i, r i \in [:: 1; -1]) -> (forall j, c j \in [:: 1; -1]) ->
  TUmx (\matrix_(i, j) (r i * c j * A i j)) <-> TUmx A.
Proof.
move=> Hr Hc; split; last exact: TUmx_scale.
move=> /(TUmx_scale Hr Hc).
set A' := (X in TUmx X); suff -> : A' = A by [].
apply/matrixP => i j; rewrite !mxE mulrA.
have -> : r i * c j * (r i * c j) = (r i * r i) * (c j * c j) by rewrite mulrACA.
by rewrite !pm1_sqr // !mul1r.
Qed.

(* index maps with right inverses (in particular permutations) *)
Lemma TUmx_mxsub_iff A (f f' : 'I_m -> 'I_m) (g g' : 'I_n -> 'I_n) :
  cancel f' f -> cancel g' g -> TUmx (mxsub f g A) <-> TUmx A.
Proof.
move=> fK gK; split; last exact: TUmx_mxsub.
move=> /(@TUmx_mxsub _ _ _ f' g').
rewrite -mxsub_comp.
set A' := (X in TUmx X); suff -> : A' = A by [].
by apply/matrixP => i j; rewrite !mxE /= fK gK.
Qed.

Lemma TUmx_inj_iff A (f : 'I_m -> 'I_m) (g : 'I_n -> 'I_n) :
  injective f -> injective g -> TUmx (mxsub f g A) <-> TUmx A.
Proof. by move=> fi gi; apply: (TUmx_mxsub_iff _ (f_invF fi) (f_invF gi)). Qed.

Lemma TUmx_perm_iff A (s : 'S_m) (t : 'S_n) : TUmx (mxsub s t A) <-> TUmx A.
Proof. by apply: TUmx_inj_iff; apply: perm_inj. Qed.

Lemma TUmx_row_perm_iff A (s : 'S_m) : TUmx (row_perm s A) <-> TUmx A.
Proof.
have -> : row_perm s A = mxsub s (1%g : 'S_n) A.
  by apply/matrixP => i j; rewrite !mxE perm1.
exact: TUmx_perm_iff.
Qed.

Lemma TUmx_col_perm_iff A (t : 'S_n) : TUmx (col_perm t A) <-> TUmx A.
Proof.
have -> : col_perm t A = mxsub (1%g : 'S_m) t A.
  by apply/matrixP => i j; rewrite !mxE perm1.
exact: TUmx_perm_iff.
Qed.

End MatrixLevel.

Lemma TUmx_tr_iff m n (A : 'M[Z]_(m, n)) : TUmx A^T <-> TUmx A.
Proof. by split; [move=> /TUmx_tr; rewrite trmxK | exact: TUmx_tr]. Qed.

(* ========================================================================================== *)
(* 2. list-level corollaries (the executable functions used by RelModel.judge_rel)             *)
(* ========================================================================================== *)

Lemma eqbE x y : Nat.eqb x y = (x == y).
Proof. by apply/idP/eqP => [/Nat.eqb_eq|/Nat.eqb_eq]. Qed.

Lemma memnE x l : memn x l = (x \in l).
Proof. by elim: l => //= y l ->; rewrite inE eqbE. Qed.

Lemma nodupnE l : nodupn l = uniq l.
Proof. by elim: l => //= x l ->; rewrite memnE. Qed.

Lemma get_submat (M : mat) rs cs i j : (i < size rs)%N -> (j < size cs)%N ->
  get (submat M rs cs) i j = get M (nth 0%N rs i) (nth 0%N cs j).
Proof. by move=> hi hj; rewrite getE /submat (nth_map 0%N) // (nth_map 0%N). Qed.

Lemma mx_of_submat m n (M : mat) k l rs cs (f : 'I_k -> 'I_m) (g : 'I_l -> 'I_n) :
  size rs = k -> size cs = l ->
  (forall i, val (f i) = nth 0%N rs i) -> (forall j, val (g j) = nth 0%N cs j) ->
  mx_of k l (submat M rs cs) = mxsub f g (mx_of m n M).
Proof.
move=> szr szc hf hg; apply/matrixP => i j.
by rewrite !mxE get_submat ?szr ?szc // hf hg.
Qed.

Lemma idx_map_inj m k (rs : seq nat) (f : 'I_k -> 'I_m) :
  size rs = k -> uniq rs -> (forall i, val (f i) = nth 0%N rs i) -> injective f.
Proof.
move=> sz un hf i j /(congr1 val); rewrite !hf => /eqP.
by rewrite nth_uniq ?sz // => /eqP /val_inj.
Qed.

(* submatrices (kind 5) *)
Theorem tu_bf_submat m n (M : mat) rs cs :
  all_lt m rs = true -> all_lt n cs = true -> tu_bf m n M = true ->
  tu_bf (length rs) (length cs) (submat M rs cs) = true.
Proof.
rewrite !all_ltE => ltr ltc /tu_bfP TU; apply/tu_bfP.
have [f hf] := idx_map (erefl (size rs)) ltr.
have [g hg] := idx_map (erefl (size cs)) ltc.
rewrite -[length rs]/(size rs) -[length cs]/(size cs).
by rewrite (mx_of_submat M (erefl _) (erefl _) hf hg); apply: TUmx_mxsub.
Qed.

(* row / column permutations (kind 1) *)
Theorem tu_bf_perm m n (M : mat) rp cp :
  is_perm_l m rp = true -> is_perm_l n cp = true ->
  tu_bf m n (submat M rp cp) = tu_bf m n M.
Proof.
rewrite /is_perm_l !all_ltE !nodupnE.
move=> /andP [/andP [/Nat.eqb_eq szr ltr] unr] /andP [/andP [/Nat.eqb_eq szc ltc] unc].
have [f hf] := idx_map szr ltr.
have [g hg] := idx_map szc ltc.
have fi := idx_map_inj szr unr hf.
have gi := idx_map_inj szc unc hg.
have E := mx_of_submat M szr szc hf hg.
by apply/tu_bfP/tu_bfP; rewrite E => /(TUmx_inj_iff _ fi gi).
Qed.

(* transposition (kind 3) *)
Lemma mx_of_transpose m n (M : mat) : mx_of n m (transpose m n M) = (mx_of m n M)^T.
Proof.
apply/matrixP => i j; rewrite !mxE /transpose get_mk_mat //; exact/ltP.
Qed.

Theorem tu_bf_transpose m n (M : mat) : tu_bf n m (transpose m n M) = tu_bf m n M.
Proof. by apply/tu_bfP/tu_bfP; rewrite mx_of_transpose => /TUmx_tr_iff. Qed.

(* scaling rows and columns by +-1 (kind 2) *)
Lemma is_pm1'P x : is_pm1' x = (x \in [:: 1; -1]).
Proof. by rewrite /is_pm1' !inE. Qed.

Lemma nthZ_pm1 (l : seq Z) i : forallb is_pm1' l = true -> (i < size l)%N ->
  nthZ l i \in [:: 1; -1].
Proof.
rewrite forallbE nthZE => /all_nthP H lt; rewrite -is_pm1'P; exact: H.
Qed.

Theorem tu_bf_scale m n (M : mat) (rs cs : list Z) :
  length rs = m -> length cs = n -> forallb is_pm1' rs = true -> forallb is_pm1' cs = true ->
  tu_bf m n (mk_mat m n (fun i j => Z.mul (Z.mul (nthZ rs i) (nthZ cs j)) (get M i j))) =
  tu_bf m n M.
Proof.
move=> szr szc pr pc.
have E : mx_of m n (mk_mat m n (fun i j => Z.mul (Z.mul (nthZ rs i) (nthZ cs j)) (get M i j))) =
  \matrix_(i < m, j < n) ((nthZ rs i) * (nthZ cs j) * (mx_of m n M) i j).
  by apply/matrixP => i j; rewrite !mxE get_mk_mat //; exact/ltP.
apply/tu_bfP/tu_bfP; rewrite E; apply TUmx_scale_iff => i; apply: nthZ_pm1 => //.
- by rewrite -[size rs]/(length rs) szr.
- by rewrite -[size cs]/(length cs) szc.
- by rewrite -[size rs]/(length rs) szr.
- by rewrite -[size cs]/(length cs) szc.
Qed.

(* ========================================================================================== *)
(* 3. adding a series-parallel-reducible line preserves total unimodularity (matrix level)     *)
(* ========================================================================================== *)

Section AddRow.
Variables (m n : nat) (A : 'M[Z]_(m.+1, n)) (i0 : 'I_m.+1).

Lemma row'_mxsub : row' i0 A = mxsub (lift i0) id A.
Proof. by apply/matrixP => i j; rewrite !mxE. Qed.

(* the converse direction of everything below *)
Lemma TUmx_row' : TUmx A -> TUmx (row' i0 A).
Proof. by rewrite row'_mxsub; apply: TUmx_mxsub. Qed.

Lemma avoid_row' k l (f : 'I_k -> 'I_m.+1) (g : 'I_l -> 'I_n) :
  (forall i, i0 != f i) ->
  exists f' : 'I_k -> 'I_m, mxsub f g A = mxsub f' g (row' i0 A).
Proof.
move=> H; exists (fun i => s2val (unlift_some (H i))).
apply/matrixP => i j; rewrite !mxE; congr (A _ _).
exact: (s2valP (unlift_some (H i))).
Qed.

Hypothesis TU' : TUmx (row' i0 A).

Lemma minor_small k (f : 'I_k -> 'I_m.+1) (g : 'I_k -> 'I_n) :
  (forall i, i0 != f i) -> \det (mxsub f g A) \in [:: -1; 0; 1].
Proof. by move=> /(avoid_row' g) [f' ->]; apply: TU'. Qed.

(* (a) the new row is zero *)
Theorem TUmx_add_zero_row : (forall j, A i0 j = 0) -> TUmx A.
Proof.
move=> hz k f g.
case: (boolP [exists k0, f k0 == i0]) => [/existsP [k0 /eqP fk0]|]; last first.
  rewrite negb_exists => /forallP H; apply: minor_small => i.
  by rewrite eq_sym.
case: k f g k0 fk0 => [|k] f g k0 fk0; first by case: (k0).
rewrite (expand_det_row _ k0) big1 ?inE ?eqxx ?orbT // => j _.
by rewrite !mxE fk0 hz mul0r.
Qed.

(* (b) the new row has at most one nonzero entry, and that entry is 0 or +-1 *)
Theorem TUmx_add_unit_row (j0 : 'I_n) :
  (forall j, j != j0 -> A i0 j = 0) -> A i0 j0 \in [:: -1; 0; 1] -> TUmx A.
Proof.
move=> hz hs k f g.
case: (not_inj_witness f) => [finj|[i1 [i2 [ne e]]]]; last first.
  rewrite (determinant_alternate ne) ?inE ?eqxx ?orbT // => j.
  by rewrite !mxE e.
case: (not_inj_witness g) => [ginj|[j1 [j2 [ne e]]]]; last first.
  rewrite -det_tr (determinant_alternate ne) ?inE ?eqxx ?orbT // => i.
  by rewrite !mxE e.
case: (boolP [exists k0, f k0 == i0]) => [/existsP [k0 /eqP fk0]|]; last first.
  rewrite negb_exists => /forallP H; apply: minor_small => i.
  by rewrite eq_sym.
case: k f g finj ginj k0 fk0 => [|k] f g finj ginj k0 fk0; first by case: (k0).
rewrite (expand_det_row _ k0).
case: (boolP [exists j1, g j1 == j0]) => [/existsP [j1 /eqP gj1]|]; last first.
  rewrite negb_exists => /forallP H.
  rewrite big1 ?inE ?eqxx ?orbT // => j _.
  by rewrite !mxE fk0 hz ?mul0r.
rewrite (bigD1 j1) //= big1 ?addr0; last first.
  move=> j ne; rewrite !mxE fk0 hz ?mul0r //.
  by apply: contra ne => /eqP e; apply/eqP; apply: ginj; rewrite gj1.
rewrite !mxE fk0 gj1 /cofactor; apply: small_mul => //.
apply: small_mul; first exact: sign_small.
have -> : row' k0 (col' j1 (mxsub f g A)) = mxsub (f \o lift k0) (g \o lift j1) A.
  by apply/matrixP => i j; rewrite !mxE.
apply: minor_small => i /=; rewrite -fk0.
apply/eqP => /finj e; have := neq_lift k0 i.
by rewrite -e eqxx.
Qed.

(* (c) the new row is +- a copy of another row *)
Theorem TUmx_add_copy_row (i1 : 'I_m.+1) (e : Z) :
  i1 != i0 -> e \in [:: 1; -1] -> (forall j, A i0 j = e * A i1 j) -> TUmx A.
Proof.
move=> ne he hrow k f g.
pose f2 i := if f i == i0 then i1 else f i.
pose d i := if f i == i0 then e else 1.
have -> : mxsub f g A = \matrix_(i, j) (d i * (fun=> 1) j * mxsub f2 g A i j).
  apply/matrixP => i j; rewrite !mxE /d /f2.
  by case: eqP => [->|_]; rewrite ?hrow ?mulr1 ?mul1r.
rewrite det_scale; apply: small_mul.
  apply: pm1_small; apply: pm1_mul; apply: prod_pm1 => i //.
  by rewrite /d; case: ifP.
apply: minor_small => i; rewrite /f2; case: ifPn => [_|]; by rewrite eq_sym.
Qed.

End AddRow.

Section AddCol.
Variables (m n : nat) (A : 'M[Z]_(m, n.+1)) (j0 : 'I_n.+1).

Lemma TUmx_col' : TUmx A -> TUmx (col' j0 A).
Proof. by move=> /TUmx_tr /(TUmx_row' j0); rewrite -tr_col' => /TUmx_tr_iff. Qed.

Hypothesis TU' : TUmx (col' j0 A).

Let TU'tr : TUmx (row' j0 A^T).
Proof. by rewrite -tr_col'; apply: TUmx_tr. Qed.

Theorem TUmx_add_zero_col : (forall i, A i j0 = 0) -> TUmx A.
Proof.
move=> hz; apply/TUmx_tr_iff; apply: (TUmx_add_zero_row TU'tr) => j.
by rewrite mxE.
Qed.

Theorem TUmx_add_unit_col (i1 : 'I_m) :
  (forall i, i != i1 -> A i j0 = 0) -> A i1 j0 \in [:: -1; 0; 1] -> TUmx A.
Proof.
move=> hz hs; apply/TUmx_tr_iff; apply: (@TUmx_add_unit_row _ _ _ _ TU'tr i1).
  by move=> j ne; rewrite mxE hz.
by rewrite mxE.
Qed.

Theorem TUmx_add_copy_col (j1 : 'I_n.+1) (e : Z) :
  j1 != j0 -> e \in [:: 1; -1] -> (forall i, A i j0 = e * A i j1) -> TUmx A.
Proof.
move=> ne he hcol; apply/TUmx_tr_iff; apply: (TUmx_add_copy_row TU'tr ne he) => i.
by rewrite !mxE.
Qed.

End AddCol.

(* ========================================================================================== *)
(* 3'. list-level: M' = M plus one SP-reducible line (kind 4 of RelModel.judge_rel)            *)
(* ========================================================================================== *)

Lemma existsbE A (p : A -> bool) (l : seq A) : existsb p l = has p l.
Proof. by []. Qed.

Lemma List_nthE A (l : seq A) i d : List.nth i l d = nth d l i.
Proof. by elim: l i => [|x l IH] [|i] /=. Qed.

Lemma live_list_all_true k : live_list (all_true k) = seq.iota 0 k.
Proof.
rewrite /live_list /all_true -[length _]/(size _) size_map iotaE size_iota.
apply/all_filterP/allP => i; rewrite mem_iota add0n /= => lt.
by rewrite /live List_nthE (nth_map 0%N) ?size_iota.
Qed.

Lemma count_nz0 (v : seq Z) : count_nz v = 0%N -> forall j, nth 0 v j = 0.
Proof.
elim: v => [|x v IH] /=; first by move=> _ j; rewrite nth_nil.
rewrite /count_nz /=; case E: (Z.eqb x 0) => //= /IH H [|j] //=.
by move/Z.eqb_eq: E.
Qed.

Lemma count_nz_le1 (v : seq Z) : (count_nz v <= 1)%N ->
  exists j0 : nat, forall j : nat, j != j0 -> nth 0 v j = 0.
Proof.
elim: v => [|x v IH] /=; first by move=> _; exists 0%N => j _; rewrite nth_nil.
rewrite /count_nz /=; case E: (Z.eqb x 0) => /=.
  move=> /IH [j0 H]; exists j0.+1 => -[|j] /=; first by move/Z.eqb_eq: E.
  by rewrite eqSS; apply: H.
rewrite ltnS leqn0 => /eqP /count_nz0 H; exists 0%N => -[|j] //= _.
Qed.

Lemma is_copy_trueP (v w : seq Z) : is_copy true v w = true ->
  exists2 e : Z, e \in [:: 1; -1] & v = [seq e * x | x <- w].
Proof.
rewrite /is_copy /vec_eq_scaled /= => /orP [] /zlist_eqb_eq ->.
  by exists 1.
by exists (-1).
Qed.

(* what "line k is reducible" means, for a family of lines F k = (F k 0, ..., F k (n-1)) *)
Lemma line_reducibleP (F : nat -> nat -> Z) (n mm k : nat) :
  Nat.leb (count_nz (map (F k) (seq.iota 0 n))) 1 ||
  existsb (fun r' => negb (Nat.eqb k r') &&
                     is_copy true (map (F k) (seq.iota 0 n)) (map (F r') (seq.iota 0 n)))
          (seq.iota 0 mm) = true ->
  (exists j0 : nat, forall j, (j < n)%N -> j != j0 -> F k j = 0) \/
  (exists r' e, [/\ (r' < mm)%N, r' != k, e \in [:: 1; -1] &
                    forall j, (j < n)%N -> F k j = e * F r' j]).
Proof.
case/orP => [/Nat.leb_le /leP /count_nz_le1 [j0 H]|].
  left; exists j0 => j lt /H.
  by rewrite (nth_map 0%N) ?size_iota // nth_iota.
rewrite existsbE => /hasP [r']; rewrite mem_iota add0n /= => lt /andP [].
rewrite eqbE => ne /is_copy_trueP [e he E].
right; exists r', e; split=> //; first by rewrite eq_sym.
move=> j ltj; have := congr1 (fun s => nth 0 s j) E.
rewrite (nth_map 0%N) ?size_iota // nth_iota // add0n => ->.
by rewrite -map_comp (nth_map 0%N) ?size_iota //= nth_iota.
Qed.

Lemma is_ternary_entryP x : is_ternary_entry x = (x \in [:: -1; 0; 1]).
Proof. by rewrite /is_ternary_entry !inE orbC orbA. Qed.

Lemma get_ternary (M : mat) i j : is_ternary M = true -> get M i j \in [:: -1; 0; 1].
Proof.
move=> H; rewrite -is_ternary_entryP /get; apply: nthZ_forallb => //.
exact: (nthR_forallb (forallb is_ternary_entry)).
Qed.

Lemma List_filterE A (p : A -> bool) (l : seq A) : List.filter p l = filter p l.
Proof. by []. Qed.

Lemma keep_lineE m d : (d <= m)%N ->
  keep_line m.+1 d = [seq bump d i | i <- seq.iota 0 m].
Proof.
move=> le; have [e ->] : exists e, m = (d + e)%N by exists (m - d)%N; lia.
rewrite /keep_line List_filterE iotaE -addnS !iotaD !add0n filter_cat map_cat /= eqbE eqxx /=.
congr (_ ++ _).
  have /all_filterP -> : all (fun i => ~~ Nat.eqb i d) (seq.iota 0 d).
    by apply/allP => i; rewrite mem_iota eqbE; lia.
  rewrite -[LHS]map_id; apply/eq_in_map => i; rewrite mem_iota /bump => lt.
  by have -> : (d <= i)%N = false by lia.
have /all_filterP -> : all (fun i => ~~ Nat.eqb i d) (seq.iota d.+1 e).
  by apply/allP => i; rewrite mem_iota eqbE; lia.
rewrite -add1n iotaDl; apply/eq_in_map => i; rewrite mem_iota /bump => lt.
by have -> : (d <= i)%N = true by lia.
Qed.

Lemma size_keep_line m d : (d <= m)%N -> size (keep_line m.+1 d) = m.
Proof. by move=> /keep_lineE ->; rewrite size_map size_iota. Qed.

Lemma nth_keep_line m d i : (d <= m)%N -> (i < m)%N -> nth 0%N (keep_line m.+1 d) i = bump d i.
Proof. by move=> /keep_lineE -> lt; rewrite (nth_map 0%N) ?size_iota // nth_iota. Qed.

Lemma mx_of_drop_row m n (M : mat) (i0 : 'I_m.+1) :
  mx_of m n (submat M (keep_line m.+1 i0) (Base.iota 0 n)) = row' i0 (mx_of m.+1 n M).
Proof.
have le : (i0 <= m)%N by rewrite -ltnS.
apply/matrixP => i j; rewrite !mxE get_submat ?size_keep_line ?iotaE ?size_iota //.
by rewrite nth_keep_line // nth_iota.
Qed.

Lemma mx_of_drop_col m n (M : mat) (j0 : 'I_n.+1) :
  mx_of m n (submat M (Base.iota 0 m) (keep_line n.+1 j0)) = col' j0 (mx_of m n.+1 M).
Proof.
have le : (j0 <= n)%N by rewrite -ltnS.
apply/matrixP => i j; rewrite !mxE get_submat ?size_keep_line ?iotaE ?size_iota //.
by rewrite nth_keep_line // nth_iota.
Qed.

(* NOTE the hypothesis that line k is ternary: row_reducible only counts nonzeros, so a line
   (2,0,..,0) is "reducible" but destroys total unimodularity. *)
Theorem tu_bf_add_row m n (M' : mat) k : (k < m.+1)%N ->
  (forall j, (j < n)%N -> is_ternary_entry (get M' k j) = true) ->
  row_reducible true M' (all_true m.+1) (all_true n) k = true ->
  tu_bf m.+1 n M' = tu_bf m n (submat M' (keep_line m.+1 k) (Base.iota 0 n)).
Proof.
move=> lt tern; rewrite /row_reducible /row_live !live_list_all_true.
move=> /(@line_reducibleP (fun r c => get M' r c)) red.
pose i0 := Ordinal lt.
have -> : keep_line m.+1 k = keep_line m.+1 i0 by [].
apply/tu_bfP/tu_bfP; rewrite mx_of_drop_row; first exact: TUmx_row'.
move=> TU'; case: red => [[j0 H]|[r' [e [ltr ne he H]]]].
- case: (ltnP j0 n) => ltj.
    apply: (@TUmx_add_unit_row _ _ _ i0 TU' (Ordinal ltj)) => [j nej|].
      by rewrite !mxE; apply: H.
    by rewrite mxE -is_ternary_entryP; apply: tern.
  apply: (TUmx_add_zero_row TU') => j; rewrite mxE; apply: H => //.
  by apply/eqP => e; move: ltj; rewrite -e leqNgt ltn_ord.
- apply: (@TUmx_add_copy_row _ _ _ i0 TU' (Ordinal ltr) e) => // j.
  by rewrite !mxE; apply: H.
Qed.

Theorem tu_bf_add_col m n (M' : mat) k : (k < n.+1)%N ->
  (forall i, (i < m)%N -> is_ternary_entry (get M' i k) = true) ->
  col_reducible true M' (all_true m) (all_true n.+1) k = true ->
  tu_bf m n.+1 M' = tu_bf m n (submat M' (Base.iota 0 m) (keep_line n.+1 k)).
Proof.
move=> lt tern; rewrite /col_reducible /col_live !live_list_all_true.
move=> /(@line_reducibleP (fun c r => get M' r c)) red.
pose j0 := Ordinal lt.
have -> : keep_line n.+1 k = keep_line n.+1 j0 by [].
apply/tu_bfP/tu_bfP; rewrite mx_of_drop_col; first exact: TUmx_col'.
move=> TU'; case: red => [[i1 H]|[c' [e [ltc ne he H]]]].
- case: (ltnP i1 m) => lti.
    apply: (@TUmx_add_unit_col _ _ _ j0 TU' (Ordinal lti)) => [i nei|].
      by rewrite !mxE; apply: H.
    by rewrite mxE -is_ternary_entryP; apply: tern.
  apply: (TUmx_add_zero_col TU') => i; rewrite mxE; apply: H => //.
  by apply/eqP => e; move: lti; rewrite -e leqNgt ltn_ord.
- apply: (@TUmx_add_copy_col _ _ _ j0 TU' (Ordinal ltc) e) => // i.
  by rewrite !mxE; apply: H.
Qed.

(* in the exact shape used by judge_rel (kind 4): M' is m' x n', line k of kind isr is reducible,
   `back` is M' without that line *)
Theorem tu_bf_add_line m' n' (M' : mat) (isr : bool) k :
  is_ternary M' = true ->
  (if isr then Nat.ltb k m' else Nat.ltb k n') = true ->
  line_reducible true m' n' M' isr k = true ->
  tu_bf m' n' M' =
  if isr then tu_bf (m' - 1) n' (submat M' (keep_line m' k) (Base.iota 0 n'))
  else tu_bf m' (n' - 1) (submat M' (Base.iota 0 m') (keep_line n' k)).
Proof.
move=> tern; rewrite /line_reducible; case: isr; rewrite ltbE.
- case: m' => // m lt red; rewrite subn1 /=; apply: tu_bf_add_row => // j _.
  by rewrite is_ternary_entryP; apply: get_ternary.
- case: n' => // n lt red; rewrite subn1 /=; apply: tu_bf_add_col => // i _.
  by rewrite is_ternary_entryP; apply: get_ternary.
Qed.

(* ========================================================================================== *)
(* 4. 1-sums: a block-diagonal matrix with TU blocks is TU                                     *)
(* ========================================================================================== *)

(* an increasing index map into 'I_mm meets [0, m1) in an initial segment of its domain *)
Lemma inc_split k mm (f : 'I_k -> 'I_mm) m1 :
  (forall i j : 'I_k, (i < j)%N -> (f i < f j)%N) ->
  exists2 a, (a <= k)%N & forall i : 'I_k, (f i < m1)%N = (i < a)%N.
Proof.
move=> finc.
pose P x := (x <= k)%N && [forall i : 'I_k, (x <= i)%N ==> (m1 <= f i)%N].
have exP : exists x, P x.
  exists k; rewrite /P leqnn /=; apply/forallP => i.
  by rewrite leqNgt ltn_ord.
case: (ex_minnP exP) => a /andP [ak /forallP Ha] amin.
exists a => // i; case: (ltnP i a) => [lt|le]; last first.
  by have /implyP /(_ le) := Ha i; rewrite leqNgt => /negbTE.
rewrite ltnNge; apply/negP => ge.
have /amin : P i.
  rewrite /P (ltnW (ltn_ord i)) /=; apply/forallP => j; apply/implyP.
  rewrite leq_eqVlt => /orP [/eqP e|/finc lt'].
    by have <- : i = j by apply: val_inj.
  by apply: leq_trans ge (ltnW lt').
by rewrite leqNgt lt.
Qed.

(* pigeonhole: a rows supported on fewer than a columns => determinant 0 *)
Lemma det0_pigeon k (S : 'M[Z]_k) a c : (c < a)%N -> (a <= k)%N ->
  (forall i j : 'I_k, (i < a)%N -> (c <= j)%N -> S i j = 0) -> \det S = 0.
Proof.
move=> ca ak H; rewrite /determinant big1 // => s _.
case: (boolP [forall i : 'I_k, (i < a)%N ==> (s i < c)%N]) => [/forallP Hs|].
  have Hs' (i : 'I_a) : (s (widen_ord ak i) < c)%N.
    by have /implyP := Hs (widen_ord ak i); apply => /=.
  pose h (i : 'I_a) : 'I_c := Ordinal (Hs' i).
  have hinj : injective h.
    move=> i j /(congr1 val) /= /val_inj /perm_inj /(congr1 val) /= e.
    exact: val_inj.
  by have := leq_card h hinj; rewrite !card_ord leqNgt ca.
rewrite negb_forall => /existsP [i]; rewrite negb_imply -leqNgt => /andP [ia cs].
by rewrite (bigD1 i) //= H // mul0r mulr0.
Qed.

Section BlockDiag.
Variables (m1 n1 m2 n2 : nat) (A : 'M[Z]_(m1, n1)) (B : 'M[Z]_(m2, n2)).
Let C : 'M[Z]_(m1 + m2, n1 + n2) := block_mx A 0 0 B.

Lemma bd_ul (x : 'I_(m1 + m2)) (y : 'I_(n1 + n2)) (hx : (x < m1)%N) (hy : (y < n1)%N) :
  C x y = A (Ordinal hx) (Ordinal hy).
Proof.
rewrite /C /block_mx !mxE; case: splitP => x' ex; last by lia.
rewrite !mxE; case: splitP => y' ey; last by lia.
by congr (A _ _); apply: val_inj.
Qed.

Lemma bd_ur (x : 'I_(m1 + m2)) (y : 'I_(n1 + n2)) : (x < m1)%N -> (n1 <= y)%N -> C x y = 0.
Proof.
move=> hx hy; rewrite /C /block_mx !mxE; case: splitP => x' ex; last by lia.
by rewrite !mxE; case: splitP => y' ey; [have := ltn_ord y'; lia | rewrite mxE].
Qed.

Lemma bd_dl (x : 'I_(m1 + m2)) (y : 'I_(n1 + n2)) : (m1 <= x)%N -> (y < n1)%N -> C x y = 0.
Proof.
move=> hx hy; rewrite /C /block_mx !mxE; case: splitP => x' ex.
  by have := ltn_ord x'; lia.
by rewrite !mxE; case: splitP => y' ey; [rewrite mxE | lia].
Qed.

Lemma bd_dr (x : 'I_(m1 + m2)) (y : 'I_(n1 + n2))
  (hx : (x - m1 < m2)%N) (hy : (y - n1 < n2)%N) :
  (m1 <= x)%N -> (n1 <= y)%N -> C x y = B (Ordinal hx) (Ordinal hy).
Proof.
move=> lx ly; rewrite /C /block_mx !mxE; case: splitP => x' ex.
  by have := ltn_ord x'; lia.
rewrite !mxE; case: splitP => y' ey; first by have := ltn_ord y'; lia.
by congr (B _ _); apply: val_inj => /=; lia.
Qed.

Hypotheses (TA : TUmx A) (TB : TUmx B).

(* both index maps split at the same position a *)
Lemma block_core a b (f : 'I_(a + b) -> 'I_(m1 + m2)) (g : 'I_(a + b) -> 'I_(n1 + n2)) :
  (forall i, (f i < m1)%N = (i < a)%N) -> (forall j, (g j < n1)%N = (j < a)%N) ->
  \det (mxsub f g C) \in [:: -1; 0; 1].
Proof.
move=> Hf Hg.
have fa_lt (i : 'I_a) : (f (lshift b i) < m1)%N by rewrite Hf /=.
have ga_lt (j : 'I_a) : (g (lshift b j) < n1)%N by rewrite Hg /=.
have fb_ge (i : 'I_b) : (m1 <= f (rshift a i))%N by rewrite leqNgt Hf /= -leqNgt leq_addr.
have gb_ge (j : 'I_b) : (n1 <= g (rshift a j))%N by rewrite leqNgt Hg /= -leqNgt leq_addr.
have fb_lt (i : 'I_b) : (f (rshift a i) - m1 < m2)%N.
  by have := ltn_ord (f (rshift a i)); have := fb_ge i; lia.
have gb_lt (j : 'I_b) : (g (rshift a j) - n1 < n2)%N.
  by have := ltn_ord (g (rshift a j)); have := gb_ge j; lia.
pose fa i := Ordinal (fa_lt i). pose ga j := Ordinal (ga_lt j).
pose fb i := Ordinal (fb_lt i). pose gb j := Ordinal (gb_lt j).
have -> : mxsub f g C = block_mx (mxsub fa ga A) 0 0 (mxsub fb gb B).
  apply/matrixP => i j; rewrite -[i]splitK -[j]splitK.
  case: (fintype.split i) => i'; case: (fintype.split j) => j' /=.
  - by rewrite block_mxEul [LHS]mxE [RHS]mxE; apply: bd_ul.
  - by rewrite block_mxEur [LHS]mxE [RHS]mxE; apply: bd_ur.
  - by rewrite block_mxEdl [LHS]mxE [RHS]mxE; apply: bd_dl.
  - by rewrite block_mxEdr [LHS]mxE [RHS]mxE; apply: bd_dr.
by rewrite det_ublock; apply: small_mul; [apply: TA | apply: TB].
Qed.

Lemma block_inc k (f : 'I_k -> 'I_(m1 + m2)) (g : 'I_k -> 'I_(n1 + n2)) :
  (forall i j : 'I_k, (i < j)%N -> (f i < f j)%N) ->
  (forall i j : 'I_k, (i < j)%N -> (g i < g j)%N) ->
  \det (mxsub f g C) \in [:: -1; 0; 1].
Proof.
move=> finc ginc.
have [a ak Ha] := inc_split m1 finc.
have [c ck Hc] := inc_split n1 ginc.
case: (ltngtP a c) => [ac|ca|eac].
- (* more columns than rows in the A part: look at the transpose *)
  rewrite -det_tr (@det0_pigeon _ _ c a) ?inE ?eqxx ?orbT // => j i jc ai.
  by do 2!rewrite [LHS]mxE; apply: bd_dl; rewrite ?Hc // leqNgt Ha -leqNgt.
- rewrite (@det0_pigeon _ _ a c) ?inE ?eqxx ?orbT // => i j ia cj.
  by rewrite [LHS]mxE; apply: bd_ur; rewrite ?Ha // leqNgt Hc -leqNgt.
- move: Hc; rewrite -eac => {c ck eac} Hc.
  have e : k = (a + (k - a))%N by lia.
  move: (k - a)%N e => b e; move: f g finc ginc Ha Hc {ak}; rewrite e => f g _ _.
  exact: block_core.
Qed.

Theorem TUmx_block_diag : TUmx (block_mx A 0 0 B).
Proof.
move=> k f g.
case: (not_inj_witness f) => [finj|[i1 [i2 [ne e]]]]; last first.
  rewrite (determinant_alternate ne) ?inE ?eqxx ?orbT // => j.
  by rewrite !mxE e.
case: (not_inj_witness g) => [ginj|[j1 [j2 [ne e]]]]; last first.
  rewrite -det_tr (determinant_alternate ne) ?inE ?eqxx ?orbT // => i.
  by rewrite !mxE e.
have [s [f' [finc fE]]] := inj_factor finj.
have [t [g' [ginc gE]]] := inj_factor ginj.
have -> : mxsub f g (block_mx A 0 0 B) = row_perm s (col_perm t (mxsub f' g' C)).
  by apply/matrixP => i j; rewrite !mxE fE gE.
rewrite det_row_perm det_col_perm; do 2!apply: small_sign.
exact: block_inc.
Qed.

End BlockDiag.

Theorem TUmx_block_diag_iff m1 n1 m2 n2 (A : 'M[Z]_(m1, n1)) (B : 'M[Z]_(m2, n2)) :
  TUmx (block_mx A 0 0 B) <-> TUmx A /\ TUmx B.
Proof.
split=> [TU|[TA TB]]; last exact: TUmx_block_diag.
split.
- have -> : A = mxsub (lshift m2) (lshift n2) (block_mx A 0 0 B).
    by apply/matrixP => i j; rewrite mxE block_mxEul.
  exact: TUmx_mxsub.
- have -> : B = mxsub (@rshift m1 m2) (@rshift n1 n2) (block_mx A 0 0 B).
    by apply/matrixP => i j; rewrite mxE block_mxEdr.
  exact: TUmx_mxsub.
Qed.

Print Assumptions TUmx_mxsub.
Print Assumptions TUmx_tr_iff.
Print Assumptions TUmx_scale_iff.
Print Assumptions TUmx_perm_iff.
Print Assumptions tu_bf_perm.
Print Assumptions tu_bf_transpose.
Print Assumptions tu_bf_scale.
Print Assumptions tu_bf_submat.
Print Assumptions TUmx_add_zero_row.
Print Assumptions TUmx_add_unit_row.
Print Assumptions TUmx_add_copy_row.
Print Assumptions TUmx_add_zero_col.
Print Assumptions TUmx_add_unit_col.
Print Assumptions TUmx_add_copy_col.
Print Assumptions tu_bf_add_row.
Print Assumptions tu_bf_add_col.
Print Assumptions tu_bf_add_line.
Print Assumptions TUmx_block_diag.
Print Assumptions TUmx_block_diag_iff.
