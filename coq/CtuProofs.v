(* CtuProofs.v — the complement model equals its definition (doc/ctu.md); judge soundness. *)
From Cmr Require Import Base Det CtuModel BaseProofs.
Local Open Scope Z_scope.

(* ------------------------------------------------------------------------------------------ *)
(* Tactics for the entry-wise case analyses                                                     *)
(* ------------------------------------------------------------------------------------------ *)

(* decide a = b on naturals; rewrite the boolean tests (both orientations) accordingly *)
Ltac case_eqb a b :=
  let E := fresh "E" in
  destruct (Nat.eqb_spec a b) as [E|E];
  [ subst; rewrite ?Nat.eqb_refl
  | rewrite ?(proj2 (Nat.eqb_neq a b)) by exact E;
    rewrite ?(proj2 (Nat.eqb_neq b a)) by (intro; apply E; congruence);
    rewrite ?Nat.eqb_refl ].

(* replace every entry [get M a b] of the binary matrix by 0 or 1 *)
Ltac bin_gets HB :=
  repeat match goal with
  | |- context [get ?M ?a ?b] =>
      let E := fresh "G" in destruct (get_binary M a b HB) as [E|E]; rewrite E
  end.

Ltac unfold_entry := cbv beta zeta iota delta [complement_entry oget is_some_eq].

(* ------------------------------------------------------------------------------------------ *)
(* 2./3. The entry-wise rule equals the definition                                              *)
(* ------------------------------------------------------------------------------------------ *)

Lemma complement_model_wf : forall m n M r c, wf_mat m n (complement_model m n M r c) = true.
Proof. intros. apply wf_mk_mat. Qed.

Lemma row_compl_wf : forall m n M i, wf_mat m n (row_compl m n M i) = true.
Proof. intros. apply wf_mk_mat. Qed.

Lemma col_compl_wf : forall m n M j, wf_mat m n (col_compl m n M j) = true.
Proof. intros. apply wf_mk_mat. Qed.

Lemma opt_row_compl_wf : forall m n M r, wf_mat m n (opt_row_compl m n M r) = true.
Proof. intros m n M [i|]; apply wf_mk_mat. Qed.

Lemma opt_col_compl_wf : forall m n M c, wf_mat m n (opt_col_compl m n M c) = true.
Proof. intros m n M [j|]; apply wf_mk_mat. Qed.

Lemma complement_spec_wf : forall m n M r c, wf_mat m n (complement_spec m n M r c) = true.
Proof. intros. apply opt_col_compl_wf. Qed.

Lemma get_complement_model : forall m n M r c i j,
  (i < m)%nat -> (j < n)%nat ->
  get (complement_model m n M r c) i j = complement_entry M r c i j.
Proof. intros. unfold complement_model. now apply get_mk_mat. Qed.

Lemma get_row_compl : forall m n M R i j, (i < m)%nat -> (j < n)%nat ->
  get (row_compl m n M R) i j
  = if Nat.eqb i R then get M i j else xorz (get M i j) (get M R j).
Proof. intros. unfold row_compl. now rewrite get_mk_mat. Qed.

Lemma get_col_compl : forall m n M C i j, (i < m)%nat -> (j < n)%nat ->
  get (col_compl m n M C) i j
  = if Nat.eqb j C then get M i j else xorz (get M i j) (get M i C).
Proof. intros. unfold col_compl. now rewrite get_mk_mat. Qed.

Lemma get_opt_row_compl_None : forall m n M i j, (i < m)%nat -> (j < n)%nat ->
  get (opt_row_compl m n M None) i j = get M i j.
Proof. intros. unfold opt_row_compl. now rewrite get_mk_mat. Qed.

Lemma get_opt_col_compl_None : forall m n M i j, (i < m)%nat -> (j < n)%nat ->
  get (opt_col_compl m n M None) i j = get M i j.
Proof. intros. unfold opt_col_compl. now rewrite get_mk_mat. Qed.

Lemma opt_lt_Some : forall a k, opt_lt (Some a) k = true -> (a < k)%nat.
Proof. intros a k H. simpl in H. now apply Nat.ltb_lt. Qed.

Theorem complement_model_eq_spec : forall m n M r c,
  wf_mat m n M = true -> is_binary M = true -> opt_lt r m = true -> opt_lt c n = true ->
  complement_model m n M r c = complement_spec m n M r c.
Proof.
  intros m n M r c HW HB Hr Hc.
  apply (mat_ext m n); [apply complement_model_wf | apply complement_spec_wf |].
  intros i j Hi Hj. rewrite get_complement_model by assumption.
  unfold complement_spec.
  destruct r as [R|]; destruct c as [C|].
  - apply opt_lt_Some in Hr. apply opt_lt_Some in Hc.
    cbn [opt_row_compl opt_col_compl].
    rewrite get_col_compl by assumption. rewrite !get_row_compl by assumption.
    unfold_entry.
    case_eqb R i; case_eqb C j; bin_gets HB; reflexivity.
  - apply opt_lt_Some in Hr.
    rewrite get_opt_col_compl_None by assumption.
    cbn [opt_row_compl]. rewrite get_row_compl by assumption.
    unfold_entry.
    case_eqb R i; bin_gets HB; reflexivity.
  - apply opt_lt_Some in Hc.
    cbn [opt_col_compl]. rewrite get_col_compl by assumption.
    rewrite !get_opt_row_compl_None by assumption.
    unfold_entry.
    case_eqb C j; bin_gets HB; reflexivity.
  - rewrite get_opt_col_compl_None by assumption.
    rewrite get_opt_row_compl_None by assumption.
    unfold_entry. reflexivity.
Qed.

Lemma complement_entry_binary : forall M r c i j,
  is_binary M = true -> complement_entry M r c i j = 0 \/ complement_entry M r c i j = 1.
Proof.
  intros M r c i j HB. unfold_entry.
  destruct r as [R|]; destruct c as [C|].
  - destruct (Nat.eqb R i); destruct (Nat.eqb C j); bin_gets HB; vm_compute; auto.
  - destruct (Nat.eqb R i); bin_gets HB; vm_compute; auto.
  - destruct (Nat.eqb C j); bin_gets HB; vm_compute; auto.
  - bin_gets HB; vm_compute; auto.
Qed.

Theorem complement_model_binary : forall m n M r c,
  is_binary M = true -> is_binary (complement_model m n M r c) = true.
Proof.
  intros m n M r c HB. unfold complement_model. apply is_binary_mk_mat.
  intros i j. now apply complement_entry_binary.
Qed.

Corollary complement_spec_binary : forall m n M r c,
  wf_mat m n M = true -> is_binary M = true -> opt_lt r m = true -> opt_lt c n = true ->
  is_binary (complement_spec m n M r c) = true.
Proof.
  intros. rewrite <- complement_model_eq_spec by assumption. now apply complement_model_binary.
Qed.

(* ------------------------------------------------------------------------------------------ *)
(* 4. Involution                                                                                *)
(* ------------------------------------------------------------------------------------------ *)

Theorem complement_involution : forall m n M r c,
  wf_mat m n M = true -> is_binary M = true -> opt_lt r m = true -> opt_lt c n = true ->
  complement_model m n (complement_model m n M r c) r c = M.
Proof.
  intros m n M r c HW HB Hr Hc.
  apply (mat_ext m n); [apply complement_model_wf | assumption |].
  intros i j Hi Hj. rewrite get_complement_model by assumption.
  destruct r as [R|]; destruct c as [C|].
  - apply opt_lt_Some in Hr. apply opt_lt_Some in Hc.
    unfold complement_entry at 1. unfold oget, is_some_eq.
    rewrite !get_complement_model by assumption.
    unfold_entry.
    case_eqb R i; case_eqb C j; bin_gets HB; reflexivity.
  - apply opt_lt_Some in Hr.
    unfold complement_entry at 1. unfold oget, is_some_eq.
    rewrite !get_complement_model by assumption.
    unfold_entry.
    case_eqb R i; bin_gets HB; reflexivity.
  - apply opt_lt_Some in Hc.
    unfold complement_entry at 1. unfold oget, is_some_eq.
    rewrite !get_complement_model by assumption.
    unfold_entry.
    case_eqb C j; bin_gets HB; reflexivity.
  - unfold complement_entry at 1. unfold oget, is_some_eq.
    rewrite !get_complement_model by assumption.
    unfold_entry. reflexivity.
Qed.

Corollary complement_spec_involution : forall m n M r c,
  wf_mat m n M = true -> is_binary M = true -> opt_lt r m = true -> opt_lt c n = true ->
  complement_spec m n (complement_spec m n M r c) r c = M.
Proof.
  intros m n M r c HW HB Hr Hc.
  rewrite <- (complement_model_eq_spec m n M r c) by assumption.
  rewrite <- complement_model_eq_spec;
    [ now apply complement_involution | apply complement_model_wf
    | now apply complement_model_binary | assumption | assumption ].
Qed.

(* ------------------------------------------------------------------------------------------ *)
(* 5. Row and column complements commute                                                        *)
(* ------------------------------------------------------------------------------------------ *)

Theorem complement_rc_commute : forall m n M r c,
  wf_mat m n M = true -> is_binary M = true -> opt_lt r m = true -> opt_lt c n = true ->
  complement_spec m n M r c = opt_row_compl m n (opt_col_compl m n M c) r.
Proof.
  intros m n M r c HW HB Hr Hc.
  apply (mat_ext m n); [apply complement_spec_wf | apply opt_row_compl_wf |].
  intros i j Hi Hj. unfold complement_spec.
  destruct r as [R|]; destruct c as [C|].
  - apply opt_lt_Some in Hr. apply opt_lt_Some in Hc.
    cbn [opt_row_compl opt_col_compl].
    rewrite get_col_compl by assumption. rewrite !get_row_compl by assumption.
    rewrite !get_col_compl by assumption.
    case_eqb i R; case_eqb j C; bin_gets HB; reflexivity.
  - apply opt_lt_Some in Hr.
    rewrite get_opt_col_compl_None by assumption.
    cbn [opt_row_compl]. rewrite !get_row_compl by assumption.
    rewrite !get_opt_col_compl_None by assumption.
    reflexivity.
  - apply opt_lt_Some in Hc.
    rewrite get_opt_row_compl_None by assumption.
    cbn [opt_col_compl]. rewrite !get_col_compl by assumption.
    rewrite !get_opt_row_compl_None by assumption.
    reflexivity.
  - rewrite get_opt_col_compl_None by assumption.
    rewrite !get_opt_row_compl_None by assumption.
    rewrite get_opt_col_compl_None by assumption.
    reflexivity.
Qed.

(* ------------------------------------------------------------------------------------------ *)
(* 6. Soundness of the judge                                                                    *)
(* ------------------------------------------------------------------------------------------ *)

Lemma ctu_compl_input_wf : forall rec m n M r c rc rest,
  ctu_compl_input rec = Some ((m, n, M, r, c, rc), rest) -> wf_mat m n M = true.
Proof.
  intros rec m n M r c rc rest H. unfold ctu_compl_input, dbind in H.
  destruct (dmat rec) as [[[[m' n'] M'] r1]|] eqn:E; [|discriminate].
  destruct (dopt r1) as [[r' r2]|]; [|discriminate].
  destruct (dopt r2) as [[c' r3]|]; [|discriminate].
  destruct (dZ r3) as [[rc' r4]|]; [|discriminate].
  unfold dret in H. inversion H; subst. eapply dmat_wf; exact E.
Qed.

(* If the judge accepts (returns 0 on) a record whose input part decodes to an in-domain
   (M, r, c), then the recorded return code is 0 and the rest of the record is exactly one CSR
   matrix that satisfies the library invariant, has the shape of M, and whose dense form is the
   DEFINITION complement_spec. *)
Theorem judge_ctu_compl_sound : forall m n M r c rc rest,
  wf_mat m n M = true -> is_binary M = true -> opt_lt r m = true -> opt_lt c n = true ->
  forall rec,
  (x <- dmat ;; r <- dopt ;; c <- dopt ;; rc <- dZ ;; dret (x, r, c, rc)) rec
    = Some ((m, n, M, r, c, rc), rest) ->
  judge_ctu_compl rec = 0 ->
  rc = 0 /\
  exists s, dcsr rest = Some (s, []) /\ csr_wf s = true /\ c_rows s = m /\ c_cols s = n /\
            dense_of_csr s = complement_spec m n M r c.
Proof.
  intros m n M r c rc rest HW HB Hr Hc rec HD HJ.
  unfold judge_ctu_compl in HJ. rewrite HD in HJ. cbv beta iota in HJ.
  rewrite HB, Hr, Hc in HJ. cbn [andb negb] in HJ.
  destruct (Z.eqb_spec rc 0) as [Hrc|Hrc]; cbn [negb] in HJ; [|discriminate].
  split; [exact Hrc|].
  unfold dbind, dcsr_dense in HJ.
  destruct (dcsr rest) as [[s rest']|] eqn:Ecsr; [|discriminate].
  destruct (csr_wf s) eqn:Ewf; [|discriminate].
  unfold dend in HJ.
  destruct rest' as [|z rest']; [|discriminate].
  destruct (Nat.eqb_spec m (c_rows s)) as [Em|Em]; cbn [andb negb] in HJ; [|discriminate].
  destruct (Nat.eqb_spec n (c_cols s)) as [En|En]; cbn [andb negb] in HJ; [|discriminate].
  destruct (mat_eqb (dense_of_csr s) (complement_model m n M r c)) eqn:Eeq; [|discriminate].
  apply mat_eqb_eq in Eeq.
  exists s. repeat split; auto.
  rewrite Eeq. now apply complement_model_eq_spec.
Qed.

(* the same without the well-formedness hypothesis: the decoder guarantees it *)
Corollary judge_ctu_compl_sound' : forall m n M r c rc rest rec,
  ctu_compl_input rec = Some ((m, n, M, r, c, rc), rest) ->
  is_binary M = true -> opt_lt r m = true -> opt_lt c n = true ->
  judge_ctu_compl rec = 0 ->
  rc = 0 /\
  exists s, dcsr rest = Some (s, []) /\ csr_wf s = true /\ c_rows s = m /\ c_cols s = n /\
            dense_of_csr s = complement_spec m n M r c.
Proof.
  intros m n M r c rc rest rec HD HB Hr Hc HJ.
  pose proof (ctu_compl_input_wf _ _ _ _ _ _ _ _ HD) as HW.
  exact (judge_ctu_compl_sound m n M r c rc rest HW HB Hr Hc rec HD HJ).
Qed.

(* in terms of dcsr_dense, the decoder the judge itself uses *)
Corollary judge_ctu_compl_sound_dense : forall m n M r c rc rest rec,
  ctu_compl_input rec = Some ((m, n, M, r, c, rc), rest) ->
  is_binary M = true -> opt_lt r m = true -> opt_lt c n = true ->
  judge_ctu_compl rec = 0 ->
  rc = 0 /\ dcsr_dense rest = Some ((m, n, complement_spec m n M r c), []).
Proof.
  intros m n M r c rc rest rec HD HB Hr Hc HJ.
  destruct (judge_ctu_compl_sound' _ _ _ _ _ _ _ _ HD HB Hr Hc HJ)
    as [Hrc [s [Es [Ewf [Em [En Ed]]]]]].
  split; [exact Hrc|]. unfold dcsr_dense. rewrite Es, Ewf, Em, En, Ed. reflexivity.
Qed.

(* ------------------------------------------------------------------------------------------ *)
(* 7. Non-vacuity                                                                               *)
(* ------------------------------------------------------------------------------------------ *)

Example complement_model_ex :
  complement_model 2 2 [[1;1];[1;1]] (Some 0%nat) (Some 0%nat) = [[1;0];[0;0]].
Proof. vm_compute. reflexivity. Qed.

Example complement_spec_ex :
  complement_spec 2 2 [[1;1];[1;1]] (Some 0%nat) (Some 0%nat) = [[1;0];[0;0]].
Proof. vm_compute. reflexivity. Qed.

Definition ex_record : list Z := [2;2;1;1;1;1;0;0;0;  2;2;1; 0;1;1; 0; 1].

Example ex_record_decodes :
  ctu_compl_input ex_record
  = Some ((2%nat, 2%nat, [[1;1];[1;1]], Some 0%nat, Some 0%nat, 0), [2;2;1;0;1;1;0;1]).
Proof. vm_compute. reflexivity. Qed.

Example ex_record_in_domain :
  is_binary [[1;1];[1;1]] = true /\ opt_lt (Some 0%nat) 2 = true /\ opt_lt (Some 0%nat) 2 = true.
Proof. vm_compute. auto. Qed.

Example ex_record_accepted : judge_ctu_compl ex_record = 0.
Proof. vm_compute. reflexivity. Qed.

(* the judge is not trivially accepting: a wrong result matrix is rejected with code 12,
   a nonzero return code with code 10 *)
Example ex_record_wrong_rejected :
  judge_ctu_compl [2;2;1;1;1;1;0;0;0;  2;2;1; 0;1;1; 1; 1] = 12.
Proof. vm_compute. reflexivity. Qed.

Example ex_record_rc_rejected :
  judge_ctu_compl [2;2;1;1;1;1;0;0;1;  2;2;1; 0;1;1; 0; 1] = 10.
Proof. vm_compute. reflexivity. Qed.

Print Assumptions complement_model_eq_spec.
Print Assumptions complement_model_binary.
Print Assumptions complement_involution.
Print Assumptions complement_rc_commute.
Print Assumptions judge_ctu_compl_sound.
Print Assumptions judge_ctu_compl_sound'.
Print Assumptions judge_ctu_compl_sound_dense.


(* ------------------------------------------------------------------------------------------ *)
(* Judge for CMRctuTest                                                                          *)
(* ------------------------------------------------------------------------------------------ *)

Definition ctu_test_input :=
  x <- dmat ;; rc <- dZ ;; v <- dbool ;; r <- dopt ;; c <- dopt ;; dend (x, rc, v, r, c).

Lemma existsb_opts_complete : forall k (p : option nat -> bool),
  (forall o, opt_lt o k = true -> p o = true) -> forallb p (opts k) = true.
Proof.
  intros k p H. unfold opts. rewrite forallb_app. apply andb_true_iff. split.
  - apply forallb_forall. intros o Ho. apply in_map_iff in Ho. destruct Ho as [a [<- Ha]].
    apply H. simpl. apply Nat.ltb_lt. apply in_iota in Ha. lia.
  - simpl. rewrite H; reflexivity.
Qed.

Lemma in_opts : forall k o, opt_lt o k = true -> In o (opts k).
Proof.
  intros k [a|] H; unfold opts; apply in_or_app.
  - left. apply in_map. apply in_iota. simpl in H. apply Nat.ltb_lt in H. lia.
  - right. now left.
Qed.

(* the executable complement-TU oracle is the definition: all (m+1)(n+1) complements are TU *)
Theorem ctu_bf_spec : forall m n M,
  ctu_bf m n M = true <->
  (forall r c, opt_lt r m = true -> opt_lt c n = true -> tu_bf m n (complement_model m n M r c) = true).
Proof.
  intros m n M. unfold ctu_bf. split.
  - intros H r c Hr Hc. rewrite forallb_forall in H. specialize (H r (in_opts _ _ Hr)).
    rewrite forallb_forall in H. exact (H c (in_opts _ _ Hc)).
  - intros H. apply existsb_opts_complete. intros r Hr. apply existsb_opts_complete. intros c Hc. auto.
Qed.

Theorem judge_ctu_test_sound : forall rec m n M rc v r c rest,
  ctu_test_input rec = Some ((m, n, M, rc, v, r, c), rest) ->
  is_binary M = true ->
  judge_ctu_test rec = 0 ->
  rc = 0 /\ v = ctu_bf m n M /\
  (v = false -> opt_lt r m = true /\ opt_lt c n = true /\ tu_bf m n (complement_model m n M r c) = false).
Proof.
  intros rec m n M rc v r c rest Hdec Hbin Hj.
  unfold judge_ctu_test in Hj. unfold ctu_test_input in Hdec. rewrite Hdec in Hj.
  rewrite Hbin in Hj. cbn [negb] in Hj.
  destruct (rc =? 0) eqn:Hrc; cbn [negb] in Hj; [|discriminate].
  apply Z.eqb_eq in Hrc.
  destruct (Bool.eqb v (ctu_bf m n M)) eqn:Hv; cbn [negb] in Hj; [|discriminate].
  apply Bool.eqb_prop in Hv.
  split; [exact Hrc|]. split; [exact Hv|].
  intros Hf. rewrite Hf in Hj.
  destruct (opt_lt r m && opt_lt c n) eqn:Hlt; cbn [negb] in Hj; [|discriminate].
  apply andb_true_iff in Hlt. destruct Hlt as [H1 H2].
  destruct (tu_bf m n (complement_model m n M r c)) eqn:Ht; [discriminate|].
  auto.
Qed.
