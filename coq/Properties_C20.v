(* Properties_C20.v — C20: produced matrices are well-formed; text formats round-trip; bad text rejected. *)
From Cmr Require Import Base BaseProofs TextModel TextProofs.
Local Open Scope Z_scope.

(* The raw arrays of a well-formed sparse matrix and its dense form determine each other: decoding the library's CSR
   arrays (under csr_wf) loses nothing, and every dense matrix has exactly one well-formed CSR form. *)
Theorem C20_csr_dense_bijection_1 : forall m n M, wf_mat m n M = true ->
  csr_wf (csr_of_dense m n M) = true /\ dense_of_csr (csr_of_dense m n M) = M.
Proof. intros m n M H. split; [exact (csr_of_dense_wf m n M H) | exact (dense_of_csr_of_dense m n M H)]. Qed.
Print Assumptions C20_csr_dense_bijection_1.

Theorem C20_csr_dense_bijection_2 : forall s, csr_wf s = true ->
  csr_of_dense (c_rows s) (c_cols s) (dense_of_csr s) = s.
Proof. exact csr_of_dense_of_csr. Qed.
Print Assumptions C20_csr_dense_bijection_2.

(* text round trip on the model of the documented formats: printing a matrix whose values fit the target type and
   parsing it back gives the same matrix (sizes up to 100000, the parser's sanity bound, stated in the theorem) *)
Theorem C20_parse_print_dense : forall ty m n M,
  wf_mat m n M = true -> forallb (forallb (fits ty)) M = true ->
  Z.of_nat m <= 100000 -> Z.of_nat n <= 100000 ->
  parse_dense ty (print_dense m n M) = TOk m n M.
Proof. exact parse_print_dense. Qed.
Print Assumptions C20_parse_print_dense.

Theorem C20_parse_print_sparse : forall ty m n M,
  wf_mat m n M = true -> forallb (forallb (fits ty)) M = true ->
  Z.of_nat m <= 100000 -> Z.of_nat n <= 100000 ->
  Z.of_nat (length (sparse_triples m n M)) <= 100000 ->
  parse_sparse ty (print_sparse m n M) = TOk m n M.
Proof. exact parse_print_sparse. Qed.
Print Assumptions C20_parse_print_sparse.

(* whatever the parser accepts is a well-formed matrix whose values fit the target type *)
Theorem C20_parse_ok_wf : forall fmt ty bytes m n M,
  parse fmt ty bytes = TOk m n M -> wf_mat m n M = true /\ forallb (forallb (fits ty)) M = true.
Proof. exact parse_ok_wf. Qed.
Print Assumptions C20_parse_ok_wf.

(* reader judge: accepted means the library accepted exactly what the documented grammar accepts, with the same
   matrix, and rejected (non-zero status) what it rejects *)
Theorem C20_reader_judge_sound : forall rec fmt ty bytes rc res rest,
  textread_input rec = Some ((fmt, ty, bytes, rc, res), rest) -> judge_textread rec = 0 ->
  (parse fmt ty bytes = TErr -> rc <> 0) /\
  (forall m n M, parse fmt ty bytes = TOk m n M -> rc = 0 /\ res = Some (m, n, M)).
Proof. exact judge_textread_sound. Qed.
Print Assumptions C20_reader_judge_sound.

(* writer judge: the bytes the library printed denote (by the documented grammar) the matrix it was given, and the
   library reads them back to an equal matrix *)
Theorem C20_writer_judge_sound : forall rec fmt ty m n M bytes rc2 res rest,
  textwrite_input rec = Some ((fmt, ty, (m, n, M), bytes, rc2, res), rest) -> judge_textwrite rec = 0 ->
  forallb (forallb (fits ty)) M = true ->
  parse fmt ty bytes = TOk m n M /\ rc2 = 0 /\ res = Some (m, n, M).
Proof. exact judge_textwrite_sound. Qed.
Print Assumptions C20_writer_judge_sound.

(* ---------- matrix and submatrix utilities (transpose, permute, slice, support, conversions, equality / transpose
   tests, 1-sum, submatrix text round trip, sub-submatrices): proofs in MatProofs.v ---------- *)
Require Import Cmr.MatModel Cmr.MatProofs.

(* algebraic laws of the dense models the library results are compared with *)
Theorem C20_transpose_involutive : forall m n M, wf_mat m n M = true -> transpose n m (transpose m n M) = M.
Proof. exact transpose_involutive. Qed.
Print Assumptions C20_transpose_involutive.

Theorem C20_slice_of_slice : forall M rs cs rs' cs',
  all_lt (length rs) rs' = true -> all_lt (length cs) cs' = true ->
  submat (submat M rs cs) rs' cs' = submat M (map (fun i => nth i rs 0%nat) rs') (map (fun j => nth j cs 0%nat) cs').
Proof. exact submat_submat. Qed.
Print Assumptions C20_slice_of_slice.

Theorem C20_transpose_of_slice : forall m n M rs cs, all_lt m rs = true -> all_lt n cs = true ->
  transpose (length rs) (length cs) (submat M rs cs) = submat (transpose m n M) cs rs.
Proof. exact transpose_submat. Qed.
Print Assumptions C20_transpose_of_slice.

Theorem C20_support_laws : forall m n M,
  support (support M) = support M /\ support (signed_support M) = support M /\
  support (transpose m n M) = transpose m n (support M).
Proof.
  intros m n M. split; [exact (support_idempotent M)|]. split; [exact (support_signed M) | exact (support_transpose m n M)].
Qed.
Print Assumptions C20_support_laws.

Theorem C20_subsubmatrix_inverse : forall base input out,
  (sub_slice base input = Some out -> sub_unslice base out = Some input) /\
  (NoDup base -> sub_unslice base input = Some out -> sub_slice base out = Some input).
Proof.
  intros base input out. split; [exact (sub_slice_unslice base input out) | exact (sub_unslice_slice base input out)].
Qed.
Print Assumptions C20_subsubmatrix_inverse.

(* accepted records: the returned matrix is a consistent sparse matrix (it decodes under csr_wf) and equals the model *)
Theorem C20_judge_unary_sound : forall rec op ty m n M rest rc r rest',
  matutil_head rec = Some ((op, ty, (m, n, M)), rest) -> matutil_result rest = Some ((rc, r), rest') ->
  judge_matutil rec = 0%Z -> op = 1%Z \/ op = 4%Z \/ op = 5%Z \/ op = 7%Z ->
  if (op =? 7)%Z && (ty =? 1)%Z && negb (mat_forall in_char M) then rc <> 0%Z
  else rc = 0%Z /\ r = RMat (unary_ty op ty) (unary_model op m n M) /\ from_csr (unary_model op m n M).
Proof. exact judge_matutil_unary. Qed.
Print Assumptions C20_judge_unary_sound.

Theorem C20_judge_slice_sound : forall rec op ty m n M rest rs cs rest2 rc r rest3,
  matutil_head rec = Some ((op, ty, (m, n, M)), rest) -> submat_args op m n rest = Some ((rs, cs), rest2) ->
  matutil_result rest2 = Some ((rc, r), rest3) -> judge_matutil rec = 0%Z -> op = 2%Z \/ op = 3%Z ->
  if all_lt m rs && all_lt n cs
  then rc = 0%Z /\ r = RMat ty (length rs, length cs, submat M rs cs) /\ from_csr (length rs, length cs, submat M rs cs)
  else rc <> 0%Z.
Proof. exact judge_matutil_submat. Qed.
Print Assumptions C20_judge_slice_sound.

Theorem C20_judge_onesum_sound : forall rec ty m n M rest m2 n2 M2 rc r rest',
  matutil_head rec = Some ((10%Z, ty, (m, n, M)), rest) -> binary_args rest = Some (((m2, n2, M2), rc, r), rest') ->
  judge_matutil rec = 0%Z ->
  rc = 0%Z /\ r = RMat 0%Z ((m + m2)%nat, (n + n2)%nat, block_diag2 m n M m2 n2 M2) /\
  from_csr ((m + m2)%nat, (n + n2)%nat, block_diag2 m n M m2 n2 M2).
Proof. exact judge_matutil_onesum. Qed.
Print Assumptions C20_judge_onesum_sound.

Theorem C20_judge_submatrix_roundtrip_sound : forall rec ty m n M rest rs cs rc r rest',
  matutil_head rec = Some ((11%Z, ty, (m, n, M)), rest) -> subio_args rest = Some ((rs, cs, rc, r), rest') ->
  judge_matutil rec = 0%Z -> all_lt m rs = true -> all_lt n cs = true -> rc = 0%Z /\ r = RSub m n rs cs.
Proof. exact judge_matutil_subio. Qed.
Print Assumptions C20_judge_submatrix_roundtrip_sound.

(* ---------- edge-list reader ---------- *)
Require Import Cmr.EdgeModel.
Require Cmr.EdgeProofs.
Theorem C20_edgelist_reading_stops_at_short_line : forall names l rest,
  (length (tokens l) < 2)%nat -> parse_edges names (l :: rest) = Some (names, []).
Proof. exact EdgeProofs.parse_edges_stops_at_short_line. Qed.
Print Assumptions C20_edgelist_reading_stops_at_short_line.

Theorem C20_edgelist_roundtrip : forall names es,
  EdgeProofs.names_ok names -> EdgeProofs.seen_after 0 es = Some (length names) ->
  (forall u v e, In (u, v, e) es -> Z.abs e < 10 ^ 80) ->
  parse_edges [] (lines (EdgeProofs.print_edgelist names es)) = Some (names, es).
Proof. exact EdgeProofs.parse_print_edgelist. Qed.
Print Assumptions C20_edgelist_roundtrip.

(* ---------- cmr-matrix judged byte file to byte file (CliModel.v) ---------- *)
Require Cmr.CliModel Cmr.CliProofs.
Theorem C20_cmr_matrix_judge_sound : forall rec infmt outfmt tr task hasS rs cs inb rc hasout outb rest,
  CliProofs.climat_input rec = Some ((infmt, outfmt, tr, task, hasS, rs, cs, inb, rc, hasout, outb), rest) ->
  CliModel.judge_climat rec = 0 ->
  (forall m n M m2 n2 M2,
     parse infmt 1 inb = TOk m n M ->
     CliModel.climat_expected hasS rs cs tr task (m, n, M) = Some (m2, n2, M2) ->
     rc = 0 /\ hasout = true /\ parse outfmt 1 outb = TOk m2 n2 M2) /\
  (parse infmt 1 inb = TErr -> hasout = false \/ outb = []).
Proof. exact CliProofs.judge_climat_sound. Qed.
Print Assumptions C20_cmr_matrix_judge_sound.

Theorem C20_tolerance_sign_spec : forall mant ex : Z,
  (CliModel.tol_sign (mant, ex) = 0 <->
     (if 0 <=? ex + 9 then Z.abs mant * 10 ^ (ex + 9) <= 1 else Z.abs mant <= 10 ^ (- (ex + 9)))) /\
  (CliModel.tol_sign (mant, ex) = 1 -> 0 < mant) /\
  (CliModel.tol_sign (mant, ex) = -1 -> mant < 0) /\
  (CliModel.tol_sign (mant, ex) = 0 \/ CliModel.tol_sign (mant, ex) = 1 \/ CliModel.tol_sign (mant, ex) = -1).
Proof. exact CliProofs.tol_sign_spec. Qed.
Print Assumptions C20_tolerance_sign_spec.

(* ---------- the judge accepts EXACTLY the records that satisfy its specification: besides soundness (above) also completeness,
   i.e. a record of a correct answer is never rejected (JudgeComplete2.v) ---------- *)
From Cmr Require JudgeComplete2.
Theorem C20_judge_textread_accepts_exactly_the_specification :
    forall (rec : list Z) (fmt ty : Z) (bytes : list Z) (rc : Z) (res : option (nat * nat * mat))
    (rest : list Z),
    TextProofs.textread_input rec = Some (fmt, ty, bytes, rc, res, rest) ->
    TextModel.judge_textread rec = 0%Z <-> JudgeComplete2.textread_spec fmt ty bytes rc res.
Proof. exact JudgeComplete2.judge_textread_iff. Qed.
Print Assumptions C20_judge_textread_accepts_exactly_the_specification.
Theorem C20_judge_textwrite_accepts_exactly_the_specification :
    forall (rec : list Z) (fmt ty : Z) (m n : nat) (M : mat) (bytes : list Z) 
    (rc2 : Z) (res : option (nat * nat * mat)) (rest : list Z),
    TextProofs.textwrite_input rec = Some (fmt, ty, (m, n, M), bytes, rc2, res, rest) ->
    TextModel.judge_textwrite rec = 0%Z <-> JudgeComplete2.textwrite_spec fmt ty m n M bytes rc2 res.
Proof. exact JudgeComplete2.judge_textwrite_iff. Qed.
Print Assumptions C20_judge_textwrite_accepts_exactly_the_specification.

(* ---------- the judge accepts EXACTLY the records that satisfy its specification (JudgeComplete3.v): completeness besides soundness,
   a record of a correct answer is never rejected ---------- *)
From Cmr Require JudgeComplete3.
Theorem C20_judge_climat_accepts_exactly_the_specification :
    forall (rec : list Z) (infmt outfmt : Z) (tr : bool) (task : Z) (hasS : bool) 
    (rs cs : list nat) (inb : list Z) (rc : Z) (hasout : bool) (outb rest : list Z),
    CliProofs.climat_input rec = Some (infmt, outfmt, tr, task, hasS, rs, cs, inb, rc, hasout, outb, rest) ->
    CliModel.judge_climat rec = 0%Z <->
    JudgeComplete3.climat_spec infmt outfmt tr task hasS rs cs inb rc hasout outb.
Proof. exact JudgeComplete3.judge_climat_iff. Qed.
Print Assumptions C20_judge_climat_accepts_exactly_the_specification.
Theorem C20_judge_climatd_accepts_exactly_the_specification :
    forall (rec : list Z) (infmt outfmt : Z) (tr : bool) (task : Z) (hasS : bool) 
    (rs cs : list nat) (inb : list Z) (rc : Z) (hasout : bool) (outb rest : list Z),
    CliProofs.climatd_input rec =
    Some (infmt, outfmt, tr, task, hasS, rs, cs, inb, rc, hasout, outb, rest) ->
    CliModel.judge_climatd rec = 0%Z <->
    JudgeComplete3.climatd_spec infmt outfmt tr task hasS rs cs inb rc hasout outb.
Proof. exact JudgeComplete3.judge_climatd_iff. Qed.
Print Assumptions C20_judge_climatd_accepts_exactly_the_specification.
Theorem C20_judge_matutil_unary_accepts_exactly_the_specification :
    forall (rec : list Z) (op ty : Z) (m n : nat) (M : mat) (rest : list Z) (rc : Z) 
    (r : MatModel.mres) (rest' : list Z),
    MatProofs.matutil_head rec = Some (op, ty, (m, n, M), rest) ->
    MatProofs.matutil_result rest = Some (rc, r, rest') ->
    op = 1%Z \/ op = 4%Z \/ op = 5%Z \/ op = 7%Z ->
    MatModel.judge_matutil rec = 0%Z <-> JudgeComplete3.matutil_unary_spec op ty m n M rc r.
Proof. exact JudgeComplete3.judge_matutil_unary_iff. Qed.
Print Assumptions C20_judge_matutil_unary_accepts_exactly_the_specification.
Theorem C20_judge_matutil_det_accepts_exactly_the_specification :
    forall (rec : list Z) (ty : Z) (m n : nat) (M : mat) (rest : list Z) (rc : Z) 
    (r : MatModel.mres) (rest' : list Z),
    MatProofs.matutil_head rec = Some (6%Z, ty, (m, n, M), rest) ->
    MatProofs.matutil_result rest = Some (rc, r, rest') ->
    MatModel.judge_matutil rec = 0%Z <-> JudgeComplete3.matutil_det_spec m n M rc r.
Proof. exact JudgeComplete3.judge_matutil_det_iff. Qed.
Print Assumptions C20_judge_matutil_det_accepts_exactly_the_specification.
Theorem C20_judge_matutil_submat_accepts_exactly_the_specification :
    forall (rec : list Z) (op ty : Z) (m n : nat) (M : mat) (rest : list Z) (rs cs : list nat)
    (rest2 : list Z) (rc : Z) (r : MatModel.mres) (rest3 : list Z),
    MatProofs.matutil_head rec = Some (op, ty, (m, n, M), rest) ->
    MatProofs.submat_args op m n rest = Some (rs, cs, rest2) ->
    MatProofs.matutil_result rest2 = Some (rc, r, rest3) ->
    op = 2%Z \/ op = 3%Z ->
    MatModel.judge_matutil rec = 0%Z <-> JudgeComplete3.matutil_submat_spec ty m n M rs cs rc r.
Proof. exact JudgeComplete3.judge_matutil_submat_iff. Qed.
Print Assumptions C20_judge_matutil_submat_accepts_exactly_the_specification.
Theorem C20_judge_matutil_tests_accepts_exactly_the_specification :
    forall (rec : list Z) (op ty : Z) (m n : nat) (M : mat) (rest : list Z) (m2 n2 : nat) 
    (M2 : mat) (rc : Z) (r : MatModel.mres) (rest' : list Z),
    MatProofs.matutil_head rec = Some (op, ty, (m, n, M), rest) ->
    MatProofs.binary_args rest = Some (m2, n2, M2, rc, r, rest') ->
    op = 8%Z \/ op = 9%Z ->
    MatModel.judge_matutil rec = 0%Z <-> JudgeComplete3.matutil_tests_spec op m n M m2 n2 M2 rc r.
Proof. exact JudgeComplete3.judge_matutil_tests_iff. Qed.
Print Assumptions C20_judge_matutil_tests_accepts_exactly_the_specification.
Theorem C20_judge_matutil_onesum_accepts_exactly_the_specification :
    forall (rec : list Z) (ty : Z) (m n : nat) (M : mat) (rest : list Z) (m2 n2 : nat) 
    (M2 : mat) (rc : Z) (r : MatModel.mres) (rest' : list Z),
    MatProofs.matutil_head rec = Some (10%Z, ty, (m, n, M), rest) ->
    MatProofs.binary_args rest = Some (m2, n2, M2, rc, r, rest') ->
    MatModel.judge_matutil rec = 0%Z <-> JudgeComplete3.matutil_onesum_spec m n M m2 n2 M2 rc r.
Proof. exact JudgeComplete3.judge_matutil_onesum_iff. Qed.
Print Assumptions C20_judge_matutil_onesum_accepts_exactly_the_specification.
Theorem C20_judge_matutil_subio_accepts_exactly_the_specification :
    forall (rec : list Z) (ty : Z) (m n : nat) (M : mat) (rest : list Z) (rs cs : list nat) 
    (rc : Z) (r : MatModel.mres) (rest' : list Z),
    MatProofs.matutil_head rec = Some (11%Z, ty, (m, n, M), rest) ->
    MatProofs.subio_args rest = Some (rs, cs, rc, r, rest') ->
    MatModel.judge_matutil rec = 0%Z <-> JudgeComplete3.matutil_subio_spec m n rs cs rc r.
Proof. exact JudgeComplete3.judge_matutil_subio_iff. Qed.
Print Assumptions C20_judge_matutil_subio_accepts_exactly_the_specification.
Theorem C20_judge_matutil_subslice_accepts_exactly_the_specification :
    forall (rec : list Z) (ty : Z) (m n : nat) (M : mat) (rest : list Z) (brs bcs irs ics : list nat)
    (rc : Z) (r : MatModel.mres) (rest' : list Z),
    MatProofs.matutil_head rec = Some (12%Z, ty, (m, n, M), rest) ->
    MatProofs.subslice_args rest = Some (brs, bcs, irs, ics, rc, r, rest') ->
    MatModel.judge_matutil rec = 0%Z <->
    JudgeComplete3.matutil_slice_spec MatModel.sub_slice brs bcs irs ics rc r.
Proof. exact JudgeComplete3.judge_matutil_subslice_iff. Qed.
Print Assumptions C20_judge_matutil_subslice_accepts_exactly_the_specification.
Theorem C20_judge_matutil_subunslice_accepts_exactly_the_specification :
    forall (rec : list Z) (ty : Z) (m n : nat) (M : mat) (rest : list Z) (brs bcs irs ics : list nat)
    (rc : Z) (r : MatModel.mres) (rest' : list Z),
    MatProofs.matutil_head rec = Some (13%Z, ty, (m, n, M), rest) ->
    MatProofs.subslice_args rest = Some (brs, bcs, irs, ics, rc, r, rest') ->
    MatModel.judge_matutil rec = 0%Z <->
    JudgeComplete3.matutil_slice_spec MatModel.sub_unslice brs bcs irs ics rc r.
Proof. exact JudgeComplete3.judge_matutil_subunslice_iff. Qed.
Print Assumptions C20_judge_matutil_subunslice_accepts_exactly_the_specification.
