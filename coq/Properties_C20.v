(* Properties_C20.v — C20: produced matrices are well-formed; text formats round-trip; bad text rejected. *)
From Cmr Require Import Base BaseProofs TextModel TextProofs.
Local Open Scope Z_scope.

(* The raw arrays of a well-formed sparse matrix and its dense form determine each other: decoding the library's CSR
   arrays (under csr_wf) loses nothing, and every dense matrix has exactly one well-formed CSR form. *)
Theorem C20_csr_dense_bijection_1 : forall m n M, wf_mat m n M = true ->
  csr_wf (csr_of_dense m n M) = true /\ dense_of_csr (csr_of_dense m n M) = M.
Proof. intros m n M H. split; [exact (csr_of_dense_wf m n M H) | exact (dense_of_csr_of_dense m n M H)]. Qed.
Print Assumptions C20_csr_dense_bijection_1.

Theorem C20_csr_dense_bijection_2 : forall s, csr_wf s = true ->
  csr_of_dense (c_rows s) (c_cols s) (dense_of_csr s) = s.
Proof. exact csr_of_dense_of_csr. Qed.
Print Assumptions C20_csr_dense_bijection_2.

(* text round trip on the model of the documented formats: printing a matrix whose values fit the target type and
   parsing it back gives the same matrix (sizes up to 100000, the parser's sanity bound, stated in the theorem) *)
Theorem C20_parse_print_dense : forall ty m n M,
  wf_mat m n M = true -> forallb (forallb (fits ty)) M = true ->
  Z.of_nat m <= 100000 -> Z.of_nat n <= 100000 ->
  parse_dense ty (print_dense m n M) = TOk m n M.
Proof. exact parse_print_dense. Qed.
Print Assumptions C20_parse_print_dense.

Theorem C20_parse_print_sparse : forall ty m n M,
  wf_mat m n M = true -> forallb (forallb (fits ty)) M = true ->
  Z.of_nat m <= 100000 -> Z.of_nat n <= 100000 ->
  Z.of_nat (length (sparse_triples m n M)) <= 100000 ->
  parse_sparse ty (print_sparse m n M) = TOk m n M.
Proof. exact parse_print_sparse. Qed.
Print Assumptions C20_parse_print_sparse.

(* whatever the parser accepts is a well-formed matrix whose values fit the target type *)
Theorem C20_parse_ok_wf : forall fmt ty bytes m n M,
  parse fmt ty bytes = TOk m n M -> wf_mat m n M = true /\ forallb (forallb (fits ty)) M = true.
Proof. exact parse_ok_wf. Qed.
Print Assumptions C20_parse_ok_wf.

(* reader judge: accepted means the library accepted exactly what the documented grammar accepts, with the same
   matrix, and rejected (non-zero status) what it rejects *)
Theorem C20_reader_judge_sound : forall rec fmt ty bytes rc res rest,
  textread_input rec = Some ((fmt, ty, bytes, rc, res), rest) -> judge_textread rec = 0 ->
  (parse fmt ty bytes = TErr -> rc <> 0) /\
  (forall m n M, parse fmt ty bytes = TOk m n M -> rc = 0 /\ res = Some (m, n, M)).
Proof. exact judge_textread_sound. Qed.
Print Assumptions C20_reader_judge_sound.

(* writer judge: the bytes the library printed denote (by the documented grammar) the matrix it was given, and the
   library reads them back to an equal matrix *)
Theorem C20_writer_judge_sound : forall rec fmt ty m n M bytes rc2 res rest,
  textwrite_input rec = Some ((fmt, ty, (m, n, M), bytes, rc2, res), rest) -> judge_textwrite rec = 0 ->
  forallb (forallb (fits ty)) M = true ->
  parse fmt ty bytes = TOk m n M /\ rc2 = 0 /\ res = Some (m, n, M).
Proof. exact judge_textwrite_sound. Qed.
Print Assumptions C20_writer_judge_sound.
