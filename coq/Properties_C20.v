From Cmr Require Import Base Det TextModel.
Theorem placeholder_C20 : True. Proof. exact I. Qed.
