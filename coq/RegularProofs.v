(* RegularProofs.v — the regularity oracle regular_bf decides "0/1 matrix that can be signed to a
   matrix accepted by tu_bf". *)
From Cmr Require Import Base Det BaseProofs TuModel.
Local Open Scope Z_scope.

Definition sign_entry (x s : Z) : Prop := (x = 0 /\ s = 0) \/ (x <> 0 /\ (s = 1 \/ s = -1)).
Definition signing_of (M S : mat) : Prop := Forall2 (Forall2 sign_entry) M S.

Lemma Forall2_len : forall (A B : Type) (R : A -> B -> Prop) (l : list A) (l' : list B),
  Forall2 R l l' -> length l = length l'.
Proof. intros A B R l l' H. induction H; simpl; congruence. Qed.

(* ------------------------------------------------------------------------------------------ *)
(* 1. signings_row enumerates exactly the signings of a row                                    *)
(* ------------------------------------------------------------------------------------------ *)

Theorem signings_row_spec : forall r s, In s (signings_row r) <-> Forall2 sign_entry r s.
Proof.
  induction r as [|x r IH]; intros s; simpl.
  - split.
    + intros [<-|[]]. constructor.
    + intros H. inversion H. now left.
  - destruct (x =? 0) eqn:E.
    + apply Z.eqb_eq in E. subst x. rewrite in_map_iff. split.
      * intros [t [<- Ht]]. constructor; [left; auto | apply IH; exact Ht].
      * intros H. inversion H as [|x0 s0 r0 t Hxs Hrt]; subst. exists t. split.
        -- destruct Hxs as [[_ ->]|[Hx _]]; [reflexivity | congruence].
        -- apply IH. exact Hrt.
    + apply Z.eqb_neq in E. rewrite in_app_iff, !in_map_iff. split.
      * intros [[t [<- Ht]]|[t [<- Ht]]]; (constructor; [right; auto | apply IH; exact Ht]).
      * intros H. inversion H as [|x0 s0 r0 t Hxs Hrt]; subst.
        destruct Hxs as [[Hx _]|[_ [-> | ->]]]; [congruence | left | right];
          (exists t; split; [reflexivity | apply IH; exact Hrt]).
Qed.

(* ------------------------------------------------------------------------------------------ *)
(* 2. Row-prefix heredity of tu_bf                                                             *)
(* ------------------------------------------------------------------------------------------ *)

Lemma subseqs_0 : forall l, subseqs 0 l = [[]].
Proof. destruct l; reflexivity. Qed.

Lemma subseqs_elem : forall l j x y, In x (subseqs j l) -> In y x -> In y l.
Proof.
  induction l as [|a l IH]; intros j x y Hx Hy; destruct j; simpl in Hx.
  - destruct Hx as [<-|[]]. destruct Hy.
  - destruct Hx.
  - destruct Hx as [<-|[]]. destruct Hy.
  - apply in_app_iff in Hx. destruct Hx as [Hx|Hx].
    + apply in_map_iff in Hx. destruct Hx as [t [<- Ht]].
      destruct Hy as [<-|Hy]; [now left | right; eapply IH; eassumption].
    + right. eapply IH; eassumption.
Qed.

Lemma subseqs_app : forall l l' j x, In x (subseqs j l) -> In x (subseqs j (l ++ l')).
Proof.
  induction l as [|a l IH]; intros l' j x Hx; destruct j; simpl in Hx.
  - rewrite subseqs_0. exact Hx.
  - destruct Hx.
  - rewrite subseqs_0. exact Hx.
  - change ((a :: l) ++ l') with (a :: (l ++ l')).
    change (In x (map (cons a) (subseqs j (l ++ l')) ++ subseqs (S j) (l ++ l'))).
    apply in_app_iff in Hx. apply in_app_iff. destruct Hx as [Hx|Hx].
    + left. apply in_map_iff in Hx. destruct Hx as [t [<- Ht]].
      apply in_map. apply IH. exact Ht.
    + right. apply IH. exact Hx.
Qed.

Lemma iota_app : forall a b s, iota s (a + b) = iota s a ++ iota (s + a) b.
Proof.
  induction a as [|a IH]; intros b s; simpl.
  - f_equal. lia.
  - f_equal. rewrite IH. f_equal. f_equal. lia.
Qed.

Lemma subseqs_iota_mono : forall j k m x, (k <= m)%nat ->
  In x (subseqs j (iota 0 k)) -> In x (subseqs j (iota 0 m)).
Proof.
  intros j k m x Hkm Hx. replace m with (k + (m - k))%nat by lia.
  rewrite iota_app. apply subseqs_app. exact Hx.
Qed.

Lemma subseqs_iota_lt : forall j k x i, In x (subseqs j (iota 0 k)) -> In i x -> (i < k)%nat.
Proof.
  intros j k x i Hx Hi. pose proof (subseqs_elem _ _ _ _ Hx Hi) as H.
  apply in_iota in H. lia.
Qed.

Lemma nthR_firstn : forall (S : mat) k i, (i < k)%nat -> nthR (firstn k S) i = nthR S i.
Proof.
  induction S as [|r S IH]; intros k i Hi.
  - rewrite firstn_nil. reflexivity.
  - destruct k as [|k]; [lia|]. destruct i as [|i]; simpl.
    + reflexivity.
    + apply IH. lia.
Qed.

Lemma get_firstn : forall (S : mat) k i j, (i < k)%nat -> get (firstn k S) i j = get S i j.
Proof. intros S k i j Hi. unfold get. now rewrite nthR_firstn. Qed.

Lemma submat_firstn : forall (S : mat) k rs cs,
  (forall i, In i rs -> (i < k)%nat) -> submat (firstn k S) rs cs = submat S rs cs.
Proof.
  intros S k rs cs H. unfold submat. apply map_ext_in. intros i Hi.
  apply map_ext. intros j. apply get_firstn. apply H. exact Hi.
Qed.

(* general form: no assumption on the length of S is needed *)
Lemma tu_bf_firstn : forall m n S k, (k <= m)%nat ->
  tu_bf m n S = true -> tu_bf k n (firstn k S) = true.
Proof.
  intros m n S k Hkm H. unfold tu_bf in *. rewrite forallb_forall in *.
  intros k' Hk'. apply in_iota in Hk'.
  assert (Hin : In k' (iota 1 (Nat.min m n))) by (apply in_iota; lia).
  specialize (H _ Hin). unfold tu_order in *. rewrite forallb_forall in *.
  intros rs Hrs. rewrite forallb_forall. intros cs Hcs.
  rewrite submat_firstn by (intros i Hi; eapply subseqs_iota_lt; eassumption).
  specialize (H rs (subseqs_iota_mono _ _ _ _ Hkm Hrs)).
  rewrite forallb_forall in H. apply H. exact Hcs.
Qed.

Theorem tu_bf_prefix : forall m n S k, (k <= m)%nat -> length S = m ->
  tu_bf m n S = true -> tu_bf k n (firstn k S) = true.
Proof. intros m n S k Hkm _ H. eapply tu_bf_firstn; eassumption. Qed.

Lemma firstn_length_app : forall (A : Type) (l1 l2 : list A), firstn (length l1) (l1 ++ l2) = l1.
Proof. induction l1 as [|a l1 IH]; intros l2; simpl; [reflexivity | now rewrite IH]. Qed.

(* the form used by the search: a TU matrix stays TU when trailing rows are dropped *)
Lemma tu_bf_app_l : forall n (A B : mat),
  tu_bf (length (A ++ B)) n (A ++ B) = true -> tu_bf (length A) n A = true.
Proof.
  intros n A B H.
  pose proof (tu_bf_prefix (length (A ++ B)) n (A ++ B) (length A)) as P.
  rewrite firstn_length_app in P. apply P; [|reflexivity|exact H].
  rewrite app_length. lia.
Qed.

(* ------------------------------------------------------------------------------------------ *)
(* 3. Soundness and completeness of sign_search                                                *)
(* ------------------------------------------------------------------------------------------ *)

Local Opaque tu_bf.

Theorem sign_search_sound : forall n todo done, sign_search n done todo = true ->
  exists S', signing_of todo S' /\ tu_bf (length (done ++ S')) n (done ++ S') = true.
Proof.
  intros n. induction todo as [|r todo IH]; intros done H.
  - cbn [sign_search] in H. exists []. split; [constructor|].
    rewrite app_nil_r. exact H.
  - cbn [sign_search] in H. apply existsb_exists in H. destruct H as [sr [Hin H]].
    apply andb_true_iff in H. destruct H as [_ H2].
    destruct (IH _ H2) as [S' [HS Htu]]. exists (sr :: S'). split.
    + constructor; [apply signings_row_spec; exact Hin | exact HS].
    + rewrite <- app_assoc in Htu. exact Htu.
Qed.

Theorem sign_search_complete : forall n todo done S', signing_of todo S' ->
  tu_bf (length (done ++ S')) n (done ++ S') = true -> sign_search n done todo = true.
Proof.
  intros n. induction todo as [|r todo IH]; intros done S' HS Htu.
  - inversion HS; subst. rewrite app_nil_r in Htu. exact Htu.
  - inversion HS as [|r0 s todo0 rest Hrs Hrest]; subst.
    cbn [sign_search]. apply existsb_exists. exists s. split.
    + apply signings_row_spec. exact Hrs.
    + assert (E : done ++ s :: rest = (done ++ [s]) ++ rest) by (rewrite <- app_assoc; reflexivity).
      rewrite E in Htu. apply andb_true_iff. split.
      * eapply tu_bf_app_l. exact Htu.
      * eapply IH; eassumption.
Qed.

(* ------------------------------------------------------------------------------------------ *)
(* 4. Main theorem                                                                             *)
(* ------------------------------------------------------------------------------------------ *)

Theorem regular_bf_spec : forall m n M, wf_mat m n M = true ->
  (regular_bf m n M = true <-> is_binary M = true /\ exists S, signing_of M S /\ tu_bf m n S = true).
Proof.
  intros m n M Hwf. pose proof (wf_mat_length _ _ _ Hwf) as HL.
  unfold regular_bf. rewrite andb_true_iff. split.
  - intros [Hb Hs]. split; [exact Hb|].
    destruct (sign_search_sound _ _ _ Hs) as [S [HS Htu]]. exists S. split; [exact HS|].
    cbn [app] in Htu. rewrite <- (Forall2_len _ _ _ _ _ HS), HL in Htu. exact Htu.
  - intros [Hb [S [HS Htu]]]. split; [exact Hb|].
    apply (sign_search_complete n M [] S HS). cbn [app].
    rewrite <- (Forall2_len _ _ _ _ _ HS), HL. exact Htu.
Qed.

(* ------------------------------------------------------------------------------------------ *)
(* 5. Shape and support of signings                                                            *)
(* ------------------------------------------------------------------------------------------ *)

Lemma signing_of_wf : forall m n M S, signing_of M S -> wf_mat m n M = true -> wf_mat m n S = true.
Proof.
  intros m n M S HS H. unfold wf_mat in *. apply andb_true_iff in H. destruct H as [H1 H2].
  apply andb_true_iff. split.
  - rewrite <- (Forall2_len _ _ _ _ _ HS). exact H1.
  - clear H1. induction HS as [|r s M S Hrs HMS IH]; [reflexivity|].
    simpl in H2. apply andb_true_iff in H2. destruct H2 as [Hr HM]. simpl.
    rewrite <- (Forall2_len _ _ _ _ _ Hrs), Hr. cbn [andb]. apply IH. exact HM.
Qed.

Lemma sign_entry_00 : sign_entry 0 0.
Proof. left; split; reflexivity. Qed.

Lemma sign_entry_nthZ : forall r s, Forall2 sign_entry r s -> forall j, sign_entry (nthZ r j) (nthZ s j).
Proof.
  intros r s H. induction H as [|x y r s Hxy Hrs IH]; intros j.
  - destruct j; apply sign_entry_00.
  - destruct j; simpl; [exact Hxy | apply IH].
Qed.

Lemma signing_of_nthR : forall M S, signing_of M S -> forall i, Forall2 sign_entry (nthR M i) (nthR S i).
Proof.
  intros M S H. induction H as [|r s M S Hrs HMS IH]; intros i.
  - destruct i; constructor.
  - destruct i; simpl; [exact Hrs | apply IH].
Qed.

Lemma signing_of_get : forall M S, signing_of M S -> forall i j, sign_entry (get M i j) (get S i j).
Proof. intros M S H i j. unfold get. apply sign_entry_nthZ. apply signing_of_nthR. exact H. Qed.

(* same support, for all indices (out-of-range entries read as 0 on both sides) *)
Lemma signing_of_support : forall M S, signing_of M S -> forall i j, (get S i j = 0 <-> get M i j = 0).
Proof.
  intros M S H i j. destruct (signing_of_get M S H i j) as [[Hx Hs]|[Hx Hs]]; lia.
Qed.

(* on a 0/1 matrix the signing agrees with M up to sign *)
Lemma signing_of_abs : forall M S, is_binary M = true -> signing_of M S ->
  forall i j, Z.abs (get S i j) = get M i j.
Proof.
  intros M S Hb H i j. pose proof (get_binary M i j Hb) as B.
  destruct (signing_of_get M S H i j) as [[Hx Hs]|[Hx Hs]]; lia.
Qed.

Lemma signing_of_ternary : forall M S, signing_of M S -> is_ternary S = true.
Proof.
  intros M S H. unfold is_ternary, mat_forall.
  induction H as [|r s M S Hrs HMS IH]; [reflexivity|].
  simpl. rewrite IH, andb_true_r. clear IH HMS.
  induction Hrs as [|x y r s Hxy Hrs IH]; [reflexivity|].
  simpl. rewrite IH, andb_true_r. unfold is_ternary_entry.
  destruct Hxy as [[_ ->]|[_ [-> | ->]]]; reflexivity.
Qed.

(* ------------------------------------------------------------------------------------------ *)
(* 6. Non-vacuity                                                                              *)
(* ------------------------------------------------------------------------------------------ *)

Local Transparent tu_bf.

Example regular_F7 : regular_bf 3 4 [[1;1;0;1];[1;0;1;1];[0;1;1;1]] = false.
Proof. vm_compute. reflexivity. Qed.

Example regular_J2 : regular_bf 2 2 [[1;1];[1;1]] = true.
Proof. vm_compute. reflexivity. Qed.

(* R10.  vm_compute is call-by-value, so orb/andb inside existsb do not short-circuit and the search
   degenerates to all 8^4*32 signings (about 5 minutes); lazy evaluation short-circuits (0.2 s). *)
Example regular_R10 :
  regular_bf 5 5 [[1;0;0;1;1];[1;1;0;0;1];[0;1;1;0;1];[0;0;1;1;1];[1;1;1;1;1]] = true.
Proof. lazy. reflexivity. Qed.

(* the same fact through the specification, with an explicit witness (here the trivial signing) *)
Example regular_R10_by_spec :
  regular_bf 5 5 [[1;0;0;1;1];[1;1;0;0;1];[0;1;1;0;1];[0;0;1;1;1];[1;1;1;1;1]] = true.
Proof.
  apply regular_bf_spec; [reflexivity|]. split; [reflexivity|].
  exists [[1;0;0;1;1];[1;1;0;0;1];[0;1;1;0;1];[0;0;1;1;1];[1;1;1;1;1]]. split.
  - unfold signing_of.
    repeat first [ apply Forall2_nil | apply Forall2_cons
                 | (left; split; reflexivity)
                 | (right; split; [discriminate | left; reflexivity]) ].
  - vm_compute. reflexivity.
Qed.

(* signing matters: the odd cycle matrix is not TU as it stands (det 2) but is regular *)
Example regular_C3 : regular_bf 3 3 [[1;1;0];[0;1;1];[1;0;1]] = true
                     /\ tu_bf 3 3 [[1;1;0];[0;1;1];[1;0;1]] = false.
Proof. split; vm_compute; reflexivity. Qed.

(* a non-binary input is rejected even though it is TU *)
Example regular_nonbinary : regular_bf 1 1 [[-1]] = false.
Proof. vm_compute. reflexivity. Qed.

Print Assumptions regular_bf_spec.
Print Assumptions tu_bf_prefix.
Print Assumptions sign_search_sound.
Print Assumptions sign_search_complete.
