(* TuBalanced.v -- every totally unimodular matrix is balanced.
   Core (MathComp level): Camion's parity lemma -- a totally unimodular matrix all of whose row sums
   and column sums are even has an entry sum divisible by 4 (induction on the number of nonzero rows:
   subtracting e * (column c) * (row r) for a nonzero entry e = A r c clears row r and column c, is,
   up to zeroing that row and column, the pivot of A, keeps all line sums even and changes the entry
   sum by e * (column sum) * (row sum), a multiple of 4).  A square matrix with exactly two nonzeros,
   each +-1, in every line has even line sums; hence its entry sum cannot be 2 mod 4. *)
From Coq Require Import ZArith List.
From mathcomp Require Import all_ssreflect all_fingroup all_algebra.
From mathcomp Require Import ssrZ zify.
From Cmr Require Import Base Det BaseProofs PivotModel PivotProofs SpModel RelModel TuProofs TuClosure TuPivot.
From Cmr Require BalancedProofs.
Set Implicit Arguments. Unset Strict Implicit. Unset Printing Implicit Defensive.
Import GRing.Theory.
Local Open Scope ring_scope.
Import mathcomp.ssreflect.seq.
Delimit Scope nat_scope with N.

(* ========================================================================================== *)
(* 1. divisibility by 2 and by 4, without literals                                             *)
(* ========================================================================================== *)

Definition evenZ (x : Z) : Prop := exists q : Z, x = q + q.
Definition dvd4Z (x : Z) : Prop := exists q : Z, x = q + q + q + q.
(* arguments of type Z would otherwise be parsed in Z_scope *)
Arguments evenZ x%R.
Arguments dvd4Z x%R.

(* the same in stdlib terms *)
Lemma evenZ_mod x : evenZ x <-> Z.modulo x (Zpos (xO xH)) = Z0.
Proof. split=> [[q ->]|H]; [lia | exists (Z.div x (Zpos (xO xH))); lia]. Qed.

Lemma dvd4Z_mod x : dvd4Z x <-> Z.modulo x (Zpos (xO (xO xH))) = Z0.
Proof. split=> [[q ->]|H]; [lia | exists (Z.div x (Zpos (xO (xO xH)))); lia]. Qed.

Lemma evenZ0 : evenZ 0.
Proof. by exists 0; rewrite addr0. Qed.

Lemma evenZ_add x y : evenZ x -> evenZ y -> evenZ (x + y).
Proof. by move=> [p ->] [q ->]; exists (p + q); rewrite addrACA. Qed.

Lemma evenZ_opp x : evenZ x -> evenZ (- x).
Proof. move=> [p ->]; exists (- p); lia. Qed.

Lemma evenZ_mull x y : evenZ y -> evenZ (x * y).
Proof. by move=> [q ->]; exists (x * q); rewrite mulrDr. Qed.

Lemma evenZ_mulr x y : evenZ x -> evenZ (x * y).
Proof. by move=> ex; rewrite mulrC; apply: evenZ_mull. Qed.

Lemma dvd4Z_add x y : dvd4Z x -> dvd4Z y -> dvd4Z (x + y).
Proof. move=> [p ->] [q ->]; exists (p + q); lia. Qed.

Lemma dvd4Z_even_mul e x y : evenZ x -> evenZ y -> dvd4Z (e * x * y).
Proof. move=> [p ->] [q ->]; exists (e * p * q); lia. Qed.

(* ========================================================================================== *)
(* 2. zeroing rows and columns preserves total unimodularity                                   *)
(* ========================================================================================== *)

Lemma prod_small (I : finType) (F : I -> Z) :
  (forall i, F i \in [:: -1; 0; 1]) -> \prod_i F i \in [:: -1; 0; 1].
Proof.
move=> H; apply: (big_ind (fun x : Z => x \in [:: -1; 0; 1])) => //.
exact: small_mul.
Qed.

Lemma TUmx_scale_small m n (A : 'M[Z]_(m, n)) (r : 'I_m -> Z) (c : 'I_n -> Z) :
  (forall i, r i \in [:: -1; 0; 1]) -> (forall j, c j \in [:: -1; 0; 1]) ->
  TUmx A -> TUmx (\matrix_(i, j) (r i * c j * A i j)).
Proof.
move=> Hr Hc TU k f g.
have -> : mxsub f g (\matrix_(i, j) (r i * c j * A i j)) =
          \matrix_(i, j) (r (f i) * c (g j) * (mxsub f g A) i j).
  by apply/matrixP => i j; rewrite !mxE.
rewrite det_scale; apply: small_mul; last exact: TU.
by apply: small_mul; apply: prod_small.
Qed.

(* ========================================================================================== *)
(* 3. Camion's parity lemma                                                                    *)
(* ========================================================================================== *)

Section Clear.
Variables (m n : nat) (A : 'M[Z]_(m, n)) (r : 'I_m) (c : 'I_n).
Let e := A r c.

(* A - e * (column c) * (row r) *)
Definition clearmx : 'M[Z]_(m, n) := \matrix_(i, j) (A i j - e * A i c * A r j).

Hypothesis ee : e * e = 1.

Lemma clearmx_row j : clearmx r j = 0.
Proof. by rewrite mxE -/e ee mul1r subrr. Qed.

Lemma clearmx_col i : clearmx i c = 0.
Proof. by rewrite mxE -/e mulrAC ee mul1r subrr. Qed.

Lemma clearmx_pivmx :
  clearmx = \matrix_(i, j) ((i != r)%:R * (j != c)%:R * pivmx A r c i j).
Proof.
apply/matrixP => i j; rewrite [RHS]mxE [pivmx _ _ _ _ _]mxE.
case: (i =P r) => [->|_]; first by rewrite clearmx_row !mul0r.
case: (j =P c) => [->|_]; first by rewrite clearmx_col mulr0 mul0r.
by rewrite !mul1r mxE.
Qed.

Lemma clearmx_rowsum i :
  \sum_j clearmx i j = \sum_j A i j - e * A i c * \sum_j A r j.
Proof.
rewrite mulr_sumr -sumrB; apply: eq_bigr => j _; by rewrite mxE.
Qed.

Lemma clearmx_colsum j :
  \sum_i clearmx i j = \sum_i A i j - e * (\sum_i A i c) * A r j.
Proof.
rewrite mulr_sumr mulr_suml -sumrB; apply: eq_bigr => i _; by rewrite mxE.
Qed.

Lemma clearmx_sum :
  \sum_i \sum_j A i j = \sum_i \sum_j clearmx i j + e * (\sum_i A i c) * (\sum_j A r j).
Proof.
have -> : \sum_i \sum_j clearmx i j =
          \sum_i \sum_j A i j - e * (\sum_i A i c) * (\sum_j A r j).
  by rewrite (eq_bigr _ (fun i _ => clearmx_rowsum i)) sumrB -mulr_suml -mulr_sumr.
by rewrite subrK.
Qed.

End Clear.

Definition nzrow (m n : nat) (A : 'M[Z]_(m, n)) : pred 'I_m := fun i => [exists j, A i j != 0].

Lemma small_nz_sqr (x : Z) : x \in [:: -1; 0; 1] -> x != 0 -> x * x = 1.
Proof. by rewrite !inE => /or3P [] /eqP ->. Qed.

Lemma TUmx_entry' m n (A : 'M[Z]_(m, n)) i j : TUmx A -> A i j \in [:: -1; 0; 1].
Proof. by move=> /(_ 1%N (fun _ => i) (fun _ => j)); rewrite det_mx11 mxE. Qed.

Theorem TUmx_even_sum4 m n (A : 'M[Z]_(m, n)) :
  TUmx A -> (forall i, evenZ (\sum_j A i j)) -> (forall j, evenZ (\sum_i A i j)) ->
  dvd4Z (\sum_i \sum_j A i j).
Proof.
have [N] := ubnP #|nzrow A|; elim: N A => // N IH A; rewrite ltnS => leN TU ER EC.
case: (altP (A =P 0)) => [->|/matrix0Pn [r [c nz]]].
  exists 0; rewrite !addr0; apply: big1 => i _; apply: big1 => j _; by rewrite mxE.
have sm : A r c \in [:: -1; 0; 1] := TUmx_entry' r c TU.
have ee : A r c * A r c = 1 := small_nz_sqr sm nz.
have pm : A r c \in [:: 1; -1].
  by move: sm nz; rewrite !inE => /or3P [] /eqP ->.
rewrite (clearmx_sum A r c); apply: dvd4Z_add; last exact: dvd4Z_even_mul.
apply: IH.
- apply: leq_trans leN; apply: proper_card; apply/properP; split.
    apply/subsetP => i /existsP [j]; rewrite mxE => nz'.
    apply/existsP; case: (altP (A i j =P 0)) => [z|nz'']; last by exists j.
    exists c; apply: contraNneq nz' => z'; by rewrite z z' mulr0 mul0r subrr.
  exists r; first by apply/existsP; exists c.
  by apply/negP => /existsP [j]; rewrite clearmx_row // eqxx.
- rewrite clearmx_pivmx //; apply: TUmx_scale_small; last exact: TUmx_pivot.
  + by move=> i; case: (i != r).
  + by move=> j; case: (j != c).
- move=> i; rewrite clearmx_rowsum; apply: evenZ_add => //.
  by apply: evenZ_opp; apply: evenZ_mull.
- move=> j; rewrite clearmx_colsum; apply: evenZ_add => //.
  by apply: evenZ_opp; apply: evenZ_mulr; apply: evenZ_mull.
Qed.

(* ========================================================================================== *)
(* 4. list level: sums and nonzero counts                                                      *)
(* ========================================================================================== *)

Lemma sumZ_big (v : seq Z) : fold_right Z.add Z0 v = \sum_(x <- v) x.
Proof. by elim: v => [|x v IH]; rewrite ?big_nil // big_cons /= IH. Qed.

Lemma big_seq_ord k (v : seq Z) : size v = k -> \sum_(x <- v) x = \sum_(j < k) nth 0 v j.
Proof. by move=> <-; rewrite (big_nth 0) big_mkord. Qed.

Lemma entry_sum_big (N : mat) : entry_sum N = \sum_(r <- N) \sum_(x <- r) x.
Proof.
rewrite /entry_sum; elim: N => [|r N IH]; rewrite ?big_nil // big_cons /= IH sumZ_big.
by [].
Qed.

Lemma count_nz_cons x (v : seq Z) : count_nz (x :: v) = ((x != 0%R) + count_nz v)%N.
Proof.
rewrite /count_nz /=; have -> : Z.eqb x Z0 = (x == 0) by [].
by case: (x == 0).
Qed.

(* for entries in {-1,0,1} the sum and the number of nonzeros have the same parity *)
Lemma sum_count_parity (v : seq Z) : all (fun x => x \in [:: -1; 0; 1]) v ->
  exists q : Z, \sum_(x <- v) x = Z.of_nat (count_nz v) + (q + q).
Proof.
elim: v => [_|x v IH /= /andP [sx /IH [q E]]]; first by exists 0; rewrite big_nil.
rewrite big_cons count_nz_cons E.
move: sx; rewrite !inE => /or3P [] /eqP -> /=.
- exists (q - 1); lia.
- exists q; lia.
- exists q; lia.
Qed.

Lemma two_nz_even (v : seq Z) : all (fun x => x \in [:: -1; 0; 1]) v ->
  count_nz v = 2%N -> evenZ (\sum_(x <- v) x).
Proof. move=> /sum_count_parity [q ->] ->; exists (q + 1); lia. Qed.

Lemma wf_matP k l (N : mat) : wf_mat k l N = true ->
  size N = k /\ (forall i, (i < k)%N -> size (nth [::] N i) = l).
Proof.
rewrite /wf_mat => /andP [/Nat.eqb_eq sz]; rewrite forallbE => /(all_nthP [::]) H.
split=> // i lti; apply/Nat.eqb_eq; apply: H; by rewrite -[size N]/(length N) sz.
Qed.

Lemma wf_submat' (M : mat) rs cs : wf_mat (length rs) (length cs) (submat M rs cs) = true.
Proof.
rewrite /wf_mat /submat map_length Nat.eqb_refl /= forallbE all_map; apply/allP => i _ /=.
by rewrite map_length Nat.eqb_refl.
Qed.

(* ========================================================================================== *)
(* 5. a totally unimodular square matrix is not a bad cycle                                    *)
(* ========================================================================================== *)

Theorem tu_not_bad_cycle k (N : mat) :
  wf_mat k k N = true -> tu_bf k k N = true -> bad_cycle k N = false.
Proof.
move=> /wf_matP [szN szr] /tu_bfP TU; apply/negP.
rewrite /bad_cycle /two_per_line => /andP [/andP [rows cols] /Z.eqb_eq md].
have tern i j : (i < k)%N -> (j < k)%N -> get N i j \in [:: -1; 0; 1] by exact: TUmx_entries.
have rowE (i : 'I_k) : \sum_(j < k) (mx_of k k N) i j = \sum_(x <- nth [::] N i) x.
  rewrite (big_seq_ord (szr i (ltn_ord i))); apply: eq_bigr => j _.
  by rewrite mxE getE.
have ER (i : 'I_k) : evenZ (\sum_j (mx_of k k N) i j).
  rewrite rowE; apply: two_nz_even.
    apply/(all_nthP 0) => j; rewrite szr // => ltj.
    by rewrite -getE; apply: tern.
  move: rows; rewrite forallbE => /(all_nthP [::]) /(_ i); rewrite szN => /(_ (ltn_ord i)).
  by move/Nat.eqb_eq.
have EC (j : 'I_k) : evenZ (\sum_i (mx_of k k N) i j).
  have -> : \sum_i (mx_of k k N) i j = \sum_(x <- [seq get N i j | i <- seq.iota 0 k]) x.
    rewrite big_map; have -> : seq.iota 0 k = index_iota 0 k by rewrite /index_iota subn0.
    by rewrite big_mkord; apply: eq_bigr => i _; rewrite mxE.
  apply: two_nz_even.
    rewrite all_map; apply/allP => i; rewrite mem_iota add0n /= => lti.
    by apply: tern.
  move: cols; rewrite /transpose /mk_mat forallbE all_map iotaE => /allP /(_ j).
  by rewrite mem_iota add0n /= ltn_ord => /(_ isT) /Nat.eqb_eq.
have [q E] := TUmx_even_sum4 TU ER EC.
have S : entry_sum N = \sum_i \sum_j (mx_of k k N) i j.
  rewrite entry_sum_big (big_nth [::]) szN big_mkord; apply: eq_bigr => i _.
  by rewrite rowE.
move: md; rewrite S E; lia.
Qed.

(* ========================================================================================== *)
(* 6. the theorems                                                                             *)
(* ========================================================================================== *)

Lemma tu_submat_not_bad m n (M : mat) rs cs :
  length rs = length cs -> all_lt m rs = true -> all_lt n cs = true -> tu_bf m n M = true ->
  bad_cycle (length rs) (submat M rs cs) = false.
Proof.
move=> sz ltr ltc tu; apply: tu_not_bad_cycle.
- by rewrite [X in wf_mat _ X _]sz; apply: wf_submat'.
- by rewrite [X in tu_bf _ X _]sz; apply: (tu_bf_submat ltr ltc tu).
Qed.

(* every totally unimodular matrix is balanced (textbook definition) *)
Theorem tu_Balanced m n (M : mat) : tu_bf m n M = true -> BalancedProofs.Balanced m n M.
Proof. move=> tu rs cs sz ltr ltc _ _; exact: (tu_submat_not_bad sz ltr ltc tu). Qed.

(* ... and the brute-force oracles agree with that *)
Theorem tu_balanced m n (M : mat) : tu_bf m n M = true -> balanced_bf m n M = true.
Proof. by move=> tu; apply/BalancedProofs.balanced_bf_spec; apply: tu_Balanced. Qed.

(* the form asked for (the well-formedness hypothesis is not needed) *)
Corollary tu_balanced_wf : forall m n M,
  wf_mat m n M = true -> tu_bf m n M = true -> balanced_bf m n M = true.
Proof. by move=> m n M _; apply: tu_balanced. Qed.

(* no certificate of unbalancedness can be valid for a totally unimodular matrix *)
Corollary tu_no_bad_cycle : forall m n M rs cs,
  tu_bf m n M = true -> check_unbalanced m n M rs cs = false.
Proof.
move=> m n M rs cs tu; apply/negP; rewrite /check_unbalanced.
move=> /andP [/andP [/andP [/andP [/andP [/Nat.eqb_eq sz ltr] ltc] _] _]].
by rewrite (tu_submat_not_bad sz ltr ltc tu).
Qed.

Print Assumptions TUmx_even_sum4.
Print Assumptions tu_not_bad_cycle.
Print Assumptions tu_Balanced.
Print Assumptions tu_balanced.
Print Assumptions tu_balanced_wf.
Print Assumptions tu_no_bad_cycle.
