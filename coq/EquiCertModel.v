(* EquiCertModel.v — C16 at every size and every rank for constructed instances: the case carries a certificate (a diagonal d
   of length r <= m, a list of elementary row operations, a matrix X, a column set B and a total-unimodularity witness for X)
   from which the judge recomputes M = L X with L = ops([diag d; 0]) (m x r), checks that the columns B of X (r x n) form the
   identity and that X is certified totally unimodular (network witness or series-parallel reduction).  Then M has rank r and
   is equimodular with determinant gcd |prod d| for the basis B (EquiUnique.equimodular_construct, minors_gcd_cert_L: the gcd
   of the r x r minors of L is invariant under row operations), and by EquiUnique.equimodular_unique for no other value, so
   the answer of CMRequimodularTest / CMRunimodularTest is known without any exponential oracle.  r = m is the full-row-rank
   case (L square, |det L| = |prod d|: det_apply_ops).
   No proofs here. *)
From Cmr Require Import Base Det TuModel GraphModel SpModel TuNetModel EquiModel.
Local Open Scope Z_scope.

(* elementary row operations on a matrix with m rows (and r columns) *)
Inductive rowop := RAdd (i j : nat) (c : Z) | RSwap (i j : nat) | RNeg (i : nat).

(* RAdd i j c: row i += c * row j (identity if i = j or an index is out of range); RSwap i j: exchange rows i and j
   (identity if an index is out of range); RNeg i: negate row i (identity if out of range) *)
Definition apply_op (m r : nat) (L : mat) (o : rowop) : mat :=
  match o with
  | RAdd i j c =>
    if Nat.ltb i m && Nat.ltb j m && negb (Nat.eqb i j)
    then mk_mat m r (fun a b => if Nat.eqb a i then get L i b + c * get L j b else get L a b)
    else L
  | RSwap i j =>
    if Nat.ltb i m && Nat.ltb j m
    then mk_mat m r (fun a b => if Nat.eqb a i then get L j b else if Nat.eqb a j then get L i b else get L a b)
    else L
  | RNeg i =>
    if Nat.ltb i m
    then mk_mat m r (fun a b => if Nat.eqb a i then - get L i b else get L a b)
    else L
  end.

Definition diag_mat (d : list Z) : mat :=
  mk_mat (length d) (length d) (fun i j => if Nat.eqb i j then nthZ d i else 0).

(* the m x (length d) matrix [diag d; 0] (m >= length d); stack_diag (length d) d is diag_mat d *)
Definition stack_diag (m : nat) (d : list Z) : mat :=
  mk_mat m (length d) (fun i j => if Nat.eqb i j then nthZ d i else 0).

(* the columns B (the first r of them) of the r x n matrix X form the r x r identity matrix *)
Definition identity_at (r : nat) (X : mat) (B : list nat) : bool :=
  forallb (fun a => forallb (fun b => get X a (nthn B b) =? (if Nat.eqb a b then 1 else 0)) (iota 0 r)) (iota 0 r).

(* A : m x r, X : r x n (the same function as EquiProofs.mat_mul_cols, which lives in a proof file) *)
Definition mat_mul (m r n : nat) (A X : mat) : mat :=
  mk_mat m n (fun i j => fold_right Z.add 0 (map (fun a => get A i a * get X a j) (iota 0 r))).

Definition prod_list (d : list Z) : Z := fold_right Z.mul 1 d.

(* one operation: tag(0 RAdd, 1 RSwap, 2 RNeg) i j c; unused fields are present and ignored *)
Definition dop : dec rowop :=
  tag <- dZ ;; i <- dnat ;; j <- dnat ;; c <- dZ ;;
  if tag =? 0 then dret (RAdd i j c)
  else if tag =? 1 then dret (RSwap i j)
  else if tag =? 2 then dret (RNeg i)
  else fun _ => None.

(* record: variant kin M rc verdict kout | nd d | nops (tag i j c)* | X (rows cols entries) | nB B | witness *)
Definition equi_cert_input :=
  variant <- dZ ;; kin <- dZ ;; x <- dmat ;; rc <- dZ ;; v <- dZ ;; kout <- dZ ;;
  d <- dlist dZ ;; ops <- dlist dop ;; xx <- dmat ;; B <- dlist dnat ;; w <- dwitness ;;
  dend (variant, kin, x, rc, v, kout, d, ops, xx, B, w).

(* L = ops([diag d; 0]): m x r with r = length d <= m, of rank r when all d_i are nonzero *)
Definition cert_L (m : nat) (d : list Z) (ops : list rowop) : mat :=
  fold_left (apply_op m (length d)) ops (stack_diag m d).

(* the certificate check: r = |d| <= m, M (m x n) = L X with L = ops([diag d; 0]) (m x r), all d_i nonzero, X (r x n) has the
   identity in the columns B (|B| = r, increasing, below n) and is certified totally unimodular by w.  M has rank r; r = m is
   the full-row-rank case *)
Definition equi_cert_check (m n : nat) (M : mat) (d : list Z) (ops : list rowop)
           (xr xc : nat) (X : mat) (B : list nat) (w : witness) : bool :=
  let r := length d in
  Nat.leb r m && forallb (fun x => negb (x =? 0)) d &&
  Nat.eqb xr r && Nat.eqb xc n &&
  wf_mat m r (cert_L m d ops) && wf_mat m n M && wf_mat r n X &&
  mat_eqb M (mat_mul m r n (cert_L m d ops) X) &&
  identity_at r X B && strictly_increasing B && all_lt n B && Nat.eqb (length B) r &&
  tu_certified r n X w.

(* what the certificate says the library must answer: the determinant gcd *)
Definition equi_cert_k (d : list Z) : Z := Z.abs (prod_list d).

(* variant 0: equimodular (kin = requested determinant gcd, 0 = any); variant 2: unimodular *)
Definition equi_cert_truth (variant kin k : Z) : bool :=
  if variant =? 0 then (kin =? 0) || (kin =? k) else (k =? 1).

(* 0 accepted (also: strong variants, certificate does not check, CMR_ERROR_OVERFLOW: nothing claimed); 1 malformed record;
   450 call failed on a certified instance; 451 verdict not written; 452 verdict differs from the certified truth;
   453 reported determinant gcd differs from the certified one *)
Definition judge_equi_cert (rec : list Z) : Z :=
  match equi_cert_input rec with
  | Some ((variant, kin, (m, n, M), rc, v, kout, d, ops, (xr, xc, X), B, w), _) =>
    if negb ((0 <=? variant) && (variant <=? 3) && (0 <=? kin)) then 1
    else if (variant =? 1) || (variant =? 3) then 0
    else if negb (equi_cert_check m n M d ops xr xc X B w) then 0
    else
      let k := equi_cert_k d in
      if rc =? 5 then 0
      else if negb (rc =? 0) then 450
      else if negb ((v =? 0) || (v =? 1)) then 451
      else if negb (Bool.eqb (v =? 1) (equi_cert_truth variant kin k)) then 452
      else if (variant =? 0) && (v =? 1) && negb (kout =? k) then 453
      else 0
  | None => 1
  end.
