(* CamionProofs.v — what acceptance by judge_camion means. *)
From Cmr Require Import Base Det TuModel SpModel CamionModel BaseProofs.
Local Open Scope Z_scope.

Definition camion_input :=
  x <- dmat ;;
  rc1 <- dZ ;; v <- dZ ;; viol <- dsub3 ;;
  rc2 <- dZ ;; was <- dZ ;; Sg <- dcsr_opt ;; viol2 <- dsub3 ;;
  rc3 <- dZ ;; v' <- dZ ;;
  rc4 <- dZ ;; was2 <- dZ ;; S2 <- dcsr_opt ;;
  dend (x, (rc1, v, viol), (rc2, was, Sg, viol2), (rc3, v'), (rc4, was2, S2)).

Ltac kill_if H E :=
  match type of H with
  | (if negb ?c then _ else _) = 0 => destruct c eqn:E; cbn [negb] in H; [|discriminate H]
  | (if ?c then _ else _) = 0 => destruct c eqn:E; [discriminate H|]
  end.

Theorem judge_camion_sound : forall rec m n M rc1 v viol rc2 was Sg viol2 rc3 v' rc4 was2 S2 rest,
  camion_input rec = Some (((m, n, M), (rc1, v, viol), (rc2, was, Sg, viol2), (rc3, v'), (rc4, was2, S2)), rest) ->
  is_ternary M = true ->
  judge_camion rec = 0 ->
  rc1 = 0 /\ rc2 = 0 /\ rc3 = 0 /\ rc4 = 0 /\
  exists Sm,
    Sg = Some (m, n, Sm) /\
    same_support M Sm = true /\                         (* signing changes signs only *)
    (v = 1 <-> Sm = M) /\ (v = 0 \/ v = 1) /\           (* the test says yes iff signing leaves the matrix unchanged *)
    (was = 1 <-> Sm = M) /\
    v' = 1 /\                                           (* the output passes the test *)
    S2 = Some (m, n, Sm) /\ was2 = 1 /\                 (* signing again changes nothing *)
    ((m * n <= 42)%nat -> tu_bf m n M = true -> v = 1) /\   (* every TU matrix is Camion-signed (decided up to 42 cells) *)
    ((m * n <= 20)%nat -> regular_bf m n (support M) = true ->
       tu_bf m n Sm = true /\ (v = 1 -> tu_bf m n M = true)) /\
    (v = 0 -> forall rs cs, viol = Some (rs, cs) -> check_camion_violator m n M rs cs = true).
Proof.
  intros rec m n M rc1 v viol rc2 was Sg viol2 rc3 v' rc4 was2 S2 rest Hdec Htern Hj.
  unfold judge_camion in Hj. unfold camion_input in Hdec. rewrite Hdec in Hj.
  rewrite Htern in Hj. cbn [negb] in Hj.
  kill_if Hj Erc. kill_if Hj Eflags.
  apply andb_true_iff in Erc. destruct Erc as [Erc R4]. apply andb_true_iff in Erc. destruct Erc as [Erc R3].
  apply andb_true_iff in Erc. destruct Erc as [R1 R2].
  apply Z.eqb_eq in R1, R2, R3, R4.
  apply andb_true_iff in Eflags. destruct Eflags as [Eflags W2]. apply andb_true_iff in Eflags. destruct Eflags as [Eflags V'].
  apply andb_true_iff in Eflags. destruct Eflags as [V W].
  destruct Sg as [[[ms ns] Sm]|]; [|destruct S2; discriminate].
  destruct S2 as [[[ms2 ns2] Sm2]|]; [|discriminate].
  kill_if Hj Eshape. apply andb_true_iff in Eshape. destruct Eshape as [Eshape Hsup].
  apply andb_true_iff in Eshape. destruct Eshape as [Hm Hn].
  apply Nat.eqb_eq in Hm, Hn. subst ms ns.
  kill_if Hj Ev. apply Bool.eqb_prop in Ev.
  kill_if Hj Ewas. apply Bool.eqb_prop in Ewas.
  kill_if Hj Ev'. apply Z.eqb_eq in Ev'.
  kill_if Hj Eidem. apply andb_true_iff in Eidem. destruct Eidem as [Eidem Hw2]. apply andb_true_iff in Eidem.
  destruct Eidem as [Eidem Heq2].
  apply andb_true_iff in Eidem. destruct Eidem as [Hm2 Hn2]. apply Nat.eqb_eq in Hm2, Hn2. subst ms2 ns2.
  apply mat_eqb_eq in Heq2. subst Sm2. apply Z.eqb_eq in Hw2.
  kill_if Hj Etu.
  repeat split; try assumption.
  exists Sm. split; [reflexivity|]. split; [exact Hsup|].
  assert (Hv : v = 1 <-> Sm = M).
  { rewrite <- mat_eqb_eq. rewrite <- Ev. split; intro H; [subst v; reflexivity|apply Z.eqb_eq; exact H]. }
  assert (Hwas : was = 1 <-> Sm = M).
  { rewrite <- mat_eqb_eq. rewrite <- Ewas. split; intro H; [subst was; reflexivity|apply Z.eqb_eq; exact H]. }
  split; [exact Hv|].
  split. { apply orb_true_iff in V. destruct V as [V|V]; apply Z.eqb_eq in V; auto. }
  split; [exact Hwas|]. split; [exact Ev'|]. split; [reflexivity|]. split; [exact Hw2|].
  split.
  { intros Hsz42 Htu. apply Nat.leb_le in Hsz42. rewrite Hsz42, Htu in Etu. rewrite !andb_true_r in Etu.
    apply negb_false_iff in Etu. apply Z.eqb_eq in Etu. exact Etu. }
  split.
  { intros Hsz Hreg.
    assert (Hle : Nat.leb (m * n) 20 = true) by (apply Nat.leb_le; exact Hsz).
    rewrite Hle in Hj. rewrite Hreg in Hj.
    kill_if Hj Ereg1. cbn [andb] in Ereg1. apply negb_false_iff in Ereg1.
    kill_if Hj Ereg2.
    split; [exact Ereg1|]. intros Hv1. rewrite Hv1 in Ereg2. cbn in Ereg2. apply negb_false_iff in Ereg2. exact Ereg2. }
  intros Hv0 rs cs Hviol. subst v viol.
  destruct (if Nat.leb (m * n) 20 then regular_bf m n (support M) else false).
  - destruct (true && negb (tu_bf m n Sm)); [discriminate|].
    destruct (true && (0 =? 1) && negb (tu_bf m n M)); [discriminate|].
    cbn in Hj. destruct (check_camion_violator m n M rs cs); [reflexivity|discriminate].
  - cbn in Hj. destruct (check_camion_violator m n M rs cs); [reflexivity|discriminate].
Qed.

(* the violator check: a square in-range duplicate-free submatrix with exactly two nonzeros in every row and
   column and determinant -2 or +2 *)
Theorem check_camion_violator_spec : forall m n M rs cs,
  check_camion_violator m n M rs cs = true ->
  length rs = length cs /\ all_lt m rs = true /\ all_lt n cs = true /\ nodupn rs = true /\ nodupn cs = true /\
  two_per_line (length rs) (submat M rs cs) = true /\
  (det (length rs) (submat M rs cs) = 2 \/ det (length rs) (submat M rs cs) = -2) /\
  check_violator m n M rs cs = true.
Proof.
  intros m n M rs cs H. unfold check_camion_violator in H.
  apply andb_true_iff in H. destruct H as [H Hd]. apply andb_true_iff in H. destruct H as [H H2].
  apply andb_true_iff in H. destruct H as [H H5]. apply andb_true_iff in H. destruct H as [H H4].
  apply andb_true_iff in H. destruct H as [H H3]. apply andb_true_iff in H. destruct H as [H1 H2'].
  assert (Hdet : det (length rs) (submat M rs cs) = 2 \/ det (length rs) (submat M rs cs) = -2).
  { apply orb_true_iff in Hd. destruct Hd as [Hd|Hd]; apply Z.eqb_eq in Hd; auto. }
  repeat split; auto; try (apply Nat.eqb_eq; assumption).
  unfold check_violator. rewrite H1, H2', H3, H4, H5. cbn [andb].
  unfold small_det. destruct Hdet as [E|E]; rewrite E; reflexivity.
Qed.
