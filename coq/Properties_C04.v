(* Properties_C04.v — C04: node flags and leaf certificates in a decomposition tree never lie. *)
From Cmr Require Import Base Det BaseProofs PivotModel PivotProofs TuModel SpModel SpProofs SpProofs2
  GraphModel GraphProofs KsumModel KsumProofs TreeModel TreeProofs.
Local Open Scope Z_scope.

(* graph data stored at an accepted node reproduces the node's matrix (its transpose for a cograph): the stored
   forest/coforest/reversals satisfy the fundamental-cycle resp. network specification proved in Properties_C05/C06 *)
Theorem C04_stored_graphs_reproduce_matrix : forall P Cs, check_node P Cs = 0 ->
  (forall g, t_graph P = Some g ->
     if t_tern P then network_represents (t_m P) (t_n P) (t_M P) g
     else graph_represents (t_m P) (t_n P) (t_M P) g) /\
  (forall g, t_cograph P = Some g ->
     if t_tern P then network_represents (t_n P) (t_m P) (transpose (t_m P) (t_n P) (t_M P)) g
     else graph_represents (t_n P) (t_m P) (transpose (t_m P) (t_n P) (t_M P)) g).
Proof. exact node_graphs_sound. Qed.
Print Assumptions C04_stored_graphs_reproduce_matrix.

(* the flag part of the node check: stored determinant-type minors have |det| >= 2 inside the node's matrix, an R10
   node represents R10, and every non-zero regularity / graphicness / cographicness flag agrees with the Coq oracles
   (tu_bf = determinant definition, regular_bf = signable to TU, graphic_bf = brute force over forests) on the nodes
   where they apply (<= 36 entries; <= 4 rows resp. columns) *)
Theorem C04_flags_agree_with_oracles : forall P, check_flags P = 0 -> flags_spec P.
Proof. exact check_flags_sound. Qed.
Print Assumptions C04_flags_agree_with_oracles.

(* every node of an accepted tree satisfies both of the above *)
Theorem C04_every_node : forall t, check_tree t = 0 ->
  Forall_tree (fun P Cs => check_node P Cs = 0) t.
Proof. exact check_tree_all_nodes. Qed.
Print Assumptions C04_every_node.

(* the flags of every inner node of an accepted tree are consistent with the flags of its children: a positive flag
   of a series-parallel, pivot, 1-sum or 2-sum node (regularity also for Delta-, Y- and 3-sum nodes) is never
   accompanied by a negative flag of a child, a negative one never by positive flags of all children *)
Theorem C04_flags_consistent_with_children : forall rec cfg bot m n M tr rest,
  tree_input rec = Some ((cfg, bot, (m, n, M), 0, Some tr), rest) ->
  judge_tree rec = 0 ->
  Forall_tree (fun P Cs => check_prop P Cs = 0) tr.
Proof. exact judge_tree_flags_consistent. Qed.
Print Assumptions C04_flags_consistent_with_children.

Theorem C04_flag_rule : forall p cs, sum_flag_ok p cs = true ->
  (0 < p -> Forall (fun c => 0 <= c) cs) /\ (p < 0 -> ~ Forall (fun c => 0 < c) cs).
Proof. exact sum_flag_ok_spec. Qed.
Print Assumptions C04_flag_rule.

(* ---------- the flag rule is a theorem where the development proves the closure property it encodes: the regularity flag of a
   1-sum / 2-sum / series-parallel / pivot node is positive exactly when the flags of its children are, because regularity of
   the node's matrix is equivalent to regularity of the children's matrices (OneSum.v, RegClosure.v, RegPivot.v); for
   Delta-, Y- and 3-sum nodes the rule is the classical theorem of Seymour, which is not formalised ---------- *)
From Cmr Require OneSum RegClosure RegPivot MatModel RelModel.
Theorem C04_regularity_of_a_one_sum : forall m1 n1 A m2 n2 B, wf_mat m1 n1 A = true -> wf_mat m2 n2 B = true ->
  regular_bf (m1 + m2) (n1 + n2) (MatModel.block_diag2 m1 n1 A m2 n2 B) = regular_bf m1 n1 A && regular_bf m2 n2 B.
Proof. exact OneSum.regular_bf_onesum. Qed.
Print Assumptions C04_regularity_of_a_one_sum.

Theorem C04_total_unimodularity_of_a_one_sum : forall m1 n1 A m2 n2 B, wf_mat m1 n1 A = true -> wf_mat m2 n2 B = true ->
  tu_bf (m1 + m2) (n1 + n2) (MatModel.block_diag2 m1 n1 A m2 n2 B) = tu_bf m1 n1 A && tu_bf m2 n2 B.
Proof. exact OneSum.tu_bf_onesum. Qed.
Print Assumptions C04_total_unimodularity_of_a_one_sum.

Theorem C04_regularity_of_a_two_sum : forall m1 n1 M1 m2 n2 M2 r1 c2 M, wf_mat m1 n1 M1 = true -> wf_mat m2 n2 M2 = true ->
  twosum 2 m1 n1 M1 m2 n2 M2 (Some r1) None None (Some c2) = KOk M -> is_binary M1 = true -> is_binary M2 = true ->
  (exists j, (j < n1)%nat /\ get M1 r1 j <> 0) -> (exists i, (i < m2)%nat /\ get M2 i c2 <> 0) ->
  (regular_bf (m1 - 1 + m2) (n1 + (n2 - 1)) M = true <-> regular_bf m1 n1 M1 = true /\ regular_bf m2 n2 M2 = true).
Proof.
  intros m1 n1 M1 m2 n2 M2 r1 c2 M W1 W2 HS B1 B2 E1 E2. split.
  - exact (RegClosure.regular_bf_twosum_row_col_conv m1 n1 M1 m2 n2 M2 r1 c2 M W1 W2 HS B1 B2 E1 E2).
  - intros [R1 R2]. exact (RegClosure.regular_bf_twosum_row_col m1 n1 M1 m2 n2 M2 r1 c2 M W1 W2 HS R1 R2).
Qed.
Print Assumptions C04_regularity_of_a_two_sum.

Theorem C04_regularity_of_a_series_parallel_step : forall m' n' M' (isr : bool) k, wf_mat m' n' M' = true -> is_binary M' = true ->
  (if isr then Nat.ltb k m' else Nat.ltb k n') = true -> RelModel.line_reducible false m' n' M' isr k = true ->
  regular_bf m' n' M' =
  (if isr then regular_bf (m' - 1) n' (submat M' (RelModel.keep_line m' k) (iota 0 n'))
   else regular_bf m' (n' - 1) (submat M' (iota 0 m') (RelModel.keep_line n' k))).
Proof. exact RegClosure.regular_bf_add_line. Qed.
Print Assumptions C04_regularity_of_a_series_parallel_step.

Theorem C04_regularity_of_a_pivot : forall m n M r c,
  wf_mat m n M = true -> is_binary M = true -> Nat.ltb r m = true -> Nat.ltb c n = true -> get M r c = 1 ->
  regular_bf m n (reduce 2 (pivot_raw m n M r c)) = regular_bf m n M.
Proof. exact RegPivot.regular_bf_bpivot_std. Qed.
Print Assumptions C04_regularity_of_a_pivot.
