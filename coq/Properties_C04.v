(* Properties_C04.v — C04: node flags and leaf certificates in a decomposition tree never lie. *)
From Cmr Require Import Base Det BaseProofs PivotModel PivotProofs TuModel SpModel SpProofs SpProofs2
  GraphModel GraphProofs KsumModel KsumProofs TreeModel TreeProofs.
Local Open Scope Z_scope.

(* graph data stored at an accepted node reproduces the node's matrix (its transpose for a cograph): the stored
   forest/coforest/reversals satisfy the fundamental-cycle resp. network specification proved in Properties_C05/C06 *)
Theorem C04_stored_graphs_reproduce_matrix : forall P Cs, check_node P Cs = 0 ->
  (forall g, t_graph P = Some g ->
     if t_tern P then network_represents (t_m P) (t_n P) (t_M P) g
     else graph_represents (t_m P) (t_n P) (t_M P) g) /\
  (forall g, t_cograph P = Some g ->
     if t_tern P then network_represents (t_n P) (t_m P) (transpose (t_m P) (t_n P) (t_M P)) g
     else graph_represents (t_n P) (t_m P) (transpose (t_m P) (t_n P) (t_M P)) g).
Proof. exact node_graphs_sound. Qed.
Print Assumptions C04_stored_graphs_reproduce_matrix.

(* the flag part of the node check: stored determinant-type minors have |det| >= 2 inside the node's matrix, an R10
   node represents R10, and every non-zero regularity / graphicness / cographicness flag agrees with the Coq oracles
   (tu_bf = determinant definition, regular_bf = signable to TU, graphic_bf = brute force over forests) on the nodes
   where they apply (<= 36 entries; <= 4 rows resp. columns) *)
Theorem C04_flags_agree_with_oracles : forall P, check_flags P = 0 -> flags_spec P.
Proof. exact check_flags_sound. Qed.
Print Assumptions C04_flags_agree_with_oracles.

(* every node of an accepted tree satisfies both of the above *)
Theorem C04_every_node : forall t, check_tree t = 0 ->
  Forall_tree (fun P Cs => check_node P Cs = 0) t.
Proof. exact check_tree_all_nodes. Qed.
Print Assumptions C04_every_node.

(* the flags of every inner node of an accepted tree are consistent with the flags of its children: a positive flag
   of a series-parallel, pivot, 1-sum or 2-sum node (regularity also for Delta-, Y- and 3-sum nodes) is never
   accompanied by a negative flag of a child, a negative one never by positive flags of all children *)
Theorem C04_flags_consistent_with_children : forall rec cfg bot m n M tr rest,
  tree_input rec = Some ((cfg, bot, (m, n, M), 0, Some tr), rest) ->
  judge_tree rec = 0 ->
  Forall_tree (fun P Cs => check_prop P Cs = 0) tr.
Proof. exact judge_tree_flags_consistent. Qed.
Print Assumptions C04_flags_consistent_with_children.

Theorem C04_flag_rule : forall p cs, sum_flag_ok p cs = true ->
  (0 < p -> Forall (fun c => 0 <= c) cs) /\ (p < 0 -> ~ Forall (fun c => 0 < c) cs).
Proof. exact sum_flag_ok_spec. Qed.
Print Assumptions C04_flag_rule.
