From Cmr Require Import Base Det TreeModel.
Theorem placeholder_C04 : True. Proof. exact I. Qed.
