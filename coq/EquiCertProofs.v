(* EquiCertProofs.v — C16 at every size and every rank: soundness of the certificate judge of EquiCertModel.v.  A record whose
   certificate checks (M = L X, L = ops([diag d; 0]) of size m x r, r = |d| <= m) determines the determinant gcd k = |prod d|
   of M (EquiUnique.minors_gcd_cert_L), M is equimodular for k and (EquiUnique.equimodular_unique) for no other value; an
   accepted record therefore reports exactly what the definition (EquiProofs.Equimodular) says. *)
From Cmr Require Import Base Det BaseProofs BalancedProofs TuModel GraphModel SpModel TuNetModel EquiModel EquiProofs
  EquiCertModel EquiAux.
From Cmr Require TuNetProofs EquiUnique.
Local Open Scope Z_scope.

Lemma prod_list_nonzero : forall d,
  forallb (fun x => negb (x =? 0)) d = true -> prod_list d <> 0.
Proof.
  induction d as [|a d IH]; intros H; unfold prod_list; cbn [fold_right]; [lia|].
  cbn [forallb] in H. apply andb_true_iff in H. destruct H as [Ha Hd].
  apply negb_true_iff, Z.eqb_neq in Ha. specialize (IH Hd). unfold prod_list in IH. nia.
Qed.

(* what a checked certificate establishes, independently of the library's answer *)
Theorem equi_cert_check_sound : forall m n M d ops xr xc X B w,
  equi_cert_check m n M d ops xr xc X B w = true ->
  let k := equi_cert_k d in
  0 < k /\ Equimodular m n M k /\ (forall k', Equimodular m n M k' -> k' = k).
Proof.
  intros m n M d ops xr xc X B w H k. unfold equi_cert_check in H.
  apply andb_true_iff in H; destruct H as [H Htu].
  apply andb_true_iff in H; destruct H as [H HlenB].
  apply andb_true_iff in H; destruct H as [H Hlt].
  apply andb_true_iff in H; destruct H as [H Hsi].
  apply andb_true_iff in H; destruct H as [H Hid].
  apply andb_true_iff in H; destruct H as [H HM].
  apply andb_true_iff in H; destruct H as [H HwfX].
  apply andb_true_iff in H; destruct H as [H HwfM].
  apply andb_true_iff in H; destruct H as [H HwfL].
  apply andb_true_iff in H; destruct H as [H Hxc].
  apply andb_true_iff in H; destruct H as [H Hxr].
  apply andb_true_iff in H; destruct H as [H Hnz].
  rename H into Hlen. cbv zeta in *.
  apply Nat.leb_le in Hlen. apply Nat.eqb_eq in HlenB. apply mat_eqb_eq in HM.
  apply TuNetProofs.tu_certified_tu_bf in Htu.
  pose proof (prod_list_nonzero d Hnz) as Hp.
  set (r := length d) in *.
  assert (Hk : minors_gcd m r (cert_L m d ops) = k).
  { unfold k, equi_cert_k, prod_list. apply (EquiUnique.minors_gcd_cert_L m d ops Hlen). }
  assert (Hpos : 0 < k) by (unfold k, equi_cert_k; lia).
  assert (HE : Equimodular m n M k).
  { rewrite HM, mat_mul_eq, <- Hk.
    apply (equimodular_construct_b m r n (cert_L m d ops) X B); try assumption. rewrite Hk. exact Hpos. }
  split; [assumption|]. split; [assumption|].
  intros k' HE'. exact (EquiUnique.equimodular_unique' m n M k' k HE' HE).
Qed.

Theorem judge_equi_cert_sound : forall rec variant kin m n M rc v kout d ops xr xc X B w rest,
  equi_cert_input rec = Some ((variant, kin, (m, n, M), rc, v, kout, d, ops, (xr, xc, X), B, w), rest) ->
  variant = 0 \/ variant = 2 ->
  equi_cert_check m n M d ops xr xc X B w = true ->
  judge_equi_cert rec = 0 -> rc <> 5 ->
  let k := Z.abs (fold_right Z.mul 1 d) in
  rc = 0 /\ 0 < k /\ Equimodular m n M k /\ (forall k', Equimodular m n M k' -> k' = k) /\
  (v = 0 \/ v = 1) /\
  (variant = 0 -> (v = 1 <-> kin = 0 \/ kin = k)) /\
  (variant = 2 -> (v = 1 <-> k = 1)) /\
  (variant = 0 -> v = 1 -> kout = k).
Proof.
  intros rec variant kin m n M rc v kout d ops xr xc X B w rest Hdec Hvar Hchk HJ Hrc k.
  destruct (equi_cert_check_sound _ _ _ _ _ _ _ _ _ _ Hchk) as (Hpos & HE & HU).
  change (equi_cert_k d) with k in Hpos, HE, HU.
  unfold judge_equi_cert in HJ. rewrite Hdec in HJ. cbv beta iota zeta in HJ. rewrite Hchk in HJ.
  change (equi_cert_k d) with k in HJ.
  destruct ((0 <=? variant) && (variant <=? 3) && (0 <=? kin)); cbn [negb] in HJ; [|discriminate].
  assert (Hstrong : (variant =? 1) || (variant =? 3) = false) by (destruct Hvar as [-> | ->]; reflexivity).
  rewrite Hstrong in HJ. cbn [negb] in HJ.
  destruct (rc =? 5) eqn:E5; [apply Z.eqb_eq in E5; contradiction|].
  destruct (rc =? 0) eqn:E0; cbn [negb] in HJ; [|discriminate]. apply Z.eqb_eq in E0.
  destruct ((v =? 0) || (v =? 1)) eqn:Ev; cbn [negb] in HJ; [|discriminate].
  apply orb_true_iff in Ev. rewrite !Z.eqb_eq in Ev.
  destruct (Bool.eqb (v =? 1) (equi_cert_truth variant kin k)) eqn:Et; cbn [negb] in HJ; [|discriminate].
  apply Bool.eqb_prop in Et.
  repeat (split; [assumption|]).
  split; [|split].
  - intros ->. unfold equi_cert_truth in Et. cbn [Z.eqb] in Et.
    rewrite <- Z.eqb_eq, Et, orb_true_iff, !Z.eqb_eq. reflexivity.
  - intros ->. unfold equi_cert_truth in Et. cbn [Z.eqb] in Et.
    rewrite <- Z.eqb_eq, Et, Z.eqb_eq. reflexivity.
  - intros -> Hv. apply Z.eqb_eq in Hv. rewrite Hv in HJ. cbn [Z.eqb andb] in HJ.
    destruct (kout =? k) eqn:Ek; [now apply Z.eqb_eq in Ek | discriminate].
Qed.

(* the same in the shape of EquiProofs.judge_equimod_sound_spec (non-strong variants): the verdict and the reported
   determinant gcd are those of the definition *)
Corollary judge_equi_cert_sound_spec : forall rec variant kin m n M rc v kout d ops xr xc X B w rest,
  equi_cert_input rec = Some ((variant, kin, (m, n, M), rc, v, kout, d, ops, (xr, xc, X), B, w), rest) ->
  variant = 0 \/ variant = 2 ->
  equi_cert_check m n M d ops xr xc X B w = true ->
  judge_equi_cert rec = 0 -> rc <> 5 ->
  rc = 0 /\ (v = 0 \/ v = 1) /\
  (variant = 0 -> kin <> 0 -> (v = 1 <-> Equimodular m n M kin)) /\
  (variant = 0 -> kin = 0 -> (v = 1 <-> exists k, Equimodular m n M k)) /\
  (variant = 2 -> (v = 1 <-> Equimodular m n M 1)) /\
  (variant = 0 -> v = 1 -> Equimodular m n M kout).
Proof.
  intros rec variant kin m n M rc v kout d ops xr xc X B w rest Hdec Hvar Hchk HJ Hrc.
  destruct (judge_equi_cert_sound _ _ _ _ _ _ _ _ _ _ _ _ _ _ _ _ _ Hdec Hvar Hchk HJ Hrc)
    as (H0 & Hpos & HE & HU & Hv & H1 & H2 & H3).
  set (k := Z.abs (fold_right Z.mul 1 d)) in *.
  split; [assumption|]. split; [assumption|]. repeat split.
  - intros Hv1. destruct (proj1 (H1 H) Hv1) as [?| ->]; [contradiction | assumption].
  - intros HE'. apply (H1 H). right. now apply HU.
  - intros _. exists k. assumption.
  - intros _. apply (H1 H). now left.
  - intros Hv1. rewrite <- (proj1 (H2 H) Hv1). assumption.
  - intros HE'. apply (H2 H). symmetry. now apply HU.
  - intros Hvar0 Hv1. rewrite (H3 Hvar0 Hv1). assumption.
Qed.

(* ------------------------------------------------------------------------------------------ *)
(* non-vacuity                                                                                  *)
(* ------------------------------------------------------------------------------------------ *)

(* d = (2,3), ops = [row0 += 1*row1; swap 0 1], X = [1 0 1; 0 1 1] (SP-reducible, no witness), B = {0,1}:
   L = [[0;3];[2;3]], M = L X = [[0;3;3];[2;3;5]], k = 6 *)
Example ex_cert_record :
  judge_equi_cert [0; 0;  2; 3; 0; 3; 3; 2; 3; 5;  0; 1; 6;   2; 2; 3;   2; 0; 0; 1; 1; 1; 0; 1; 0;
                   2; 3; 1; 0; 1; 0; 1; 1;   2; 0; 1;   0] = 0.
Proof. vm_compute. reflexivity. Qed.

Example ex_cert_record_checks :
  equi_cert_check 2 3 [[0;3;3];[2;3;5]] [2;3] [RAdd 0 1 1; RSwap 0 1] 2 3 [[1;0;1];[0;1;1]] [0%nat;1%nat] WNone = true.
Proof. vm_compute. reflexivity. Qed.

Example ex_cert_wrong_k :
  judge_equi_cert [0; 0;  2; 3; 0; 3; 3; 2; 3; 5;  0; 1; 3;   2; 2; 3;   2; 0; 0; 1; 1; 1; 0; 1; 0;
                   2; 3; 1; 0; 1; 0; 1; 1;   2; 0; 1;   0] = 453.
Proof. vm_compute. reflexivity. Qed.

Example ex_cert_wrong_verdict :
  judge_equi_cert [2; 0;  2; 3; 0; 3; 3; 2; 3; 5;  0; 1; 0;   2; 2; 3;   2; 0; 0; 1; 1; 1; 0; 1; 0;
                   2; 3; 1; 0; 1; 0; 1; 1;   2; 0; 1;   0] = 452.
Proof. vm_compute. reflexivity. Qed.

(* rank-deficient: m = 3, d = (2,3) (r = 2), ops = [row2 += 1*row0; swap 0 1], X and B as above:
   L = [[0;3];[2;0];[2;0]], M = L X = [[0;3;3];[2;0;2];[2;0;2]] of rank 2, k = 6 *)
Example ex_cert_record_rank_deficient :
  judge_equi_cert [0; 0;  3; 3; 0; 3; 3; 2; 0; 2; 2; 0; 2;  0; 1; 6;   2; 2; 3;   2; 0; 2; 0; 1; 1; 0; 1; 0;
                   2; 3; 1; 0; 1; 0; 1; 1;   2; 0; 1;   0] = 0.
Proof. vm_compute. reflexivity. Qed.

Example ex_cert_record_rank_deficient_checks :
  equi_cert_check 3 3 [[0;3;3];[2;0;2];[2;0;2]] [2;3] [RAdd 2 0 1; RSwap 0 1] 2 3 [[1;0;1];[0;1;1]] [0%nat;1%nat] WNone = true.
Proof. vm_compute. reflexivity. Qed.

Example ex_cert_rank_deficient_wrong_k :
  judge_equi_cert [0; 0;  3; 3; 0; 3; 3; 2; 0; 2; 2; 0; 2;  0; 1; 2;   2; 2; 3;   2; 0; 2; 0; 1; 1; 0; 1; 0;
                   2; 3; 1; 0; 1; 0; 1; 1;   2; 0; 1;   0] = 453.
Proof. vm_compute. reflexivity. Qed.

Example ex_cert_rank_deficient_agrees_with_oracle :
  forall k, In k (equimod_all 3 3 [[0;3;3];[2;0;2];[2;0;2]]) <-> k = 6.
Proof.
  intros k. split.
  - intros H. apply equimod_all_sound in H.
    exact (proj2 (proj2 (equi_cert_check_sound _ _ _ _ _ _ _ _ _ _ ex_cert_record_rank_deficient_checks)) k H).
  - intros ->. vm_compute. tauto.
Qed.

Example ex_cert_agrees_with_oracle : equimod_all 2 3 [[0;3;3];[2;3;5]] = [6; 6; 6].
Proof. vm_compute. reflexivity. Qed.

Print Assumptions equi_cert_check_sound.
Print Assumptions judge_equi_cert_sound.
Print Assumptions judge_equi_cert_sound_spec.
