(* RegCertModel.v — C02 at every size for graphic and cographic matrices: the case carries a witness (a graph with spanning
   forest and non-forest edges, produced by the generator and echoed by the harness) for the matrix (orientation 0) or its
   transpose (orientation 1).  If it passes check_graph_cert, the 0/1 matrix is graphic resp. cographic and hence regular
   (GraphicRegular.v), so CMRregularTest must answer "regular" whatever its parameters.  No proofs here. *)
From Cmr Require Import Base Det TuModel GraphModel SpModel.
Local Open Scope Z_scope.

Definition regular_cert_input :=
  cfg <- dlist dZ ;; x <- dmat ;; rc <- dZ ;; v <- dZ ;; tr <- dbool ;; w <- dwitness ;; dend (cfg, x, rc, v, tr, w).

Definition cert_holds (tr : bool) (m n : nat) (M : mat) (G : graph) (f c : list nat) : bool :=
  if tr then check_graph_cert n m (transpose m n M) G f c else check_graph_cert m n M G f c.

(* record: ncfg cfg M rc verdict(0/1, 2 = not written) transposed witness
   0 accepted (also when the witness does not certify anything); 1 malformed record; 440 CMRregularTest failed on a (co)graphic
   matrix; 441 verdict not written although no stop flag is set; 442 a (co)graphic matrix is reported not regular *)
(* without witness: a 0/1 matrix that the binary series-parallel reduction model reduces to nothing (SpTU.sp_binary_regular) *)
Definition regular_certified (tr : bool) (m n : nat) (M : mat) (w : witness) : bool :=
  wf_mat m n M && is_binary M &&
  match w with
  | WGraph G f c _ => cert_holds tr m n M G f c
  | WNone => sp_greedy false m n M
  | WCore _ _ => false
  end.

Definition judge_regular_cert (rec : list Z) : Z :=
  match regular_cert_input rec with
  | Some ((cfg, (m, n, M), rc, v, tr, w), _) =>
    if (rc =? 0) && (v =? 1) then 0
    else if negb (regular_certified tr m n M w) then 0
    else if negb (rc =? 0) then 440
    else if v =? 2 then (if cfg_stopflags cfg then 0 else 441)
    else if negb (v =? 1) then 442
    else 0
  | None => 1
  end.
