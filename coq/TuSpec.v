(* TuSpec.v — judge acceptance in terms of the determinant definition (MathComp's \det). *)
From Coq Require Import ZArith List.
From mathcomp Require Import all_ssreflect all_fingroup all_algebra.
From mathcomp Require Import ssrZ zify.
From Cmr Require Import Base Det TuModel TuProofs TuJudgeProofs.
Set Implicit Arguments. Unset Strict Implicit. Unset Printing Implicit Defensive.

Lemma tu_verdict_is_definition rec cfg m n (M : mat) rc v sub rest :
  tu_input rec = Some ((cfg, (m, n, M), rc, v, sub), rest) -> judge_tu rec = Z0 ->
  rc = Z0 /\
  (v = Z0 \/ v = Zpos xH \/ (v = Zpos (xO xH) /\ cfg_stopflags cfg = true)) /\
  (v = Zpos xH -> TUmx (mx_of m n M)) /\
  (v = Z0 -> ~ TUmx (mx_of m n M)).
Proof.
move=> Hd Hj; have [Hrc [Hv [H1 H0]]] := judge_tu_sound _ _ _ _ _ _ _ _ _ Hd Hj.
split=> //; split=> //; split.
- by move=> /H1 [Ht _]; apply/tu_bfP.
- by move=> /H0 [Ht _] /tu_bfP; rewrite Ht.
Qed.

Lemma check_violator_parts m n (M : mat) rs cs :
  check_violator m n M rs cs = true ->
  length rs = length cs /\ all_lt m rs = true /\ all_lt n cs = true /\ nodupn rs = true /\ nodupn cs = true /\
  small_det (det (length rs) (submat M rs cs)) = false.
Proof.
rewrite /check_violator => /andP [/andP [/andP [/andP [/andP [H1 H2] H3] H4] H5] H6].
split; first by apply/PeanoNat.Nat.eqb_eq.
by do 4!split=> //; apply/negbTE.
Qed.

Lemma tu_violator_sound rec cfg m n (M : mat) rc sub rest :
  tu_input rec = Some ((cfg, (m, n, M), rc, Z0, sub), rest) -> judge_tu rec = Z0 ->
  cfg_want_sub cfg = true ->
  exists rs cs, sub = Some (rs, cs) /\
    length rs = length cs /\ all_lt m rs = true /\ all_lt n cs = true /\ nodupn rs = true /\ nodupn cs = true /\
    small_det (det (length rs) (submat M rs cs)) = false /\
    ~ TUmx (mx_of m n M) /\
    (is_ternary M = false -> length rs = 1%nat) /\
    (is_ternary M = true -> cfg_algorithm cfg = Z0 ->
       (det (length rs) (submat M rs cs) = Zpos (xO xH) \/ det (length rs) (submat M rs cs) = Zneg (xO xH)) /\
       (forall i, (i < length rs)%coq_nat ->
          TUmx (mx_of (length rs - 1) (length rs) (del i (submat M rs cs)))) /\
       (forall j, (j < length rs)%coq_nat ->
          TUmx (mx_of (length rs) (length rs - 1) (List.map (del j) (submat M rs cs))))).
Proof.
move=> Hd Hj Hw; have [_ [_ [_ H0]]] := judge_tu_sound _ _ _ _ _ _ _ _ _ Hd Hj.
have [_ /(_ Hw) [rs [cs [-> [Hc [Hnt Hmin]]]]]] := H0 (erefl _).
exists rs, cs; split=> //.
have [P1 [P2 [P3 [P4 [P5 P6]]]]] := check_violator_parts Hc.
do 6!split=> //.
split; first exact: (check_violator_sound Hc).
split=> // Ht Ha.
have [_ [Hdet [Hr Hcl]]] := check_min_violator_spec _ _ _ _ _ (Hmin Ht Ha).
split=> //; split=> i Hi; apply/tu_bfP; [exact: Hr | exact: Hcl].
Qed.

(* a "not TU" answer accepted by the oracle-free judge is certified for every size *)
Lemma tu_cert_no_sound rec cfg m n (M : mat) rc sub rest :
  tu_input rec = Some ((cfg, (m, n, M), rc, Z0, sub), rest) -> judge_tu_cert rec = Z0 ->
  cfg_want_sub cfg = true -> ~ TUmx (mx_of m n M).
Proof.
move=> Hd Hj Hw; have [_ [_ [_ H0]]] := judge_tu_cert_sound _ _ _ _ _ _ _ _ _ Hd Hj.
have [rs [cs [_ Hc]]] := H0 (erefl _) Hw.
exact: (check_violator_sound Hc).
Qed.
