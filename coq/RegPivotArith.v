(* RegPivotArith.v -- stdlib-style part of "regularity is invariant under a binary pivot": the pivot over Z of a signing S
   of a 0/1 matrix M, when its entries stay in {-1,0,1}, is a signing of the binary pivot of M. *)
From Cmr Require Import Base Det BaseProofs PivotModel PivotProofs TuModel RegularProofs.
Local Open Scope Z_scope.

(* ------------------------------------------------------------------------------------------ *)
(* 1. signing_of from entrywise information                                                    *)
(* ------------------------------------------------------------------------------------------ *)

Lemma Forall2_map_in : forall (A B C : Type) (R : B -> C -> Prop) (f : A -> B) (g : A -> C) (l : list A),
  (forall x, In x l -> R (f x) (g x)) -> Forall2 R (map f l) (map g l).
Proof.
  intros A B C R f g l. induction l as [|a l IH]; intros H; simpl; constructor.
  - apply H. now left.
  - apply IH. intros x Hx. apply H. now right.
Qed.

Lemma signing_of_mk_mat : forall m n f g,
  (forall i j, (i < m)%nat -> (j < n)%nat -> sign_entry (f i j) (g i j)) ->
  signing_of (mk_mat m n f) (mk_mat m n g).
Proof.
  intros m n f g H. unfold signing_of, mk_mat.
  apply Forall2_map_in. intros i Hi. apply in_iota in Hi.
  apply Forall2_map_in. intros j Hj. apply in_iota in Hj.
  apply H; lia.
Qed.

Lemma signing_of_intro : forall m n M S, wf_mat m n M = true -> wf_mat m n S = true ->
  (forall i j, (i < m)%nat -> (j < n)%nat -> sign_entry (get M i j) (get S i j)) ->
  signing_of M S.
Proof.
  intros m n M S HM HS H.
  rewrite <- (mk_mat_get m n M HM), <- (mk_mat_get m n S HS).
  apply signing_of_mk_mat. exact H.
Qed.

(* ------------------------------------------------------------------------------------------ *)
(* 2. the arithmetic core                                                                      *)
(* ------------------------------------------------------------------------------------------ *)

Definition bin (a : Z) : Prop := a = 0 \/ a = 1.
Definition tern3 (t : Z) : Prop := t = -1 \/ t = 0 \/ t = 1.

Lemma sign_entry_bin : forall a x, bin a -> sign_entry a x ->
  (a = 0 /\ x = 0) \/ (a = 1 /\ x = 1) \/ (a = 1 /\ x = -1).
Proof. intros a x [->| ->] [[H1 H2]|[H1 [H2|H2]]]; try lia; auto. Qed.

(* off the pivot row and column *)
Lemma bin_piv_core : forall a b d x y z e,
  bin a -> bin b -> bin d -> sign_entry a x -> sign_entry b y -> sign_entry d z ->
  (e = 1 \/ e = -1) -> tern3 (x - e * y * z) ->
  sign_entry (modulo_ternary (a - 1 * b * d) 2) (x - e * y * z).
Proof.
  intros a b d x y z e Ha Hb Hd Hx Hy Hz He Ht.
  destruct (sign_entry_bin a x Ha Hx) as [[-> ->]|[[-> ->]|[-> ->]]];
  destruct (sign_entry_bin b y Hb Hy) as [[-> ->]|[[-> ->]|[-> ->]]];
  destruct (sign_entry_bin d z Hd Hz) as [[-> ->]|[[-> ->]|[-> ->]]];
  destruct He as [-> | ->]; cbn in Ht |- *; unfold tern3 in Ht;
  first [ left; split; [reflexivity | reflexivity]
        | right; split; [discriminate | first [left; reflexivity | right; reflexivity]]
        | exfalso; lia ].
Qed.

(* on the pivot row / column (not the pivot entry) *)
Lemma bin_piv_line : forall a x e, bin a -> sign_entry a x -> (e = 1 \/ e = -1) ->
  sign_entry (modulo_ternary a 2) (if e =? -1 then - x else x).
Proof.
  intros a x e Ha Hx He.
  destruct (sign_entry_bin a x Ha Hx) as [[-> ->]|[[-> ->]|[-> ->]]];
  destruct He as [-> | ->]; cbn;
  first [ left; split; [reflexivity | reflexivity]
        | right; split; [discriminate | first [left; reflexivity | right; reflexivity]] ].
Qed.

(* the pivot entry *)
Lemma bin_piv_pivot : forall e, (e = 1 \/ e = -1) -> sign_entry (modulo_ternary (- 1) 2) (- e).
Proof.
  intros e [-> | ->]; cbn; right; (split; [discriminate|]); [right | left]; reflexivity.
Qed.

(* ------------------------------------------------------------------------------------------ *)
(* 3. the pivot over Z of a signing is a signing of the binary pivot                           *)
(* ------------------------------------------------------------------------------------------ *)

Theorem signing_of_bpivot : forall m n M S r c,
  wf_mat m n M = true -> is_binary M = true -> (r < m)%nat -> (c < n)%nat -> get M r c = 1 ->
  signing_of M S ->
  (forall i j, (i < m)%nat -> (j < n)%nat ->
     get (pivot_raw m n S r c) i j = -1 \/ get (pivot_raw m n S r c) i j = 0 \/ get (pivot_raw m n S r c) i j = 1) ->
  signing_of (reduce 2 (pivot_raw m n M r c)) (pivot_raw m n S r c).
Proof.
  intros m n M S r c Hwf Hb Hr Hc Hpv HS Hsmall.
  apply (signing_of_intro m n);
    [apply reduce_wf; apply pivot_raw_wf | apply pivot_raw_wf |].
  intros i j Hi Hj.
  pose proof (Hsmall i j Hi Hj) as Ht.
  rewrite get_reduce. rewrite (get_pivot_raw m n M) by assumption.
  rewrite (get_pivot_raw m n S) in Ht |- * by assumption.
  assert (B : forall i j, bin (get M i j)) by (intros; apply get_binary; exact Hb).
  assert (G : forall i j, sign_entry (get M i j) (get S i j)) by (apply signing_of_get; exact HS).
  assert (He : get S r c = 1 \/ get S r c = -1).
  { destruct (G r c) as [[H0 _]|[_ H]]; [lia | exact H]. }
  rewrite Hpv. change (1 =? -1) with false. cbv iota.
  destruct (Nat.eqb i r) eqn:Ei; destruct (Nat.eqb j c) eqn:Ej.
  - apply bin_piv_pivot. exact He.
  - apply bin_piv_line; auto.
  - apply bin_piv_line; auto.
  - apply bin_piv_core; auto.
Qed.

Print Assumptions signing_of_bpivot.
