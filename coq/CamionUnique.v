(* CamionUnique.v -- Camion's uniqueness theorem: a totally unimodular signing of a given support
   is unique up to multiplying rows and columns by -1.
   Proof: induction on the number of columns.  After rescaling, the two matrices agree outside one
   column j0.  Rows i, i' with a nonzero in column j0 that are connected in the support graph of the
   other columns have the same ratio B i j0 / A i j0: take a walk between them with the fewest
   steps; if an interior row has a nonzero in column j0 or if the walk has a chord, shorter walks
   do the job; otherwise walk + column j0 is a hole (square submatrix with exactly two nonzeros in
   every line) in A and in B, both entry sums are divisible by 4 (TUmx_even_sum4), and they differ
   by (b + b') - (a + a').  *)
From Coq Require Import ZArith List.
From mathcomp Require Import all_ssreflect all_fingroup all_algebra.
From mathcomp Require Import ssrZ zify.
From Cmr Require Import Base Det BaseProofs PivotModel PivotProofs SpModel RelModel TuProofs TuClosure TuPivot TuBalanced.
From Cmr Require CamionModel.
Set Implicit Arguments. Unset Strict Implicit. Unset Printing Implicit Defensive.
Import GRing.Theory.
Local Open Scope ring_scope.
Import mathcomp.ssreflect.seq.
Delimit Scope nat_scope with N.

(* ========================================================================================== *)
(* 0. small facts                                                                              *)
(* ========================================================================================== *)

Lemma small_nz_pm1 (x : Z) : x \in [:: -1; 0; 1] -> x != 0 -> x \in [:: 1; -1].
Proof. by rewrite !inE => /or3P [] /eqP ->. Qed.

Lemma even_two_pm1 (a b : Z) : a \in [:: 1; -1] -> b \in [:: 1; -1] -> evenZ (a + b).
Proof.
rewrite !inE => /orP [] /eqP -> /orP [] /eqP ->.
- by exists 1.
- by exists 0.
- by exists 0.
- by exists (-1).
Qed.

(* the arithmetic heart: two holes that differ only in the two entries of one column *)
Lemma hole_arith (a a' b b' tA tB : Z) :
  a \in [:: 1; -1] -> a' \in [:: 1; -1] -> b \in [:: 1; -1] -> b' \in [:: 1; -1] ->
  dvd4Z tA -> dvd4Z tB -> tB = tA + (b' + b - a' - a) -> b * a = b' * a'.
Proof.
rewrite !inE => /orP [] /eqP -> /orP [] /eqP -> /orP [] /eqP -> /orP [] /eqP -> [x ->] [y ->] // E;
  lia.
Qed.

(* ========================================================================================== *)
(* 1. the step: A and B agree outside column j0                                                *)
(* ========================================================================================== *)

Section Step.
Variables (m n : nat) (A B : 'M[Z]_(m, n)) (j0 : 'I_n).
Hypotheses (TA : TUmx A) (TB : TUmx B).
Hypothesis supp0 : forall i, (A i j0 == 0) = (B i j0 == 0).
Hypothesis agree : forall i j, j != j0 -> B i j = A i j.

(* two rows share a nonzero column other than j0 *)
Definition radj : rel 'I_m :=
  fun i i' => [exists j, [&& j != j0, A i j != 0 & A i' j != 0]].

Lemma radj_sym : symmetric radj.
Proof.
by move=> i i'; apply/existsP/existsP => -[j /and3P [h1 h2 h3]]; exists j; apply/and3P.
Qed.

Definition cj (i i' : 'I_m) : 'I_n :=
  odflt j0 [pick j | [&& j != j0, A i j != 0 & A i' j != 0]].

Lemma cjP i i' : radj i i' -> [/\ cj i i' != j0, A i (cj i i') != 0 & A i' (cj i i') != 0].
Proof.
rewrite /radj /cj; case: pickP => [j /and3P [] //|H /existsP [j]].
by rewrite H.
Qed.

Definition inS (i : 'I_m) : bool := A i j0 != 0.
Definition q (i : 'I_m) : Z := B i j0 * A i j0.

Lemma suppB i j : (B i j == 0) = (A i j == 0).
Proof. by case: (altP (j =P j0)) => [->|/agree ->] //; rewrite supp0. Qed.

Lemma Apm i j : A i j != 0 -> A i j \in [:: 1; -1].
Proof. by apply: small_nz_pm1; apply: TUmx_entry'. Qed.

Lemma Bpm i j : A i j != 0 -> B i j \in [:: 1; -1].
Proof. by rewrite -suppB; apply: small_nz_pm1; apply: TUmx_entry'. Qed.

(* ------------------------------------------------------------------------------------------ *)
(* 1a. a chordless walk whose interior avoids column j0 closes to a hole                       *)
(* ------------------------------------------------------------------------------------------ *)

Section Hole.
Variables (k : nat) (R : nat -> 'I_m).
Hypothesis walk : forall s, (s < k.+1)%N -> radj (R s) (R s.+1).
Hypothesis S0 : inS (R 0%N).
Hypothesis Sk : inS (R k.+1).
Hypothesis interior : forall u, (0 < u)%N -> (u < k.+1)%N -> ~~ inS (R u).
Hypothesis chordless : forall u v, (u + 2 <= v)%N -> (v <= k.+1)%N -> ~~ radj (R u) (R v).

Let f (x : 'I_k.+2) : 'I_m := R x.
Let g (s : 'I_k.+2) : 'I_n := if (s < k.+1)%N then cj (R s) (R s.+1) else j0.

Lemma val_succ (s : 'I_k.+2) : (s < k.+1)%N -> val (s + 1) = s.+1.
Proof. by move=> lt; rewrite /= !modn_small ?addn1. Qed.

Lemma succ_max (s : 'I_k.+2) : ~~ (s < k.+1)%N -> s + 1 = 0.
Proof.
move=> ge; apply: val_inj; rewrite /= (modn_small (m := 1)) //.
have -> : (s : nat) = k.+1 by have := ltn_ord s; lia.
by rewrite addn1 modnn.
Qed.

Lemma g_ne (s : 'I_k.+2) : (s < k.+1)%N -> g s != j0.
Proof. by move=> lt; rewrite /g lt; case: (cjP (walk lt)). Qed.

Lemma A_diag s : A (f s) (g s) != 0.
Proof.
rewrite /f /g; case: ifPn => [lt|ge]; first by case: (cjP (walk lt)).
have -> : (s : nat) = k.+1 by have := ltn_ord s; lia.
exact: Sk.
Qed.

Lemma A_sub s : A (f (s + 1)) (g s) != 0.
Proof.
rewrite /f /g; case: ifPn => [lt|ge].
  by rewrite val_succ //; case: (cjP (walk lt)).
by rewrite succ_max.
Qed.

Lemma A_zero x s : x != s -> x != s + 1 -> A (f x) (g s) = 0.
Proof.
move=> ne1 ne2; apply/eqP; apply/negPn/negP => nz; move: ne1 ne2.
rewrite /f /g in nz *; case: ifPn nz => [lt|ge] nz.
  have [c0 c1 c2] := cjP (walk lt).
  rewrite -!val_eqE val_succ // => ne1 ne2.
  have a1 : radj (R x) (R s) by apply/existsP; exists (cj (R s) (R s.+1)); apply/and3P.
  have a2 : radj (R x) (R s.+1) by apply/existsP; exists (cj (R s) (R s.+1)); apply/and3P.
  case: (ltnP x s) => [xs|sx].
    have h1 : (x + 2 <= s.+1)%N by lia.
    by have := chordless h1 lt; rewrite a2.
  have h1 : (s + 2 <= x)%N by move: ne1 ne2 => /=; lia.
  have h2 : (x <= k.+1)%N by have := ltn_ord x; lia.
  by have := chordless h1 h2; rewrite radj_sym a1.
rewrite succ_max // -!val_eqE /= => ne1 ne2.
have h1 : (0 < x)%N by rewrite lt0n.
have h2 : (x < k.+1)%N by have := ltn_ord x; have := ltn_ord s; move: ne1 => /=; lia.
by have := interior h1 h2; rewrite /inS nz.
Qed.

Section Pattern.
Variable X : 'M[Z]_(m, n).
Hypothesis suppX : forall i j, (X i j == 0) = (A i j == 0).
Hypothesis smallX : forall i j, X i j \in [:: -1; 0; 1].
Let H : 'M[Z]_(k.+2) := mxsub f g X.

Lemma H_zero x s : x != s -> x != s + 1 -> H x s = 0.
Proof. by move=> ne1 ne2; apply/eqP; rewrite mxE suppX A_zero. Qed.

Lemma H_diag s : H s s \in [:: 1; -1].
Proof. by rewrite mxE; apply: small_nz_pm1 => //; rewrite suppX A_diag. Qed.

Lemma H_sub s : H (s + 1) s \in [:: 1; -1].
Proof. by rewrite mxE; apply: small_nz_pm1 => //; rewrite suppX A_sub. Qed.

Lemma pred_ne (x : 'I_k.+2) : x - 1 != x.
Proof. by rewrite -subr_eq0 addrAC subrr sub0r oppr_eq0 oner_eq0. Qed.

Lemma H_colsum s : \sum_x H x s = H s s + H (s + 1) s.
Proof.
rewrite (bigD1 s) //= (bigD1 (s + 1)) /=; last first.
  by rewrite -subr_eq0 addrAC subrr add0r oner_eq0.
rewrite big1 ?addr0 // => x /andP [ne1 ne2]; exact: H_zero.
Qed.

Lemma H_rowsum x : \sum_s H x s = H x x + H x (x - 1).
Proof.
rewrite (bigD1 x) //= (bigD1 (x - 1)) /= ?pred_ne //.
rewrite big1 ?addr0 // => s /andP [ne1 ne2]; apply: H_zero; first by rewrite eq_sym.
by rewrite -subr_eq eq_sym.
Qed.

Lemma H_even_row x : evenZ (\sum_s H x s).
Proof.
rewrite H_rowsum; apply: even_two_pm1; first exact: H_diag.
by have := H_sub (x - 1); rewrite subrK.
Qed.

Lemma H_even_col s : evenZ (\sum_x H x s).
Proof. by rewrite H_colsum; apply: even_two_pm1; [exact: H_diag | exact: H_sub]. Qed.

Lemma H_total : \sum_x \sum_s H x s = \sum_s (H s s + H (s + 1) s).
Proof. by rewrite exchange_big; apply: eq_bigr => s _; rewrite H_colsum. Qed.

Lemma H_dvd4 : TUmx X -> dvd4Z (\sum_x \sum_s H x s).
Proof.
move=> TX; apply: TUmx_even_sum4; [exact: TUmx_mxsub | exact: H_even_row | exact: H_even_col].
Qed.

End Pattern.

Lemma hole_claim : q (R 0%N) = q (R k.+1).
Proof.
have sA : forall i j, A i j \in [:: -1; 0; 1] by move=> i j; apply: TUmx_entry'.
have sB : forall i j, B i j \in [:: -1; 0; 1] by move=> i j; apply: TUmx_entry'.
have dA := H_dvd4 (fun _ _ => erefl) sA TA.
have dB := H_dvd4 suppB sB TB.
rewrite (H_total (fun _ _ => erefl)) in dA; rewrite (H_total suppB) in dB.
have gmax : g ord_max = j0 by rewrite /g /= ltnn.
have fmax : f ord_max = R k.+1 by [].
have smax : (ord_max : 'I_k.+2) + 1 = 0 by apply: succ_max; rewrite /= ltnn.
rewrite /q; apply: (hole_arith _ _ _ _ dA dB); rewrite ?Apm ?Bpm //.
rewrite (bigD1 ord_max) //= [in RHS](bigD1 ord_max) //=.
rewrite !mxE smax gmax fmax.
have -> : \sum_(i < k.+2 | i != ord_max) (mxsub f g B i i + mxsub f g B (i + 1) i) =
          \sum_(i < k.+2 | i != ord_max) (mxsub f g A i i + mxsub f g A (i + 1) i).
  apply: eq_bigr => s ne.
  have lt : (s < k.+1)%N by have := ltn_ord s; move: ne; rewrite -val_eqE /=; lia.
  by rewrite !mxE !agree // g_ne.
have -> : f 0 = R 0%N by [].
move: (\sum_(i < k.+2 | i != ord_max) _) => T.
move: (A (R k.+1) j0) (A (R 0%N) j0) (B (R k.+1) j0) (B (R 0%N) j0) => a1 a2 b1 b2.
lia.
Qed.

End Hole.

(* ------------------------------------------------------------------------------------------ *)
(* 1b. the ratio B/A in column j0 is constant along walks (strong induction on the length)     *)
(* ------------------------------------------------------------------------------------------ *)

Lemma walk_claim k (R : nat -> 'I_m) :
  (forall s, (s < k)%N -> radj (R s) (R s.+1)) -> inS (R 0%N) -> inS (R k) -> q (R 0%N) = q (R k).
Proof.
have [N] := ubnP k; elim: N k R => // N IH [|k] R; rewrite ?ltnS => ltN walk S0 Sk //.
(* an interior row with a nonzero in column j0: split there *)
case: (boolP [exists u : 'I_k.+1, (0 < u)%N && inS (R u)]) => [/existsP [u /andP [u0 Su]]|].
  have E1 : q (R 0%N) = q (R u).
    apply: IH => //; first by apply: leq_trans ltN; apply: ltn_ord.
    by move=> s lt; apply: walk; apply: ltn_trans lt _.
  have E2 : q (R (0 + u)%N) = q (R (k.+1 - u + u)%N).
    apply: (IH (k.+1 - u)%N (fun s => R (s + u)%N)).
    - by have := ltn_ord u; lia.
    - move=> s lt /=; rewrite addSn; apply: walk; have := ltn_ord u; lia.
    - by rewrite add0n.
    - by rewrite subnK // ltnW.
  by rewrite E1 -[u : nat]add0n E2 subnK // ltnW.
rewrite negb_exists => /forallP nI.
have interior u : (0 < u)%N -> (u < k.+1)%N -> ~~ inS (R u).
  move=> u0 lt; have := nI (Ordinal lt); rewrite negb_and /= => /orP [|//].
  by rewrite u0.
(* a chord: shortcut *)
case: (boolP [exists u : 'I_k.+2, exists v : 'I_k.+2, (u + 2 <= v)%N && radj (R u) (R v)]).
  move=> /existsP [u /existsP [v /andP [uv adj]]].
  pose d := (v - u - 1)%N.
  pose R' s := if (s <= u)%N then R s else R (s + d)%N.
  have vk : (v <= k.+1)%N by have := ltn_ord v.
  have E : q (R' 0%N) = q (R' (k.+1 - d)%N).
    apply: IH.
    - by rewrite /d; lia.
    - move=> s lt; rewrite /R'; case: (ltngtP s u) => [su|us|e].
      + apply: walk; rewrite /d in lt; lia.
      + rewrite addSn; apply: walk; rewrite /d in lt *; lia.
      + have -> : (s.+1 + d)%N = v by rewrite e /d; lia.
        by rewrite e.
    - by rewrite /R' leq0n.
    - rewrite /R'; have -> : (k.+1 - d <= u)%N = false by rewrite /d; lia.
      by have -> : (k.+1 - d + d)%N = k.+1 by rewrite /d; lia.
  move: E; rewrite /R' leq0n.
  have -> : (k.+1 - d <= u)%N = false by rewrite /d; lia.
  by have -> : (k.+1 - d + d)%N = k.+1 by rewrite /d; lia.
rewrite negb_exists => /forallP nC.
have chordless u v : (u + 2 <= v)%N -> (v <= k.+1)%N -> ~~ radj (R u) (R v).
  move=> uv vk.
  have ltu : (u < k.+2)%N by lia.
  have ltv : (v < k.+2)%N by lia.
  have := nC (Ordinal ltu); rewrite negb_exists => /forallP /(_ (Ordinal ltv)) /=.
  by rewrite uv.
exact: hole_claim.
Qed.

Lemma claim i i' : inS i -> inS i' -> connect radj i i' -> q i = q i'.
Proof.
move=> Si Si' /connectP [p pth e]; rewrite e in Si' *.
have := @walk_claim (size p) (fun s => nth i (i :: p) s).
rewrite /= -last_nth; apply => // s lt.
exact: (pathP i pth).
Qed.

(* ------------------------------------------------------------------------------------------ *)
(* 1c. the scaling vectors                                                                     *)
(* ------------------------------------------------------------------------------------------ *)

Definition rr (i : 'I_m) : Z :=
  if [pick i0 | connect radj i i0 && inS i0] is Some i0 then q i0 else 1.

Definition cc (j : 'I_n) : Z :=
  if j == j0 then 1 else if [pick i | A i j != 0] is Some i then rr i else 1.

Lemma q_pm1 i : inS i -> q i \in [:: 1; -1].
Proof. by move=> Si; apply: pm1_mul; [apply: Bpm | apply: Apm]. Qed.

Lemma rr_pm1 i : rr i \in [:: 1; -1].
Proof. by rewrite /rr; case: pickP => [i0 /andP [_ /q_pm1]|]. Qed.

Lemma cc_pm1 j : cc j \in [:: 1; -1].
Proof. by rewrite /cc; case: ifP => // _; case: pickP => // i _; apply: rr_pm1. Qed.

Lemma rrE i i0 : connect radj i i0 -> inS i0 -> rr i = q i0.
Proof.
move=> c0 S0; rewrite /rr; case: pickP => [i1 /andP [c1 S1]|/(_ i0)]; last by rewrite c0 S0.
apply: claim => //; apply: connect_trans c0.
by rewrite (sym_connect_sym radj_sym).
Qed.

Lemma rr_conn i i' : connect radj i i' -> rr i = rr i'.
Proof.
move=> c; rewrite {1}/rr; case: pickP => [i0 /andP [c0 S0]|no].
  symmetry; apply: rrE => //; apply: connect_trans c0.
  by rewrite (sym_connect_sym radj_sym).
rewrite /rr; case: pickP => [i1 /andP [c1 S1]|//].
by have := no i1; rewrite S1 (connect_trans c c1).
Qed.

Lemma step_eq i j : B i j = rr i * cc j * A i j.
Proof.
rewrite /cc; case: (altP (j =P j0)) => [->|ne].
  rewrite mulr1; case: (altP (A i j0 =P 0)) => [z|nz].
    by rewrite z mulr0; apply/eqP; rewrite suppB z.
  by rewrite (rrE (connect0 _ i) nz) /q -mulrA (pm1_sqr (Apm nz)) mulr1.
rewrite agree //; case: (altP (A i j =P 0)) => [->|nz]; first by rewrite mulr0.
case: pickP => [i1 nz1|/(_ i)]; last by rewrite nz.
have -> : rr i = rr i1.
  by apply: rr_conn; apply: connect1; apply/existsP; exists j; apply/and3P.
by rewrite (pm1_sqr (rr_pm1 i1)) mul1r.
Qed.

End Step.

Lemma camion_step m n (A B : 'M[Z]_(m, n)) (j0 : 'I_n) :
  TUmx A -> TUmx B -> (forall i, (A i j0 == 0) = (B i j0 == 0)) ->
  (forall i j, j != j0 -> B i j = A i j) ->
  exists (r : 'I_m -> Z) (c : 'I_n -> Z),
    (forall i, r i \in [:: 1; -1]) /\ (forall j, c j \in [:: 1; -1]) /\
    forall i j, B i j = r i * c j * A i j.
Proof.
move=> TA TB s0 ag; exists (rr A B j0), (cc A B j0); split; first exact: rr_pm1.
split; first exact: cc_pm1.
exact: step_eq.
Qed.

(* ========================================================================================== *)
(* 2. Camion's uniqueness theorem                                                              *)
(* ========================================================================================== *)

Theorem TU_signing_unique m n (A B : 'M[Z]_(m, n)) :
  TUmx A -> TUmx B -> (forall i j, (A i j == 0) = (B i j == 0)) ->
  exists (r : 'I_m -> Z) (c : 'I_n -> Z),
    (forall i, r i \in [:: 1; -1]) /\ (forall j, c j \in [:: 1; -1]) /\
    forall i j, B i j = r i * c j * A i j.
Proof.
elim: n A B => [|n IH] A B TA TB supp.
  by exists (fun=> 1), (fun=> 1); split=> //; split=> // i [].
pose h : 'I_n -> 'I_n.+1 := lift ord_max.
have [r1 [c1 [r1pm [c1pm E1]]]] : exists (r : 'I_m -> Z) (c : 'I_n -> Z),
    (forall i, r i \in [:: 1; -1]) /\ (forall j, c j \in [:: 1; -1]) /\
    forall i j, (mxsub id h B) i j = r i * c j * (mxsub id h A) i j.
  apply: IH; [exact: TUmx_mxsub | exact: TUmx_mxsub |].
  by move=> i j; rewrite !mxE.
pose c1' (j : 'I_n.+1) : Z := if unlift ord_max j is Some j' then c1 j' else 1.
have c1'pm j : c1' j \in [:: 1; -1] by rewrite /c1'; case: (unlift _ _).
pose B2 : 'M[Z]_(m, n.+1) := \matrix_(i, j) (r1 i * c1' j * B i j).
have TB2 : TUmx B2 by apply: TUmx_scale.
have sq i j : r1 i * c1' j * (r1 i * c1' j) = 1.
  by rewrite mulrACA !pm1_sqr.
have [r2 [c2 [r2pm [c2pm E2]]]] : exists (r : 'I_m -> Z) (c : 'I_n.+1 -> Z),
    (forall i, r i \in [:: 1; -1]) /\ (forall j, c j \in [:: 1; -1]) /\
    forall i j, B2 i j = r i * c j * A i j.
  apply: (@camion_step _ _ A B2 ord_max) => //.
  - move=> i; rewrite mxE supp mulf_eq0.
    have /negbTE -> // : r1 i * c1' ord_max != 0.
    by apply/eqP => z; have := sq i ord_max; rewrite z mul0r.
  - move=> i j ne; rewrite mxE /c1'; case: unliftP => [j' ej|ej]; last by rewrite ej eqxx in ne.
    have := E1 i j'; rewrite !mxE /h -ej => ->.
    rewrite mulrA; have := sq i j; rewrite /c1'; case: unliftP => [j'' ej''|ej'']; last first.
      by rewrite ej'' eqxx in ne.
    have -> : j'' = j' by apply: (@lift_inj _ ord_max); rewrite -ej -ej''.
    by move=> ->; rewrite mul1r.
exists (fun i => r1 i * r2 i), (fun j => c1' j * c2 j); split.
  by move=> i; apply: pm1_mul.
split; first by move=> j; apply: pm1_mul.
move=> i j; have := E2 i j; rewrite mxE => /(congr1 (fun x => r1 i * c1' j * x)).
rewrite mulrA sq mul1r => ->.
by rewrite !mulrA; congr (_ * _ * _); rewrite mulrAC.
Qed.

(* ========================================================================================== *)
(* 3. list level                                                                               *)
(* ========================================================================================== *)

Lemma list_eqb_nthR (e : seq Z -> seq Z -> bool) (M N : mat) :
  e [::] [::] = true -> list_eqb e M N = true -> forall i, e (nthR M i) (nthR N i) = true.
Proof.
move=> e0; elim: M N => [|x M IH] [|y N] //= /andP [exy /IH H] [|i] //.
Qed.

Lemma list_eqb_nthZ (e : Z -> Z -> bool) (v w : seq Z) :
  e Z0 Z0 = true -> list_eqb e v w = true -> forall j, e (nthZ v j) (nthZ w j) = true.
Proof.
move=> e0; elim: v w => [|x v IH] [|y w] //= /andP [exy /IH H] [|j] //.
Qed.

Lemma same_support_get (M N : mat) i j :
  CamionModel.same_support M N = true -> (get M i j == 0) = (get N i j == 0).
Proof.
rewrite /CamionModel.same_support => H.
have H1 := list_eqb_nthR (erefl _) H i.
have /Z.eqb_eq := list_eqb_nthZ (erefl _) H1 j; rewrite /get => E.
by apply/eqP/eqP => z; move: E; rewrite z; lia.
Qed.

Corollary tu_signing_unique_std : forall m n (M N : mat),
  wf_mat m n M = true -> wf_mat m n N = true ->
  tu_bf m n M = true -> tu_bf m n N = true -> CamionModel.same_support M N = true ->
  exists rs cs : list Z, length rs = m /\ length cs = n /\
    forallb is_pm1' rs = true /\ forallb is_pm1' cs = true /\
    forall i j, (i < m)%coq_nat -> (j < n)%coq_nat ->
      get N i j = Z.mul (Z.mul (nthZ rs i) (nthZ cs j)) (get M i j).
Proof.
move=> m n M N _ _ /tu_bfP TM /tu_bfP TN ss.
have [r [c [rpm [cpm E]]]] := @TU_signing_unique m n (mx_of m n M) (mx_of m n N) TM TN
  (fun i j => etrans (congr1 (fun x => x == 0) (mxE _ _ i j))
     (etrans (same_support_get i j ss) (esym (congr1 (fun x => x == 0) (mxE _ _ i j))))).
pose rs : seq Z := [seq r i | i <- enum 'I_m].
pose cs : seq Z := [seq c j | j <- enum 'I_n].
have nr (i : 'I_m) : nthZ rs i = r i.
  by rewrite nthZE /rs (nth_map i) ?size_enum_ord // nth_ord_enum.
have nc (j : 'I_n) : nthZ cs j = c j.
  by rewrite nthZE /cs (nth_map j) ?size_enum_ord // nth_ord_enum.
exists rs, cs; split; first by rewrite -[length _]/(size _) size_map size_enum_ord.
split; first by rewrite -[length _]/(size _) size_map size_enum_ord.
split; first by rewrite forallbE all_map; apply/allP => i _ /=; rewrite is_pm1'P.
split; first by rewrite forallbE all_map; apply/allP => j _ /=; rewrite is_pm1'P.
move=> i j /ltP lti /ltP ltj.
by have := E (Ordinal lti) (Ordinal ltj); rewrite !mxE /= -nr -nc.
Qed.

Print Assumptions TU_signing_unique.
Print Assumptions tu_signing_unique_std.
