(* Properties_C18.v — C18: time limits.  The logic of the property: (a) which check point gives up under the clock
   schedule the harness injects (so that enumerating k covers every check point), (b) the decision rule applied to
   every injected run, (c) the stack discipline that makes "scratch stack balanced after a timeout" observable.
   Proofs in TimeoutProofs.v / StackProofs.v.  The cleanup code on the 45 timeout exits itself is exercised, not
   modelled: see DESIGN.md. *)
From Cmr Require Import Base StackModel StackProofs TimeoutModel TimeoutProofs.
Local Open Scope Z_scope.

(* a check made at clock read c by a function entered at read s gives up exactly when the jump lies in (s, c] *)
Theorem C18_injected_clock_fires : forall k s c, 0 <= s -> s < c -> c < LIMIT ->
  (fires k s c = true <-> exists j, k = Some j /\ s < j /\ j <= c).
Proof. exact fires_spec. Qed.
Print Assumptions C18_injected_clock_fires.

(* hence every check point can be made the first to give up (jump at its own read; all earlier checks stay silent),
   and without a jump none does: enumerating k = 0..N reaches every timeout exit that the unlimited run passes *)
Theorem C18_every_check_point_reached : forall s c, 0 <= s -> s < c -> c < LIMIT ->
  fires (Some c) s c = true /\ fires None s c = false /\
  forall s0 c0, 0 <= s0 -> s0 < c0 -> c0 < c -> fires (Some c) s0 c0 = false.
Proof.
  intros s c Hs Hsc Hc. split; [exact (jump_at_check_fires s c Hs Hsc Hc)|].
  split; [exact (no_jump_never_fires s c Hs Hsc Hc)|].
  intros s0 c0 H0 H1 H2. apply earlier_checks_silent; try assumption. unfold LIMIT in *. lia.
Qed.
Print Assumptions C18_every_check_point_reached.

(* the decision rule: an accepted record means that in every injected run the scratch stack was balanced after the
   limited call and after the retry, no heap memory was lost, no input was modified, the retry on the same
   environment reproduced the reference record exactly, a run without timeout reproduced it too, and a timeout handed
   out no output object *)
Theorem C18_judge_sound : forall rec, judge_tlimit rec = 0 ->
  exists sub N runs, tlimit_input rec = Some ((sub, N, runs), []) /\
    Forall (fun r => 0 <= t_k r <= N) runs /\ Forall trun_ok runs.
Proof. exact judge_tlimit_sound. Qed.
Print Assumptions C18_judge_sound.

(* usage 0 on the injected run's environment means the allocator is back in its initial state *)
Theorem C18_usage_zero_is_initial : forall s, Inv s -> usage s = 0 -> s = s_init.
Proof. exact usage_zero_init. Qed.
Print Assumptions C18_usage_zero_is_initial.

Example C18_example_accept : judge_tlimit [2; 3; 2;  0; 0; 0; 1; 1; 0; 0; 0; 0;  2; 1; 0; 0; 1; 0; 0; 0; 0] = 0.
Proof. vm_compute. reflexivity. Qed.
Example C18_example_leak : judge_tlimit [2; 3; 1;  2; 1; 0; 0; 1; 0; 0; 348; 0] = 63.
Proof. vm_compute. reflexivity. Qed.

(* ---------- the judge accepts EXACTLY the records that satisfy its specification (JudgeComplete3.v): completeness besides soundness,
   a record of a correct answer is never rejected ---------- *)
From Cmr Require JudgeComplete3.
Theorem C18_judge_tlimit_accepts_exactly_the_specification :
    forall (rec : list Z) (sub N : Z) (runs : list TimeoutModel.trun) (rest : list Z),
    TimeoutProofs.tlimit_input rec = Some (sub, N, runs, rest) ->
    TimeoutModel.judge_tlimit rec = 0%Z <-> JudgeComplete3.tlimit_spec N runs.
Proof. exact JudgeComplete3.judge_tlimit_iff. Qed.
Print Assumptions C18_judge_tlimit_accepts_exactly_the_specification.
