(* EquiModel.v — C16: equimodular / unimodular matrices by the definition of doc/equimodular.md.  No proofs here.

   M (m x n, integer, rank r) is equimodular with determinant gcd k iff for some column basis B the gcd of the r x r
   subdeterminants of M_B is k and the X with M = M_B X is totally unimodular.  A TU matrix is integral with entries in
   {-1,0,1}, so the oracle enumerates, for every set B of columns whose r x r minors do not all vanish (= independent
   columns), the {-1,0,1}-columns x with M_B x = M_j, and tests the resulting X with the TU oracle of Det.v.
   "B spans" is implied by M = M_B X.  Exponential; used on small matrices only. *)
From Cmr Require Import Base Det.
Local Open Scope Z_scope.

Fixpoint gcd_list (l : list Z) : Z := match l with [] => 0 | x :: r => Z.gcd x (gcd_list r) end.

(* gcd of all r x r minors of the m x r matrix N (r = number of columns) *)
Definition minors_gcd (m r : nat) (N : mat) : Z :=
  gcd_list (map (fun rs => det r (submat N rs (iota 0 r))) (subseqs r (iota 0 m))).

(* all vectors in {-1,0,1}^r *)
Fixpoint ternary_vectors (r : nat) : list (list Z) :=
  match r with
  | O => [[]]
  | S r' => flat_map (fun v => [(-1) :: v; 0 :: v; 1 :: v]) (ternary_vectors r')
  end.

Definition dotp (a b : list Z) : Z := fold_right Z.add 0 (map (fun p => fst p * snd p) (combine a b)).
(* N x for an m x r matrix N *)
Definition mat_vec (N : mat) (x : list Z) : list Z := map (fun row => dotp row x) N.
Definition column (m : nat) (M : mat) (j : nat) : list Z := map (fun i => get M i j) (iota 0 m).

(* the ternary solutions x of N x = c *)
Definition col_candidates (r : nat) (N : mat) (c : list Z) : list (list Z) :=
  filter (fun x => zlist_eqb (mat_vec N x) c) (ternary_vectors r).

(* all ways to pick one candidate per column: list of X given as list of columns *)
Fixpoint choices (cands : list (list (list Z))) : list (list (list Z)) :=
  match cands with
  | [] => [[]]
  | c :: rest => flat_map (fun x => map (cons x) (choices rest)) c
  end.

(* r x n matrix from its list of n columns (each of length r) *)
Definition of_columns (r n : nat) (cols : list (list Z)) : mat :=
  mk_mat r n (fun i j => nthZ (nthR cols j) i).

(* the determinant gcds k for which the basis B witnesses equimodularity (at most one) *)
Definition equimod_for_basis (m n : nat) (M : mat) (B : list nat) : list Z :=
  let r := length B in
  let MB := submat M (iota 0 m) B in
  let k := minors_gcd m r MB in
  if k =? 0 then []
  else
    let cands := map (fun j => col_candidates r MB (column m M j)) (iota 0 n) in
    if existsb (fun cols => tu_bf r n (of_columns r n cols)) (choices cands) then [k] else [].

Definition all_bases (m n : nat) : list (list nat) :=
  flat_map (fun r => subseqs r (iota 0 n)) (iota 0 (S (Nat.min m n))).

Definition equimod_all (m n : nat) (M : mat) : list Z :=
  flat_map (equimod_for_basis m n M) (all_bases m n).

Definition memz (k : Z) (l : list Z) : bool := existsb (Z.eqb k) l.

(* variant: 0 equimodular, 1 strongly equimodular, 2 unimodular, 3 strongly unimodular *)
Definition equi_yes (strong : bool) (m n : nat) (M : mat) (k : Z) : bool :=
  memz k (equimod_all m n M) && (if strong then memz k (equimod_all n m (transpose m n M)) else true).
Definition equi_any (strong : bool) (m n : nat) (M : mat) : list Z :=
  filter (fun k => equi_yes strong m n M k) (equimod_all m n M).

Definition max_abs (M : mat) : Z := fold_right Z.max 0 (map (fun r => fold_right Z.max 0 (map Z.abs r)) M).

(* record: variant k_in M rc verdict(0/1/2) k_out
   0 accepted; 80 call failed; 81 verdict not written; 82 verdict differs from the definition;
   83 reported determinant gcd differs; 84 CMR_ERROR_OVERFLOW although all entries are small *)
Definition judge_equimod (rec : list Z) : Z :=
  match (variant <- dZ ;; kin <- dZ ;; x <- dmat ;; rc <- dZ ;; v <- dZ ;; kout <- dZ ;; dend (variant, kin, x, rc, v, kout)) rec with
  | Some ((variant, kin, (m, n, M), rc, v, kout), _) =>
    let strong := (variant =? 1) || (variant =? 3) in
    let k_req := if (variant =? 2) || (variant =? 3) then 1 else kin in
    if negb ((0 <=? variant) && (variant <=? 3) && (0 <=? kin)) then 1
    else if rc =? 5 then (if max_abs M <? 1000 then 84 else 0)
    else if negb (rc =? 0) then 80
    else if negb ((v =? 0) || (v =? 1)) then 81
    else
      let truth := if k_req =? 0 then negb (match equi_any strong m n M with [] => true | _ => false end)
                   else equi_yes strong m n M k_req in
      if negb (Bool.eqb (v =? 1) truth) then 82
      else if (v =? 1) && (variant <? 2) && negb (equi_yes strong m n M kout) then 83
      else 0
  | None => 1
  end.
