(* KsumTranspose.v — the Y-sum is the transposed Delta-sum of the transposed operands.
   Y-sum:     M1 = [A a; c^T 0; c^T eps]  rows r1a r1b, column c1;  M2 = [eps b^T; 0 b^T; d D]  rows r2a r2b, column c2
   transposed M1^T = [A^T c c; a^T 0 eps] row c1, columns r1a r1b;  M2^T = [eps 0 d^T; b b D^T] row c2, columns r2a r2b
   which is exactly the documented shape of the operands of the Delta-sum. *)
From Cmr Require Import Base Det BaseProofs PivotModel PivotProofs KsumModel KsumProofs.
From Cmr Require MatProofs TuClosure.
Local Open Scope Z_scope.

(* ---------- special vectors of a transposed matrix ---------- *)

Lemma pick_colv_transpose : forall m n M r idx,
  (r < m)%nat -> (forall i, In i idx -> (i < n)%nat) ->
  pick (colv n (transpose m n M) r) idx = pick (rowv M r) idx.
Proof.
  intros m n M r idx Hr Hidx. unfold pick. apply map_ext_in. intros i Hi.
  rewrite nthZ_colv by (now apply Hidx). rewrite nthZ_rowv.
  apply MatProofs.get_transpose; [now apply Hidx | assumption].
Qed.

Lemma pick_rowv_transpose : forall m n M c idx,
  (c < n)%nat -> (forall i, In i idx -> (i < m)%nat) ->
  pick (rowv (transpose m n M) c) idx = pick (colv m M c) idx.
Proof.
  intros m n M c idx Hc Hidx. unfold pick. apply map_ext_in. intros i Hi.
  rewrite nthZ_colv by (now apply Hidx). rewrite nthZ_rowv.
  apply MatProofs.get_transpose; [assumption | now apply Hidx].
Qed.

(* ---------- two block matrices with transposed blocks ---------- *)

Lemma sum_blocks_transpose_eq : forall Y X M1 M2 T1 T2 R1 C1 R2 C2 tr bl tr' bl',
  sum_blocks Y M1 M2 R1 C1 R2 C2 tr bl ->
  sum_blocks X T1 T2 C1 R1 C2 R2 tr' bl' ->
  (forall i j, (i < length R1)%nat -> (j < length C1)%nat ->
     get M1 (nth i R1 O) (nth j C1 O) = get T1 (nth j C1 O) (nth i R1 O)) ->
  (forall i j, (i < length R2)%nat -> (j < length C2)%nat ->
     get M2 (nth i R2 O) (nth j C2 O) = get T2 (nth j C2 O) (nth i R2 O)) ->
  (forall i j, (i < length R1)%nat -> (j < length C2)%nat -> tr i j = bl' j i) ->
  (forall i j, (i < length R2)%nat -> (j < length C1)%nat -> bl i j = tr' j i) ->
  Y = transpose (length C1 + length C2) (length R1 + length R2) X.
Proof.
  intros Y X M1 M2 T1 T2 R1 C1 R2 C2 tr bl tr' bl'
         [Y0 [Y1 [Y2 [Y3 Y4]]]] [X0 [X1 [X2 [X3 X4]]]] H1 H2 Ht Hb.
  apply (mat_ext (length R1 + length R2) (length C1 + length C2));
    [exact Y0 | apply MatProofs.wf_transpose |].
  intros i j Hi Hj. rewrite MatProofs.get_transpose by assumption.
  destruct (Nat.lt_ge_cases i (length R1)) as [Li | Li];
  destruct (Nat.lt_ge_cases j (length C1)) as [Lj | Lj].
  - rewrite Y1, X1 by assumption. now apply H1.
  - replace j with (length C1 + (j - length C1))%nat by lia.
    rewrite Y2, X3 by lia. apply Ht; lia.
  - replace i with (length R1 + (i - length R1))%nat by lia.
    rewrite Y3, X2 by lia. apply Hb; lia.
  - replace i with (length R1 + (i - length R1))%nat by lia.
    replace j with (length C1 + (j - length C1))%nat by lia.
    rewrite Y4, X4 by lia. apply H2; lia.
Qed.

(* ---------- main theorem ---------- *)

Theorem ysum_is_transposed_deltasum : forall p m1 n1 M1 m2 n2 M2 r1a r1b c1 r2a r2b c2,
  wf_mat m1 n1 M1 = true -> wf_mat m2 n2 M2 = true ->
  match deltasum p n1 m1 (transpose m1 n1 M1) n2 m2 (transpose m2 n2 M2) c1 r1a r1b c2 r2a r2b with
  | KOk X => ysum p m1 n1 M1 m2 n2 M2 r1a r1b c1 r2a r2b c2 =
             KOk (transpose (n1 - 1 + (n2 - 1)) (m1 - 2 + (m2 - 2)) X)
  | KErr => ysum p m1 n1 M1 m2 n2 M2 r1a r1b c1 r2a r2b c2 = KErr
  end.
Proof.
  intros p m1 n1 M1 m2 n2 M2 r1a r1b c1 r2a r2b c2 W1 W2.
  unfold deltasum, ysum.
  (* first guard: the same eight conditions in a different order *)
  destruct (Nat.ltb r1a m1) eqn:Er1a; cbn [andb negb];
    [| destruct (Nat.ltb c1 n1); reflexivity].
  destruct (Nat.ltb r1b m1) eqn:Er1b; cbn [andb negb];
    [| destruct (Nat.ltb c1 n1); reflexivity].
  destruct (Nat.ltb c1 n1) eqn:Ec1; cbn [andb negb]; [| reflexivity].
  destruct (Nat.ltb r2a m2) eqn:Er2a; cbn [andb negb];
    [| destruct (Nat.ltb c2 n2); reflexivity].
  destruct (Nat.ltb r2b m2) eqn:Er2b; cbn [andb negb];
    [| destruct (Nat.ltb c2 n2); reflexivity].
  destruct (Nat.ltb c2 n2) eqn:Ec2; cbn [andb negb]; [| reflexivity].
  destruct (Nat.eqb r1a r1b) eqn:En1; cbn [andb negb]; [reflexivity |].
  destruct (Nat.eqb r2a r2b) eqn:En2; cbn [andb negb]; [reflexivity |].
  apply Nat.ltb_lt in Er1a, Er1b, Ec1, Er2a, Er2b, Ec2.
  apply Nat.eqb_neq in En1, En2.
  (* second guard: identical after rewriting the vectors and entries of the transposes *)
  rewrite !(pick_colv_transpose m1 n1 M1) by (try apply keep_idx_lt; assumption).
  rewrite !(pick_colv_transpose m2 n2 M2) by (try apply keep_idx_lt; assumption).
  rewrite !(pick_rowv_transpose m1 n1 M1) by (try apply keep_idx_lt; assumption).
  rewrite !(pick_rowv_transpose m2 n2 M2) by (try apply keep_idx_lt; assumption).
  rewrite !(MatProofs.get_transpose m1 n1 M1) by assumption.
  rewrite !(MatProofs.get_transpose m2 n2 M2) by assumption.
  match goal with |- context [if negb ?g then _ else _] => destruct g end; cbn [negb]; [| reflexivity].
  f_equal.
  set (R1 := keep_idx m1 [r1a; r1b]). set (C1 := keep_idx n1 [c1]).
  set (R2 := keep_idx m2 [r2a; r2b]). set (C2 := keep_idx n2 [c2]).
  assert (LR1 : length R1 = (m1 - 2)%nat) by (now apply keep_idx_length2).
  assert (LR2 : length R2 = (m2 - 2)%nat) by (now apply keep_idx_length2).
  assert (LC1 : length C1 = (n1 - 1)%nat) by (now apply keep_idx_length1).
  assert (LC2 : length C2 = (n2 - 1)%nat) by (now apply keep_idx_length1).
  rewrite <- LR1, <- LR2, <- LC1, <- LC2.
  set (a := pick (colv m1 M1 c1) R1). set (b := pick (rowv M2 r2a) C2).
  set (c := pick (rowv M1 r1a) C1). set (d := pick (colv m2 M2 c2) R2).
  assert (La : length a = length R1) by apply pick_length.
  assert (Lb : length b = length C2) by apply pick_length.
  assert (Lc : length c = length C1) by apply pick_length.
  assert (Ld : length d = length R2) by apply pick_length.
  eapply sum_blocks_transpose_eq.
  - apply block4_sum_blocks; [rewrite <- La, <- Lb | rewrite <- Ld, <- Lc]; apply wf_outer.
  - apply block4_sum_blocks; [rewrite <- Lc, <- Ld | rewrite <- Lb, <- La]; apply wf_outer.
  - intros i j Hi Hj. symmetry. apply MatProofs.get_transpose.
    + apply (keep_idx_lt n1 [c1]). now apply nth_In.
    + apply (keep_idx_lt m1 [r1a; r1b]). now apply nth_In.
  - intros i j Hi Hj. symmetry. apply MatProofs.get_transpose.
    + apply (keep_idx_lt n2 [c2]). now apply nth_In.
    + apply (keep_idx_lt m2 [r2a; r2b]). now apply nth_In.
  - intros i j Hi Hj. rewrite !get_outer by lia. f_equal. apply Z.mul_comm.
  - intros i j Hi Hj. rewrite !get_outer by lia. f_equal. apply Z.mul_comm.
Qed.

(* ---------- corollaries ---------- *)

(* both sums succeed or fail together *)
Corollary ysum_ok_iff_deltasum_ok : forall p m1 n1 M1 m2 n2 M2 r1a r1b c1 r2a r2b c2,
  wf_mat m1 n1 M1 = true -> wf_mat m2 n2 M2 = true ->
  (ysum p m1 n1 M1 m2 n2 M2 r1a r1b c1 r2a r2b c2 = KErr <->
   deltasum p n1 m1 (transpose m1 n1 M1) n2 m2 (transpose m2 n2 M2) c1 r1a r1b c2 r2a r2b = KErr).
Proof.
  intros p m1 n1 M1 m2 n2 M2 r1a r1b c1 r2a r2b c2 W1 W2.
  pose proof (ysum_is_transposed_deltasum p m1 n1 M1 m2 n2 M2 r1a r1b c1 r2a r2b c2 W1 W2) as H.
  destruct (deltasum p n1 m1 (transpose m1 n1 M1) n2 m2 (transpose m2 n2 M2) c1 r1a r1b c2 r2a r2b).
  - rewrite H. split; discriminate.
  - rewrite H. tauto.
Qed.

(* total unimodularity of the Y-sum is that of the Delta-sum of the transposes *)
Corollary ysum_tu_bf_deltasum : forall p m1 n1 M1 m2 n2 M2 r1a r1b c1 r2a r2b c2 M X,
  wf_mat m1 n1 M1 = true -> wf_mat m2 n2 M2 = true ->
  ysum p m1 n1 M1 m2 n2 M2 r1a r1b c1 r2a r2b c2 = KOk M ->
  deltasum p n1 m1 (transpose m1 n1 M1) n2 m2 (transpose m2 n2 M2) c1 r1a r1b c2 r2a r2b = KOk X ->
  tu_bf (m1 - 2 + (m2 - 2)) (n1 - 1 + (n2 - 1)) M = tu_bf (n1 - 1 + (n2 - 1)) (m1 - 2 + (m2 - 2)) X.
Proof.
  intros p m1 n1 M1 m2 n2 M2 r1a r1b c1 r2a r2b c2 M X W1 W2 HY HD.
  pose proof (ysum_is_transposed_deltasum p m1 n1 M1 m2 n2 M2 r1a r1b c1 r2a r2b c2 W1 W2) as H.
  rewrite HD, HY in H. injection H as ->.
  apply (@TuClosure.tu_bf_transpose (n1 - 1 + (n2 - 1))%nat (m1 - 2 + (m2 - 2))%nat X).
Qed.

(* ---------- non-vacuity ---------- *)

Example ex_ysum_transposed_deltasum :
  ysum 3 4 3 exY1 4 3 exY2 2 3 2 0 1 0 = KOk [[1; 1; 1; 0]; [0; 1; 1; 0]; [1; 0; 0; 1]; [1; 0; 1; 1]] /\
  match deltasum 3 3 4 (transpose 4 3 exY1) 3 4 (transpose 4 3 exY2) 2 2 3 0 0 1 with
  | KOk X => KOk (transpose (3 - 1 + (3 - 1)) (4 - 2 + (4 - 2)) X)
  | KErr => KErr
  end = KOk [[1; 1; 1; 0]; [0; 1; 1; 0]; [1; 0; 0; 1]; [1; 0; 1; 1]].
Proof. vm_compute. split; reflexivity. Qed.

(* a 3x3 / 3x4 pair:  M1 = [A a; c^T 0; c^T eps] with A = [1 1], a = 1, c = (1,0), eps = -1
                      M2 = [eps b^T; 0 b^T; d D] with b = (1,0,1), d = 1, D = [1 1 0] *)
Definition exK1 : mat := [[1; 1; 1]; [1; 0; 0]; [1; 0; -1]].          (* r1a = 1, r1b = 2, c1 = 2 *)
Definition exK2 : mat := [[-1; 1; 0; 1]; [0; 1; 0; 1]; [1; 1; 1; 0]].  (* r2a = 0, r2b = 1, c2 = 0 *)
Example ex_ysum_transposed_deltasum_small :
  ysum 3 3 3 exK1 3 4 exK2 1 2 2 0 1 0 = KOk [[1; 1; 1; 0; 1]; [1; 0; 1; 1; 0]] /\
  deltasum 3 3 3 (transpose 3 3 exK1) 4 3 (transpose 3 4 exK2) 2 1 2 0 0 1 =
    KOk [[1; 1]; [1; 0]; [1; 1]; [0; 1]; [1; 0]] /\
  transpose (3 - 1 + (4 - 1)) (3 - 2 + (3 - 2)) [[1; 1]; [1; 0]; [1; 1]; [0; 1]; [1; 0]] =
    [[1; 1; 1; 0; 1]; [1; 0; 1; 1; 0]].
Proof. vm_compute. repeat split; reflexivity. Qed.

(* an ill-formed operand (eps differs) is refused by both *)
Example ex_ysum_transposed_deltasum_err :
  ysum 3 3 3 exK1 3 4 [[1; 1; 0; 1]; [0; 1; 0; 1]; [1; 1; 1; 0]] 1 2 2 0 1 0 = KErr /\
  deltasum 3 3 3 (transpose 3 3 exK1) 4 3 (transpose 3 4 [[1; 1; 0; 1]; [0; 1; 0; 1]; [1; 1; 1; 0]]) 2 1 2 0 0 1 = KErr.
Proof. vm_compute. split; reflexivity. Qed.

Print Assumptions ysum_is_transposed_deltasum.
Print Assumptions ysum_ok_iff_deltasum_ok.
Print Assumptions ysum_tu_bf_deltasum.
