(* RelProofs.v — C10: the executable oracles sp_greedy and balanced_bf are invariant under the transforms
   that judge_rel accepts (permutation, +-1 scaling, transposition, adding a reducible line) and monotone
   under taking submatrices; what acceptance by judge_rel means, kind by kind. *)
From Coq Require Import Setoid Arith PeanoNat Permutation.
From Cmr Require Import Base Det BaseProofs PivotModel SpModel SpProofs SpProofs2 BalancedProofs RelModel.
Local Open Scope Z_scope.

(* ------------------------------------------------------------------------------------------ *)
(* 0. Generalities                                                                            *)
(* ------------------------------------------------------------------------------------------ *)

Lemma bool_eq_iff (a b : bool) : (a = true <-> b = true) -> a = b.
Proof.
  destruct a, b; intros [H1 H2]; try reflexivity.
  - symmetry; apply H1; reflexivity.
  - apply H2; reflexivity.
Qed.

(* position of an element in a list: the inverse of [nth] *)
Fixpoint index_of (x : nat) (l : list nat) : nat :=
  match l with [] => 0%nat | y :: r => if Nat.eqb x y then 0%nat else S (index_of x r) end.

Lemma index_of_spec x l :
  In x l -> (index_of x l < length l)%nat /\ nth (index_of x l) l 0%nat = x.
Proof.
  induction l as [|y l IH]; cbn [In index_of length nth]; [intros []|].
  intros H. destruct (Nat.eqb_spec x y) as [->|N].
  - split; [lia | reflexivity].
  - destruct H as [H|H]; [congruence|]. destruct (IH H) as [I1 I2]. split; [lia | exact I2].
Qed.

Lemma index_of_lt x l : In x l -> (index_of x l < length l)%nat.
Proof. intros H. apply index_of_spec, H. Qed.

Lemma nth_index_of x l : In x l -> nth (index_of x l) l 0%nat = x.
Proof. intros H. apply index_of_spec, H. Qed.

Lemma index_of_inj x y l : In x l -> In y l -> index_of x l = index_of y l -> x = y.
Proof.
  intros Hx Hy E. rewrite <- (nth_index_of x l Hx). rewrite E. apply nth_index_of, Hy.
Qed.

Lemma is_perm_l_parts k l :
  is_perm_l k l = true -> length l = k /\ all_lt k l = true /\ nodupn l = true.
Proof.
  unfold is_perm_l. intros H. apply andb_true_iff in H. destruct H as [H H3].
  apply andb_true_iff in H. destruct H as [H1 H2]. apply Nat.eqb_eq in H1. auto.
Qed.

(* pigeonhole: a repetition-free list of k numbers below k contains every number below k *)
Lemma perm_l_In k l i : is_perm_l k l = true -> (i < k)%nat -> In i l.
Proof.
  intros H Hi. apply is_perm_l_parts in H. destruct H as (HL & HR & HN).
  apply BalancedProofs.nodupn_NoDup in HN. rewrite all_lt_spec in HR.
  assert (I : incl (iota 0 k) l).
  { apply NoDup_length_incl; [exact HN | rewrite length_iota; lia |].
    intros x Hx. apply in_iota. specialize (HR x Hx). lia. }
  apply I. apply in_iota. lia.
Qed.

Lemma nodupn_iota k : nodupn (iota 0 k) = true.
Proof. apply BalancedProofs.nodupn_NoDup. apply NoDup_iota. Qed.

Lemma all_lt_iota k : all_lt k (iota 0 k) = true.
Proof. apply all_lt_spec. intros x Hx. apply in_iota in Hx. lia. Qed.

Lemma nth_iota k : forall s i, (i < k)%nat -> nth i (iota s k) 0%nat = (s + i)%nat.
Proof.
  induction k as [|k IH]; intros s [|i] H; cbn [iota nth]; try lia.
  rewrite IH by lia. lia.
Qed.

(* keep_line k d: all indices below k except d *)
Lemma In_keep_line k d i : In i (keep_line k d) <-> (i < k)%nat /\ i <> d.
Proof.
  unfold keep_line. rewrite filter_In, in_iota, negb_true_iff, Nat.eqb_neq. lia.
Qed.

Lemma nodupn_keep_line k d : nodupn (keep_line k d) = true.
Proof. apply BalancedProofs.nodupn_NoDup. unfold keep_line. apply NoDup_filter, NoDup_iota. Qed.

Lemma all_lt_keep_line k d : all_lt k (keep_line k d) = true.
Proof. apply all_lt_spec. intros x Hx. apply In_keep_line in Hx. tauto. Qed.

Lemma length_filter_neq d : forall len s,
  length (filter (fun i => negb (Nat.eqb i d)) (iota s len)) =
  if (Nat.leb s d && Nat.ltb d (s + len))%bool then (len - 1)%nat else len.
Proof.
  induction len as [|len IH]; intros s; cbn [iota filter].
  - destruct (Nat.leb s d && Nat.ltb d (s + 0))%bool; reflexivity.
  - specialize (IH (S s)).
    destruct (Nat.eqb_spec s d) as [E|E]; cbn [negb length]; rewrite IH;
      destruct (Nat.leb_spec s d); destruct (Nat.ltb_spec d (s + S len));
      destruct (Nat.leb_spec (S s) d); destruct (Nat.ltb_spec d (S s + len));
      cbn [andb]; lia.
Qed.

Lemma length_keep_line k d : (d < k)%nat -> length (keep_line k d) = (k - 1)%nat.
Proof.
  intros H. unfold keep_line. rewrite length_filter_neq.
  destruct (Nat.leb_spec 0 d); destruct (Nat.ltb_spec d (0 + k)); cbn [andb]; lia.
Qed.

(* ------------------------------------------------------------------------------------------ *)
(* A. Series-parallel reducibility                                                            *)
(* ------------------------------------------------------------------------------------------ *)

(* the converse of emb_submat: the matrix, restricted to lines listed in rs / cs, embeds into the submatrix *)
Lemma emb_submat_inv ternary M rs cs la lb :
  (forall i, live la i = true -> In i rs) -> (forall j, live lb j = true -> In j cs) ->
  emb ternary (get (submat M rs cs)) (get M) (all_true (length rs)) (all_true (length cs)) la lb
      (fun i => index_of i rs) (fun j => index_of j cs) (fun _ => 1) (fun _ => 1).
Proof.
  intros Ha Hb. unfold emb. repeat apply conj; auto using sign_ok_one.
  - intros i Li. apply live_all_true. apply index_of_lt; auto.
  - intros i i' Li Li' E. eapply index_of_inj; eauto.
  - intros j Lj. apply live_all_true. apply index_of_lt; auto.
  - intros j j' Lj Lj' E. eapply index_of_inj; eauto.
  - intros i j Li Lj. rewrite get_submat by (apply index_of_lt; auto).
    rewrite !nth_index_of by auto. ring.
Qed.

(* SPred depends on the matrix only through the live entries *)
Lemma SPred_ext ternary M B lr lc :
  (forall i j, live lr i = true -> live lc j = true -> get B i j = get M i j) ->
  SPred ternary M (lr, lc) -> SPred ternary B (lr, lc).
Proof.
  intros E H. eapply (SP_emb ternary M (lr, lc) H B lr lc (fun x => x) (fun x => x) (fun _ => 1) (fun _ => 1)).
  cbn [fst snd]. unfold emb. repeat apply conj; auto using sign_ok_one.
  intros i j Li Lj. rewrite E by auto. ring.
Qed.

(* A1. permutations *)
Theorem sp_greedy_perm : forall t m n M rp cp,
  is_perm_l m rp = true -> is_perm_l n cp = true ->
  sp_greedy t m n (submat M rp cp) = sp_greedy t m n M.
Proof.
  intros t m n M rp cp Hr Hc. apply bool_eq_iff. rewrite !sp_greedy_correct.
  pose proof (is_perm_l_parts _ _ Hr) as (Lr & Rr & Nr).
  pose proof (is_perm_l_parts _ _ Hc) as (Lc & Rc & Nc).
  split; intros H.
  - eapply (SP_emb t (submat M rp cp) (all_true m, all_true n) H M). cbn [fst snd].
    pose proof (emb_submat_inv t M rp cp (all_true m) (all_true n)) as Em.
    rewrite Lr, Lc in Em. apply Em.
    + intros i Li. apply live_all_true in Li. eapply perm_l_In; eauto.
    + intros j Lj. apply live_all_true in Lj. eapply perm_l_In; eauto.
  - pose proof (SP_submat t M m n rp cp Nr Nc Rr Rc H) as S. rewrite Lr, Lc in S. exact S.
Qed.

(* A2. transposition *)
Lemma line_red_ext t f g la lb a :
  (forall x y, live la x = true -> live lb y = true -> f x y = g x y) ->
  live la a = true -> line_red t f la lb a = true -> line_red t g la lb a = true.
Proof.
  intros E La H. apply line_red_iff in H. apply line_red_iff.
  destruct H as [U | (a' & s & La' & Na & Ss & C)].
  - left. intros b1 b2 L1 L2 N1 N2. apply U; auto; rewrite E; auto.
  - right. exists a', s. repeat split; auto. intros b Lb. rewrite <- !E by auto. apply C, Lb.
Qed.

Lemma SPred_flip t M s : SPred t M s -> forall B,
  (forall i j, live (fst s) i = true -> live (snd s) j = true -> get B j i = get M i j) ->
  SPred t B (snd s, fst s).
Proof.
  induction 1 as [lr lc He | s s' St Hsp IH]; intros B E.
  - cbn [fst snd]. apply SP_done. apply is_empty_iff in He. apply is_empty_iff. tauto.
  - destruct St as [lr lc r Lr Rr | lr lc c Lc Rc]; cbn [fst snd] in *.
    + eapply SP_step.
      * apply (step_col t B lc lr r); [exact Lr|].
        rewrite col_reducible_line_red. rewrite row_reducible_line_red in Rr.
        eapply line_red_ext; [|exact Lr|exact Rr].
        intros x y Lx Ly. cbv beta. symmetry. apply E; auto.
      * apply IH. intros i j Li Lj. apply E; auto. eapply sub_mask_kill; eauto.
    + eapply SP_step.
      * apply (step_row t B lc lr c); [exact Lc|].
        rewrite row_reducible_line_red. rewrite col_reducible_line_red in Rc.
        eapply line_red_ext; [|exact Lc|exact Rc].
        intros x y Lx Ly. cbv beta. symmetry. apply E; auto.
      * apply IH. intros i j Li Lj. apply E; auto. eapply sub_mask_kill; eauto.
Qed.

Lemma get_transpose m n M i j : (i < m)%nat -> (j < n)%nat -> get (transpose m n M) j i = get M i j.
Proof. intros Hi Hj. unfold transpose. rewrite get_mk_mat by assumption. reflexivity. Qed.

Theorem SPred_transpose : forall t m n M,
  SPred t (transpose m n M) (all_true n, all_true m) <-> SPred t M (all_true m, all_true n).
Proof.
  intros t m n M. split; intros H.
  - apply (SPred_flip t _ _ H M). cbn [fst snd]. intros i j Li Lj.
    apply live_all_true in Li. apply live_all_true in Lj. symmetry. apply get_transpose; auto.
  - apply (SPred_flip t _ _ H (transpose m n M)). cbn [fst snd]. intros i j Li Lj.
    apply live_all_true in Li. apply live_all_true in Lj. apply get_transpose; auto.
Qed.

Theorem sp_greedy_transpose : forall t m n M,
  sp_greedy t n m (transpose m n M) = sp_greedy t m n M.
Proof. intros t m n M. apply bool_eq_iff. rewrite !sp_greedy_correct. apply SPred_transpose. Qed.

(* A3. scaling lines by +-1 (ternary reductions) *)
Definition sgn_of (l : list Z) (i : nat) : Z := if is_pm1' (nthZ l i) then nthZ l i else 1.

Lemma is_pm1'_iff x : is_pm1' x = true <-> x = 1 \/ x = -1.
Proof. unfold is_pm1'. rewrite orb_true_iff, !Z.eqb_eq. reflexivity. Qed.

Lemma sgn_of_pm1 l i : sgn_of l i = 1 \/ sgn_of l i = -1.
Proof. unfold sgn_of. destruct (is_pm1' (nthZ l i)) eqn:E; [apply is_pm1'_iff, E | left; reflexivity]. Qed.

Lemma sgn_of_ok l i : sign_ok true (sgn_of l i).
Proof. destruct (sgn_of_pm1 l i) as [E|E]; rewrite E; [left | right]; auto. Qed.

Lemma forallb_nthZ (p : Z -> bool) l : forallb p l = true -> forall i, (i < length l)%nat -> p (nthZ l i) = true.
Proof.
  induction l as [|x l IH]; intros H [|i] Hi; cbn [length forallb nthZ] in *; try lia;
    apply andb_true_iff in H; destruct H as [H1 H2]; auto. apply IH; auto; lia.
Qed.

Lemma sgn_of_nthZ l i : forallb is_pm1' l = true -> (i < length l)%nat -> sgn_of l i = nthZ l i.
Proof. intros H Hi. unfold sgn_of. rewrite (forallb_nthZ _ _ H i Hi). reflexivity. Qed.

Definition scale_mat (m n : nat) (rs cs : list Z) (M : mat) : mat :=
  mk_mat m n (fun i j => nthZ rs i * nthZ cs j * get M i j).

Lemma get_scale_mat m n rs cs M i j :
  length rs = m -> length cs = n -> forallb is_pm1' rs = true -> forallb is_pm1' cs = true ->
  (i < m)%nat -> (j < n)%nat ->
  get (scale_mat m n rs cs M) i j = sgn_of rs i * sgn_of cs j * get M i j.
Proof.
  intros Lr Lc Pr Pc Hi Hj. unfold scale_mat. rewrite get_mk_mat by assumption.
  rewrite !sgn_of_nthZ by (auto; lia). reflexivity.
Qed.

Theorem sp_greedy_scale : forall m n M rs cs,
  length rs = m -> length cs = n -> forallb is_pm1' rs = true -> forallb is_pm1' cs = true ->
  sp_greedy true m n (mk_mat m n (fun i j => nthZ rs i * nthZ cs j * get M i j)) = sp_greedy true m n M.
Proof.
  intros m n M rs cs Lr Lc Pr Pc. fold (scale_mat m n rs cs M).
  apply bool_eq_iff. rewrite !sp_greedy_correct. split; intros H.
  - eapply (SP_emb true _ _ H M (all_true m) (all_true n) (fun x => x) (fun x => x) (sgn_of rs) (sgn_of cs)).
    cbn [fst snd]. unfold emb. repeat apply conj; auto using sgn_of_ok.
    intros i j Li Lj. apply live_all_true in Li. apply live_all_true in Lj.
    rewrite (get_scale_mat m n rs cs M i j) by assumption.
    destruct (sgn_of_pm1 rs i) as [E1|E1]; destruct (sgn_of_pm1 cs j) as [E2|E2]; rewrite E1, E2; ring.
  - eapply (SP_emb true _ _ H (scale_mat m n rs cs M) (all_true m) (all_true n)
                   (fun x => x) (fun x => x) (sgn_of rs) (sgn_of cs)).
    cbn [fst snd]. unfold emb. repeat apply conj; auto using sgn_of_ok.
    intros i j Li Lj. apply live_all_true in Li. apply live_all_true in Lj.
    apply get_scale_mat; assumption.
Qed.

(* A4. adding / removing one reducible line *)
Theorem sp_greedy_add_row : forall t m' n' M' k,
  line_reducible t m' n' M' true k = true -> (k < m')%nat ->
  sp_greedy t m' n' M' = sp_greedy t (m' - 1) n' (submat M' (keep_line m' k) (iota 0 n')).
Proof.
  intros t m' n' M' k R Hk. cbn [line_reducible] in R.
  apply bool_eq_iff. rewrite !sp_greedy_correct.
  pose proof (length_keep_line m' k Hk) as E1.
  split; intros H.
  - pose proof (SP_submat t M' m' n' (keep_line m' k) (iota 0 n') (nodupn_keep_line _ _) (nodupn_iota _)
                          (all_lt_keep_line _ _) (all_lt_iota _) H) as S.
    rewrite E1, length_iota in S. exact S.
  - eapply SP_step.
    + apply (step_row t M' (all_true m') (all_true n') k); [apply live_all_true; exact Hk | exact R].
    + eapply (SP_emb t _ _ H M'). cbn [fst snd].
      pose proof (emb_submat_inv t M' (keep_line m' k) (iota 0 n') (kill (all_true m') k) (all_true n')) as Em.
      rewrite E1, length_iota in Em. apply Em.
      * intros i Li. apply live_kill_inv in Li. destruct Li as [N Li]. apply live_all_true in Li.
        apply In_keep_line. auto.
      * intros j Lj. apply live_all_true in Lj. apply in_iota. lia.
Qed.

Theorem sp_greedy_add_col : forall t m' n' M' k,
  line_reducible t m' n' M' false k = true -> (k < n')%nat ->
  sp_greedy t m' n' M' = sp_greedy t m' (n' - 1) (submat M' (iota 0 m') (keep_line n' k)).
Proof.
  intros t m' n' M' k R Hk. cbn [line_reducible] in R.
  apply bool_eq_iff. rewrite !sp_greedy_correct.
  pose proof (length_keep_line n' k Hk) as E1.
  split; intros H.
  - pose proof (SP_submat t M' m' n' (iota 0 m') (keep_line n' k) (nodupn_iota _) (nodupn_keep_line _ _)
                          (all_lt_iota _) (all_lt_keep_line _ _) H) as S.
    rewrite E1, length_iota in S. exact S.
  - eapply SP_step.
    + apply (step_col t M' (all_true m') (all_true n') k); [apply live_all_true; exact Hk | exact R].
    + eapply (SP_emb t _ _ H M'). cbn [fst snd].
      pose proof (emb_submat_inv t M' (iota 0 m') (keep_line n' k) (all_true m') (kill (all_true n') k)) as Em.
      rewrite E1, length_iota in Em. apply Em.
      * intros i Li. apply live_all_true in Li. apply in_iota. lia.
      * intros j Lj. apply live_kill_inv in Lj. destruct Lj as [N Lj]. apply live_all_true in Lj.
        apply In_keep_line. auto.
Qed.

Theorem sp_greedy_add_line : forall t m' n' M' (isr : bool) k,
  line_reducible t m' n' M' isr k = true -> (k < (if isr then m' else n'))%nat ->
  sp_greedy t m' n' M' =
  if isr then sp_greedy t (m' - 1) n' (submat M' (keep_line m' k) (iota 0 n'))
  else sp_greedy t m' (n' - 1) (submat M' (iota 0 m') (keep_line n' k)).
Proof.
  intros t m' n' M' [|] k R Hk; [apply sp_greedy_add_row | apply sp_greedy_add_col]; assumption.
Qed.

(* A5. submatrices *)
Theorem sp_greedy_submat : forall t m n M rs cs,
  strictly_increasing rs = true -> all_lt m rs = true ->
  strictly_increasing cs = true -> all_lt n cs = true ->
  sp_greedy t m n M = true -> sp_greedy t (length rs) (length cs) (submat M rs cs) = true.
Proof.
  intros t m n M rs cs Sr Lr Sc Lc H. apply sp_greedy_correct.
  apply (SP_submat t M m n rs cs); auto using si_nodupn. apply sp_greedy_correct, H.
Qed.

(* ------------------------------------------------------------------------------------------ *)
(* B. Balancedness                                                                            *)
(* ------------------------------------------------------------------------------------------ *)

(* bad_cycle of a submatrix, over an entry function *)
Definition Sum (f : nat -> nat -> Z) (rs cs : list nat) : Z :=
  sumZ (map (fun a => sumZ (map (fun c => f a c) cs)) rs).

Definition line2f (f : nat -> nat -> Z) (rs cs : list nat) : bool :=
  forallb (fun a => Nat.eqb (count_nz (map (fun c => f a c) cs)) 2) rs &&
  forallb (fun c => Nat.eqb (count_nz (map (fun a => f a c) rs)) 2) cs.

Definition bcf (f : nat -> nat -> Z) (rs cs : list nat) : bool :=
  line2f f rs cs && (Z.modulo (Sum f rs cs) 4 =? 2).

Lemma bad_cycle_bcf M rs cs : length rs = length cs ->
  bad_cycle (length rs) (submat M rs cs) = bcf (get M) rs cs.
Proof.
  intros HL. unfold bad_cycle, bcf. rewrite (two_per_line_submat M rs cs HL), entry_sum_submat.
  reflexivity.
Qed.

Lemma Sum_ext f g rs cs :
  (forall a c, In a rs -> In c cs -> f a c = g a c) -> Sum f rs cs = Sum g rs cs.
Proof.
  intros E. unfold Sum. f_equal. apply map_ext_in. intros a Ha. f_equal.
  apply map_ext_in. intros c Hc. apply E; assumption.
Qed.

Lemma line2f_ext f g rs cs :
  (forall a c, In a rs -> In c cs -> f a c = g a c) -> line2f f rs cs = line2f g rs cs.
Proof.
  intros E. unfold line2f. f_equal; apply forallb_ext_in; intros x Hx; f_equal; f_equal;
    apply map_ext_in; intros y Hy; apply E; assumption.
Qed.

Lemma bcf_ext f g rs cs :
  (forall a c, In a rs -> In c cs -> f a c = g a c) -> bcf f rs cs = bcf g rs cs.
Proof. intros E. unfold bcf. rewrite (line2f_ext f g rs cs E), (Sum_ext f g rs cs E). reflexivity. Qed.

Lemma sumZ_cons x v : sumZ (x :: v) = x + sumZ v.
Proof. reflexivity. Qed.

Lemma sumZ_map_add (g h : nat -> Z) l :
  sumZ (map (fun c => g c + h c) l) = sumZ (map g l) + sumZ (map h l).
Proof. induction l as [|x l IH]; cbn [map]; rewrite ?sumZ_cons; [reflexivity | rewrite IH; ring]. Qed.

Lemma sumZ_map_zero (l : list nat) : sumZ (map (fun _ => 0) l) = 0.
Proof. induction l as [|x l IH]; cbn [map]; rewrite ?sumZ_cons; [reflexivity | rewrite IH; ring]. Qed.

Lemma sumZ_map_scale s (g : nat -> Z) l : sumZ (map (fun c => s * g c) l) = s * sumZ (map g l).
Proof.
  induction l as [|x l IH]; cbn [map]; rewrite ?sumZ_cons; [unfold sumZ; cbn; ring | rewrite IH; ring].
Qed.

Lemma Sum_cons f a rs cs : Sum f (a :: rs) cs = sumZ (map (fun c => f a c) cs) + Sum f rs cs.
Proof. reflexivity. Qed.

Lemma Sum_swap f rs cs : Sum f rs cs = Sum (fun c a => f a c) cs rs.
Proof.
  induction rs as [|a rs IH].
  - unfold Sum at 2. cbn [map]. change (sumZ []) with 0. rewrite sumZ_map_zero. reflexivity.
  - rewrite Sum_cons, IH. unfold Sum. cbn [map].
    rewrite <- sumZ_map_add. f_equal.
Qed.

Lemma line2f_swap f rs cs : line2f (fun c a => f a c) cs rs = line2f f rs cs.
Proof. unfold line2f. apply andb_comm. Qed.

Lemma bcf_swap f rs cs : bcf (fun c a => f a c) cs rs = bcf f rs cs.
Proof. unfold bcf. rewrite line2f_swap, <- Sum_swap. reflexivity. Qed.

(* ---- submatrices of submatrices ---- *)

Lemma submat_map M (f g : nat -> nat) rs cs :
  submat M (map f rs) (map g cs) = map (fun i => map (fun j => get M (f i) (g j)) cs) rs.
Proof.
  unfold submat. rewrite map_map. apply map_ext. intros i. rewrite map_map. reflexivity.
Qed.

Lemma submat_submat M rp cp rs cs :
  all_lt (length rp) rs = true -> all_lt (length cp) cs = true ->
  submat (submat M rp cp) rs cs =
  submat M (map (fun i => nth i rp 0%nat) rs) (map (fun j => nth j cp 0%nat) cs).
Proof.
  intros Hr Hc. rewrite submat_map. set (N := submat M rp cp). unfold submat. subst N.
  rewrite all_lt_spec in Hr, Hc.
  apply map_ext_in. intros i Hi. apply map_ext_in. intros j Hj.
  apply get_submat; auto.
Qed.

Lemma NoDup_map_in (f : nat -> nat) l :
  NoDup l -> (forall x y, In x l -> In y l -> f x = f y -> x = y) -> NoDup (map f l).
Proof.
  induction 1 as [|a l Hn Hd IH]; intros Hi; cbn [map]; constructor.
  - intros I. apply in_map_iff in I. destruct I as [x [E Ix]].
    assert (x = a) by (apply Hi; [right; exact Ix | left; reflexivity | exact E]).
    subst. contradiction.
  - apply IH. intros x y Ix Iy. apply Hi; right; assumption.
Qed.

Lemma Balanced_submat m n M rp cp :
  nodupn rp = true -> nodupn cp = true -> all_lt m rp = true -> all_lt n cp = true ->
  Balanced m n M -> Balanced (length rp) (length cp) (submat M rp cp).
Proof.
  intros Nr Nc Lr Lc HB rs cs HL Hr Hc Dr Dc.
  rewrite submat_submat by assumption.
  apply BalancedProofs.nodupn_NoDup in Nr. apply BalancedProofs.nodupn_NoDup in Nc.
  rewrite all_lt_spec in Lr, Lc.
  pose proof (proj1 (all_lt_spec _ _) Hr) as Hr'. pose proof (proj1 (all_lt_spec _ _) Hc) as Hc'.
  pose proof (HB (map (fun i => nth i rp 0%nat) rs) (map (fun j => nth j cp 0%nat) cs)) as X.
  rewrite !map_length in X. apply X; auto.
  - apply all_lt_spec. intros x Hx. apply in_map_iff in Hx. destruct Hx as [i [<- Hi]].
    apply Lr. apply nth_In. auto.
  - apply all_lt_spec. intros x Hx. apply in_map_iff in Hx. destruct Hx as [i [<- Hi]].
    apply Lc. apply nth_In. auto.
  - apply BalancedProofs.nodupn_NoDup. apply NoDup_map_in; [apply BalancedProofs.nodupn_NoDup; exact Dr|].
    intros x y Hx Hy. apply (proj1 (NoDup_nth rp 0%nat) Nr); auto.
  - apply BalancedProofs.nodupn_NoDup. apply NoDup_map_in; [apply BalancedProofs.nodupn_NoDup; exact Dc|].
    intros x y Hx Hy. apply (proj1 (NoDup_nth cp 0%nat) Nc); auto.
Qed.

Lemma map_nth_index_of rp rs : (forall x, In x rs -> In x rp) ->
  map (fun i => nth i rp 0%nat) (map (fun x => index_of x rp) rs) = rs.
Proof.
  intros H. rewrite map_map. rewrite <- (map_id rs) at 2. apply map_ext_in.
  intros x Hx. apply nth_index_of. auto.
Qed.

Lemma Balanced_submat_inv m n M rp cp :
  (forall i, (i < m)%nat -> In i rp) -> (forall j, (j < n)%nat -> In j cp) ->
  Balanced (length rp) (length cp) (submat M rp cp) -> Balanced m n M.
Proof.
  intros Ir Ic HB rs cs HL Hr Hc Dr Dc.
  rewrite all_lt_spec in Hr, Hc.
  assert (Ir' : forall x, In x rs -> In x rp) by (intros x Hx; apply Ir, Hr, Hx).
  assert (Ic' : forall x, In x cs -> In x cp) by (intros x Hx; apply Ic, Hc, Hx).
  pose proof (HB (map (fun x => index_of x rp) rs) (map (fun x => index_of x cp) cs)) as X.
  rewrite !map_length in X.
  assert (A1 : all_lt (length rp) (map (fun x => index_of x rp) rs) = true).
  { apply all_lt_spec. intros y Hy. apply in_map_iff in Hy. destruct Hy as [x [<- Hx]].
    apply index_of_lt. auto. }
  assert (A2 : all_lt (length cp) (map (fun x => index_of x cp) cs) = true).
  { apply all_lt_spec. intros y Hy. apply in_map_iff in Hy. destruct Hy as [x [<- Hx]].
    apply index_of_lt. auto. }
  rewrite (submat_submat M rp cp _ _ A1 A2) in X.
  rewrite (map_nth_index_of rp rs Ir'), (map_nth_index_of cp cs Ic') in X.
  apply X; auto.
  - apply BalancedProofs.nodupn_NoDup. apply NoDup_map_in; [apply BalancedProofs.nodupn_NoDup; exact Dr|].
    intros x y Hx Hy. apply index_of_inj; auto.
  - apply BalancedProofs.nodupn_NoDup. apply NoDup_map_in; [apply BalancedProofs.nodupn_NoDup; exact Dc|].
    intros x y Hx Hy. apply index_of_inj; auto.
Qed.

(* B6. permutations *)
Theorem balanced_bf_perm : forall m n M rp cp,
  is_perm_l m rp = true -> is_perm_l n cp = true ->
  balanced_bf m n (submat M rp cp) = balanced_bf m n M.
Proof.
  intros m n M rp cp Hr Hc. apply bool_eq_iff. rewrite !balanced_bf_spec.
  pose proof (is_perm_l_parts _ _ Hr) as (Lr & Rr & Nr).
  pose proof (is_perm_l_parts _ _ Hc) as (Lc & Rc & Nc).
  split; intros H.
  - apply (Balanced_submat_inv m n M rp cp).
    + intros i Hi. eapply perm_l_In; eauto.
    + intros j Hj. eapply perm_l_In; eauto.
    + rewrite Lr, Lc. exact H.
  - pose proof (Balanced_submat m n M rp cp Nr Nc Rr Rc H) as X. rewrite Lr, Lc in X. exact X.
Qed.

(* B9. submatrices *)
Theorem balanced_bf_submat : forall m n M rs cs,
  strictly_increasing rs = true -> all_lt m rs = true ->
  strictly_increasing cs = true -> all_lt n cs = true ->
  balanced_bf m n M = true -> balanced_bf (length rs) (length cs) (submat M rs cs) = true.
Proof.
  intros m n M rs cs Sr Lr Sc Lc H. apply balanced_bf_spec.
  apply (Balanced_submat m n M rs cs); auto using si_nodupn. apply balanced_bf_spec, H.
Qed.

(* B7. transposition *)
Lemma Balanced_flip m n M B :
  (forall i j, (i < m)%nat -> (j < n)%nat -> get B j i = get M i j) ->
  Balanced m n M -> Balanced n m B.
Proof.
  intros E HB rs cs HL Hr Hc Dr Dc.
  rewrite (bad_cycle_bcf B rs cs HL).
  rewrite all_lt_spec in Hr, Hc.
  rewrite (bcf_ext (get B) (fun c a => get M a c) rs cs) by (intros a c Ha Hc'; apply E; auto).
  rewrite (bcf_swap (get M) cs rs). rewrite <- (bad_cycle_bcf M cs rs) by (symmetry; exact HL).
  apply HB; auto; apply all_lt_spec; assumption.
Qed.

Theorem balanced_bf_transpose : forall m n M,
  balanced_bf n m (transpose m n M) = balanced_bf m n M.
Proof.
  intros m n M. apply bool_eq_iff. rewrite !balanced_bf_spec. split.
  - apply Balanced_flip. intros i j Hi Hj. symmetry. apply get_transpose; assumption.
  - apply Balanced_flip. intros i j Hi Hj. apply get_transpose; assumption.
Qed.

(* B8. scaling lines by +-1: needs a ternary matrix (with entries 1 and 2 in a line, negating the line changes
   the entry sum by 6, i.e. by 2 modulo 4: [[1;2];[2;1]] is a bad cycle, [[-1;-2];[2;1]] is not) *)
Definition tern (x : Z) : Prop := x = 0 \/ x = 1 \/ x = -1.

Lemma is_ternary_entry_iff x : is_ternary_entry x = true <-> tern x.
Proof. unfold is_ternary_entry, tern. rewrite !orb_true_iff, !Z.eqb_eq. tauto. Qed.

Lemma get_ternary M i j : is_ternary M = true -> tern (get M i j).
Proof.
  intros H. apply is_ternary_entry_iff. unfold get.
  apply nthZ_forallb; [reflexivity|].
  apply (nthR_forallb (forallb is_ternary_entry)); [reflexivity | exact H].
Qed.

Lemma count_nz_ext_nz (g h : nat -> Z) l :
  (forall x, In x l -> (g x = 0 <-> h x = 0)) -> count_nz (map g l) = count_nz (map h l).
Proof.
  induction l as [|x l IH]; intros E; cbn [map]; [reflexivity|].
  rewrite !count_nz_cons. rewrite IH by (intros y Hy; apply E; right; exact Hy).
  pose proof (E x (or_introl eq_refl)) as Ex.
  destruct (Z.eqb_spec (g x) 0) as [G|G]; destruct (Z.eqb_spec (h x) 0) as [H|H]; tauto.
Qed.

(* a ternary vector with k nonzeros sums to k - 2j for some 0 <= j <= k *)
Lemma tern_sum_bound (g : nat -> Z) l : (forall x, In x l -> tern (g x)) ->
  exists k, 0 <= k <= Z.of_nat (count_nz (map g l)) /\
            sumZ (map g l) = Z.of_nat (count_nz (map g l)) - 2 * k.
Proof.
  induction l as [|x l IH]; intros T; cbn [map].
  - exists 0. unfold count_nz, sumZ. cbn. lia.
  - destruct IH as [k [Hk Hs]]; [intros y Hy; apply T; right; exact Hy|].
    rewrite count_nz_cons, sumZ_cons, Hs.
    destruct (T x (or_introl eq_refl)) as [E|[E|E]]; rewrite E.
    + exists k. cbn [Z.eqb]. lia.
    + exists k. change (1 =? 0) with false. cbv iota. lia.
    + exists (k + 1). change (-1 =? 0) with false. cbv iota. lia.
Qed.

Definition eqm4 (a b : Z) : Prop := exists q, a = b + 4 * q.

Lemma eqm4_mod a b : eqm4 a b -> a mod 4 = b mod 4.
Proof. intros [q ->]. rewrite Z.mul_comm. apply Z_mod_plus_full. Qed.

Lemma eqm4_trans a b c : eqm4 a b -> eqm4 b c -> eqm4 a c.
Proof. intros [q ->] [r ->]. exists (q + r). ring. Qed.

(* negating some rows, each of which has exactly two nonzeros, does not change the entry sum modulo 4 *)
Lemma Sum_scale_rows f s rs cs :
  (forall a, s a = 1 \/ s a = -1) -> (forall a c, tern (f a c)) ->
  (forall a, In a rs -> count_nz (map (fun c => f a c) cs) = 2%nat) ->
  eqm4 (Sum (fun a c => s a * f a c) rs cs) (Sum f rs cs).
Proof.
  intros Hs T. induction rs as [|a rs IH]; intros C.
  - exists 0. reflexivity.
  - rewrite !Sum_cons. destruct IH as [q Hq]; [intros x Hx; apply C; right; exact Hx|].
    rewrite Hq. rewrite (sumZ_map_scale (s a) (fun c => f a c) cs).
    destruct (tern_sum_bound (fun c => f a c) cs (fun x _ => T a x)) as [k [Hk Hsum]].
    rewrite (C a (or_introl eq_refl)) in Hk, Hsum. rewrite Hsum.
    destruct (Hs a) as [E|E]; rewrite E.
    + exists q. ring.
    + assert (K : k = 0 \/ k = 1 \/ k = 2) by lia.
      destruct K as [K|[K|K]]; subst k; [exists (q - 1) | exists q | exists (q + 1)];
        cbn [Z.of_nat Pos.of_succ_nat Pos.succ]; ring.
Qed.

Lemma line2f_rows f rs cs : line2f f rs cs = true ->
  forall a, In a rs -> count_nz (map (fun c => f a c) cs) = 2%nat.
Proof.
  unfold line2f. intros H a Ha. apply andb_true_iff in H. destruct H as [H _].
  rewrite forallb_forall in H. apply Nat.eqb_eq. apply H, Ha.
Qed.

Lemma line2f_cols f rs cs : line2f f rs cs = true ->
  forall c, In c cs -> count_nz (map (fun a => f a c) rs) = 2%nat.
Proof.
  unfold line2f. intros H c Hc. apply andb_true_iff in H. destruct H as [_ H].
  rewrite forallb_forall in H. apply Nat.eqb_eq. apply H, Hc.
Qed.

Lemma pm1_mul_zero s x : s = 1 \/ s = -1 -> (s * x = 0 <-> x = 0).
Proof. intros [->| ->]; lia. Qed.

Lemma tern_mul s x : s = 1 \/ s = -1 -> tern x -> tern (s * x).
Proof. unfold tern. intros [->| ->] H; lia. Qed.

Lemma line2f_scale f s t rs cs :
  (forall a, s a = 1 \/ s a = -1) -> (forall c, t c = 1 \/ t c = -1) ->
  line2f (fun a c => s a * t c * f a c) rs cs = line2f f rs cs.
Proof.
  intros Hs Ht. unfold line2f. f_equal; apply forallb_ext_in; intros x Hx; f_equal;
    apply count_nz_ext_nz; intros y Hy; rewrite <- Z.mul_assoc;
    rewrite pm1_mul_zero by auto; apply pm1_mul_zero; auto.
Qed.

Lemma bcf_scale f s t rs cs :
  (forall a, s a = 1 \/ s a = -1) -> (forall c, t c = 1 \/ t c = -1) -> (forall a c, tern (f a c)) ->
  bcf (fun a c => s a * t c * f a c) rs cs = bcf f rs cs.
Proof.
  intros Hs Ht T. unfold bcf. rewrite (line2f_scale f s t rs cs Hs Ht).
  destruct (line2f f rs cs) eqn:L; [|reflexivity]. cbn [andb]. f_equal.
  apply eqm4_mod.
  (* rows first *)
  apply (eqm4_trans _ (Sum (fun a c => t c * f a c) rs cs)).
  - rewrite (Sum_ext (fun a c => s a * t c * f a c) (fun a c => s a * (t c * f a c)) rs cs)
      by (intros; ring).
    apply (Sum_scale_rows (fun a c => t c * f a c) s rs cs Hs).
    + intros a c. apply tern_mul; auto.
    + intros a Ha. rewrite <- (line2f_rows f rs cs L a Ha).
      apply count_nz_ext_nz. intros c Hc. apply pm1_mul_zero; auto.
  - rewrite (Sum_swap (fun a c => t c * f a c) rs cs), (Sum_swap f rs cs).
    apply (Sum_scale_rows (fun c a => f a c) t cs rs Ht).
    + intros c a. apply T.
    + intros c Hc. apply (line2f_cols f rs cs L c Hc).
Qed.

Theorem balanced_bf_scale : forall m n M rs cs,
  is_ternary M = true ->
  length rs = m -> length cs = n -> forallb is_pm1' rs = true -> forallb is_pm1' cs = true ->
  balanced_bf m n (mk_mat m n (fun i j => nthZ rs i * nthZ cs j * get M i j)) = balanced_bf m n M.
Proof.
  intros m n M rs cs HT Lr Lc Pr Pc. fold (scale_mat m n rs cs M).
  apply bool_eq_iff. rewrite !balanced_bf_spec.
  assert (K : forall R C, length R = length C -> all_lt m R = true -> all_lt n C = true ->
              bad_cycle (length R) (submat (scale_mat m n rs cs M) R C) =
              bad_cycle (length R) (submat M R C)).
  { intros R C HL HR HC. rewrite !bad_cycle_bcf by exact HL.
    rewrite all_lt_spec in HR, HC.
    rewrite (bcf_ext (get (scale_mat m n rs cs M)) (fun a c => sgn_of rs a * sgn_of cs c * get M a c) R C).
    - apply bcf_scale; [intros; apply sgn_of_pm1 | intros; apply sgn_of_pm1 |].
      intros a c. apply get_ternary, HT.
    - intros a c Ha Hc. apply get_scale_mat; auto. }
  split; intros H R C HL HR HC DR DC.
  - rewrite <- (K R C HL HR HC). apply H; assumption.
  - rewrite (K R C HL HR HC). apply H; assumption.
Qed.

(* ------------------------------------------------------------------------------------------ *)
(* C. What acceptance by judge_rel means                                                      *)
(* ------------------------------------------------------------------------------------------ *)

Definition rel_input :=
  kind <- dZ ;; p1 <- dlist dZ ;; p2 <- dlist dZ ;; x <- dmat ;; x' <- dmat ;;
  v <- drep dZ 10 ;; v' <- drep dZ 10 ;; dend (kind, p1, p2, x, x', v, v').

Definition is01 (x : Z) : Prop := x = 0 \/ x = 1.

Lemma det2_iff a b : det2 a b = true <-> is01 a /\ is01 b.
Proof. unfold det2, is01. rewrite andb_true_iff, !orb_true_iff, !Z.eqb_eq. reflexivity. Qed.

(* two determined verdicts that the judge compares are equal; the Camion flag (position 9) only when one of
   the two presentations is reported totally unimodular *)
Lemma same_at_spec v v' i i' : same_at v v' i i' = true ->
  (i = 9%nat -> vget v 0 = 1 \/ vget v' 0 = 1) ->
  is01 (vget v i) -> is01 (vget v' i') -> vget v i = vget v' i'.
Proof.
  unfold same_at. intros H H9 D1 D2.
  destruct (Nat.eqb i 9 && negb ((vget v 0 =? 1) || (vget v' 0 =? 1)))%bool eqn:E.
  - exfalso. apply andb_true_iff in E. destruct E as [E1 E2]. apply Nat.eqb_eq in E1.
    apply negb_true_iff in E2. apply orb_false_iff in E2. destruct E2 as [E2 E3].
    apply Z.eqb_neq in E2. apply Z.eqb_neq in E3. destruct (H9 E1); contradiction.
  - assert (D : det2 (vget v i) (vget v' i') = true) by (apply det2_iff; auto).
    rewrite D in H. apply Z.eqb_eq, H.
Qed.

Lemma imp_at_spec v v' i : imp_at v v' i = true ->
  is01 (vget v i) -> is01 (vget v' i) -> vget v i = 1 -> vget v' i = 1.
Proof.
  unfold imp_at. intros H D1 D2 Y.
  assert (D : det2 (vget v i) (vget v' i) = true) by (apply det2_iff; auto).
  rewrite D in H. apply orb_true_iff in H. destruct H as [H|H]; apply Z.eqb_eq in H; [lia | exact H].
Qed.

Lemma forallb_In (A : Type) (p : A -> bool) l : forallb p l = true -> forall x, In x l -> p x = true.
Proof. intros H. apply forallb_forall, H. Qed.

(* kind 1: permutation of rows and columns *)
Theorem judge_rel_kind1 : forall rec p1 p2 m n M m' n' M' v v' rest,
  rel_input rec = Some ((1, p1, p2, (m, n, M), (m', n', M'), v, v'), rest) ->
  judge_rel rec = 0 ->
  let rp := map Z.to_nat p1 in let cp := map Z.to_nat p2 in
  is_perm_l m rp = true /\ is_perm_l n cp = true /\ m' = m /\ n' = n /\ M' = submat M rp cp /\
  (forall i, (i < 10)%nat -> same_at v v' i i = true) /\
  (forall t, sp_greedy t m' n' M' = sp_greedy t m n M) /\
  balanced_bf m' n' M' = balanced_bf m n M.
Proof.
  intros rec p1 p2 m n M m' n' M' v v' rest Hdec HJ rp cp.
  unfold judge_rel in HJ. unfold rel_input in Hdec. rewrite Hdec in HJ.
  cbv beta iota zeta in HJ. change (1 =? 1) with true in HJ. cbv iota in HJ.
  fold rp cp in HJ.
  destruct (is_perm_l m rp && is_perm_l n cp && Nat.eqb m m' && Nat.eqb n n' &&
            mat_eqb M' (submat M rp cp))%bool eqn:C; cbn [negb] in HJ; [|discriminate].
  destruct (forallb (fun i => same_at v v' i i) (iota 0 10)) eqn:A; [|discriminate].
  apply andb_true_iff in C. destruct C as [C C5]. apply andb_true_iff in C. destruct C as [C C4].
  apply andb_true_iff in C. destruct C as [C C3]. apply andb_true_iff in C. destruct C as [C1 C2].
  apply Nat.eqb_eq in C3. apply Nat.eqb_eq in C4. apply mat_eqb_eq in C5. subst m' n' M'.
  repeat apply conj; auto.
  - intros i Hi. apply (forallb_In _ _ _ A). apply in_iota. lia.
  - intros t. apply sp_greedy_perm; assumption.
  - apply balanced_bf_perm; assumption.
Qed.

(* kind 2: scaling rows and columns by +-1 *)
Theorem judge_rel_kind2 : forall rec p1 p2 m n M m' n' M' v v' rest,
  rel_input rec = Some ((2, p1, p2, (m, n, M), (m', n', M'), v, v'), rest) ->
  judge_rel rec = 0 ->
  length p1 = m /\ length p2 = n /\ forallb is_pm1' p1 = true /\ forallb is_pm1' p2 = true /\
  m' = m /\ n' = n /\ M' = mk_mat m n (fun i j => nthZ p1 i * nthZ p2 j * get M i j) /\
  (forall i, In i [V_TU; V_NET; V_CONET; V_SPT; V_BAL; V_CAM] -> same_at v v' i i = true) /\
  sp_greedy true m' n' M' = sp_greedy true m n M /\
  (is_ternary M = true -> balanced_bf m' n' M' = balanced_bf m n M).
Proof.
  intros rec p1 p2 m n M m' n' M' v v' rest Hdec HJ.
  unfold judge_rel in HJ. unfold rel_input in Hdec. rewrite Hdec in HJ.
  cbv beta iota zeta in HJ. change (2 =? 1) with false in HJ. change (2 =? 2) with true in HJ.
  cbv iota in HJ.
  destruct (Nat.eqb (length p1) m && Nat.eqb (length p2) n && forallb is_pm1' p1 && forallb is_pm1' p2 &&
            Nat.eqb m m' && Nat.eqb n n' &&
            mat_eqb M' (mk_mat m n (fun i j => nthZ p1 i * nthZ p2 j * get M i j)))%bool eqn:C;
    cbn [negb] in HJ; [|discriminate].
  destruct (forallb (fun i => same_at v v' i i) [V_TU; V_NET; V_CONET; V_SPT; V_BAL; V_CAM]) eqn:A;
    [|discriminate].
  apply andb_true_iff in C. destruct C as [C C7]. apply andb_true_iff in C. destruct C as [C C6].
  apply andb_true_iff in C. destruct C as [C C5]. apply andb_true_iff in C. destruct C as [C C4].
  apply andb_true_iff in C. destruct C as [C C3]. apply andb_true_iff in C. destruct C as [C1 C2].
  apply Nat.eqb_eq in C1. apply Nat.eqb_eq in C2. apply Nat.eqb_eq in C5. apply Nat.eqb_eq in C6.
  apply mat_eqb_eq in C7. subst m' n' M'.
  repeat apply conj; auto.
  - apply (forallb_In _ _ _ A).
  - apply sp_greedy_scale; assumption.
  - intros HT. apply balanced_bf_scale; assumption.
Qed.

(* kind 3: transposition *)
Theorem judge_rel_kind3 : forall rec p1 p2 m n M m' n' M' v v' rest,
  rel_input rec = Some ((3, p1, p2, (m, n, M), (m', n', M'), v, v'), rest) ->
  judge_rel rec = 0 ->
  m' = n /\ n' = m /\ M' = transpose m n M /\
  (forall i, In i [V_TU; V_REG; V_SPT; V_SPB; V_BAL; V_CAM] -> same_at v v' i i = true) /\
  same_at v v' V_GRA V_COG = true /\ same_at v v' V_COG V_GRA = true /\
  same_at v v' V_NET V_CONET = true /\ same_at v v' V_CONET V_NET = true /\
  (forall t, sp_greedy t m' n' M' = sp_greedy t m n M) /\
  balanced_bf m' n' M' = balanced_bf m n M.
Proof.
  intros rec p1 p2 m n M m' n' M' v v' rest Hdec HJ.
  unfold judge_rel in HJ. unfold rel_input in Hdec. rewrite Hdec in HJ.
  cbv beta iota zeta in HJ. change (3 =? 1) with false in HJ. change (3 =? 2) with false in HJ.
  change (3 =? 3) with true in HJ. cbv iota in HJ.
  destruct (Nat.eqb m n' && Nat.eqb n m' && mat_eqb M' (transpose m n M))%bool eqn:C;
    cbn [negb] in HJ; [|discriminate].
  destruct (forallb (fun i => same_at v v' i i) [V_TU; V_REG; V_SPT; V_SPB; V_BAL; V_CAM]) eqn:A;
    cbn [andb] in HJ; [|discriminate].
  destruct (same_at v v' V_GRA V_COG) eqn:A1; cbn [andb] in HJ; [|discriminate].
  destruct (same_at v v' V_COG V_GRA) eqn:A2; cbn [andb] in HJ; [|discriminate].
  destruct (same_at v v' V_NET V_CONET) eqn:A3; cbn [andb] in HJ; [|discriminate].
  destruct (same_at v v' V_CONET V_NET) eqn:A4; cbn [andb] in HJ; [|discriminate].
  apply andb_true_iff in C. destruct C as [C C3]. apply andb_true_iff in C. destruct C as [C1 C2].
  apply Nat.eqb_eq in C1. apply Nat.eqb_eq in C2. apply mat_eqb_eq in C3. subst m' n' M'.
  repeat apply conj; auto.
  - apply (forallb_In _ _ _ A).
  - intros t. apply sp_greedy_transpose.
  - apply balanced_bf_transpose.
Qed.

(* kind 4: M' is M plus one line that is reducible (ternary sense) in M' *)
Theorem judge_rel_kind4 : forall rec p1 p2 m n M m' n' M' v v' rest,
  rel_input rec = Some ((4, p1, p2, (m, n, M), (m', n', M'), v, v'), rest) ->
  judge_rel rec = 0 ->
  exists isrow pos, p1 = [isrow; pos] /\
  let k := Z.to_nat pos in let isr := negb (isrow =? 0) in
  (if isr then m' = S m /\ n' = n /\ (k < m')%nat /\ submat M' (keep_line m' k) (iota 0 n') = M
   else m' = m /\ n' = S n /\ (k < n')%nat /\ submat M' (iota 0 m') (keep_line n' k) = M) /\
  line_reducible true m' n' M' isr k = true /\ is_ternary M' = true /\
  (forall i, In i [V_TU; V_REG; V_GRA; V_COG; V_NET; V_CONET; V_SPT; V_BAL] -> same_at v v' i i = true) /\
  (line_reducible false m' n' M' isr k = true -> same_at v v' V_SPB V_SPB = true) /\
  sp_greedy true m' n' M' = sp_greedy true m n M /\
  (line_reducible false m' n' M' isr k = true -> sp_greedy false m' n' M' = sp_greedy false m n M).
Proof.
  intros rec p1 p2 m n M m' n' M' v v' rest Hdec HJ.
  unfold judge_rel in HJ. unfold rel_input in Hdec. rewrite Hdec in HJ.
  cbv beta iota zeta in HJ. change (4 =? 1) with false in HJ. change (4 =? 2) with false in HJ.
  change (4 =? 3) with false in HJ. change (4 =? 4) with true in HJ. cbv iota in HJ.
  destruct p1 as [|isrow [|pos [|extra p1]]]; try discriminate.
  exists isrow, pos. split; [reflexivity|]. cbv zeta.
  set (k := Z.to_nat pos) in *. set (isr := negb (isrow =? 0)) in *.
  destruct ((if isr then Nat.eqb m' (S m) && Nat.eqb n' n && Nat.ltb k m'
             else Nat.eqb m' m && Nat.eqb n' (S n) && Nat.ltb k n') &&
            mat_eqb (if isr then submat M' (keep_line m' k) (iota 0 n')
                     else submat M' (iota 0 m') (keep_line n' k)) M &&
            line_reducible true m' n' M' isr k && is_ternary M')%bool eqn:C; cbn [negb] in HJ; [|discriminate].
  destruct (forallb (fun i => same_at v v' i i) [V_TU; V_REG; V_GRA; V_COG; V_NET; V_CONET; V_SPT; V_BAL]) eqn:A;
    cbn [andb] in HJ; [|discriminate].
  apply andb_true_iff in C. destruct C as [C C4].
  apply andb_true_iff in C. destruct C as [C C3]. apply andb_true_iff in C. destruct C as [C1 C2].
  apply mat_eqb_eq in C2.
  assert (SPB : line_reducible false m' n' M' isr k = true -> same_at v v' V_SPB V_SPB = true).
  { intros R. rewrite R in HJ. destruct (same_at v v' V_SPB V_SPB); [reflexivity | discriminate]. }
  clear HJ.
  destruct isr.
  - apply andb_true_iff in C1. destruct C1 as [C1 K]. apply andb_true_iff in C1. destruct C1 as [D1 D2].
    apply Nat.eqb_eq in D1. apply Nat.eqb_eq in D2. apply Nat.ltb_lt in K.
    assert (Em : m = (m' - 1)%nat) by lia.
    repeat apply conj; auto.
    + apply (forallb_In _ _ _ A).
    + rewrite (sp_greedy_add_row true m' n' M' k C3 K). rewrite C2, <- Em, D2. reflexivity.
    + intros R. rewrite (sp_greedy_add_row false m' n' M' k R K). rewrite C2, <- Em, D2. reflexivity.
  - apply andb_true_iff in C1. destruct C1 as [C1 K]. apply andb_true_iff in C1. destruct C1 as [D1 D2].
    apply Nat.eqb_eq in D1. apply Nat.eqb_eq in D2. apply Nat.ltb_lt in K.
    assert (En : n = (n' - 1)%nat) by lia.
    repeat apply conj; auto.
    + apply (forallb_In _ _ _ A).
    + rewrite (sp_greedy_add_col true m' n' M' k C3 K). rewrite C2, <- En, D1. reflexivity.
    + intros R. rewrite (sp_greedy_add_col false m' n' M' k R K). rewrite C2, <- En, D1. reflexivity.
Qed.

(* kind 5: M' is a submatrix of M *)
Theorem judge_rel_kind5 : forall rec p1 p2 m n M m' n' M' v v' rest,
  rel_input rec = Some ((5, p1, p2, (m, n, M), (m', n', M'), v, v'), rest) ->
  judge_rel rec = 0 ->
  let rs := map Z.to_nat p1 in let cs := map Z.to_nat p2 in
  strictly_increasing rs = true /\ strictly_increasing cs = true /\
  all_lt m rs = true /\ all_lt n cs = true /\
  m' = length rs /\ n' = length cs /\ M' = submat M rs cs /\
  (forall i, (i < 9)%nat -> imp_at v v' i = true) /\
  (forall t, sp_greedy t m n M = true -> sp_greedy t m' n' M' = true) /\
  (balanced_bf m n M = true -> balanced_bf m' n' M' = true).
Proof.
  intros rec p1 p2 m n M m' n' M' v v' rest Hdec HJ rs cs.
  unfold judge_rel in HJ. unfold rel_input in Hdec. rewrite Hdec in HJ.
  cbv beta iota zeta in HJ. change (5 =? 1) with false in HJ. change (5 =? 2) with false in HJ.
  change (5 =? 3) with false in HJ. change (5 =? 4) with false in HJ. change (5 =? 5) with true in HJ.
  cbv iota in HJ. fold rs cs in HJ.
  destruct (strictly_increasing rs && strictly_increasing cs && all_lt m rs && all_lt n cs &&
            Nat.eqb m' (length rs) && Nat.eqb n' (length cs) && mat_eqb M' (submat M rs cs))%bool eqn:C;
    cbn [negb] in HJ; [|discriminate].
  destruct (forallb (fun i => imp_at v v' i) (iota 0 9)) eqn:A; [|discriminate].
  apply andb_true_iff in C. destruct C as [C C7]. apply andb_true_iff in C. destruct C as [C C6].
  apply andb_true_iff in C. destruct C as [C C5]. apply andb_true_iff in C. destruct C as [C C4].
  apply andb_true_iff in C. destruct C as [C C3]. apply andb_true_iff in C. destruct C as [C1 C2].
  apply Nat.eqb_eq in C5. apply Nat.eqb_eq in C6. apply mat_eqb_eq in C7. subst m' n' M'.
  repeat apply conj; auto.
  - intros i Hi. apply (forallb_In _ _ _ A). apply in_iota. lia.
  - intros t H. apply (sp_greedy_submat t m n M rs cs); assumption.
  - intros H. apply (balanced_bf_submat m n M rs cs); assumption.
Qed.

(* the comparisons, read as statements about determined verdicts *)
Corollary judge_rel_kind1_verdicts : forall rec p1 p2 m n M m' n' M' v v' rest i,
  rel_input rec = Some ((1, p1, p2, (m, n, M), (m', n', M'), v, v'), rest) ->
  judge_rel rec = 0 -> (i < 9)%nat -> is01 (vget v i) -> is01 (vget v' i) -> vget v i = vget v' i.
Proof.
  intros rec p1 p2 m n M m' n' M' v v' rest i Hdec HJ Hi D1 D2.
  destruct (judge_rel_kind1 _ _ _ _ _ _ _ _ _ _ _ _ Hdec HJ) as (_ & _ & _ & _ & _ & S & _).
  apply (same_at_spec v v' i i); [apply S; lia | intros; lia | exact D1 | exact D2].
Qed.

Corollary judge_rel_kind5_verdicts : forall rec p1 p2 m n M m' n' M' v v' rest i,
  rel_input rec = Some ((5, p1, p2, (m, n, M), (m', n', M'), v, v'), rest) ->
  judge_rel rec = 0 -> (i < 9)%nat -> is01 (vget v i) -> is01 (vget v' i) -> vget v i = 1 -> vget v' i = 1.
Proof.
  intros rec p1 p2 m n M m' n' M' v v' rest i Hdec HJ Hi D1 D2.
  destruct (judge_rel_kind5 _ _ _ _ _ _ _ _ _ _ _ _ Hdec HJ) as (_ & _ & _ & _ & _ & _ & _ & S & _).
  apply (imp_at_spec v v' i); [apply S; exact Hi | exact D1 | exact D2].
Qed.

Corollary judge_rel_kind2_verdicts : forall rec p1 p2 m n M m' n' M' v v' rest i,
  rel_input rec = Some ((2, p1, p2, (m, n, M), (m', n', M'), v, v'), rest) ->
  judge_rel rec = 0 -> In i [V_TU; V_NET; V_CONET; V_SPT; V_BAL] ->
  is01 (vget v i) -> is01 (vget v' i) -> vget v i = vget v' i.
Proof.
  intros rec p1 p2 m n M m' n' M' v v' rest i Hdec HJ Hi D1 D2.
  destruct (judge_rel_kind2 _ _ _ _ _ _ _ _ _ _ _ _ Hdec HJ) as (_ & _ & _ & _ & _ & _ & _ & S & _).
  apply (same_at_spec v v' i i); [apply S | | exact D1 | exact D2].
  - cbn [In] in *. tauto.
  - intros ->. unfold V_TU, V_NET, V_CONET, V_SPT, V_BAL in Hi. cbn [In] in Hi. lia.
Qed.

Corollary judge_rel_kind3_verdicts : forall rec p1 p2 m n M m' n' M' v v' rest,
  rel_input rec = Some ((3, p1, p2, (m, n, M), (m', n', M'), v, v'), rest) ->
  judge_rel rec = 0 ->
  (forall i, In i [V_TU; V_REG; V_SPT; V_SPB; V_BAL] ->
             is01 (vget v i) -> is01 (vget v' i) -> vget v i = vget v' i) /\
  (forall i i', In (i, i') [(V_GRA, V_COG); (V_COG, V_GRA); (V_NET, V_CONET); (V_CONET, V_NET)] ->
             is01 (vget v i) -> is01 (vget v' i') -> vget v i = vget v' i').
Proof.
  intros rec p1 p2 m n M m' n' M' v v' rest Hdec HJ.
  destruct (judge_rel_kind3 _ _ _ _ _ _ _ _ _ _ _ _ Hdec HJ) as (_ & _ & _ & S & S1 & S2 & S3 & S4 & _).
  split.
  - intros i Hi D1 D2. apply (same_at_spec v v' i i); [apply S | | exact D1 | exact D2].
    + cbn [In] in *. tauto.
    + intros ->. unfold V_TU, V_REG, V_SPT, V_SPB, V_BAL in Hi. cbn [In] in Hi. lia.
  - intros i i' Hi D1 D2. cbn [In] in Hi.
    destruct Hi as [E|[E|[E|[E|[]]]]]; injection E as <- <-;
      (apply same_at_spec; [assumption | unfold V_GRA, V_COG, V_NET, V_CONET; intros; lia | exact D1 | exact D2]).
Qed.

Corollary judge_rel_kind4_verdicts : forall rec p1 p2 m n M m' n' M' v v' rest i,
  rel_input rec = Some ((4, p1, p2, (m, n, M), (m', n', M'), v, v'), rest) ->
  judge_rel rec = 0 -> In i [V_TU; V_REG; V_GRA; V_COG; V_NET; V_CONET; V_SPT; V_BAL] ->
  is01 (vget v i) -> is01 (vget v' i) -> vget v i = vget v' i.
Proof.
  intros rec p1 p2 m n M m' n' M' v v' rest i Hdec HJ Hi D1 D2.
  destruct (judge_rel_kind4 _ _ _ _ _ _ _ _ _ _ _ _ Hdec HJ) as (isrow & pos & _ & _ & _ & _ & S & _).
  apply (same_at_spec v v' i i); [apply S; exact Hi | | exact D1 | exact D2].
  intros ->. unfold V_TU, V_REG, V_GRA, V_COG, V_NET, V_CONET, V_SPT, V_BAL in Hi. cbn [In] in Hi. lia.
Qed.

(* non-vacuity: a record of kind 3 that the judge accepts, and one it rejects *)
Example judge_rel_ex_ok :
  judge_rel [3; 0; 0; 1; 2; 1; 0; 2; 1; 1; 0;  1;1;1;1;1;1;1;1;1;1;  1;1;1;1;1;1;1;1;1;1] = 0.
Proof. vm_compute. reflexivity. Qed.

Example judge_rel_ex_bad :
  judge_rel [3; 0; 0; 1; 2; 1; 0; 2; 1; 1; 0;  1;1;1;1;1;1;1;1;1;1;  0;1;1;1;1;1;1;1;1;1] = 403.
Proof. vm_compute. reflexivity. Qed.

Print Assumptions sp_greedy_perm.
Print Assumptions sp_greedy_transpose.
Print Assumptions sp_greedy_scale.
Print Assumptions sp_greedy_add_line.
Print Assumptions sp_greedy_submat.
Print Assumptions balanced_bf_perm.
Print Assumptions balanced_bf_transpose.
Print Assumptions balanced_bf_scale.
Print Assumptions balanced_bf_submat.
Print Assumptions judge_rel_kind1.
Print Assumptions judge_rel_kind2.
Print Assumptions judge_rel_kind3.
Print Assumptions judge_rel_kind4.
Print Assumptions judge_rel_kind5.
Print Assumptions judge_rel_kind1_verdicts.
Print Assumptions judge_rel_kind2_verdicts.
Print Assumptions judge_rel_kind3_verdicts.
Print Assumptions judge_rel_kind4_verdicts.
Print Assumptions judge_rel_kind5_verdicts.
