(* EdgeModel.v — C20 / C14: the edge-list text format of doc/file-formats.md as read by CMRgraphCreateFromEdgeList.
   One edge per line: two node names and an optional row/column label, separated by whitespace.  Nodes are numbered in
   order of first appearance, edges in line order.  Labels: r<k>, R<k>, t<k>, T<k>, -<k> -> -k (row k); c<k>, C<k>, <k>
   -> k (column k); no label -> 0.  Reading stops at the first line with fewer than two tokens.  No proofs here. *)
From Cmr Require Import Base TextModel.
Local Open Scope Z_scope.

(* split at newline (10) *)
Fixpoint lines_aux (cur : list Z) (bytes : list Z) : list (list Z) :=
  match bytes with
  | [] => [rev cur]
  | b :: r => if b =? 10 then rev cur :: lines_aux [] r else lines_aux (b :: cur) r
  end.
Definition lines (bytes : list Z) : list (list Z) := lines_aux [] bytes.

Definition all_digits (l : list Z) : bool := match l with [] => false | _ => forallb is_digit l end.

(* Some element, or None for a label this model does not cover (the generator only produces covered ones) *)
Definition parse_label (tok : list Z) : option Z :=
  match tok with
  | [] => None
  | c :: r =>
    if (c =? 114) || (c =? 82) || (c =? 116) || (c =? 84) || (c =? 45) then      (* r R t T - *)
      (if all_digits r then Some (- digits_val 0 r) else None)
    else if (c =? 99) || (c =? 67) then                                           (* c C *)
      (if all_digits r then Some (digits_val 0 r) else None)
    else if all_digits tok then Some (digits_val 0 tok) else None
  end.

Fixpoint name_index (names : list (list Z)) (x : list Z) : option nat :=
  match names with
  | [] => None
  | y :: r => if zlist_eqb x y then Some O else match name_index r x with Some k => Some (S k) | None => None end
  end.

(* returns (names, index) with the name added at the end if new *)
Definition intern (names : list (list Z)) (x : list Z) : list (list Z) * nat :=
  match name_index names x with
  | Some k => (names, k)
  | None => (names ++ [x], length names)
  end.

Fixpoint parse_edges (names : list (list Z)) (ls : list (list Z)) : option (list (list Z) * list (nat * nat * Z)) :=
  match ls with
  | [] => Some (names, [])
  | l :: rest =>
    match tokens l with
    | u :: v :: more =>
      let '(n1, iu) := intern names u in
      let '(n2, iv) := intern n1 v in
      match (match more with [] => Some 0 | lab :: _ => parse_label lab end) with
      | None => None
      | Some e =>
        match parse_edges n2 rest with
        | Some (nf, es) => Some (nf, (iu, iv, e) :: es)
        | None => None
        end
      end
    | _ => Some (names, [])          (* fewer than two tokens: reading stops here *)
    end
  end.

Definition dedge : dec (nat * nat * Z) := u <- dnat ;; v <- dnat ;; e <- dZ ;; dret (u, v, e).

Definition edge_eqb (a b : nat * nat * Z) : bool :=
  let '(u, v, e) := a in let '(u', v', e') := b in Nat.eqb u u' && Nat.eqb v v' && (e =? e').

(* record: nbytes bytes.. rc nnodes haslabels [nlabels (len bytes..)*] nedges (u v element)*
   0 accepted; 1 malformed record or a label outside the model; 310 call failed; 311 number of nodes differs;
   312 edges (end nodes in order of first appearance, line order, elements) differ; 313 node labels differ *)
Definition judge_edgelist (rec : list Z) : Z :=
  match (bytes <- dlist dZ ;; rc <- dZ ;; nn <- dnat ;; hl <- dZ ;;
         labs <- (if hl =? 0 then dret [] else dlist (dlist dZ)) ;; es <- dlist dedge ;; dend (bytes, rc, nn, hl, labs, es)) rec with
  | Some ((bytes, rc, nn, hl, labs, es), _) =>
    match parse_edges [] (lines bytes) with
    | None => 1
    | Some (names, exp) =>
      if negb (rc =? 0) then 310
      else if negb (Nat.eqb nn (length names)) then 311
      else if negb (list_eqb edge_eqb es exp) then 312
      else if negb (hl =? 0) && negb (list_eqb zlist_eqb labs names) then 313
      else 0
    end
  | None => 1
  end.
