(* OneSum.v — 1-sums (block diagonal matrices, MatModel.block_diag2): the oracles tu_bf, regular_bf, balanced_bf
   and sp_greedy accept the 1-sum of A and B exactly when they accept both A and B.
   "=>": A and B are the slices (iota 0 m1 / iota 0 n1) and (iota m1 m2 / iota n1 n2) of the 1-sum, and all four
   properties are hereditary.  "<=": TU — TuClosure.TUmx_block_diag; regular — the 1-sum of two signings is a
   signing of the 1-sum; balanced — a cycle submatrix of the 1-sum splits into a cycle submatrix of A and one of
   B whose (even) entry sums add up; series-parallel — reduce the A part first, then the B part. *)
From Coq Require Import Setoid Arith PeanoNat Lia.
From Cmr Require Import Base Det BaseProofs MatModel TuModel SpModel SpProofs BalancedProofs RegularProofs.
From Cmr Require MatProofs SpProofs2 RelProofs TuProofs TuClosure.
From mathcomp Require all_ssreflect all_fingroup all_algebra ssrZ zify.
Local Open Scope Z_scope.

(* ------------------------------------------------------------------------------------------ *)
(* 0. Generalities                                                                            *)
(* ------------------------------------------------------------------------------------------ *)

Lemma bool_and_iff (x a b : bool) : (x = true <-> a = true /\ b = true) -> x = a && b.
Proof.
  destruct x, a, b; cbn; intros [H1 H2]; try reflexivity;
    try (destruct (H1 eq_refl); discriminate); apply H2; split; reflexivity.
Qed.

Lemma nth_iota k : forall s i, (i < k)%nat -> nth i (iota s k) 0%nat = (s + i)%nat.
Proof.
  induction k as [|k IH]; intros s i Hi; [lia|]. destruct i as [|i]; cbn [iota nth].
  - lia.
  - rewrite IH by lia. lia.
Qed.

Lemma si_iota k : forall s, strictly_increasing (iota s k) = true.
Proof.
  induction k as [|k IH]; intros s; [reflexivity|]. cbn [iota].
  specialize (IH (S s)). destruct k as [|k]; [reflexivity|].
  cbn [iota strictly_increasing] in *. rewrite IH, andb_true_r. apply Nat.ltb_lt. lia.
Qed.

Lemma all_lt_iota k s n : (s + n <= k)%nat -> all_lt k (iota s n) = true.
Proof. intros H. apply all_lt_spec. intros x Hx. apply in_iota in Hx. lia. Qed.

(* the two diagonal blocks are slices of the 1-sum *)
Definition slice_A := MatProofs.block_diag2_slice_A.

Theorem block_diag2_slice_B : forall m1 n1 A m2 n2 B,
  wf_mat m2 n2 B = true -> submat (block_diag2 m1 n1 A m2 n2 B) (iota m1 m2) (iota n1 n2) = B.
Proof.
  intros m1 n1 A m2 n2 B WB. apply (mat_ext m2 n2); [|exact WB|].
  - pose proof (MatProofs.wf_submat (block_diag2 m1 n1 A m2 n2 B) (iota m1 m2) (iota n1 n2)) as W.
    rewrite !length_iota in W. exact W.
  - intros i j Hi Hj. rewrite MatProofs.get_submat by (rewrite length_iota; assumption).
    rewrite !nth_iota by assumption. apply MatProofs.get_block_diag2_B'; assumption.
Qed.

(* ------------------------------------------------------------------------------------------ *)
(* 1. Total unimodularity                                                                     *)
(* ------------------------------------------------------------------------------------------ *)

Module OneSumTU.
Import all_ssreflect all_fingroup all_algebra ssrZ zify.
Import TuProofs TuClosure.
Import GRing.Theory.
Local Open Scope ring_scope.
Import mathcomp.ssreflect.seq.
Set Implicit Arguments.
Unset Strict Implicit.
Unset Printing Implicit Defensive.

Lemma mx_of_block_diag2 m1 n1 (A : mat) m2 n2 (B : mat) :
  mx_of (m1 + m2) (n1 + n2) (block_diag2 m1 n1 A m2 n2 B) =
  block_mx (mx_of m1 n1 A) 0 0 (mx_of m2 n2 B).
Proof.
apply/matrixP => i j; rewrite [LHS]mxE /block_diag2 get_mk_mat; try exact/ltP.
rewrite !ltbE -[i]splitK -[j]splitK.
case: (fintype.split i) => i'; case: (fintype.split j) => j' /=.
- by rewrite block_mxEul mxE !ltn_ord.
- by rewrite block_mxEur mxE ltn_ord ltnNge leq_addr.
- by rewrite block_mxEdl mxE ltn_ord ltnNge leq_addr.
- rewrite block_mxEdr mxE ![(_ + _ < _)%N]ltnNge !leq_addr /=.
  by congr (get B _ _); lia.
Qed.

Theorem tu_bf_onesum m1 n1 (A : mat) m2 n2 (B : mat) :
  tu_bf (m1 + m2) (n1 + n2) (block_diag2 m1 n1 A m2 n2 B) = tu_bf m1 n1 A && tu_bf m2 n2 B.
Proof.
apply/tu_bfP/andP; rewrite mx_of_block_diag2.
  by move=> /TUmx_block_diag_iff [TA TB]; split; apply/tu_bfP.
by move=> [/tu_bfP TA /tu_bfP TB]; apply/TUmx_block_diag_iff.
Qed.

End OneSumTU.

(* no well-formedness hypothesis is needed: tu_bf only reads entries through [get] *)
Theorem tu_bf_onesum_gen : forall m1 n1 A m2 n2 B,
  tu_bf (m1 + m2) (n1 + n2) (block_diag2 m1 n1 A m2 n2 B) = tu_bf m1 n1 A && tu_bf m2 n2 B.
Proof. exact OneSumTU.tu_bf_onesum. Qed.

Theorem tu_bf_onesum : forall m1 n1 A m2 n2 B, wf_mat m1 n1 A = true -> wf_mat m2 n2 B = true ->
  tu_bf (m1 + m2) (n1 + n2) (block_diag2 m1 n1 A m2 n2 B) = tu_bf m1 n1 A && tu_bf m2 n2 B.
Proof. intros m1 n1 A m2 n2 B _ _. apply tu_bf_onesum_gen. Qed.

(* ------------------------------------------------------------------------------------------ *)
(* 2. Regularity                                                                              *)
(* ------------------------------------------------------------------------------------------ *)

Lemma Forall2_map_iota (X Y : Type) (R : X -> Y -> Prop) (f : nat -> X) (g : nat -> Y) k : forall s s',
  (forall x, (x < k)%nat -> R (f (s + x)%nat) (g (s' + x)%nat)) ->
  Forall2 R (map f (iota s k)) (map g (iota s' k)).
Proof.
  induction k as [|k IH]; intros s s' H; cbn [iota map]; constructor.
  - specialize (H 0%nat). rewrite !Nat.add_0_r in H. apply H. lia.
  - apply IH. intros x Hx. specialize (H (S x)). rewrite !Nat.add_succ_r in H. apply H. lia.
Qed.

Lemma signing_of_block_diag2 m1 n1 A SA m2 n2 B SB :
  signing_of A SA -> signing_of B SB ->
  signing_of (block_diag2 m1 n1 A m2 n2 B) (block_diag2 m1 n1 SA m2 n2 SB).
Proof.
  intros HA HB. unfold signing_of, block_diag2, mk_mat.
  apply Forall2_map_iota. intros i _. apply Forall2_map_iota. intros j _. cbn [Nat.add].
  destruct (Nat.ltb i m1), (Nat.ltb j n1); try apply sign_entry_00; apply signing_of_get; assumption.
Qed.

Lemma signing_of_slice D S m n M s t : wf_mat m n M = true -> signing_of D S ->
  (forall i j, (i < m)%nat -> (j < n)%nat -> get M i j = get D (s + i) (t + j)) ->
  signing_of M (submat S (iota s m) (iota t n)).
Proof.
  intros W HS E. rewrite <- (mk_mat_get m n M W). unfold signing_of, mk_mat, submat.
  apply Forall2_map_iota. intros i Hi. apply Forall2_map_iota. intros j Hj. cbn [Nat.add].
  rewrite E by assumption. apply signing_of_get. exact HS.
Qed.

Lemma is_binary_submat : forall M rs cs, is_binary M = true -> is_binary (submat M rs cs) = true.
Proof.
  intros M rs cs H. unfold is_binary, mat_forall, submat.
  apply forallb_forall. intros r Hr. apply in_map_iff in Hr. destruct Hr as [i [<- _]].
  apply forallb_forall. intros x Hx. apply in_map_iff in Hx. destruct Hx as [j [<- _]].
  apply is_binary_entry_iff. apply get_binary. exact H.
Qed.

Lemma is_binary_block_diag2 m1 n1 A m2 n2 B : is_binary A = true -> is_binary B = true ->
  is_binary (block_diag2 m1 n1 A m2 n2 B) = true.
Proof.
  intros HA HB. apply is_binary_mk_mat. intros i j.
  destruct (Nat.ltb i m1), (Nat.ltb j n1); auto using get_binary.
Qed.

Lemma tu_bf_slice m n S s k t l : (s + k <= m)%nat -> (t + l <= n)%nat ->
  tu_bf m n S = true -> tu_bf k l (submat S (iota s k) (iota t l)) = true.
Proof.
  intros Hk Hl H.
  pose proof (@TuClosure.tu_bf_submat m n S (iota s k) (iota t l)
                (all_lt_iota m s k Hk) (all_lt_iota n t l Hl) H) as T.
  rewrite !length_iota in T. exact T.
Qed.

Theorem regular_bf_onesum : forall m1 n1 A m2 n2 B, wf_mat m1 n1 A = true -> wf_mat m2 n2 B = true ->
  regular_bf (m1 + m2) (n1 + n2) (block_diag2 m1 n1 A m2 n2 B) = regular_bf m1 n1 A && regular_bf m2 n2 B.
Proof.
  intros m1 n1 A m2 n2 B WA WB. apply bool_and_iff.
  rewrite (regular_bf_spec _ _ _ (MatProofs.wf_block_diag2 m1 n1 A m2 n2 B)).
  rewrite (regular_bf_spec _ _ _ WA), (regular_bf_spec _ _ _ WB). split.
  - intros [Hb [S [HS TS]]]. split; split.
    + rewrite <- (slice_A m1 n1 A m2 n2 B WA). apply is_binary_submat. exact Hb.
    + exists (submat S (iota 0 m1) (iota 0 n1)). split.
      * apply (signing_of_slice (block_diag2 m1 n1 A m2 n2 B)); auto.
        intros i j Hi Hj. cbn [Nat.add]. symmetry. apply MatProofs.get_block_diag2_A; assumption.
      * apply (tu_bf_slice (m1 + m2) (n1 + n2)); auto; lia.
    + rewrite <- (block_diag2_slice_B m1 n1 A m2 n2 B WB). apply is_binary_submat. exact Hb.
    + exists (submat S (iota m1 m2) (iota n1 n2)). split.
      * apply (signing_of_slice (block_diag2 m1 n1 A m2 n2 B)); auto.
        intros i j Hi Hj. symmetry. apply MatProofs.get_block_diag2_B'; assumption.
      * apply (tu_bf_slice (m1 + m2) (n1 + n2)); auto; lia.
  - intros [[HbA [SA [HSA TA]]] [HbB [SB [HSB TB]]]]. split.
    + apply is_binary_block_diag2; assumption.
    + exists (block_diag2 m1 n1 SA m2 n2 SB). split.
      * apply signing_of_block_diag2; assumption.
      * rewrite tu_bf_onesum_gen, TA, TB. reflexivity.
Qed.

(* ------------------------------------------------------------------------------------------ *)
(* 3. Series-parallel matrices                                                                *)
(* ------------------------------------------------------------------------------------------ *)

(* masks of the 1-sum are concatenations of a mask of A and a mask of B *)
Lemma live_app_l la ra i : (i < length la)%nat -> live (la ++ ra) i = live la i.
Proof. intros H. unfold live. apply app_nth1. exact H. Qed.

Lemma live_app_r la ra i : live (la ++ ra) (length la + i) = live ra i.
Proof. unfold live. apply app_nth2_plus. Qed.

Lemma live_app_inv la ra x : live (la ++ ra) x = true ->
  ((x < length la)%nat /\ live la x = true) \/ (exists y, x = (length la + y)%nat /\ live ra y = true).
Proof.
  intros H. destruct (Nat.lt_ge_cases x (length la)) as [L|L].
  - left. split; [exact L|]. rewrite live_app_l in H; assumption.
  - right. exists (x - length la)%nat. split; [lia|].
    replace x with (length la + (x - length la))%nat in H by lia. rewrite live_app_r in H. exact H.
Qed.

Lemma live_app_dead da ra x : (forall i, live da i = false) -> live (da ++ ra) x = true ->
  exists y, x = (length da + y)%nat /\ live ra y = true.
Proof.
  intros Hd H. destruct (live_app_inv _ _ _ H) as [[_ L]|E]; [|exact E].
  rewrite Hd in L. discriminate.
Qed.

Lemma kill_app_l la ra : forall i, (i < length la)%nat -> kill (la ++ ra) i = kill la i ++ ra.
Proof.
  induction la as [|b la IH]; intros i Hi; cbn [length] in Hi; [lia|].
  destruct i as [|i]; cbn [app kill]; [reflexivity|]. rewrite IH by lia. reflexivity.
Qed.

Lemma kill_app_r la ra i : kill (la ++ ra) (length la + i) = la ++ kill ra i.
Proof. induction la as [|b la IH]; cbn [app length Nat.add kill]; [reflexivity|]. now rewrite IH. Qed.

Lemma all_true_shift k : forall s s', map (fun _ : nat => true) (iota s k) = map (fun _ : nat => true) (iota s' k).
Proof. induction k as [|k IH]; intros s s'; cbn [iota map]; [reflexivity|]. f_equal. apply IH. Qed.

Lemma all_true_app a b : all_true (a + b) = all_true a ++ all_true b.
Proof. unfold all_true. rewrite iota_app, map_app. f_equal. apply all_true_shift. Qed.

Lemma length_all_true k : length (all_true k) = k.
Proof. unfold all_true. now rewrite map_length, length_iota. Qed.

(* a reducible line of the left block stays reducible when lines that vanish on it are appended *)
Lemma line_red_lift_l t (f g : nat -> nat -> Z) la lb ra rb a :
  (forall i j, live la i = true -> live lb j = true -> g i j = f i j) ->
  (forall i j, live la i = true -> (length lb <= j)%nat -> live (lb ++ rb) j = true -> g i j = 0) ->
  live la a = true -> line_red t f la lb a = true -> line_red t g (la ++ ra) (lb ++ rb) a = true.
Proof.
  intros Hfg H0 La R. apply line_red_iff in R. apply line_red_iff.
  assert (In_l : forall b, live (lb ++ rb) b = true -> g a b <> 0 -> live lb b = true).
  { intros b Lb Nb. destruct (live_app_inv _ _ _ Lb) as [[_ L]|[y [-> _]]]; [exact L|].
    exfalso. apply Nb. apply H0; auto. lia. }
  destruct R as [U | (a' & s & La' & Na' & Ss & C)].
  - left. intros b1 b2 L1 L2 N1 N2.
    pose proof (In_l b1 L1 N1) as L1'. pose proof (In_l b2 L2 N2) as L2'.
    apply U; auto.
    + rewrite <- Hfg; auto.
    + rewrite <- Hfg; auto.
  - right. exists a', s. split.
    { rewrite live_app_l; [exact La' | apply live_lt; exact La']. }
    split; [exact Na'|]. split; [exact Ss|].
    intros b Lb. destruct (live_app_inv _ _ _ Lb) as [[_ L]|[y [E _]]].
    + rewrite !Hfg by auto. apply C. exact L.
    + rewrite !H0 by (auto; lia). ring.
Qed.

(* a reducible line of the right block stays reducible when dead lines are prepended *)
Lemma line_red_lift_r t (f g : nat -> nat -> Z) da db ra rb a :
  (forall i, live da i = false) -> (forall j, live db j = false) ->
  (forall i j, live ra i = true -> live rb j = true -> g (length da + i)%nat (length db + j)%nat = f i j) ->
  live ra a = true -> line_red t f ra rb a = true ->
  line_red t g (da ++ ra) (db ++ rb) (length da + a) = true.
Proof.
  intros Da Db Hfg La R. apply line_red_iff in R. apply line_red_iff.
  destruct R as [U | (a' & s & La' & Na' & Ss & C)].
  - left. intros b1 b2 L1 L2 N1 N2.
    destruct (live_app_dead _ _ _ Db L1) as [y1 [-> Y1]].
    destruct (live_app_dead _ _ _ Db L2) as [y2 [-> Y2]].
    rewrite Hfg in N1, N2 by auto. f_equal. apply U; auto.
  - right. exists (length da + a')%nat, s. split; [rewrite live_app_r; exact La'|].
    split; [lia|]. split; [exact Ss|].
    intros b Lb. destruct (live_app_dead _ _ _ Db Lb) as [y [-> Y]].
    rewrite !Hfg by auto. apply C. exact Y.
Qed.

Section SPOneSum.
Variables (t : bool) (m1 n1 : nat) (A : mat) (m2 n2 : nat) (B : mat).
Let D := block_diag2 m1 n1 A m2 n2 B.

Lemma dead_app_empty da db ra rb : (forall i, live da i = false) -> (forall j, live db j = false) ->
  is_empty ra rb = true -> is_empty (da ++ ra) (db ++ rb) = true.
Proof.
  intros Da Db E. apply is_empty_iff in E. destruct E as [E1 E2]. apply is_empty_iff.
  split; intros x.
  - destruct (live (da ++ ra) x) eqn:L; [|reflexivity].
    destruct (live_app_dead _ _ _ Da L) as [y [_ Y]]. rewrite E1 in Y. discriminate.
  - destruct (live (db ++ rb) x) eqn:L; [|reflexivity].
    destruct (live_app_dead _ _ _ Db L) as [y [_ Y]]. rewrite E2 in Y. discriminate.
Qed.

(* second phase: the A part is gone, reduce the B part *)
Lemma SP_phase2 : forall s, SPred t B s ->
  forall da db, length (fst s) = m2 -> length (snd s) = n2 -> length da = m1 -> length db = n1 ->
    (forall i, live da i = false) -> (forall j, live db j = false) ->
    SPred t D (da ++ fst s, db ++ snd s).
Proof.
  induction 1 as [lr lc Hemp | s s' Hstep Hsp IH]; intros da db L1 L2 La Lb Da Db; cbn [fst snd] in *.
  - apply SP_done. apply dead_app_empty; assumption.
  - destruct Hstep as [lr lc r Lr Rr | lr lc c Lc Rc]; cbn [fst snd] in *.
    + assert (St : sp_step t D (da ++ lr, db ++ lc) (kill (da ++ lr) (length da + r), db ++ lc)).
      { apply step_row; [rewrite live_app_r; exact Lr|].
        rewrite row_reducible_line_red in *.
        apply (line_red_lift_r t (get B) (get D)); auto.
        intros i j Li Lj. rewrite La, Lb. apply MatProofs.get_block_diag2_B'.
        - rewrite <- L1. apply live_lt; exact Li.
        - rewrite <- L2. apply live_lt; exact Lj. }
      rewrite kill_app_r in St. eapply SP_step; [exact St|].
      apply (IH da db); auto. rewrite length_kill. exact L1.
    + assert (St : sp_step t D (da ++ lr, db ++ lc) (da ++ lr, kill (db ++ lc) (length db + c))).
      { apply step_col; [rewrite live_app_r; exact Lc|].
        rewrite col_reducible_line_red in *.
        apply (line_red_lift_r t (fun c r => get B r c) (fun c r => get D r c)); auto.
        intros j i Lj Li. rewrite La, Lb. apply MatProofs.get_block_diag2_B'.
        - rewrite <- L1. apply live_lt; exact Li.
        - rewrite <- L2. apply live_lt; exact Lj. }
      rewrite kill_app_r in St. eapply SP_step; [exact St|].
      apply (IH da db); auto. rewrite length_kill. exact L2.
Qed.

(* first phase: reduce the A part, the lines of B are carried along *)
Lemma SP_phase1 : forall s, SPred t A s ->
  forall ra rb, length (fst s) = m1 -> length (snd s) = n1 -> length ra = m2 -> length rb = n2 ->
    (forall da db, length da = m1 -> length db = n1 ->
                   (forall i, live da i = false) -> (forall j, live db j = false) ->
                   SPred t D (da ++ ra, db ++ rb)) ->
    SPred t D (fst s ++ ra, snd s ++ rb).
Proof.
  induction 1 as [lr lc Hemp | s s' Hstep Hsp IH]; intros ra rb L1 L2 La Lb K; cbn [fst snd] in *.
  - apply is_empty_iff in Hemp. destruct Hemp as [E1 E2]. apply K; assumption.
  - destruct Hstep as [lr lc r Lr Rr | lr lc c Lc Rc]; cbn [fst snd] in *.
    + assert (St : sp_step t D (lr ++ ra, lc ++ rb) (kill (lr ++ ra) r, lc ++ rb)).
      { apply step_row; [rewrite live_app_l; [exact Lr | apply live_lt; exact Lr]|].
        rewrite row_reducible_line_red in *.
        apply (line_red_lift_l t (get A) (get D)); auto.
        - intros i j Li Lj. apply MatProofs.get_block_diag2_A.
          + rewrite <- L1. apply live_lt; exact Li.
          + rewrite <- L2. apply live_lt; exact Lj.
        - intros i j Li Hj Lj. apply live_lt in Li. apply live_lt in Lj.
          rewrite app_length in Lj. apply MatProofs.get_block_diag2_topright; lia. }
      rewrite kill_app_l in St by (apply live_lt; exact Lr). eapply SP_step; [exact St|].
      apply (IH ra rb); auto. rewrite length_kill. exact L1.
    + assert (St : sp_step t D (lr ++ ra, lc ++ rb) (lr ++ ra, kill (lc ++ rb) c)).
      { apply step_col; [rewrite live_app_l; [exact Lc | apply live_lt; exact Lc]|].
        rewrite col_reducible_line_red in *.
        apply (line_red_lift_l t (fun c r => get A r c) (fun c r => get D r c)); auto.
        - intros j i Lj Li. apply MatProofs.get_block_diag2_A.
          + rewrite <- L1. apply live_lt; exact Li.
          + rewrite <- L2. apply live_lt; exact Lj.
        - intros j i Lj Hi Li. apply live_lt in Li. apply live_lt in Lj.
          rewrite app_length in Li. apply MatProofs.get_block_diag2_bottomleft; lia. }
      rewrite kill_app_l in St by (apply live_lt; exact Lc). eapply SP_step; [exact St|].
      apply (IH ra rb); auto. rewrite length_kill. exact L2.
Qed.

Theorem SP_onesum :
  SPred t A (all_true m1, all_true n1) -> SPred t B (all_true m2, all_true n2) ->
  SPred t D (all_true (m1 + m2), all_true (n1 + n2)).
Proof.
  intros HA HB. rewrite !all_true_app.
  apply (SP_phase1 (all_true m1, all_true n1) HA); cbn [fst snd]; auto using length_all_true.
  intros da db La Lb Da Db.
  apply (SP_phase2 (all_true m2, all_true n2) HB); cbn [fst snd]; auto using length_all_true.
Qed.

End SPOneSum.

Lemma sp_greedy_slice t m n M s k u l : (s + k <= m)%nat -> (u + l <= n)%nat ->
  sp_greedy t m n M = true -> sp_greedy t k l (submat M (iota s k) (iota u l)) = true.
Proof.
  intros Hk Hl H.
  pose proof (RelProofs.sp_greedy_submat t m n M (iota s k) (iota u l)
                (si_iota k s) (all_lt_iota m s k Hk) (si_iota l u) (all_lt_iota n u l Hl) H) as T.
  rewrite !length_iota in T. exact T.
Qed.

Theorem sp_greedy_onesum : forall t m1 n1 A m2 n2 B, wf_mat m1 n1 A = true -> wf_mat m2 n2 B = true ->
  sp_greedy t (m1 + m2) (n1 + n2) (block_diag2 m1 n1 A m2 n2 B) = sp_greedy t m1 n1 A && sp_greedy t m2 n2 B.
Proof.
  intros t m1 n1 A m2 n2 B WA WB. apply bool_and_iff. split.
  - intros H. split.
    + rewrite <- (slice_A m1 n1 A m2 n2 B WA) at 1.
      apply (sp_greedy_slice t (m1 + m2) (n1 + n2)); auto; lia.
    + rewrite <- (block_diag2_slice_B m1 n1 A m2 n2 B WB) at 1.
      apply (sp_greedy_slice t (m1 + m2) (n1 + n2)); auto; lia.
  - intros [HA HB]. apply sp_greedy_correct. apply SP_onesum; apply sp_greedy_correct; assumption.
Qed.

(* ------------------------------------------------------------------------------------------ *)
(* 4. Balanced matrices                                                                       *)
(* ------------------------------------------------------------------------------------------ *)

Fixpoint sumn (l : list nat) : nat := match l with [] => 0%nat | x :: r => (x + sumn r)%nat end.

Lemma count_nz_indicator (X : Type) (h : X -> Z) l :
  count_nz (map h l) = sumn (map (fun x => if h x =? 0 then 0%nat else 1%nat) l).
Proof.
  induction l as [|a l IH]; [reflexivity|]. cbn [map sumn]. rewrite count_nz_cons, IH.
  destruct (h a =? 0); reflexivity.
Qed.

Lemma sumn_add (X : Type) (g1 g2 : X -> nat) l :
  sumn (map (fun x => (g1 x + g2 x)%nat) l) = (sumn (map g1 l) + sumn (map g2 l))%nat.
Proof. induction l as [|a l IH]; cbn [map sumn]; [reflexivity|]. rewrite IH. lia. Qed.

Lemma sumn_const (X : Type) (g : X -> nat) k l :
  (forall x, In x l -> g x = k) -> sumn (map g l) = (k * length l)%nat.
Proof.
  induction l as [|a l IH]; cbn [map sumn length]; intros H; [lia|].
  rewrite (H a) by (left; reflexivity). rewrite IH by (intros x Hx; apply H; right; exact Hx). lia.
Qed.

(* counting the nonzeros of a submatrix by rows and by columns *)
Lemma double_count (f : nat -> nat -> Z) rs cs :
  sumn (map (fun a => count_nz (map (fun c => f a c) cs)) rs) =
  sumn (map (fun c => count_nz (map (fun a => f a c) rs)) cs).
Proof.
  induction rs as [|a rs IH].
  - cbn [map sumn]. induction cs as [|c cs IHc]; cbn [map sumn]; [reflexivity|]. rewrite <- IHc. reflexivity.
  - cbn [map sumn]. rewrite IH, count_nz_indicator, <- sumn_add. f_equal. apply map_ext. intros c.
    rewrite count_nz_cons. destruct (f a c =? 0); reflexivity.
Qed.

Definition line2f (f : nat -> nat -> Z) (rs cs : list nat) : bool :=
  forallb (fun a => Nat.eqb (count_nz (map (fun c => f a c) cs)) 2) rs &&
  forallb (fun c => Nat.eqb (count_nz (map (fun a => f a c) rs)) 2) cs.

Definition sum2f (f : nat -> nat -> Z) (rs cs : list nat) : Z :=
  sumZ (map (fun a => sumZ (map (fun c => f a c) cs)) rs).

Lemma line2_line2f M rs cs : line2 M rs cs = line2f (get M) rs cs.
Proof. reflexivity. Qed.

Lemma entry_sum_sum2f M rs cs : entry_sum (submat M rs cs) = sum2f (get M) rs cs.
Proof. apply entry_sum_submat. Qed.

Lemma line2f_spec f rs cs : line2f f rs cs = true <->
  (forall a, In a rs -> count_nz (map (fun c => f a c) cs) = 2%nat) /\
  (forall c, In c cs -> count_nz (map (fun a => f a c) rs) = 2%nat).
Proof.
  unfold line2f. rewrite andb_true_iff, !forallb_forall.
  split; intros [H1 H2]; split; intros x Hx; first [apply Nat.eqb_eq; auto | apply Nat.eqb_eq; auto].
Qed.

Lemma line2f_square f rs cs : line2f f rs cs = true -> length rs = length cs.
Proof.
  intros H. apply line2f_spec in H. destruct H as [H1 H2].
  pose proof (double_count f rs cs) as E.
  rewrite (sumn_const _ _ 2%nat rs H1), (sumn_const _ _ 2%nat cs H2) in E. lia.
Qed.

Lemma line2f_ext f g rs cs : (forall a c, In a rs -> In c cs -> f a c = g a c) ->
  line2f f rs cs = line2f g rs cs.
Proof.
  intros H. unfold line2f. f_equal; apply forallb_ext_in; intros x Hx; f_equal; f_equal;
    apply map_ext_in; intros y Hy; apply H; assumption.
Qed.

Lemma sum2f_ext f g rs cs : (forall a c, In a rs -> In c cs -> f a c = g a c) ->
  sum2f f rs cs = sum2f g rs cs.
Proof.
  intros H. unfold sum2f. f_equal. apply map_ext_in. intros a Ha. f_equal.
  apply map_ext_in. intros c Hc. apply H; assumption.
Qed.

Lemma line2f_map f (u v : nat -> nat) rs cs :
  line2f f (map u rs) (map v cs) = line2f (fun a c => f (u a) (v c)) rs cs.
Proof.
  unfold line2f. rewrite !forallb_map'. f_equal; apply forallb_ext_in; intros x _; now rewrite map_map.
Qed.

Lemma sum2f_map f (u v : nat -> nat) rs cs :
  sum2f f (map u rs) (map v cs) = sum2f (fun a c => f (u a) (v c)) rs cs.
Proof. unfold sum2f. rewrite map_map. f_equal. apply map_ext. intros a. now rewrite map_map. Qed.

Lemma count_nz_split (X : Type) (h : X -> Z) (p : X -> bool) l :
  count_nz (map h l) =
  (count_nz (map h (filter p l)) + count_nz (map h (filter (fun x => negb (p x)) l)))%nat.
Proof.
  induction l as [|a l IH]; [reflexivity|]. cbn [filter map].
  destruct (p a); cbn [negb map]; rewrite !count_nz_cons, IH; destruct (h a =? 0); lia.
Qed.

Lemma sumZ_cons x l : sumZ (x :: l) = x + sumZ l.
Proof. reflexivity. Qed.

Lemma sumZ_split (X : Type) (h : X -> Z) (p : X -> bool) l :
  sumZ (map h l) = sumZ (map h (filter p l)) + sumZ (map h (filter (fun x => negb (p x)) l)).
Proof.
  induction l as [|a l IH]; [reflexivity|]. cbn [filter map].
  destruct (p a); cbn [negb map]; rewrite !sumZ_cons, IH; lia.
Qed.

Lemma sumZ_zero (X : Type) (h : X -> Z) l : (forall x, In x l -> h x = 0) -> sumZ (map h l) = 0.
Proof.
  induction l as [|a l IH]; intros H; [reflexivity|]. cbn [map]. rewrite sumZ_cons.
  rewrite (H a) by (left; reflexivity). rewrite IH by (intros x Hx; apply H; right; exact Hx). reflexivity.
Qed.

(* a "block" structure: entries vanish whenever the row class and the column class differ *)
Section Split.
Variables (f : nat -> nat -> Z) (P Q : nat -> bool) (rs cs : list nat).
Hypothesis H0 : forall a c, In a rs -> In c cs -> P a <> Q c -> f a c = 0.

Lemma line2f_split : line2f f rs cs = true -> line2f f (filter P rs) (filter Q cs) = true.
Proof.
  rewrite !line2f_spec. intros [H1 H2]. split.
  - intros a Ha. apply filter_In in Ha. destruct Ha as [Ha Pa].
    specialize (H1 a Ha). rewrite (count_nz_split _ _ Q cs) in H1.
    assert (Z : count_nz (map (fun c => f a c) (filter (fun c => negb (Q c)) cs)) = 0%nat).
    { apply count_nz_zero. intros c Hc. apply filter_In in Hc. destruct Hc as [Hc Qc].
      apply H0; auto. apply negb_true_iff in Qc. rewrite Pa, Qc. discriminate. }
    lia.
  - intros c Hc. apply filter_In in Hc. destruct Hc as [Hc Qc].
    specialize (H2 c Hc). rewrite (count_nz_split _ _ P rs) in H2.
    assert (Z : count_nz (map (fun a => f a c) (filter (fun a => negb (P a)) rs)) = 0%nat).
    { apply count_nz_zero. intros a Ha. apply filter_In in Ha. destruct Ha as [Ha Pa].
      apply H0; auto. apply negb_true_iff in Pa. rewrite Pa, Qc. discriminate. }
    lia.
Qed.

Lemma sum2f_split :
  sum2f f rs cs = sum2f f (filter P rs) (filter Q cs) +
                  sum2f f (filter (fun a => negb (P a)) rs) (filter (fun c => negb (Q c)) cs).
Proof.
  unfold sum2f. rewrite (sumZ_split _ _ P rs). f_equal; f_equal; apply map_ext_in; intros a Ha;
    apply filter_In in Ha; destruct Ha as [Ha Pa]; rewrite (sumZ_split _ _ Q cs).
  - rewrite (sumZ_zero _ _ (filter (fun c => negb (Q c)) cs)); [lia|].
    intros c Hc. apply filter_In in Hc. destruct Hc as [Hc Qc].
    apply H0; auto. apply negb_true_iff in Qc. rewrite Pa, Qc. discriminate.
  - rewrite (sumZ_zero _ _ (filter Q cs)); [lia|].
    intros c Hc. apply filter_In in Hc. destruct Hc as [Hc Qc].
    apply H0; auto. apply negb_true_iff in Pa. rewrite Pa, Qc. discriminate.
Qed.

End Split.

(* parity: a ternary vector with two nonzeros has an even sum *)
Lemma is_ternary_entry_cases x : is_ternary_entry x = true -> x = 0 \/ x = 1 \/ x = -1.
Proof.
  unfold is_ternary_entry. intros H. apply orb_true_iff in H. destruct H as [H|H].
  - apply orb_true_iff in H. destruct H as [H|H]; apply Z.eqb_eq in H; auto.
  - apply Z.eqb_eq in H; auto.
Qed.

Lemma get_ternary_entry M i j : is_ternary M = true -> is_ternary_entry (get M i j) = true.
Proof.
  intros H. unfold get. apply nthZ_forallb; [reflexivity|].
  apply (nthR_forallb (forallb is_ternary_entry)); [reflexivity | exact H].
Qed.

Lemma sum_count_parity (X : Type) (h : X -> Z) l :
  (forall x, In x l -> is_ternary_entry (h x) = true) ->
  exists k, sumZ (map h l) + Z.of_nat (count_nz (map h l)) = 2 * k.
Proof.
  induction l as [|a l IH]; intros H.
  - exists 0. reflexivity.
  - destruct IH as [k E]; [intros x Hx; apply H; right; exact Hx|].
    cbn [map]. rewrite sumZ_cons, count_nz_cons.
    destruct (is_ternary_entry_cases _ (H a (or_introl eq_refl))) as [V|[V|V]]; rewrite V; cbn [Z.eqb].
    + exists k. lia.
    + exists (k + 1). lia.
    + exists k. lia.
Qed.

Lemma sum2f_even f rs cs :
  (forall a c, In a rs -> In c cs -> is_ternary_entry (f a c) = true) ->
  (forall a, In a rs -> count_nz (map (fun c => f a c) cs) = 2%nat) ->
  exists k, sum2f f rs cs = 2 * k.
Proof.
  unfold sum2f. induction rs as [|a rs IH]; intros T C.
  - exists 0. reflexivity.
  - destruct IH as [k E].
    { intros x c Hx Hc. apply T; [right; exact Hx | exact Hc]. }
    { intros x Hx. apply C. right. exact Hx. }
    destruct (sum_count_parity _ (fun c => f a c) cs) as [k' E'].
    { intros c Hc. apply T; [left; reflexivity | exact Hc]. }
    rewrite (C a (or_introl eq_refl)) in E'.
    cbn [map]. rewrite sumZ_cons, E. exists (k' - 1 + k). lia.
Qed.

Lemma NoDup_map_on (X Y : Type) (u : X -> Y) l :
  (forall x y, In x l -> In y l -> u x = u y -> x = y) -> NoDup l -> NoDup (map u l).
Proof.
  intros Hu H. induction H as [|x l Hx Hl IH]; cbn [map]; constructor.
  - intros Hin. apply in_map_iff in Hin. destruct Hin as [y [E Hy]].
    assert (y = x) by (apply Hu; [right; exact Hy | left; reflexivity | exact E]). subst y. contradiction.
  - apply IH. intros a b Ha Hb. apply Hu; right; assumption.
Qed.

Lemma mod4_arith x y k l : x = 2 * k -> y = 2 * l -> (x + y) mod 4 = 2 -> x mod 4 <> 2 -> y mod 4 <> 2 -> False.
Proof. intros -> -> H Hx Hy. Z.div_mod_to_equations. lia. Qed.

Section BalOneSum.
Variables (m1 n1 : nat) (A : mat) (m2 n2 : nat) (B : mat).
Let D := block_diag2 m1 n1 A m2 n2 B.

Theorem Balanced_onesum : is_ternary A = true -> is_ternary B = true ->
  Balanced m1 n1 A -> Balanced m2 n2 B -> Balanced (m1 + m2) (n1 + n2) D.
Proof.
  intros TA TB HA HB rs cs HL Hrm Hcn Nr Nc.
  destruct (bad_cycle (length rs) (submat D rs cs)) eqn:E; [exfalso | reflexivity].
  unfold bad_cycle in E. rewrite (two_per_line_submat D rs cs HL), entry_sum_sum2f, line2_line2f in E.
  apply andb_true_iff in E. destruct E as [E1 E2]. apply Z.eqb_eq in E2.
  rewrite all_lt_spec in Hrm, Hcn. apply nodupn_NoDup in Nr. apply nodupn_NoDup in Nc.
  set (P := fun a => Nat.ltb a m1). set (Q := fun c => Nat.ltb c n1).
  set (P' := fun a => negb (P a)). set (Q' := fun c => negb (Q c)).
  assert (H0 : forall a c, In a rs -> In c cs -> P a <> Q c -> get D a c = 0).
  { intros a c Ha Hc. specialize (Hrm a Ha). specialize (Hcn c Hc). unfold P, Q.
    destruct (Nat.ltb_spec a m1), (Nat.ltb_spec c n1); intros N; try congruence.
    - apply MatProofs.get_block_diag2_topright; lia.
    - apply MatProofs.get_block_diag2_bottomleft; lia. }
  assert (H0' : forall a c, In a rs -> In c cs -> P' a <> Q' c -> get D a c = 0).
  { intros a c Ha Hc N. apply H0; auto. unfold P', Q' in N. intros X. apply N. now rewrite X. }
  pose proof (line2f_split (get D) P Q rs cs H0 E1) as LA.
  pose proof (line2f_split (get D) P' Q' rs cs H0' E1) as LB.
  pose proof (sum2f_split (get D) P Q rs cs H0) as ES. fold P' Q' in ES.
  set (rsA := filter P rs) in *. set (csA := filter Q cs) in *.
  set (rsB := filter P' rs) in *. set (csB := filter Q' cs) in *.
  assert (IA : forall a, In a rsA -> In a rs /\ (a < m1)%nat).
  { intros a Ha. apply filter_In in Ha. destruct Ha as [Ha Pa]. split; [exact Ha|]. now apply Nat.ltb_lt. }
  assert (JA : forall c, In c csA -> In c cs /\ (c < n1)%nat).
  { intros c Hc. apply filter_In in Hc. destruct Hc as [Hc Qc]. split; [exact Hc|]. now apply Nat.ltb_lt. }
  assert (IB : forall a, In a rsB -> In a rs /\ (m1 <= a < m1 + m2)%nat).
  { intros a Ha. apply filter_In in Ha. destruct Ha as [Ha Pa]. split; [exact Ha|].
    apply negb_true_iff, Nat.ltb_ge in Pa. specialize (Hrm a Ha). lia. }
  assert (JB : forall c, In c csB -> In c cs /\ (n1 <= c < n1 + n2)%nat).
  { intros c Hc. apply filter_In in Hc. destruct Hc as [Hc Qc]. split; [exact Hc|].
    apply negb_true_iff, Nat.ltb_ge in Qc. specialize (Hcn c Hc). lia. }
  (* the A part *)
  assert (EA : forall a c, In a rsA -> In c csA -> get A a c = get D a c).
  { intros a c Ha Hc. symmetry. apply MatProofs.get_block_diag2_A; [apply IA, Ha | apply JA, Hc]. }
  assert (XA : sum2f (get D) rsA csA mod 4 <> 2 /\ exists k, sum2f (get D) rsA csA = 2 * k).
  { rewrite <- (sum2f_ext (get A) (get D) rsA csA EA).
    rewrite <- (line2f_ext (get A) (get D) rsA csA EA) in LA. split.
    - pose proof (line2f_square _ _ _ LA) as SQ.
      assert (HA' : bad_cycle (length rsA) (submat A rsA csA) = false).
      { apply HA; auto.
        - apply all_lt_spec. intros a Ha. apply IA, Ha.
        - apply all_lt_spec. intros c Hc. apply JA, Hc.
        - apply nodupn_NoDup. apply NoDup_filter. exact Nr.
        - apply nodupn_NoDup. apply NoDup_filter. exact Nc. }
      unfold bad_cycle in HA'.
      rewrite (two_per_line_submat A rsA csA SQ), entry_sum_sum2f, line2_line2f, LA in HA'.
      cbn [andb] in HA'. apply Z.eqb_neq. exact HA'.
    - apply sum2f_even.
      + intros a c _ _. apply get_ternary_entry. exact TA.
      + exact (proj1 (proj1 (line2f_spec _ _ _) LA)). }
  (* the B part *)
  set (u := fun a => (a - m1)%nat). set (v := fun c => (c - n1)%nat).
  assert (EB : forall a c, In a rsB -> In c csB -> get B (u a) (v c) = get D a c).
  { intros a c Ha Hc. symmetry. apply MatProofs.get_block_diag2_B; [apply IB, Ha | apply JB, Hc]. }
  assert (XB : sum2f (get D) rsB csB mod 4 <> 2 /\ exists k, sum2f (get D) rsB csB = 2 * k).
  { rewrite <- (sum2f_ext (fun a c => get B (u a) (v c)) (get D) rsB csB EB).
    rewrite <- (line2f_ext (fun a c => get B (u a) (v c)) (get D) rsB csB EB) in LB. split.
    - pose proof (line2f_square _ _ _ LB) as SQ.
      assert (SQ' : length (map u rsB) = length (map v csB)) by (rewrite !map_length; exact SQ).
      assert (HB' : bad_cycle (length (map u rsB)) (submat B (map u rsB) (map v csB)) = false).
      { apply HB; auto.
        - apply all_lt_spec. intros a Ha. apply in_map_iff in Ha. destruct Ha as [a0 [<- Ha0]].
          apply IB in Ha0. unfold u. lia.
        - apply all_lt_spec. intros c Hc. apply in_map_iff in Hc. destruct Hc as [c0 [<- Hc0]].
          apply JB in Hc0. unfold v. lia.
        - apply nodupn_NoDup. apply NoDup_map_on; [|apply NoDup_filter; exact Nr].
          intros x y Hx Hy. apply IB in Hx. apply IB in Hy. unfold u. lia.
        - apply nodupn_NoDup. apply NoDup_map_on; [|apply NoDup_filter; exact Nc].
          intros x y Hx Hy. apply JB in Hx. apply JB in Hy. unfold v. lia. }
      unfold bad_cycle in HB'.
      rewrite (two_per_line_submat B _ _ SQ'), entry_sum_sum2f, line2_line2f in HB'.
      rewrite line2f_map, sum2f_map, LB in HB'.
      cbn [andb] in HB'. apply Z.eqb_neq. exact HB'.
    - apply sum2f_even.
      + intros a c _ _. apply get_ternary_entry. exact TB.
      + exact (proj1 (proj1 (line2f_spec _ _ _) LB)). }
  destruct XA as [NA [ka KA]]. destruct XB as [NB [kb KB]].
  rewrite ES in E2. exact (mod4_arith _ _ _ _ KA KB E2 NA NB).
Qed.

End BalOneSum.

Lemma balanced_bf_slice m n M s k u l : (s + k <= m)%nat -> (u + l <= n)%nat ->
  balanced_bf m n M = true -> balanced_bf k l (submat M (iota s k) (iota u l)) = true.
Proof.
  intros Hk Hl H.
  pose proof (RelProofs.balanced_bf_submat m n M (iota s k) (iota u l)
                (si_iota k s) (all_lt_iota m s k Hk) (si_iota l u) (all_lt_iota n u l Hl) H) as T.
  rewrite !length_iota in T. exact T.
Qed.

(* the components of a balanced 1-sum are balanced (no ternarity needed) *)
Theorem balanced_bf_onesum_components : forall m1 n1 A m2 n2 B,
  wf_mat m1 n1 A = true -> wf_mat m2 n2 B = true ->
  balanced_bf (m1 + m2) (n1 + n2) (block_diag2 m1 n1 A m2 n2 B) = true ->
  balanced_bf m1 n1 A = true /\ balanced_bf m2 n2 B = true.
Proof.
  intros m1 n1 A m2 n2 B WA WB H. split.
  - rewrite <- (slice_A m1 n1 A m2 n2 B WA) at 1.
    apply (balanced_bf_slice (m1 + m2) (n1 + n2)); auto; lia.
  - rewrite <- (block_diag2_slice_B m1 n1 A m2 n2 B WB) at 1.
    apply (balanced_bf_slice (m1 + m2) (n1 + n2)); auto; lia.
Qed.

(* the 1-sum of balanced ternary matrices is balanced (no well-formedness needed) *)
Theorem balanced_bf_onesum_closed : forall m1 n1 A m2 n2 B,
  is_ternary A = true -> is_ternary B = true ->
  balanced_bf m1 n1 A = true -> balanced_bf m2 n2 B = true ->
  balanced_bf (m1 + m2) (n1 + n2) (block_diag2 m1 n1 A m2 n2 B) = true.
Proof.
  intros m1 n1 A m2 n2 B TA TB HA HB. apply balanced_bf_spec.
  apply Balanced_onesum; auto; apply balanced_bf_spec; assumption.
Qed.

Theorem balanced_bf_onesum : forall m1 n1 A m2 n2 B, wf_mat m1 n1 A = true -> wf_mat m2 n2 B = true ->
  is_ternary A = true -> is_ternary B = true ->
  balanced_bf (m1 + m2) (n1 + n2) (block_diag2 m1 n1 A m2 n2 B) = balanced_bf m1 n1 A && balanced_bf m2 n2 B.
Proof.
  intros m1 n1 A m2 n2 B WA WB TA TB. apply bool_and_iff. split.
  - apply balanced_bf_onesum_components; assumption.
  - intros [HA HB]. apply balanced_bf_onesum_closed; assumption.
Qed.

(* the ternarity hypotheses of balanced_bf_onesum cannot be dropped: [[1;1];[1;2]] has entry sum 5, two copies sum to 10 *)
Example balanced_onesum_needs_ternary :
  balanced_bf 2 2 [[1;1];[1;2]] = true /\
  balanced_bf 4 4 (block_diag2 2 2 [[1;1];[1;2]] 2 2 [[1;1];[1;2]]) = false.
Proof. split; vm_compute; reflexivity. Qed.

Print Assumptions tu_bf_onesum_gen.
Print Assumptions tu_bf_onesum.
Print Assumptions regular_bf_onesum.
Print Assumptions sp_greedy_onesum.
Print Assumptions balanced_bf_onesum_components.
Print Assumptions balanced_bf_onesum_closed.
Print Assumptions balanced_bf_onesum.
