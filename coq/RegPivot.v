(* RegPivot.v -- regularity of a 0/1 matrix (signable to a totally unimodular matrix, TuModel.regular_bf) is invariant
   under a binary (GF(2)) pivot on a 1-entry.  Uses TuPivot.tu_bf_pivot_raw (TU is closed under pivots over Z) and
   RegPivotArith.signing_of_bpivot (the pivot of a signing is a signing of the binary pivot). *)
From Coq Require Import ZArith List.
From mathcomp Require Import all_ssreflect all_fingroup all_algebra.
From mathcomp Require Import ssrZ zify.
From Cmr Require Import Base Det BaseProofs PivotModel PivotProofs TuModel RegularProofs TuProofs TuPivot RegPivotArith.
Set Implicit Arguments. Unset Strict Implicit. Unset Printing Implicit Defensive.
Import GRing.Theory.
Local Open Scope ring_scope.
Import mathcomp.ssreflect.seq.
Delimit Scope nat_scope with N.

(* stdlib-phrased: the entries of a matrix accepted by tu_bf are in {-1,0,1} *)
Lemma tu_bf_entries_std m n (M : mat) : tu_bf m n M = true ->
  forall i j, (i < m)%coq_nat -> (j < n)%coq_nat -> get M i j = -1 \/ get M i j = 0 \/ get M i j = 1.
Proof.
move=> /tu_bfP TU i j /ltP im /ltP jn.
by have := TUmx_entries TU im jn; rewrite !inE => /or3P [] /eqP ->; auto.
Qed.

(* one direction: a TU signing of M is carried to a TU signing of the binary pivot of M *)
Lemma regular_bf_bpivot_fwd m n (M : mat) r c :
  wf_mat m n M = true -> is_binary M = true -> (r < m)%N -> (c < n)%N -> get M r c = 1 ->
  regular_bf m n M = true -> regular_bf m n (reduce (Zpos (xO xH)) (pivot_raw m n M r c)) = true.
Proof.
move=> wf bin ltr ltc pv /(regular_bf_spec m n M wf) [_ [S [sg tu]]].
have he : get S r c = 1 \/ get S r c = -1.
  by case: (signing_of_get M S sg r c) => [[]|[_ //]]; rewrite pv.
have tu' := tu_bf_pivot_raw ltr ltc he tu.
apply/(regular_bf_spec m n); first by apply: reduce_wf; apply: pivot_raw_wf.
split; first exact: (bpivot_binary m n M r c).
exists (pivot_raw m n S r c); split=> //.
apply: signing_of_bpivot => //; [exact/ltP | exact/ltP | exact: tu_bf_entries_std].
Qed.

Theorem regular_bf_bpivot m n (M : mat) r c :
  wf_mat m n M = true -> is_binary M = true -> (r < m)%N -> (c < n)%N -> get M r c = 1 ->
  regular_bf m n (reduce (Zpos (xO xH)) (pivot_raw m n M r c)) = regular_bf m n M.
Proof.
move=> wf bin ltr ltc pv.
apply/idP/idP => [reg'|]; last exact: regular_bf_bpivot_fwd.
have pv' : get (bpivot m n M r c) r c = 1.
  rewrite (@binary_pivot_entries m n M r c wf bin) //; [|exact/ltP..].
  by rewrite Nat.eqb_refl.
have := regular_bf_bpivot_fwd (bpivot_wf m n M r c) (bpivot_binary m n M r c) ltr ltc pv' reg'.
rewrite -/(bpivot m n (bpivot m n M r c) r c) binary_pivot_involution //; exact/ltP.
Qed.

(* stdlib-phrased forms *)
Corollary regular_bf_bpivot_std m n (M : mat) r c :
  wf_mat m n M = true -> is_binary M = true -> Nat.ltb r m = true -> Nat.ltb c n = true -> get M r c = Zpos xH ->
  regular_bf m n (reduce (Zpos (xO xH)) (pivot_raw m n M r c)) = regular_bf m n M.
Proof. by rewrite !ltbE => wf bin ltr ltc pv; apply: regular_bf_bpivot. Qed.

Corollary regular_bf_bpivot_lt m n (M : mat) r c :
  wf_mat m n M = true -> is_binary M = true -> (r < m)%coq_nat -> (c < n)%coq_nat -> get M r c = Zpos xH ->
  regular_bf m n (bpivot m n M r c) = regular_bf m n M.
Proof. by move=> wf bin /ltP ltr /ltP ltc pv; apply: regular_bf_bpivot. Qed.

Print Assumptions tu_bf_entries_std.
Print Assumptions regular_bf_bpivot.
Print Assumptions regular_bf_bpivot_std.
Print Assumptions regular_bf_bpivot_lt.
