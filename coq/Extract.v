(* Extract.v — extraction of the executable models and judges to OCaml.
   Only ExtrOcamlBasic is used: bool, option, list, prod, unit, sumbool map to OCaml's own types;
   nat, positive and Z stay the extracted inductive types (no Extract Constant, no ExtrOcamlZInt). *)
From Cmr Require Import Base Det CtuModel PivotModel TuModel SpModel.
Require Import ExtrOcamlBasic.
Extraction Language OCaml.
Extraction "cmr_model.ml"
  Z.add Z.mul Z.opp
  judge_ctu_compl judge_ctu_test judge_pivot judge_tu judge_regular judge_sp judge_balanced.
