(* Extract.v — extraction of the executable models and judges to OCaml.
   Only ExtrOcamlBasic is used: bool, option, list, prod, unit, sumbool map to OCaml's own types;
   nat, positive and Z stay the extracted inductive types (no Extract Constant, no ExtrOcamlZInt). *)
From Cmr Require Import Base Det CtuModel PivotModel TuModel SpModel GraphModel CamionModel KsumModel TreeModel TextModel RelModel StackModel TimeoutModel EquiModel MatModel EdgeModel CliModel LeafModel RtModel TuNetModel RegCertModel EquiCertModel BalancedCertModel CamionCertModel.
Require Import ExtrOcamlBasic.
Extraction Language OCaml.
(* The only directives of our own: boolean conjunction/disjunction become OCaml's lazy operators.  For total,
   effect-free arguments (everything extracted here) the value is the same; it only avoids evaluating the
   second argument when the first decides (the judges chain cheap tests before exponential oracles). *)
Extract Inlined Constant andb => "(&&)".
Extract Inlined Constant orb => "(||)".
Extraction "cmr_model.ml"
  Z.add Z.mul Z.opp
  judge_ctu_compl judge_ctu_test judge_pivot judge_tu judge_tu_cert judge_regular judge_sp judge_balanced judge_graphic judge_network judge_repmat judge_camion judge_kcompose judge_kdecomp judge_tree judge_textread judge_textwrite judge_rel judge_stack judge_tlimit judge_hist judge_threads judge_equimod judge_matutil judge_edgelist judge_climat judge_climatd judge_cligraphout judge_clisub judge_clictu judge_cligraph judge_cliverdict judge_leaf judge_reprt judge_tu_net judge_regular_cert judge_equi_cert judge_balanced_cert judge_camion_cert.
