(* SpModel.v — series-parallel reductions (doc/series-parallel.md), certificate checker and judge
   for CMRspTest* / CMRspDecompose*; balancedness oracle and judge for CMRbalancedTest.
   No proofs here. *)
From Cmr Require Import Base Det.
Local Open Scope Z_scope.

(* A configuration: the ambient dense matrix with the sets of live rows / columns (boolean masks). *)
Definition live (mask : list bool) (i : nat) : bool := nth i mask false.
Fixpoint kill (mask : list bool) (i : nat) : list bool :=
  match mask, i with
  | [], _ => []
  | _ :: r, O => false :: r
  | b :: r, S k => b :: kill r k
  end.
Definition live_list (mask : list bool) : list nat :=
  filter (fun i => live mask i) (iota 0 (length mask)).

(* row r restricted to the live columns; column c restricted to the live rows *)
Definition row_live (M : mat) (lc : list bool) (r : nat) : list Z := map (fun c => get M r c) (live_list lc).
Definition col_live (M : mat) (lr : list bool) (c : nat) : list Z := map (fun r => get M r c) (live_list lr).

Definition all_zero (v : list Z) : bool := forallb (fun x => x =? 0) v.
Definition count_nz (v : list Z) : nat := length (filter (fun x => negb (x =? 0)) v).
Definition vec_eq_scaled (s : Z) (v w : list Z) : bool := zlist_eqb v (map (fun x => s * x) w).

(* a vector is a copy of another up to the admissible signs (ternary: +-1, binary: +1 only) *)
Definition is_copy (ternary : bool) (v w : list Z) : bool :=
  vec_eq_scaled 1 v w || (ternary && vec_eq_scaled (-1) v w).

(* CMR_ELEMENT encoding: row r is -(r+1), column c is c+1, 0 is "none" *)
Inductive elem := ERow (r : nat) | ECol (c : nat) | ENone.
Definition elem_of_Z (e : Z) : elem :=
  if e <? 0 then ERow (Z.to_nat (- e - 1)) else if e =? 0 then ENone else ECol (Z.to_nat (e - 1)).

(* is (element, mate) a genuine SP reduction of the current configuration? *)
Definition red_valid (ternary : bool) (M : mat) (lr lc : list bool) (e mate : elem) : bool :=
  match e with
  | ERow r =>
    live lr r &&
    match mate with
    | ENone => all_zero (row_live M lc r)
    | ECol c => live lc c && negb (get M r c =? 0) && Nat.eqb (count_nz (row_live M lc r)) 1
    | ERow r' => live lr r' && negb (Nat.eqb r r') && is_copy ternary (row_live M lc r) (row_live M lc r')
    end
  | ECol c =>
    live lc c &&
    match mate with
    | ENone => all_zero (col_live M lr c)
    | ERow r => live lr r && negb (get M r c =? 0) && Nat.eqb (count_nz (col_live M lr c)) 1
    | ECol c' => live lc c' && negb (Nat.eqb c c') && is_copy ternary (col_live M lr c) (col_live M lr c')
    end
  | ENone => false
  end.

Definition remove_elem (lr lc : list bool) (e : elem) : list bool * list bool :=
  match e with ERow r => (kill lr r, lc) | ECol c => (lr, kill lc c) | ENone => (lr, lc) end.

(* apply a reduction sequence, checking each step; None if some step is not a genuine reduction *)
Fixpoint apply_reds (ternary : bool) (M : mat) (lr lc : list bool) (reds : list (elem * elem))
  : option (list bool * list bool) :=
  match reds with
  | [] => Some (lr, lc)
  | (e, mate) :: rest =>
    if red_valid ternary M lr lc e mate
    then let '(lr', lc') := remove_elem lr lc e in apply_reds ternary M lr' lc' rest
    else None
  end.

(* is some line reducible? *)
Definition row_reducible (ternary : bool) (M : mat) (lr lc : list bool) (r : nat) : bool :=
  let v := row_live M lc r in
  Nat.leb (count_nz v) 1 ||
  existsb (fun r' => negb (Nat.eqb r r') && is_copy ternary v (row_live M lc r')) (live_list lr).
Definition col_reducible (ternary : bool) (M : mat) (lr lc : list bool) (c : nat) : bool :=
  let v := col_live M lr c in
  Nat.leb (count_nz v) 1 ||
  existsb (fun c' => negb (Nat.eqb c c') && is_copy ternary v (col_live M lr c')) (live_list lc).

Definition irreducible (ternary : bool) (M : mat) (lr lc : list bool) : bool :=
  forallb (fun r => negb (row_reducible ternary M lr lc r)) (live_list lr) &&
  forallb (fun c => negb (col_reducible ternary M lr lc c)) (live_list lc).

Definition is_empty (lr lc : list bool) : bool :=
  match live_list lr, live_list lc with [], [] => true | _, _ => false end.

(* greedy reduction: remove the first reducible line, repeat (fuel = number of lines) *)
Fixpoint find_first (p : nat -> bool) (l : list nat) : option nat :=
  match l with [] => None | x :: r => if p x then Some x else find_first p r end.

Fixpoint sp_greedy_aux (fuel : nat) (ternary : bool) (M : mat) (lr lc : list bool) : list bool * list bool :=
  match fuel with
  | O => (lr, lc)
  | S f =>
    match find_first (row_reducible ternary M lr lc) (live_list lr) with
    | Some r => sp_greedy_aux f ternary M (kill lr r) lc
    | None =>
      match find_first (col_reducible ternary M lr lc) (live_list lc) with
      | Some c => sp_greedy_aux f ternary M lr (kill lc c)
      | None => (lr, lc)
      end
    end
  end.

Definition all_true (k : nat) : list bool := map (fun _ => true) (iota 0 k).

Definition sp_greedy (ternary : bool) (m n : nat) (M : mat) : bool :=
  let '(lr, lc) := sp_greedy_aux (m + n) ternary M (all_true m) (all_true n) in is_empty lr lc.

(* the dense matrix of a submatrix given by index lists *)
Definition sp_of_sub (ternary : bool) (M : mat) (rs cs : list nat) : bool :=
  sp_greedy ternary (length rs) (length cs) (submat M rs cs).

(* violator patterns of doc/series-parallel.md, up to line permutations:
   M2: 2x2, all four entries nonzero (ternary only); wheels: k >= 3, k x k, every line has two nonzeros
   (cycle matrix M_k) or the 3x3 matrix M3' with 7 nonzeros whose two zeros lie in different rows and columns.
   In every case the submatrix must itself be non-series-parallel. *)
Definition line_counts (N : mat) : list nat := map count_nz N.
Definition check_sp_violator (ternary : bool) (m n : nat) (M : mat) (rs cs : list nat) : bool :=
  let k := length rs in
  let N := submat M rs cs in
  let Nt := transpose k k N in
  Nat.eqb (length cs) k && all_lt m rs && all_lt n cs && nodupn rs && nodupn cs &&
  negb (sp_greedy ternary k k N) &&
  (if Nat.eqb k 2 then ternary && forallb (fun c => Nat.eqb c 2) (line_counts N)
   else Nat.leb 3 k &&
        ((forallb (fun c => Nat.eqb c 2) (line_counts N) && forallb (fun c => Nat.eqb c 2) (line_counts Nt)) ||
         (Nat.eqb k 3 && Nat.eqb (length (filter (fun c => Nat.eqb c 2) (line_counts N))) 2 &&
          Nat.eqb (length (filter (fun c => Nat.eqb c 3) (line_counts N))) 1 &&
          Nat.eqb (length (filter (fun c => Nat.eqb c 2) (line_counts Nt))) 2 &&
          Nat.eqb (length (filter (fun c => Nat.eqb c 3) (line_counts Nt))) 1))).

Definition mask_of (k : nat) (l : list nat) : list bool := map (fun i => memn i l) (iota 0 k).

Definition same_set (a b : list nat) : bool :=
  nodupn a && nodupn b && forallb (fun x => memn x b) a && forallb (fun x => memn x a) b.

(* record:  ternary api(0 = Test, 1 = Decompose) maxRed(-1 = unlimited) wantVerdict wantReds wantReduced wantViolator wantSepa
            M  rc  verdict(0/1/2)  numReds(-1 = SIZE_MAX, -2 = not requested)  k (e1 m1 ... ek mk)
            hasReduced [nr rows nc cols]  hasViolator [nr rows nc cols]  hasSepa [nr rowflags nc colflags type] *)
Definition dpairs : dec (list (Z * Z)) := dlist (a <- dZ ;; b <- dZ ;; dret (a, b)).
Definition dsubm : dec (option (list nat * list nat)) :=
  h <- dbool ;; if h then (rs <- dlist dnat ;; cs <- dlist dnat ;; dret (Some (rs, cs))) else dret None.
Definition dsepa : dec (option (list Z * list Z * Z)) :=
  h <- dbool ;; if h then (rf <- dlist dZ ;; cf <- dlist dZ ;; t <- dZ ;; dret (Some (rf, cf, t))) else dret None.

(* rank over GF(p) of a small dense matrix is not needed: a 2-separation requires the two off-diagonal blocks
   to have ranks (1,0): one block zero, the other of rank exactly 1 (nonzero, all nonzero rows proportional). *)
Definition block (M : mat) (rs cs : list nat) : mat := submat M rs cs.
Definition mat_is_zero (N : mat) : bool := forallb all_zero N.
Definition rank1 (ternary : bool) (N : mat) : bool :=
  match filter (fun r => negb (all_zero r)) N with
  | [] => false
  | r0 :: rest => forallb (fun r => is_copy ternary r r0) rest
  end.

Definition check_sepa2 (ternary : bool) (M : mat) (rows cols : list nat) (rf cf : list Z) : bool :=
  (* rows/cols: the lines of the matrix the separation refers to; flags bit 0 = part *)
  let part (f : Z) := Z.odd f in
  let r1 := map fst (filter (fun p => negb (part (snd p))) (combine rows rf)) in
  let r2 := map fst (filter (fun p => part (snd p)) (combine rows rf)) in
  let c1 := map fst (filter (fun p => negb (part (snd p))) (combine cols cf)) in
  let c2 := map fst (filter (fun p => part (snd p)) (combine cols cf)) in
  Nat.eqb (length rf) (length rows) && Nat.eqb (length cf) (length cols) &&
  Nat.leb 2 (length r1 + length c1) && Nat.leb 2 (length r2 + length c2) &&
  ((mat_is_zero (block M r1 c2) && rank1 ternary (block M r2 c1)) ||
   (mat_is_zero (block M r2 c1) && rank1 ternary (block M r1 c2))).

(* the number of SP reductions the matrix admits (greedy order; what remains is irreducible) *)
Definition total_reds (ternary : bool) (m n : nat) (M : mat) : nat :=
  let '(lr, lc) := sp_greedy_aux (m + n) ternary M (all_true m) (all_true n) in
  (m + n - (length (live_list lr) + length (live_list lc)))%nat.

Definition judge_sp (rec : list Z) : Z :=
  match (tern <- dbool ;; api <- dZ ;; maxred <- dZ ;; wv <- dbool ;; wr <- dbool ;; wd <- dbool ;; wviol <- dbool ;;
         ws <- dbool ;; x <- dmat ;; rc <- dZ ;; v <- dZ ;; nred <- dZ ;; reds <- dpairs ;;
         reduced <- dsubm ;; viol <- dsubm ;; sepa <- dsepa ;;
         dend (tern, api, maxred, (wv, wr, wd, wviol, ws), x, rc, v, nred, reds, reduced, viol, sepa)) rec with
  | Some ((tern, api, maxred, (wv, wr, wd, wviol, ws), (m, n, M), rc, v, nred, reds, reduced, viol, sepa), _) =>
    if negb (if tern then is_ternary M else is_binary M) then 0 (* outside the documented domain *)
    else if negb (rc =? 0) then 70
    else
      let truth := sp_greedy tern m n M in
      let unlimited := maxred <? 0 in
      (* with a bound on the number of reductions: the reported number is SIZE_MAX (-1) exactly when the matrix admits more
         reductions than the bound, and the number of reductions otherwise *)
      if negb unlimited && negb (nred =? -2) &&
         negb (nred =? (if maxred <? Z.of_nat (total_reds tern m n M) then -1 else Z.of_nat (total_reds tern m n M))) then 77
      else
      (* verdict flag *)
      if wv && (v =? 2) then 71
      else if wv && negb ((v =? 0) || (v =? 1)) then 1
      else if wv && unlimited && negb (Bool.eqb (v =? 1) truth) then 72
      else
      (* reductions *)
      let ereds := map (fun p => (elem_of_Z (fst p), elem_of_Z (snd p))) reds in
      match (if wr then apply_reds tern M (all_true m) (all_true n) ereds else Some (all_true m, all_true n)) with
      | None => 73
      | Some (lr, lc) =>
        if wr && unlimited && negb (nred =? Z.of_nat (length reds)) then 74
        else if wr && unlimited && negb (irreducible tern M lr lc) then 75
        else if wr && unlimited && negb (Bool.eqb (is_empty lr lc) truth) then 76
        else
        (* reduced submatrix *)
        match reduced with
        | Some (rr, rcs) =>
          if negb (all_lt m rr && all_lt n rcs && nodupn rr && nodupn rcs) then 78
          else if unlimited && negb (irreducible tern M (mask_of m rr) (mask_of n rcs)) then 79
          else if unlimited && wr && negb (same_set rr (live_list lr) && same_set rcs (live_list lc)) then 80
          else if unlimited && negb (Bool.eqb (match rr, rcs with [], [] => true | _, _ => false end) truth) then 81
          else
          match viol with
          | Some (vr, vc) =>
            if truth then 82 else if check_sp_violator tern m n M vr vc then
              (match sepa with
               | Some (rf, cf, t) => if check_sepa2 tern M rr rcs rf cf then 0 else 85
               | None => 0 end)
            else 83
          | None =>
            match sepa with
            | Some (rf, cf, t) =>
              if truth then 84
              else if check_sepa2 tern M rr rcs rf cf then 0 else 85
            | None => if wviol && unlimited && negb truth && negb ws then 86 else 0
            end
          end
        | None =>
          if wd && unlimited then 87 else
          match viol with
          | Some (vr, vc) => if truth then 82 else if check_sp_violator tern m n M vr vc then 0 else 83
          | None => if wviol && unlimited && negb truth && negb ws then 86 else 0
          end
        end
      end
  | None => 1
  end.

(* ---------- balanced matrices ---------- *)

Definition two_per_line (k : nat) (N : mat) : bool :=
  forallb (fun r => Nat.eqb (count_nz r) 2) N && forallb (fun r => Nat.eqb (count_nz r) 2) (transpose k k N).
Definition entry_sum (N : mat) : Z := fold_right (fun r acc => fold_right Z.add 0 r + acc) 0 N.
Definition bad_cycle (k : nat) (N : mat) : bool := two_per_line k N && (Z.modulo (entry_sum N) 4 =? 2).

Definition balanced_order (m n : nat) (M : mat) (k : nat) : bool :=
  forallb (fun rs => forallb (fun cs => negb (bad_cycle k (submat M rs cs))) (subseqs k (iota 0 n)))
          (subseqs k (iota 0 m)).
Definition balanced_bf (m n : nat) (M : mat) : bool := forallb (balanced_order m n M) (iota 1 (Nat.min m n)).

Definition check_unbalanced (m n : nat) (M : mat) (rs cs : list nat) : bool :=
  Nat.eqb (length rs) (length cs) && all_lt m rs && all_lt n cs && nodupn rs && nodupn cs &&
  bad_cycle (length rs) (submat M rs cs).

(* record: algorithm(0 auto,1 submatrix,2 graph) seriesParallel wantSub M rc verdict(0/1/2) hasSub [sub] *)
Definition judge_balanced (rec : list Z) : Z :=
  match (alg <- dZ ;; sp <- dbool ;; ws <- dbool ;; x <- dmat ;; rc <- dZ ;; v <- dZ ;; sub <- dsubm ;;
         dend (alg, sp, ws, x, rc, v, sub)) rec with
  | Some ((alg, sp, ws, (m, n, M), rc, v, sub), _) =>
    if (alg =? 2) && negb (rc =? 0) then 0      (* graph algorithm: documented as not implemented, error status *)
    else if negb (rc =? 0) then 60
    else if v =? 2 then 61
    else if negb ((v =? 0) || (v =? 1)) then 1
    else if negb (is_ternary M) then
      (if v =? 1 then 62 else
       match sub with
       | Some ([r], [c]) => if ws && negb (is_ternary_entry (get M r c)) && Nat.ltb r m && Nat.ltb c n then 0 else 66
       | Some _ => 66
       | None => if ws then 64 else 0
       end)
    else if negb (Bool.eqb (v =? 1) (balanced_bf m n M)) then 63
    else if v =? 1 then (match sub with None => 0 | Some _ => 67 end)
    else match sub with
         | Some (rs, cs) => if check_unbalanced m n M rs cs then 0 else 65
         | None => if ws then 64 else 0
         end
  | None => 1
  end.
