(* GraphModel.v — multigraphs, fundamental-cycle (graphic) and network matrices, certificate
   checkers for the graphs returned by CMRgraphicTest* / CMRnetworkTest*, executable construction
   of representation matrices, brute-force graphicness oracle for few rows, and the judges.
   No proofs here. *)
From Cmr Require Import Base Det.
Local Open Scope Z_scope.

(* an edge: identifier, the two end nodes (for digraphs: tail u, head v, before applying reversals) *)
Record edge := { e_id : nat; e_u : nat; e_v : nat }.
Record graph := { g_nodes : list nat; g_edges : list edge }.

Fixpoint find_edge (es : list edge) (id : nat) : option edge :=
  match es with
  | [] => None
  | e :: r => if Nat.eqb (e_id e) id then Some e else find_edge r id
  end.

Definition dedge : dec edge := i <- dnat ;; u <- dnat ;; v <- dnat ;; dret {| e_id := i; e_u := u; e_v := v |}.
Definition dgraph : dec graph := ns <- dlist dnat ;; es <- dlist dedge ;; dret {| g_nodes := ns; g_edges := es |}.

Definition graph_ok (G : graph) : bool :=
  nodupn (g_nodes G) && nodupn (map e_id (g_edges G)) &&
  forallb (fun e => memn (e_u e) (g_nodes G) && memn (e_v e) (g_nodes G)) (g_edges G).

(* ---------- acyclicity by stripping leaves ---------- *)

Definition incident (e : edge) (x : nat) : bool := Nat.eqb (e_u e) x || Nat.eqb (e_v e) x.
Definition is_loop (e : edge) : bool := Nat.eqb (e_u e) (e_v e).
Definition degree (es : list edge) (x : nat) : nat :=
  fold_right (fun e acc => ((if Nat.eqb (e_u e) x then 1 else 0) + (if Nat.eqb (e_v e) x then 1 else 0) + acc)%nat) O es.

(* remove the first edge that has an end node of degree 1 *)
Fixpoint strip_one (all : list edge) (es : list edge) : option (list edge) :=
  match es with
  | [] => None
  | e :: r =>
    if negb (is_loop e) && (Nat.eqb (degree all (e_u e)) 1 || Nat.eqb (degree all (e_v e)) 1) then Some r
    else match strip_one all r with Some r' => Some (e :: r') | None => None end
  end.

Fixpoint strip (fuel : nat) (es : list edge) : bool :=
  match es with
  | [] => true
  | _ =>
    match fuel with
    | O => false
    | S f => match strip_one es es with Some es' => strip f es' | None => false end
    end
  end.

Definition acyclic (es : list edge) : bool := strip (length es) es.

(* ---------- walking a path ---------- *)

(* From node cur, use up the edges of `rest` one at a time (always the first one incident to cur), never
   visiting a node twice; succeed iff all edges are used and the walk ends at `target`.
   Returns the list of (edge, traversed from e_u to e_v?) in walking order. *)
Fixpoint take_incident (es : list edge) (x : nat) : option (edge * list edge) :=
  match es with
  | [] => None
  | e :: r => if incident e x then Some (e, r)
              else match take_incident r x with Some (e', r') => Some (e', e :: r') | None => None end
  end.

Fixpoint walk (fuel : nat) (cur target : nat) (visited : list nat) (rest : list edge) : option (list (edge * bool)) :=
  match rest with
  | [] => if Nat.eqb cur target then Some [] else None
  | _ =>
    match fuel with
    | O => None
    | S f =>
      match take_incident rest cur with
      | None => None
      | Some (e, rest') =>
        let fwd := Nat.eqb (e_u e) cur in
        let nxt := if fwd then e_v e else e_u e in
        if is_loop e || memn nxt visited then None
        else match walk f nxt target (nxt :: visited) rest' with
             | Some p => Some ((e, fwd) :: p)
             | None => None
             end
      end
    end
  end.

Definition path_of (es : list edge) (u v : nat) : option (list (edge * bool)) :=
  walk (length es) u v [u] es.

(* column j of M as the list of row indices with a nonzero *)
Definition col_support (m : nat) (M : mat) (j : nat) : list nat :=
  filter (fun i => negb (get M i j =? 0)) (iota 0 m).

Fixpoint lookup_all (es : list edge) (ids : list nat) : option (list edge) :=
  match ids with
  | [] => Some []
  | i :: r => match find_edge es i, lookup_all es r with
              | Some e, Some l => Some (e :: l)
              | _, _ => None
              end
  end.

(* ---------- certificate check: M = M(G,T) (unsigned) ---------- *)

Definition check_graph_cert (m n : nat) (M : mat) (G : graph) (forest coforest : list nat) : bool :=
  graph_ok G &&
  Nat.eqb (length forest) m && Nat.eqb (length coforest) n &&
  nodupn (forest ++ coforest) &&
  forallb (fun e => memn (e_id e) (forest ++ coforest)) (g_edges G) &&
  match lookup_all (g_edges G) forest, lookup_all (g_edges G) coforest with
  | Some T, Some C =>
    acyclic T &&
    forallb (fun j =>
      match nth_error C j with
      | Some f =>
        let S := map (fun i => nth i T {| e_id := 0; e_u := 0; e_v := 0 |}) (col_support m M j) in
        match path_of S (e_u f) (e_v f) with Some _ => true | None => false end
      | None => false
      end) (iota 0 n)
  | _, _ => false
  end.

(* ---------- signed version: M = M(D,T) with arc reversals ---------- *)

(* rev: identifiers of the edges whose direction is reversed *)
Definition orient (rev : list nat) (e : edge) : edge :=
  if memn (e_id e) rev then {| e_id := e_id e; e_u := e_v e; e_v := e_u e |} else e.

Definition check_network_cert (m n : nat) (M : mat) (G : graph) (rev forest coforest : list nat) : bool :=
  graph_ok G &&
  Nat.eqb (length forest) m && Nat.eqb (length coforest) n &&
  nodupn (forest ++ coforest) &&
  forallb (fun e => memn (e_id e) (forest ++ coforest)) (g_edges G) &&
  match lookup_all (map (orient rev) (g_edges G)) forest, lookup_all (map (orient rev) (g_edges G)) coforest with
  | Some T, Some C =>
    acyclic T &&
    forallb (fun j =>
      match nth_error C j with
      | Some f =>
        let rows := col_support m M j in
        let S := map (fun i => nth i T {| e_id := 0; e_u := 0; e_v := 0 |}) rows in
        match path_of S (e_u f) (e_v f) with
        | Some p =>
          (* every forest arc on the path: +1 if traversed forwardly, -1 if backwardly *)
          forallb (fun i =>
            let t := nth i T {| e_id := 0; e_u := 0; e_v := 0 |} in
            existsb (fun q : edge * bool => Nat.eqb (e_id (fst q)) (e_id t) &&
                              (get M i j =? (if snd q then 1 else -1))) p) rows
        | None => false
        end
      | None => false
      end) (iota 0 n)
  | _, _ => false
  end.

(* ---------- brute-force graphicness for few rows ---------- *)

(* all pairs a < b below k *)
Definition pairs_below (k : nat) : list (nat * nat) :=
  flat_map (fun a => map (fun b => (a, b)) (iota (S a) (k - S a))) (iota 0 k).

(* all assignments of end nodes to the m forest edges on m+1 nodes *)
Fixpoint assignments (m k : nat) : list (list (nat * nat)) :=
  match m with
  | O => [[]]
  | S m' => flat_map (fun p => map (cons p) (assignments m' k)) (pairs_below k)
  end.

Definition mk_edges (l : list (nat * nat)) : list edge :=
  map (fun ip => {| e_id := fst ip; e_u := fst (snd ip); e_v := snd (snd ip) |}) (combine (iota 0 (length l)) l).

(* is the edge set S (a sub-forest) a single simple path or empty?  try every start node *)
Definition is_path_set (k : nat) (S : list edge) : bool :=
  match S with
  | [] => true
  | _ => existsb (fun u => existsb (fun v => negb (Nat.eqb u v) &&
                   match path_of S u v with Some _ => true | None => false end) (iota 0 k)) (iota 0 k)
  end.

Definition graphic_bf (m n : nat) (M : mat) : bool :=
  is_binary M &&
  existsb (fun asg =>
    let T := mk_edges asg in
    acyclic T &&
    forallb (fun j => is_path_set (S m)
                        (map (fun i => nth i T {| e_id := 0; e_u := 0; e_v := 0 |}) (col_support m M j)))
            (iota 0 n))
    (assignments m (S m)).

(* ---------- representation matrix of a given (di)graph and forest ---------- *)

(* entry (i,j): does the T-path between the ends of coforest edge j use forest edge i (with sign)? The path is
   found by searching all simple paths inside T (T is small in the exhaustive stream; for large instances the
   library's matrix is checked with check_network_cert instead). *)
Fixpoint tree_path (fuel : nat) (T : list edge) (cur target : nat) (visited : list nat) : option (list (edge * bool)) :=
  if Nat.eqb cur target then Some [] else
  match fuel with
  | O => None
  | S f =>
    fold_right (fun e acc =>
      match acc with
      | Some p => Some p
      | None =>
        if incident e cur && negb (is_loop e) then
          let fwd := Nat.eqb (e_u e) cur in
          let nxt := if fwd then e_v e else e_u e in
          if memn nxt visited then None
          else match tree_path f T nxt target (nxt :: visited) with
               | Some p => Some ((e, fwd) :: p)
               | None => None
               end
        else None
      end) None T
  end.

Definition rep_matrix (signed : bool) (T C : list edge) : mat :=
  map (fun t =>
    map (fun f =>
      match tree_path (S (length T)) T (e_u f) (e_v f) [e_u f] with
      | Some p =>
        match filter (fun q : edge * bool => Nat.eqb (e_id (fst q)) (e_id t)) p with
        | q :: _ => if signed then (if snd q then 1 else -1) else 1
        | [] => 0
        end
      | None => 0
      end) C) T.

(* ---------- judges ---------- *)

Definition dgraph_cert : dec (graph * list nat * list nat) :=
  G <- dgraph ;; f <- dlist dnat ;; c <- dlist dnat ;; dret (G, f, c).

(* record (graphic): transposed?(0/1)  M  rc  verdict(0/1/2)  hasGraph [graph forest coforest]
   transposed = 1: CMRgraphicTestTranspose was called: the verdict is about M^T (cographicness of M) and
   forest edges index the columns of M, coforest edges the rows. *)
(* optional witness appended by the generator and echoed by the harness:
   0 = none; 1 = a graph with forest/coforest (and reversals) claimed to represent M: if it passes the (proved)
   certificate check, M is graphic resp. network; 2 = index lists of a submatrix with at most 4 rows claimed not to
   be graphic: if the brute-force oracle confirms it, M is not graphic resp. not network (heredity). *)
Inductive witness :=
| WNone
| WGraph (G : graph) (f c r : list nat)
| WCore (rs cs : list nat).
Definition dwitness : dec witness :=
  k <- dZ ;;
  if k =? 1 then (G <- dgraph ;; f <- dlist dnat ;; c <- dlist dnat ;; r <- dlist dnat ;; dret (WGraph G f c r))
  else if k =? 2 then (rs <- dlist dnat ;; cs <- dlist dnat ;; dret (WCore rs cs))
  else dret WNone.

Definition increasing_in (k : nat) (l : list nat) : bool := strictly_increasing l && all_lt k l.

Definition judge_graphic (rec : list Z) : Z :=
  match (tr <- dbool ;; x <- dmat ;; rc <- dZ ;; v <- dZ ;; h <- dbool ;;
         cert <- (if h then (c <- dgraph_cert ;; dret (Some c)) else dret None) ;;
         w <- dwitness ;;
         dend (tr, x, rc, v, cert, w)) rec with
  | Some ((tr, (m0, n0, M0), rc, v, cert, w), _) =>
    let '(m, n, M) := if tr then (n0, m0, transpose m0 n0 M0) else (m0, n0, M0) in
    if negb (is_binary M) then 0
    else if negb (rc =? 0) then 90
    else if negb ((v =? 0) || (v =? 1)) then 91
    else if (Nat.leb m 4) && negb (Bool.eqb (v =? 1) (graphic_bf m n M)) then 92
    else if (match w with
             | WGraph G f c _ => check_graph_cert m n M G f c && (v =? 0)
             | _ => false end) then 96
    else if (match w with
             | WCore rs cs => increasing_in m rs && increasing_in n cs && Nat.leb (length rs) 4 &&
                              negb (graphic_bf (length rs) (length cs) (submat M rs cs)) && (v =? 1)
             | _ => false end) then 97
    else if v =? 1 then
      match cert with
      | Some (G, f, c) => if check_graph_cert m n M G f c then 0 else 93
      | None => 94
      end
    else match cert with None => 0 | Some _ => 95 end
  | None => 1
  end.

(* record (network): transposed? M rc verdict supportGraphic(0/1/2) hasGraph [graph forest coforest nrev revIds] hasSub [sub] *)
Definition dsub2 : dec (option (list nat * list nat)) :=
  h <- dbool ;; if h then (rs <- dlist dnat ;; cs <- dlist dnat ;; dret (Some (rs, cs))) else dret None.

Definition judge_network (rec : list Z) : Z :=
  match (tr <- dbool ;; x <- dmat ;; rc <- dZ ;; v <- dZ ;; sg <- dZ ;; h <- dbool ;;
         cert <- (if h then (c <- dgraph_cert ;; r <- dlist dnat ;; dret (Some (c, r))) else dret None) ;;
         sub <- dsub2 ;; w <- dwitness ;;
         dend (tr, x, rc, v, sg, cert, sub, w)) rec with
  | Some ((tr, (m0, n0, M0), rc, v, sg, cert, sub, w), _) =>
    let '(m, n, M) := if tr then (n0, m0, transpose m0 n0 M0) else (m0, n0, M0) in
    if negb (is_ternary M) then 0
    else if negb (rc =? 0) then 100
    else if negb ((v =? 0) || (v =? 1)) then 101
    else if (Nat.leb m 4) && negb (sg =? 2) && negb (Bool.eqb (sg =? 1) (graphic_bf m n (support M))) then 102
    else if (v =? 1) && (sg =? 0) then 103
    else if (match w with
             | WGraph G f c r => (v =? 0) && check_network_cert m n M G r f c
             | _ => false end) then 107
    else if (match w with
             | WCore rs cs => increasing_in m rs && increasing_in n cs && Nat.leb (length rs) 4 &&
                              negb (graphic_bf (length rs) (length cs) (support (submat M rs cs))) && (v =? 1)
             | _ => false end) then 108
    else if v =? 1 then
      match cert with
      | Some ((G, f, c), r) => if check_network_cert m n M G r f c then 0 else 104
      | None => 105
      end
    else
      (* not network: a returned violating submatrix must lie inside the matrix *)
      match sub with
      | Some (rs, cs) =>
        let '(rs', cs') := if tr then (cs, rs) else (rs, cs) in
        if all_lt m rs' && all_lt n cs' && nodupn rs' && nodupn cs' then 0 else 106
      | None => 0
      end
  | None => 1
  end.

(* record (repmat): signed?  graph  nrev revIds  hasForest [k ids]  hasCoforest [k ids]
                    rc correctForest(0/1/2) hasM [csr] hasMt [csr]  then the edge ids the library used:
                    forestUsed coforestUsed are not reported by the API, so the check is: with the given forest
                    (when it is a spanning forest and given) the matrix must be rep_matrix in forest / coforest order *)
Definition dopt_ids : dec (option (list nat)) := h <- dbool ;; if h then (l <- dlist dnat ;; dret (Some l)) else dret None.
Definition dopt_csrd : dec (option (nat * nat * mat)) := h <- dbool ;; if h then (x <- dcsr_dense ;; dret (Some x)) else dret None.

(* forest correctness: the given ids are distinct edges, acyclic, and every other edge has its ends connected in T *)
Definition connected_in (T : list edge) (u v : nat) : bool :=
  match tree_path (S (length T)) T u v [u] with Some _ => true | None => false end.

Definition is_spanning_forest (G : graph) (forest : list nat) : bool :=
  nodupn forest &&
  match lookup_all (g_edges G) forest with
  | Some T => acyclic T &&
              forallb (fun e => memn (e_id e) forest || connected_in T (e_u e) (e_v e)) (g_edges G)
  | None => false
  end.

(* the given coforest list is exactly the complement of the forest *)
Definition same_ids (coids forest : list nat) (G : graph) : bool :=
  nodupn (forest ++ coids) &&
  forallb (fun e => memn (e_id e) (forest ++ coids)) (g_edges G) &&
  forallb (fun i => memn i (map e_id (g_edges G))) coids.

Definition judge_repmat (rec : list Z) : Z :=
  match (signed <- dbool ;; G <- dgraph ;; rev <- dlist dnat ;; f <- dopt_ids ;; c <- dopt_ids ;;
         rc <- dZ ;; cf <- dZ ;; Mo <- dopt_csrd ;; Mt <- dopt_csrd ;;
         dend (signed, G, rev, f, c, rc, cf, Mo, Mt)) rec with
  | Some ((signed, G, rev, f, c, rc, cf, Mo, Mt), _) =>
    if negb (graph_ok G) then 0
    else if negb (rc =? 0) then 110
    else
      match Mo, Mt with
      | Some (m, n, M), Some (n', m', Mt') =>
        if negb (Nat.eqb m m' && Nat.eqb n n' && mat_eqb Mt' (transpose m n M)) then 111
        else
          match f with
          | Some forest =>
            let good := is_spanning_forest G forest in
            if negb (cf =? 2) && negb (Bool.eqb (cf =? 1) good) then 112
            else if good then
              let Gd := map (orient rev) (g_edges G) in
              match lookup_all Gd forest with
              | Some T =>
                let coids := match c with
                             | Some l => l
                             | None => filter (fun i => negb (memn i forest)) (map e_id (g_edges G))
                             end in
                match c, lookup_all Gd coids with
                | Some _, Some C =>
                  if negb (same_ids coids forest G) then 0
                  else if mat_eqb M (rep_matrix signed T C) then 0 else 113
                | None, Some C =>
                  (* column order not prescribed: the columns must be the coforest edges in some order *)
                  if Nat.eqb n (length C) &&
                     forallb (fun col => existsb (fun j => zlist_eqb (map (fun r => nthZ r j) (rep_matrix signed T C)) col)
                                                 (iota 0 (length C)))
                             (transpose m n M)
                  then 0 else 114
                | _, None => 0
                end
              | None => 0
              end
            else 0
          | None => 0
          end
      | _, _ => 115
      end
  | None => 1
  end.
