(* NetworkClosure.v -- closure properties of network matrices (the signed analogue of GraphicClosure.v):

     NetworkP m n M  :=  there are a forest T of arcs (one per row, pairwise distinct ids) and non-forest arcs C (one per
                         column) with GraphProofs.network_spec m n M T C: entry (i,j) is +1 / -1 / 0 according to whether
                         the simple T-path from the tail to the head of C_j traverses T_i forwards / backwards / not.
                         (network_spec forces the entries of the m x n window into {-1,0,1}: NetworkP_ternary.)

   Proved (no axioms), on top of the forest lemmas of GraphicClosure.v:
     cert_NetworkP             an accepted certificate of check_network_cert yields NetworkP
     NetworkP_cols             (a) any selection of columns;  NetworkP_perm / NetworkP_perm_iff (kind 1 of judge_rel)
     NetworkP_scale            (b) kind 2 of judge_rel: M' = mk_mat m n (fun i j => p1_i * p2_j * M i j), signs +-1, iff
     NetworkP_delete_row       (c) deleting ANY row = contracting its forest arc;  NetworkP_submat(_gen)
     NetworkP_add_row/_col, NetworkP_reducible_line
                               (d) kind 4 of judge_rel with TERNARY reducibility (zero / +-unit / +-copy lines), iff

   Method: as in GraphicClosure.v, on the column-wise form (NetworkP_iff).  The three-part entry condition of
   network_spec is packaged as sgn_ok v e p and transported by sgn_transfer (same sign / opposite sign).  A row sign -1
   reverses the forest arc (flip) and the direction flag of its steps; a column sign -1 reverses the path (rev_path).
   A negated copy row subdivides the forest arc with the new half oriented against it; forests do not see
   orientations (is_forest_sim). *)
From Coq Require Import List ZArith Bool Lia Permutation Arith PeanoNat.
From Cmr Require Import Base Det BaseProofs GraphModel GraphProofs NetworkSpec SpModel RelModel.
From Cmr Require BalancedProofs SpProofs SpProofs2 RelProofs.
From Cmr Require Import GraphicClosure.
Import ListNotations.

(* ------------------------------------------------------------------------------------------ *)
(* 1. Network matrices, column-wise form                                                        *)
(* ------------------------------------------------------------------------------------------ *)

Definition NetworkP (m n : nat) (M : mat) : Prop :=
  exists T C, length T = m /\ length C = n /\ NoDup (map e_id T) /\ is_forest T /\ network_spec m n M T C.

Theorem cert_NetworkP : forall m n M G rev f c,
  check_network_cert m n M G rev f c = true -> NetworkP m n M.
Proof.
  intros m n M G rev f c H.
  destruct (check_network_cert_sound _ _ _ _ _ _ _ H)
    as [T [C [_ [H1 [H2 [H3 [H4 [H5 [H6 [H7 [Hac H8]]]]]]]]]]].
  exists T, C. repeat (split; auto).
  - destruct (lookup_all_spec _ _ _ H1) as [TI _]. rewrite TI. eapply NoDup_app_l; eauto.
  - apply acyclic_forest. exact Hac.
Qed.
Print Assumptions cert_NetworkP.

(* the entry v is the sign with which the path p traverses the arc e (0: not at all) *)
Definition sgn_ok (v : Z) (e : edge) (p : list (edge * bool)) : Prop :=
  (v = 1%Z <-> In (e, true) p) /\ (v = (-1)%Z <-> In (e, false) p) /\ (v = 0%Z <-> ~ In e (map fst p)).

Lemma in_fst_iff : forall (p : list (edge * bool)) e, In e (map fst p) <-> (In (e, true) p \/ In (e, false) p).
Proof.
  intros p e. rewrite in_map_iff. split.
  - intros [[a b] [E H]]. simpl in E; subst a. destruct b; auto.
  - intros [H|H]; eexists; split; try exact H; reflexivity.
Qed.

Lemma sgn_transfer : forall v e p (s : bool) e' p',
  sgn_ok v e p -> (forall b, In (e', b) p' <-> In (e, if s then b else negb b) p) ->
  sgn_ok (if s then v else (- v)%Z) e' p'.
Proof.
  intros v e p s e' p' [A [B C]] H. unfold sgn_ok. rewrite (in_fst_iff p'), !H.
  rewrite in_fst_iff in C. destruct s; simpl.
  - tauto.
  - split; [|split].
    + rewrite <- B. lia.
    + rewrite <- A. lia.
    + rewrite <- (Z.opp_involutive 0) at 1. simpl. split.
      * intros E. assert (v = 0%Z) by lia. tauto.
      * intros E. assert (v = 0%Z) by tauto. lia.
Qed.

Lemma sgn_ok_ternary : forall v e p, sgn_ok v e p -> (v = 0 \/ v = 1 \/ v = -1)%Z.
Proof.
  intros v e p [A [B C]].
  destruct (in_dec step_eq_dec (e, true) p) as [I1|I1]; [right; left; apply A; exact I1|].
  destruct (in_dec step_eq_dec (e, false) p) as [I2|I2]; [right; right; apply B; exact I2|].
  left. apply C. rewrite in_fst_iff. tauto.
Qed.

Lemma sgn_ok_zero : forall e p, ~ In e (map fst p) -> sgn_ok 0 e p.
Proof.
  intros e p H. unfold sgn_ok. pose proof (in_fst_iff p e) as F. repeat split; try tauto; try discriminate.
Qed.

Lemma sgn_ok_head : forall e (b : bool) p, ~ In e (map fst p) ->
  sgn_ok (if b then 1 else -1)%Z e ((e, b) :: p).
Proof.
  intros e b p H. unfold sgn_ok. pose proof (in_fst_iff p e) as F. simpl.
  destruct b; repeat split; auto; try discriminate; try tauto.
  - intros [E|E]; [inversion E | tauto].
  - intros [E|E]; [inversion E | tauto].
Qed.

Definition ncol_ok (m : nat) (M : mat) (T : list edge) (j : nat) : Prop :=
  exists x y p, simple_path T x y p /\ forall i, i < m -> sgn_ok (get M i j) (nth i T dflt) p.

Definition nforest_rep (m n : nat) (M : mat) (T : list edge) : Prop :=
  length T = m /\ NoDup (map e_id T) /\ is_forest T /\ forall j, j < n -> ncol_ok m M T j.

Lemma NetworkP_iff : forall m n M, NetworkP m n M <-> exists T, nforest_rep m n M T.
Proof.
  intros m n M. split.
  - intros [T [C [H1 [H2 [H3 [H4 H5]]]]]]. exists T. repeat (split; auto).
    intros j Hj. destruct (H5 j Hj) as [f [p [_ [Hsp Hent]]]]. exists (e_u f), (e_v f), p. split; auto.
  - intros [T [H1 [H3 [H4 H5]]]].
    destruct (finite_choice edge (fun j f => exists p, simple_path T (e_u f) (e_v f) p /\
                forall i, i < m -> sgn_ok (get M i j) (nth i T dflt) p) n) as [C [HC Hall]].
    { intros j Hj. destruct (H5 j Hj) as [x [y [p [Hsp Hent]]]].
      exists {| e_id := 0; e_u := x; e_v := y |}. exists p. split; auto. }
    exists T, C. repeat (split; auto).
    intros j Hj. destruct (Hall j Hj) as [f [Ef [p [Hsp Hent]]]]. exists f, p. auto.
Qed.

Lemma ncol_ok_intro : forall m M T j x y p,
  NoDup (map e_id T) -> is_forest T -> is_walk T x y p -> NoDup (step_ids p) ->
  (forall i, i < m -> sgn_ok (get M i j) (nth i T dflt) p) -> ncol_ok m M T j.
Proof.
  intros m M T j x y p HT HF Hw Hnd Hent. exists x, y, p. split; auto.
  apply forest_trail_simple; auto.
Qed.

Theorem NetworkP_ternary : forall m n M, NetworkP m n M ->
  forall i j, i < m -> j < n -> (get M i j = 0 \/ get M i j = 1 \/ get M i j = -1)%Z.
Proof.
  intros m n M H i j Hi Hj. apply NetworkP_iff in H. destruct H as [T [_ [_ [_ H5]]]].
  destruct (H5 j Hj) as [x [y [p [_ He]]]]. eapply sgn_ok_ternary. apply He. exact Hi.
Qed.
Print Assumptions NetworkP_ternary.

(* ------------------------------------------------------------------------------------------ *)
(* 2. (a) columns (selection, with optional negation), row permutations                          *)
(* ------------------------------------------------------------------------------------------ *)

Lemma in_rev_path : forall p e b, In (e, b) (rev_path p) <-> In (e, negb b) p.
Proof.
  intros p e b. unfold rev_path. rewrite <- in_rev, in_map_iff. split.
  - intros [[a c] [E H]]. simpl in E. inversion E; subst. rewrite negb_involutive. exact H.
  - intros H. exists (e, negb b). simpl. rewrite negb_involutive. auto.
Qed.

(* column j of M' is column g j of M, negated when sg j = false (the non-forest arc is reversed) *)
Lemma NetworkP_cols_sgn_ext : forall m n M n' M' (g : nat -> nat) (sg : nat -> bool),
  NetworkP m n M -> (forall j, j < n' -> g j < n) ->
  (forall i j, i < m -> j < n' -> get M' i j = if sg j then get M i (g j) else (- get M i (g j))%Z) ->
  NetworkP m n' M'.
Proof.
  intros m n M n' M' g sg HG Hg Hent. apply NetworkP_iff in HG. apply NetworkP_iff.
  destruct HG as [T [H1 [H3 [H4 H5]]]]. exists T. repeat (split; auto).
  intros j Hj. destruct (H5 (g j) (Hg j Hj)) as [x [y [p [Hsp He]]]].
  destruct (sg j) eqn:Es.
  - exists x, y, p. split; auto. intros i Hi. rewrite Hent, Es by assumption. apply He. exact Hi.
  - exists y, x, (rev_path p). split; [apply simple_path_rev; exact Hsp|].
    intros i Hi. rewrite Hent, Es by assumption.
    apply (sgn_transfer (get M i (g j)) (nth i T dflt) p false (nth i T dflt) (rev_path p));
      [apply He; exact Hi|]. intros b. apply in_rev_path.
Qed.

Lemma NetworkP_cols_ext : forall m n M n' M' (g : nat -> nat),
  NetworkP m n M -> (forall j, j < n' -> g j < n) ->
  (forall i j, i < m -> j < n' -> get M' i j = get M i (g j)) -> NetworkP m n' M'.
Proof.
  intros m n M n' M' g HG Hg Hent.
  apply (NetworkP_cols_sgn_ext m n M n' M' g (fun _ => true)); auto.
Qed.

Lemma NetworkP_ext : forall m n M M', NetworkP m n M ->
  (forall i j, i < m -> j < n -> get M' i j = get M i j) -> NetworkP m n M'.
Proof. intros m n M M' HG He. apply (NetworkP_cols_ext m n M n M' (fun j => j)); auto. Qed.

Theorem NetworkP_cols : forall m n M cs, wf_mat m n M = true -> all_lt n cs = true ->
  NetworkP m n M -> NetworkP m (length cs) (submat M (iota 0 m) cs).
Proof.
  intros m n M cs _ Hcs HG. rewrite BalancedProofs.all_lt_spec in Hcs.
  apply (NetworkP_cols_ext m n M (length cs) _ (fun j => nth j cs 0)); auto.
  - intros j Hj. apply Hcs. apply nth_In. exact Hj.
  - intros i j Hi Hj. rewrite SpProofs2.get_submat by (rewrite ?length_iota; assumption).
    rewrite RelProofs.nth_iota by assumption. reflexivity.
Qed.
Print Assumptions NetworkP_cols.

Lemma NetworkP_rowperm_ext : forall m n M M' rp,
  NetworkP m n M -> length rp = m -> Permutation rp (iota 0 m) ->
  (forall i j, i < m -> j < n -> get M' i j = get M (nth i rp 0) j) ->
  NetworkP m n M'.
Proof.
  intros m n M M' rp HG Hlen HP Hent. apply NetworkP_iff in HG. apply NetworkP_iff.
  destruct HG as [T [H1 [H3 [H4 H5]]]].
  set (T' := map (fun i => nth i T dflt) rp).
  assert (HPT : Permutation T' T).
  { unfold T'. apply perm_trans with (map (fun i => nth i T dflt) (iota 0 m)).
    - apply Permutation_map. exact HP.
    - rewrite <- H1. rewrite map_nth_iota. apply Permutation_refl. }
  assert (Hnth : forall i, i < m -> nth i T' dflt = nth (nth i rp 0) T dflt).
  { intros i Hi. unfold T'.
    rewrite (nth_indep _ dflt (nth 0 T dflt)) by (rewrite map_length; lia).
    apply (map_nth (fun i => nth i T dflt)). }
  exists T'. split; [|split; [|split]].
  - unfold T'. rewrite map_length. exact Hlen.
  - eapply Permutation_NoDup; [apply Permutation_map, Permutation_sym, HPT | exact H3].
  - eapply is_forest_perm; [exact H4 | apply Permutation_sym; exact HPT].
  - intros j Hj. destruct (H5 j Hj) as [x [y [p [[Hw Hnd] He]]]].
    exists x, y, p. split.
    + split; auto. eapply is_walk_incl; [|exact Hw]. intros q Hq.
      eapply Permutation_in; [apply Permutation_sym; exact HPT|]. eapply is_walk_edges; eauto.
    + intros i Hi. rewrite Hent, Hnth by assumption. apply He.
      assert (In (nth i rp 0) (iota 0 m)).
      { eapply Permutation_in; [exact HP|]. apply nth_In. lia. }
      apply in_iota in H. lia.
Qed.

Lemma perm_l_facts : forall m rp, is_perm_l m rp = true ->
  Permutation rp (iota 0 m) /\ length rp = m /\ (forall i, i < m -> In i rp) /\ (forall i, i < m -> nth i rp 0 < m).
Proof.
  intros m rp H. pose proof (is_perm_l_Permutation m rp H) as HP.
  assert (Hl : length rp = m) by (rewrite (Permutation_length HP); apply length_iota).
  repeat split; auto.
  - intros i Hi. eapply Permutation_in; [apply Permutation_sym; exact HP|]. apply in_iota. lia.
  - intros i Hi. assert (In (nth i rp 0) (iota 0 m)).
    { eapply Permutation_in; [exact HP|]. apply nth_In. lia. }
    apply in_iota in H0. lia.
Qed.

Theorem NetworkP_perm : forall m n M rp cp, wf_mat m n M = true ->
  is_perm_l m rp = true -> is_perm_l n cp = true ->
  NetworkP m n M -> NetworkP m n (submat M rp cp).
Proof.
  intros m n M rp cp _ Hr Hc HG.
  destruct (perm_l_facts m rp Hr) as [HPr [Hlr [Hinr Hltr]]].
  destruct (perm_l_facts n cp Hc) as [HPc [Hlc [Hinc Hltc]]].
  assert (H1 : NetworkP m n (submat M rp (iota 0 n))).
  { apply (NetworkP_rowperm_ext m n M _ rp); auto.
    intros i j Hi Hj. rewrite SpProofs2.get_submat by (rewrite ?length_iota; lia).
    rewrite RelProofs.nth_iota by assumption. reflexivity. }
  apply (NetworkP_cols_ext m n _ n (submat M rp cp) (fun j => nth j cp 0) H1); auto.
  intros i j Hi Hj. specialize (Hltc j Hj).
  rewrite !SpProofs2.get_submat by (rewrite ?length_iota; lia).
  rewrite RelProofs.nth_iota by assumption. reflexivity.
Qed.
Print Assumptions NetworkP_perm.

Theorem NetworkP_perm_iff : forall m n M rp cp, wf_mat m n M = true ->
  is_perm_l m rp = true -> is_perm_l n cp = true ->
  (NetworkP m n M <-> NetworkP m n (submat M rp cp)).
Proof.
  intros m n M rp cp Hwf Hr Hc. split; [apply NetworkP_perm; auto|]. intros HG'.
  destruct (perm_l_facts m rp Hr) as [HPr [Hlr [Hinr Hltr]]].
  destruct (perm_l_facts n cp Hc) as [HPc [Hlc [Hinc Hltc]]].
  set (M' := submat M rp cp) in *.
  set (rq := map (fun i => RelProofs.index_of i rp) (iota 0 m)).
  assert (Hlrq : length rq = m) by (unfold rq; rewrite map_length; apply length_iota).
  assert (Hrq : forall i, i < m -> nth i rq 0 = RelProofs.index_of i rp).
  { intros i Hi. unfold rq. apply nth_map_iota. exact Hi. }
  assert (HPq : Permutation rq (iota 0 m)).
  { apply NoDup_Permutation_bis.
    - unfold rq. apply NoDup_map_inj_in; [|apply NoDup_iota].
      intros a b Ha Hb E. apply in_iota in Ha. apply in_iota in Hb.
      apply (RelProofs.index_of_inj a b rp); auto; apply Hinr; lia.
    - rewrite length_iota. lia.
    - intros x Hx. unfold rq in Hx. apply in_map_iff in Hx. destruct Hx as [i [<- Hi]].
      apply in_iota in Hi. apply in_iota. split; [lia|]. simpl. rewrite <- Hlr.
      apply RelProofs.index_of_lt. apply Hinr. lia. }
  (* first undo the row permutation, then the column permutation *)
  set (M1 := mk_mat m n (fun i j => get M' (RelProofs.index_of i rp) j)).
  assert (H1 : NetworkP m n M1).
  { apply (NetworkP_rowperm_ext m n M' M1 rq); auto.
    intros i j Hi Hj. unfold M1. rewrite get_mk_mat by assumption. rewrite Hrq by assumption. reflexivity. }
  apply (NetworkP_cols_ext m n M1 n M (fun j => RelProofs.index_of j cp) H1).
  - intros j Hj. rewrite <- Hlc. apply RelProofs.index_of_lt. apply Hinc. exact Hj.
  - intros i j Hi Hj.
    assert (Hj' : RelProofs.index_of j cp < n).
    { rewrite <- Hlc. apply RelProofs.index_of_lt. apply Hinc. exact Hj. }
    assert (Hi' : RelProofs.index_of i rp < m).
    { rewrite <- Hlr. apply RelProofs.index_of_lt. apply Hinr. exact Hi. }
    unfold M1. rewrite get_mk_mat by assumption. unfold M'.
    rewrite SpProofs2.get_submat by lia.
    rewrite !RelProofs.nth_index_of by auto. reflexivity.
Qed.
Print Assumptions NetworkP_perm_iff.

(* ------------------------------------------------------------------------------------------ *)
(* 3. (b) scaling rows and columns by signs                                                      *)
(* ------------------------------------------------------------------------------------------ *)

Definition flip (e : edge) : edge := {| e_id := e_id e; e_u := e_v e; e_v := e_u e |}.

(* forests do not see orientations: only loops and degrees matter *)
Definition sim (a a' : edge) : Prop := is_loop a' = is_loop a /\ forall z, contrib a' z = contrib a z.

Lemma sim_refl : forall a, sim a a.
Proof. intros a. split; auto. Qed.

Lemma sim_flip : forall a, sim a (flip a).
Proof.
  intros a. split.
  - unfold is_loop, flip; simpl. apply Nat.eqb_sym.
  - intros z. unfold contrib, flip; simpl. lia.
Qed.

Lemma degree_sim : forall L L' z, Forall2 sim L L' -> degree L' z = degree L z.
Proof.
  intros L L' z H; induction H as [|a a' L L' [_ Hc] _ IH]; [reflexivity|].
  rewrite !degree_cons, IH, Hc. reflexivity.
Qed.

Lemma contrib_pos_incident : forall e z, 1 <= contrib e z -> incident e z = true.
Proof.
  intros e z H. unfold contrib in H. unfold incident.
  destruct (Nat.eqb (e_u e) z); destruct (Nat.eqb (e_v e) z); simpl in *; auto; lia.
Qed.

Lemma is_forest_mid_z : forall l1 e l2 z,
  is_loop e = false -> incident e z = true -> degree (l1 ++ e :: l2) z = 1 ->
  is_forest (l1 ++ l2) -> is_forest (l1 ++ e :: l2).
Proof.
  intros l1 e l2 z Hl Hi Hd HF. apply forest_leaf; auto.
  apply incident_iff in Hi. destruct Hi as [<-|<-]; auto.
Qed.

Lemma is_forest_sim : forall L, is_forest L -> forall L', Forall2 sim L L' -> is_forest L'.
Proof.
  intros L HF; induction HF as [|l1 e l2 Hloop Hdeg HF IH]; intros L' HS.
  - inversion HS. constructor.
  - assert (Hdg : forall z, degree L' z = degree (l1 ++ e :: l2) z) by (intros z; apply degree_sim; exact HS).
    apply Forall2_app_inv_l in HS. destruct HS as [l1' [r' [HS1 [HS2 ->]]]].
    inversion HS2 as [|a e' b l2' [Hl Hc] HS3]; subst.
    destruct (leaf_cases _ _ Hdeg) as [z [Hz Hd]].
    apply (is_forest_mid_z _ _ _ z).
    + rewrite Hl. exact Hloop.
    + apply contrib_pos_incident. rewrite Hc. apply contrib_incident. exact Hz.
    + rewrite (Hdg z). exact Hd.
    + apply IH. apply Forall2_app; assumption.
Qed.

Lemma Forall2_map_sim : forall (g : edge -> edge) L, (forall e, sim e (g e)) -> Forall2 sim L (map g L).
Proof. intros g L H; induction L; simpl; constructor; auto. Qed.

(* reversing the forest arcs selected by fl *)
Section FlipRows.
Variable fl : edge -> bool.

Definition fg (e : edge) : edge := if fl e then flip e else e.
Definition fstep (q : edge * bool) : edge * bool := (fg (fst q), if fl (fst q) then negb (snd q) else snd q).

Lemma fg_id : forall e, e_id (fg e) = e_id e.
Proof. intros e. unfold fg. destruct (fl e); reflexivity. Qed.

Lemma fg_sim : forall e, sim e (fg e).
Proof. intros e. unfold fg. destruct (fl e); [apply sim_flip | apply sim_refl]. Qed.

Lemma fstep_next : forall e (b : bool),
  (if (if fl e then negb b else b) then e_v (fg e) else e_u (fg e)) = (if b then e_v e else e_u e).
Proof. intros e b. unfold fg. destruct (fl e), b; reflexivity. Qed.

Lemma fstep_nodes : forall p x, walk_nodes x (map fstep p) = walk_nodes x p.
Proof.
  induction p as [|[e b] p IH]; intros x; [reflexivity|].
  simpl map. unfold fstep at 1. simpl fst; simpl snd. cbn [walk_nodes].
  rewrite fstep_next, IH. reflexivity.
Qed.

Lemma fstep_walk : forall T x y p, is_walk T x y p -> is_walk (map fg T) x y (map fstep p).
Proof.
  intros T x y p H; induction H as [x|x y e fwd p Hin Hs Hw IH]; [constructor|].
  simpl map. unfold fstep at 1. simpl fst; simpl snd. apply walk_cons.
  - apply in_map. exact Hin.
  - unfold fg. destruct (fl e), fwd; simpl; exact Hs.
  - rewrite fstep_next. exact IH.
Qed.

Lemma fstep_in : forall T x y p e b, NoDup (map e_id T) -> is_walk T x y p -> In e T ->
  (In (fg e, b) (map fstep p) <-> In (e, if negb (fl e) then b else negb b) p).
Proof.
  intros T x y p e b HT Hw He. rewrite in_map_iff. split.
  - intros [[a c] [E Hq]]. unfold fstep in E. simpl in E. inversion E as [[E1 E2]].
    assert (a = e).
    { apply (NoDup_map_inj _ _ e_id T); auto; [apply (is_walk_edges _ _ _ _ Hw (a, c) Hq)|].
      rewrite <- (fg_id a), <- (fg_id e), E1. reflexivity. }
    subst a. destruct (fl e); simpl; [rewrite negb_involutive|]; exact Hq.
  - intros H. eexists; split; [|exact H]. unfold fstep. simpl. f_equal.
    destruct (fl e); simpl; [rewrite negb_involutive|]; reflexivity.
Qed.

End FlipRows.

Lemma nth_id_inj : forall T i i', NoDup (map e_id T) -> i < length T -> i' < length T ->
  e_id (nth i T dflt) = e_id (nth i' T dflt) -> i = i'.
Proof.
  intros T i i' H Hi Hi' E.
  apply (proj1 (NoDup_nth (map e_id T) (e_id dflt)) H); try (rewrite map_length; assumption).
  rewrite !(map_nth e_id). exact E.
Qed.

Lemma NetworkP_rowscale_ext : forall m n M M' (rsb : nat -> bool),
  NetworkP m n M ->
  (forall i j, i < m -> j < n -> get M' i j = if rsb i then get M i j else (- get M i j)%Z) ->
  NetworkP m n M'.
Proof.
  intros m n M M' rsb HG Hent. apply NetworkP_iff in HG. apply NetworkP_iff.
  destruct HG as [T [H1 [H3 [H4 H5]]]].
  set (fl := fun e => existsb (fun i => Nat.eqb (e_id (nth i T dflt)) (e_id e) && negb (rsb i)) (iota 0 m)).
  assert (Hfl : forall i, i < m -> negb (fl (nth i T dflt)) = rsb i).
  { intros i Hi. destruct (fl (nth i T dflt)) eqn:F; simpl.
    - unfold fl in F. apply existsb_exists in F. destruct F as [i' [Hi' F]].
      apply in_iota in Hi'. apply andb_true_iff in F. destruct F as [F1 F2].
      apply Nat.eqb_eq in F1. apply nth_id_inj in F1; auto; try lia. subst i'.
      apply negb_true_iff in F2. auto.
    - destruct (rsb i) eqn:R; auto. exfalso.
      assert (fl (nth i T dflt) = true); [|congruence].
      unfold fl. apply existsb_exists. exists i. split; [apply in_iota; lia|].
      rewrite Nat.eqb_refl, R. reflexivity. }
  set (T' := map (fg fl) T).
  assert (Hnth : forall i, i < m -> nth i T' dflt = fg fl (nth i T dflt)).
  { intros i Hi. unfold T'. rewrite (nth_indep _ dflt (fg fl dflt)) by (rewrite map_length; lia).
    apply map_nth. }
  exists T'. split; [|split; [|split]].
  - unfold T'. rewrite map_length. exact H1.
  - unfold T'. rewrite map_map. rewrite (map_ext _ e_id); [exact H3 | intros; apply fg_id].
  - apply (is_forest_sim T H4). apply Forall2_map_sim. apply fg_sim.
  - intros j Hj. destruct (H5 j Hj) as [x [y [p [[Hw Hnd] He]]]].
    exists x, y, (map (fstep fl) p).
    split; [split; [apply fstep_walk; exact Hw | rewrite fstep_nodes; exact Hnd]|].
    intros i Hi. rewrite Hent, Hnth by assumption. rewrite <- (Hfl i Hi).
    apply (sgn_transfer (get M i j) (nth i T dflt) p (negb (fl (nth i T dflt)))); [apply He; exact Hi|].
    intros b. apply (fstep_in fl T x y); auto. apply nth_In. lia.
Qed.

Lemma NetworkP_scale_ext : forall m n M M' (rs cs : nat -> Z),
  NetworkP m n M ->
  (forall i, i < m -> rs i = 1%Z \/ rs i = (-1)%Z) -> (forall j, j < n -> cs j = 1%Z \/ cs j = (-1)%Z) ->
  (forall i j, i < m -> j < n -> get M' i j = (rs i * cs j * get M i j)%Z) ->
  NetworkP m n M'.
Proof.
  intros m n M M' rs cs HG Hrs Hcs Hent.
  set (M1 := mk_mat m n (fun i j => (rs i * get M i j)%Z)).
  assert (H1 : NetworkP m n M1).
  { apply (NetworkP_rowscale_ext m n M M1 (fun i => Z.eqb (rs i) 1) HG).
    intros i j Hi Hj. unfold M1. rewrite get_mk_mat by assumption.
    destruct (Hrs i Hi) as [E|E]; rewrite E; destruct (get M i j); reflexivity. }
  apply (NetworkP_cols_sgn_ext m n M1 n M' (fun j => j) (fun j => Z.eqb (cs j) 1) H1); auto.
  intros i j Hi Hj. rewrite Hent by assumption. unfold M1. rewrite get_mk_mat by assumption.
  destruct (Hcs j Hj) as [E|E]; rewrite E; [change (1 =? 1)%Z with true | change (-1 =? 1)%Z with false];
    cbv iota; ring.
Qed.

Lemma nthZ_forallb_len : forall (p : Z -> bool) l i, forallb p l = true -> i < length l -> p (nthZ l i) = true.
Proof.
  intros p; induction l as [|x l IH]; intros i H Hi; simpl in Hi; [lia|].
  simpl in H. apply andb_true_iff in H. destruct H as [Hx Hl].
  destruct i; simpl; auto. apply IH; auto. lia.
Qed.

Lemma pm1_cases : forall l i, forallb is_pm1' l = true -> i < length l -> nthZ l i = 1%Z \/ nthZ l i = (-1)%Z.
Proof.
  intros l i H Hi. pose proof (nthZ_forallb_len is_pm1' l i H Hi) as E.
  unfold is_pm1' in E. apply orb_true_iff in E. rewrite !Z.eqb_eq in E. exact E.
Qed.

(* kind 2 of judge_rel: M' = mk_mat m n (fun i j => p1_i * p2_j * M i j) *)
Theorem NetworkP_scale : forall m n M p1 p2, wf_mat m n M = true ->
  length p1 = m -> length p2 = n -> forallb is_pm1' p1 = true -> forallb is_pm1' p2 = true ->
  (NetworkP m n M <-> NetworkP m n (mk_mat m n (fun i j => (nthZ p1 i * nthZ p2 j * get M i j)%Z))).
Proof.
  intros m n M p1 p2 _ Hl1 Hl2 Hp1 Hp2.
  assert (Hrs : forall i, i < m -> nthZ p1 i = 1%Z \/ nthZ p1 i = (-1)%Z).
  { intros i Hi. apply pm1_cases; auto. lia. }
  assert (Hcs : forall j, j < n -> nthZ p2 j = 1%Z \/ nthZ p2 j = (-1)%Z).
  { intros j Hj. apply pm1_cases; auto. lia. }
  split; intros HG.
  - apply (NetworkP_scale_ext m n M _ (nthZ p1) (nthZ p2) HG Hrs Hcs).
    intros i j Hi Hj. apply get_mk_mat; assumption.
  - apply (NetworkP_scale_ext m n _ M (nthZ p1) (nthZ p2) HG Hrs Hcs).
    intros i j Hi Hj. rewrite get_mk_mat by assumption.
    destruct (Hrs i Hi) as [E1|E1]; destruct (Hcs j Hj) as [E2|E2]; rewrite E1, E2; lia.
Qed.
Print Assumptions NetworkP_scale.

(* ------------------------------------------------------------------------------------------ *)
(* 4. Adding a column: zero, (signed) unit, (signed) copy                                        *)
(* ------------------------------------------------------------------------------------------ *)

Lemma get_ternary' : forall M i j, is_ternary M = true ->
  (get M i j = 0 \/ get M i j = 1 \/ get M i j = -1)%Z.
Proof.
  intros M i j H.
  assert (E : is_ternary_entry (get M i j) = true).
  { unfold get. apply nthZ_forallb; [reflexivity|].
    apply (nthR_forallb (forallb is_ternary_entry)); [reflexivity | exact H]. }
  unfold is_ternary_entry in E. rewrite !orb_true_iff, !Z.eqb_eq in E. tauto.
Qed.

Lemma NetworkP_addcol_ext : forall m n M M' k,
  NetworkP m n M -> k <= n ->
  (forall i j, i < m -> j < n -> get M' i (skipidx k j) = get M i j) ->
  (forall i, i < m -> (get M' i k = 0 \/ get M' i k = 1 \/ get M' i k = -1)%Z) ->
  ((forall i1 i2, i1 < m -> i2 < m -> get M' i1 k <> 0%Z -> get M' i2 k <> 0%Z -> i1 = i2) \/
   (exists c (sb : bool), c < S n /\ c <> k /\
      forall i, i < m -> get M' i k = if sb then get M' i c else (- get M' i c)%Z)) ->
  NetworkP m (S n) M'.
Proof.
  intros m n M M' k HG Hk Hent Htern Hred. apply NetworkP_iff in HG. apply NetworkP_iff.
  destruct HG as [T [H1 [H3 [H4 H5]]]]. exists T. repeat (split; auto).
  assert (Hold : forall j, j < S n -> j <> k -> ncol_ok m M' T j).
  { intros j Hj Ne. destruct (H5 (unskip k j)) as [x [y [p [Hsp He]]]].
    { replace n with (S n - 1) by lia. apply unskip_lt; lia. }
    exists x, y, p. split; auto. intros i Hi.
    rewrite <- (skip_unskip k j Ne). rewrite Hent; auto.
    replace n with (S n - 1) by lia. apply unskip_lt; lia. }
  intros j Hj. destruct (Nat.eq_dec j k) as [->|Ne]; [|apply Hold; auto].
  destruct Hred as [Huniq|[c [sb [Hc [Nc Hcopy]]]]].
  - destruct (bounded_dec (fun i => get M' i k <> 0%Z) m) as [[i1 [Hi1 Hnz]]|Hz].
    { intros i. destruct (Z.eq_dec (get M' i k) 0); [right; intros H; apply H; assumption | left; assumption]. }
    + (* unit column: parallel (b = true) or antiparallel (b = false) to the forest arc of row i1 *)
      set (e := nth i1 T dflt).
      assert (HeT : In e T) by (apply nth_In; lia).
      assert (Hnl : e_u e <> e_v e).
      { pose proof (is_forest_noloop T H4 e HeT) as Hl. unfold is_loop in Hl. apply Nat.eqb_neq in Hl. exact Hl. }
      assert (Hb : exists b : bool, get M' i1 k = if b then 1%Z else (-1)%Z).
      { destruct (Htern i1 Hi1) as [E|[E|E]]; [contradiction | exists true; exact E | exists false; exact E]. }
      destruct Hb as [b Hb].
      exists (if b then e_u e else e_v e), (if b then e_v e else e_u e), [(e, b)]. split.
      * split.
        -- apply walk_cons; [exact HeT | destruct b; reflexivity | constructor].
        -- simpl. constructor; [intros [E|[]]; destruct b; congruence|]. constructor; [intros []|constructor].
      * intros i Hi. destruct (Nat.eq_dec i i1) as [->|Ni].
        -- rewrite Hb. fold e. apply sgn_ok_head. intros [].
        -- assert (E0 : get M' i k = 0%Z).
           { destruct (Z.eq_dec (get M' i k) 0) as [?|N]; auto. exfalso. apply Ni. apply Huniq; auto. }
           rewrite E0. apply sgn_ok_zero. simpl. intros [E|[]]. apply Ni. symmetry.
           apply (proj1 (NoDup_nth T dflt) (NoDup_map_NoDup _ _ e_id T H3)); try lia. exact E.
    + exists 0, 0, []. split.
      * split; [constructor|]. simpl. constructor; [intros []|constructor].
      * intros i Hi. assert (E0 : get M' i k = 0%Z).
        { destruct (Z.eq_dec (get M' i k) 0) as [?|N]; auto. exfalso. apply (Hz i Hi N). }
        rewrite E0. apply sgn_ok_zero. intros [].
  - destruct (Hold c Hc Nc) as [x [y [p [Hsp He]]]]. destruct sb.
    + exists x, y, p. split; auto. intros i Hi. rewrite Hcopy by exact Hi. apply He. exact Hi.
    + exists y, x, (rev_path p). split; [apply simple_path_rev; exact Hsp|].
      intros i Hi. rewrite Hcopy by exact Hi.
      apply (sgn_transfer (get M' i c) (nth i T dflt) p false (nth i T dflt) (rev_path p));
        [apply He; exact Hi|]. intros b. apply in_rev_path.
Qed.

(* ------------------------------------------------------------------------------------------ *)
(* 5. (c) deleting a row = contracting its forest arc; submatrices                               *)
(* ------------------------------------------------------------------------------------------ *)

Lemma con_path_steps : forall e r p a b, a <> e ->
  (forall a', In a' (map fst p) -> e_id a' = e_id a -> a' = a) ->
  (In (ren r a, b) (con_path e r p) <-> In (a, b) p).
Proof.
  intros e r p a b Ne Hinj. unfold con_path. rewrite in_map_iff. split.
  - intros [[a' c] [E Hq]]. simpl in E. apply filter_In in Hq. destruct Hq as [Hq _].
    assert (E1 : e_id a' = e_id a) by (apply (f_equal (fun q => e_id (fst q))) in E; exact E).
    assert (E2 : c = b) by (apply (f_equal snd) in E; exact E).
    assert (a' = a).
    { apply Hinj; [apply in_map_iff; exists (a', c); auto | exact E1]. }
    subst a' c. exact Hq.
  - intros H. exists (a, b). split; [reflexivity|]. apply filter_In. split; auto.
    unfold keep_step. simpl. destruct (edge_eq_dec a e); [contradiction | reflexivity].
Qed.

Lemma NetworkP_delrow_ext : forall m n M M' k,
  NetworkP m n M -> k < m ->
  (forall i j, i < m - 1 -> j < n -> get M' i j = get M (skipidx k i) j) ->
  NetworkP (m - 1) n M'.
Proof.
  intros m n M M' k HG Hk Hent. apply NetworkP_iff in HG. apply NetworkP_iff.
  destruct HG as [T [H1 [H3 [H4 H5]]]].
  set (e := nth k T dflt).
  set (r := fun x => if Nat.eqb x (e_v e) then e_u e else x).
  set (R := remove_at k T).
  set (T' := map (ren r) R).
  assert (HndT : NoDup T) by (eapply NoDup_map_NoDup; eauto).
  assert (HP : Permutation T (e :: R)) by (apply perm_remove; lia).
  assert (Hruv : r (e_u e) = r (e_v e)).
  { unfold r. rewrite Nat.eqb_refl. destruct (Nat.eqb_spec (e_u e) (e_v e)); reflexivity. }
  assert (Hrspec : forall x y, r x = r y -> x = y \/ (incident e x = true /\ incident e y = true)).
  { intros x y. unfold r. rewrite !incident_iff.
    destruct (Nat.eqb_spec x (e_v e)); destruct (Nat.eqb_spec y (e_v e)); intros E; subst; auto. }
  assert (HF' : is_forest T') by (apply (is_forest_contract T H4 e R r HP Hrspec)).
  assert (HidR : map e_id T' = map e_id R).
  { unfold T'. rewrite map_map. apply map_ext. reflexivity. }
  assert (HN' : NoDup (map e_id T')).
  { rewrite HidR. pose proof (Permutation_NoDup (Permutation_map e_id HP) H3) as Hn.
    simpl in Hn. apply NoDup_cons_iff in Hn. apply Hn. }
  assert (HlenR : length R = m - 1) by (unfold R; rewrite length_remove; lia).
  assert (Hnth : forall i, i < m - 1 -> nth i T' dflt = ren r (nth (skipidx k i) T dflt)).
  { intros i Hi. unfold T'. rewrite (nth_indep _ dflt (ren r dflt)) by (rewrite map_length; lia).
    rewrite map_nth. unfold R. rewrite nth_remove. reflexivity. }
  assert (HinT' : forall a, In a T -> a <> e -> In (ren r a) T').
  { intros a Ha Ne. unfold T'. apply in_map. apply (Permutation_in _ HP) in Ha.
    destruct Ha as [E|Ha]; [congruence | exact Ha]. }
  exists T'. split; [|split; [|split]]; auto.
  - unfold T'. rewrite map_length. exact HlenR.
  - intros j Hj. destruct (H5 j Hj) as [x [y [p [Hsp He]]]].
    pose proof (simple_path_NoDup_ids _ _ _ _ H3 Hsp) as Hndp. destruct Hsp as [Hw Hndn].
    apply (ncol_ok_intro (m - 1) M' T' j (r x) (r y) (con_path e r p)); auto.
    + apply (con_path_walk e r Hruv T T'); auto.
    + apply con_path_ids. exact Hndp.
    + intros i Hi. pose proof (skipidx_lt m k i Hk Hi) as Hs.
      rewrite Hent, Hnth by assumption.
      set (a := nth (skipidx k i) T dflt).
      assert (HaT : In a T) by (apply nth_In; lia).
      assert (Hae : a <> e).
      { intros E. apply (skipidx_neq k i).
        apply (proj1 (NoDup_nth T dflt) HndT); try lia. exact E. }
      apply (sgn_transfer (get M (skipidx k i) j) a p true (ren r a) (con_path e r p)); [apply He; exact Hs|].
      intros b. apply con_path_steps; auto.
      intros a' Ha' E. apply (NoDup_map_inj _ _ e_id T); auto. eapply path_edges_in_T; eauto.
Qed.

Theorem NetworkP_delete_row : forall m n M k, wf_mat m n M = true -> k < m ->
  NetworkP m n M -> NetworkP (m - 1) n (submat M (keep_line m k) (iota 0 n)).
Proof.
  intros m n M k _ Hk HG. apply (NetworkP_delrow_ext m n M _ k); auto.
  intros i j Hi Hj. apply get_drop_row'; auto.
Qed.
Print Assumptions NetworkP_delete_row.

Lemma NetworkP_rows_gen : forall d m n M rs,
  length rs + d = m -> NoDup rs -> (forall x, In x rs -> x < m) -> NetworkP m n M ->
  forall M', (forall i j, i < length rs -> j < n -> get M' i j = get M (nth i rs 0) j) ->
  NetworkP (length rs) n M'.
Proof.
  induction d as [|d IH]; intros m n M rs Hlen Hnd Hlt HG M' Hent.
  - assert (HP : Permutation rs (iota 0 m)).
    { apply NoDup_Permutation_bis; auto.
      - rewrite length_iota. lia.
      - intros x Hx. apply in_iota. specialize (Hlt x Hx). lia. }
    replace (length rs) with m by lia.
    apply (NetworkP_rowperm_ext m n M M' rs); auto; [lia|].
    intros i j Hi Hj. apply Hent; auto. lia.
  - destruct (bounded_dec (fun k => ~ In k rs) m) as [[k [Hk Hnk]]|Hall].
    { intros k. destruct (in_dec Nat.eq_dec k rs); [right; intros H; apply H; assumption | left; assumption]. }
    + set (M1 := submat M (keep_line m k) (iota 0 n)).
      assert (HG1 : NetworkP (m - 1) n M1).
      { apply (NetworkP_delrow_ext m n M M1 k); auto.
        intros i j Hi Hj. apply get_drop_row'; auto. }
      set (rs1 := map (unskip k) rs).
      assert (Hl1 : length rs1 = length rs) by (unfold rs1; apply map_length).
      assert (Hne : forall x, In x rs -> x <> k) by (intros x Hx E; subst; contradiction).
      rewrite <- Hl1. apply (IH (m - 1) n M1 rs1).
      * lia.
      * unfold rs1. apply NoDup_map_inj_in; auto. intros a b Ha Hb E.
        rewrite <- (skip_unskip k a (Hne a Ha)), <- (skip_unskip k b (Hne b Hb)), E. reflexivity.
      * intros x Hx. unfold rs1 in Hx. apply in_map_iff in Hx. destruct Hx as [a [<- Ha]].
        apply unskip_lt; auto.
      * exact HG1.
      * intros i j Hi Hj. rewrite Hl1 in Hi. rewrite Hent by assumption.
        assert (Ha : In (nth i rs 0) rs) by (apply nth_In; exact Hi).
        assert (E1 : nth i rs1 0 = unskip k (nth i rs 0)).
        { unfold rs1. rewrite (nth_indep _ 0 (unskip k 0)) by (rewrite map_length; exact Hi).
          apply map_nth. }
        rewrite E1. unfold M1. rewrite get_drop_row'; auto.
        -- rewrite skip_unskip; auto.
        -- apply unskip_lt; auto.
    + exfalso.
      assert (Hincl : incl (iota 0 m) rs).
      { intros x Hx. apply in_iota in Hx. destruct (in_dec Nat.eq_dec x rs) as [?|N]; auto.
        exfalso. apply (Hall x); [lia | exact N]. }
      pose proof (NoDup_incl_length (NoDup_iota m 0) Hincl) as Hle. rewrite length_iota in Hle. lia.
Qed.

Theorem NetworkP_submat_gen : forall m n M rs cs, wf_mat m n M = true ->
  nodupn rs = true -> all_lt m rs = true -> all_lt n cs = true ->
  NetworkP m n M -> NetworkP (length rs) (length cs) (submat M rs cs).
Proof.
  intros m n M rs cs _ Hnd Hr Hc HG.
  apply nodupn_NoDup in Hnd. rewrite BalancedProofs.all_lt_spec in Hr, Hc.
  assert (Hle : length rs <= m).
  { assert (Hincl : incl rs (iota 0 m)).
    { intros x Hx. apply in_iota. specialize (Hr x Hx). lia. }
    pose proof (NoDup_incl_length Hnd Hincl) as H. rewrite length_iota in H. exact H. }
  assert (HG1 : NetworkP (length rs) n (submat M rs (iota 0 n))).
  { apply (NetworkP_rows_gen (m - length rs) m n M rs); auto; [lia|].
    intros i j Hi Hj. rewrite SpProofs2.get_submat by (rewrite ?length_iota; assumption).
    rewrite RelProofs.nth_iota by assumption. reflexivity. }
  apply (NetworkP_cols_ext (length rs) n _ (length cs) _ (fun j => nth j cs 0) HG1).
  - intros j Hj. apply Hc. apply nth_In. exact Hj.
  - intros i j Hi Hj.
    assert (Hcj : nth j cs 0 < n) by (apply Hc; apply nth_In; exact Hj).
    rewrite !SpProofs2.get_submat by (rewrite ?length_iota; assumption).
    rewrite RelProofs.nth_iota by assumption. reflexivity.
Qed.
Print Assumptions NetworkP_submat_gen.

Theorem NetworkP_submat : forall m n M rs cs, wf_mat m n M = true ->
  strictly_increasing rs = true -> strictly_increasing cs = true ->
  all_lt m rs = true -> all_lt n cs = true ->
  NetworkP m n M -> NetworkP (length rs) (length cs) (submat M rs cs).
Proof.
  intros m n M rs cs Hwf Hsr _ Hr Hc HG.
  apply (NetworkP_submat_gen m n M rs cs); auto. apply BalancedProofs.si_nodupn. exact Hsr.
Qed.
Print Assumptions NetworkP_submat.

(* ------------------------------------------------------------------------------------------ *)
(* 6. Adding a row: zero / signed unit (pendant arc), signed copy (subdivision)                  *)
(* ------------------------------------------------------------------------------------------ *)

Lemma sgn_ok_skip_head : forall v e p e' (b' : bool), e <> e' -> sgn_ok v e p -> sgn_ok v e ((e', b') :: p).
Proof.
  intros v e p e' b' Ne H.
  apply (sgn_transfer v e p true e ((e', b') :: p) H).
  intros b. simpl. split; [intros [E|E]; [inversion E; congruence | exact E] | auto].
Qed.

(* the pendant arc joins w to the fresh node z; it is traversed from z to w with direction flag b0 *)
Lemma npendant_rep : forall m n M M' T k j0 w z idn (b0 : bool),
  nforest_rep m n M T -> k <= m ->
  (forall i j, i < m -> j < n -> get M' (skipidx k i) j = get M i j) ->
  (forall e, In e T -> e_u e <> z /\ e_v e <> z) -> w <> z -> ~ In idn (map e_id T) ->
  (forall j, j < n -> j <> j0 -> get M' k j = 0%Z) ->
  (j0 < n -> get M' k j0 = (if b0 then 1 else -1)%Z /\ exists y p, simple_path T w y p /\
             forall i, i < m -> sgn_ok (get M i j0) (nth i T dflt) p) ->
  nforest_rep (S m) n M'
    (insert_at k {| e_id := idn; e_u := if b0 then z else w; e_v := if b0 then w else z |} T).
Proof.
  intros m n M M' T k j0 w z idn b0 [H1 [H3 [H4 H5]]] Hk Hent Hfr Hwz Hid Hrow0 Hrow1.
  set (enew := {| e_id := idn; e_u := if b0 then z else w; e_v := if b0 then w else z |}).
  set (T' := insert_at k enew T).
  assert (HP : Permutation T' (enew :: T)) by apply perm_insert.
  assert (HnT : ~ In enew T).
  { intros H. apply Hid. change idn with (e_id enew). apply in_map. exact H. }
  assert (HF' : is_forest T').
  { apply (is_forest_perm (enew :: T)); [|apply Permutation_sym; exact HP].
    apply (is_forest_cons_z _ _ z); auto.
    - unfold is_loop, enew; simpl. apply Nat.eqb_neq. destruct b0; congruence.
    - apply incident_iff. unfold enew; simpl. destruct b0; auto.
    - rewrite degree_cons, (degree_fresh T z Hfr). unfold enew, contrib; simpl.
      destruct b0; rewrite Nat.eqb_refl; apply Nat.eqb_neq in Hwz; rewrite Hwz; reflexivity. }
  assert (HN' : NoDup (map e_id T')).
  { eapply Permutation_NoDup; [apply Permutation_map, Permutation_sym, HP|].
    simpl. constructor; auto. }
  assert (Hincl : forall e, In e T -> In e T').
  { intros e He. eapply Permutation_in; [apply Permutation_sym; exact HP | right; exact He]. }
  assert (HinN : In enew T').
  { eapply Permutation_in; [apply Permutation_sym; exact HP | left; reflexivity]. }
  assert (Hnk : nth k T' dflt = enew) by (apply nth_insert_k; lia).
  assert (Hns : forall i, nth (skipidx k i) T' dflt = nth i T dflt) by (intros i; apply nth_insert_skip; lia).
  split; [|split; [|split]]; auto.
  - unfold T'. rewrite length_insert. lia.
  - intros j Hj. destruct (Nat.eq_dec j j0) as [->|Ne].
    + destruct (Hrow1 Hj) as [Hk1 [y [p [Hsp He]]]].
      pose proof (simple_path_NoDup_ids _ _ _ _ H3 Hsp) as Hndp. destruct Hsp as [Hw Hndn].
      assert (HnP : ~ In enew (map fst p)).
      { intros H. apply HnT. eapply path_edges_in_T; eauto. }
      apply (ncol_ok_intro (S m) M' T' j0 z y ((enew, b0) :: p)); auto.
      * apply walk_cons; auto; [unfold enew; destruct b0; reflexivity|].
        replace (if b0 then e_v enew else e_u enew) with w by (unfold enew; destruct b0; reflexivity).
        eapply is_walk_incl; [|exact Hw].
        intros q Hq. apply Hincl. eapply is_walk_edges; eauto.
      * simpl. constructor; auto. intros Hi. apply Hid. eapply step_ids_in_T; eauto.
      * intros i' Hi'. destruct (index_cases m k i' Hi' Hk) as [->|[i [Hi ->]]].
        -- rewrite Hnk, Hk1. apply sgn_ok_head. exact HnP.
        -- rewrite Hns, Hent by assumption. apply sgn_ok_skip_head; [|apply He; exact Hi].
           intros E. apply HnT. rewrite <- E. apply nth_In. lia.
    + destruct (H5 j Hj) as [x [y [p [[Hw Hndn] He]]]]. exists x, y, p. split.
      * split; auto. eapply is_walk_incl; [|exact Hw].
        intros q Hq. apply Hincl. eapply is_walk_edges; eauto.
      * intros i' Hi'. destruct (index_cases m k i' Hi' Hk) as [->|[i [Hi ->]]].
        -- rewrite Hnk, (Hrow0 j Hj Ne). apply sgn_ok_zero.
           intros H. apply HnT. eapply path_edges_in_T; eauto.
        -- rewrite Hns, Hent by assumption. apply He. exact Hi.
Qed.

Lemma NetworkP_addrow_pendant_ext : forall m n M M' k,
  NetworkP m n M -> k <= m ->
  (forall i j, i < m -> j < n -> get M' (skipidx k i) j = get M i j) ->
  (forall j, j < n -> (get M' k j = 0 \/ get M' k j = 1 \/ get M' k j = -1)%Z) ->
  (forall j1 j2, j1 < n -> j2 < n -> get M' k j1 <> 0%Z -> get M' k j2 <> 0%Z -> j1 = j2) ->
  NetworkP (S m) n M'.
Proof.
  intros m n M M' k HG Hk Hent Htern Huniq. apply NetworkP_iff in HG. apply NetworkP_iff.
  destruct HG as [T HR].
  pose proof HR as [H1 [H3 [H4 H5]]].
  destruct (bounded_dec (fun j => get M' k j <> 0%Z) n) as [[j0 [Hj0 Hnz]]|Hz].
  { intros j. destruct (Z.eq_dec (get M' k j) 0); [right; intros H; apply H; assumption | left; assumption]. }
  - destruct (H5 j0 Hj0) as [x [y [p [Hsp He]]]].
    assert (Hb : exists b : bool, get M' k j0 = if b then 1%Z else (-1)%Z).
    { destruct (Htern j0 Hj0) as [E|[E|E]]; [contradiction | exists true; exact E | exists false; exact E]. }
    destruct Hb as [b0 Hb].
    eexists. apply (npendant_rep m n M M' T k j0 x (node_bound T + S x) (id_bound T) b0); auto.
    + apply node_bound_fresh. lia.
    + lia.
    + apply id_bound_fresh.
    + intros j Hj Ne. destruct (Z.eq_dec (get M' k j) 0) as [?|N]; auto. exfalso. apply Ne. apply Huniq; auto.
    + intros _. split; [exact Hb|]. exists y, p. split; auto.
  - eexists. apply (npendant_rep m n M M' T k n (S (node_bound T)) (node_bound T) (id_bound T) true); auto.
    + apply node_bound_fresh. lia.
    + apply id_bound_fresh.
    + intros j Hj _. destruct (Z.eq_dec (get M' k j) 0) as [?|N]; auto. exfalso. apply (Hz j Hj N).
    + intros H. lia.
Qed.

(* signed substitution of the two halves of a subdivided arc *)
Section SSubPath.
Variables e0 e1 e2 : edge.
Variable sb : bool.   (* true: the second half points the same way as e0 *)

Definition ssub_step (q : edge * bool) : list (edge * bool) :=
  if edge_eq_dec (fst q) e0
  then (if snd q then [(e1, true); (e2, sb)] else [(e2, negb sb); (e1, false)])
  else [q].
Definition ssub_path (p : list (edge * bool)) : list (edge * bool) := flat_map ssub_step p.

Hypothesis Hu1 : e_u e1 = e_u e0.
Hypothesis Hmid : (if sb then e_u e2 else e_v e2) = e_v e1.
Hypothesis Hend : (if sb then e_v e2 else e_u e2) = e_v e0.
Hypothesis Hid1 : e_id e1 = e_id e0.

Lemma ssub_path_walk : forall L L' x y p, is_walk L x y p ->
  In e1 L' -> In e2 L' -> (forall e, In e L -> e <> e0 -> In e L') ->
  is_walk L' x y (ssub_path p).
Proof.
  intros L L' x y p H I1 I2 Hother; induction H as [x|x y e fwd p Hin Hs Hw IH]; [constructor|].
  unfold ssub_path. simpl flat_map. fold (ssub_path p). unfold ssub_step at 1. simpl fst. simpl snd.
  destruct (edge_eq_dec e e0) as [E|E].
  - subst e. destruct fwd; simpl app; simpl in Hs, IH.
    + apply walk_cons; [exact I1 | simpl; congruence | simpl].
      apply walk_cons; [exact I2 | destruct sb; simpl in *; congruence |].
      rewrite Hend. exact IH.
    + apply walk_cons; [exact I2 | destruct sb; simpl in *; congruence |].
      replace (if negb sb then e_v e2 else e_u e2) with (e_v e1) by (destruct sb; simpl in *; congruence).
      apply walk_cons; [exact I1 | simpl; reflexivity | simpl]. rewrite Hu1. exact IH.
  - simpl app. apply walk_cons; auto.
Qed.

Lemma ssub_path_ids_in : forall p i, In i (step_ids (ssub_path p)) -> i = e_id e2 \/ In i (step_ids p).
Proof.
  induction p as [|[e b] p IH]; intros i Hi; [destruct Hi|].
  unfold ssub_path in Hi. simpl flat_map in Hi. fold (ssub_path p) in Hi. unfold step_ids in Hi.
  rewrite map_app in Hi. apply in_app_or in Hi. destruct Hi as [Hi|Hi].
  - unfold ssub_step in Hi. simpl fst in Hi. simpl snd in Hi.
    destruct (edge_eq_dec e e0) as [E|E].
    + subst e. destruct b; simpl in Hi; destruct Hi as [Hi|[Hi|[]]]; subst i; auto;
        right; left; simpl; congruence.
    + simpl in Hi. destruct Hi as [Hi|[]]. right. left. exact Hi.
  - destruct (IH i Hi) as [?|?]; auto. right. right. assumption.
Qed.

Lemma ssub_path_id2_in : forall p, In (e_id e2) (step_ids (ssub_path p)) ->
  In (e_id e0) (step_ids p) \/ In (e_id e2) (step_ids p).
Proof.
  induction p as [|[e b] p IH]; intros Hi; [destruct Hi|].
  unfold ssub_path in Hi. simpl flat_map in Hi. fold (ssub_path p) in Hi. unfold step_ids in Hi.
  rewrite map_app in Hi. apply in_app_or in Hi. destruct Hi as [Hi|Hi].
  - unfold ssub_step in Hi. simpl fst in Hi. simpl snd in Hi.
    destruct (edge_eq_dec e e0) as [E|E].
    + subst e. left. left. reflexivity.
    + simpl in Hi. destruct Hi as [Hi|[]]. right. left. exact Hi.
  - destruct (IH Hi) as [?|?]; [left|right]; right; assumption.
Qed.

Lemma ssub_path_NoDup_ids : forall p, NoDup (step_ids p) -> ~ In (e_id e2) (step_ids p) ->
  e_id e2 <> e_id e0 -> NoDup (step_ids (ssub_path p)).
Proof.
  induction p as [|[e b] p IH]; intros Hnd Hn2 Hne; [constructor|].
  simpl in Hnd. apply NoDup_cons_iff in Hnd. destruct Hnd as [Hx Hnd].
  assert (Hn2' : ~ In (e_id e2) (step_ids p)) by (intros H; apply Hn2; right; exact H).
  specialize (IH Hnd Hn2' Hne).
  unfold ssub_path. simpl flat_map. fold (ssub_path p). unfold step_ids. rewrite map_app.
  fold (step_ids (ssub_path p)). unfold ssub_step. simpl fst. simpl snd.
  destruct (edge_eq_dec e e0) as [E|E].
  - subst e.
    assert (A0 : ~ In (e_id e0) (step_ids (ssub_path p))).
    { intros H. destruct (ssub_path_ids_in p _ H) as [H'|H']; [congruence | contradiction]. }
    assert (A2 : ~ In (e_id e2) (step_ids (ssub_path p))).
    { intros H. destruct (ssub_path_id2_in p H) as [H'|H']; contradiction. }
    destruct b; simpl; rewrite Hid1.
    + constructor; [intros [H|H]; [congruence | contradiction]|]. constructor; auto.
    + constructor; [intros [H|H]; [congruence | contradiction]|]. constructor; auto.
  - simpl. constructor; auto. intros H. destruct (ssub_path_ids_in p _ H) as [H'|H']; [|contradiction].
    apply Hn2. left. simpl. exact H'.
Qed.

Definition tw (b : bool) : bool := if sb then b else negb b.

Lemma ssub_step_in : forall a (c : bool) e (b : bool),
  In (e, b) (ssub_step (a, c)) <->
  ((a = e0 /\ ((e = e1 /\ b = c) \/ (e = e2 /\ c = tw b))) \/ (a <> e0 /\ e = a /\ b = c)).
Proof using.
  clear Hu1 Hmid Hend Hid1. intros a c e b. unfold ssub_step, tw. simpl fst. simpl snd.
  destruct (edge_eq_dec a e0) as [E|E].
  - destruct c, sb, b; simpl; intuition congruence.
  - simpl. intuition congruence.
Qed.

Lemma ssub_path_in : forall p e b,
  In (e, b) (ssub_path p) <->
  ((e = e1 /\ In (e0, b) p) \/ (e = e2 /\ In (e0, tw b) p) \/ (e <> e0 /\ In (e, b) p)).
Proof using.
  clear Hu1 Hmid Hend Hid1. induction p as [|[a c] p IH]; intros e b.
  - simpl. tauto.
  - unfold ssub_path. simpl flat_map. fold (ssub_path p). rewrite in_app_iff, IH, ssub_step_in.
    simpl. intuition congruence.
Qed.

End SSubPath.

Lemma Forall2_sim_refl : forall L, Forall2 sim L L.
Proof. induction L; constructor; auto. apply sim_refl. Qed.

Lemma ncopy_rep : forall m n M M' T k i0 (sb : bool),
  nforest_rep m n M T -> k <= m -> i0 < m ->
  (forall i j, i < m -> j < n -> get M' (skipidx k i) j = get M i j) ->
  (forall j, j < n -> get M' k j = if sb then get M i0 j else (- get M i0 j)%Z) ->
  exists T', nforest_rep (S m) n M' T'.
Proof.
  intros m n M M' T k i0 sb [H1 [H3 [H4 H5]]] Hk Hi0 Hent Hcopy.
  set (e0 := nth i0 T dflt).
  set (z := node_bound T).
  set (idn := id_bound T).
  set (e1 := {| e_id := e_id e0; e_u := e_u e0; e_v := z |}).
  set (e2 := {| e_id := idn; e_u := if sb then z else e_v e0; e_v := if sb then e_v e0 else z |}).
  set (g := fun e => if edge_eq_dec e e0 then e1 else e).
  set (T0 := map g T).
  set (T' := insert_at k e2 T0).
  assert (HndT : NoDup T) by (eapply NoDup_map_NoDup; eauto).
  assert (He0 : In e0 T) by (apply nth_In; lia).
  assert (Hfr : forall e, In e T -> e_u e <> z /\ e_v e <> z) by (apply node_bound_fresh; unfold z; lia).
  assert (Hn1 : ~ In e1 T). { intros H. destruct (Hfr e1 H) as [_ A]. apply A. reflexivity. }
  assert (Hidn : ~ In idn (map e_id T)) by apply id_bound_fresh.
  assert (Hn2 : ~ In e2 T). { intros H. apply Hidn. change idn with (e_id e2). apply in_map. exact H. }
  assert (Hne : e_id e2 <> e_id e0).
  { simpl. intros E. apply Hidn. rewrite E. apply in_map. exact He0. }
  assert (Hne12 : e1 <> e2). { intros E. apply Hne. rewrite <- E. reflexivity. }
  destruct (in_split _ _ He0) as [a [b Eab]].
  assert (Hnab : ~ In e0 (a ++ b)). { rewrite Eab in HndT. apply NoDup_remove_2 in HndT. exact HndT. }
  assert (Hga : forall l, ~ In e0 l -> map g l = l).
  { intros l Hl. rewrite <- (map_id l) at 2. apply map_ext_in. intros e He. unfold g.
    destruct (edge_eq_dec e e0) as [Q|Q]; [rewrite Q in He; contradiction | reflexivity]. }
  assert (ET0 : T0 = a ++ e1 :: b).
  { unfold T0. rewrite Eab, map_app. simpl map. rewrite !Hga.
    - unfold g. destruct (edge_eq_dec e0 e0); [reflexivity | congruence].
    - intros H. apply Hnab. apply in_or_app. right; exact H.
    - intros H. apply Hnab. apply in_or_app. left; exact H. }
  assert (HPT : Permutation T (e0 :: a ++ b)).
  { rewrite Eab. apply Permutation_sym, Permutation_middle. }
  assert (HP' : Permutation T' (e1 :: e2 :: a ++ b)).
  { apply perm_trans with (e2 :: T0); [apply perm_insert|].
    apply perm_trans with (e2 :: e1 :: a ++ b); [|apply perm_swap].
    apply perm_skip. rewrite ET0. apply Permutation_sym, Permutation_middle. }
  assert (HF' : is_forest T').
  { apply (is_forest_perm (e1 :: e2 :: a ++ b)); [|apply Permutation_sym; exact HP'].
    apply (is_forest_sim _ (is_forest_subdivide T H4 e0 (a ++ b) z idn HPT Hfr)).
    constructor; [apply sim_refl|]. constructor; [|apply Forall2_sim_refl].
    unfold e2. destruct sb; [apply sim_refl|].
    apply (sim_flip {| e_id := idn; e_u := z; e_v := e_v e0 |}). }
  assert (Hids0 : map e_id T0 = map e_id T).
  { unfold T0. rewrite map_map. apply map_ext. intros e. unfold g.
    destruct (edge_eq_dec e e0) as [Q|Q]; [rewrite Q; reflexivity | reflexivity]. }
  assert (HN' : NoDup (map e_id T')).
  { eapply Permutation_NoDup; [apply Permutation_map, Permutation_sym, perm_insert|].
    simpl. rewrite Hids0. constructor; auto. }
  assert (HlenT0 : length T0 = m) by (unfold T0; rewrite map_length; exact H1).
  assert (Hnk : nth k T' dflt = e2) by (apply nth_insert_k; lia).
  assert (Hns : forall i, i < m -> nth (skipidx k i) T' dflt = g (nth i T dflt)).
  { intros i Hi. unfold T'. rewrite nth_insert_skip by lia. unfold T0.
    rewrite (nth_indep _ dflt (g dflt)) by (rewrite map_length; lia). apply map_nth. }
  assert (HinT' : forall e, In e T' <-> e = e1 \/ e = e2 \/ In e (a ++ b)).
  { intros e. split.
    - intros H. apply (Permutation_in _ HP') in H. simpl in H. intuition.
    - intros H. apply (Permutation_in _ (Permutation_sym HP')). simpl. intuition. }
  assert (Hother : forall e, In e T -> e <> e0 -> In e T').
  { intros e He Ne. apply HinT'. right. right. apply (Permutation_in _ HPT) in He.
    destruct He as [E|He]; [congruence | exact He]. }
  exists T'. split; [|split; [|split]]; auto.
  - unfold T'. rewrite length_insert. lia.
  - intros j Hj. destruct (H5 j Hj) as [x [y [p [Hsp He]]]].
    pose proof (simple_path_NoDup_ids _ _ _ _ H3 Hsp) as Hndp. destruct Hsp as [Hw Hndn].
    assert (HpT : forall e c, In (e, c) p -> In e T).
    { intros e c H. apply (is_walk_edges _ _ _ _ Hw (e, c) H). }
    set (p' := ssub_path e0 e1 e2 sb p).
    assert (K1 : forall c, In (e1, c) p' <-> In (e0, c) p).
    { intros c. unfold p'. rewrite ssub_path_in. split.
      - intros [[_ H]|[[E _]|[_ H]]]; auto; [contradiction | apply HpT in H; contradiction].
      - intros H. left. split; [reflexivity | exact H]. }
    assert (K2 : forall c, In (e2, c) p' <-> In (e0, if sb then c else negb c) p).
    { intros c. unfold p'. rewrite ssub_path_in. unfold tw. split.
      - intros [[E _]|[[_ H]|[_ H]]]; auto; [symmetry in E; contradiction | apply HpT in H; contradiction].
      - intros H. right. left. split; [reflexivity | exact H]. }
    assert (K3 : forall e c, In e T -> e <> e0 -> (In (e, c) p' <-> In (e, c) p)).
    { intros e c HeT Ne0. unfold p'. rewrite ssub_path_in. split.
      - intros [[E _]|[[E _]|[_ H]]]; auto; exfalso; rewrite E in HeT; contradiction.
      - intros H. right. right. split; assumption. }
    apply (ncol_ok_intro (S m) M' T' j x y p'); auto.
    + apply (ssub_path_walk e0 e1 e2 sb) with (L := T); auto.
      * unfold e2. destruct sb; reflexivity.
      * unfold e2. destruct sb; reflexivity.
      * apply HinT'. left; reflexivity.
      * apply HinT'. right; left; reflexivity.
    + apply ssub_path_NoDup_ids; auto.
      simpl. intros H. apply Hidn. eapply step_ids_in_T; eauto.
    + intros i' Hi'. destruct (index_cases m k i' Hi' Hk) as [->|[i [Hi ->]]].
      * rewrite Hnk, Hcopy by assumption.
        apply (sgn_transfer (get M i0 j) e0 p sb e2 p'); [apply He; exact Hi0 | exact K2].
      * rewrite Hns, Hent by assumption. unfold g.
        destruct (edge_eq_dec (nth i T dflt) e0) as [E|E].
        -- apply (sgn_transfer (get M i j) e0 p true e1 p'); [rewrite <- E; apply He; exact Hi | exact K1].
        -- apply (sgn_transfer (get M i j) (nth i T dflt) p true (nth i T dflt) p'); [apply He; exact Hi|].
           intros c. apply K3; auto. apply nth_In. lia.
Qed.

Lemma NetworkP_addrow_copy_ext : forall m n M M' k r (sb : bool),
  NetworkP m n M -> k <= m -> r < S m -> r <> k ->
  (forall i j, i < m -> j < n -> get M' (skipidx k i) j = get M i j) ->
  (forall j, j < n -> get M' k j = if sb then get M' r j else (- get M' r j)%Z) ->
  NetworkP (S m) n M'.
Proof.
  intros m n M M' k r sb HG Hk Hr Nr Hent Hcopy. apply NetworkP_iff in HG. apply NetworkP_iff.
  destruct HG as [T HR].
  assert (Hi0 : unskip k r < m). { replace m with (S m - 1) by lia. apply unskip_lt; lia. }
  apply (ncopy_rep m n M M' T k (unskip k r) sb); auto.
  intros j Hj. rewrite Hcopy by exact Hj.
  rewrite <- (Hent (unskip k r) j Hi0 Hj). rewrite (skip_unskip k r Nr). reflexivity.
Qed.

(* ------------------------------------------------------------------------------------------ *)
(* 7. (d) kind 4 of judge_rel, ternary reducibility                                              *)
(* ------------------------------------------------------------------------------------------ *)

Lemma sign_bool : forall s : Z, (s = 1 \/ (true = true /\ s = -1))%Z ->
  exists sb : bool, forall x : Z, (s * x)%Z = if sb then x else (- x)%Z.
Proof.
  intros s [->|[_ ->]]; [exists true | exists false]; intros x; lia.
Qed.

Lemma row_red_cases_t : forall m n M k, line_reducible true m n M true k = true ->
  (forall c1 c2, c1 < n -> c2 < n -> get M k c1 <> 0%Z -> get M k c2 <> 0%Z -> c1 = c2) \/
  (exists r (sb : bool), r < m /\ r <> k /\
     forall c, c < n -> get M k c = if sb then get M r c else (- get M r c)%Z).
Proof.
  intros m n M k H. unfold line_reducible in H. apply SpProofs.row_reducible_iff in H.
  destruct H as [H|[r [s [Lr [Nr [Hs Hc]]]]]].
  - left. intros c1 c2 H1 H2. apply H; apply SpProofs2.live_all_true; assumption.
  - right. destruct (sign_bool s Hs) as [sb Hsb]. exists r, sb.
    apply SpProofs2.live_all_true in Lr. repeat split; auto.
    intros c Hc'. rewrite (Hc c) by (apply SpProofs2.live_all_true; exact Hc'). apply Hsb.
Qed.

Lemma col_red_cases_t : forall m n M k, line_reducible true m n M false k = true ->
  (forall r1 r2, r1 < m -> r2 < m -> get M r1 k <> 0%Z -> get M r2 k <> 0%Z -> r1 = r2) \/
  (exists c (sb : bool), c < n /\ c <> k /\
     forall r, r < m -> get M r k = if sb then get M r c else (- get M r c)%Z).
Proof.
  intros m n M k H. unfold line_reducible in H. apply SpProofs.col_reducible_iff in H.
  destruct H as [H|[c [s [Lc [Nc [Hs Hc]]]]]].
  - left. intros r1 r2 H1 H2. apply H; apply SpProofs2.live_all_true; assumption.
  - right. destruct (sign_bool s Hs) as [sb Hsb]. exists c, sb.
    apply SpProofs2.live_all_true in Lc. repeat split; auto.
    intros r Hr'. rewrite (Hc r) by (apply SpProofs2.live_all_true; exact Hr'). apply Hsb.
Qed.

Theorem NetworkP_add_row : forall m' n' M' k, wf_mat m' n' M' = true -> is_ternary M' = true ->
  k < m' -> line_reducible true m' n' M' true k = true ->
  NetworkP (m' - 1) n' (submat M' (keep_line m' k) (iota 0 n')) -> NetworkP m' n' M'.
Proof.
  intros m' n' M' k _ Ht Hk Hred HG.
  destruct m' as [|m]; [lia|]. replace (S m - 1) with m in HG by lia.
  assert (Hent : forall i j, i < m -> j < n' ->
            get M' (skipidx k i) j = get (submat M' (keep_line (S m) k) (iota 0 n')) i j).
  { intros i j Hi Hj. rewrite (get_drop_row' (S m) n'); auto. lia. }
  destruct (row_red_cases_t _ _ _ _ Hred) as [Hu|[r [sb [Hr [Nr Hc]]]]].
  - apply (NetworkP_addrow_pendant_ext m n' _ M' k HG); [lia | exact Hent | | exact Hu].
    intros j _. apply get_ternary'. exact Ht.
  - apply (NetworkP_addrow_copy_ext m n' _ M' k r sb HG); [lia | exact Hr | exact Nr | exact Hent | exact Hc].
Qed.
Print Assumptions NetworkP_add_row.

Theorem NetworkP_add_col : forall m' n' M' k, wf_mat m' n' M' = true -> is_ternary M' = true ->
  k < n' -> line_reducible true m' n' M' false k = true ->
  NetworkP m' (n' - 1) (submat M' (iota 0 m') (keep_line n' k)) -> NetworkP m' n' M'.
Proof.
  intros m' n' M' k _ Ht Hk Hred HG.
  destruct n' as [|n]; [lia|]. replace (S n - 1) with n in HG by lia.
  assert (Hent : forall i j, i < m' -> j < n ->
            get M' i (skipidx k j) = get (submat M' (iota 0 m') (keep_line (S n) k)) i j).
  { intros i j Hi Hj. rewrite (get_drop_col' m' (S n)); auto. lia. }
  apply (NetworkP_addcol_ext m' n _ M' k HG); [lia | exact Hent | |].
  - intros i _. apply get_ternary'. exact Ht.
  - destruct (col_red_cases_t _ _ _ _ Hred) as [Hu|[c [sb [Hc [Nc Hcc]]]]]; [left; exact Hu|].
    right. exists c, sb. auto.
Qed.
Print Assumptions NetworkP_add_col.

Theorem NetworkP_reducible_line : forall m' n' M' (isr : bool) k,
  wf_mat m' n' M' = true -> is_ternary M' = true ->
  (if isr then Nat.ltb k m' else Nat.ltb k n') = true ->
  line_reducible true m' n' M' isr k = true ->
  (NetworkP m' n' M' <->
   if isr then NetworkP (m' - 1) n' (submat M' (keep_line m' k) (iota 0 n'))
   else NetworkP m' (n' - 1) (submat M' (iota 0 m') (keep_line n' k))).
Proof.
  intros m' n' M' isr k Hwf Ht Hk Hred. destruct isr; apply Nat.ltb_lt in Hk.
  - split.
    + apply NetworkP_delete_row; auto.
    + apply NetworkP_add_row; auto.
  - split.
    + intros HG. rewrite <- (RelProofs.length_keep_line n' k Hk).
      apply (NetworkP_cols m' n' M' (keep_line n' k)); auto. apply RelProofs.all_lt_keep_line.
    + apply NetworkP_add_col; auto.
Qed.
Print Assumptions NetworkP_reducible_line.


(* ------------------------------------------------------------------------------------------ *)
(* 8. Non-vacuity and assumption audit of the supporting lemmas                                  *)
(* ------------------------------------------------------------------------------------------ *)

Example tri_NetworkP : NetworkP 2 1 [[1%Z]; [(-1)%Z]].
Proof. exact (cert_NetworkP _ _ _ _ _ _ _ tri_network_accept_rev). Qed.

Example tri_contracted_net : NetworkP 1 1 [[(-1)%Z]].
Proof. exact (NetworkP_delete_row 2 1 [[1%Z]; [(-1)%Z]] 0 eq_refl (Nat.lt_0_succ 1) tri_NetworkP). Qed.

Print Assumptions NetworkP_iff.
Print Assumptions is_forest_sim.
Print Assumptions NetworkP_cols_sgn_ext.
Print Assumptions NetworkP_rowperm_ext.
Print Assumptions NetworkP_rowscale_ext.
Print Assumptions NetworkP_scale_ext.
Print Assumptions NetworkP_addcol_ext.
Print Assumptions NetworkP_delrow_ext.
Print Assumptions NetworkP_rows_gen.
Print Assumptions NetworkP_addrow_pendant_ext.
Print Assumptions NetworkP_addrow_copy_ext.
Print Assumptions tri_contracted_net.
