(* PivotProofs.v — proofs about the pivot model of PivotModel.v. *)
From Cmr Require Import Base Det BaseProofs PivotModel.
Local Open Scope Z_scope.
Require Import ZifyBool.
Ltac Zify.zify_post_hook ::= Z.quot_rem_to_equations; Z.div_mod_to_equations.

(* ------------------------------------------------------------------------------------------ *)
(* 0. Generic helpers                                                                           *)
(* ------------------------------------------------------------------------------------------ *)

Lemma nthZ_map0 : forall (f : Z -> Z) l j, f 0 = 0 -> nthZ (map f l) j = f (nthZ l j).
Proof.
  intros f; induction l as [|x l IH]; intros j H0.
  - destruct j; cbn [map nthZ]; symmetry; exact H0.
  - destruct j; cbn [map nthZ]; [reflexivity | apply IH; exact H0].
Qed.

Lemma nthR_map_nil : forall (f : list Z -> list Z) (M : mat) i,
  f [] = [] -> nthR (map f M) i = f (nthR M i).
Proof.
  intros f; induction M as [|x M IH]; intros i H0.
  - destruct i; cbn [map nthR]; symmetry; exact H0.
  - destruct i; cbn [map nthR]; [reflexivity | apply IH; exact H0].
Qed.

Lemma modulo_ternary_0 : forall q, modulo_ternary 0 q = 0.
Proof.
  intros q. unfold modulo_ternary. destruct (q =? 0); [reflexivity|].
  cbv zeta. change (Z.rem 0 (Z.abs q)) with 0. reflexivity.
Qed.

Lemma get_reduce : forall q M i j, get (reduce q M) i j = modulo_ternary (get M i j) q.
Proof.
  intros q M i j. unfold get, reduce.
  rewrite (nthR_map_nil (map (fun x => modulo_ternary x q))) by reflexivity.
  rewrite (nthZ_map0 (fun x => modulo_ternary x q)) by apply modulo_ternary_0.
  reflexivity.
Qed.

Lemma reduce_wf : forall q m n M, wf_mat m n M = true -> wf_mat m n (reduce q M) = true.
Proof.
  intros q m n M H. unfold wf_mat in *. apply andb_true_iff in H. destruct H as [HL HR].
  unfold reduce. rewrite map_length, HL. cbn [andb].
  rewrite forallb_forall in HR. apply forallb_forall. intros x Hx.
  apply in_map_iff in Hx. destruct Hx as [y [<- Hy]]. rewrite map_length. apply HR. exact Hy.
Qed.

Lemma pivot_raw_wf : forall m n M r c, wf_mat m n (pivot_raw m n M r c) = true.
Proof. intros. unfold pivot_raw. apply wf_mk_mat. Qed.

Lemma get_pivot_raw : forall m n M r c i j, (i < m)%nat -> (j < n)%nat ->
  get (pivot_raw m n M r c) i j =
  (if Nat.eqb i r
   then (if Nat.eqb j c then - get M r c
         else if get M r c =? -1 then - get M i j else get M i j)
   else if Nat.eqb j c then (if get M r c =? -1 then - get M i j else get M i j)
   else get M i j - get M r c * get M i c * get M r j).
Proof.
  intros m n M r c i j Hi Hj. unfold pivot_raw. cbv zeta.
  rewrite get_mk_mat by assumption. reflexivity.
Qed.

Lemma is_ternary_entry_iff : forall x, is_ternary_entry x = true <-> (x = -1 \/ x = 0 \/ x = 1).
Proof.
  intros x. unfold is_ternary_entry. rewrite !orb_true_iff, !Z.eqb_eq. tauto.
Qed.

Lemma get_ternary : forall M i j, is_ternary M = true ->
  get M i j = -1 \/ get M i j = 0 \/ get M i j = 1.
Proof.
  intros M i j H. apply is_ternary_entry_iff. unfold get.
  apply nthZ_forallb; [reflexivity|].
  apply (nthR_forallb (forallb is_ternary_entry)); [reflexivity | exact H].
Qed.

Lemma mat_forall_reduce : forall (p : Z -> bool) q M,
  (forall x, p (modulo_ternary x q) = true) -> mat_forall p (reduce q M) = true.
Proof.
  intros p q M H. unfold mat_forall, reduce.
  apply forallb_forall. intros r Hr. apply in_map_iff in Hr. destruct Hr as [r0 [<- _]].
  apply forallb_forall. intros x Hx. apply in_map_iff in Hx. destruct Hx as [x0 [<- _]].
  apply H.
Qed.

Lemma mat_forall_mk_mat : forall (p : Z -> bool) m n f,
  (forall i j, p (f i j) = true) -> mat_forall p (mk_mat m n f) = true.
Proof.
  intros p m n f H. unfold mat_forall, mk_mat.
  apply forallb_forall. intros r Hr. apply in_map_iff in Hr. destruct Hr as [i [<- _]].
  apply forallb_forall. intros x Hx. apply in_map_iff in Hx. destruct Hx as [j [<- _]].
  apply H.
Qed.

(* ------------------------------------------------------------------------------------------ *)
(* 1. modulo_ternary                                                                            *)
(* ------------------------------------------------------------------------------------------ *)

Lemma mt2_mod : forall p, modulo_ternary p 2 = p mod 2.
Proof.
  intros p. unfold modulo_ternary.
  change (2 =? 0) with false. change (Z.abs 2) with 2. change (2 =? 3) with false.
  rewrite andb_false_r. cbv iota zeta beta.
  destruct (Z.ltb_spec (Z.rem p 2) 0); lia.
Qed.

Lemma mt3_mod : forall p, modulo_ternary p 3 = if p mod 3 =? 2 then -1 else p mod 3.
Proof.
  intros p. unfold modulo_ternary.
  change (3 =? 0) with false. change (Z.abs 3) with 3. change (3 =? 3) with true.
  rewrite andb_true_r. cbv iota zeta beta.
  destruct (Z.ltb_spec (Z.rem p 3) 0).
  - replace (Z.rem p 3 + 3) with (p mod 3) by lia. reflexivity.
  - replace (Z.rem p 3) with (p mod 3) by lia. reflexivity.
Qed.

(* the regular pivot (q = -3) reduces exactly like the ternary one *)
Lemma mt_neg3 : forall p, modulo_ternary p (-3) = modulo_ternary p 3.
Proof. intros p. reflexivity. Qed.

Lemma reduce_neg3 : forall M, reduce (-3) M = reduce 3 M.
Proof. intros M. reflexivity. Qed.

Theorem modulo_ternary_spec2 : forall p,
  (modulo_ternary p 2 = 0 \/ modulo_ternary p 2 = 1) /\ (modulo_ternary p 2 - p) mod 2 = 0.
Proof. intros p. rewrite mt2_mod. split; lia. Qed.

Theorem modulo_ternary_spec3 : forall p,
  (modulo_ternary p 3 = -1 \/ modulo_ternary p 3 = 0 \/ modulo_ternary p 3 = 1) /\
  (modulo_ternary p 3 - p) mod 3 = 0.
Proof.
  intros p. rewrite mt3_mod. destruct (Z.eqb_spec (p mod 3) 2); split; lia.
Qed.

Theorem modulo_ternary_spec_neg3 : forall p,
  (modulo_ternary p (-3) = -1 \/ modulo_ternary p (-3) = 0 \/ modulo_ternary p (-3) = 1) /\
  (modulo_ternary p (-3) - p) mod 3 = 0.
Proof. intros p. rewrite mt_neg3. apply modulo_ternary_spec3. Qed.

Theorem modulo_ternary_idem2 : forall x, x = 0 \/ x = 1 -> modulo_ternary x 2 = x.
Proof. intros x [->| ->]; reflexivity. Qed.

Theorem modulo_ternary_idem3 : forall x, x = -1 \/ x = 0 \/ x = 1 -> modulo_ternary x 3 = x.
Proof. intros x [->|[->| ->]]; reflexivity. Qed.

Theorem modulo_ternary_idem_neg3 : forall x,
  x = -1 \/ x = 0 \/ x = 1 -> modulo_ternary x (-3) = x.
Proof. intros x [->|[->| ->]]; reflexivity. Qed.

(* general congruence: for every nonzero modulus the result differs from p by a multiple of q *)
Lemma mt_congr : forall x q, q <> 0 -> exists t, modulo_ternary x q = x + q * t.
Proof.
  intros x q Hq. unfold modulo_ternary.
  destruct (Z.eqb_spec q 0) as [E|_]; [contradiction|].
  cbv zeta.
  assert (H1 : exists t, (if Z.rem x (Z.abs q) <? 0 then Z.rem x (Z.abs q) + Z.abs q
                          else Z.rem x (Z.abs q)) = x + q * t).
  { pose proof (Z.quot_rem' x (Z.abs q)) as E.
    destruct (Z.ltb_spec (Z.rem x (Z.abs q)) 0).
    - destruct (Z.abs_spec q) as [[_ A]|[_ A]]; rewrite A in *.
      + exists (1 - Z.quot x q). lia.
      + exists (Z.quot x (-q) - 1). lia.
    - destruct (Z.abs_spec q) as [[_ A]|[_ A]]; rewrite A in *.
      + exists (- Z.quot x q). lia.
      + exists (Z.quot x (-q)). lia. }
  destruct H1 as [t Ht]. rewrite Ht.
  destruct (Z.eqb_spec (x + q * t) 2) as [E2|]; cbn [andb]; [|eauto].
  destruct (Z.eqb_spec (Z.abs q) 3) as [E3|]; [|eauto].
  destruct (Z.abs_spec q) as [[_ A]|[_ A]]; rewrite A in *.
  - exists (t - 1). lia.
  - exists (t + 1). lia.
Qed.

(* ------------------------------------------------------------------------------------------ *)
(* 2. Binary pivot                                                                              *)
(* ------------------------------------------------------------------------------------------ *)

Definition bpivot (m n : nat) (M : mat) (r c : nat) : mat := reduce 2 (pivot_raw m n M r c).
Definition tpivot (m n : nat) (M : mat) (r c : nat) : mat := reduce 3 (pivot_raw m n M r c).

Lemma bpivot_wf : forall m n M r c, wf_mat m n (bpivot m n M r c) = true.
Proof. intros. unfold bpivot. apply reduce_wf. apply pivot_raw_wf. Qed.

Lemma bpivot_binary : forall m n M r c, is_binary (bpivot m n M r c) = true.
Proof.
  intros. unfold bpivot, is_binary. apply mat_forall_reduce.
  intros x. apply is_binary_entry_iff. apply modulo_ternary_spec2.
Qed.

Lemma bin_other : forall a b e, (a = 0 \/ a = 1) -> (b = 0 \/ b = 1) -> (e = 0 \/ e = 1) ->
  modulo_ternary (e - 1 * a * b) 2 = (e + a * b) mod 2.
Proof. intros a b e [->| ->] [->| ->] [->| ->]; reflexivity. Qed.

Theorem binary_pivot_entries : forall m n M r c,
  wf_mat m n M = true -> is_binary M = true -> (r < m)%nat -> (c < n)%nat -> get M r c = 1 ->
  forall i j, (i < m)%nat -> (j < n)%nat ->
  get (bpivot m n M r c) i j =
  if Nat.eqb i r || Nat.eqb j c then get M i j
  else (get M i j + get M i c * get M r j) mod 2.
Proof.
  intros m n M r c Hwf Hb Hr Hc Hpv i j Hi Hj.
  unfold bpivot. rewrite get_reduce, get_pivot_raw by assumption. rewrite Hpv.
  change (1 =? -1) with false. cbv iota.
  destruct (Nat.eqb_spec i r) as [Ei|Ei]; cbn [orb].
  - destruct (Nat.eqb_spec j c) as [Ej|Ej].
    + subst i j. rewrite Hpv. reflexivity.
    + apply modulo_ternary_idem2. apply get_binary. exact Hb.
  - destruct (Nat.eqb_spec j c) as [Ej|Ej].
    + apply modulo_ternary_idem2. apply get_binary. exact Hb.
    + apply bin_other; apply get_binary; exact Hb.
Qed.

Lemma bin_invol : forall a b e, (a = 0 \/ a = 1) -> (b = 0 \/ b = 1) -> (e = 0 \/ e = 1) ->
  ((e + a * b) mod 2 + a * b) mod 2 = e.
Proof. intros a b e [->| ->] [->| ->] [->| ->]; reflexivity. Qed.

Theorem binary_pivot_involution : forall m n M r c,
  wf_mat m n M = true -> is_binary M = true -> (r < m)%nat -> (c < n)%nat -> get M r c = 1 ->
  bpivot m n (bpivot m n M r c) r c = M.
Proof.
  intros m n M r c Hwf Hb Hr Hc Hpv.
  assert (E : forall i j, (i < m)%nat -> (j < n)%nat ->
              get (bpivot m n M r c) i j =
              if Nat.eqb i r || Nat.eqb j c then get M i j
              else (get M i j + get M i c * get M r j) mod 2)
    by (apply binary_pivot_entries; assumption).
  assert (Hpv' : get (bpivot m n M r c) r c = 1).
  { rewrite E by assumption. rewrite Nat.eqb_refl. exact Hpv. }
  apply (mat_ext m n); [apply bpivot_wf | exact Hwf |].
  intros i j Hi Hj.
  rewrite (binary_pivot_entries m n (bpivot m n M r c) r c
             (bpivot_wf _ _ _ _ _) (bpivot_binary _ _ _ _ _) Hr Hc Hpv' i j Hi Hj).
  rewrite (E i j Hi Hj), (E i c Hi Hc), (E r j Hr Hj).
  rewrite !Nat.eqb_refl.
  destruct (Nat.eqb_spec i r) as [Ei|Ei]; cbn [orb]; [reflexivity|].
  destruct (Nat.eqb_spec j c) as [Ej|Ej]; cbn [orb]; [reflexivity|].
  apply bin_invol; apply get_binary; exact Hb.
Qed.

(* ------------------------------------------------------------------------------------------ *)
(* 3. Ternary pivot                                                                             *)
(* ------------------------------------------------------------------------------------------ *)

Lemma tpivot_wf : forall m n M r c, wf_mat m n (tpivot m n M r c) = true.
Proof. intros. unfold tpivot. apply reduce_wf. apply pivot_raw_wf. Qed.

Lemma tpivot_ternary : forall m n M r c, is_ternary (tpivot m n M r c) = true.
Proof.
  intros. unfold tpivot, is_ternary. apply mat_forall_reduce.
  intros x. apply is_ternary_entry_iff. apply modulo_ternary_spec3.
Qed.

Lemma tern_pv : forall pv, (pv = -1 \/ pv = 0 \/ pv = 1) -> pv <> 0 -> modulo_ternary (- pv) 3 = - pv.
Proof. intros pv [->|[->| ->]] H; reflexivity. Qed.

Lemma tern_line : forall pv x, (pv = -1 \/ pv = 0 \/ pv = 1) -> pv <> 0 ->
  (x = -1 \/ x = 0 \/ x = 1) ->
  modulo_ternary (if pv =? -1 then - x else x) 3 = pv * x.
Proof.
  intros pv x [->|[->| ->]] H [->|[->| ->]];
    first [reflexivity | exfalso; apply H; reflexivity].
Qed.

Theorem ternary_pivot_entries : forall m n M r c,
  wf_mat m n M = true -> is_ternary M = true -> (r < m)%nat -> (c < n)%nat -> get M r c <> 0 ->
  forall i j, (i < m)%nat -> (j < n)%nat ->
  get (tpivot m n M r c) i j =
  if Nat.eqb i r then (if Nat.eqb j c then - get M r c else get M r c * get M i j)
  else if Nat.eqb j c then get M r c * get M i j
  else modulo_ternary (get M i j - get M r c * get M i c * get M r j) 3.
Proof.
  intros m n M r c Hwf Ht Hr Hc Hpv i j Hi Hj.
  unfold tpivot. rewrite get_reduce, get_pivot_raw by assumption.
  pose proof (get_ternary M r c Ht) as Tpv.
  destruct (Nat.eqb_spec i r) as [Ei|Ei].
  - destruct (Nat.eqb_spec j c) as [Ej|Ej].
    + apply tern_pv; assumption.
    + apply tern_line; try assumption. apply get_ternary; exact Ht.
  - destruct (Nat.eqb_spec j c) as [Ej|Ej].
    + apply tern_line; try assumption. apply get_ternary; exact Ht.
    + reflexivity.
Qed.

Lemma tern_twice : forall pv a b e,
  (pv = -1 \/ pv = 0 \/ pv = 1) -> pv <> 0 ->
  (a = -1 \/ a = 0 \/ a = 1) -> (b = -1 \/ b = 0 \/ b = 1) -> (e = -1 \/ e = 0 \/ e = 1) ->
  modulo_ternary (modulo_ternary (e - pv * a * b) 3 - - pv * (pv * a) * (pv * b)) 3 = e.
Proof.
  intros pv a b e [->|[->| ->]] H [->|[->| ->]] [->|[->| ->]] [->|[->| ->]];
    first [reflexivity | exfalso; apply H; reflexivity].
Qed.

Lemma tern_negneg : forall pv x, (pv = -1 \/ pv = 0 \/ pv = 1) -> pv <> 0 ->
  - pv * (pv * x) = - x.
Proof. intros pv x [->|[->| ->]] H; lia. Qed.

Theorem ternary_pivot_twice : forall m n M r c,
  wf_mat m n M = true -> is_ternary M = true -> (r < m)%nat -> (c < n)%nat -> get M r c <> 0 ->
  tpivot m n (tpivot m n M r c) r c =
  mk_mat m n (fun i j => if xorb (Nat.eqb i r) (Nat.eqb j c) then - get M i j else get M i j).
Proof.
  intros m n M r c Hwf Ht Hr Hc Hpv.
  pose proof (get_ternary M r c Ht) as Tpv.
  assert (E : forall i j, (i < m)%nat -> (j < n)%nat ->
              get (tpivot m n M r c) i j =
              if Nat.eqb i r then (if Nat.eqb j c then - get M r c else get M r c * get M i j)
              else if Nat.eqb j c then get M r c * get M i j
              else modulo_ternary (get M i j - get M r c * get M i c * get M r j) 3)
    by (apply ternary_pivot_entries; assumption).
  assert (Epv : get (tpivot m n M r c) r c = - get M r c).
  { rewrite E by assumption. rewrite !Nat.eqb_refl. reflexivity. }
  assert (Hpv' : get (tpivot m n M r c) r c <> 0) by (rewrite Epv; lia).
  apply (mat_ext m n); [apply tpivot_wf | apply wf_mk_mat |].
  intros i j Hi Hj. rewrite get_mk_mat by assumption.
  rewrite (ternary_pivot_entries m n (tpivot m n M r c) r c
             (tpivot_wf _ _ _ _ _) (tpivot_ternary _ _ _ _ _) Hr Hc Hpv' i j Hi Hj).
  rewrite Epv.
  destruct (Nat.eqb_spec i r) as [Ei|Ei].
  - destruct (Nat.eqb_spec j c) as [Ej|Ej]; cbn [xorb].
    + subst i j. lia.
    + rewrite (E i j Hi Hj). destruct (Nat.eqb_spec i r) as [_|N]; [|contradiction].
      destruct (Nat.eqb_spec j c) as [Y|_]; [contradiction|].
      apply tern_negneg; assumption.
  - destruct (Nat.eqb_spec j c) as [Ej|Ej]; cbn [xorb].
    + rewrite (E i j Hi Hj). destruct (Nat.eqb_spec i r) as [Y|_]; [contradiction|].
      destruct (Nat.eqb_spec j c) as [_|N]; [|contradiction].
      apply tern_negneg; assumption.
    + rewrite (E i j Hi Hj), (E i c Hi Hc), (E r j Hr Hj). rewrite !Nat.eqb_refl.
      destruct (Nat.eqb_spec i r) as [Y|_]; [contradiction|].
      destruct (Nat.eqb_spec j c) as [Y|_]; [contradiction|].
      apply tern_twice; try assumption; apply get_ternary; exact Ht.
Qed.

(* ------------------------------------------------------------------------------------------ *)
(* 4. Basis exchange                                                                            *)
(* ------------------------------------------------------------------------------------------ *)

(* entries of [I | M]: row i < m, column k < m + n *)
Definition ext (m : nat) (M : mat) (i k : nat) : Z :=
  if Nat.ltb k m then (if Nat.eqb k i then 1 else 0) else get M i (k - m).

(* the row operations on [I | M] that turn column m + c into the r-th unit vector
   (pv = get M r c is its own inverse in GF(2) and GF(3)) *)
Definition rowop (m : nat) (M : mat) (r c i k : nat) : Z :=
  let pv := get M r c in
  if Nat.eqb i r then pv * ext m M r k
  else ext m M i k - get M i c * pv * ext m M r k.

(* M with column c negated *)
Definition negcol (m n : nat) (M : mat) (c : nat) : mat :=
  mk_mat m n (fun i j => if Nat.eqb j c then - get M i j else get M i j).

(* exchange of the columns r (basis element) and m + c (non-basis element) of [I | M] *)
Definition swap (m r c k : nat) : nat :=
  if Nat.eqb k r then (m + c)%nat else if Nat.eqb k (m + c) then r else k.

Lemma ext_lt : forall m M i k, (k < m)%nat -> ext m M i k = if Nat.eqb k i then 1 else 0.
Proof. intros m M i k H. unfold ext. destruct (Nat.ltb_spec k m); [reflexivity | lia]. Qed.

Lemma ext_ge : forall m M i j, ext m M i (m + j) = get M i j.
Proof.
  intros m M i j. unfold ext. destruct (Nat.ltb_spec (m + j) m); [lia|].
  f_equal. lia.
Qed.

Lemma mod_mult_eq : forall p x t, x = p * t -> x mod p = 0.
Proof. intros p x t ->. rewrite Z.mul_comm. apply Z_mod_mult. Qed.

Lemma get_negcol_reduce : forall p m n M r c i j, p <> 0 -> (i < m)%nat -> (j < n)%nat ->
  exists t, get (negcol m n (reduce p (pivot_raw m n M r c)) c) i j =
            (if Nat.eqb j c then - get (pivot_raw m n M r c) i j
             else get (pivot_raw m n M r c) i j) + p * t.
Proof.
  intros p m n M r c i j Hp Hi Hj. unfold negcol. rewrite get_mk_mat by assumption.
  rewrite get_reduce. destruct (mt_congr (get (pivot_raw m n M r c) i j) p Hp) as [t Ht].
  rewrite Ht. destruct (Nat.eqb j c); [exists (- t) | exists t]; ring.
Qed.

(* The identity holds over Z before reduction, for any matrix whose pivot entry is a unit;
   reduction modulo p only adds multiples of p. *)
Theorem pivot_is_basis_exchange_gen : forall p m n M r c,
  p <> 0 -> (r < m)%nat -> (c < n)%nat -> (get M r c = 1 \/ get M r c = -1) ->
  forall i k, (i < m)%nat -> (k < m + n)%nat ->
  (rowop m M r c i k -
   ext m (negcol m n (reduce p (pivot_raw m n M r c)) c) i (swap m r c k)) mod p = 0.
Proof.
  intros p m n M r c Hp Hr Hc Hpv i k Hi Hk.
  unfold swap, rowop. cbv zeta.
  destruct (Nat.eqb_spec k r) as [Ekr|Ekr].
  - (* column r of [I|M] against column m+c of [I|M''] *)
    subst k. rewrite ext_ge.
    destruct (get_negcol_reduce p m n M r c i c Hp Hi Hc) as [t Gt]. rewrite Gt.
    rewrite Nat.eqb_refl, get_pivot_raw by assumption. rewrite !ext_lt by assumption.
    rewrite !Nat.eqb_refl.
    destruct (Nat.eqb_spec i r) as [Ei|Ei].
    + apply (mod_mult_eq p _ (- t)). ring.
    + destruct (Nat.eqb_spec r i) as [Y|_]; [lia|].
      apply (mod_mult_eq p _ (- t)).
      destruct Hpv as [E|E]; rewrite !E;
        [change (1 =? -1) with false | change (-1 =? -1) with true]; cbv iota; ring.
  - destruct (Nat.eqb_spec k (m + c)) as [Ekc|Ekc].
    + (* column m+c of [I|M] against column r of [I|M''] *)
      subst k. rewrite !ext_ge. rewrite ext_lt by assumption.
      destruct (Nat.eqb_spec i r) as [Ei|Ei].
      * subst i. rewrite Nat.eqb_refl. apply (mod_mult_eq p _ 0).
        destruct Hpv as [E|E]; rewrite !E; ring.
      * destruct (Nat.eqb_spec r i) as [Y|_]; [lia|].
        apply (mod_mult_eq p _ 0).
        destruct Hpv as [E|E]; rewrite !E; ring.
    + destruct (Nat.ltb_spec k m) as [Hkm|Hkm].
      * (* the other unit columns *)
        rewrite !ext_lt by assumption.
        destruct (Nat.eqb_spec k r) as [Y|_]; [lia|].
        destruct (Nat.eqb_spec i r) as [Ei|Ei].
        -- subst i. destruct (Nat.eqb_spec k r) as [Y|_]; [lia|].
           apply (mod_mult_eq p _ 0). ring.
        -- apply (mod_mult_eq p _ 0). ring.
      * (* the other columns of M *)
        assert (Ej : exists j, k = (m + j)%nat) by (exists (k - m)%nat; lia).
        destruct Ej as [j ->]. assert (Hj : (j < n)%nat) by lia.
        assert (Hjc : j <> c) by lia.
        rewrite !ext_ge.
        destruct (get_negcol_reduce p m n M r c i j Hp Hi Hj) as [t Gt]. rewrite Gt.
        destruct (Nat.eqb_spec j c) as [Y|_]; [lia|].
        rewrite get_pivot_raw by assumption.
        destruct (Nat.eqb_spec j c) as [Y|_]; [lia|].
        destruct (Nat.eqb_spec i r) as [Ei|Ei].
        -- subst i. apply (mod_mult_eq p _ (- t)).
           destruct Hpv as [E|E]; rewrite !E;
             [change (1 =? -1) with false | change (-1 =? -1) with true]; cbv iota; ring.
        -- apply (mod_mult_eq p _ (- t)). ring.
Qed.

Theorem binary_pivot_is_basis_exchange : forall m n M r c,
  wf_mat m n M = true -> is_binary M = true -> (r < m)%nat -> (c < n)%nat -> get M r c <> 0 ->
  forall i k, (i < m)%nat -> (k < m + n)%nat ->
  (rowop m M r c i k - ext m (negcol m n (bpivot m n M r c) c) i (swap m r c k)) mod 2 = 0.
Proof.
  intros m n M r c Hwf Hb Hr Hc Hpv i k Hi Hk. unfold bpivot.
  apply pivot_is_basis_exchange_gen; try assumption; [lia|].
  destruct (get_binary M r c Hb) as [E|E]; [contradiction | left; exact E].
Qed.

(* for p = 2 negating a column is irrelevant: the statement also holds without negcol *)
Theorem binary_pivot_is_basis_exchange' : forall m n M r c,
  wf_mat m n M = true -> is_binary M = true -> (r < m)%nat -> (c < n)%nat -> get M r c <> 0 ->
  forall i k, (i < m)%nat -> (k < m + n)%nat ->
  (rowop m M r c i k - ext m (bpivot m n M r c) i (swap m r c k)) mod 2 = 0.
Proof.
  intros m n M r c Hwf Hb Hr Hc Hpv i k Hi Hk.
  pose proof (binary_pivot_is_basis_exchange m n M r c Hwf Hb Hr Hc Hpv i k Hi Hk) as H.
  assert (D : exists t, ext m (negcol m n (bpivot m n M r c) c) i (swap m r c k) =
                        ext m (bpivot m n M r c) i (swap m r c k) + 2 * t).
  { unfold ext. destruct (Nat.ltb_spec (swap m r c k) m) as [L|L]; [exists 0; ring|].
    assert (L2 : (swap m r c k - m < n)%nat).
    { unfold swap. destruct (Nat.eqb_spec k r); [lia|].
      destruct (Nat.eqb_spec k (m + c)); lia. }
    unfold negcol. rewrite get_mk_mat by assumption.
    destruct (Nat.eqb (swap m r c k - m) c); [|exists 0; ring].
    exists (- get (bpivot m n M r c) i (swap m r c k - m)). ring. }
  destruct D as [t Dt]. rewrite Dt in H.
  apply Z.mod_divide in H; [|lia]. destruct H as [u Hu].
  apply (mod_mult_eq 2 _ (u + t)). lia.
Qed.

Theorem ternary_pivot_is_basis_exchange : forall m n M r c,
  wf_mat m n M = true -> is_ternary M = true -> (r < m)%nat -> (c < n)%nat -> get M r c <> 0 ->
  forall i k, (i < m)%nat -> (k < m + n)%nat ->
  (rowop m M r c i k - ext m (negcol m n (tpivot m n M r c) c) i (swap m r c k)) mod 3 = 0.
Proof.
  intros m n M r c Hwf Ht Hr Hc Hpv i k Hi Hk. unfold tpivot.
  apply pivot_is_basis_exchange_gen; try assumption; [lia|].
  destruct (get_ternary M r c Ht) as [E|[E|E]]; [right; exact E | contradiction | left; exact E].
Qed.

Theorem pivot_is_basis_exchange : forall p m n M r c,
  (p = 2 /\ is_binary M = true) \/ (p = 3 /\ is_ternary M = true) ->
  wf_mat m n M = true -> (r < m)%nat -> (c < n)%nat -> get M r c <> 0 ->
  forall i k, (i < m)%nat -> (k < m + n)%nat ->
  (rowop m M r c i k -
   ext m (negcol m n (reduce p (pivot_raw m n M r c)) c) i (swap m r c k)) mod p = 0.
Proof.
  intros p m n M r c [[-> Hd]|[-> Hd]] Hwf Hr Hc Hpv i k Hi Hk.
  - apply (binary_pivot_is_basis_exchange m n M r c); assumption.
  - apply (ternary_pivot_is_basis_exchange m n M r c); assumption.
Qed.

(* ------------------------------------------------------------------------------------------ *)
(* 5. Sequences of pivots                                                                       *)
(* ------------------------------------------------------------------------------------------ *)

Lemma pivots_nil : forall q m n M dR dC, pivots q m n M [] [] dR dC = POk M.
Proof. reflexivity. Qed.

Lemma pivots_nil_l : forall q m n M cs dR dC, pivots q m n M [] cs dR dC = POk M.
Proof. reflexivity. Qed.

Lemma pivots_nil_r : forall q m n M rs dR dC, pivots q m n M rs [] dR dC = POk M.
Proof. intros. destruct rs; reflexivity. Qed.

Lemma pivots_cons : forall q m n M r rs c cs dR dC R,
  q > 0 -> pivot1 q m n M r c = Some R ->
  pivots q m n M (r :: rs) (c :: cs) dR dC =
  pivots q m n (reduce q R) rs cs (dR ++ [r]) (dC ++ [c]).
Proof.
  intros q m n M r rs c cs dR dC R Hq H. cbn [pivots]. rewrite H.
  destruct (Z.ltb_spec q 0); [lia | reflexivity].
Qed.

Lemma pivots_cons_err : forall q m n M r rs c cs dR dC,
  pivot1 q m n M r c = None -> pivots q m n M (r :: rs) (c :: cs) dR dC = PErr.
Proof. intros. cbn [pivots]. rewrite H. reflexivity. Qed.

Lemma pivots_cons_regular_ok : forall q m n M r rs c cs dR dC R,
  q < 0 -> pivot1 q m n M r c = Some R -> find_bad 0 R = None ->
  pivots q m n M (r :: rs) (c :: cs) dR dC =
  pivots q m n (reduce q R) rs cs (dR ++ [r]) (dC ++ [c]).
Proof.
  intros q m n M r rs c cs dR dC R Hq H Hb. cbn [pivots]. rewrite H, Hb.
  destruct (Z.ltb_spec q 0); [reflexivity | lia].
Qed.

Lemma pivots_cons_regular_viol : forall q m n M r rs c cs dR dC R i j,
  q < 0 -> pivot1 q m n M r c = Some R -> find_bad 0 R = Some (i, j) ->
  pivots q m n M (r :: rs) (c :: cs) dR dC = PViol (dR ++ [r; i]) (dC ++ [c; j]).
Proof.
  intros q m n M r rs c cs dR dC R i j Hq H Hb. cbn [pivots]. rewrite H, Hb.
  destruct (Z.ltb_spec q 0); [reflexivity | lia].
Qed.

(* ------------------------------------------------------------------------------------------ *)
(* 6. Regular pivot: the reported violator is a genuine non-TU certificate                      *)
(* ------------------------------------------------------------------------------------------ *)

Lemma find_bad_row_spec : forall r j0 j, find_bad_row j0 r = Some j ->
  (j0 <= j)%nat /\ (j - j0 < length r)%nat /\
  is_ternary_entry (nthZ r (j - j0)) = false /\
  (forall j', (j' < j - j0)%nat -> is_ternary_entry (nthZ r j') = true).
Proof.
  induction r as [|x r IH]; intros j0 j H; cbn [find_bad_row] in H; [discriminate|].
  destruct (is_ternary_entry x) eqn:Ex.
  - apply IH in H. destruct H as (H1 & H2 & H3 & H4).
    assert (Es : (j - j0 = S (j - S j0))%nat) by lia. rewrite Es.
    cbn [length nthZ]. repeat split; try lia; try assumption.
    intros j' Hj'. destruct j' as [|j']; cbn [nthZ]; [exact Ex | apply H4; lia].
  - inversion H; subst. rewrite Nat.sub_diag. cbn [length nthZ].
    repeat split; try lia; try assumption.
Qed.

Lemma find_bad_row_none : forall r j0, find_bad_row j0 r = None ->
  forallb is_ternary_entry r = true.
Proof.
  induction r as [|x r IH]; intros j0 H; cbn [find_bad_row] in H; [reflexivity|].
  cbn [forallb]. destruct (is_ternary_entry x); [|discriminate].
  cbn [andb]. eapply IH; exact H.
Qed.

Lemma find_bad_spec : forall M i0 i j, find_bad i0 M = Some (i, j) ->
  (i0 <= i)%nat /\ (i - i0 < length M)%nat /\ (j < length (nthR M (i - i0)))%nat /\
  is_ternary_entry (get M (i - i0) j) = false /\
  (forall i', (i' < i - i0)%nat -> forallb is_ternary_entry (nthR M i') = true) /\
  (forall j', (j' < j)%nat -> is_ternary_entry (get M (i - i0) j') = true).
Proof.
  induction M as [|x M IH]; intros i0 i j H; cbn [find_bad] in H; [discriminate|].
  destruct (find_bad_row 0 x) as [j1|] eqn:Er.
  - inversion H; subst. apply find_bad_row_spec in Er. rewrite Nat.sub_0_r in Er.
    destruct Er as (_ & E2 & E3 & E4).
    rewrite Nat.sub_diag. unfold get. cbn [length nthR].
    repeat split; try lia; try assumption.
  - apply IH in H. destruct H as (H1 & H2 & H3 & H4 & H5 & H6).
    assert (Es : (i - i0 = S (i - S i0))%nat) by lia. rewrite Es.
    unfold get in *. cbn [length nthR]. repeat split; try lia; try assumption.
    intros i' Hi'. destruct i' as [|i']; cbn [nthR].
    + eapply find_bad_row_none; exact Er.
    + apply H5. lia.
Qed.

Lemma find_bad_none : forall M i0, find_bad i0 M = None -> is_ternary M = true.
Proof.
  induction M as [|x M IH]; intros i0 H; cbn [find_bad] in H; [reflexivity|].
  destruct (find_bad_row 0 x) as [j1|] eqn:Er; [discriminate|].
  unfold is_ternary, mat_forall. cbn [forallb].
  rewrite (find_bad_row_none _ _ Er). cbn [andb]. eapply IH; exact H.
Qed.

Lemma tern_neg_ok : forall x, (x = -1 \/ x = 0 \/ x = 1) -> is_ternary_entry (- x) = true.
Proof. intros x [->|[->| ->]]; reflexivity. Qed.

Lemma tern_line_ok : forall pv x, (x = -1 \/ x = 0 \/ x = 1) ->
  is_ternary_entry (if pv =? -1 then - x else x) = true.
Proof. intros pv x [->|[->| ->]]; destruct (pv =? -1); reflexivity. Qed.

(* entry-level fact: if the regular pivot leaves {-1,0,1} at (i,j), the 2x2 submatrix on rows
   r,i and columns c,j has determinant +-2 *)
Lemma reg_viol_vals : forall pv a b e,
  (pv = -1 \/ pv = 0 \/ pv = 1) -> pv <> 0 ->
  (a = -1 \/ a = 0 \/ a = 1) -> (b = -1 \/ b = 0 \/ b = 1) -> (e = -1 \/ e = 0 \/ e = 1) ->
  is_ternary_entry (e - pv * a * b) = false ->
  det 2 [[pv; b]; [a; e]] = 2 \/ det 2 [[pv; b]; [a; e]] = -2.
Proof.
  intros pv a b e [->|[->| ->]] H [->|[->| ->]] [->|[->| ->]] [->|[->| ->]] Hb;
    try (exfalso; apply H; reflexivity);
    vm_compute in Hb; first [discriminate Hb | left; reflexivity | right; reflexivity].
Qed.

Lemma reg_viol_vals_Z : forall pv a b e,
  (pv = -1 \/ pv = 0 \/ pv = 1) -> pv <> 0 ->
  (a = -1 \/ a = 0 \/ a = 1) -> (b = -1 \/ b = 0 \/ b = 1) -> (e = -1 \/ e = 0 \/ e = 1) ->
  ~ (e - pv * a * b = -1 \/ e - pv * a * b = 0 \/ e - pv * a * b = 1) ->
  pv * e - a * b = 2 \/ pv * e - a * b = -2.
Proof.
  intros pv a b e [->|[->| ->]] H [->|[->| ->]] [->|[->| ->]] [->|[->| ->]] Hb; lia.
Qed.

Lemma det2_explicit : forall x y z w, det 2 [[x; y]; [z; w]] = x * w - y * z.
Proof.
  intros x y z w. cbn [det alt_sum map del].
  destruct (Z.eqb_spec x 0) as [->|_]; destruct (Z.eqb_spec y 0) as [->|_];
  destruct (Z.eqb_spec z 0) as [->|_]; destruct (Z.eqb_spec w 0) as [->|_]; ring.
Qed.

Theorem regular_pivot_violator : forall m n M r c i j,
  wf_mat m n M = true -> is_ternary M = true -> (r < m)%nat -> (c < n)%nat -> get M r c <> 0 ->
  find_bad 0 (pivot_raw m n M r c) = Some (i, j) ->
  (i < m)%nat /\ (j < n)%nat /\ i <> r /\ j <> c /\
  (det 2 (submat M [r; i] [c; j]) = 2 \/ det 2 (submat M [r; i] [c; j]) = -2).
Proof.
  intros m n M r c i j Hwf Ht Hr Hc Hpv Hf.
  apply find_bad_spec in Hf. rewrite Nat.sub_0_r in Hf.
  destruct Hf as (_ & F2 & F3 & F4 & _ & _).
  pose proof (pivot_raw_wf m n M r c) as Rwf.
  rewrite (wf_mat_length _ _ _ Rwf) in F2.
  rewrite (wf_mat_row_length _ _ _ i Rwf F2) in F3.
  rewrite get_pivot_raw in F4 by assumption.
  pose proof (get_ternary M r c Ht) as Tpv.
  assert (Ni : i <> r).
  { intros ->. rewrite Nat.eqb_refl in F4. destruct (Nat.eqb j c).
    - rewrite tern_neg_ok in F4 by exact Tpv. discriminate.
    - rewrite tern_line_ok in F4 by (apply get_ternary; exact Ht). discriminate. }
  destruct (Nat.eqb_spec i r) as [Y|_]; [contradiction|].
  assert (Nj : j <> c).
  { intros ->. rewrite Nat.eqb_refl in F4.
    rewrite tern_line_ok in F4 by (apply get_ternary; exact Ht). discriminate. }
  destruct (Nat.eqb_spec j c) as [Y|_]; [contradiction|].
  repeat split; try assumption.
  unfold submat. cbn [map].
  apply reg_viol_vals; try assumption; apply get_ternary; exact Ht.
Qed.

(* consequence for the sequence model: a one-step regular pivot that reports a violator reports
   one that passes the executable certificate check of Det.v *)
Theorem regular_pivot_violator_checks : forall m n M r c vr vc,
  wf_mat m n M = true -> is_ternary M = true -> (r < m)%nat -> (c < n)%nat ->
  pivots (-3) m n M [r] [c] [] [] = PViol vr vc ->
  check_violator m n M vr vc = true.
Proof.
  intros m n M r c vr vc Hwf Ht Hr Hc H. cbn [pivots] in H.
  unfold pivot1 in H.
  destruct (Z.eqb_spec (modulo_nonneg (get M r c) (-3)) 0) as [E0|E0]; [discriminate|].
  change (-3 <? 0) with true in H. cbv iota in H.
  destruct (find_bad 0 (pivot_raw m n M r c)) as [[i j]|] eqn:Ef; [|discriminate].
  cbn [app] in H. inversion H; subst vr vc. clear H.
  assert (Hpv : get M r c <> 0) by (intros E; apply E0; rewrite E; reflexivity).
  destruct (regular_pivot_violator m n M r c i j Hwf Ht Hr Hc Hpv Ef)
    as (Hi & Hj & Ni & Nj & D).
  unfold check_violator. cbn [length all_lt forallb nodupn memn].
  apply Nat.ltb_lt in Hr, Hc, Hi, Hj. rewrite Hr, Hc, Hi, Hj.
  destruct (Nat.eqb_spec r i) as [Y|_]; [congruence|].
  destruct (Nat.eqb_spec c j) as [Y|_]; [congruence|].
  cbn [Nat.eqb andb orb negb].
  destruct D as [D|D]; rewrite D; reflexivity.
Qed.

(* ------------------------------------------------------------------------------------------ *)
(* 7. Non-vacuity                                                                               *)
(* ------------------------------------------------------------------------------------------ *)

Definition exB : mat := [[1; 1; 0]; [1; 0; 1]; [0; 1; 1]].
Definition exT : mat := [[1; -1; 0]; [1; 1; 1]; [0; 1; -1]].

Example ex_bpivot : bpivot 3 3 exB 0 0 = [[1; 1; 0]; [1; 1; 1]; [0; 1; 1]].
Proof. vm_compute. reflexivity. Qed.

Example ex_bpivot_invol : bpivot 3 3 (bpivot 3 3 exB 0 0) 0 0 = exB.
Proof. vm_compute. reflexivity. Qed.

Example ex_bpivot_hyps :
  wf_mat 3 3 exB = true /\ is_binary exB = true /\ get exB 0 0 = 1.
Proof. vm_compute. auto. Qed.

Example ex_tpivot : tpivot 3 3 exT 0 0 = [[-1; -1; 0]; [1; -1; 1]; [0; 1; -1]].
Proof. vm_compute. reflexivity. Qed.

Example ex_tpivot_twice :
  tpivot 3 3 (tpivot 3 3 exT 0 0) 0 0 = [[1; 1; 0]; [-1; 1; 1]; [0; 1; -1]].
Proof. vm_compute. reflexivity. Qed.

Example ex_tpivot_twice_neg :
  tpivot 3 3 (tpivot 3 3 exT 0 1) 0 1 = [[-1; -1; 0]; [1; -1; 1]; [0; -1; -1]].
Proof. vm_compute. reflexivity. Qed.

Example ex_tpivot_hyps :
  wf_mat 3 3 exT = true /\ is_ternary exT = true /\ get exT 0 0 <> 0 /\ get exT 0 1 = -1.
Proof. vm_compute. repeat split; discriminate. Qed.

Example ex_regular_viol :
  pivots (-3) 2 2 [[-1; -1]; [-1; 1]] [0%nat] [0%nat] [] [] = PViol [0; 1]%nat [0; 1]%nat.
Proof. vm_compute. reflexivity. Qed.

Example ex_regular_viol_det : det 2 (submat [[-1; -1]; [-1; 1]] [0; 1]%nat [0; 1]%nat) = -2.
Proof. vm_compute. reflexivity. Qed.

Example ex_regular_ok :
  pivots (-3) 2 2 [[1; 1]; [0; 1]] [0%nat] [0%nat] [] [] = POk [[-1; 1]; [0; 1]].
Proof. vm_compute. reflexivity. Qed.

Example ex_basis_exchange_ternary :
  map (fun i => map (fun k =>
         (rowop 3 exT 0 1 i k - ext 3 (negcol 3 3 (tpivot 3 3 exT 0 1) 1) i (swap 3 0 1 k)) mod 3)
       (iota 0 6)) (iota 0 3) = mk_mat 3 6 (fun _ _ => 0).
Proof. vm_compute. reflexivity. Qed.

(* the column negation matters over GF(3): without it the identity fails *)
Example ex_basis_exchange_ternary_needs_negcol :
  (rowop 3 exT 0 1 0 0 - ext 3 (tpivot 3 3 exT 0 1) 0 (swap 3 0 1 0)) mod 3 <> 0.
Proof. vm_compute. discriminate. Qed.

Example ex_basis_exchange_binary :
  map (fun i => map (fun k =>
         (rowop 3 exB 0 0 i k - ext 3 (negcol 3 3 (bpivot 3 3 exB 0 0) 0) i (swap 3 0 0 k)) mod 2)
       (iota 0 6)) (iota 0 3) = mk_mat 3 6 (fun _ _ => 0).
Proof. vm_compute. reflexivity. Qed.

Print Assumptions binary_pivot_involution.
Print Assumptions ternary_pivot_twice.
Print Assumptions pivot_is_basis_exchange_gen.
Print Assumptions binary_pivot_is_basis_exchange.
Print Assumptions ternary_pivot_is_basis_exchange.
Print Assumptions pivot_is_basis_exchange.
Print Assumptions regular_pivot_violator.
Print Assumptions regular_pivot_violator_checks.

(* ------------------------------------------------------------------------------------------ *)
(* What acceptance by judge_pivot means                                                         *)
(* ------------------------------------------------------------------------------------------ *)

Definition pivot_input :=
  q <- dZ ;; x <- dmat ;; rs <- dlist dnat ;; cs <- dlist dnat ;;
  rc <- dZ ;; res <- dopt_csr ;; viol <- dopt_sub ;;
  rc1 <- dZ ;; res1 <- dopt_csr ;; viol1 <- dopt_sub ;;
  dend (q, x, rs, cs, rc, res, viol, rc1, res1, viol1).

Definition pivot_domain (q : Z) (m n : nat) (M : mat) (rs cs : list nat) : bool :=
  ((q =? 2) || (q =? 3) || (q =? -3)) && in_domain q M && wf_mat m n M &&
  Nat.eqb (length rs) (length cs) && all_lt m rs && all_lt n cs && nodupn rs && nodupn cs.

Lemma same_shape_eq_spec : forall m n M o,
  same_shape_eq m n M o = true -> exists R, o = Some (m, n, R) /\ R = M.
Proof.
  intros m n M [[[m' n'] R]|] H; cbn in H; [|discriminate].
  apply andb_true_iff in H. destruct H as [H H3]. apply andb_true_iff in H. destruct H as [H1 H2].
  apply Nat.eqb_eq in H1. apply Nat.eqb_eq in H2. apply mat_eqb_eq in H3. subst. eauto.
Qed.

Theorem judge_pivot_sound : forall rec q m n M rs cs rc res viol rc1 res1 viol1 rest,
  pivot_input rec = Some ((q, (m, n, M), rs, cs, rc, res, viol, rc1, res1, viol1), rest) ->
  pivot_domain q m n M rs cs = true ->
  judge_pivot rec = 0 ->
  match pivots q m n M rs cs [] [] with
  | PErr => rc = 1 /\ rc1 = 1
  | POk R => rc = 0 /\ res = Some (m, n, reduce q R) /\ rc1 = 0 /\ res1 = Some (m, n, reduce q R) /\
             viol = None /\ viol1 = None
  | PViol _ _ => rc = 0 /\ res = None /\ exists ar ac, viol = Some (ar, ac) /\ check_violator m n M ar ac = true
  end.
Proof.
  intros rec q m n M rs cs rc res viol rc1 res1 viol1 rest Hdec Hdom Hj.
  unfold judge_pivot in Hj. unfold pivot_input in Hdec. rewrite Hdec in Hj.
  unfold pivot_domain in Hdom. rewrite Hdom in Hj. cbn [negb] in Hj.
  destruct (pivots q m n M rs cs [] []) as [R| |vr vc].
  - destruct (rc =? 0) eqn:Hrc; cbn [negb] in Hj; [|discriminate]. apply Z.eqb_eq in Hrc.
    destruct (same_shape_eq m n (reduce q R) res) eqn:Hs; cbn [negb] in Hj; [|discriminate].
    destruct (rc1 =? 0) eqn:Hrc1; cbn [negb] in Hj; [|discriminate]. apply Z.eqb_eq in Hrc1.
    destruct (same_shape_eq m n (reduce q R) res1) eqn:Hs1; cbn [negb] in Hj; [|discriminate].
    apply same_shape_eq_spec in Hs. destruct Hs as [R1 [-> ->]].
    apply same_shape_eq_spec in Hs1. destruct Hs1 as [R2 [-> ->]].
    destruct viol; [discriminate|]. destruct viol1; [discriminate|]. auto 10.
  - destruct ((rc =? 1) && (rc1 =? 1)) eqn:H; [|discriminate].
    apply andb_true_iff in H. destruct H as [H1 H2]. apply Z.eqb_eq in H1. apply Z.eqb_eq in H2. auto.
  - destruct (rc =? 0) eqn:Hrc; cbn [negb] in Hj; [|discriminate]. apply Z.eqb_eq in Hrc.
    destruct res; [discriminate|]. destruct viol as [[ar ac]|]; [|discriminate].
    destruct (check_violator m n M ar ac) eqn:Hc; [|discriminate].
    split; [auto|]. split; [auto|]. exists ar, ac. auto.
Qed.
