(* Det.v — executable determinant (Laplace expansion along the first row), enumeration of
   increasing index lists, and the brute-force total-unimodularity oracle.  No proofs here. *)
From Cmr Require Import Base.
Local Open Scope Z_scope.

(* delete position j of a list *)
Fixpoint del {A} (j : nat) (l : list A) : list A :=
  match l, j with
  | [], _ => []
  | _ :: r, O => r
  | x :: r, S k => x :: del k r
  end.

(* sum_j (-1)^j * r_j * f j, over the positions of r, starting with sign s at position j0 *)
Fixpoint alt_sum (s : Z) (j0 : nat) (r : list Z) (f : nat -> Z) : Z :=
  match r with
  | [] => 0
  | x :: r' => (if x =? 0 then 0 else s * x * f j0) + alt_sum (- s) (S j0) r' f
  end.

(* determinant of the k x k matrix formed by the first k rows of M (each of length k) *)
Fixpoint det (k : nat) (M : mat) : Z :=
  match k with
  | O => 1
  | S k' =>
    match M with
    | [] => 0
    | r :: rest => alt_sum 1 0 r (fun j => det k' (map (del j) rest))
    end
  end.

(* all strictly increasing lists of length k drawn from l (in lexicographic order) *)
Fixpoint subseqs (k : nat) (l : list nat) : list (list nat) :=
  match k with
  | O => [[]]
  | S k' =>
    match l with
    | [] => []
    | x :: r => map (cons x) (subseqs k' r) ++ subseqs (S k') r
    end
  end.

Definition small_det (d : Z) : bool := (d =? 0) || (d =? 1) || (d =? -1).

(* all k x k submatrices (increasing row and column index lists) have determinant in {-1,0,1} *)
Definition tu_order (m n : nat) (M : mat) (k : nat) : bool :=
  forallb (fun rs => forallb (fun cs => small_det (det k (submat M rs cs))) (subseqs k (iota 0 n)))
          (subseqs k (iota 0 m)).

Definition tu_bf (m n : nat) (M : mat) : bool :=
  forallb (tu_order m n M) (iota 1 (Nat.min m n)).

(* certificate check for a violating submatrix: equal sizes, in range, no repetition, |det| >= 2 *)
Definition check_violator (m n : nat) (M : mat) (rs cs : list nat) : bool :=
  Nat.eqb (length rs) (length cs) && all_lt m rs && all_lt n cs && nodupn rs && nodupn cs &&
  negb (small_det (det (length rs) (submat M rs cs))).

(* minimal violator (documented for ternary input): |det| = 2 and deleting any one row and any one
   column leaves a TU matrix *)
Definition check_min_violator (m n : nat) (M : mat) (rs cs : list nat) : bool :=
  check_violator m n M rs cs &&
  (let d := det (length rs) (submat M rs cs) in (d =? 2) || (d =? -2)) &&
  (let k := length rs in let S := submat M rs cs in
   forallb (fun i => tu_bf (k - 1) k (del i S)) (iota 0 k) &&
   forallb (fun j => tu_bf k (k - 1) (map (del j) S)) (iota 0 k)).
