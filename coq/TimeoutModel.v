(* TimeoutModel.v — C18 / C19: the time-limit rule shared by all time-limited functions, the clock schedule of the
   injection harness, and the judges for the records of the `tlimit`, `hist` and `threads` harness modes.  No proofs. *)
From Cmr Require Import Base.
Local Open Scope Z_scope.

(* ---------- the rule in the code ----------
   every time-limited function remembers the clock value at its entry (`start`) and, at each of its check points,
   computes  remainingTime = timeLimit - (clock() - start) / CLOCKS_PER_SEC  and gives up when remainingTime <= 0
   (some sites test  (clock() - start) / CLOCKS_PER_SEC > timeLimit  instead; the two differ only when the elapsed time
   equals the limit exactly, which the injected schedule below never produces).  In clock ticks: *)
Definition expired (limit_ticks start now : Z) : bool := limit_ticks <=? now - start.

(* ---------- the injected clock ----------
   read number r (r = 0, 1, 2, ...) returns r ticks; from read number k on it returns JUMP + r ticks *)
Definition JUMP : Z := 2000 * 1000000.
Definition LIMIT : Z := 1000 * 1000000.
Definition clk (k : option Z) (r : Z) : Z :=
  match k with Some j => if j <=? r then JUMP + r else r | None => r end.

(* a check at read number c of a function that was entered at read number s (s < c) *)
Definition fires (k : option Z) (s c : Z) : bool := expired LIMIT (clk k s) (clk k c).

(* ---------- tlimit records ----------
   record: sub N nk (k timeouts nonnull sameB sameC usageB usageC leaked modified)*nk
   per injected run: B = run under the limit with the clock jumping at read k, C = the same call again on the same
   environment without limit, A = reference run on a fresh environment *)
Record trun := { t_k : Z; t_timeouts : Z; t_nonnull : Z; t_sameB : Z; t_sameC : Z;
                 t_usageB : Z; t_usageC : Z; t_leaked : Z; t_modified : Z }.

Definition dtrun : dec trun :=
  k <- dZ ;; a <- dZ ;; b <- dZ ;; c <- dZ ;; d <- dZ ;; e <- dZ ;; f <- dZ ;; g <- dZ ;; h <- dZ ;;
  dret {| t_k := k; t_timeouts := a; t_nonnull := b; t_sameB := c; t_sameC := d;
          t_usageB := e; t_usageC := f; t_leaked := g; t_modified := h |}.

Definition trun_code (r : trun) : Z :=
  if negb (t_usageB r =? 0) then 61          (* scratch stack not balanced after the time-limited call *)
  else if negb (t_leaked r =? 0) then 63     (* heap memory lost *)
  else if (t_timeouts r =? 0) && negb (t_sameB r =? 1) then 65   (* success, but not the answer of the unlimited run *)
  else if negb (t_timeouts r =? 0) && negb (t_nonnull r =? 0) then 66   (* timeout, but an output object was handed out *)
  else if negb (t_modified r =? 0) then 64   (* an input matrix was modified *)
  else if negb (t_usageC r =? 0) then 62     (* scratch stack not balanced after the retry *)
  else if negb (t_sameC r =? 1) then 60      (* the same environment no longer computes the reference answer *)
  else 0.

Fixpoint first_code {A} (f : A -> Z) (l : list A) : Z :=
  match l with [] => 0 | x :: r => if f x =? 0 then first_code f r else f x end.

(* when all reads are enumerated (nk = N + 1) the k's must be exactly 0..N *)
Definition ks_complete (N : Z) (runs : list trun) : bool :=
  zlist_eqb (map t_k runs) (map Z.of_nat (iota 0 (length runs))) && (Z.of_nat (length runs) =? N + 1).
Definition ks_in_range (N : Z) (runs : list trun) : bool :=
  forallb (fun r => (0 <=? t_k r) && (t_k r <=? N)) runs.

Definition judge_tlimit (rec : list Z) : Z :=
  match (sub <- dZ ;; N <- dZ ;; runs <- dlist dtrun ;; dend (sub, N, runs)) rec with
  | Some ((sub, N, runs), _) =>
    if negb (ks_in_range N runs) then 1
    else first_code trun_code runs
  | None => 1
  end.

(* ---------- hist records ----------
   record: ncalls (sub k sameHist sameRepeat samePoison00 samePoisonFF modified usageAfter)*ncalls *)
Record hcall := { h_sub : Z; h_k : Z; h_hist : Z; h_repeat : Z; h_p00 : Z; h_pff : Z; h_modified : Z; h_usage : Z }.
Definition dhcall : dec hcall :=
  a <- dZ ;; b <- dZ ;; c <- dZ ;; d <- dZ ;; e <- dZ ;; f <- dZ ;; g <- dZ ;; h <- dZ ;;
  dret {| h_sub := a; h_k := b; h_hist := c; h_repeat := d; h_p00 := e; h_pff := f; h_modified := g; h_usage := h |}.

Definition hcall_code (c : hcall) : Z :=
  if negb (h_modified c =? 0) then 73        (* input matrix modified / scratch chunks freed out of order *)
  else if negb (h_usage c =? 0) then 74      (* scratch stack not balanced after the call *)
  else if negb ((h_p00 c =? 1) && (h_pff c =? 1)) then 72   (* result depends on the bytes found in fresh scratch memory *)
  else if negb (h_hist c =? 1) then 70       (* result depends on the calls made before on the same environment *)
  else if negb (h_repeat c =? 1) then 71     (* the second of two identical calls answers differently *)
  else 0.

Definition judge_hist (rec : list Z) : Z :=
  match (calls <- dlist dhcall ;; dend calls) rec with
  | Some (calls, _) => first_code hcall_code calls
  | None => 1
  end.

(* ---------- threads records: nthreads ncalls totalRuns mismatches modified ---------- *)
Definition judge_threads (rec : list Z) : Z :=
  match rec with
  | [nt; nc; total; mism; modi] =>
    if negb (total =? nt * nc) then 1
    else if negb (modi =? 0) then 73
    else if negb (mism =? 0) then 75         (* a result differs from the single-threaded reference *)
    else 0
  | _ => 1
  end.
