(* Properties_C02.v — C02: the regularity verdict of 0/1 matrices equals signability to a TU matrix. *)
From Coq Require Import ZArith List.
From mathcomp Require Import all_ssreflect all_algebra.
From mathcomp Require Import ssrZ.
From Cmr Require Import Base Det TuModel TuProofs TuJudgeProofs RegularProofs.
Import mathcomp.ssreflect.seq.

(* M is regular: its nonzeros can be replaced by +1/-1 (zeros stay) such that the result is totally unimodular
   in the sense of the determinant definition *)
Definition Regular01 (m n : nat) (M : mat) : Prop :=
  is_binary M = true /\ exists S, signing_of M S /\ TUmx (mx_of m n S).

Lemma regular_bf_is_definition m n (M : mat) : wf_mat m n M = true ->
  (regular_bf m n M = true <-> Regular01 m n M).
Proof.
move=> Hwf; rewrite (regular_bf_spec _ _ _ Hwf); split.
- by move=> [Hb [S [HS Ht]]]; split=> //; exists S; split=> //; apply/tu_bfP.
- by move=> [Hb [S [HS /tu_bfP Ht]]]; split=> //; exists S.
Qed.

(* the oracle the library's verdict is compared with is the definition, for every 0/1 matrix of every shape *)
Theorem C02_oracle_is_definition : forall m n (M : mat), wf_mat m n M = true ->
  (regular_bf m n M = true <-> Regular01 m n M).
Proof. exact regular_bf_is_definition. Qed.
Print Assumptions C02_oracle_is_definition.

(* a signing keeps shape and support *)
Theorem C02_signing_keeps_support : forall (M S : mat), signing_of M S ->
  forall i j, (get S i j = Z0 <-> get M i j = Z0).
Proof. exact signing_of_support. Qed.
Print Assumptions C02_signing_keeps_support.

(* whenever the judge accepts a record of CMRregularTest (any parameter combination): CMR_OKAY, a reported
   verdict equals the oracle (a matrix with an entry outside {0,1} is "not regular" because regular_bf requires
   is_binary), and the verdict may be left unwritten only under a (co)graphicness stop flag *)
Theorem C02_accepted_verdict : forall rec cfg m n (M : mat) rc v rest,
  regular_input rec = Some ((cfg, (m, n, M), rc, v), rest) ->
  judge_regular rec = Z0 ->
  rc = Z0 /\ (v = Z0 \/ v = Zpos xH \/ (v = Zpos (xO xH) /\ cfg_stopflags cfg = true)) /\
  (v = Zpos xH -> regular_bf m n M = true) /\ (v = Z0 -> regular_bf m n M = false).
Proof. exact judge_regular_sound. Qed.
Print Assumptions C02_accepted_verdict.

(* the row-by-row search prunes with a hereditary test: TU of a matrix implies TU of every row prefix *)
Theorem C02_tu_prefix : forall m n (S : mat) k, (k <= m)%coq_nat -> length S = m ->
  tu_bf m n S = true -> tu_bf k n (firstn k S) = true.
Proof. exact tu_bf_prefix. Qed.
Print Assumptions C02_tu_prefix.
