(* Properties_C02.v — C02: the regularity verdict of 0/1 matrices equals signability to a TU matrix. *)
From Coq Require Import ZArith List.
From mathcomp Require Import all_ssreflect all_algebra.
From mathcomp Require Import ssrZ.
From Cmr Require Import Base Det TuModel TuProofs TuJudgeProofs RegularProofs.
Import mathcomp.ssreflect.seq.

(* M is regular: its nonzeros can be replaced by +1/-1 (zeros stay) such that the result is totally unimodular
   in the sense of the determinant definition *)
Definition Regular01 (m n : nat) (M : mat) : Prop :=
  is_binary M = true /\ exists S, signing_of M S /\ TUmx (mx_of m n S).

Lemma regular_bf_is_definition m n (M : mat) : wf_mat m n M = true ->
  (regular_bf m n M = true <-> Regular01 m n M).
Proof.
move=> Hwf; rewrite (regular_bf_spec _ _ _ Hwf); split.
- by move=> [Hb [S [HS Ht]]]; split=> //; exists S; split=> //; apply/tu_bfP.
- by move=> [Hb [S [HS /tu_bfP Ht]]]; split=> //; exists S.
Qed.

(* the oracle the library's verdict is compared with is the definition, for every 0/1 matrix of every shape *)
Theorem C02_oracle_is_definition : forall m n (M : mat), wf_mat m n M = true ->
  (regular_bf m n M = true <-> Regular01 m n M).
Proof. exact regular_bf_is_definition. Qed.
Print Assumptions C02_oracle_is_definition.

(* a signing keeps shape and support *)
Theorem C02_signing_keeps_support : forall (M S : mat), signing_of M S ->
  forall i j, (get S i j = Z0 <-> get M i j = Z0).
Proof. exact signing_of_support. Qed.
Print Assumptions C02_signing_keeps_support.

(* whenever the judge accepts a record of CMRregularTest (any parameter combination): CMR_OKAY, a reported
   verdict equals the oracle (a matrix with an entry outside {0,1} is "not regular" because regular_bf requires
   is_binary), and the verdict may be left unwritten only under a (co)graphicness stop flag *)
Theorem C02_accepted_verdict : forall rec cfg m n (M : mat) rc v rest,
  regular_input rec = Some ((cfg, (m, n, M), rc, v), rest) ->
  judge_regular rec = Z0 ->
  rc = Z0 /\ (v = Z0 \/ v = Zpos xH \/ (v = Zpos (xO xH) /\ cfg_stopflags cfg = true)) /\
  (v = Zpos xH -> regular_bf m n M = true) /\ (v = Z0 -> regular_bf m n M = false).
Proof. exact judge_regular_sound. Qed.
Print Assumptions C02_accepted_verdict.

(* the row-by-row search prunes with a hereditary test: TU of a matrix implies TU of every row prefix *)
Theorem C02_tu_prefix : forall m n (S : mat) k, (k <= m)%coq_nat -> length S = m ->
  tu_bf m n S = true -> tu_bf k n (firstn k S) = true.
Proof. exact tu_bf_prefix. Qed.
Print Assumptions C02_tu_prefix.

(* ---------- every size: certified 0/1 matrices.  A graph witness for the matrix or its transpose (GraphicRegular.v), or a
   matrix that binary series-parallel reductions reduce to nothing (SpTU.v), is regular by the definition-level oracle, so an
   accepted `regular_cert` record carries a verdict that equals the definition although no brute-force oracle could decide it *)
From Cmr Require GraphModel RegCertModel RegCertProofs SpModel SpTU.
Theorem C02_graphic_and_cographic_matrices_of_every_size : forall rec cfg m n M rc v tr G f c r rest,
  RegCertModel.regular_cert_input rec = Some ((cfg, (m, n, M), rc, v, tr, GraphModel.WGraph G f c r), rest) ->
  wf_mat m n M = true -> is_binary M = true -> RegCertModel.cert_holds tr m n M G f c = true ->
  RegCertModel.judge_regular_cert rec = Z0 ->
  rc = Z0 /\ regular_bf m n M = true /\ (v = Zpos (xO xH) -> cfg_stopflags cfg = true) /\ (v <> Zpos (xO xH) -> v = Zpos xH).
Proof. exact RegCertProofs.judge_regular_cert_sound. Qed.
Print Assumptions C02_graphic_and_cographic_matrices_of_every_size.

Theorem C02_series_parallel_matrices_of_every_size : forall rec cfg m n M rc v tr rest,
  RegCertModel.regular_cert_input rec = Some ((cfg, (m, n, M), rc, v, tr, GraphModel.WNone), rest) ->
  wf_mat m n M = true -> is_binary M = true -> SpModel.sp_greedy false m n M = true ->
  RegCertModel.judge_regular_cert rec = Z0 ->
  rc = Z0 /\ regular_bf m n M = true /\ (v = Zpos (xO xH) -> cfg_stopflags cfg = true) /\ (v <> Zpos (xO xH) -> v = Zpos xH).
Proof. exact RegCertProofs.judge_regular_cert_sound_sp. Qed.
Print Assumptions C02_series_parallel_matrices_of_every_size.

Theorem C02_series_parallel_is_regular : forall m n M, wf_mat m n M = true -> is_binary M = true ->
  SpModel.sp_greedy false m n M = true -> regular_bf m n M = true.
Proof. exact SpTU.sp_binary_regular. Qed.
Print Assumptions C02_series_parallel_is_regular.

(* ---------- the judge accepts EXACTLY the records that satisfy its specification: besides soundness (above) also completeness,
   i.e. a record of a correct answer is never rejected (JudgeComplete1.v) ---------- *)
From Cmr Require JudgeComplete1.
Theorem C02_judge_regular_accepts_exactly_the_specification :
    forall (rec cfg : list Z) (m n : nat) (M : mat) (rc v : Z) (rest : list Z),
    TuJudgeProofs.regular_input rec = Some (cfg, (m, n, M), rc, v, rest) ->
    TuModel.judge_regular rec = 0%Z <-> JudgeComplete1.regular_spec cfg m n M rc v.
Proof. exact JudgeComplete1.judge_regular_iff. Qed.
Print Assumptions C02_judge_regular_accepts_exactly_the_specification.
Theorem C02_judge_regular_cert_accepts_exactly_the_specification :
    forall (rec cfg : list Z) (m n : nat) (M : mat) (rc v : Z) (tr : bool) (w : GraphModel.witness)
    (rest : list Z),
    RegCertModel.regular_cert_input rec = Some (cfg, (m, n, M), rc, v, tr, w, rest) ->
    RegCertModel.judge_regular_cert rec = 0%Z <-> JudgeComplete1.regular_cert_spec cfg m n M rc v tr w.
Proof. exact JudgeComplete1.judge_regular_cert_iff. Qed.
Print Assumptions C02_judge_regular_cert_accepts_exactly_the_specification.
