From Cmr Require Import Base Det TuModel.
Theorem placeholder_C02 : True. Proof. exact I. Qed.
