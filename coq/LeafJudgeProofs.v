(* LeafJudgeProofs.v — soundness of judge_leaf *)
From Cmr Require Import Base BaseProofs PivotModel LeafSem LeafGen LeafModel.
Local Open Scope Z_scope.

Definition leaf_input := fn <- dZ ;; args <- dlist dZ ;; r <- dZ ;; dend (fn, args, r).

Theorem judge_leaf_sound : forall rec, judge_leaf rec = 0 ->
  exists fn args r rest, leaf_input rec = Some ((fn, args, r), rest) /\
    leaf_gen fn args = Some (Some r) /\ leaf_spec fn args r = true.
Proof.
  intros rec H. unfold judge_leaf in H. fold leaf_input in H.
  destruct (leaf_input rec) as [[[[fn args] r] rest]|] eqn:E; [|discriminate].
  exists fn, args, r, rest. split; [reflexivity|].
  destruct (leaf_gen fn args) as [[g|]|]; try discriminate.
  destruct (g =? r) eqn:G; cbn [negb] in H; [|discriminate].
  apply Z.eqb_eq in G. subst g.
  destruct (leaf_spec fn args r); [auto|discriminate].
Qed.
Print Assumptions judge_leaf_sound.
