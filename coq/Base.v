(* Base.v — executable basics shared by all models: dense matrices as lists of rows, sparse
   (compressed-row) matrices exactly as CMR stores them, and the decoders that turn one record
   line of the correspondence stream (a list of integers) into structured data.
   No proofs here: everything in this file is extracted and must run even when a proof breaks. *)
From Coq Require Export List ZArith Bool Lia.
Export ListNotations.
Local Open Scope Z_scope.

Definition mat := list (list Z).

(* ---------- generic list helpers ---------- *)

Fixpoint nthZ (l : list Z) (i : nat) : Z :=
  match l, i with
  | [], _ => 0
  | x :: _, O => x
  | _ :: r, S k => nthZ r k
  end.

Fixpoint nthR (M : mat) (i : nat) : list Z :=
  match M, i with
  | [], _ => []
  | x :: _, O => x
  | _ :: r, S k => nthR r k
  end.

Definition get (M : mat) (i j : nat) : Z := nthZ (nthR M i) j.

Fixpoint list_eqb {A} (eqb : A -> A -> bool) (a b : list A) : bool :=
  match a, b with
  | [], [] => true
  | x :: a', y :: b' => eqb x y && list_eqb eqb a' b'
  | _, _ => false
  end.

Definition zlist_eqb := list_eqb Z.eqb.
Definition mat_eqb : mat -> mat -> bool := list_eqb zlist_eqb.
Definition natlist_eqb := list_eqb Nat.eqb.

Fixpoint iota (s k : nat) : list nat :=
  match k with O => [] | S k' => s :: iota (S s) k' end.

(* m x n matrix from an entry function *)
Definition mk_mat (m n : nat) (f : nat -> nat -> Z) : mat :=
  map (fun i => map (fun j => f i j) (iota 0 n)) (iota 0 m).

Definition wf_mat (m n : nat) (M : mat) : bool :=
  Nat.eqb (length M) m && forallb (fun r => Nat.eqb (length r) n) M.

Definition transpose (m n : nat) (M : mat) : mat := mk_mat n m (fun i j => get M j i).

Definition submat (M : mat) (rs cs : list nat) : mat :=
  map (fun i => map (fun j => get M i j) cs) rs.

Fixpoint memn (x : nat) (l : list nat) : bool :=
  match l with [] => false | y :: r => Nat.eqb x y || memn x r end.

Fixpoint nodupn (l : list nat) : bool :=
  match l with [] => true | x :: r => negb (memn x r) && nodupn r end.

Definition all_lt (k : nat) (l : list nat) : bool := forallb (fun x => Nat.ltb x k) l.

Definition is_ternary_entry (x : Z) : bool := (x =? 0) || (x =? 1) || (x =? -1).
Definition is_binary_entry (x : Z) : bool := (x =? 0) || (x =? 1).
Definition mat_forall (p : Z -> bool) (M : mat) : bool := forallb (forallb p) M.
Definition is_ternary (M : mat) := mat_forall is_ternary_entry M.
Definition is_binary (M : mat) := mat_forall is_binary_entry M.

Definition support (M : mat) : mat := map (map (fun x => if x =? 0 then 0 else 1)) M.

(* C remainder (sign of the dividend), as in the C99 `%` operator *)
Definition crem (a b : Z) : Z := Z.rem a b.

(* ---------- decoding record lines ---------- *)

Definition dec (A : Type) := list Z -> option (A * list Z).

Definition dret {A} (a : A) : dec A := fun l => Some (a, l).
Definition dbind {A B} (d : dec A) (f : A -> dec B) : dec B :=
  fun l => match d l with Some (a, r) => f a r | None => None end.
Notation "x <- d ;; e" := (dbind d (fun x => e)) (at level 61, d at next level, right associativity).

Definition dZ : dec Z := fun l => match l with x :: r => Some (x, r) | [] => None end.
(* sizes and indices: non-negative and at most 10^7 (anything larger in a record is garbage, e.g. an
   uninitialised count; decoding then fails and the judge reports a malformed record) *)
Definition dnat : dec nat :=
  fun l => match l with
           | x :: r => if (x <? 0) || (10000000 <? x) then None else Some (Z.to_nat x, r)
           | [] => None end.
Definition dbool : dec bool :=
  fun l => match l with x :: r => Some (negb (x =? 0), r) | [] => None end.
(* an index or -1 for "none" *)
Definition dopt : dec (option nat) :=
  fun l => match l with
           | x :: r => if x =? -1 then Some (None, r) else if x <? 0 then None else Some (Some (Z.to_nat x), r)
           | [] => None end.

Fixpoint drep {A} (d : dec A) (k : nat) : dec (list A) :=
  match k with
  | O => dret []
  | S k' => x <- d ;; xs <- drep d k' ;; dret (x :: xs)
  end.

(* length-prefixed list *)
Definition dlist {A} (d : dec A) : dec (list A) := k <- dnat ;; drep d k.

(* dense matrix: m n then m*n entries, row-major *)
Definition dmat : dec (nat * nat * mat) :=
  m <- dnat ;; n <- dnat ;; rows <- drep (drep dZ n) m ;; dret (m, n, rows).

Definition dend {A} (a : A) : dec A := fun l => match l with [] => Some (a, []) | _ => None end.

(* ---------- compressed sparse row matrices, as CMR_CHRMAT / CMR_INTMAT store them ---------- *)

Record csr := { c_rows : nat; c_cols : nat; c_nnz : nat;
                c_slice : list nat; c_ecols : list nat; c_evals : list Z }.

Definition dcsr : dec csr :=
  m <- dnat ;; n <- dnat ;; z <- dnat ;;
  sl <- drep dnat (S m) ;; ec <- drep dnat z ;; ev <- drep dZ z ;;
  dret {| c_rows := m; c_cols := n; c_nnz := z; c_slice := sl; c_ecols := ec; c_evals := ev |}.

Fixpoint nthn (l : list nat) (i : nat) : nat :=
  match l, i with
  | [], _ => O
  | x :: _, O => x
  | _ :: r, S k => nthn r k
  end.

Fixpoint firstn' {A} (k : nat) (l : list A) : list A :=
  match k, l with S k', x :: r => x :: firstn' k' r | _, _ => [] end.
Fixpoint skipn' {A} (k : nat) (l : list A) : list A :=
  match k, l with S k', _ :: r => skipn' k' r | _, _ => l end.
Definition slice {A} (l : list A) (a b : nat) : list A := firstn' (b - a) (skipn' a l).

Fixpoint strictly_increasing (l : list nat) : bool :=
  match l with
  | [] => true
  | x :: r => match r with [] => true | y :: _ => Nat.ltb x y && strictly_increasing r end
  end.

Fixpoint monotone (l : list nat) : bool :=
  match l with
  | [] => true
  | x :: r => match r with [] => true | y :: _ => Nat.leb x y && monotone r end
  end.

(* The library's documented invariant (matrix.h / CMRchrmatConsistency, plus the column range that
   CMRchrmatConsistency omits): slices start at 0, are monotone, end at nnz; within each row the
   columns are strictly increasing and below numColumns; no stored zero. *)
Definition csr_wf (s : csr) : bool :=
  Nat.eqb (length (c_slice s)) (S (c_rows s)) &&
  Nat.eqb (nthn (c_slice s) 0) 0 &&
  Nat.eqb (nthn (c_slice s) (c_rows s)) (c_nnz s) &&
  monotone (c_slice s) &&
  Nat.eqb (length (c_ecols s)) (c_nnz s) && Nat.eqb (length (c_evals s)) (c_nnz s) &&
  forallb (fun i => let a := nthn (c_slice s) i in let b := nthn (c_slice s) (S i) in
                    strictly_increasing (slice (c_ecols s) a b) &&
                    all_lt (c_cols s) (slice (c_ecols s) a b)) (iota 0 (c_rows s)) &&
  forallb (fun v => negb (v =? 0)) (c_evals s).

Fixpoint row_of_entries (n : nat) (start : nat) (cols : list nat) (vals : list Z) : list Z :=
  match n with
  | O => []
  | S n' =>
    match cols, vals with
    | c :: cr, v :: vr => if Nat.eqb c start then v :: row_of_entries n' (S start) cr vr
                          else 0 :: row_of_entries n' (S start) cols vals
    | _, _ => 0 :: row_of_entries n' (S start) cols vals
    end
  end.

Definition dense_of_csr (s : csr) : mat :=
  map (fun i => let a := nthn (c_slice s) i in let b := nthn (c_slice s) (S i) in
                row_of_entries (c_cols s) 0 (slice (c_ecols s) a b) (slice (c_evals s) a b))
      (iota 0 (c_rows s)).

(* decode a CSR matrix, insist on well-formedness, return it dense *)
Definition dcsr_dense : dec (nat * nat * mat) :=
  fun l => match dcsr l with
           | Some (s, r) => if csr_wf s then Some ((c_rows s, c_cols s, dense_of_csr s), r) else None
           | None => None
           end.

(* judge result codes shared by all judges *)
Definition J_OK : Z := 0.
Definition J_MALFORMED : Z := 1.      (* record does not decode (includes: returned CSR not well-formed) *)
