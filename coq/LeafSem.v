(* LeafSem.v — C semantics of the integer expressions that occur in the pure leaf functions translated by
   tools/c2gallina.py: values are Z, every operation checks the range of its C type.  `None` = the C program has
   undefined behaviour (signed overflow, division by zero) or uses an implementation-defined conversion that the
   translation does not cover (a value that does not fit the signed target type of a cast).  No proofs here. *)
From Coq Require Import ZArith Bool.
Local Open Scope Z_scope.

Inductive cty := I32 | I64 | U64 | CB.

Definition wrap (t : cty) (x : Z) : option Z :=
  match t with
  | I32 => if (-2147483648 <=? x) && (x <=? 2147483647) then Some x else None
  | I64 => if (-9223372036854775808 <=? x) && (x <=? 9223372036854775807) then Some x else None
  | U64 => Some (x mod 18446744073709551616)
  | CB => Some (if x =? 0 then 0 else 1)
  end.

Definition obind {A B} (o : option A) (f : A -> option B) : option B := match o with Some a => f a | None => None end.
Notation "x <-- o ;; k" := (obind o (fun x => k)) (at level 61, o at next level, right associativity).

Definition c_add (t : cty) (a b : Z) := wrap t (a + b).
Definition c_sub (t : cty) (a b : Z) := wrap t (a - b).
Definition c_mul (t : cty) (a b : Z) := wrap t (a * b).
Definition c_neg (t : cty) (a : Z) := wrap t (- a).
Definition c_div (t : cty) (a b : Z) := if b =? 0 then None else wrap t (Z.quot a b).
(* a % b is undefined when a / b is not representable *)
Definition c_rem (t : cty) (a b : Z) :=
  if b =? 0 then None else match wrap t (Z.quot a b) with Some _ => wrap t (Z.rem a b) | None => None end.
Definition c_cast (t : cty) (a : Z) := wrap t a.
(* bitwise operators: only on the unsigned 64-bit type (the translator refuses them on signed operands); operands are
   values of the type, i.e. in [0, 2^64).  A shift count that is negative or >= the width is undefined. *)
Definition c_or (t : cty) (a b : Z) := match t with U64 => wrap t (Z.lor a b) | _ => None end.
Definition c_and (t : cty) (a b : Z) := match t with U64 => wrap t (Z.land a b) | _ => None end.
Definition c_xor (t : cty) (a b : Z) := match t with U64 => wrap t (Z.lxor a b) | _ => None end.
Definition c_shr (t : cty) (a b : Z) :=
  match t with U64 => if (0 <=? b) && (b <? 64) then wrap t (Z.shiftr a b) else None | _ => None end.
Definition c_shl (t : cty) (a b : Z) :=
  match t with U64 => if (0 <=? b) && (b <? 64) then wrap t (Z.shiftl a b) else None | _ => None end.
Definition c_bool (b : bool) : option Z := Some (if b then 1 else 0).
Definition c_true (a : Z) : bool := negb (a =? 0).
