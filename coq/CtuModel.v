(* CtuModel.v — complement operations on 0/1 matrices (doc/ctu.md) and the judges for
   CMRctuComplementRowColumn and CMRctuTest.  No proofs here. *)
From Cmr Require Import Base Det.
Local Open Scope Z_scope.

Definition flipb (x : Z) : Z := if x =? 0 then 1 else 0.
Definition xorz (x y : Z) : Z := if y =? 0 then x else flipb x.

(* The definition from doc/ctu.md: a row complement for row i complements all entries M[r,c] with
   r <> i and M[i,c] = 1; a column complement is a row complement of the transpose. *)
Definition row_compl (m n : nat) (M : mat) (i : nat) : mat :=
  mk_mat m n (fun r c => if Nat.eqb r i then get M r c else xorz (get M r c) (get M i c)).
Definition col_compl (m n : nat) (M : mat) (j : nat) : mat :=
  mk_mat m n (fun r c => if Nat.eqb c j then get M r c else xorz (get M r c) (get M r j)).

Definition opt_row_compl m n M (r : option nat) := match r with Some i => row_compl m n M i | None => mk_mat m n (get M) end.
Definition opt_col_compl m n M (c : option nat) := match c with Some j => col_compl m n M j | None => mk_mat m n (get M) end.

(* specification of the one-call form: the row operation followed by the column operation *)
Definition complement_spec (m n : nat) (M : mat) (r c : option nat) : mat :=
  opt_col_compl m n (opt_row_compl m n M r) c.

(* The entry-wise rule (what ctu.c implements): with x = M[R,C] (0 when R or C is absent),
   - on row R, away from column C: flip iff x = 1
   - on column C, away from row R: flip iff x = 1
   - away from both: flip iff x + M[i,C] + M[R,j] is odd (absent terms are 0)
   - entry (R,C) itself: unchanged. *)
Definition oget (M : mat) (r c : option nat) (i j : nat) : Z :=
  match r, c with Some a, Some b => get M a b | _, _ => 0 end.
Definition is_some_eq (o : option nat) (i : nat) : bool :=
  match o with Some a => Nat.eqb a i | None => false end.

Definition complement_entry (M : mat) (r c : option nat) (i j : nat) : Z :=
  let x := oget M r c i j in
  let e := get M i j in
  if is_some_eq r i then (if is_some_eq c j then e else xorz e x)
  else if is_some_eq c j then xorz e x
  else
    let a := match c with Some b => get M i b | None => 0 end in
    let b := match r with Some a' => get M a' j | None => 0 end in
    if Z.odd (x + a + b) then flipb e else e.

Definition complement_model (m n : nat) (M : mat) (r c : option nat) : mat :=
  mk_mat m n (complement_entry M r c).

Definition opt_lt (o : option nat) (k : nat) : bool :=
  match o with Some a => Nat.ltb a k | None => true end.

(* record: M, r, c, rc, [result csr]  -- CMRctuComplementRowColumn(M, r, c) *)
Definition judge_ctu_compl (rec : list Z) : Z :=
  match (x <- dmat ;; r <- dopt ;; c <- dopt ;; rc <- dZ ;; dret (x, r, c, rc)) rec with
  | Some ((m, n, M, r, c, rc), rest) =>
    if negb (is_binary M && opt_lt r m && opt_lt c n) then 0 (* outside the documented domain *)
    else if negb (rc =? 0) then 10
    else match (y <- dcsr_dense ;; dend y) rest with
         | Some ((m', n', R), _) =>
           if negb (Nat.eqb m m' && Nat.eqb n n') then 11
           else if mat_eqb R (complement_model m n M r c) then 0 else 12
         | None => 1
         end
  | None => 1
  end.

(* all (m+1)(n+1) choices, "none" last (the order CMRctuTest uses) *)
Definition opts (k : nat) : list (option nat) := map Some (iota 0 k) ++ [None].

Definition ctu_bf (m n : nat) (M : mat) : bool :=
  forallb (fun r => forallb (fun c => tu_bf m n (complement_model m n M r c)) (opts n)) (opts m).

(* record: M, rc, verdict, r, c (reported indices; -1 = none / not reported)
   The verdict must equal the definition; on "no" the reported pair must lead to a non-TU matrix.
   CMRctuTest stores its loop indices, so "none" is reported as numRows resp. numColumns; the
   harness maps both SIZE_MAX and the out-of-range value numRows/numColumns to -1 before printing
   (ctu.h documents SIZE_MAX; see DESIGN.md C15, watch item). *)
Definition judge_ctu_test (rec : list Z) : Z :=
  match (x <- dmat ;; rc <- dZ ;; v <- dbool ;; r <- dopt ;; c <- dopt ;; dend (x, rc, v, r, c)) rec with
  | Some ((m, n, M, rc, v, r, c), _) =>
    if negb (is_binary M) then 0
    else if negb (rc =? 0) then 20
    else if negb (Bool.eqb v (ctu_bf m n M)) then 21
    else if v then 0
    else if negb (opt_lt r m && opt_lt c n) then 22
    else if tu_bf m n (complement_model m n M r c) then 23 else 0
  | None => 1
  end.
