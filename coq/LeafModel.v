(* LeafModel.v — judge for the `leaf` api: the pure leaf functions called directly.  Two checks per record:
   (1) the function GENERATED from the C text (LeafGen.v, semantics LeafSem.v) evaluates to the value the compiled C
       function returned — this validates the translator and the semantics against the real compiler;
   (2) the value satisfies the hand-written specification used by the other models (modulo_ternary, modulo_nonneg, the
       hash projection's range / congruence, the element encoding, gcd / Bezout coefficients of gcdExt).  No proofs here. *)
From Cmr Require Import Base PivotModel LeafSem LeafGen.
Local Open Scope Z_scope.

Definition HR : Z := 9223372036854775807 / 8.

(* fuel of the translated loop of gcdExt; GcdProofs.v: it suffices for all arguments except INT64_MIN *)
Definition gcd_fuel : nat := 200.

(* fuel of the translated loop of nextPower2 (6 iterations and the final test; Pow2Proofs.v) *)
Definition pow2_fuel : nat := 8.

Definition sym64 (x : Z) : bool := (-9223372036854775807 <=? x) && (x <=? 9223372036854775807).

Definition leaf_gen (fn : Z) (args : list Z) : option (option Z) :=
  match fn, args with
  | 0, [p; q] => Some (c_moduloNonnegative p q)
  | 1, [p; q] => Some (c_moduloTernary p q)
  | 2, [v] => Some (c_projectSignedHash v)
  | 3, [e] => Some (c_CMRelementIsValid e)
  | 4, [k] => Some (c_CMRrowToElement k)
  | 5, [k] => Some (c_CMRcolumnToElement k)
  | 6, [e] => Some (c_CMRelementIsRow e)
  | 7, [e] => Some (c_CMRelementToRowIndex e)
  | 8, [e] => Some (c_CMRelementIsColumn e)
  | 9, [e] => Some (c_CMRelementToColumnIndex e)
  | 10, [e] => Some (c_CMRelementTranspose e)
  (* gcdExt(a, b, &s, &t) of linear_algebra.c, one record per component: 11 = return value, 12 = *ps, 13 = *pt *)
  | 11, [a; b] => Some (match c_gcdExt gcd_fuel a b with Some (g, _, _) => Some g | None => None end)
  | 12, [a; b] => Some (match c_gcdExt gcd_fuel a b with Some (_, s, _) => Some s | None => None end)
  | 13, [a; b] => Some (match c_gcdExt gcd_fuel a b with Some (_, _, t) => Some t | None => None end)
  (* nextPower2(x) of hashtable.h *)
  | 14, [x] => Some (c_nextPower2 pow2_fuel x)
  | _, _ => None
  end.

Definition leaf_spec (fn : Z) (args : list Z) (r : Z) : bool :=
  match fn, args with
  | 0, [p; q] => r =? modulo_nonneg p q
  | 1, [p; q] => r =? modulo_ternary p q
  | 2, [v] => (- (HR - 1) <=? r) && (r <=? HR - 1) && ((r - v) mod (2 * HR - 1) =? 0)
  | 3, [e] => r =? (if e =? 0 then 0 else 1)
  | 4, [k] => r =? -1 - k
  | 5, [k] => r =? 1 + k
  | 6, [e] => r =? (if e <? 0 then 1 else 0)
  | 7, [e] => r =? -1 - e
  | 8, [e] => r =? (if 0 <? e then 1 else 0)
  | 9, [e] => r =? e - 1
  | 10, [e] => r =? - e
  | 11, [a; b] => r =? Z.gcd a b
  (* *ps: Bezout together with the generated *pt; in range; s = 0 exactly if b <> 0 and b | a *)
  | 12, [a; b] => match c_gcdExt gcd_fuel a b with
                  | Some (_, _, t) => (r * a + t * b =? Z.gcd a b) && sym64 r &&
                                      Bool.eqb (r =? 0) (negb (b =? 0) && (a mod b =? 0))
                  | None => false
                  end
  (* *pt: Bezout together with the generated *ps; in range; t = 0 exactly if b = 0 or a is a proper divisor of b
     (the documentation of gcdExt claims t <> 0 — that is wrong, e.g. gcdExt(2,4) gives s = 1, t = 0) *)
  | 13, [a; b] => match c_gcdExt gcd_fuel a b with
                  | Some (_, s, _) => (s * a + r * b =? Z.gcd a b) && sym64 r &&
                                      Bool.eqb (r =? 0) ((b =? 0) || (negb (a =? 0) && (Z.abs a <? Z.abs b) && (b mod a =? 0)))
                  | None => false
                  end
  (* nextPower2: the argument is a size_t (taken modulo 2^64, so that a record may show it signed or unsigned);
     0 and everything above 2^63 give 0 (wrap-around), otherwise the power of two r with x <= r < 2x *)
  | 14, [x] => let x := x mod 18446744073709551616 in
               if (x =? 0) || (9223372036854775808 <? x) then r =? 0
               else (0 <? r) && (r =? 2 ^ Z.log2 r) && (x <=? r) && (r <? 2 * x)
  | _, _ => false
  end.

(* record: fn nargs args.. result
   0 accepted; 1 malformed record / unknown function; 340 the call is undefined behaviour by the translated C text (the
   generators only produce defined calls); 341 translated function and compiled function disagree; 342 specification violated *)
Definition judge_leaf (rec : list Z) : Z :=
  match (fn <- dZ ;; args <- dlist dZ ;; r <- dZ ;; dend (fn, args, r)) rec with
  | Some ((fn, args, r), _) =>
    match leaf_gen fn args with
    | None => 1
    | Some None => 340
    | Some (Some g) => if negb (g =? r) then 341 else if leaf_spec fn args r then 0 else 342
    end
  | None => 1
  end.
