(* EquiUnique.v — C16: the determinant gcd of an equimodular matrix does not depend on the chosen column basis
   (equimodular_unique), constructed instances M = L X (equimodular_construct), and determinant bookkeeping for a square L
   built from a diagonal matrix by elementary row operations (minors_gcd_square, det_apply_ops).
   All main statements are phrased with plain nat / Z / list and "= true". *)
From Coq Require Import ZArith List.
From mathcomp Require Import all_ssreflect all_fingroup all_algebra.
From mathcomp Require Import ssrZ zify.
From Cmr Require Import Base Det BaseProofs BalancedProofs EquiModel EquiProofs EquiCertModel EquiAux TuProofs TuClosure.
Set Implicit Arguments. Unset Strict Implicit. Unset Printing Implicit Defensive.
Import GRing.Theory.
Local Open Scope ring_scope.
Import mathcomp.ssreflect.seq.
Delimit Scope nat_scope with N.

(* ========================================================================================== *)
(* 0. bridging                                                                                 *)
(* ========================================================================================== *)

Lemma nthnE (l : seq nat) i : nthn l i = nth 0%N l i.
Proof. by elim: l i => [|x l IH] [|i] //=. Qed.

Lemma sumE (f : nat -> Z) r :
  fold_right Z.add 0%Z (List.map f (Base.iota 0 r)) = \sum_(a < r) f a.
Proof.
rewrite iotaE -[fold_right _ _ _]/(foldr +%R 0 (map f (seq.iota 0 r))).
by rewrite foldrE big_map -[r in seq.iota 0 r]subn0 -/(index_iota 0 r) big_mkord.
Qed.

Lemma prodE (d : seq Z) : fold_right Z.mul 1%Z d = \prod_(i < size d) nthZ d i.
Proof.
rewrite -[fold_right _ _ _]/(foldr *%R 1 d) foldrE (big_nth 0) big_mkord.
by apply: eq_bigr => i _; rewrite nthZE.
Qed.

Lemma wf_matP m n (L : mat) : wf_mat m n L = true -> size L = m /\ all (fun r => size r == n) L.
Proof.
rewrite /wf_mat => /andP [/Nat.eqb_eq sz al]; by split.
Qed.

Lemma det_mx_of m (L : mat) : wf_mat m m L = true -> det m L = \det (mx_of m m L).
Proof. by move=> /wf_matP [sz al]; rewrite det_mxE. Qed.

Lemma mx_of_mk_mat m n f : mx_of m n (mk_mat m n f) = \matrix_(i, j) f i j.
Proof. by apply/matrixP => i j; rewrite !mxE get_mk_mat //; apply/ltP. Qed.

(* ========================================================================================== *)
(* 1. a product through fewer columns has determinant 0                                        *)
(* ========================================================================================== *)

Lemma det_mul_thin_add (R : comRingType) r d (P : 'M[R]_(r + d.+1, r)) (C : 'M[R]_(r, r + d.+1)) :
  \det (P *m C) = 0.
Proof.
have -> : P *m C = row_mx P (0 : 'M_(_, d.+1)) *m col_mx C (0 : 'M_(d.+1, _)).
  by rewrite mul_row_col mul0mx addr0.
rewrite det_mulmx.
have -> : \det (row_mx P (0 : 'M_(_, d.+1))) = 0; last by rewrite mul0r.
rewrite (expand_det_col _ (rshift r ord0)); apply: big1 => i _.
by rewrite row_mxEr mxE mul0r.
Qed.

Lemma det_mul_thin (R : comRingType) r r' (P : 'M[R]_(r', r)) (C : 'M[R]_(r, r')) :
  (r < r')%N -> \det (P *m C) = 0.
Proof.
move=> lt; have [d e] : exists d, r' = (r + d.+1)%N by exists (r' - r).-1; lia.
by move: P C; rewrite e => P C; exact: det_mul_thin_add.
Qed.

(* ========================================================================================== *)
(* 2. the minors of M_B' in terms of those of M_B when M = M_B X                               *)
(* ========================================================================================== *)

Section Factor.
Variables (m n : nat) (M X : mat) (B : seq nat).
Let r := size B.
Hypothesis HMX : forall i j, (i < m)%coq_nat -> (j < n)%coq_nat ->
  get (mat_mul_cols m r n (submat M (Base.iota 0 m) B) X) i j = get M i j.

Lemma entry_factor i j : (i < m)%N -> (j < n)%N ->
  get M i j = \sum_(a < r) get M i (nth 0%N B a) * get X a j.
Proof.
move=> hi hj; rewrite -HMX; [|exact/ltP|exact/ltP].
rewrite /mat_mul_cols get_mk_mat; [|exact/ltP|exact/ltP].
rewrite sumE; apply: eq_bigr => a _.
by rewrite get_submat_cols; [rewrite nthnE|exact/ltP|exact/ltP].
Qed.

Definition rows_mx r' (rs : seq nat) (cs : seq nat) k (N : mat) : 'M[Z]_(r', k) :=
  \matrix_(i < r', j < k) get N (nth 0%N rs i) (nth 0%N cs j).

Lemma minor_factor r' (rs B' : seq nat) :
  size rs = r' -> size B' = r' -> all_lt m rs = true -> all_lt n B' = true ->
  (\matrix_(i < r', j < r') get M (nth 0%N rs i) (nth 0%N B' j)) =
  (\matrix_(i < r', a < r) get M (nth 0%N rs i) (nth 0%N B a)) *m
  (\matrix_(a < r, j < r') get X a (nth 0%N B' j)).
Proof.
move=> szr szc; rewrite !all_ltE => /(all_nthP 0%N) ltr /(all_nthP 0%N) ltc.
apply/matrixP => i j; rewrite !mxE entry_factor; first last.
- by apply: ltc; rewrite szc.
- by apply: ltr; rewrite szr.
by apply: eq_bigr => a _; rewrite !mxE.
Qed.

(* a basis cannot be larger than a spanning set *)
Lemma basis_size_le (B' : seq nat) :
  all_lt n B' = true -> (0 < minors_gcd m (size B') (submat M (Base.iota 0 m) B'))%Z ->
  (size B' <= r)%N.
Proof.
move=> ltB'; rewrite -[size B']/(length B') minors_gcd_cols => pos.
case: (gcd_list_pos_exists _ pos) => x [/in_map_iff [rs [<- /subseqs_iota0_spec [szrs [_ ltrs]]]] nz].
case: (leqP (size B') r) => // lt; case: nz.
rewrite (@detE (size B')) // minor_factor //.
exact: det_mul_thin.
Qed.

Hypothesis TUX : tu_bf r n X = true.

Lemma cols_det_small (B' : seq nat) : size B' = r -> all_lt n B' = true ->
  \det (\matrix_(a < r, j < r) get X a (nth 0%N B' j)) \in [:: -1; 0; 1].
Proof.
move=> sz; rewrite all_ltE => lt.
have [g hg] := idx_map sz lt.
have -> : \matrix_(a < r, j < r) get X a (nth 0%N B' j) = mxsub id g (mx_of r n X).
  by apply/matrixP => a j; rewrite !mxE hg.
by move/tu_bfP: TUX; apply.
Qed.

Lemma minors_gcd_same_size (B' : seq nat) : size B' = r -> all_lt n B' = true ->
  (0 < minors_gcd m (size B') (submat M (Base.iota 0 m) B'))%Z ->
  minors_gcd m (size B') (submat M (Base.iota 0 m) B') = minors_gcd m r (submat M (Base.iota 0 m) B).
Proof.
move=> sz ltB'.
rewrite -[size B']/(length B') -[r]/(length B) !minors_gcd_cols.
rewrite -![length _]/(size _) sz -/r.
set c := \det (\matrix_(a < r, j < r) get X a (nth 0%N B' j)).
have -> : List.map (fun rs => det r (submat M rs B')) (subseqs r (Base.iota 0 m)) =
          List.map (Z.mul c) (List.map (fun rs => det r (submat M rs B)) (subseqs r (Base.iota 0 m))).
  rewrite List.map_map; apply: List.map_ext_in => rs /subseqs_iota0_spec [szrs [_ ltrs]].
  rewrite !(@detE r) // minor_factor // det_mulmx -/c.
  by rewrite -[Z.mul _ _]/(c * _) mulrC.
rewrite gcd_list_map_mul => pos.
have : c \in [:: -1; 0; 1] by exact: cols_det_small.
rewrite !inE => /or3P [] /eqP ec; move: pos; rewrite ec.
- by rewrite -[Z.abs _]/(1%Z) Z.mul_1_l.
- by rewrite -[Z.abs _]/(0%Z) Z.mul_0_l.
- by rewrite -[Z.abs _]/(1%Z) Z.mul_1_l.
Qed.

End Factor.

(* ========================================================================================== *)
(* 3. uniqueness of the determinant gcd                                                        *)
(* ========================================================================================== *)

(* no well-formedness of M is needed: everything reads M through get on the index range *)
Theorem equimodular_unique' : forall (m n : nat) (M : mat) (k k' : Z),
  Equimodular m n M k -> Equimodular m n M k' -> k = k'.
Proof.
move=> m n M k k' [B [X [siB [ltB [ek [kpos [wfX [eqX tuX]]]]]]]].
move=> [B' [X' [siB' [ltB' [ek' [kpos' [wfX' [eqX' tuX']]]]]]]].
have le1 : (size B' <= size B)%N.
  by apply: (basis_size_le eqX ltB'); rewrite -[size B']/(length B') -ek'.
have le2 : (size B <= size B')%N.
  by apply: (basis_size_le eqX' ltB); rewrite -[size B]/(length B) -ek.
have sz : size B' = size B by apply/eqP; rewrite eqn_leq le1 le2.
rewrite ek ek'; symmetry.
apply: (minors_gcd_same_size eqX tuX sz ltB').
by rewrite -[size B']/(length B') -ek'.
Qed.

Theorem equimodular_unique : forall (m n : nat) (M : mat) (k k' : Z),
  wf_mat m n M = true -> Equimodular m n M k -> Equimodular m n M k' -> k = k'.
Proof. by move=> m n M k k' _; exact: equimodular_unique'. Qed.

(* in terms of the oracle: all entries of equimod_all agree *)
Corollary equimod_all_unique : forall (m n : nat) (M : mat) (k k' : Z),
  List.In k (equimod_all m n M) -> List.In k' (equimod_all m n M) -> k = k'.
Proof.
move=> m n M k k' /equimod_all_sound h /equimod_all_sound h'; exact: equimodular_unique' h h'.
Qed.

(* ========================================================================================== *)
(* 4. constructed instances (proved in EquiAux.v, restated)                                    *)
(* ========================================================================================== *)

Theorem equimodular_construct : forall (m r n : nat) (L X : mat) (B : list nat),
  wf_mat m r L = true -> wf_mat r n X = true -> length B = r ->
  strictly_increasing B = true -> all_lt n B = true ->
  (forall a b, (a < r)%coq_nat -> (b < r)%coq_nat ->
     get X a (nthn B b) = if Nat.eqb a b then 1%Z else 0%Z) ->
  tu_bf r n X = true -> (0 < minors_gcd m r L)%Z ->
  Equimodular m n (mat_mul_cols m r n L X) (minors_gcd m r L).
Proof. exact: EquiAux.equimodular_construct. Qed.

Theorem equimodular_construct_b : forall (m r n : nat) (L X : mat) (B : list nat),
  wf_mat m r L = true -> wf_mat r n X = true -> length B = r ->
  strictly_increasing B = true -> all_lt n B = true -> identity_at r X B = true ->
  tu_bf r n X = true -> (0 < minors_gcd m r L)%Z ->
  Equimodular m n (mat_mul_cols m r n L X) (minors_gcd m r L).
Proof. exact: EquiAux.equimodular_construct_b. Qed.

(* ========================================================================================== *)
(* 5. determinant of ops(diag d)                                                               *)
(* ========================================================================================== *)

Theorem minors_gcd_square : forall (m : nat) (L : mat),
  wf_mat m m L = true -> minors_gcd m m L = Z.abs (det m L).
Proof. exact: EquiAux.minors_gcd_square. Qed.

Lemma abs_sign (b : bool) (x : Z) : Z.abs ((-1) ^+ b * x) = Z.abs x.
Proof. by case: b; rewrite ?expr1 ?expr0 ?mulN1r ?mul1r //; lia. Qed.

Lemma apply_op_inv m (L : mat) (o : rowop) : wf_mat m m L = true ->
  wf_mat m m (apply_op m L o) = true /\ Z.abs (det m (apply_op m L o)) = Z.abs (det m L).
Proof.
move=> wfL; case: o => [i j c|i j|i] /=.
- case: ifP => [/andP [/andP []]|_] //.
  rewrite !ltbE eqbE => im jm ne; split; first exact: wf_mk_mat.
  rewrite !det_mx_of ?wf_mk_mat // mx_of_mk_mat; congr Z.abs.
  set L0 := mx_of m m L; pose i0 := Ordinal im; pose j0 := Ordinal jm.
  set A := (X in \det X).
  pose C : 'M[Z]_m := \matrix_(a, b) if a == i0 then L0 j0 b else L0 a b.
  have ne0 : i0 != j0 by [].
  have C0 : \det C = 0.
    apply: (determinant_alternate ne0) => b; rewrite !mxE eqxx.
    by rewrite eq_sym (negbTE ne0).
  rewrite (@determinant_multilinear _ _ A L0 C i0 1 c) ?C0 ?mulr0 ?addr0 ?mul1r //.
  + apply/rowP => b; rewrite !mxE eqbE eqxx /= eqxx.
    by rewrite mul1r.
  + apply/matrixP => a b; rewrite !mxE eqbE.
    by rewrite -[_ == i]/(lift i0 a == i0) eq_sym (negbTE (neq_lift i0 a)).
  + apply/matrixP => a b; rewrite !mxE eqbE.
    by rewrite -[_ == i]/(lift i0 a == i0) eq_sym (negbTE (neq_lift i0 a)).
- case: ifP => [/andP []|_] //.
  rewrite !ltbE => im jm; split; first exact: wf_mk_mat.
  rewrite !det_mx_of ?wf_mk_mat // mx_of_mk_mat.
  set L0 := mx_of m m L; pose i0 := Ordinal im; pose j0 := Ordinal jm.
  have -> : \matrix_(a < m, b < m) (if Nat.eqb a i then get L j b else if Nat.eqb a j then get L i b else get L a b)
            = row_perm (tperm i0 j0) L0.
    apply/matrixP => a b; rewrite !mxE !eqbE permE /=.
    rewrite -[(a : nat) == i]/(a == i0) -[(a : nat) == j]/(a == j0).
    by case: (a == i0); [|case: (a == j0)].
  by rewrite det_row_perm abs_sign.
- case: ifP => [|_] //.
  rewrite !ltbE => im; split; first exact: wf_mk_mat.
  rewrite !det_mx_of ?wf_mk_mat // mx_of_mk_mat.
  set L0 := mx_of m m L; pose i0 := Ordinal im.
  set A := (X in \det X).
  rewrite (@determinant_multilinear _ _ A L0 L0 i0 (-1) 0) ?mul0r ?addr0 ?mulN1r; first by move: (\det L0) => x; lia.
  + apply/rowP => b; rewrite !mxE eqbE eqxx /=.
    by rewrite mulN1r mul0r addr0.
  + apply/matrixP => a b; rewrite !mxE eqbE.
    by rewrite -[_ == i]/(lift i0 a == i0) eq_sym (negbTE (neq_lift i0 a)).
  + apply/matrixP => a b; rewrite !mxE eqbE.
    by rewrite -[_ == i]/(lift i0 a == i0) eq_sym (negbTE (neq_lift i0 a)).
Qed.

Lemma apply_ops_inv m (ops : list rowop) (L : mat) : wf_mat m m L = true ->
  wf_mat m m (fold_left (apply_op m) ops L) = true /\
  Z.abs (det m (fold_left (apply_op m) ops L)) = Z.abs (det m L).
Proof.
elim: ops L => [|o ops IH] L wfL //=.
have [wf1 e1] := apply_op_inv o wfL.
by have [wf2 e2] := IH _ wf1; split=> //; rewrite e2.
Qed.

Lemma det_diag_mat (d : list Z) : det (length d) (diag_mat d) = fold_right Z.mul 1%Z d.
Proof.
rewrite det_mx_of /diag_mat ?wf_mk_mat // mx_of_mk_mat prodE.
have -> : \matrix_(i < length d, j < length d) (if Nat.eqb i j then nthZ d i else 0%Z) =
          diag_mx (\row_(i < size d) nthZ d i).
  apply/matrixP => i j; rewrite !mxE eqbE -[(i : nat) == j]/(i == j).
  by case: (i == j); rewrite ?mulr1n ?mulr0n.
by rewrite det_diag; apply: eq_bigr => i _; rewrite mxE.
Qed.

Theorem det_apply_ops : forall (d : list Z) (ops : list rowop),
  let m := length d in
  wf_mat m m (fold_left (apply_op m) ops (diag_mat d)) = true /\
  Z.abs (det m (fold_left (apply_op m) ops (diag_mat d))) = Z.abs (fold_right Z.mul 1%Z d).
Proof.
move=> d ops m.
have wfD : wf_mat m m (diag_mat d) = true by exact: wf_mk_mat.
by have [wf1 e1] := apply_ops_inv ops wfD; split=> //; rewrite e1 det_diag_mat.
Qed.

(* for use from files that do not load ssreflect: all arguments explicit *)
Arguments equimodular_unique' : clear implicits.
Arguments equimodular_unique : clear implicits.
Arguments equimod_all_unique : clear implicits.
Arguments equimodular_construct : clear implicits.
Arguments equimodular_construct_b : clear implicits.
Arguments minors_gcd_square : clear implicits.
Arguments det_apply_ops : clear implicits.

Print Assumptions equimodular_unique'.
Print Assumptions equimodular_unique.
Print Assumptions equimod_all_unique.
Print Assumptions equimodular_construct.
Print Assumptions equimodular_construct_b.
Print Assumptions minors_gcd_square.
Print Assumptions det_apply_ops.
