(* EquiUnique.v — C16: the determinant gcd of an equimodular matrix does not depend on the chosen column basis
   (equimodular_unique), constructed instances M = L X (equimodular_construct), determinant bookkeeping for a square L
   built from a diagonal matrix by elementary row operations (minors_gcd_square, det_apply_ops), and for an m x r matrix L
   (r <= m) built from [diag d; 0] by elementary row operations: the gcd of the r x r minors is invariant under a row
   operation (minors_gcd_apply_op) and is |prod d| for [diag d; 0] (minors_gcd_stack_diag, minors_gcd_cert_L).
   All main statements are phrased with plain nat / Z / list and "= true". *)
From Coq Require Import ZArith List.
From mathcomp Require Import all_ssreflect all_fingroup all_algebra.
From mathcomp Require Import ssrZ zify.
From Cmr Require Import Base Det BaseProofs BalancedProofs EquiModel EquiProofs EquiCertModel EquiAux TuProofs TuClosure.
Set Implicit Arguments. Unset Strict Implicit. Unset Printing Implicit Defensive.
Import GRing.Theory.
Local Open Scope ring_scope.
Import mathcomp.ssreflect.seq.
Delimit Scope nat_scope with N.

(* ========================================================================================== *)
(* 0. bridging                                                                                 *)
(* ========================================================================================== *)

Lemma nthnE (l : seq nat) i : nthn l i = nth 0%N l i.
Proof. by elim: l i => [|x l IH] [|i] //=. Qed.

Lemma sumE (f : nat -> Z) r :
  fold_right Z.add 0%Z (List.map f (Base.iota 0 r)) = \sum_(a < r) f a.
Proof.
rewrite iotaE -[fold_right _ _ _]/(foldr +%R 0 (map f (seq.iota 0 r))).
by rewrite foldrE big_map -[r in seq.iota 0 r]subn0 -/(index_iota 0 r) big_mkord.
Qed.

Lemma prodE (d : seq Z) : fold_right Z.mul 1%Z d = \prod_(i < size d) nthZ d i.
Proof.
rewrite -[fold_right _ _ _]/(foldr *%R 1 d) foldrE (big_nth 0) big_mkord.
by apply: eq_bigr => i _; rewrite nthZE.
Qed.

Lemma wf_matP m n (L : mat) : wf_mat m n L = true -> size L = m /\ all (fun r => size r == n) L.
Proof.
rewrite /wf_mat => /andP [/Nat.eqb_eq sz al]; by split.
Qed.

Lemma det_mx_of m (L : mat) : wf_mat m m L = true -> det m L = \det (mx_of m m L).
Proof. by move=> /wf_matP [sz al]; rewrite det_mxE. Qed.

Lemma mx_of_mk_mat m n f : mx_of m n (mk_mat m n f) = \matrix_(i, j) f i j.
Proof. by apply/matrixP => i j; rewrite !mxE get_mk_mat //; apply/ltP. Qed.

(* ========================================================================================== *)
(* 1. a product through fewer columns has determinant 0                                        *)
(* ========================================================================================== *)

Lemma det_mul_thin_add (R : comRingType) r d (P : 'M[R]_(r + d.+1, r)) (C : 'M[R]_(r, r + d.+1)) :
  \det (P *m C) = 0.
Proof.
have -> : P *m C = row_mx P (0 : 'M_(_, d.+1)) *m col_mx C (0 : 'M_(d.+1, _)).
  by rewrite mul_row_col mul0mx addr0.
rewrite det_mulmx.
have -> : \det (row_mx P (0 : 'M_(_, d.+1))) = 0; last by rewrite mul0r.
rewrite (expand_det_col _ (rshift r ord0)); apply: big1 => i _.
by rewrite row_mxEr mxE mul0r.
Qed.

Lemma det_mul_thin (R : comRingType) r r' (P : 'M[R]_(r', r)) (C : 'M[R]_(r, r')) :
  (r < r')%N -> \det (P *m C) = 0.
Proof.
move=> lt; have [d e] : exists d, r' = (r + d.+1)%N by exists (r' - r).-1; lia.
by move: P C; rewrite e => P C; exact: det_mul_thin_add.
Qed.

(* ========================================================================================== *)
(* 2. the minors of M_B' in terms of those of M_B when M = M_B X                               *)
(* ========================================================================================== *)

Section Factor.
Variables (m n : nat) (M X : mat) (B : seq nat).
Let r := size B.
Hypothesis HMX : forall i j, (i < m)%coq_nat -> (j < n)%coq_nat ->
  get (mat_mul_cols m r n (submat M (Base.iota 0 m) B) X) i j = get M i j.

Lemma entry_factor i j : (i < m)%N -> (j < n)%N ->
  get M i j = \sum_(a < r) get M i (nth 0%N B a) * get X a j.
Proof.
move=> hi hj; rewrite -HMX; [|exact/ltP|exact/ltP].
rewrite /mat_mul_cols get_mk_mat; [|exact/ltP|exact/ltP].
rewrite sumE; apply: eq_bigr => a _.
by rewrite get_submat_cols; [rewrite nthnE|exact/ltP|exact/ltP].
Qed.

Definition rows_mx r' (rs : seq nat) (cs : seq nat) k (N : mat) : 'M[Z]_(r', k) :=
  \matrix_(i < r', j < k) get N (nth 0%N rs i) (nth 0%N cs j).

Lemma minor_factor r' (rs B' : seq nat) :
  size rs = r' -> size B' = r' -> all_lt m rs = true -> all_lt n B' = true ->
  (\matrix_(i < r', j < r') get M (nth 0%N rs i) (nth 0%N B' j)) =
  (\matrix_(i < r', a < r) get M (nth 0%N rs i) (nth 0%N B a)) *m
  (\matrix_(a < r, j < r') get X a (nth 0%N B' j)).
Proof.
move=> szr szc; rewrite !all_ltE => /(all_nthP 0%N) ltr /(all_nthP 0%N) ltc.
apply/matrixP => i j; rewrite !mxE entry_factor; first last.
- by apply: ltc; rewrite szc.
- by apply: ltr; rewrite szr.
by apply: eq_bigr => a _; rewrite !mxE.
Qed.

(* a basis cannot be larger than a spanning set *)
Lemma basis_size_le (B' : seq nat) :
  all_lt n B' = true -> (0 < minors_gcd m (size B') (submat M (Base.iota 0 m) B'))%Z ->
  (size B' <= r)%N.
Proof.
move=> ltB'; rewrite -[size B']/(length B') minors_gcd_cols => pos.
case: (gcd_list_pos_exists _ pos) => x [/in_map_iff [rs [<- /subseqs_iota0_spec [szrs [_ ltrs]]]] nz].
case: (leqP (size B') r) => // lt; case: nz.
rewrite (@detE (size B')) // minor_factor //.
exact: det_mul_thin.
Qed.

Hypothesis TUX : tu_bf r n X = true.

Lemma cols_det_small (B' : seq nat) : size B' = r -> all_lt n B' = true ->
  \det (\matrix_(a < r, j < r) get X a (nth 0%N B' j)) \in [:: -1; 0; 1].
Proof.
move=> sz; rewrite all_ltE => lt.
have [g hg] := idx_map sz lt.
have -> : \matrix_(a < r, j < r) get X a (nth 0%N B' j) = mxsub id g (mx_of r n X).
  by apply/matrixP => a j; rewrite !mxE hg.
by move/tu_bfP: TUX; apply.
Qed.

Lemma minors_gcd_same_size (B' : seq nat) : size B' = r -> all_lt n B' = true ->
  (0 < minors_gcd m (size B') (submat M (Base.iota 0 m) B'))%Z ->
  minors_gcd m (size B') (submat M (Base.iota 0 m) B') = minors_gcd m r (submat M (Base.iota 0 m) B).
Proof.
move=> sz ltB'.
rewrite -[size B']/(length B') -[r]/(length B) !minors_gcd_cols.
rewrite -![length _]/(size _) sz -/r.
set c := \det (\matrix_(a < r, j < r) get X a (nth 0%N B' j)).
have -> : List.map (fun rs => det r (submat M rs B')) (subseqs r (Base.iota 0 m)) =
          List.map (Z.mul c) (List.map (fun rs => det r (submat M rs B)) (subseqs r (Base.iota 0 m))).
  rewrite List.map_map; apply: List.map_ext_in => rs /subseqs_iota0_spec [szrs [_ ltrs]].
  rewrite !(@detE r) // minor_factor // det_mulmx -/c.
  by rewrite -[Z.mul _ _]/(c * _) mulrC.
rewrite gcd_list_map_mul => pos.
have : c \in [:: -1; 0; 1] by exact: cols_det_small.
rewrite !inE => /or3P [] /eqP ec; move: pos; rewrite ec.
- by rewrite -[Z.abs _]/(1%Z) Z.mul_1_l.
- by rewrite -[Z.abs _]/(0%Z) Z.mul_0_l.
- by rewrite -[Z.abs _]/(1%Z) Z.mul_1_l.
Qed.

End Factor.

(* ========================================================================================== *)
(* 3. uniqueness of the determinant gcd                                                        *)
(* ========================================================================================== *)

(* no well-formedness of M is needed: everything reads M through get on the index range *)
Theorem equimodular_unique' : forall (m n : nat) (M : mat) (k k' : Z),
  Equimodular m n M k -> Equimodular m n M k' -> k = k'.
Proof.
move=> m n M k k' [B [X [siB [ltB [ek [kpos [wfX [eqX tuX]]]]]]]].
move=> [B' [X' [siB' [ltB' [ek' [kpos' [wfX' [eqX' tuX']]]]]]]].
have le1 : (size B' <= size B)%N.
  by apply: (basis_size_le eqX ltB'); rewrite -[size B']/(length B') -ek'.
have le2 : (size B <= size B')%N.
  by apply: (basis_size_le eqX' ltB); rewrite -[size B]/(length B) -ek.
have sz : size B' = size B by apply/eqP; rewrite eqn_leq le1 le2.
rewrite ek ek'; symmetry.
apply: (minors_gcd_same_size eqX tuX sz ltB').
by rewrite -[size B']/(length B') -ek'.
Qed.

Theorem equimodular_unique : forall (m n : nat) (M : mat) (k k' : Z),
  wf_mat m n M = true -> Equimodular m n M k -> Equimodular m n M k' -> k = k'.
Proof. by move=> m n M k k' _; exact: equimodular_unique'. Qed.

(* in terms of the oracle: all entries of equimod_all agree *)
Corollary equimod_all_unique : forall (m n : nat) (M : mat) (k k' : Z),
  List.In k (equimod_all m n M) -> List.In k' (equimod_all m n M) -> k = k'.
Proof.
move=> m n M k k' /equimod_all_sound h /equimod_all_sound h'; exact: equimodular_unique' h h'.
Qed.

(* ========================================================================================== *)
(* 4. constructed instances (proved in EquiAux.v, restated)                                    *)
(* ========================================================================================== *)

Theorem equimodular_construct : forall (m r n : nat) (L X : mat) (B : list nat),
  wf_mat m r L = true -> wf_mat r n X = true -> length B = r ->
  strictly_increasing B = true -> all_lt n B = true ->
  (forall a b, (a < r)%coq_nat -> (b < r)%coq_nat ->
     get X a (nthn B b) = if Nat.eqb a b then 1%Z else 0%Z) ->
  tu_bf r n X = true -> (0 < minors_gcd m r L)%Z ->
  Equimodular m n (mat_mul_cols m r n L X) (minors_gcd m r L).
Proof. exact: EquiAux.equimodular_construct. Qed.

Theorem equimodular_construct_b : forall (m r n : nat) (L X : mat) (B : list nat),
  wf_mat m r L = true -> wf_mat r n X = true -> length B = r ->
  strictly_increasing B = true -> all_lt n B = true -> identity_at r X B = true ->
  tu_bf r n X = true -> (0 < minors_gcd m r L)%Z ->
  Equimodular m n (mat_mul_cols m r n L X) (minors_gcd m r L).
Proof. exact: EquiAux.equimodular_construct_b. Qed.

(* ========================================================================================== *)
(* 5. determinant of ops(diag d)                                                               *)
(* ========================================================================================== *)

Theorem minors_gcd_square : forall (m : nat) (L : mat),
  wf_mat m m L = true -> minors_gcd m m L = Z.abs (det m L).
Proof. exact: EquiAux.minors_gcd_square. Qed.

Lemma abs_sign (b : bool) (x : Z) : Z.abs ((-1) ^+ b * x) = Z.abs x.
Proof. by case: b; rewrite ?expr1 ?expr0 ?mulN1r ?mul1r //; lia. Qed.

Lemma apply_op_inv m (L : mat) (o : rowop) : wf_mat m m L = true ->
  wf_mat m m (apply_op m m L o) = true /\ Z.abs (det m (apply_op m m L o)) = Z.abs (det m L).
Proof.
move=> wfL; case: o => [i j c|i j|i] /=.
- case: ifP => [/andP [/andP []]|_] //.
  rewrite !ltbE eqbE => im jm ne; split; first exact: wf_mk_mat.
  rewrite !det_mx_of ?wf_mk_mat // mx_of_mk_mat; congr Z.abs.
  set L0 := mx_of m m L; pose i0 := Ordinal im; pose j0 := Ordinal jm.
  set A := (X in \det X).
  pose C : 'M[Z]_m := \matrix_(a, b) if a == i0 then L0 j0 b else L0 a b.
  have ne0 : i0 != j0 by [].
  have C0 : \det C = 0.
    apply: (determinant_alternate ne0) => b; rewrite !mxE eqxx.
    by rewrite eq_sym (negbTE ne0).
  rewrite (@determinant_multilinear _ _ A L0 C i0 1 c) ?C0 ?mulr0 ?addr0 ?mul1r //.
  + apply/rowP => b; rewrite !mxE eqbE eqxx /= eqxx.
    by rewrite mul1r.
  + apply/matrixP => a b; rewrite !mxE eqbE.
    by rewrite -[_ == i]/(lift i0 a == i0) eq_sym (negbTE (neq_lift i0 a)).
  + apply/matrixP => a b; rewrite !mxE eqbE.
    by rewrite -[_ == i]/(lift i0 a == i0) eq_sym (negbTE (neq_lift i0 a)).
- case: ifP => [/andP []|_] //.
  rewrite !ltbE => im jm; split; first exact: wf_mk_mat.
  rewrite !det_mx_of ?wf_mk_mat // mx_of_mk_mat.
  set L0 := mx_of m m L; pose i0 := Ordinal im; pose j0 := Ordinal jm.
  have -> : \matrix_(a < m, b < m) (if Nat.eqb a i then get L j b else if Nat.eqb a j then get L i b else get L a b)
            = row_perm (tperm i0 j0) L0.
    apply/matrixP => a b; rewrite !mxE !eqbE permE /=.
    rewrite -[(a : nat) == i]/(a == i0) -[(a : nat) == j]/(a == j0).
    by case: (a == i0); [|case: (a == j0)].
  by rewrite det_row_perm abs_sign.
- case: ifP => [|_] //.
  rewrite !ltbE => im; split; first exact: wf_mk_mat.
  rewrite !det_mx_of ?wf_mk_mat // mx_of_mk_mat.
  set L0 := mx_of m m L; pose i0 := Ordinal im.
  set A := (X in \det X).
  rewrite (@determinant_multilinear _ _ A L0 L0 i0 (-1) 0) ?mul0r ?addr0 ?mulN1r; first by move: (\det L0) => x; lia.
  + apply/rowP => b; rewrite !mxE eqbE eqxx /=.
    by rewrite mulN1r mul0r addr0.
  + apply/matrixP => a b; rewrite !mxE eqbE.
    by rewrite -[_ == i]/(lift i0 a == i0) eq_sym (negbTE (neq_lift i0 a)).
  + apply/matrixP => a b; rewrite !mxE eqbE.
    by rewrite -[_ == i]/(lift i0 a == i0) eq_sym (negbTE (neq_lift i0 a)).
Qed.

Lemma apply_ops_inv m (ops : list rowop) (L : mat) : wf_mat m m L = true ->
  wf_mat m m (fold_left (apply_op m m) ops L) = true /\
  Z.abs (det m (fold_left (apply_op m m) ops L)) = Z.abs (det m L).
Proof.
elim: ops L => [|o ops IH] L wfL //=.
have [wf1 e1] := apply_op_inv o wfL.
by have [wf2 e2] := IH _ wf1; split=> //; rewrite e2.
Qed.

Lemma det_diag_mat (d : list Z) : det (length d) (diag_mat d) = fold_right Z.mul 1%Z d.
Proof.
rewrite det_mx_of /diag_mat ?wf_mk_mat // mx_of_mk_mat prodE.
have -> : \matrix_(i < length d, j < length d) (if Nat.eqb i j then nthZ d i else 0%Z) =
          diag_mx (\row_(i < size d) nthZ d i).
  apply/matrixP => i j; rewrite !mxE eqbE -[(i : nat) == j]/(i == j).
  by case: (i == j); rewrite ?mulr1n ?mulr0n.
by rewrite det_diag; apply: eq_bigr => i _; rewrite mxE.
Qed.

Theorem det_apply_ops : forall (d : list Z) (ops : list rowop),
  let m := length d in
  wf_mat m m (fold_left (apply_op m m) ops (diag_mat d)) = true /\
  Z.abs (det m (fold_left (apply_op m m) ops (diag_mat d))) = Z.abs (fold_right Z.mul 1%Z d).
Proof.
move=> d ops m.
have wfD : wf_mat m m (diag_mat d) = true by exact: wf_mk_mat.
by have [wf1 e1] := apply_ops_inv ops wfD; split=> //; rewrite e1 det_diag_mat.
Qed.

(* ========================================================================================== *)
(* 6. rank-deficient L: the gcd of the r x r minors of ops([diag d; 0])                        *)
(* ========================================================================================== *)

Lemma InE (T : eqType) (x : T) (l : seq T) : List.In x l <-> x \in l.
Proof.
elim: l => [|y l IH] //=; rewrite inE; split.
  by case=> [->|/IH ->]; rewrite ?eqxx ?orbT.
by case/orP => [/eqP ->|/IH]; [left|right].
Qed.

(* g divides the determinant of every choice of r rows of A (in any order, with repetitions) *)
Definition DivRows m r (g : Z) (A : 'M[Z]_(m, r)) : Prop :=
  forall f : 'I_r -> 'I_m, Z.divide g (\det (mxsub f id A)).

(* it suffices to look at the increasing row selections: the minors enumerated by minors_gcd *)
Lemma DivRowsP m r (L : mat) (g : Z) :
  (forall rs, List.In rs (subseqs r (Base.iota 0 m)) ->
     Z.divide g (det r (submat L rs (Base.iota 0 r)))) <->
  DivRows g (mx_of m r L).
Proof.
have cE (h : 'I_r -> 'I_r) : h = id -> forall j, val (h j) = nth 0%N (Base.iota 0 r) j.
  by move=> -> j; rewrite iotaE nth_iota.
split=> [H f|H rs /subseqs_iota0_spec [sz [_ lt]]].
- case: (not_inj_witness f) => [finj|[i1 [i2 [ne e]]]]; last first.
    rewrite (determinant_alternate ne) => [|j]; first exact: Z.divide_0_r.
    by rewrite !mxE e.
  have [s [f' [finc fE]]] := inj_factor finj.
  have -> : mxsub f id (mx_of m r L) = row_perm s (mxsub f' id (mx_of m r L)).
    by apply/matrixP => i j; rewrite !mxE fE.
  rewrite det_row_perm; apply: Z.divide_mul_r.
  have mem : List.In (seq_of_map f') (subseqs r (Base.iota 0 m)).
    apply/InE; rewrite iotaE.
    have := @TuProofs.subseqs_complete (seq.iota 0 m) (seq_of_map f').
    rewrite size_seq_of_map; apply.
    by apply: sorted_subseq_iota; [exact: seq_of_map_sorted | exact: seq_of_map_lt].
  have := H _ mem.
  rewrite (@detE r) ?size_seq_of_map ?iotaE ?size_iota //.
  have hf' i : val (f' i) = nth 0%N (seq_of_map f') i by rewrite nth_seq_of_map.
  by rewrite -iotaE (mxsub_seqE L hf' (cE id (erefl _))).
- move: lt; rewrite all_ltE => lt.
  have [f hf] := idx_map sz lt.
  rewrite (@detE r) ?iotaE ?size_iota // -iotaE (mxsub_seqE L hf (cE id (erefl _))).
  exact: H.
Qed.

Definition radd_mx m r (i0 j0 : 'I_m) (c : Z) (A : 'M[Z]_(m, r)) : 'M[Z]_(m, r) :=
  \matrix_(a, b) if a == i0 then A i0 b + c * A j0 b else A a b.

Definition neg_mx m r (i0 : 'I_m) (A : 'M[Z]_(m, r)) : 'M[Z]_(m, r) :=
  \matrix_(a, b) if a == i0 then - A i0 b else A a b.

Lemma div_swap m r g (A : 'M[Z]_(m, r)) (s : 'S_m) : DivRows g A -> DivRows g (row_perm s A).
Proof.
move=> H f.
have -> : mxsub f id (row_perm s A) = mxsub (s \o f) id A by apply/matrixP => i j; rewrite !mxE.
exact: H.
Qed.

Lemma div_neg m r g (A : 'M[Z]_(m, r)) (i0 : 'I_m) : DivRows g A -> DivRows g (neg_mx i0 A).
Proof.
move=> H f.
have -> : mxsub f id (neg_mx i0 A) =
          diag_mx (\row_a (if f a == i0 then -1 else 1)) *m mxsub f id A.
  apply/matrixP => a b; rewrite mul_diag_mx !mxE.
  by case: eqP => [->|_]; rewrite ?mulN1r ?mul1r.
by rewrite det_mulmx; apply: Z.divide_mul_r; exact: H.
Qed.

Lemma div_radd m r g (A : 'M[Z]_(m, r)) (i0 j0 : 'I_m) c :
  DivRows g A -> DivRows g (radd_mx i0 j0 c A).
Proof.
move=> H f.
case: (not_inj_witness f) => [finj|[i1 [i2 [ne e]]]]; last first.
  rewrite (determinant_alternate ne) => [|j]; first exact: Z.divide_0_r.
  by rewrite !mxE e.
case: (pickP (fun p => f p == i0)) => [p /eqP fp|none]; last first.
  have -> : mxsub f id (radd_mx i0 j0 c A) = mxsub f id A.
    by apply/matrixP => a b; rewrite !mxE none.
  exact: H.
pose f' := fun a => if a == p then j0 else f a.
rewrite (@determinant_multilinear _ _ _ (mxsub f id A) (mxsub f' id A) p 1 c).
- by apply: Z.divide_add_r; apply: Z.divide_mul_r; exact: H.
- by apply/rowP => b; rewrite !mxE fp eqxx /f' eqxx mul1r.
- apply/matrixP => a b; rewrite !mxE -fp (eqtype.inj_eq finj).
  by rewrite eq_sym (negbTE (neq_lift p a)).
- apply/matrixP => a b; rewrite !mxE -fp (eqtype.inj_eq finj) /f'.
  by rewrite eq_sym (negbTE (neq_lift p a)).
Qed.

Lemma radd_mxK m r (A : 'M[Z]_(m, r)) (i0 j0 : 'I_m) c : i0 != j0 ->
  radd_mx i0 j0 (- c) (radd_mx i0 j0 c A) = A.
Proof.
rewrite eq_sym => ne; apply/matrixP => a b; rewrite !mxE eqxx (negbTE ne).
by case: eqP => [->|//]; rewrite mulNr addrK.
Qed.

Lemma neg_mxK m r (A : 'M[Z]_(m, r)) (i0 : 'I_m) : neg_mx i0 (neg_mx i0 A) = A.
Proof.
by apply/matrixP => a b; rewrite !mxE eqxx; case: eqP => [->|//]; rewrite opprK.
Qed.

Lemma row_perm_tpermK m r (A : 'M[Z]_(m, r)) (i0 j0 : 'I_m) :
  row_perm (tperm i0 j0) (row_perm (tperm i0 j0) A) = A.
Proof. by apply/matrixP => a b; rewrite !mxE tpermK. Qed.

(* every row operation acts on mx_of by a map that preserves the common divisors of the r x r minors *)
Lemma apply_op_mx m r (L : mat) (o : rowop) : wf_mat m r L = true ->
  wf_mat m r (apply_op m r L o) = true /\
  forall g, DivRows g (mx_of m r (apply_op m r L o)) <-> DivRows g (mx_of m r L).
Proof.
move=> wfL; case: o => [i j c|i j|i] /=.
- case: ifP => [/andP [/andP []]|_] //.
  rewrite !ltbE eqbE => im jm ne; split; first exact: wf_mk_mat.
  pose i0 := Ordinal im; pose j0 := Ordinal jm.
  have ne0 : i0 != j0 by [].
  have -> : mx_of m r (mk_mat m r (fun a b => if Nat.eqb a i then (get L i b + c * get L j b)%Z else get L a b)) =
            radd_mx i0 j0 c (mx_of m r L).
    rewrite mx_of_mk_mat; apply/matrixP => a b; rewrite !mxE eqbE.
    by rewrite -[(a : nat) == i]/(a == i0).
  move=> g; split; last exact: div_radd.
  by move=> /(div_radd i0 j0 (- c)); rewrite radd_mxK.
- case: ifP => [/andP []|_] //.
  rewrite !ltbE => im jm; split; first exact: wf_mk_mat.
  pose i0 := Ordinal im; pose j0 := Ordinal jm.
  have -> : mx_of m r (mk_mat m r (fun a b => if Nat.eqb a i then get L j b
                                             else if Nat.eqb a j then get L i b else get L a b)) =
            row_perm (tperm i0 j0) (mx_of m r L).
    rewrite mx_of_mk_mat; apply/matrixP => a b; rewrite !mxE !eqbE permE /=.
    rewrite -[(a : nat) == i]/(a == i0) -[(a : nat) == j]/(a == j0).
    by case: (a == i0); [|case: (a == j0)].
  move=> g; split; last exact: div_swap.
  by move=> /(div_swap (tperm i0 j0)); rewrite row_perm_tpermK.
- case: ifP => [|_] //.
  rewrite !ltbE => im; split; first exact: wf_mk_mat.
  pose i0 := Ordinal im.
  have -> : mx_of m r (mk_mat m r (fun a b => if Nat.eqb a i then (- get L i b)%Z else get L a b)) =
            neg_mx i0 (mx_of m r L).
    rewrite mx_of_mk_mat; apply/matrixP => a b; rewrite !mxE eqbE.
    by rewrite -[(a : nat) == i]/(a == i0).
  move=> g; split; last exact: div_neg.
  by move=> /(div_neg i0); rewrite neg_mxK.
Qed.

Lemma wf_apply_op m r (L : mat) (o : rowop) :
  wf_mat m r L = true -> wf_mat m r (apply_op m r L o) = true.
Proof. by move=> wfL; have [] := apply_op_mx o wfL. Qed.

Theorem minors_gcd_apply_op : forall (m r : nat) (L : mat) (o : rowop),
  wf_mat m r L = true -> minors_gcd m r (apply_op m r L o) = minors_gcd m r L.
Proof.
move=> m r L o wfL; have [_ H] := apply_op_mx o wfL.
rewrite /minors_gcd; apply: gcd_list_same_divisors => g Hg x /List.in_map_iff [rs [<- mem]].
- have /DivRowsP : DivRows g (mx_of m r L); last by apply.
  apply/H/DivRowsP => rs' mem'; apply: Hg; apply/List.in_map_iff.
  by exists rs'.
- have /DivRowsP : DivRows g (mx_of m r (apply_op m r L o)); last by apply.
  apply/H/DivRowsP => rs' mem'; apply: Hg; apply/List.in_map_iff.
  by exists rs'.
Qed.

Lemma minors_gcd_apply_ops m r (ops : list rowop) (L : mat) : wf_mat m r L = true ->
  wf_mat m r (fold_left (apply_op m r) ops L) = true /\
  minors_gcd m r (fold_left (apply_op m r) ops L) = minors_gcd m r L.
Proof.
elim: ops L => [|o ops IH] L wfL //=.
have wf1 := wf_apply_op o wfL.
by have [wf2 e2] := IH _ wf1; split=> //; rewrite e2 minors_gcd_apply_op.
Qed.

(* [diag d; 0]: every selection of r rows has a determinant divisible by prod d; the first r rows give prod d *)
Lemma stack_diag_factor m (d : list Z) (f : 'I_(length d) -> 'I_m) :
  mxsub f id (mx_of m (length d) (stack_diag m d)) =
  (\matrix_(a < length d, b < length d) ((f a : nat) == b)%:R) *m
  diag_mx (\row_(b < length d) nthZ d b).
Proof.
apply/matrixP => a b; rewrite mul_mx_diag !mxE get_mk_mat; [|exact/ltP|exact/ltP].
by rewrite eqbE; case: eqP => [->|_]; rewrite ?mul1r ?mul0r.
Qed.

Lemma det_diag_row (d : list Z) :
  \det (diag_mx (\row_(b < length d) nthZ d b)) = fold_right Z.mul 1%Z d.
Proof. by rewrite det_diag prodE; apply: eq_bigr => i _; rewrite mxE. Qed.

Theorem minors_gcd_stack_diag : forall (m : nat) (d : list Z),
  (length d <= m)%coq_nat ->
  minors_gcd m (length d) (stack_diag m d) = Z.abs (fold_right Z.mul 1%Z d).
Proof.
move=> m d /leP le; set r := length d; set p := fold_right _ _ _.
have div : DivRows p (mx_of m r (stack_diag m d)).
  move=> f; rewrite stack_diag_factor det_mulmx det_diag_row.
  exact: Z.divide_factor_r.
have top : det r (submat (stack_diag m d) (Base.iota 0 r) (Base.iota 0 r)) = p.
  rewrite (@detE r) ?iotaE ?size_iota //.
  have -> : \matrix_(i < r, j < r) get (stack_diag m d) (nth 0%N (seq.iota 0 r) i) (nth 0%N (seq.iota 0 r) j) =
            diag_mx (\row_(b < r) nthZ d b).
    apply/matrixP => i j; rewrite !mxE !nth_iota // !add0n get_mk_mat; first last.
    - exact/ltP.
    - by apply/ltP; apply: leq_trans le.
    rewrite eqbE -[(i : nat) == j]/(i == j).
    by case: (i == j); rewrite ?mulr1n ?mulr0n.
  exact: det_diag_row.
rewrite /minors_gcd; apply: gcd_list_generator.
- apply/List.in_map_iff; exists (Base.iota 0 r); split=> //.
  apply/InE; rewrite iotaE.
  have := @TuProofs.subseqs_complete (seq.iota 0 m) (seq.iota 0 r).
  rewrite size_iota; apply.
  have -> : seq.iota 0 m = seq.iota 0 r ++ seq.iota r (m - r) by rewrite -iotaD subnKC.
  exact: prefix_subseq.
- by move=> y /List.in_map_iff [rs [<- mem]]; move/DivRowsP: div; apply.
Qed.

Theorem minors_gcd_cert_L : forall (m : nat) (d : list Z) (ops : list rowop),
  (length d <= m)%coq_nat ->
  wf_mat m (length d) (cert_L m d ops) = true /\
  minors_gcd m (length d) (cert_L m d ops) = Z.abs (fold_right Z.mul 1%Z d).
Proof.
move=> m d ops le; rewrite /cert_L.
have wfD : wf_mat m (length d) (stack_diag m d) = true by exact: wf_mk_mat.
have [wf1 e1] := minors_gcd_apply_ops ops wfD.
by split=> //; rewrite e1 minors_gcd_stack_diag.
Qed.

(* for use from files that do not load ssreflect: all arguments explicit *)
Arguments equimodular_unique' : clear implicits.
Arguments equimodular_unique : clear implicits.
Arguments equimod_all_unique : clear implicits.
Arguments equimodular_construct : clear implicits.
Arguments equimodular_construct_b : clear implicits.
Arguments minors_gcd_square : clear implicits.
Arguments det_apply_ops : clear implicits.
Arguments minors_gcd_apply_op : clear implicits.
Arguments minors_gcd_stack_diag : clear implicits.
Arguments minors_gcd_cert_L : clear implicits.

Print Assumptions equimodular_unique'.
Print Assumptions equimodular_unique.
Print Assumptions equimod_all_unique.
Print Assumptions equimodular_construct.
Print Assumptions equimodular_construct_b.
Print Assumptions minors_gcd_square.
Print Assumptions det_apply_ops.
Print Assumptions minors_gcd_apply_op.
Print Assumptions minors_gcd_stack_diag.
Print Assumptions minors_gcd_cert_L.
