(* NetworkJudge.v -- what a "network: yes" record accepted by judge_network means:
   the matrix the verdict is about is totally unimodular (and the certificate is a network representation). *)
From Coq Require Import List ZArith Bool Lia.
From Cmr Require Import Base Det BaseProofs GraphModel GraphProofs NetworkSpec NetworkTU.
Import ListNotations.
Local Open Scope Z_scope.

Definition network_input :=
  tr <- dbool ;; x <- dmat ;; rc <- dZ ;; v <- dZ ;; sg <- dZ ;; h <- dbool ;;
  cert <- (if h then (c <- dgraph_cert ;; r <- dlist dnat ;; dret (Some (c, r))) else dret None) ;;
  sub <- dsub2 ;; w <- dwitness ;;
  dend (tr, x, rc, v, sg, cert, sub, w).

Theorem judge_network_yes_TU : forall rec tr m0 n0 M0 rc sg cert sub w rest,
  network_input rec = Some ((tr, (m0, n0, M0), rc, 1, sg, cert, sub, w), rest) ->
  judge_network rec = 0 ->
  let '(m, n, M) := oriented tr m0 n0 M0 in
  is_ternary M = true ->
  rc = 0 /\
  (exists G f c r, cert = Some ((G, f, c), r) /\ check_network_cert m n M G r f c = true) /\
  tu_bf m n M = true.
Proof.
  intros rec tr m0 n0 M0 rc sg cert sub w rest Hdec Hj.
  unfold judge_network in Hj. unfold network_input in Hdec. rewrite Hdec in Hj.
  unfold oriented.
  destruct (if tr then (n0, m0, transpose m0 n0 M0) else (m0, n0, M0)) as [[m n] M] eqn:Ho.
  intros Htern. rewrite Htern in Hj. cbn [negb] in Hj.
  destruct (rc =? 0) eqn:Hrc; cbn [negb] in Hj; [|discriminate].
  apply Z.eqb_eq in Hrc. split; [exact Hrc|].
  change ((1 =? 0) || (1 =? 1)) with true in Hj. cbn [negb] in Hj.
  change (1 =? 1) with true in Hj. change (1 =? 0) with false in Hj.
  destruct (Nat.leb m 4 && negb (sg =? 2) && negb (Bool.eqb (sg =? 1) (graphic_bf m n (support M)))) eqn:H102;
    [discriminate|].
  cbn [andb] in Hj.
  destruct (sg =? 0) eqn:Hsg; [discriminate|].
  assert (Hfin : match cert with
                 | Some ((G, f, c), r) => if check_network_cert m n M G r f c then 0 else 104
                 | None => 105
                 end = 0).
  { destruct w as [|Gw fw cw rw|rsw csw].
    - exact Hj.
    - cbn [andb] in Hj. exact Hj.
    - destruct (increasing_in m rsw && increasing_in n csw && Nat.leb (length rsw) 4 &&
                negb (graphic_bf (length rsw) (length csw) (support (submat M rsw csw))) && true);
        [discriminate|exact Hj]. }
  destruct cert as [[[[G f] c] r]|]; [|discriminate].
  destruct (check_network_cert m n M G r f c) eqn:Hc; [|discriminate].
  split.
  - exists G, f, c, r. split; [reflexivity | exact Hc].
  - eapply network_cert_tu_bf. exact Hc.
Qed.

Print Assumptions judge_network_yes_TU.
