(* EquiProofs.v — C16: the executable oracle of EquiModel.v decides the documented definition of
   equimodular matrices; soundness of judge_equimod. *)
From Cmr Require Import Base Det BaseProofs BalancedProofs EquiModel.
Local Open Scope Z_scope.

(* ------------------------------------------------------------------------------------------ *)
(* 0. The definition                                                                            *)
(* ------------------------------------------------------------------------------------------ *)

(* MB : m x r, X : r x n *)
Definition mat_mul_cols (m r n : nat) (MB X : mat) : mat :=
  mk_mat m n (fun i j => fold_right Z.add 0 (map (fun a => get MB i a * get X a j) (iota 0 r))).

(* M (m x n) is equimodular with determinant gcd k: for some set B of columns (r = |B|), the gcd of the
   r x r minors of M_B is k, k > 0 (so the columns B are linearly independent), and there is a totally
   unimodular r x n matrix X with M = M_B X (so B spans the column space, r = rank M). *)
Definition Equimodular (m n : nat) (M : mat) (k : Z) : Prop :=
  exists (B : list nat) (X : mat),
    strictly_increasing B = true /\ all_lt n B = true /\
    k = minors_gcd m (length B) (submat M (iota 0 m) B) /\ 0 < k /\
    wf_mat (length B) n X = true /\
    (forall i j, (i < m)%nat -> (j < n)%nat ->
       get (mat_mul_cols m (length B) n (submat M (iota 0 m) B) X) i j = get M i j) /\
    tu_bf (length B) n X = true.

(* ------------------------------------------------------------------------------------------ *)
(* 1. Auxiliary lemmas                                                                          *)
(* ------------------------------------------------------------------------------------------ *)

Lemma gcd_list_nonneg : forall l, 0 <= gcd_list l.
Proof. destruct l as [|x l]; cbn [gcd_list]; [lia | apply Z.gcd_nonneg]. Qed.

Lemma map_eq_pointwise : forall (A B : Type) (f g : A -> B) (l : list A),
  map f l = map g l -> forall a, In a l -> f a = g a.
Proof.
  intros A B f g; induction l as [|x l IH]; intros H a Ha; [contradiction|].
  cbn [map] in H. inversion H as [[H1 H2]]. destruct Ha as [<-|Ha]; [assumption | now apply IH].
Qed.

Lemma ternary_vectors_spec : forall r v,
  In v (ternary_vectors r) <->
  length v = r /\ (forall x, In x v -> x = -1 \/ x = 0 \/ x = 1).
Proof.
  induction r as [|r IHr]; intros v; cbn [ternary_vectors].
  - split.
    + intros [<-|[]]. split; [reflexivity | intros x []].
    + intros [HL _]. destruct v; [left; reflexivity | discriminate].
  - rewrite in_flat_map. split.
    + intros [w [Hw Hv]]. apply IHr in Hw. destruct Hw as [HL HT]. cbn [In] in Hv.
      destruct Hv as [<- | [<- | [<- | [] ] ] ];
        (split; [cbn [length]; lia | intros x [<-|Hx]; [lia | auto]]).
    + intros [HL HT]. destruct v as [|a w]; [discriminate|]. exists w. split.
      * apply IHr. split; [simpl in HL; lia|]. intros x Hx. apply HT. now right.
      * destruct (HT a (or_introl eq_refl)) as [-> | [-> | ->] ]; cbn [In]; auto.
Qed.

Lemma dotp_cons : forall x a y b, dotp (x :: a) (y :: b) = x * y + dotp a b.
Proof. intros. reflexivity. Qed.

Lemma dotp_nth : forall a b, length a = length b ->
  dotp a b = fold_right Z.add 0 (map (fun i => nthZ a i * nthZ b i) (iota 0 (length a))).
Proof.
  induction a as [|x a IH]; intros [|y b] HL; try discriminate; [reflexivity|].
  rewrite dotp_cons. cbn [length iota map fold_right]. cbn [nthZ]. f_equal.
  rewrite iota_S, map_map. cbn [nthZ]. apply IH. simpl in HL; lia.
Qed.

Lemma nthR_submat_length : forall M m B i, (i < m)%nat ->
  length (nthR (submat M (iota 0 m) B) i) = length B.
Proof.
  intros M m B i Hi. unfold submat. rewrite nthR_map_iota by assumption. apply map_length.
Qed.

(* M_B x, entrywise *)
Lemma mat_vec_submat : forall M m B x, length x = length B ->
  mat_vec (submat M (iota 0 m) B) x =
  map (fun i => fold_right Z.add 0
                  (map (fun a => get (submat M (iota 0 m) B) i a * nthZ x a) (iota 0 (length B))))
      (iota 0 m).
Proof.
  intros M m B x HL. unfold mat_vec.
  pose proof (map_nthR_iota Z (submat M (iota 0 m) B) (fun row => dotp row x)) as E.
  rewrite <- E. rewrite submat_length, length_iota.
  apply map_ext_in. intros i Hi. apply in_iota in Hi.
  pose proof (nthR_submat_length M m B i ltac:(lia)) as HR.
  rewrite dotp_nth by congruence. rewrite HR. reflexivity.
Qed.

Lemma choices_map_iota : forall (g : nat -> list (list Z)) k s cols,
  In cols (choices (map g (iota s k))) ->
  forall j, (j < k)%nat -> In (nthR cols j) (g (s + j)%nat).
Proof.
  intros g; induction k as [|k IH]; intros s cols H j Hj; [lia|].
  cbn [iota map choices] in H. apply in_flat_map in H. destruct H as [x [Hx H]].
  apply in_map_iff in H. destruct H as [cols' [<- Hc]].
  destruct j as [|j]; cbn [nthR].
  - now rewrite Nat.add_0_r.
  - replace (s + S j)%nat with (S s + j)%nat by lia. apply IH; [assumption | lia].
Qed.

Lemma choices_map_complete : forall (f : nat -> list Z) (g : nat -> list (list Z)) l,
  (forall j, In j l -> In (f j) (g j)) -> In (map f l) (choices (map g l)).
Proof.
  intros f g; induction l as [|a l IH]; intros H; [left; reflexivity|].
  cbn [map choices]. apply in_flat_map. exists (f a). split; [apply H; now left|].
  apply in_map. apply IH. intros j Hj. apply H. now right.
Qed.

Lemma get_of_columns : forall r n cols a j, (a < r)%nat -> (j < n)%nat ->
  get (of_columns r n cols) a j = nthZ (nthR cols j) a.
Proof. intros. unfold of_columns. now rewrite get_mk_mat. Qed.

(* a list of strictly increasing indices below m has at most m elements *)
Lemma si_length_le : forall m x,
  strictly_increasing x = true -> all_lt m x = true -> (length x <= m)%nat.
Proof.
  intros m x H1 H2. apply nodup_lt_length.
  - apply si_lb_sorted0 in H1. eapply lb_sorted_NoDup; eassumption.
  - now apply all_lt_spec.
Qed.

Lemma subseqs_too_long : forall m r, (m < r)%nat -> subseqs r (iota 0 m) = [].
Proof.
  intros m r H. destruct (subseqs r (iota 0 m)) as [|x l] eqn:E; [reflexivity|]. exfalso.
  assert (Hx : In x (subseqs r (iota 0 m))) by (rewrite E; now left).
  apply subseqs_iota0_spec in Hx. destruct Hx as (HL & H1 & H2).
  pose proof (si_length_le _ _ H1 H2). lia.
Qed.

Lemma minors_gcd_pos_le : forall m r N, 0 < minors_gcd m r N -> (r <= m)%nat.
Proof.
  intros m r N H. destruct (Nat.le_gt_cases r m) as [Hle|Hgt]; [assumption|]. exfalso.
  unfold minors_gcd in H. rewrite subseqs_too_long in H by assumption. cbn in H. lia.
Qed.

Lemma all_bases_spec : forall m n B,
  In B (all_bases m n) <->
  strictly_increasing B = true /\ all_lt n B = true /\ (length B <= Nat.min m n)%nat.
Proof.
  intros m n B. unfold all_bases. rewrite in_flat_map. split.
  - intros [r [Hr HB]]. apply in_iota in Hr. apply subseqs_iota0_spec in HB.
    destruct HB as (HL & H1 & H2). repeat split; try assumption. lia.
  - intros (H1 & H2 & H3). exists (length B). split; [apply in_iota; lia|].
    now apply subseqs_complete.
Qed.

(* the entries of a totally unimodular matrix are in {-1,0,1}: the 1 x 1 minors *)
Lemma tu_bf_entries : forall r n X a j, tu_bf r n X = true -> (a < r)%nat -> (j < n)%nat ->
  get X a j = -1 \/ get X a j = 0 \/ get X a j = 1.
Proof.
  intros r n X a j H Ha Hj. unfold tu_bf in H. rewrite forallb_forall in H.
  assert (H1 : In 1%nat (iota 1 (Nat.min r n))) by (apply in_iota; lia).
  specialize (H _ H1). unfold tu_order in H. rewrite forallb_forall in H.
  assert (Hrs : In [a] (subseqs 1 (iota 0 r))).
  { apply subseqs_complete; [reflexivity | reflexivity |].
    cbn [all_lt forallb]. rewrite andb_true_r. apply Nat.ltb_lt. assumption. }
  specialize (H _ Hrs). rewrite forallb_forall in H.
  assert (Hcs : In [j] (subseqs 1 (iota 0 n))).
  { apply subseqs_complete; [reflexivity | reflexivity |].
    cbn [all_lt forallb]. rewrite andb_true_r. apply Nat.ltb_lt. assumption. }
  specialize (H _ Hcs). cbn [submat map det alt_sum] in H.
  unfold small_det in H. rewrite !orb_true_iff, !Z.eqb_eq in H.
  destruct (get X a j =? 0) eqn:E0.
  - apply Z.eqb_eq in E0. lia.
  - lia.
Qed.

(* the TU oracle reads its argument only through get on the index range *)
Lemma tu_bf_ext : forall r n X Y,
  (forall a j, (a < r)%nat -> (j < n)%nat -> get X a j = get Y a j) ->
  tu_bf r n X = tu_bf r n Y.
Proof.
  intros r n X Y H. unfold tu_bf. apply forallb_ext_in. intros k _.
  unfold tu_order. apply forallb_ext_in. intros rs Hrs. apply forallb_ext_in. intros cs Hcs.
  apply subseqs_iota0_spec in Hrs. apply subseqs_iota0_spec in Hcs.
  destruct Hrs as (_ & _ & Hrs). destruct Hcs as (_ & _ & Hcs).
  rewrite all_lt_spec in Hrs, Hcs.
  f_equal. f_equal. unfold submat. apply map_ext_in. intros i Hi. apply map_ext_in. intros c Hc.
  apply H; auto.
Qed.

(* ------------------------------------------------------------------------------------------ *)
(* 2. One basis                                                                                 *)
(* ------------------------------------------------------------------------------------------ *)

Lemma equimod_for_basis_sound : forall m n M B k,
  In k (equimod_for_basis m n M B) ->
  k = minors_gcd m (length B) (submat M (iota 0 m) B) /\ 0 < k /\
  exists X, wf_mat (length B) n X = true /\
    (forall i j, (i < m)%nat -> (j < n)%nat ->
       get (mat_mul_cols m (length B) n (submat M (iota 0 m) B) X) i j = get M i j) /\
    tu_bf (length B) n X = true.
Proof.
  intros m n M B k H. unfold equimod_for_basis in H. cbv zeta in H.
  set (r := length B) in *. set (MB := submat M (iota 0 m) B) in *.
  destruct (minors_gcd m r MB =? 0) eqn:Ek; [contradiction|].
  destruct (existsb _ _) eqn:Eex in H; [|contradiction].
  destruct H as [<-|[]]. split; [reflexivity|]. split.
  { apply Z.eqb_neq in Ek. pose proof (gcd_list_nonneg
      (map (fun rs => det r (submat MB rs (iota 0 r))) (subseqs r (iota 0 m)))) as Hnn.
    unfold minors_gcd in *. lia. }
  apply existsb_exists in Eex. destruct Eex as [cols [Hin Htu]].
  exists (of_columns r n cols). split; [apply wf_mk_mat|]. split; [|assumption].
  intros i j Hi Hj. unfold mat_mul_cols. rewrite get_mk_mat by assumption.
  pose proof (choices_map_iota (fun j => col_candidates r MB (column m M j)) n 0 cols Hin j Hj) as Hc.
  cbn [Nat.add] in Hc. unfold col_candidates in Hc. apply filter_In in Hc. destruct Hc as [Ht Heq].
  apply ternary_vectors_spec in Ht. destruct Ht as [HL _].
  apply zlist_eqb_eq in Heq. unfold MB in Heq. rewrite mat_vec_submat in Heq by exact HL.
  unfold column in Heq.
  assert (Hi' : In i (iota 0 m)) by (apply in_iota; lia).
  pose proof (map_eq_pointwise _ _ _ _ _ Heq i Hi') as Hp. cbv beta in Hp.
  rewrite <- Hp. fold r. fold MB. f_equal. apply map_ext_in. intros a Ha. apply in_iota in Ha.
  rewrite get_of_columns by lia. reflexivity.
Qed.

Lemma equimod_for_basis_complete : forall m n M B X k,
  k = minors_gcd m (length B) (submat M (iota 0 m) B) -> 0 < k ->
  (forall i j, (i < m)%nat -> (j < n)%nat ->
     get (mat_mul_cols m (length B) n (submat M (iota 0 m) B) X) i j = get M i j) ->
  tu_bf (length B) n X = true ->
  In k (equimod_for_basis m n M B).
Proof.
  intros m n M B X k Hk Hpos Heq Htu. unfold equimod_for_basis. cbv zeta.
  set (r := length B) in *. set (MB := submat M (iota 0 m) B) in *.
  rewrite <- Hk. destruct (k =? 0) eqn:Ek; [apply Z.eqb_eq in Ek; lia|].
  set (cols := map (fun j => column r X j) (iota 0 n)).
  assert (Hin : In cols (choices (map (fun j => col_candidates r MB (column m M j)) (iota 0 n)))).
  { unfold cols. apply choices_map_complete. intros j Hj. apply in_iota in Hj.
    unfold col_candidates. apply filter_In. split.
    - apply ternary_vectors_spec. split; [unfold column; now rewrite map_length, length_iota|].
      intros x Hx. unfold column in Hx. apply in_map_iff in Hx. destruct Hx as [a [<- Ha]].
      apply in_iota in Ha. apply (tu_bf_entries r n); [assumption | lia | lia].
    - apply zlist_eqb_eq. unfold MB. rewrite mat_vec_submat
        by (unfold column; now rewrite map_length, length_iota).
      fold r. fold MB. unfold column at 2. apply map_ext_in. intros i Hi. apply in_iota in Hi.
      rewrite <- (Heq i j) by lia. unfold mat_mul_cols. rewrite get_mk_mat by lia.
      f_equal. apply map_ext_in. intros a Ha. apply in_iota in Ha.
      unfold column. rewrite nthZ_map_iota by lia. reflexivity. }
  assert (Hex : existsb (fun cols => tu_bf r n (of_columns r n cols))
                  (choices (map (fun j => col_candidates r MB (column m M j)) (iota 0 n))) = true).
  { apply existsb_exists. exists cols. split; [assumption|].
    rewrite <- Htu. apply tu_bf_ext. intros a j Ha Hj.
    rewrite get_of_columns by assumption. unfold cols, column.
    rewrite nthR_map_iota by assumption. rewrite nthZ_map_iota by assumption. reflexivity. }
  rewrite Hex. now left.
Qed.

(* ------------------------------------------------------------------------------------------ *)
(* 3. The oracle decides the definition                                                         *)
(* ------------------------------------------------------------------------------------------ *)

Theorem equimod_all_sound : forall m n M k,
  In k (equimod_all m n M) -> Equimodular m n M k.
Proof.
  intros m n M k H. unfold equimod_all in H. apply in_flat_map in H. destruct H as [B [HB H]].
  apply all_bases_spec in HB. destruct HB as (H1 & H2 & _).
  apply equimod_for_basis_sound in H. destruct H as (Hk & Hpos & X & Hwf & Heq & Htu).
  exists B, X. repeat split; assumption.
Qed.

(* no well-formedness of M (nor of X) is needed: the oracle reads M only through get *)
Theorem equimod_all_complete' : forall m n M k,
  Equimodular m n M k -> In k (equimod_all m n M).
Proof.
  intros m n M k (B & X & H1 & H2 & Hk & Hpos & Hwf & Heq & Htu).
  unfold equimod_all. apply in_flat_map. exists B. split.
  - apply all_bases_spec. repeat split; try assumption.
    pose proof (si_length_le _ _ H1 H2) as Hn.
    rewrite Hk in Hpos. apply minors_gcd_pos_le in Hpos. lia.
  - eapply equimod_for_basis_complete; eassumption.
Qed.

Theorem equimod_all_complete : forall m n M k,
  wf_mat m n M = true -> Equimodular m n M k -> In k (equimod_all m n M).
Proof. intros m n M k _. apply equimod_all_complete'. Qed.

Theorem equimod_all_spec' : forall m n M k,
  In k (equimod_all m n M) <-> Equimodular m n M k.
Proof. intros. split; [apply equimod_all_sound | apply equimod_all_complete']. Qed.

Theorem equimod_all_spec : forall m n M k,
  wf_mat m n M = true -> (In k (equimod_all m n M) <-> Equimodular m n M k).
Proof. intros m n M k _. apply equimod_all_spec'. Qed.

Lemma memz_In : forall k l, memz k l = true <-> In k l.
Proof.
  intros k l. unfold memz. rewrite existsb_exists. split.
  - intros [x [Hx E]]. apply Z.eqb_eq in E. now subst.
  - intros H. exists k. split; [assumption | apply Z.eqb_refl].
Qed.

Lemma equi_yes_unfold : forall strong m n M k,
  equi_yes strong m n M k = true <->
  In k (equimod_all m n M) /\ (strong = true -> In k (equimod_all n m (transpose m n M))).
Proof.
  intros strong m n M k. unfold equi_yes. rewrite andb_true_iff, memz_In.
  destruct strong.
  - rewrite memz_In. split; intros [H1 H2]; split; auto.
  - split; [intros [H1 _]; split; [assumption | discriminate] | intros [H1 _]; auto].
Qed.

(* (strongly) equimodular with determinant gcd k, by the definition *)
Theorem equi_yes_spec : forall strong m n M k,
  equi_yes strong m n M k = true <->
  Equimodular m n M k /\ (strong = true -> Equimodular n m (transpose m n M) k).
Proof.
  intros strong m n M k. rewrite equi_yes_unfold, !equimod_all_spec'. reflexivity.
Qed.

Lemma equi_any_In : forall strong m n M k,
  In k (equi_any strong m n M) <-> equi_yes strong m n M k = true.
Proof.
  intros strong m n M k. unfold equi_any. rewrite filter_In. split; [intros [_ H]; exact H|].
  intros H. split; [|assumption]. apply equi_yes_unfold in H. apply H.
Qed.

Lemma equi_any_nonempty : forall strong m n M,
  equi_any strong m n M <> [] <-> exists k, equi_yes strong m n M k = true.
Proof.
  intros strong m n M. split.
  - destruct (equi_any strong m n M) as [|k l] eqn:E; [congruence|]. intros _.
    exists k. apply equi_any_In. rewrite E. now left.
  - intros [k Hk] E. apply equi_any_In in Hk. rewrite E in Hk. contradiction.
Qed.

(* ------------------------------------------------------------------------------------------ *)
(* 4. Judge soundness                                                                           *)
(* ------------------------------------------------------------------------------------------ *)

Definition equimod_input :=
  variant <- dZ ;; kin <- dZ ;; x <- dmat ;; rc <- dZ ;; v <- dZ ;; kout <- dZ ;;
  dend (variant, kin, x, rc, v, kout).

Definition variant_strong (variant : Z) : bool := (variant =? 1) || (variant =? 3).
Definition variant_kreq (variant kin : Z) : Z :=
  if (variant =? 2) || (variant =? 3) then 1 else kin.

Theorem judge_equimod_sound : forall rec variant kin m n M rc v kout rest,
  equimod_input rec = Some ((variant, kin, (m, n, M), rc, v, kout), rest) ->
  judge_equimod rec = 0 ->
  (0 <= variant <= 3 /\ 0 <= kin /\ wf_mat m n M = true) /\
  ((rc = 5 /\ 1000 <= max_abs M) \/
   (rc = 0 /\ (v = 0 \/ v = 1) /\
    (variant_kreq variant kin <> 0 ->
       (v = 1 <-> equi_yes (variant_strong variant) m n M (variant_kreq variant kin) = true)) /\
    (variant_kreq variant kin = 0 ->
       (v = 1 <-> equi_any (variant_strong variant) m n M <> [])) /\
    (v = 1 -> variant < 2 -> equi_yes (variant_strong variant) m n M kout = true))).
Proof.
  intros rec variant kin m n M rc v kout rest Hdec HJ.
  assert (Hwf : wf_mat m n M = true).
  { unfold equimod_input, dbind in Hdec.
    destruct (dZ rec) as [[a1 r1]|]; [|discriminate].
    destruct (dZ r1) as [[a2 r2]|]; [|discriminate].
    destruct (dmat r2) as [[[[m' n'] M'] r3]|] eqn:Em; [|discriminate].
    destruct (dZ r3) as [[a4 r4]|]; [|discriminate].
    destruct (dZ r4) as [[a5 r5]|]; [|discriminate].
    destruct (dZ r5) as [[a6 r6]|]; [|discriminate].
    unfold dend in Hdec. destruct r6; [|discriminate]. inversion Hdec; subst.
    eapply dmat_wf; eassumption. }
  unfold judge_equimod in HJ. unfold equimod_input in Hdec. rewrite Hdec in HJ.
  cbv beta iota zeta in HJ.
  fold (variant_strong variant) in HJ. fold (variant_kreq variant kin) in HJ.
  set (strong := variant_strong variant) in *. set (kreq := variant_kreq variant kin) in *.
  destruct ((0 <=? variant) && (variant <=? 3) && (0 <=? kin)) eqn:Erange; cbn [negb] in HJ;
    [|discriminate].
  apply andb_true_iff in Erange. destruct Erange as [Erange E3].
  apply andb_true_iff in Erange. destruct Erange as [E1 E2].
  apply Z.leb_le in E1, E2, E3.
  split; [repeat split; assumption|].
  destruct (rc =? 5) eqn:Erc5.
  { left. apply Z.eqb_eq in Erc5. split; [assumption|].
    destruct (max_abs M <? 1000) eqn:E; [discriminate|]. now apply Z.ltb_ge in E. }
  right.
  destruct (rc =? 0) eqn:Erc0; cbn [negb] in HJ; [|discriminate].
  apply Z.eqb_eq in Erc0. split; [assumption|].
  destruct ((v =? 0) || (v =? 1)) eqn:Ev; cbn [negb] in HJ; [|discriminate].
  apply orb_true_iff in Ev. rewrite !Z.eqb_eq in Ev. split; [assumption|].
  match type of HJ with (if negb (Bool.eqb _ ?t) then _ else _) = _ => set (truth := t) in * end.
  destruct (Bool.eqb (v =? 1) truth) eqn:Etruth; cbn [negb] in HJ; [|discriminate].
  apply Bool.eqb_prop in Etruth.
  split; [|split].
  - intros Hk. apply Z.eqb_neq in Hk. unfold truth in Etruth. rewrite Hk in Etruth.
    rewrite <- Etruth. symmetry. apply Z.eqb_eq.
  - intros Hk. unfold truth in Etruth. rewrite Hk in Etruth. cbn [Z.eqb] in Etruth.
    rewrite <- Z.eqb_eq, Etruth.
    destruct (equi_any strong m n M); cbn [negb]; split; congruence.
  - intros Hv Hlt. apply Z.eqb_eq in Hv. apply Z.ltb_lt in Hlt. rewrite Hv, Hlt in HJ.
    cbn [andb] in HJ. destruct (equi_yes strong m n M kout); [reflexivity | discriminate].
Qed.

(* the same with the oracle replaced by the definition it decides *)
Corollary judge_equimod_sound_spec : forall rec variant kin m n M rc v kout rest,
  equimod_input rec = Some ((variant, kin, (m, n, M), rc, v, kout), rest) ->
  judge_equimod rec = 0 -> rc = 0 ->
  let strong := variant_strong variant in
  let P k := Equimodular m n M k /\ (strong = true -> Equimodular n m (transpose m n M) k) in
  (v = 0 \/ v = 1) /\
  (variant_kreq variant kin <> 0 -> (v = 1 <-> P (variant_kreq variant kin))) /\
  (variant_kreq variant kin = 0 -> (v = 1 <-> exists k, P k)) /\
  (v = 1 -> variant < 2 -> P kout).
Proof.
  intros rec variant kin m n M rc v kout rest Hdec HJ Hrc strong P.
  destruct (judge_equimod_sound _ _ _ _ _ _ _ _ _ _ Hdec HJ) as [_ [[H _]|(_ & Hv & H1 & H2 & H3)]];
    [lia|].
  split; [assumption|]. unfold P, strong. split; [|split].
  - intros Hk. rewrite <- equi_yes_spec. now apply H1.
  - intros Hk. rewrite (H2 Hk), equi_any_nonempty. split; intros [k Hk']; exists k.
    + now apply equi_yes_spec.
    + now apply equi_yes_spec.
  - intros Hv1 Hlt. apply equi_yes_spec. now apply H3.
Qed.

(* ------------------------------------------------------------------------------------------ *)
(* 5. Non-vacuity                                                                               *)
(* ------------------------------------------------------------------------------------------ *)

Example ex_det6 : equimod_all 2 2 [[-2;-2];[-2;1]] = [6].
Proof. vm_compute. reflexivity. Qed.

Example ex_det2 : equimod_all 2 2 [[1;1];[1;-1]] = [2].
Proof. vm_compute. reflexivity. Qed.

(* rank 1; basis column (2,1)^T has minors gcd 1 but X = [1 2] is not TU; basis column (4,2)^T has
   gcd 2 but X = [1/2 1] is not integral *)
Example ex_rank1_no : equimod_all 2 2 [[2;4];[1;2]] = [].
Proof. vm_compute. reflexivity. Qed.

Example ex_rank1_yes : equimod_all 2 2 [[2;2];[1;1]] = [1; 1].
Proof. vm_compute. reflexivity. Qed.

Example ex_zero : equimod_all 2 2 [[0;0];[0;0]] = [1].
Proof. vm_compute. reflexivity. Qed.

Example ex_equimodular_6 : Equimodular 2 2 [[-2;-2];[-2;1]] 6.
Proof. apply equimod_all_sound. vm_compute. now left. Qed.

Example ex_not_equimodular : forall k, ~ Equimodular 2 2 [[2;4];[1;2]] k.
Proof. intros k H. apply equimod_all_complete' in H. vm_compute in H. exact H. Qed.

(* records: variant kin | m n entries | rc verdict kout *)
Example ex_judge_ok : judge_equimod [0; 6; 2; 2; -2; -2; -2; 1; 0; 1; 6] = 0.
Proof. vm_compute. reflexivity. Qed.

Example ex_judge_wrong_verdict : judge_equimod [0; 6; 2; 2; -2; -2; -2; 1; 0; 0; 0] = 82.
Proof. vm_compute. reflexivity. Qed.

Example ex_judge_wrong_k : judge_equimod [0; 0; 2; 2; -2; -2; -2; 1; 0; 1; 3] = 83.
Proof. vm_compute. reflexivity. Qed.

Example ex_judge_unimodular_no : judge_equimod [2; 0; 2; 2; 1; 1; 1; -1; 0; 0; 0] = 0.
Proof. vm_compute. reflexivity. Qed.

Print Assumptions equimod_all_sound.
Print Assumptions equimod_all_complete'.
Print Assumptions equimod_all_complete.
Print Assumptions equimod_all_spec.
Print Assumptions equi_yes_spec.
Print Assumptions memz_In.
Print Assumptions judge_equimod_sound.
Print Assumptions judge_equimod_sound_spec.
Print Assumptions ex_not_equimodular.
