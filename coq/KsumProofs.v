(* KsumProofs.v — proofs about the k-sum block formulas and judges of KsumModel.v. *)
From Cmr Require Import Base Det BaseProofs PivotModel PivotProofs KsumModel.
From Coq Require Import Sorted.
Local Open Scope Z_scope.

(* ------------------------------------------------------------------------------------------ *)
(* 1. Generic lemmas: keep_idx, nth / nthZ / nthR, submat, outer, zeros, hcat, block4            *)
(* ------------------------------------------------------------------------------------------ *)

Lemma memn_In : forall x l, memn x l = true <-> In x l.
Proof.
  intros x; induction l as [|y l IH]; cbn [memn In].
  - split; [discriminate | tauto].
  - rewrite orb_true_iff, Nat.eqb_eq, IH. split; intros [H|H]; auto.
Qed.

Lemma nodupn_NoDup : forall l, nodupn l = true <-> NoDup l.
Proof.
  induction l as [|x l IH]; cbn [nodupn].
  - split; [constructor | reflexivity].
  - rewrite andb_true_iff, negb_true_iff, IH. split.
    + intros [H1 H2]. constructor; [|assumption]. rewrite <- memn_In. congruence.
    + intros H. inversion H as [|? ? H1 H2]; subst. split; [|assumption].
      destruct (memn x l) eqn:E; [|reflexivity]. apply memn_In in E. contradiction.
Qed.

Theorem keep_idx_In : forall k drop i, In i (keep_idx k drop) <-> (i < k)%nat /\ ~ In i drop.
Proof.
  intros k drop i. unfold keep_idx. rewrite filter_In, in_iota, negb_true_iff.
  rewrite <- memn_In. destruct (memn i drop); split; intros [H1 H2]; split; try lia; congruence.
Qed.

Lemma NoDup_iota : forall k s, NoDup (iota s k).
Proof.
  induction k; intros s; cbn [iota]; constructor; [|apply IHk].
  rewrite in_iota. lia.
Qed.

Theorem keep_idx_NoDup : forall k drop, NoDup (keep_idx k drop).
Proof. intros. unfold keep_idx. apply NoDup_filter. apply NoDup_iota. Qed.

Lemma SS_iota : forall k s, StronglySorted lt (iota s k).
Proof.
  induction k; intros s; cbn [iota]; constructor; [apply IHk|].
  apply Forall_forall. intros x Hx. apply in_iota in Hx. lia.
Qed.

Lemma SS_filter : forall (A : Type) (R : A -> A -> Prop) (f : A -> bool) l,
  StronglySorted R l -> StronglySorted R (filter f l).
Proof.
  intros A R f l H; induction H as [|a l Hs IH Hf]; cbn [filter]; [constructor|].
  destruct (f a); [|assumption]. constructor; [assumption|].
  rewrite Forall_forall in *. intros x Hx. apply filter_In in Hx. apply Hf. tauto.
Qed.

Theorem keep_idx_sorted : forall k drop, StronglySorted lt (keep_idx k drop).
Proof. intros. unfold keep_idx. apply SS_filter. apply SS_iota. Qed.

Lemma SS_nth_lt : forall l, StronglySorted lt l ->
  forall i j, (i < j)%nat -> (j < length l)%nat -> (nth i l O < nth j l O)%nat.
Proof.
  intros l H; induction H as [|a l Hs IH Hf]; intros i j Hij Hj; cbn [length] in Hj; [lia|].
  destruct j as [|j]; [lia|]. destruct i as [|i]; cbn [nth].
  - rewrite Forall_forall in Hf. apply Hf. apply nth_In. lia.
  - apply IH; lia.
Qed.

(* keep_idx is strictly increasing, position-wise *)
Theorem keep_idx_increasing : forall k drop i j,
  (i < j)%nat -> (j < length (keep_idx k drop))%nat ->
  (nth i (keep_idx k drop) O < nth j (keep_idx k drop) O)%nat.
Proof. intros. apply SS_nth_lt; auto. apply keep_idx_sorted. Qed.

Lemma keep_idx_nth_lt : forall k drop i, (i < length (keep_idx k drop))%nat ->
  (nth i (keep_idx k drop) O < k)%nat.
Proof.
  intros k drop i H. pose proof (nth_In (keep_idx k drop) O H) as HI.
  apply keep_idx_In in HI. tauto.
Qed.

Lemma filter_length_compl : forall (A : Type) (f : A -> bool) l,
  (length (filter f l) + length (filter (fun x => negb (f x)) l) = length l)%nat.
Proof.
  intros A f; induction l as [|x l IH]; cbn [filter length]; [reflexivity|].
  destruct (f x); cbn [negb length]; lia.
Qed.

Theorem keep_idx_length : forall k drop,
  NoDup drop -> (forall x, In x drop -> (x < k)%nat) ->
  length (keep_idx k drop) = (k - length drop)%nat.
Proof.
  intros k drop Hnd Hlt.
  pose proof (filter_length_compl nat (fun i => memn i drop) (iota 0 k)) as HL.
  rewrite length_iota in HL. unfold keep_idx.
  assert (H1 : (length (filter (fun i => memn i drop) (iota 0 k)) <= length drop)%nat).
  { apply NoDup_incl_length; [apply NoDup_filter; apply NoDup_iota|].
    intros x Hx. apply filter_In in Hx. apply memn_In. tauto. }
  assert (H2 : (length drop <= length (filter (fun i => memn i drop) (iota 0 k)))%nat).
  { apply NoDup_incl_length; [assumption|].
    intros x Hx. apply filter_In. split; [apply in_iota; specialize (Hlt x Hx); lia | now apply memn_In]. }
  lia.
Qed.

Lemma keep_idx_length1 : forall k r, (r < k)%nat -> length (keep_idx k [r]) = (k - 1)%nat.
Proof.
  intros k r H. rewrite keep_idx_length; [reflexivity | |].
  - constructor; [intros [] | constructor].
  - intros x [<-|[]]; assumption.
Qed.

Lemma keep_idx_length2 : forall k a b, (a < k)%nat -> (b < k)%nat -> a <> b ->
  length (keep_idx k [a; b]) = (k - 2)%nat.
Proof.
  intros k a b Ha Hb Hab. rewrite keep_idx_length; [reflexivity | |].
  - constructor; [intros [H|[]]; congruence|]. constructor; [intros [] | constructor].
  - intros x [<-|[<-|[]]]; assumption.
Qed.

Lemma nth_iota : forall k s i, (i < k)%nat -> nth i (iota s k) O = (s + i)%nat.
Proof.
  induction k; intros s i H; [lia|]. destruct i; cbn [iota nth]; [lia|].
  rewrite IHk by lia. lia.
Qed.

Lemma nthZ_nth : forall l i, nthZ l i = nth i l 0.
Proof. induction l as [|x l IH]; intros [|i]; cbn [nthZ nth]; auto. Qed.

Lemma nthZ_map_nth : forall (A : Type) (f : A -> Z) (d : A) l i,
  (i < length l)%nat -> nthZ (map f l) i = f (nth i l d).
Proof.
  intros A f d; induction l as [|x l IH]; intros i H; cbn [length] in H; [lia|].
  destruct i; cbn [map nthZ nth]; [reflexivity | apply IH; lia].
Qed.

Lemma nthR_map_nth : forall (A : Type) (f : A -> list Z) (d : A) l i,
  (i < length l)%nat -> nthR (map f l) i = f (nth i l d).
Proof.
  intros A f d; induction l as [|x l IH]; intros i H; cbn [length] in H; [lia|].
  destruct i; cbn [map nthR nth]; [reflexivity | apply IH; lia].
Qed.

Lemma nthZ_app_l : forall a b i, (i < length a)%nat -> nthZ (a ++ b) i = nthZ a i.
Proof.
  induction a as [|x a IH]; intros b i H; cbn [length] in H; [lia|].
  destruct i; cbn [app nthZ]; [reflexivity | apply IH; lia].
Qed.

Lemma nthZ_app_r : forall a b i, (length a <= i)%nat -> nthZ (a ++ b) i = nthZ b (i - length a).
Proof.
  induction a as [|x a IH]; intros b i H; cbn [length app] in *.
  - now rewrite Nat.sub_0_r.
  - destruct i; [lia|]. cbn [nthZ]. rewrite IH by lia. reflexivity.
Qed.

Lemma nthR_app_l : forall (A B : mat) i, (i < length A)%nat -> nthR (A ++ B) i = nthR A i.
Proof.
  induction A as [|x A IH]; intros B i H; cbn [length] in H; [lia|].
  destruct i; cbn [app nthR]; [reflexivity | apply IH; lia].
Qed.

Lemma nthR_app_r : forall (A B : mat) i, (length A <= i)%nat -> nthR (A ++ B) i = nthR B (i - length A).
Proof.
  induction A as [|x A IH]; intros B i H; cbn [length app] in *.
  - now rewrite Nat.sub_0_r.
  - destruct i; [lia|]. cbn [nthR]. rewrite IH by lia. reflexivity.
Qed.

Lemma length_hcat : forall A B, length (hcat A B) = Nat.min (length A) (length B).
Proof.
  induction A as [|x A IH]; intros [|y B]; cbn [hcat length Nat.min]; auto.
Qed.

Lemma nthR_hcat : forall A B i, (i < length A)%nat -> (i < length B)%nat ->
  nthR (hcat A B) i = nthR A i ++ nthR B i.
Proof.
  induction A as [|x A IH]; intros [|y B] i HA HB; cbn [length] in *; try lia.
  destruct i; cbn [hcat nthR]; [reflexivity | apply IH; lia].
Qed.

Lemma In_hcat : forall A B r, In r (hcat A B) -> exists x y, r = x ++ y /\ In x A /\ In y B.
Proof.
  induction A as [|x A IH]; intros [|y B] r H; cbn [hcat In] in H; try contradiction.
  destruct H as [<-|H].
  - exists x, y. cbn [In]. auto.
  - destruct (IH _ _ H) as [x' [y' [E [H1 H2]]]]. exists x', y'. cbn [In]. auto.
Qed.

Lemma wf_mat_intro : forall m n (M : mat),
  length M = m -> (forall r, In r M -> length r = n) -> wf_mat m n M = true.
Proof.
  intros m n M HL HR. unfold wf_mat. apply andb_true_iff. split.
  - now apply Nat.eqb_eq.
  - apply forallb_forall. intros r Hr. apply Nat.eqb_eq. now apply HR.
Qed.

Lemma wf_mat_rows : forall m n (M : mat), wf_mat m n M = true -> forall r, In r M -> length r = n.
Proof.
  intros m n M H r Hr. unfold wf_mat in H. apply andb_true_iff in H. destruct H as [_ H].
  rewrite forallb_forall in H. apply Nat.eqb_eq. now apply H.
Qed.

Lemma wf_hcat : forall a b c A B,
  wf_mat a b A = true -> wf_mat a c B = true -> wf_mat a (b + c) (hcat A B) = true.
Proof.
  intros a b c A B HA HB. apply wf_mat_intro.
  - rewrite length_hcat, (wf_mat_length _ _ _ HA), (wf_mat_length _ _ _ HB). lia.
  - intros r Hr. apply In_hcat in Hr. destruct Hr as [x [y [-> [Hx Hy]]]].
    rewrite app_length, (wf_mat_rows _ _ _ HA _ Hx), (wf_mat_rows _ _ _ HB _ Hy). reflexivity.
Qed.

Lemma wf_vapp : forall a d n (A B : mat),
  wf_mat a n A = true -> wf_mat d n B = true -> wf_mat (a + d) n (A ++ B) = true.
Proof.
  intros a d n A B HA HB. apply wf_mat_intro.
  - rewrite app_length, (wf_mat_length _ _ _ HA), (wf_mat_length _ _ _ HB). reflexivity.
  - intros r Hr. apply in_app_or in Hr. destruct Hr as [Hr|Hr].
    + exact (wf_mat_rows _ _ _ HA _ Hr).
    + exact (wf_mat_rows _ _ _ HB _ Hr).
Qed.

Theorem wf_submat : forall M rs cs, wf_mat (length rs) (length cs) (submat M rs cs) = true.
Proof.
  intros M rs cs. unfold submat. apply wf_mat_intro; [apply map_length|].
  intros r Hr. apply in_map_iff in Hr. destruct Hr as [i [<- _]]. apply map_length.
Qed.

Theorem get_submat : forall M rs cs i j, (i < length rs)%nat -> (j < length cs)%nat ->
  get (submat M rs cs) i j = get M (nth i rs O) (nth j cs O).
Proof.
  intros M rs cs i j Hi Hj. unfold submat. unfold get at 1.
  rewrite (nthR_map_nth nat _ O) by assumption.
  rewrite (nthZ_map_nth nat _ O) by assumption. reflexivity.
Qed.

Theorem wf_outer : forall p d c, wf_mat (length d) (length c) (outer p d c) = true.
Proof.
  intros p d c. unfold outer. apply wf_mat_intro; [apply map_length|].
  intros r Hr. apply in_map_iff in Hr. destruct Hr as [i [<- _]]. apply map_length.
Qed.

Theorem get_outer : forall p d c i j, (i < length d)%nat -> (j < length c)%nat ->
  get (outer p d c) i j = modulo_ternary (nthZ d i * nthZ c j) p.
Proof.
  intros p d c i j Hi Hj. unfold outer, get.
  rewrite (nthR_map_nth Z _ 0) by assumption.
  rewrite (nthZ_map_nth Z _ 0) by assumption. rewrite !nthZ_nth. reflexivity.
Qed.

Lemma nthR_overflow : forall (M : mat) i, (length M <= i)%nat -> nthR M i = [].
Proof.
  induction M as [|x M IH]; intros i H; [now destruct i|].
  cbn [length] in H. destruct i; [lia|]. cbn [nthR]. apply IH. lia.
Qed.

Lemma wf_outer' : forall p d c a b, length d = a -> length c = b -> wf_mat a b (outer p d c) = true.
Proof. intros p d c a b <- <-. apply wf_outer. Qed.

Theorem wf_zeros : forall m n, wf_mat m n (zeros m n) = true.
Proof. intros. apply wf_mk_mat. Qed.

Theorem get_zeros : forall m n i j, get (zeros m n) i j = 0.
Proof.
  intros m n i j. unfold zeros.
  destruct (Nat.ltb_spec i m) as [Hi|Hi].
  - destruct (Nat.ltb_spec j n) as [Hj|Hj]; [now apply get_mk_mat|].
    unfold get, mk_mat. rewrite nthR_map_iota by assumption.
    rewrite nthZ_nth. apply nth_overflow. rewrite map_length, length_iota. assumption.
  - unfold get, mk_mat. rewrite nthR_overflow by (rewrite map_length, length_iota; assumption).
    now destruct j.
Qed.

Section Block4.
  Variables (a b c d : nat) (TL TR BL BR : mat).
  Hypothesis HTL : wf_mat a b TL = true.
  Hypothesis HTR : wf_mat a c TR = true.
  Hypothesis HBL : wf_mat d b BL = true.
  Hypothesis HBR : wf_mat d c BR = true.

  Theorem block4_wf : wf_mat (a + d) (b + c) (block4 TL TR BL BR) = true.
  Proof. unfold block4. apply wf_vapp; apply wf_hcat; assumption. Qed.

  Let LTL := wf_mat_length _ _ _ HTL.
  Let LTR := wf_mat_length _ _ _ HTR.
  Let LBL := wf_mat_length _ _ _ HBL.
  Let LBR := wf_mat_length _ _ _ HBR.

  Lemma block4_top : forall i, (i < a)%nat -> nthR (block4 TL TR BL BR) i = nthR TL i ++ nthR TR i.
  Proof.
    intros i Hi. unfold block4.
    rewrite nthR_app_l by (rewrite length_hcat, LTL, LTR; lia).
    apply nthR_hcat; lia.
  Qed.

  Lemma block4_bot : forall i, (a <= i)%nat -> (i < a + d)%nat ->
    nthR (block4 TL TR BL BR) i = nthR BL (i - a) ++ nthR BR (i - a).
  Proof.
    intros i Hi Hi'. unfold block4.
    rewrite nthR_app_r by (rewrite length_hcat, LTL, LTR; lia).
    rewrite length_hcat, LTL, LTR, Nat.min_id.
    apply nthR_hcat; lia.
  Qed.

  Theorem block4_TL : forall i j, (i < a)%nat -> (j < b)%nat ->
    get (block4 TL TR BL BR) i j = get TL i j.
  Proof.
    intros i j Hi Hj. unfold get. rewrite block4_top by assumption.
    apply nthZ_app_l. rewrite (wf_mat_row_length _ _ _ _ HTL Hi). assumption.
  Qed.

  Theorem block4_TR : forall i j, (i < a)%nat -> (b <= j)%nat -> (j < b + c)%nat ->
    get (block4 TL TR BL BR) i j = get TR i (j - b).
  Proof.
    intros i j Hi Hj Hj'. unfold get. rewrite block4_top by assumption.
    rewrite nthZ_app_r; rewrite (wf_mat_row_length _ _ _ _ HTL Hi); [reflexivity | assumption].
  Qed.

  Theorem block4_BL : forall i j, (a <= i)%nat -> (i < a + d)%nat -> (j < b)%nat ->
    get (block4 TL TR BL BR) i j = get BL (i - a) j.
  Proof.
    intros i j Hi Hi' Hj. unfold get. rewrite block4_bot by assumption.
    apply nthZ_app_l. rewrite (wf_mat_row_length _ _ _ (i - a)%nat HBL) by lia. assumption.
  Qed.

  Theorem block4_BR : forall i j, (a <= i)%nat -> (i < a + d)%nat -> (b <= j)%nat -> (j < b + c)%nat ->
    get (block4 TL TR BL BR) i j = get BR (i - a) (j - b).
  Proof.
    intros i j Hi Hi' Hj Hj'. unfold get. rewrite block4_bot by assumption.
    rewrite nthZ_app_r; rewrite (wf_mat_row_length _ _ _ (i - a)%nat HBL) by lia; [reflexivity | assumption].
  Qed.

  (* offset forms *)
  Lemma block4_TR' : forall i j, (i < a)%nat -> (j < c)%nat ->
    get (block4 TL TR BL BR) i (b + j) = get TR i j.
  Proof. intros i j Hi Hj. rewrite block4_TR by lia. f_equal. lia. Qed.

  Lemma block4_BL' : forall i j, (i < d)%nat -> (j < b)%nat ->
    get (block4 TL TR BL BR) (a + i) j = get BL i j.
  Proof. intros i j Hi Hj. rewrite block4_BL by lia. f_equal. lia. Qed.

  Lemma block4_BR' : forall i j, (i < d)%nat -> (j < c)%nat ->
    get (block4 TL TR BL BR) (a + i) (b + j) = get BR i j.
  Proof. intros i j Hi Hj. rewrite block4_BR by lia. f_equal; lia. Qed.
End Block4.

(* ------------------------------------------------------------------------------------------ *)
(* 2. The shape shared by all four sums: M = [ M1[R1,C1]  tr ; bl  M2[R2,C2] ]                   *)
(* ------------------------------------------------------------------------------------------ *)

Definition sum_blocks (M M1 M2 : mat) (R1 C1 R2 C2 : list nat) (tr bl : nat -> nat -> Z) : Prop :=
  wf_mat (length R1 + length R2) (length C1 + length C2) M = true /\
  (forall i j, (i < length R1)%nat -> (j < length C1)%nat ->
     get M i j = get M1 (nth i R1 O) (nth j C1 O)) /\
  (forall i j, (i < length R1)%nat -> (j < length C2)%nat ->
     get M i (length C1 + j) = tr i j) /\
  (forall i j, (i < length R2)%nat -> (j < length C1)%nat ->
     get M (length R1 + i) j = bl i j) /\
  (forall i j, (i < length R2)%nat -> (j < length C2)%nat ->
     get M (length R1 + i) (length C1 + j) = get M2 (nth i R2 O) (nth j C2 O)).

Lemma block4_sum_blocks : forall M1 M2 R1 C1 R2 C2 TR BL,
  wf_mat (length R1) (length C2) TR = true -> wf_mat (length R2) (length C1) BL = true ->
  sum_blocks (block4 (submat M1 R1 C1) TR BL (submat M2 R2 C2)) M1 M2 R1 C1 R2 C2 (get TR) (get BL).
Proof.
  intros M1 M2 R1 C1 R2 C2 TR BL HTR HBL.
  pose proof (wf_submat M1 R1 C1) as HTL. pose proof (wf_submat M2 R2 C2) as HBR.
  unfold sum_blocks. split; [|split; [|split; [|split]]].
  - apply block4_wf; assumption.
  - intros i j Hi Hj. rewrite (block4_TL _ _ _ _ _ _ _ _ HTL HTR HBL HBR) by assumption.
    now apply get_submat.
  - intros i j Hi Hj. now rewrite (block4_TR' _ _ _ _ _ _ _ _ HTL HTR HBL HBR) by assumption.
  - intros i j Hi Hj. now rewrite (block4_BL' _ _ _ _ _ _ _ _ HTL HTR HBL HBR) by assumption.
  - intros i j Hi Hj. rewrite (block4_BR' _ _ _ _ _ _ _ _ HTL HTR HBL HBR) by assumption.
    now apply get_submat.
Qed.

Lemma sum_blocks_ext : forall M M1 M2 R1 C1 R2 C2 tr bl tr' bl',
  sum_blocks M M1 M2 R1 C1 R2 C2 tr bl ->
  (forall i j, (i < length R1)%nat -> (j < length C2)%nat -> tr i j = tr' i j) ->
  (forall i j, (i < length R2)%nat -> (j < length C1)%nat -> bl i j = bl' i j) ->
  sum_blocks M M1 M2 R1 C1 R2 C2 tr' bl'.
Proof.
  intros M M1 M2 R1 C1 R2 C2 tr bl tr' bl' [H0 [H1 [H2 [H3 H4]]]] Ht Hb.
  unfold sum_blocks. split; [assumption|]. split; [assumption|]. split; [|split; [|assumption]].
  - intros i j Hi Hj. rewrite H2 by assumption. now apply Ht.
  - intros i j Hi Hj. rewrite H3 by assumption. now apply Hb.
Qed.

Lemma pick_length : forall v idx, length (pick v idx) = length idx.
Proof. intros. apply map_length. Qed.

Lemma nthZ_pick : forall v idx i, (i < length idx)%nat -> nthZ (pick v idx) i = nthZ v (nth i idx O).
Proof. intros v idx i H. unfold pick. now rewrite (nthZ_map_nth nat _ O). Qed.

Lemma length_colv : forall m M c, length (colv m M c) = m.
Proof. intros. unfold colv. now rewrite map_length, length_iota. Qed.

Lemma nthZ_colv : forall m M c i, (i < m)%nat -> nthZ (colv m M c) i = get M i c.
Proof. intros m M c i H. unfold colv. now rewrite nthZ_map_iota. Qed.

Lemma nthZ_rowv : forall M r j, nthZ (rowv M r) j = get M r j.
Proof. reflexivity. Qed.

Lemma nthZ_pick_colv : forall m M c idx i, (i < length idx)%nat -> (nth i idx O < m)%nat ->
  nthZ (pick (colv m M c) idx) i = get M (nth i idx O) c.
Proof. intros. rewrite nthZ_pick by assumption. now apply nthZ_colv. Qed.

Lemma nthZ_pick_rowv : forall M r idx j, (j < length idx)%nat ->
  nthZ (pick (rowv M r) idx) j = get M r (nth j idx O).
Proof. intros. now rewrite nthZ_pick. Qed.

Lemma nthZ_pick_iota : forall v k j, (j < k)%nat -> nthZ (pick v (iota 0 k)) j = nthZ v j.
Proof. intros. rewrite nthZ_pick by now rewrite length_iota. now rewrite nth_iota. Qed.

Lemma pick_colv_eq : forall m M c c' R, (forall i, In i R -> (i < m)%nat) ->
  pick (colv m M c) R = pick (colv m M c') R -> forall i, In i R -> get M i c = get M i c'.
Proof.
  intros m M c c' R Hlt H i Hi. unfold pick in H.
  rewrite map_ext_in_iff in H. specialize (H i Hi).
  now rewrite !nthZ_colv in H by (now apply Hlt).
Qed.

Lemma pick_rowv_eq : forall M r r' C,
  pick (rowv M r) C = pick (rowv M r') C -> forall j, In j C -> get M r j = get M r' j.
Proof.
  intros M r r' C H j Hj. unfold pick in H. rewrite map_ext_in_iff in H. exact (H j Hj).
Qed.

Lemma all_zero_pick_colv : forall m M c R, (forall i, In i R -> (i < m)%nat) ->
  all_zero_l (pick (colv m M c) R) = true -> forall i, In i R -> get M i c = 0.
Proof.
  intros m M c R Hlt H i Hi. unfold all_zero_l in H. rewrite forallb_forall in H.
  specialize (H (nthZ (colv m M c) i)). rewrite nthZ_colv in H by now apply Hlt.
  apply Z.eqb_eq. apply H. unfold pick. apply in_map_iff. exists i. split; [|assumption].
  now apply nthZ_colv, Hlt.
Qed.

Lemma all_zero_pick_rowv : forall M r C,
  all_zero_l (pick (rowv M r) C) = true -> forall j, In j C -> get M r j = 0.
Proof.
  intros M r C H j Hj. unfold all_zero_l in H. rewrite forallb_forall in H.
  apply Z.eqb_eq. apply H. unfold pick. apply in_map_iff. exists j. split; [reflexivity | assumption].
Qed.

Lemma keep_idx_lt : forall k drop i, In i (keep_idx k drop) -> (i < k)%nat.
Proof. intros k drop i H. apply keep_idx_In in H. tauto. Qed.

(* first "if negb c then KErr else ..." of a hypothesis: c must be true *)
Ltac take_guard H E :=
  match type of H with
  | (if negb ?c then _ else _) = _ => destruct c eqn:E; cbn [negb] in H; [|discriminate H]
  end.

(* ------------------------------------------------------------------------------------------ *)
(* 2a. Delta-sum                                                                                *)
(* ------------------------------------------------------------------------------------------ *)

Theorem deltasum_spec : forall p m1 n1 M1 m2 n2 M2 r1 c1a c1b r2 c2a c2b M,
  deltasum p m1 n1 M1 m2 n2 M2 r1 c1a c1b r2 c2a c2b = KOk M ->
  let R1 := keep_idx m1 [r1] in let C1 := keep_idx n1 [c1a; c1b] in
  let R2 := keep_idx m2 [r2] in let C2 := keep_idx n2 [c2a; c2b] in
  (* the special lines are in range and distinct *)
  ((r1 < m1)%nat /\ (c1a < n1)%nat /\ (c1b < n1)%nat /\ c1a <> c1b /\
   (r2 < m2)%nat /\ (c2a < n2)%nat /\ (c2b < n2)%nat /\ c2a <> c2b) /\
  (length R1 = (m1 - 1)%nat /\ length C1 = (n1 - 2)%nat /\
   length R2 = (m2 - 1)%nat /\ length C2 = (n2 - 2)%nat) /\
  (* documented structure of the operands *)
  ((forall i, In i R1 -> get M1 i c1a = get M1 i c1b) /\
   get M1 r1 c1a = 0 /\ get M1 r1 c1b <> 0 /\ get M1 r1 c1b = get M2 r2 c2a /\
   (forall i, In i R2 -> get M2 i c2a = get M2 i c2b) /\
   get M2 r2 c2b = 0) /\
  (* the four blocks of the result *)
  sum_blocks M M1 M2 R1 C1 R2 C2
    (fun i j => modulo_ternary (get M1 (nth i R1 O) c1a * get M2 r2 (nth j C2 O)) p)
    (fun i j => modulo_ternary (get M2 (nth i R2 O) c2a * get M1 r1 (nth j C1 O)) p).
Proof.
  intros p m1 n1 M1 m2 n2 M2 r1 c1a c1b r2 c2a c2b M H R1 C1 R2 C2.
  unfold deltasum in H. take_guard H E1. take_guard H E2.
  injection H as <-.
  repeat rewrite andb_true_iff in E1.
  destruct E1 as [[[[[[[Hr1 Hc1a] Hc1b] Hr2] Hc2a] Hc2b] Hn1] Hn2].
  apply Nat.ltb_lt in Hr1, Hc1a, Hc1b, Hr2, Hc2a, Hc2b.
  apply negb_true_iff, Nat.eqb_neq in Hn1. apply negb_true_iff, Nat.eqb_neq in Hn2.
  repeat rewrite andb_true_iff in E2.
  destruct E2 as [[[[[[Ea Ez1] Ee1] Ed] Ez2] Ee2] Eee].
  apply zlist_eqb_eq in Ea. apply zlist_eqb_eq in Ed.
  apply Z.eqb_eq in Ez1, Ez2, Eee. apply negb_true_iff, Z.eqb_neq in Ee1.
  fold R1 in Ea. fold R2 in Ed. fold R1 C1 R2 C2.
  split; [tauto|]. split.
  { unfold R1, C1, R2, C2. rewrite !keep_idx_length1, !keep_idx_length2 by assumption. tauto. }
  split.
  { split; [|split; [assumption|split; [assumption|split; [assumption|split; [|assumption]]]]].
    - apply (pick_colv_eq m1); [apply keep_idx_lt | exact Ea].
    - apply (pick_colv_eq m2); [apply keep_idx_lt | exact Ed]. }
  eapply sum_blocks_ext.
  - apply block4_sum_blocks.
    + rewrite <- (pick_length (colv m1 M1 c1a) R1), <- (pick_length (rowv M2 r2) C2). apply wf_outer.
    + rewrite <- (pick_length (colv m2 M2 c2a) R2), <- (pick_length (rowv M1 r1) C1). apply wf_outer.
  - intros i j Hi Hj. cbv beta. rewrite get_outer by (rewrite pick_length; assumption).
    rewrite nthZ_pick_colv by (try apply keep_idx_nth_lt; assumption).
    now rewrite nthZ_pick_rowv by assumption.
  - intros i j Hi Hj. cbv beta. rewrite get_outer by (rewrite pick_length; assumption).
    rewrite nthZ_pick_colv by (try apply keep_idx_nth_lt; assumption).
    now rewrite nthZ_pick_rowv by assumption.
Qed.

(* ------------------------------------------------------------------------------------------ *)
(* 3a. Y-sum                                                                                    *)
(* ------------------------------------------------------------------------------------------ *)

Theorem ysum_spec : forall p m1 n1 M1 m2 n2 M2 r1a r1b c1 r2a r2b c2 M,
  ysum p m1 n1 M1 m2 n2 M2 r1a r1b c1 r2a r2b c2 = KOk M ->
  let R1 := keep_idx m1 [r1a; r1b] in let C1 := keep_idx n1 [c1] in
  let R2 := keep_idx m2 [r2a; r2b] in let C2 := keep_idx n2 [c2] in
  ((r1a < m1)%nat /\ (r1b < m1)%nat /\ (c1 < n1)%nat /\ r1a <> r1b /\
   (r2a < m2)%nat /\ (r2b < m2)%nat /\ (c2 < n2)%nat /\ r2a <> r2b) /\
  (length R1 = (m1 - 2)%nat /\ length C1 = (n1 - 1)%nat /\
   length R2 = (m2 - 2)%nat /\ length C2 = (n2 - 1)%nat) /\
  ((forall j, In j C1 -> get M1 r1a j = get M1 r1b j) /\
   get M1 r1a c1 = 0 /\ get M1 r1b c1 <> 0 /\ get M1 r1b c1 = get M2 r2a c2 /\
   (forall j, In j C2 -> get M2 r2a j = get M2 r2b j) /\
   get M2 r2b c2 = 0) /\
  sum_blocks M M1 M2 R1 C1 R2 C2
    (fun i j => modulo_ternary (get M1 (nth i R1 O) c1 * get M2 r2a (nth j C2 O)) p)
    (fun i j => modulo_ternary (get M2 (nth i R2 O) c2 * get M1 r1a (nth j C1 O)) p).
Proof.
  intros p m1 n1 M1 m2 n2 M2 r1a r1b c1 r2a r2b c2 M H R1 C1 R2 C2.
  unfold ysum in H. take_guard H E1. take_guard H E2.
  injection H as <-.
  repeat rewrite andb_true_iff in E1.
  destruct E1 as [[[[[[[Hr1a Hr1b] Hc1] Hr2a] Hr2b] Hc2] Hn1] Hn2].
  apply Nat.ltb_lt in Hr1a, Hr1b, Hc1, Hr2a, Hr2b, Hc2.
  apply negb_true_iff, Nat.eqb_neq in Hn1. apply negb_true_iff, Nat.eqb_neq in Hn2.
  repeat rewrite andb_true_iff in E2.
  destruct E2 as [[[[[[Ec Ez1] Ee1] Eb] Ez2] Ee2] Eee].
  apply zlist_eqb_eq in Ec. apply zlist_eqb_eq in Eb.
  apply Z.eqb_eq in Ez1, Ez2, Eee. apply negb_true_iff, Z.eqb_neq in Ee1.
  fold C1 in Ec. fold C2 in Eb. fold R1 C1 R2 C2.
  split; [tauto|]. split.
  { unfold R1, C1, R2, C2. rewrite !keep_idx_length1, !keep_idx_length2 by assumption. tauto. }
  split.
  { split; [|split; [assumption|split; [assumption|split; [assumption|split; [|assumption]]]]].
    - apply pick_rowv_eq. exact Ec.
    - apply pick_rowv_eq. exact Eb. }
  eapply sum_blocks_ext.
  - apply block4_sum_blocks.
    + rewrite <- (pick_length (colv m1 M1 c1) R1), <- (pick_length (rowv M2 r2a) C2). apply wf_outer.
    + rewrite <- (pick_length (colv m2 M2 c2) R2), <- (pick_length (rowv M1 r1a) C1). apply wf_outer.
  - intros i j Hi Hj. cbv beta. rewrite get_outer by (rewrite pick_length; assumption).
    rewrite nthZ_pick_colv by (try apply keep_idx_nth_lt; assumption).
    now rewrite nthZ_pick_rowv by assumption.
  - intros i j Hi Hj. cbv beta. rewrite get_outer by (rewrite pick_length; assumption).
    rewrite nthZ_pick_colv by (try apply keep_idx_nth_lt; assumption).
    now rewrite nthZ_pick_rowv by assumption.
Qed.

(* ------------------------------------------------------------------------------------------ *)
(* 3b. 2-sum, both variants.  Here one index list of each operand is the full range iota 0 k,   *)
(*     for which nth i (iota 0 k) 0 = i (lemma nth_iota).                                        *)
(* ------------------------------------------------------------------------------------------ *)

(* variant 1: special row r1 of M1, special column c2 of M2;  M = [A 0; d c^T D] *)
Theorem twosum_spec_row_col : forall p m1 n1 M1 m2 n2 M2 r1 c2 M,
  twosum p m1 n1 M1 m2 n2 M2 (Some r1) None None (Some c2) = KOk M ->
  let R1 := keep_idx m1 [r1] in let C2 := keep_idx n2 [c2] in
  ((r1 < m1)%nat /\ (c2 < n2)%nat) /\
  (length R1 = (m1 - 1)%nat /\ length C2 = (n2 - 1)%nat) /\
  sum_blocks M M1 M2 R1 (iota 0 n1) (iota 0 m2) C2
    (fun _ _ => 0)
    (fun i j => modulo_ternary (get M2 i c2 * get M1 r1 j) p).
Proof.
  intros p m1 n1 M1 m2 n2 M2 r1 c2 M H R1 C2.
  unfold twosum in H.
  destruct (Nat.ltb r1 m1 && Nat.ltb c2 n2) eqn:E; [|discriminate H].
  injection H as <-. apply andb_true_iff in E. destruct E as [Hr1 Hc2].
  apply Nat.ltb_lt in Hr1, Hc2. fold R1 C2.
  assert (L1 : length R1 = (m1 - 1)%nat) by now apply keep_idx_length1.
  assert (L2 : length C2 = (n2 - 1)%nat) by now apply keep_idx_length1.
  split; [tauto|]. split; [tauto|].
  eapply sum_blocks_ext.
  - apply block4_sum_blocks.
    + rewrite L1, L2. apply wf_zeros.
    + apply wf_outer'; [now rewrite length_colv, length_iota | now rewrite pick_length].
  - intros i j Hi Hj. apply get_zeros.
  - intros i j Hi Hj. cbv beta. rewrite length_iota in Hi, Hj.
    rewrite get_outer by (rewrite ?length_colv, ?pick_length, ?length_iota; assumption).
    rewrite nthZ_colv by assumption. now rewrite nthZ_pick_iota by assumption.
Qed.

(* variant 2: special column c1 of M1, special row r2 of M2;  M = [A a b^T; 0 D] *)
Theorem twosum_spec_col_row : forall p m1 n1 M1 m2 n2 M2 c1 r2 M,
  twosum p m1 n1 M1 m2 n2 M2 None (Some c1) (Some r2) None = KOk M ->
  let C1 := keep_idx n1 [c1] in let R2 := keep_idx m2 [r2] in
  ((c1 < n1)%nat /\ (r2 < m2)%nat) /\
  (length C1 = (n1 - 1)%nat /\ length R2 = (m2 - 1)%nat) /\
  sum_blocks M M1 M2 (iota 0 m1) C1 R2 (iota 0 n2)
    (fun i j => modulo_ternary (get M1 i c1 * get M2 r2 j) p)
    (fun _ _ => 0).
Proof.
  intros p m1 n1 M1 m2 n2 M2 c1 r2 M H C1 R2.
  unfold twosum in H.
  destruct (Nat.ltb c1 n1 && Nat.ltb r2 m2) eqn:E; [|discriminate H].
  injection H as <-. apply andb_true_iff in E. destruct E as [Hc1 Hr2].
  apply Nat.ltb_lt in Hc1, Hr2. fold C1 R2.
  assert (L1 : length C1 = (n1 - 1)%nat) by now apply keep_idx_length1.
  assert (L2 : length R2 = (m2 - 1)%nat) by now apply keep_idx_length1.
  split; [tauto|]. split; [tauto|].
  eapply sum_blocks_ext.
  - apply block4_sum_blocks.
    + apply wf_outer'; [now rewrite length_colv, length_iota | now rewrite pick_length].
    + rewrite L1, L2. apply wf_zeros.
  - intros i j Hi Hj. cbv beta. rewrite length_iota in Hi, Hj.
    rewrite get_outer by (rewrite ?length_colv, ?pick_length, ?length_iota; assumption).
    rewrite nthZ_colv by assumption. now rewrite nthZ_pick_iota by assumption.
  - intros i j Hi Hj. apply get_zeros.
Qed.

(* every other combination of special lines is refused *)
Theorem twosum_ok_variants : forall p m1 n1 M1 m2 n2 M2 fsr fsc ssr ssc M,
  twosum p m1 n1 M1 m2 n2 M2 fsr fsc ssr ssc = KOk M ->
  (exists r1 c2, fsr = Some r1 /\ fsc = None /\ ssr = None /\ ssc = Some c2) \/
  (exists c1 r2, fsr = None /\ fsc = Some c1 /\ ssr = Some r2 /\ ssc = None).
Proof.
  intros p m1 n1 M1 m2 n2 M2 fsr fsc ssr ssc M H. unfold twosum in H.
  destruct fsr as [r1|], fsc as [c1|], ssr as [r2|], ssc as [c2|]; try discriminate H.
  - left. exists r1, c2. auto.
  - right. exists c1, r2. auto.
Qed.

(* ------------------------------------------------------------------------------------------ *)
(* 5. What acceptance by the judges means                                                       *)
(* ------------------------------------------------------------------------------------------ *)

Theorem is_perm_of_spec : forall k l, is_perm_of k l = true ->
  length l = k /\ NoDup (map Z.to_nat l) /\
  (forall x, In x l -> 0 <= x < Z.of_nat k) /\
  (forall i, (i < k)%nat -> In (Z.of_nat i) l).
Proof.
  intros k l H. unfold is_perm_of in H. repeat rewrite andb_true_iff in H.
  destruct H as [[HL HR] HN]. apply Nat.eqb_eq in HL. apply nodupn_NoDup in HN.
  rewrite forallb_forall in HR.
  assert (HR' : forall x, In x l -> 0 <= x < Z.of_nat k).
  { intros x Hx. specialize (HR x Hx). apply andb_true_iff in HR. destruct HR as [H1 H2].
    apply Z.leb_le in H1. apply Z.ltb_lt in H2. lia. }
  split; [assumption|]. split; [assumption|]. split; [assumption|].
  intros i Hi.
  assert (Hinc : incl (iota 0 k) (map Z.to_nat l)).
  { apply NoDup_length_incl; [assumption | rewrite map_length, length_iota; lia |].
    intros x Hx. apply in_map_iff in Hx. destruct Hx as [z [<- Hz]].
    apply in_iota. specialize (HR' z Hz). lia. }
  assert (Hin : In i (map Z.to_nat l)) by (apply Hinc, in_iota; lia).
  apply in_map_iff in Hin. destruct Hin as [z [Hz1 Hz2]].
  specialize (HR' z Hz2). replace (Z.of_nat i) with z by lia. assumption.
Qed.

(* entries of a matrix re-indexed by origin lists *)
Lemma get_submat_origins : forall M (orow ocol : list Z) i j,
  (i < length orow)%nat -> (j < length ocol)%nat ->
  get (submat M (map Z.to_nat orow) (map Z.to_nat ocol)) i j =
  get M (Z.to_nat (nth i orow 0)) (Z.to_nat (nth j ocol 0)).
Proof.
  intros M orow ocol i j Hi Hj. rewrite get_submat by (rewrite map_length; assumption).
  change O with (Z.to_nat 0). now rewrite !map_nth.
Qed.

Definition kcompose_input :=
  kind <- dZ ;; p <- dZ ;; x1 <- dmat ;; x2 <- dmat ;;
  fsr <- dlist dnat ;; fsc <- dlist dnat ;; ssr <- dlist dnat ;; ssc <- dlist dnat ;;
  rc <- dZ ;; res <- dcsr_o ;; dend (kind, p, x1, x2, fsr, fsc, ssr, ssc, rc, res).

Theorem judge_kcompose_sound :
  forall rec kind p m1 n1 M1 m2 n2 M2 fsr fsc ssr ssc rc res rest,
  kcompose_input rec = Some ((kind, p, (m1, n1, M1), (m2, n2, M2), fsr, fsc, ssr, ssc, rc, res), rest) ->
  ((p =? 2) || (p =? 3)) && in_dom p M1 && in_dom p M2 = true ->
  judge_kcompose rec = 0 ->
  (forall M, ksum kind p m1 n1 M1 m2 n2 M2 fsr fsc ssr ssc = KOk M ->
     rc = 0 /\ exists m n, res = Some (m, n, M) /\
       ((p =? 3) && small m n && small m1 n1 && small m2 n2 &&
        tu_bf m1 n1 M1 && tu_bf m2 n2 M2 = true -> tu_bf m n M = true)) /\
  (ksum kind p m1 n1 M1 m2 n2 M2 fsr fsc ssr ssc = KErr -> rc <> 0).
Proof.
  intros rec kind p m1 n1 M1 m2 n2 M2 fsr fsc ssr ssc rc res rest Hdec Hdom Hj.
  unfold judge_kcompose in Hj. unfold kcompose_input in Hdec. rewrite Hdec in Hj.
  cbv beta iota in Hj. rewrite Hdom in Hj. cbn [negb] in Hj.
  destruct (ksum kind p m1 n1 M1 m2 n2 M2 fsr fsc ssr ssc) as [Mc|] eqn:Hk.
  - split; [|discriminate]. intros M HM. injection HM as <-.
    take_guard Hj Hrc. apply Z.eqb_eq in Hrc. split; [assumption|].
    destruct res as [[[m n] R]|]; [|discriminate Hj].
    take_guard Hj HR. apply mat_eqb_eq in HR. subst R.
    exists m, n. split; [reflexivity|]. intros Hc.
    destruct (tu_bf m n Mc) eqn:Htu; [reflexivity|].
    rewrite Hc in Hj. cbn [negb andb] in Hj. discriminate Hj.
  - split; [discriminate|]. intros _ Hrc. subst rc.
    change (0 =? 0) with true in Hj. discriminate Hj.
Qed.

Definition kdecomp_input :=
  kind <- dZ ;; p <- dZ ;; x <- dmat ;; ok <- dZ ;; eps <- dZ ;; beta <- dZ ;; gamma <- dZ ;; both <- dbool ;;
  c1 <- dcomp ;; c2 <- dcomp ;; rcc <- dZ ;; res <- dcsr_o ;;
  dend (kind, p, x, ok, both, c1, c2, rcc, res).

(* the origin lists of the rows / columns of the recomposed matrix, as the judge computes them *)
Definition kd_orow (kind : Z) (m1 m2 : nat) (ro1 ro2 : list Z) (fsr ssr : list nat) : list Z :=
  origins ro1 (keep_idx m1 (removed_rows kind true fsr)) ++
  origins ro2 (keep_idx m2 (removed_rows kind false ssr)).
Definition kd_ocol (kind : Z) (n1 n2 : nat) (co1 co2 : list Z) (fsc ssc : list nat) : list Z :=
  origins co1 (keep_idx n1 (removed_cols kind true fsc)) ++
  origins co2 (keep_idx n2 (removed_cols kind false ssc)).

(* when the judge additionally demands that the components of a TU matrix are TU *)
Definition kd_tu_applies (kind p : Z) (both : bool) (m1 n1 m2 n2 : nat) (fsr fsc ssr ssc : list nat) : bool :=
  (p =? 3) && ((kind =? 2) || (((kind =? 3) || (kind =? 4) || (kind =? 5)) && both &&
     Nat.leb 4 (length (keep_idx m1 (removed_rows kind true fsr)) + length (keep_idx n1 (removed_cols kind true fsc))) &&
     Nat.leb 4 (length (keep_idx m2 (removed_rows kind false ssr)) + length (keep_idx n2 (removed_cols kind false ssc))))).

Theorem judge_kdecomp_sound :
  forall rec kind p m n M both rc1 X1 ro1 co1 fsr fsc rc2 X2 ro2 co2 ssr ssc rcc res rest,
  kdecomp_input rec =
    Some ((kind, p, (m, n, M), 1, both, (rc1, X1, ro1, co1, fsr, fsc), (rc2, X2, ro2, co2, ssr, ssc), rcc, res), rest) ->
  ((p =? 2) || (p =? 3)) && in_dom p M = true ->
  judge_kdecomp rec = 0 ->
  rc1 = 0 /\ rc2 = 0 /\ rcc = 0 /\
  exists m1 n1 M1 m2 n2 M2 Mc,
    X1 = Some (m1, n1, M1) /\ X2 = Some (m2, n2, M2) /\
    (* the components have the documented shape: the block formula applies *)
    ksum kind p m1 n1 M1 m2 n2 M2 fsr fsc ssr ssc = KOk Mc /\
    let orow := kd_orow kind m1 m2 ro1 ro2 fsr ssr in
    let ocol := kd_ocol kind n1 n2 co1 co2 fsc ssc in
    (* the returned line maps are bijections onto the rows / columns of M *)
    is_perm_of m orow = true /\ is_perm_of n ocol = true /\
    (* recomposition yields the original matrix under the returned line maps *)
    Mc = submat M (map Z.to_nat orow) (map Z.to_nat ocol) /\
    (* the library's own compose returned the same matrix *)
    (exists mr nr, res = Some (mr, nr, Mc)) /\
    (* heredity of total unimodularity, where the judge brute-forces it *)
    (kd_tu_applies kind p both m1 n1 m2 n2 fsr fsc ssr ssc && small m n && tu_bf m n M = true ->
     tu_bf m1 n1 M1 = true /\ tu_bf m2 n2 M2 = true).
Proof.
  intros rec kind p m n M both rc1 X1 ro1 co1 fsr fsc rc2 X2 ro2 co2 ssr ssc rcc res rest Hdec Hdom Hj.
  unfold judge_kdecomp in Hj. unfold kdecomp_input in Hdec. rewrite Hdec in Hj.
  cbv beta iota in Hj. change (1 =? 1) with true in Hj. cbn [negb] in Hj.
  rewrite Hdom in Hj. cbn [negb] in Hj.
  take_guard Hj Hrc. apply andb_true_iff in Hrc. destruct Hrc as [Hrc1 Hrc2].
  apply Z.eqb_eq in Hrc1, Hrc2.
  destruct X1 as [[[m1 n1] M1]|]; cbv beta iota in Hj; [|discriminate Hj].
  destruct X2 as [[[m2 n2] M2]|]; cbv beta iota in Hj; [|discriminate Hj].
  destruct (ksum kind p m1 n1 M1 m2 n2 M2 fsr fsc ssr ssc) as [Mc|] eqn:Hk; [|discriminate Hj].
  cbv zeta in Hj.
  fold (kd_orow kind m1 m2 ro1 ro2 fsr ssr) in Hj.
  fold (kd_ocol kind n1 n2 co1 co2 fsc ssc) in Hj.
  take_guard Hj Hperm. apply andb_true_iff in Hperm. destruct Hperm as [Hpr Hpc].
  take_guard Hj Heq. apply mat_eqb_eq in Heq.
  take_guard Hj Hrcc. apply Z.eqb_eq in Hrcc.
  destruct res as [[[mr nr] R]|]; [|discriminate Hj].
  take_guard Hj HR. apply mat_eqb_eq in HR. subst R.
  fold (kd_tu_applies kind p both m1 n1 m2 n2 fsr fsc ssr ssc) in Hj.
  split; [assumption|]. split; [assumption|]. split; [assumption|].
  exists m1, n1, M1, m2, n2, M2, Mc.
  split; [reflexivity|]. split; [reflexivity|]. split; [exact Hk|].
  cbv zeta. split; [assumption|]. split; [assumption|]. split; [assumption|].
  split; [exists mr, nr; reflexivity|].
  intros Hc. rewrite Hc in Hj. cbn [andb] in Hj.
  destruct (tu_bf m1 n1 M1 && tu_bf m2 n2 M2) eqn:Htu; cbn [negb] in Hj; [|discriminate Hj].
  apply andb_true_iff in Htu. exact Htu.
Qed.

(* ------------------------------------------------------------------------------------------ *)
(* 3c. 3-sum                                                                                    *)
(* ------------------------------------------------------------------------------------------ *)

Lemma is_pm1_spec : forall x, is_pm1 x = true -> x = 1 \/ x = -1.
Proof. intros x H. unfold is_pm1 in H. apply orb_true_iff in H. now rewrite !Z.eqb_eq in H. Qed.

Lemma NoDup2_neq : forall a b : nat, NoDup [a; b] -> a <> b.
Proof. intros a b H E. inversion H as [|? ? Hn _]; subst. apply Hn. now left. Qed.

Theorem threesum_spec : forall p m1 n1 M1 m2 n2 M2 i1 j1 k1 l1 z1 z2 i2 j2 k2 l2 M,
  threesum p m1 n1 M1 m2 n2 M2 i1 j1 k1 l1 z1 z2 i2 j2 k2 l2 = KOk M ->
  let R1 := keep_idx m1 [i1; j1] in let C1 := keep_idx n1 [z1] in
  let R2 := keep_idx m2 [z2] in let C2 := keep_idx n2 [k2; l2] in
  let alpha := get M1 i1 z1 in let beta := get M1 j1 z1 in
  let gamma := get M2 z2 k2 in let delta := get M2 z2 l2 in
  let cik := get M1 i1 k1 in let cil := get M1 i1 l1 in
  let cjk := get M1 j1 k1 in let cjl := get M1 j1 l1 in
  (* the special lines are in range and pairwise distinct *)
  ((i1 < m1)%nat /\ (j1 < m1)%nat /\ (k1 < n1)%nat /\ (l1 < n1)%nat /\ (z1 < n1)%nat /\
   (z2 < m2)%nat /\ (i2 < m2)%nat /\ (j2 < m2)%nat /\ (k2 < n2)%nat /\ (l2 < n2)%nat /\
   NoDup [i1; j1] /\ NoDup [k1; l1; z1] /\ NoDup [z2; i2; j2] /\ NoDup [k2; l2]) /\
  (length R1 = (m1 - 2)%nat /\ length C1 = (n1 - 1)%nat /\
   length R2 = (m2 - 1)%nat /\ length C2 = (n2 - 2)%nat) /\
  (* documented structure of the operands *)
  ((forall i, In i R1 -> get M1 i z1 = 0) /\
   (forall j, In j C2 -> get M2 z2 j = 0) /\
   (alpha = 1 \/ alpha = -1) /\ (beta = 1 \/ beta = -1) /\
   (gamma = 1 \/ gamma = -1) /\ (delta = 1 \/ delta = -1) /\
   (cik = get M2 i2 k2 /\ cil = get M2 i2 l2 /\ cjk = get M2 j2 k2 /\ cjl = get M2 j2 l2) /\
   (p = 3 -> tu_bf 3 3 [[gamma; delta; 0]; [cik; cil; alpha]; [cjk; cjl; beta]] = true)) /\
  (* the connecting 2x2 block is invertible modulo p, and the four blocks of the result *)
  exists w x y z, inv2 p cik cil cjk cjl = Some (w, x, y, z) /\
  sum_blocks M M1 M2 R1 C1 R2 C2
    (fun _ _ => 0)
    (fun r c => let rk := get M2 (nth r R2 O) k2 in let rl := get M2 (nth r R2 O) l2 in
                modulo_ternary ((rk * w + rl * y) * get M1 i1 (nth c C1 O) +
                                (rk * x + rl * z) * get M1 j1 (nth c C1 O)) p).
Proof.
  intros p m1 n1 M1 m2 n2 M2 i1 j1 k1 l1 z1 z2 i2 j2 k2 l2 M H R1 C1 R2 C2
         alpha beta gamma delta cik cil cjk cjl.
  unfold threesum in H. take_guard H E1. take_guard H E2.
  match type of H with
  | (match ?e with _ => _ end) = _ => destruct e as [[[[w x] y] z]|] eqn:Hinv; [|discriminate H]
  end.
  injection H as <-.
  repeat rewrite andb_true_iff in E1.
  destruct E1 as [[[[[[[[[[[[[Hi1 Hj1] Hk1] Hl1] Hz1] Hz2] Hi2] Hj2] Hk2] Hl2] Hn1] Hn2] Hn3] Hn4].
  apply Nat.ltb_lt in Hi1, Hj1, Hk1, Hl1, Hz1, Hz2, Hi2, Hj2, Hk2, Hl2.
  apply nodupn_NoDup in Hn1, Hn2, Hn3, Hn4.
  repeat rewrite andb_true_iff in E2.
  destruct E2 as [[[[[[[[[[Ez1 Ea] Eb] Ez2] Eg] Ed] E11] E12] E21] E22] Etu].
  apply is_pm1_spec in Ea, Eb, Eg, Ed. apply Z.eqb_eq in E11, E12, E21, E22.
  fold R1 in Ez1. fold C2 in Ez2. fold R1 C1 R2 C2.
  assert (L1 : length R1 = (m1 - 2)%nat) by (apply keep_idx_length2; auto using NoDup2_neq).
  assert (L2 : length C1 = (n1 - 1)%nat) by now apply keep_idx_length1.
  assert (L3 : length R2 = (m2 - 1)%nat) by now apply keep_idx_length1.
  assert (L4 : length C2 = (n2 - 2)%nat) by (apply keep_idx_length2; auto using NoDup2_neq).
  split; [tauto|]. split; [tauto|]. split.
  { split; [apply (all_zero_pick_colv m1); [apply keep_idx_lt | exact Ez1]|].
    split; [apply all_zero_pick_rowv; exact Ez2|].
    assert (Etu' : p = 3 -> tu_bf 3 3 [[gamma; delta; 0]; [cik; cil; alpha]; [cjk; cjl; beta]] = true).
    { intros ->. exact Etu. }
    unfold alpha, beta, gamma, delta, cik, cil, cjk, cjl in *. tauto. }
  exists w, x, y, z. split; [exact Hinv|].
  set (Ci := pick (rowv M1 i1) C1). set (Cj := pick (rowv M1 j1) C1).
  assert (LCi : length Ci = length C1) by apply pick_length.
  assert (LCj : length Cj = length C1) by apply pick_length.
  eapply sum_blocks_ext.
  - apply block4_sum_blocks.
    + rewrite L1, L4. apply wf_zeros.
    + apply wf_mat_intro; [apply map_length|].
      intros r Hr. apply in_map_iff in Hr. destruct Hr as [i [<- _]].
      rewrite map_length, combine_length, LCi, LCj. apply Nat.min_id.
  - intros i j Hi Hj. apply get_zeros.
  - intros r c Hr Hc. cbv beta zeta. unfold get at 1.
    rewrite (nthR_map_nth nat _ O) by assumption.
    rewrite (nthZ_map_nth (Z * Z) _ (0, 0)) by (rewrite combine_length, LCi, LCj, Nat.min_id; assumption).
    rewrite combine_nth by congruence. cbn [fst snd].
    rewrite <- !nthZ_nth. unfold Ci, Cj. rewrite !nthZ_pick_rowv by assumption. reflexivity.
Qed.

(* ------------------------------------------------------------------------------------------ *)
(* 4. Shape of the special-line lists whenever the dispatcher accepts                           *)
(* ------------------------------------------------------------------------------------------ *)

Theorem ksum_ok_shape : forall kind p m1 n1 M1 m2 n2 M2 fsr fsc ssr ssc M,
  ksum kind p m1 n1 M1 m2 n2 M2 fsr fsc ssr ssc = KOk M ->
  (kind = 2 /\
   ((exists r1 c2, fsr = [r1] /\ fsc = [] /\ ssr = [] /\ ssc = [c2] /\
       twosum p m1 n1 M1 m2 n2 M2 (Some r1) None None (Some c2) = KOk M) \/
    (exists c1 r2, fsr = [] /\ fsc = [c1] /\ ssr = [r2] /\ ssc = [] /\
       twosum p m1 n1 M1 m2 n2 M2 None (Some c1) (Some r2) None = KOk M))) \/
  (kind = 3 /\ exists r1 c1a c1b r2 c2a c2b,
     fsr = [r1] /\ fsc = [c1a; c1b] /\ ssr = [r2] /\ ssc = [c2a; c2b] /\
     deltasum p m1 n1 M1 m2 n2 M2 r1 c1a c1b r2 c2a c2b = KOk M) \/
  (kind = 4 /\ exists r1a r1b c1 r2a r2b c2,
     fsr = [r1a; r1b] /\ fsc = [c1] /\ ssr = [r2a; r2b] /\ ssc = [c2] /\
     ysum p m1 n1 M1 m2 n2 M2 r1a r1b c1 r2a r2b c2 = KOk M) \/
  (kind = 5 /\ exists i1 j1 k1 l1 z1 z2 i2 j2 k2 l2,
     fsr = [i1; j1] /\ fsc = [k1; l1; z1] /\ ssr = [z2; i2; j2] /\ ssc = [k2; l2] /\
     threesum p m1 n1 M1 m2 n2 M2 i1 j1 k1 l1 z1 z2 i2 j2 k2 l2 = KOk M).
Proof.
  intros kind p m1 n1 M1 m2 n2 M2 fsr fsc ssr ssc M H. unfold ksum in H.
  destruct (Z.eqb_spec kind 2) as [K2|K2].
  { left. split; [assumption|].
    destruct fsr as [|r1 [|? ?]]; cbv beta iota in H; try discriminate H.
    - destruct fsc as [|c1 [|? ?]]; cbv beta iota in H; try discriminate H.
      destruct ssr as [|r2 [|? ?]]; cbv beta iota in H; try discriminate H.
      destruct ssc as [|? ?]; cbv beta iota in H; try discriminate H.
      right. exists c1, r2. auto.
    - destruct fsc as [|? ?]; cbv beta iota in H; try discriminate H.
      destruct ssr as [|? ?]; cbv beta iota in H; try discriminate H.
      destruct ssc as [|c2 [|? ?]]; cbv beta iota in H; try discriminate H.
      left. exists r1, c2. auto. }
  destruct (Z.eqb_spec kind 3) as [K3|K3].
  { right. left. split; [assumption|].
    destruct fsr as [|r1 [|? ?]]; cbv beta iota in H; try discriminate H.
    destruct fsc as [|c1a [|c1b [|? ?]]]; cbv beta iota in H; try discriminate H.
    destruct ssr as [|r2 [|? ?]]; cbv beta iota in H; try discriminate H.
    destruct ssc as [|c2a [|c2b [|? ?]]]; cbv beta iota in H; try discriminate H.
    exists r1, c1a, c1b, r2, c2a, c2b. auto 6. }
  destruct (Z.eqb_spec kind 4) as [K4|K4].
  { right. right. left. split; [assumption|].
    destruct fsr as [|r1a [|r1b [|? ?]]]; cbv beta iota in H; try discriminate H.
    destruct fsc as [|c1 [|? ?]]; cbv beta iota in H; try discriminate H.
    destruct ssr as [|r2a [|r2b [|? ?]]]; cbv beta iota in H; try discriminate H.
    destruct ssc as [|c2 [|? ?]]; cbv beta iota in H; try discriminate H.
    exists r1a, r1b, c1, r2a, r2b, c2. auto 6. }
  destruct (Z.eqb_spec kind 5) as [K5|K5]; [|discriminate H].
  right. right. right. split; [assumption|].
  destruct fsr as [|i1 [|j1 [|? ?]]]; cbv beta iota in H; try discriminate H.
  destruct fsc as [|k1 [|l1 [|z1 [|? ?]]]]; cbv beta iota in H; try discriminate H.
  destruct ssr as [|z2 [|i2 [|j2 [|? ?]]]]; cbv beta iota in H; try discriminate H.
  destruct ssc as [|k2 [|l2 [|? ?]]]; cbv beta iota in H; try discriminate H.
  exists i1, j1, k1, l1, z1, z2, i2, j2, k2, l2. auto 6.
Qed.

Corollary ksum_ok_lengths : forall kind p m1 n1 M1 m2 n2 M2 fsr fsc ssr ssc M,
  ksum kind p m1 n1 M1 m2 n2 M2 fsr fsc ssr ssc = KOk M ->
  let L := (length fsr, length fsc, length ssr, length ssc) in
  (kind = 2 /\ (L = (1, 0, 0, 1) \/ L = (0, 1, 1, 0))%nat) \/
  (kind = 3 /\ L = (1, 2, 1, 2)%nat) \/
  (kind = 4 /\ L = (2, 1, 2, 1)%nat) \/
  (kind = 5 /\ L = (2, 3, 3, 2)%nat).
Proof.
  intros kind p m1 n1 M1 m2 n2 M2 fsr fsc ssr ssc M H L. unfold L.
  apply ksum_ok_shape in H.
  destruct H as [[K [H|H]]|[[K H]|[[K H]|[K H]]]].
  - destruct H as [? [? [-> [-> [-> [-> _]]]]]]. left. split; [assumption|]. left. reflexivity.
  - destruct H as [? [? [-> [-> [-> [-> _]]]]]]. left. split; [assumption|]. right. reflexivity.
  - destruct H as [? [? [? [? [? [? [-> [-> [-> [-> _]]]]]]]]]]. right. left. split; [assumption | reflexivity].
  - destruct H as [? [? [? [? [? [? [-> [-> [-> [-> _]]]]]]]]]]. right. right. left. split; [assumption | reflexivity].
  - destruct H as [? [? [? [? [? [? [? [? [? [? [-> [-> [-> [-> _]]]]]]]]]]]]]].
    right. right. right. split; [assumption | reflexivity].
Qed.

(* entry-wise reading of the round trip: entry (i, j) of the recomposed matrix is the entry of the
   original matrix at the origins of row i and column j *)
Corollary judge_kdecomp_entries :
  forall rec kind p m n M both rc1 m1 n1 M1 ro1 co1 fsr fsc rc2 m2 n2 M2 ro2 co2 ssr ssc rcc res rest Mc,
  kdecomp_input rec =
    Some ((kind, p, (m, n, M), 1, both, (rc1, Some (m1, n1, M1), ro1, co1, fsr, fsc),
           (rc2, Some (m2, n2, M2), ro2, co2, ssr, ssc), rcc, res), rest) ->
  ((p =? 2) || (p =? 3)) && in_dom p M = true ->
  judge_kdecomp rec = 0 ->
  ksum kind p m1 n1 M1 m2 n2 M2 fsr fsc ssr ssc = KOk Mc ->
  forall i j, (i < m)%nat -> (j < n)%nat ->
  get Mc i j = get M (Z.to_nat (nth i (kd_orow kind m1 m2 ro1 ro2 fsr ssr) 0))
                     (Z.to_nat (nth j (kd_ocol kind n1 n2 co1 co2 fsc ssc) 0)).
Proof.
  intros rec kind p m n M both rc1 m1 n1 M1 ro1 co1 fsr fsc rc2 m2 n2 M2 ro2 co2 ssr ssc rcc res rest Mc
         Hdec Hdom Hj Hk i j Hi Hj'.
  destruct (judge_kdecomp_sound _ _ _ _ _ _ _ _ _ _ _ _ _ _ _ _ _ _ _ _ _ _ Hdec Hdom Hj)
    as [_ [_ [_ [m1' [n1' [M1' [m2' [n2' [M2' [Mc' [E1 [E2 [Hk' [Hpr [Hpc [Heq _]]]]]]]]]]]]]]]].
  injection E1 as <- <- <-. injection E2 as <- <- <-.
  rewrite Hk in Hk'. injection Hk' as <-.
  apply is_perm_of_spec in Hpr. apply is_perm_of_spec in Hpc.
  destruct Hpr as [Lr _]. destruct Hpc as [Lc _].
  rewrite Heq at 1. apply get_submat_origins; [rewrite Lr | rewrite Lc]; assumption.
Qed.

(* ------------------------------------------------------------------------------------------ *)
(* 6. Non-vacuity: concrete sums, a refused operand pair, and records the judges accept         *)
(* ------------------------------------------------------------------------------------------ *)

(* Delta-sum of two 3x4 operands (eps = -1) *)
Definition exD1 : mat := [[1; 1; 0; 0]; [1; 0; 1; 1]; [0; 1; 0; -1]].   (* r1 = 2, c1a = 2, c1b = 3 *)
Definition exD2 : mat := [[-1; 0; 1; 0]; [1; 1; 0; 1]; [0; 0; 1; 1]].   (* r2 = 0, c2a = 0, c2b = 1 *)
Definition exD : mat := [[1; 1; 0; 0]; [1; 0; 1; 0]; [0; 1; 0; 1]; [0; 0; 1; 1]].

Example ex_deltasum : deltasum 3 3 4 exD1 3 4 exD2 2 2 3 0 0 1 = KOk exD.
Proof. vm_compute. reflexivity. Qed.

Example ex_ksum_delta : ksum 3 3 3 4 exD1 3 4 exD2 [2]%nat [2; 3]%nat [0]%nat [0; 1]%nat = KOk exD.
Proof. vm_compute. reflexivity. Qed.

(* same operands with the corner of the second one flipped: the two epsilons differ, refused *)
Definition exD2' : mat := [[1; 0; 1; 0]; [1; 1; 0; 1]; [0; 0; 1; 1]].
Example ex_deltasum_err : deltasum 3 3 4 exD1 3 4 exD2' 2 2 3 0 0 1 = KErr.
Proof. vm_compute. reflexivity. Qed.

(* wrong list lengths for the kind: refused by the dispatcher *)
Example ex_ksum_err : ksum 3 3 3 4 exD1 3 4 exD2 [2]%nat [2]%nat [0]%nat [0; 1]%nat = KErr.
Proof. vm_compute. reflexivity. Qed.

(* 2-sums, both variants *)
Definition exT1 : mat := [[1; 0; 1]; [0; 1; 1]; [1; -1; 0]].
Definition exT2 : mat := [[1; 1; 0]; [-1; 0; 1]].
Example ex_twosum_row_col :
  twosum 3 3 3 exT1 2 3 exT2 (Some 2%nat) None None (Some 0%nat) =
  KOk [[1; 0; 1; 0; 0]; [0; 1; 1; 0; 0]; [1; -1; 0; 1; 0]; [-1; 1; 0; 0; 1]].
Proof. vm_compute. reflexivity. Qed.
Example ex_twosum_col_row :
  twosum 3 3 3 exT1 2 3 exT2 None (Some 2%nat) (Some 0%nat) None =
  KOk [[1; 0; 1; 1; 0]; [0; 1; 1; 1; 0]; [1; -1; 0; 0; 0]; [0; 0; -1; 0; 1]].
Proof. vm_compute. reflexivity. Qed.

(* Y-sum (eps = -1) *)
Definition exY1 : mat := [[1; 1; 1]; [0; 1; 1]; [1; 0; 0]; [1; 0; -1]].   (* r1a = 2, r1b = 3, c1 = 2 *)
Definition exY2 : mat := [[-1; 1; 0]; [0; 1; 0]; [1; 0; 1]; [1; 1; 1]].   (* r2a = 0, r2b = 1, c2 = 0 *)
Example ex_ysum :
  ysum 3 4 3 exY1 4 3 exY2 2 3 2 0 1 0 = KOk [[1; 1; 1; 0]; [0; 1; 1; 0]; [1; 0; 0; 1]; [1; 0; 1; 1]].
Proof. vm_compute. reflexivity. Qed.

(* 3-sum: connecting block [[1;1];[0;1]], i1 = 2, j1 = 3, k1 = 0, l1 = 1, z1 = 3; z2 = 0, i2 = 1, j2 = 2, k2 = 0, l2 = 1 *)
Definition exH1 : mat := [[1; 0; 1; 0]; [0; 1; 1; 0]; [1; 1; 0; 1]; [0; 1; 1; 1]].
Definition exH2 : mat := [[1; 1; 0; 0]; [1; 1; 1; 0]; [0; 1; 0; 1]; [1; 0; 1; 1]].
Example ex_threesum :
  threesum 3 4 4 exH1 4 4 exH2 2 3 0 1 3 0 1 2 0 1 =
  KOk [[1; 0; 1; 0; 0]; [0; 1; 1; 0; 0]; [1; 1; 0; 1; 0]; [0; 1; 1; 0; 1]; [1; 0; -1; 1; 1]].
Proof. vm_compute. reflexivity. Qed.
(* p = 3, gamma = delta = 1 with the identity connecting block: the 3x3 matrix N has determinant -2, refused *)
Example ex_threesum_err :
  threesum 3 3 3 [[1; 1; 0]; [1; 0; 1]; [0; 1; 1]] 3 3 [[1; 1; 0]; [1; 0; 1]; [0; 1; 1]] 1 2 0 1 2 0 1 2 0 1 = KErr.
Proof. vm_compute. reflexivity. Qed.

(* the same operands over GF(2): the TU test of N is not required there, the sum is formed *)
Example ex_threesum_binary :
  threesum 2 3 3 [[1; 1; 0]; [1; 0; 1]; [0; 1; 1]] 3 3 [[1; 1; 0]; [1; 0; 1]; [0; 1; 1]] 1 2 0 1 2 0 1 2 0 1 =
  KOk [[1; 1; 0]; [1; 0; 1]; [0; 1; 1]].
Proof. vm_compute. reflexivity. Qed.

(* encoders for example records *)
Definition enc_dense (m n : nat) (M : mat) : list Z := [Z.of_nat m; Z.of_nat n] ++ concat M.
Definition row_nz (r : list Z) : list (nat * Z) :=
  filter (fun jv => negb (snd jv =? 0)) (combine (iota 0 (length r)) r).
Fixpoint psums (acc : nat) (l : list nat) : list nat :=
  acc :: match l with [] => [] | x :: r => psums (acc + x) r end.
Definition enc_csr (m n : nat) (M : mat) : list Z :=
  let nz := map row_nz M in
  let all := concat nz in
  [Z.of_nat m; Z.of_nat n; Z.of_nat (length all)] ++
  map Z.of_nat (psums 0 (map (@length _) nz)) ++
  map (fun jv => Z.of_nat (fst jv)) all ++ map snd all.
Definition enc_list (l : list Z) : list Z := Z.of_nat (length l) :: l.

(* a decompose-then-compose record for the Delta-sum above, accepted by judge_kdecomp *)
Definition ex_kdecomp_rec : list Z :=
  [3; 3] ++ enc_dense 4 4 exD ++ [1; -1; 0; 0; 1] ++
  ([0; 1] ++ enc_csr 3 4 exD1 ++ enc_list [0; 1; -1] ++ enc_list [0; 1; -1; -1] ++ enc_list [2] ++ enc_list [2; 3]) ++
  ([0; 1] ++ enc_csr 3 4 exD2 ++ enc_list [-1; 2; 3] ++ enc_list [-1; -1; 2; 3] ++ enc_list [0] ++ enc_list [0; 1]) ++
  [0; 1] ++ enc_csr 4 4 exD.

Example ex_kdecomp_decodes :
  kdecomp_input ex_kdecomp_rec =
  Some ((3, 3, (4, 4, exD)%nat, 1, true,
         (0, Some (3, 4, exD1)%nat, [0; 1; -1], [0; 1; -1; -1], [2]%nat, [2; 3]%nat),
         (0, Some (3, 4, exD2)%nat, [-1; 2; 3], [-1; -1; 2; 3], [0]%nat, [0; 1]%nat),
         0, Some (4, 4, exD)%nat), []).
Proof. vm_compute. reflexivity. Qed.

Example ex_kdecomp_accepted : judge_kdecomp ex_kdecomp_rec = 0.
Proof. vm_compute. reflexivity. Qed.

(* the soundness theorem applies to it (hypotheses are jointly satisfiable) *)
Example ex_kdecomp_sound_applies :
  ksum 3 3 3 4 exD1 3 4 exD2 [2]%nat [2; 3]%nat [0]%nat [0; 1]%nat =
  KOk (submat exD (map Z.to_nat (kd_orow 3 3 3 [0; 1; -1] [-1; 2; 3] [2]%nat [0]%nat))
                  (map Z.to_nat (kd_ocol 3 4 4 [0; 1; -1; -1] [-1; -1; 2; 3] [2; 3]%nat [0; 1]%nat))).
Proof.
  destruct (judge_kdecomp_sound _ _ _ _ _ _ _ _ _ _ _ _ _ _ _ _ _ _ _ _ _ _ ex_kdecomp_decodes eq_refl ex_kdecomp_accepted)
    as [_ [_ [_ [m1 [n1 [M1 [m2 [n2 [M2 [Mc [E1 [E2 [Hk [_ [_ [Heq _]]]]]]]]]]]]]]]].
  injection E1 as <- <- <-. injection E2 as <- <- <-. rewrite Hk, Heq. reflexivity.
Qed.

(* wrong row origin in the second component: judge_kdecomp rejects with code 152 / 153 *)
Definition ex_kdecomp_bad : list Z :=
  [3; 3] ++ enc_dense 4 4 exD ++ [1; -1; 0; 0; 1] ++
  ([0; 1] ++ enc_csr 3 4 exD1 ++ enc_list [0; 1; -1] ++ enc_list [0; 1; -1; -1] ++ enc_list [2] ++ enc_list [2; 3]) ++
  ([0; 1] ++ enc_csr 3 4 exD2 ++ enc_list [-1; 3; 2] ++ enc_list [-1; -1; 2; 3] ++ enc_list [0] ++ enc_list [0; 1]) ++
  [0; 1] ++ enc_csr 4 4 exD.
Example ex_kdecomp_rejected : judge_kdecomp ex_kdecomp_bad = 153.
Proof. vm_compute. reflexivity. Qed.

(* compose records: a valid Delta-sum, and a refused operand pair *)
Definition ex_kcompose_rec : list Z :=
  [3; 3] ++ enc_dense 3 4 exD1 ++ enc_dense 3 4 exD2 ++
  enc_list [2] ++ enc_list [2; 3] ++ enc_list [0] ++ enc_list [0; 1] ++ [0; 1] ++ enc_csr 4 4 exD.
Example ex_kcompose_accepted : judge_kcompose ex_kcompose_rec = 0.
Proof. vm_compute. reflexivity. Qed.

Definition ex_kcompose_err_rec (rc : Z) : list Z :=
  [3; 3] ++ enc_dense 3 4 exD1 ++ enc_dense 3 4 exD2' ++
  enc_list [2] ++ enc_list [2; 3] ++ enc_list [0] ++ enc_list [0; 1] ++ [rc; 0].
Example ex_kcompose_err_accepted : judge_kcompose (ex_kcompose_err_rec 3) = 0.
Proof. vm_compute. reflexivity. Qed.
Example ex_kcompose_err_missed : judge_kcompose (ex_kcompose_err_rec 0) = 142.
Proof. vm_compute. reflexivity. Qed.

(* ------------------------------------------------------------------------------------------ *)
Print Assumptions keep_idx_In.
Print Assumptions keep_idx_length.
Print Assumptions keep_idx_increasing.
Print Assumptions get_submat.
Print Assumptions get_outer.
Print Assumptions get_zeros.
Print Assumptions block4_wf.
Print Assumptions block4_TL.
Print Assumptions block4_TR.
Print Assumptions block4_BL.
Print Assumptions block4_BR.
Print Assumptions deltasum_spec.
Print Assumptions ysum_spec.
Print Assumptions twosum_spec_row_col.
Print Assumptions twosum_spec_col_row.
Print Assumptions threesum_spec.
Print Assumptions ksum_ok_shape.
Print Assumptions ksum_ok_lengths.
Print Assumptions is_perm_of_spec.
Print Assumptions judge_kcompose_sound.
Print Assumptions judge_kdecomp_sound.
Print Assumptions judge_kdecomp_entries.
Print Assumptions ex_kdecomp_sound_applies.
