(* SpProofs.v — proofs about the series-parallel reduction model of SpModel.v:
   heredity of SP-reducibility (via sign-scaled embeddings), irreducible witnesses,
   correctness of the greedy decision procedure and the certificate theorem. *)
From Coq Require Import Setoid Arith PeanoNat.
From Cmr Require Import Base Det BaseProofs SpModel.
Local Open Scope Z_scope.

(* ------------------------------------------------------------------------------------------ *)
(* 0. The mathematical definition                                                             *)
(* ------------------------------------------------------------------------------------------ *)

(* one reduction step on masks: some live line that is reducible (zero / unit / copy) is killed *)
Inductive sp_step (ternary : bool) (M : mat) : list bool * list bool -> list bool * list bool -> Prop :=
| step_row lr lc r : live lr r = true -> row_reducible ternary M lr lc r = true ->
                     sp_step ternary M (lr, lc) (kill lr r, lc)
| step_col lr lc c : live lc c = true -> col_reducible ternary M lr lc c = true ->
                     sp_step ternary M (lr, lc) (lr, kill lc c).
(* SP-reducible to nothing *)
Inductive SPred (ternary : bool) (M : mat) : list bool * list bool -> Prop :=
| SP_done lr lc : is_empty lr lc = true -> SPred ternary M (lr, lc)
| SP_step s s' : sp_step ternary M s s' -> SPred ternary M s' -> SPred ternary M s.

(* chains of steps *)
Inductive sp_steps (ternary : bool) (M : mat) : list bool * list bool -> list bool * list bool -> Prop :=
| steps_refl s : sp_steps ternary M s s
| steps_cons s s' s'' : sp_step ternary M s s' -> sp_steps ternary M s' s'' -> sp_steps ternary M s s''.

Definition sub_mask (a b : list bool) : Prop := forall i, live a i = true -> live b i = true.

(* ------------------------------------------------------------------------------------------ *)
(* 1. Masks                                                                                   *)
(* ------------------------------------------------------------------------------------------ *)

Lemma live_lt m i : live m i = true -> (i < length m)%nat.
Proof.
  unfold live. intros H. destruct (Nat.lt_ge_cases i (length m)) as [L|L]; auto.
  rewrite nth_overflow in H; [discriminate | exact L].
Qed.

Lemma live_kill_same m i : live (kill m i) i = false.
Proof.
  unfold live. revert i. induction m as [|b m IH]; intros [|i]; cbn [kill nth]; auto.
Qed.

Lemma live_kill_other m i j : i <> j -> live (kill m i) j = live m j.
Proof.
  unfold live. revert i j. induction m as [|b m IH]; intros [|i] [|j] H; cbn [kill nth]; auto;
    try congruence; try (apply IH; congruence).
Qed.

Lemma length_kill m i : length (kill m i) = length m.
Proof. revert i. induction m as [|b m IH]; intros [|i]; cbn [kill length]; auto. Qed.

Lemma live_kill_inv m i x : live (kill m i) x = true -> x <> i /\ live m x = true.
Proof.
  intros Lx. destruct (Nat.eq_dec x i) as [->|N].
  - rewrite live_kill_same in Lx; discriminate.
  - rewrite live_kill_other in Lx; auto.
Qed.

Lemma sub_mask_refl m : sub_mask m m.
Proof. intros i H; exact H. Qed.

Lemma sub_mask_trans a b c : sub_mask a b -> sub_mask b c -> sub_mask a c.
Proof. intros H1 H2 i H; auto. Qed.

Lemma sub_mask_kill m i : sub_mask (kill m i) m.
Proof. intros x Lx. apply live_kill_inv in Lx. tauto. Qed.

Lemma In_live_list m i : In i (live_list m) <-> live m i = true.
Proof.
  unfold live_list. rewrite filter_In, in_iota. split; [tauto|].
  intros H; split; auto. pose proof (live_lt _ _ H). lia.
Qed.

Lemma NoDup_iota k : forall s, NoDup (iota s k).
Proof.
  induction k as [|k IH]; intros s; cbn [iota]; constructor; auto.
  rewrite in_iota. lia.
Qed.

Lemma NoDup_live_list m : NoDup (live_list m).
Proof. unfold live_list. apply NoDup_filter, NoDup_iota. Qed.

Lemma is_empty_iff lr lc :
  is_empty lr lc = true <-> (forall i, live lr i = false) /\ (forall j, live lc j = false).
Proof.
  unfold is_empty. split.
  - destruct (live_list lr) eqn:E1; [|discriminate].
    destruct (live_list lc) eqn:E2; [|discriminate]. intros _. split; intros i.
    + destruct (live lr i) eqn:L; auto. apply In_live_list in L. rewrite E1 in L. destruct L.
    + destruct (live lc i) eqn:L; auto. apply In_live_list in L. rewrite E2 in L. destruct L.
  - intros [H1 H2]. destruct (live_list lr) as [|x l] eqn:E1.
    + destruct (live_list lc) as [|y l'] eqn:E2; auto.
      assert (I : In y (live_list lc)) by (rewrite E2; left; auto).
      apply In_live_list in I. rewrite H2 in I; discriminate.
    + assert (I : In x (live_list lr)) by (rewrite E1; left; auto).
      apply In_live_list in I. rewrite H1 in I; discriminate.
Qed.

(* ------------------------------------------------------------------------------------------ *)
(* 2. Vectors given as [map h l]                                                              *)
(* ------------------------------------------------------------------------------------------ *)

Lemma count_nz_cons x v : count_nz (x :: v) = if x =? 0 then count_nz v else S (count_nz v).
Proof. unfold count_nz. cbn [filter]. destruct (x =? 0); reflexivity. Qed.

Lemma count_nz_zero (A : Type) (h : A -> Z) l :
  count_nz (map h l) = 0%nat <-> forall x, In x l -> h x = 0.
Proof.
  induction l as [|a l IH]; cbn [map].
  - split; [intros _ x [] | reflexivity].
  - rewrite count_nz_cons. destruct (Z.eqb_spec (h a) 0) as [E|E].
    + rewrite IH. split.
      * intros H x [<-|Hx]; auto.
      * intros H x Hx; apply H; right; auto.
    + split; [discriminate | intros H; exfalso; apply E, H; left; auto].
Qed.

Lemma count_nz_le1 (A : Type) (h : A -> Z) l : NoDup l ->
  ((count_nz (map h l) <= 1)%nat <->
   forall x y, In x l -> In y l -> h x <> 0 -> h y <> 0 -> x = y).
Proof.
  induction 1 as [|a l Hnin Hnd IH]; cbn [map].
  - split; [intros _ x y [] | intros _; unfold count_nz; cbn; lia].
  - rewrite count_nz_cons. destruct (Z.eqb_spec (h a) 0) as [E|E].
    + rewrite IH. split.
      * intros H x y [<-|Hx] [<-|Hy] Nx Ny; try congruence; auto.
      * intros H x y Hx Hy; apply H; right; auto.
    + split.
      * intros H. assert (Z0 : count_nz (map h l) = 0%nat) by lia.
        rewrite count_nz_zero in Z0.
        intros x y [<-|Hx] [<-|Hy] Nx Ny; auto; exfalso; [apply Ny | apply Nx | apply Nx]; auto.
      * intros H. assert (Z0 : count_nz (map h l) = 0%nat); [|lia].
        apply count_nz_zero. intros x Hx.
        destruct (Z.eq_dec (h x) 0) as [|N]; auto. exfalso.
        assert (a = x) by (apply H; cbn [In]; auto).
        subst. contradiction.
Qed.

Lemma all_zero_count v : all_zero v = true -> count_nz v = 0%nat.
Proof.
  induction v as [|a v IH]; [reflexivity|]. unfold all_zero. cbn [forallb].
  intros H. apply andb_true_iff in H. destruct H as [H1 H2].
  rewrite count_nz_cons, H1. apply IH, H2.
Qed.

Lemma vec_eq_scaled_map (A : Type) s (h1 h2 : A -> Z) l :
  vec_eq_scaled s (map h1 l) (map h2 l) = true <-> forall x, In x l -> h1 x = s * h2 x.
Proof.
  unfold vec_eq_scaled. rewrite zlist_eqb_eq, map_map.
  induction l as [|a l IH]; cbn [map].
  - split; [intros _ x [] | reflexivity].
  - split.
    + intros H. injection H as H1 H2. intros x [<-|Hx]; auto. apply (proj1 IH H2); auto.
    + intros H. f_equal; [apply H; left; auto | apply IH; intros; apply H; right; auto].
Qed.

Definition sign_ok (ternary : bool) (s : Z) : Prop := s = 1 \/ (ternary = true /\ s = -1).

Lemma sign_ok_mul t a b : sign_ok t a -> sign_ok t b -> sign_ok t (a * b).
Proof.
  intros [->|[T ->]] [->|[T' ->]]; cbn; [left|right|right|left]; auto.
Qed.

Lemma sign_ok_one t : sign_ok t 1.
Proof. left; reflexivity. Qed.

Lemma is_copy_map (A : Type) ternary (h1 h2 : A -> Z) l :
  is_copy ternary (map h1 l) (map h2 l) = true <->
  exists s, sign_ok ternary s /\ forall x, In x l -> h1 x = s * h2 x.
Proof.
  unfold is_copy. rewrite orb_true_iff, andb_true_iff, !vec_eq_scaled_map. split.
  - intros [H|[T H]]; [exists 1 | exists (-1)]; split; auto; [left; auto | right; auto].
  - intros [s [[->|[T ->]] H]]; auto.
Qed.

(* ------------------------------------------------------------------------------------------ *)
(* 3. Reducibility of a line, generically over an entry function (rows and columns at once)   *)
(* ------------------------------------------------------------------------------------------ *)

Definition line_red (ternary : bool) (f : nat -> nat -> Z) (la lb : list bool) (a : nat) : bool :=
  let v := map (fun b => f a b) (live_list lb) in
  Nat.leb (count_nz v) 1 ||
  existsb (fun a' => negb (Nat.eqb a a') &&
                     is_copy ternary v (map (fun b => f a' b) (live_list lb))) (live_list la).

Lemma row_reducible_line_red ternary M lr lc r :
  row_reducible ternary M lr lc r = line_red ternary (get M) lr lc r.
Proof. reflexivity. Qed.

Lemma col_reducible_line_red ternary M lr lc c :
  col_reducible ternary M lr lc c = line_red ternary (fun c r => get M r c) lc lr c.
Proof. reflexivity. Qed.

(* the three cases: (zero or unit) or copy of another live line up to an admissible sign *)
Lemma line_red_iff ternary f la lb a :
  line_red ternary f la lb a = true <->
  (forall b1 b2, live lb b1 = true -> live lb b2 = true -> f a b1 <> 0 -> f a b2 <> 0 -> b1 = b2) \/
  (exists a' s, live la a' = true /\ a' <> a /\ sign_ok ternary s /\
                forall b, live lb b = true -> f a b = s * f a' b).
Proof.
  unfold line_red. cbv zeta. rewrite orb_true_iff, Nat.leb_le.
  rewrite (count_nz_le1 _ (fun b => f a b) _ (NoDup_live_list lb)). rewrite existsb_exists.
  split; (intros [H|H]; [left|right]).
  - intros b1 b2 L1 L2; apply H; apply In_live_list; auto.
  - destruct H as [a' [Hin H]]. apply andb_true_iff in H. destruct H as [Hne Hc].
    apply is_copy_map in Hc. destruct Hc as [s [Hs Hc]]. exists a', s.
    split; [apply In_live_list; auto|]. split.
    { intros ->. rewrite Nat.eqb_refl in Hne; discriminate. }
    split; auto. intros b Lb; apply Hc, In_live_list; auto.
  - intros b1 b2 L1 L2; apply H; apply In_live_list; auto.
  - destruct H as [a' [s [La [Hne [Hs Hc]]]]]. exists a'. split; [apply In_live_list; auto|].
    apply andb_true_iff; split.
    { destruct (Nat.eqb_spec a a'); [congruence | reflexivity]. }
    apply is_copy_map. exists s; split; auto. intros b Hb; apply Hc, In_live_list; auto.
Qed.

Lemma row_reducible_iff ternary M lr lc r :
  row_reducible ternary M lr lc r = true <->
  (forall c1 c2, live lc c1 = true -> live lc c2 = true ->
                 get M r c1 <> 0 -> get M r c2 <> 0 -> c1 = c2) \/
  (exists r' s, live lr r' = true /\ r' <> r /\ sign_ok ternary s /\
                forall c, live lc c = true -> get M r c = s * get M r' c).
Proof. rewrite row_reducible_line_red. apply line_red_iff. Qed.

Lemma col_reducible_iff ternary M lr lc c :
  col_reducible ternary M lr lc c = true <->
  (forall r1 r2, live lr r1 = true -> live lr r2 = true ->
                 get M r1 c <> 0 -> get M r2 c <> 0 -> r1 = r2) \/
  (exists c' s, live lc c' = true /\ c' <> c /\ sign_ok ternary s /\
                forall r, live lr r = true -> get M r c = s * get M r c').
Proof. rewrite col_reducible_line_red. apply (line_red_iff ternary (fun c r => get M r c)). Qed.

(* ------------------------------------------------------------------------------------------ *)
(* 4. Sign-scaled embeddings of configurations and the key step lemma                         *)
(* ------------------------------------------------------------------------------------------ *)

(* configuration (g; la', lb') embeds into (f; la, lb): injective index maps on live lines,
   entries agree up to admissible line signs *)
Definition emb (ternary : bool) (f g : nat -> nat -> Z) (la lb la' lb' : list bool)
           (phi psi : nat -> nat) (sg tg : nat -> Z) : Prop :=
  (forall i, live la' i = true -> live la (phi i) = true) /\
  (forall i i', live la' i = true -> live la' i' = true -> phi i = phi i' -> i = i') /\
  (forall j, live lb' j = true -> live lb (psi j) = true) /\
  (forall j j', live lb' j = true -> live lb' j' = true -> psi j = psi j' -> j = j') /\
  (forall i, sign_ok ternary (sg i)) /\
  (forall j, sign_ok ternary (tg j)) /\
  (forall i j, live la' i = true -> live lb' j = true -> g i j = sg i * tg j * f (phi i) (psi j)).

Lemma emb_flip ternary f g la lb la' lb' phi psi sg tg :
  emb ternary f g la lb la' lb' phi psi sg tg ->
  emb ternary (fun b a => f a b) (fun b a => g a b) lb la lb' la' psi phi tg sg.
Proof.
  intros (P1 & P2 & Q1 & Q2 & S1 & S2 & E). unfold emb. repeat apply conj; auto.
  intros j i Lj Li. rewrite E; auto. ring.
Qed.

Lemma emb_id ternary f la lb la' lb' :
  sub_mask la' la -> sub_mask lb' lb ->
  emb ternary f f la lb la' lb' (fun x => x) (fun x => x) (fun _ => 1) (fun _ => 1).
Proof.
  intros Ha Hb. unfold emb. repeat apply conj; auto using sign_ok_one.
  intros i j _ _. ring.
Qed.

Lemma image_dec (phi : nat -> nat) la' a :
  (exists i, live la' i = true /\ phi i = a) \/ (forall i, live la' i = true -> phi i <> a).
Proof.
  destruct (existsb (fun i => Nat.eqb (phi i) a) (live_list la')) eqn:E.
  - left. apply existsb_exists in E. destruct E as [i [Hi E]].
    exists i; split; [apply In_live_list; auto | apply Nat.eqb_eq; auto].
  - right. intros i Li Heq. rewrite <- not_true_iff_false in E. apply E.
    apply existsb_exists. exists i; split; [apply In_live_list; auto | apply Nat.eqb_eq; auto].
Qed.

(* Killing a reducible line a of the big configuration: either the small configuration still embeds
   (possibly after re-pointing one line and adjusting its sign), or the preimage line i of a is itself
   reducible in the small configuration and the embedding survives killing both. *)
Lemma emb_step ternary f g la lb la' lb' phi psi sg tg a :
  emb ternary f g la lb la' lb' phi psi sg tg ->
  live la a = true -> line_red ternary f la lb a = true ->
  (exists phi' sg', emb ternary f g (kill la a) lb la' lb' phi' psi sg' tg) \/
  (exists i, live la' i = true /\ line_red ternary g la' lb' i = true /\
             emb ternary f g (kill la a) lb (kill la' i) lb' phi psi sg tg).
Proof.
  intros (P1 & P2 & Q1 & Q2 & S1 & S2 & E) La R.
  destruct (image_dec phi la' a) as [[i [Li Pi]] | Nim].
  2:{ left. exists phi, sg. unfold emb. repeat apply conj; auto.
      intros i Li. rewrite live_kill_other; auto. intros X; apply (Nim i Li); auto. }
  assert (K : emb ternary f g (kill la a) lb (kill la' i) lb' phi psi sg tg).
  { unfold emb. repeat apply conj; auto.
    - intros x Lx. destruct (live_kill_inv _ _ _ Lx) as [N L]. rewrite live_kill_other; auto.
      intros X. apply N. apply P2; auto. congruence.
    - intros x y Lx Ly. apply P2; eapply live_kill_inv; eauto.
    - intros x j Lx Lj. apply E; auto. eapply live_kill_inv; eauto. }
  apply line_red_iff in R. destruct R as [U | (a' & s & La' & Na' & Ss & C)].
  - (* zero or unit: stays zero or unit on the fewer, injectively mapped columns *)
    right. exists i. split; auto. split; auto. apply line_red_iff. left.
    intros j1 j2 L1 L2 N1 N2. apply Q2; auto. apply U; auto.
    + intros Z. apply N1. rewrite E by auto. rewrite Pi, Z. ring.
    + intros Z. apply N2. rewrite E by auto. rewrite Pi, Z. ring.
  - destruct (image_dec phi la' a') as [[i1 [Li1 Pi1]] | Nim].
    + (* the mate is present in the small configuration: i is a copy of i1 there *)
      right. exists i. split; auto. split; auto. apply line_red_iff. right.
      exists i1, (sg i * s * sg i1). split; auto. split.
      { intros ->. apply Na'. congruence. }
      split. { apply sign_ok_mul; auto. apply sign_ok_mul; auto. }
      intros j Lj. rewrite !E by auto. rewrite Pi, Pi1, C by auto.
      destruct (S1 i1) as [X|[_ X]]; rewrite X; ring.
    + (* the mate is absent: re-point i at the mate and absorb the sign *)
      left. exists (fun x => if Nat.eqb x i then a' else phi x),
                   (fun x => if Nat.eqb x i then sg i * s else sg x).
      unfold emb. repeat apply conj; auto.
      * intros x Lx. destruct (Nat.eqb_spec x i) as [->|N].
        -- rewrite live_kill_other; auto.
        -- rewrite live_kill_other; auto. intros X. apply N. apply P2; auto. congruence.
      * intros x y Lx Ly.
        destruct (Nat.eqb_spec x i) as [->|Nx]; destruct (Nat.eqb_spec y i) as [->|Ny]; auto.
        -- intros X. exfalso. apply (Nim y Ly); auto.
        -- intros X. exfalso. apply (Nim x Lx); auto.
      * intros x. destruct (Nat.eqb_spec x i); auto. apply sign_ok_mul; auto.
      * intros x j Lx Lj. destruct (Nat.eqb_spec x i) as [->|N]; auto.
        rewrite E by auto. rewrite Pi, C by auto. ring.
Qed.

(* ------------------------------------------------------------------------------------------ *)
(* A. Heredity                                                                                *)
(* ------------------------------------------------------------------------------------------ *)

Theorem SP_emb ternary M s : SPred ternary M s ->
  forall B la' lb' phi psi sg tg,
    emb ternary (get M) (get B) (fst s) (snd s) la' lb' phi psi sg tg ->
    SPred ternary B (la', lb').
Proof.
  induction 1 as [lr lc Hemp | s s' Hstep Hsp IH]; intros B la' lb' phi psi sg tg Hemb.
  - apply SP_done. cbn [fst snd] in Hemb. destruct Hemb as (P1 & _ & Q1 & _).
    apply is_empty_iff in Hemp. destruct Hemp as [H1 H2]. apply is_empty_iff. split; intros i.
    + destruct (live la' i) eqn:L; auto. apply P1 in L. rewrite H1 in L; discriminate.
    + destruct (live lb' i) eqn:L; auto. apply Q1 in L. rewrite H2 in L; discriminate.
  - destruct Hstep as [lr lc r Lr Rr | lr lc c Lc Rc]; cbn [fst snd] in *.
    + destruct (emb_step ternary (get M) (get B) lr lc la' lb' phi psi sg tg r Hemb Lr Rr)
        as [(phi' & sg' & H') | (i & Li & Ri & H')].
      * eapply IH; exact H'.
      * eapply SP_step; [apply step_row; [exact Li | exact Ri] | eapply IH; exact H'].
    + apply emb_flip in Hemb.
      destruct (emb_step ternary (fun b a => get M a b) (fun b a => get B a b)
                         lc lr lb' la' psi phi tg sg c Hemb Lc Rc)
        as [(psi' & tg' & H') | (j & Lj & Rj & H')]; apply emb_flip in H'.
      * eapply IH; exact H'.
      * eapply SP_step; [apply step_col; [exact Lj | exact Rj] | eapply IH; exact H'].
Qed.

(* no length hypotheses are needed *)
Theorem SP_hereditary_gen : forall ternary M lr lc lr' lc',
  sub_mask lr' lr -> sub_mask lc' lc -> SPred ternary M (lr, lc) -> SPred ternary M (lr', lc').
Proof.
  intros ternary M lr lc lr' lc' Hr Hc H.
  eapply (SP_emb ternary M (lr, lc) H M). cbn [fst snd]. apply emb_id; auto.
Qed.

Theorem SP_hereditary : forall ternary M lr lc lr' lc',
  length lr' = length lr -> length lc' = length lc ->
  sub_mask lr' lr -> sub_mask lc' lc ->
  SPred ternary M (lr, lc) -> SPred ternary M (lr', lc').
Proof. intros ternary M lr lc lr' lc' _ _. apply SP_hereditary_gen. Qed.

(* ------------------------------------------------------------------------------------------ *)
(* B1, B2. Irreducible non-empty (sub)configurations refute SP-reducibility                   *)
(* ------------------------------------------------------------------------------------------ *)

Lemma irreducible_no_step ternary M lr lc s' :
  irreducible ternary M lr lc = true -> ~ sp_step ternary M (lr, lc) s'.
Proof.
  unfold irreducible. intros H St. apply andb_true_iff in H. destruct H as [Hr Hc].
  rewrite forallb_forall in Hr, Hc.
  inversion St as [lr0 lc0 r Lr Rr | lr0 lc0 c Lc Rc]; subst.
  - apply In_live_list in Lr. apply Hr in Lr. rewrite Rr in Lr. discriminate.
  - apply In_live_list in Lc. apply Hc in Lc. rewrite Rc in Lc. discriminate.
Qed.

Theorem irreducible_not_SP : forall ternary M lr lc,
  irreducible ternary M lr lc = true -> is_empty lr lc = false -> ~ SPred ternary M (lr, lc).
Proof.
  intros ternary M lr lc Hirr Hne H.
  inversion H as [lr0 lc0 He | s s' Hst Hsp]; subst.
  - rewrite He in Hne; discriminate.
  - eapply irreducible_no_step; eauto.
Qed.

Theorem SP_witness_gen : forall ternary M lr lc lr' lc',
  sub_mask lr' lr -> sub_mask lc' lc ->
  irreducible ternary M lr' lc' = true -> is_empty lr' lc' = false -> ~ SPred ternary M (lr, lc).
Proof.
  intros ternary M lr lc lr' lc' Hr Hc Hirr Hne H.
  eapply irreducible_not_SP; eauto. eapply SP_hereditary_gen; eauto.
Qed.

Theorem SP_witness : forall ternary M lr lc lr' lc',
  length lr' = length lr -> length lc' = length lc ->
  sub_mask lr' lr -> sub_mask lc' lc ->
  irreducible ternary M lr' lc' = true -> is_empty lr' lc' = false -> ~ SPred ternary M (lr, lc).
Proof. intros ternary M lr lc lr' lc' _ _. apply SP_witness_gen. Qed.

(* ------------------------------------------------------------------------------------------ *)
(* B3. The greedy procedure decides SPred                                                     *)
(* ------------------------------------------------------------------------------------------ *)

Lemma find_first_some p l x : find_first p l = Some x -> In x l /\ p x = true.
Proof.
  induction l as [|y l IH]; cbn [find_first]; [discriminate|].
  destruct (p y) eqn:Py.
  - intros H; injection H as <-. split; [left; auto | auto].
  - intros H. destruct (IH H). split; [right; auto | auto].
Qed.

Lemma find_first_none p l : find_first p l = None -> forall x, In x l -> p x = false.
Proof.
  induction l as [|y l IH]; cbn [find_first]; [intros _ x []|].
  destruct (p y) eqn:Py; [discriminate|]. intros H x [<-|Hx]; auto.
Qed.

Fixpoint count_true (m : list bool) : nat :=
  match m with [] => 0 | b :: r => (if b then 1 else 0) + count_true r end.

Lemma count_true_kill m i : live m i = true -> S (count_true (kill m i)) = count_true m.
Proof.
  unfold live. revert i. induction m as [|b m IH]; intros [|i] H; cbn [nth kill count_true] in *;
    try discriminate.
  - subst b. reflexivity.
  - rewrite <- (IH i H). lia.
Qed.

Lemma count_true_zero m : count_true m = 0%nat -> forall i, live m i = false.
Proof.
  unfold live. induction m as [|b m IH]; intros H [|i]; cbn [nth count_true] in *; auto.
  - destruct b; [discriminate | reflexivity].
  - apply IH. destruct b; [discriminate | exact H].
Qed.

Lemma count_true_all_true k : count_true (all_true k) = k.
Proof.
  unfold all_true. generalize 0%nat. induction k as [|k IH]; intros s; cbn [iota map count_true]; auto.
Qed.

Lemma greedy_sound ternary M fuel : forall lr lc lr' lc',
  sp_greedy_aux fuel ternary M lr lc = (lr', lc') -> is_empty lr' lc' = true ->
  SPred ternary M (lr, lc).
Proof.
  induction fuel as [|f IH]; intros lr lc lr' lc' G Em; cbn [sp_greedy_aux] in G.
  - injection G as <- <-. apply SP_done; auto.
  - destruct (find_first (row_reducible ternary M lr lc) (live_list lr)) as [r|] eqn:Fr.
    + apply find_first_some in Fr. destruct Fr as [Hin Hr].
      eapply SP_step; [apply step_row; [apply In_live_list; exact Hin | exact Hr] | eapply IH; eauto].
    + destruct (find_first (col_reducible ternary M lr lc) (live_list lc)) as [c|] eqn:Fc.
      * apply find_first_some in Fc. destruct Fc as [Hin Hc].
        eapply SP_step; [apply step_col; [apply In_live_list; exact Hin | exact Hc] | eapply IH; eauto].
      * injection G as <- <-. apply SP_done; auto.
Qed.

Lemma greedy_complete ternary M fuel : forall lr lc,
  SPred ternary M (lr, lc) -> (count_true lr + count_true lc <= fuel)%nat ->
  forall lr' lc', sp_greedy_aux fuel ternary M lr lc = (lr', lc') -> is_empty lr' lc' = true.
Proof.
  induction fuel as [|f IH]; intros lr lc Hsp Hf lr' lc' G; cbn [sp_greedy_aux] in G.
  - injection G as <- <-. apply is_empty_iff. split; apply count_true_zero; lia.
  - destruct (find_first (row_reducible ternary M lr lc) (live_list lr)) as [r|] eqn:Fr.
    + apply find_first_some in Fr. destruct Fr as [Hin Hr]. apply In_live_list in Hin.
      apply (IH (kill lr r) lc); auto.
      * eapply SP_hereditary_gen; [apply sub_mask_kill | apply sub_mask_refl | exact Hsp].
      * pose proof (count_true_kill _ _ Hin). lia.
    + destruct (find_first (col_reducible ternary M lr lc) (live_list lc)) as [c|] eqn:Fc.
      * apply find_first_some in Fc. destruct Fc as [Hin Hc]. apply In_live_list in Hin.
        apply (IH lr (kill lc c)); auto.
        -- eapply SP_hereditary_gen; [apply sub_mask_refl | apply sub_mask_kill | exact Hsp].
        -- pose proof (count_true_kill _ _ Hin). lia.
      * injection G as <- <-.
        inversion Hsp as [lr0 lc0 He | s s' Hst Hsp']; subst; auto.
        exfalso. inversion Hst as [lr0 lc0 r Lr Rr | lr0 lc0 c Lc Rc]; subst.
        -- apply In_live_list in Lr. rewrite (find_first_none _ _ Fr _ Lr) in Rr. discriminate.
        -- apply In_live_list in Lc. rewrite (find_first_none _ _ Fc _ Lc) in Rc. discriminate.
Qed.

Theorem sp_greedy_aux_correct : forall ternary M fuel lr lc,
  (count_true lr + count_true lc <= fuel)%nat ->
  (is_empty (fst (sp_greedy_aux fuel ternary M lr lc)) (snd (sp_greedy_aux fuel ternary M lr lc)) = true
   <-> SPred ternary M (lr, lc)).
Proof.
  intros ternary M fuel lr lc Hf.
  destruct (sp_greedy_aux fuel ternary M lr lc) as [lr' lc'] eqn:G. cbn [fst snd]. split.
  - eapply greedy_sound; eauto.
  - intros H. eapply greedy_complete; eauto.
Qed.

Theorem sp_greedy_correct : forall ternary m n M,
  sp_greedy ternary m n M = true <-> SPred ternary M (all_true m, all_true n).
Proof.
  intros ternary m n M. unfold sp_greedy.
  pose proof (sp_greedy_aux_correct ternary M (m + n) (all_true m) (all_true n)) as H.
  destruct (sp_greedy_aux (m + n) ternary M (all_true m) (all_true n)) as [lr' lc'].
  cbn [fst snd] in H. apply H. rewrite !count_true_all_true. lia.
Qed.

(* ------------------------------------------------------------------------------------------ *)
(* B4. Certificates: checked reduction sequences                                              *)
(* ------------------------------------------------------------------------------------------ *)

Lemma red_valid_step ternary M lr lc e mate :
  red_valid ternary M lr lc e mate = true -> sp_step ternary M (lr, lc) (remove_elem lr lc e).
Proof.
  destruct e as [r|c|]; cbn [red_valid remove_elem]; [| |discriminate];
    intros H; apply andb_true_iff in H; destruct H as [L H].
  - apply step_row; auto. unfold row_reducible. cbv zeta. apply orb_true_iff.
    destruct mate as [r'|c|].
    + right. apply andb_true_iff in H. destruct H as [H H3].
      apply andb_true_iff in H. destruct H as [H1 H2].
      apply existsb_exists. exists r'. split; [apply In_live_list; auto|].
      apply andb_true_iff; split; auto.
    + left. apply andb_true_iff in H. destruct H as [_ H3]. apply Nat.eqb_eq in H3.
      rewrite H3. reflexivity.
    + left. rewrite (all_zero_count _ H). reflexivity.
  - apply step_col; auto. unfold col_reducible. cbv zeta. apply orb_true_iff.
    destruct mate as [r|c'|].
    + left. apply andb_true_iff in H. destruct H as [_ H3]. apply Nat.eqb_eq in H3.
      rewrite H3. reflexivity.
    + right. apply andb_true_iff in H. destruct H as [H H3].
      apply andb_true_iff in H. destruct H as [H1 H2].
      apply existsb_exists. exists c'. split; [apply In_live_list; auto|].
      apply andb_true_iff; split; auto.
    + left. rewrite (all_zero_count _ H). reflexivity.
Qed.

Lemma sp_step_sub ternary M lr lc lr' lc' :
  sp_step ternary M (lr, lc) (lr', lc') ->
  sub_mask lr' lr /\ sub_mask lc' lc /\ length lr' = length lr /\ length lc' = length lc.
Proof.
  intros St. inversion St; subst;
    repeat apply conj; auto using sub_mask_kill, sub_mask_refl, length_kill.
Qed.

Lemma sp_steps_sub ternary M s s' : sp_steps ternary M s s' ->
  sub_mask (fst s') (fst s) /\ sub_mask (snd s') (snd s) /\
  length (fst s') = length (fst s) /\ length (snd s') = length (snd s).
Proof.
  induction 1 as [s | [lr lc] [lr1 lc1] s'' St Sts IH].
  - repeat apply conj; auto using sub_mask_refl.
  - apply sp_step_sub in St. cbn [fst snd] in *.
    destruct St as (A1 & A2 & A3 & A4). destruct IH as (B1 & B2 & B3 & B4).
    repeat apply conj; try congruence; eapply sub_mask_trans; eauto.
Qed.

Lemma sp_steps_SPred ternary M s s' :
  sp_steps ternary M s s' -> SPred ternary M s' -> SPred ternary M s.
Proof. induction 1; auto. intros H'. eapply SP_step; eauto. Qed.

Theorem apply_reds_sound : forall ternary M reds lr lc lr' lc',
  apply_reds ternary M lr lc reds = Some (lr', lc') ->
  sp_steps ternary M (lr, lc) (lr', lc') /\
  sub_mask lr' lr /\ sub_mask lc' lc /\ length lr' = length lr /\ length lc' = length lc.
Proof.
  intros ternary M reds lr lc lr' lc' H.
  assert (S : sp_steps ternary M (lr, lc) (lr', lc')).
  { revert lr lc H. induction reds as [|[e mate] reds IH]; intros lr lc H; cbn [apply_reds] in H.
    - injection H as <- <-. apply steps_refl.
    - destruct (red_valid ternary M lr lc e mate) eqn:V; [|discriminate].
      apply red_valid_step in V. destruct (remove_elem lr lc e) as [lr1 lc1].
      eapply steps_cons; [exact V | apply IH; exact H]. }
  split; auto. apply (sp_steps_sub _ _ _ _ S).
Qed.

Theorem apply_reds_SPred_iff : forall ternary M reds lr lc lr' lc',
  apply_reds ternary M lr lc reds = Some (lr', lc') ->
  (SPred ternary M (lr, lc) <-> SPred ternary M (lr', lc')).
Proof.
  intros ternary M reds lr lc lr' lc' H. apply apply_reds_sound in H.
  destruct H as (S & A1 & A2 & _ & _). split.
  - apply SP_hereditary_gen; auto.
  - eapply sp_steps_SPred; eauto.
Qed.

(* The certificate theorem: reported reductions that check out, followed by an irreducible remainder,
   decide the SP verdict — for matrices of any size. *)
Theorem cert_verdict : forall ternary M m n reds lr' lc',
  apply_reds ternary M (all_true m) (all_true n) reds = Some (lr', lc') ->
  irreducible ternary M lr' lc' = true ->
  (is_empty lr' lc' = true <-> SPred ternary M (all_true m, all_true n)).
Proof.
  intros ternary M m n reds lr' lc' H Hirr.
  rewrite (apply_reds_SPred_iff _ _ _ _ _ _ _ H). split.
  - apply SP_done.
  - intros Hsp. destruct (is_empty lr' lc') eqn:E; auto.
    exfalso. eapply irreducible_not_SP; eauto.
Qed.

(* and the judge's comparison: the certificate verdict agrees with the greedy oracle *)
Corollary cert_verdict_greedy : forall ternary M m n reds lr' lc',
  apply_reds ternary M (all_true m) (all_true n) reds = Some (lr', lc') ->
  irreducible ternary M lr' lc' = true ->
  is_empty lr' lc' = sp_greedy ternary m n M.
Proof.
  intros ternary M m n reds lr' lc' H Hirr.
  pose proof (cert_verdict _ _ _ _ _ _ _ H Hirr) as C.
  pose proof (sp_greedy_correct ternary m n M) as G.
  destruct (is_empty lr' lc'), (sp_greedy ternary m n M); auto.
  - symmetry. apply G, C; auto.
  - apply C, G; auto.
Qed.

(* ------------------------------------------------------------------------------------------ *)
(* C. Non-vacuity                                                                             *)
(* ------------------------------------------------------------------------------------------ *)

Example wheel3_not_sp : sp_greedy true 3 3 [[1;1;0];[1;0;1];[0;1;1]] = false.
Proof. vm_compute. reflexivity. Qed.

Example m2_sp : sp_greedy true 2 2 [[1;-1];[-1;1]] = true.
Proof. vm_compute. reflexivity. Qed.

Example m2_not_sp_without_signs : sp_greedy false 2 2 [[1;-1];[-1;1]] = false.
Proof. vm_compute. reflexivity. Qed.

(* row 0 is the negative of row 1; then column 0 is a copy (up to sign) of column 1 on the remaining
   row; then row 1 is a unit row (its nonzero is in column 1); finally column 1 is a zero column. *)
Example apply_reds_ex :
  apply_reds true [[1;-1];[-1;1]] (all_true 2) (all_true 2)
    [(ERow 0, ERow 1); (ECol 0, ECol 1); (ERow 1, ECol 1); (ECol 1, ENone)]
  = Some ([false;false], [false;false]).
Proof. vm_compute. reflexivity. Qed.

Example apply_reds_ex_rejected :
  apply_reds false [[1;-1];[-1;1]] (all_true 2) (all_true 2) [(ERow 0, ERow 1)] = None.
Proof. vm_compute. reflexivity. Qed.

Example wheel3_SPred_false : ~ SPred true [[1;1;0];[1;0;1];[0;1;1]] (all_true 3, all_true 3).
Proof. intros H. apply sp_greedy_correct in H. vm_compute in H. discriminate. Qed.

Example wheel3_irreducible : irreducible true [[1;1;0];[1;0;1];[0;1;1]] (all_true 3) (all_true 3) = true.
Proof. vm_compute. reflexivity. Qed.

Print Assumptions SP_emb.
Print Assumptions SP_hereditary.
Print Assumptions SP_witness.
Print Assumptions sp_greedy_correct.
Print Assumptions sp_greedy_aux_correct.
Print Assumptions apply_reds_sound.
Print Assumptions cert_verdict.
Print Assumptions cert_verdict_greedy.

(* ------------------------------------------------------------------------------------------ *)
(* What acceptance by judge_sp means                                                            *)
(* ------------------------------------------------------------------------------------------ *)

Definition sp_input :=
  tern <- dbool ;; api <- dZ ;; maxred <- dZ ;; wv <- dbool ;; wr <- dbool ;; wd <- dbool ;; wviol <- dbool ;;
  ws <- dbool ;; x <- dmat ;; rc <- dZ ;; v <- dZ ;; nred <- dZ ;; reds <- dpairs ;;
  reduced <- dsubm ;; viol <- dsubm ;; sepa <- dsepa ;;
  dend (tern, api, maxred, (wv, wr, wd, wviol, ws), x, rc, v, nred, reds, reduced, viol, sepa).

Definition sp_domain (tern : bool) (M : mat) : bool := if tern then is_ternary M else is_binary M.

(* the verdict flag and the reduction list: if the judge accepts an in-domain record of a call without a bound on
   the number of reductions, then the call succeeded; a requested verdict flag was written and says "series-parallel"
   exactly when the matrix is SP-reducible to the empty matrix; requested reductions are genuine one after another,
   their count is reported correctly, what they leave is irreducible, and it is empty exactly when the matrix is
   SP-reducible *)
Theorem judge_sp_sound : forall rec tern api maxred wv wr wd wviol ws m n M rc v nred reds reduced viol sepa rest,
  sp_input rec = Some ((tern, api, maxred, (wv, wr, wd, wviol, ws), (m, n, M), rc, v, nred, reds, reduced, viol, sepa), rest) ->
  sp_domain tern M = true -> maxred < 0 ->
  judge_sp rec = 0 ->
  rc = 0 /\
  (wv = true -> (v = 0 \/ v = 1) /\ (v = 1 <-> SPred tern M (all_true m, all_true n))) /\
  (wr = true ->
     exists lr lc,
       apply_reds tern M (all_true m) (all_true n)
                  (map (fun p => (elem_of_Z (fst p), elem_of_Z (snd p))) reds) = Some (lr, lc) /\
       nred = Z.of_nat (length reds) /\
       irreducible tern M lr lc = true /\
       (is_empty lr lc = true <-> SPred tern M (all_true m, all_true n))).
Proof.
  intros rec tern api maxred wv wr wd wviol ws m n M rc v nred reds reduced viol sepa rest Hdec Hdom Hmax Hj.
  unfold judge_sp in Hj. unfold sp_input in Hdec. rewrite Hdec in Hj.
  unfold sp_domain in Hdom. rewrite Hdom in Hj. cbn [negb] in Hj.
  destruct (rc =? 0) eqn:Hrc; cbn [negb] in Hj; [|discriminate].
  apply Z.eqb_eq in Hrc. split; [exact Hrc|].
  assert (Hunl : (maxred <? 0) = true) by (apply Z.ltb_lt; exact Hmax).
  rewrite Hunl in Hj. cbn [negb andb] in Hj.
  destruct (wv && (v =? 2)) eqn:H71; [discriminate|].
  destruct (wv && negb ((v =? 0) || (v =? 1))) eqn:H70; [discriminate|].
  destruct (wv && true && negb (Bool.eqb (v =? 1) (sp_greedy tern m n M))) eqn:H72; [discriminate|].
  split.
  - intros Hwv. subst wv. cbn in H70, H72.
    apply negb_false_iff in H72. apply Bool.eqb_prop in H72.
    apply negb_false_iff in H70. apply orb_true_iff in H70.
    split.
    + destruct H70 as [E|E]; apply Z.eqb_eq in E; auto.
    + rewrite <- sp_greedy_correct. rewrite <- H72. split; intro H; [subst v; reflexivity|apply Z.eqb_eq; exact H].
  - intros Hwr. subst wr.
    destruct (apply_reds tern M (all_true m) (all_true n)
               (map (fun p => (elem_of_Z (fst p), elem_of_Z (snd p))) reds)) as [[lr lc]|] eqn:Hap; [|discriminate].
    cbn [andb] in Hj.
    destruct (negb (nred =? Z.of_nat (length reds))) eqn:H74; [discriminate|].
    destruct (negb (irreducible tern M lr lc)) eqn:H75; [discriminate|].
    destruct (negb (Bool.eqb (is_empty lr lc) (sp_greedy tern m n M))) eqn:H76; [discriminate|].
    apply negb_false_iff in H74, H75, H76. apply Z.eqb_eq in H74. apply Bool.eqb_prop in H76.
    exists lr, lc. split; [reflexivity|]. split; [exact H74|]. split; [exact H75|].
    exact (cert_verdict _ _ _ _ _ _ _ Hap H75).
Qed.

(* with a bound on the number of reductions: an accepted record reports SIZE_MAX (-1) exactly when the matrix admits more
   reductions than the bound, and otherwise the number of reductions it admits *)
Theorem judge_sp_limited_sound : forall rec tern api maxred wv wr wd wviol ws m n M rc v nred reds reduced viol sepa rest,
  sp_input rec = Some ((tern, api, maxred, (wv, wr, wd, wviol, ws), (m, n, M), rc, v, nred, reds, reduced, viol, sepa), rest) ->
  sp_domain tern M = true -> 0 <= maxred -> nred <> -2 ->
  judge_sp rec = 0 ->
  rc = 0 /\
  (maxred < Z.of_nat (total_reds tern m n M) -> nred = -1) /\
  (Z.of_nat (total_reds tern m n M) <= maxred -> nred = Z.of_nat (total_reds tern m n M)).
Proof.
  intros rec tern api maxred wv wr wd wviol ws m n M rc v nred reds reduced viol sepa rest Hdec Hdom Hmax Hreq Hj.
  unfold judge_sp in Hj. unfold sp_input in Hdec. rewrite Hdec in Hj.
  unfold sp_domain in Hdom. rewrite Hdom in Hj. cbn [negb] in Hj.
  destruct (rc =? 0) eqn:Hrc; cbn [negb] in Hj; [|discriminate].
  apply Z.eqb_eq in Hrc. split; [exact Hrc|].
  assert (Hlim : (maxred <? 0) = false) by (apply Z.ltb_ge; exact Hmax).
  rewrite Hlim in Hj. cbn [negb andb] in Hj.
  assert (Hn2 : (nred =? -2) = false) by (apply Z.eqb_neq; exact Hreq).
  rewrite Hn2 in Hj. cbn [negb andb] in Hj.
  destruct (maxred <? Z.of_nat (total_reds tern m n M)) eqn:Hcmp.
  - destruct (nred =? -1) eqn:E; cbn [negb] in Hj; [|discriminate].
    apply Z.eqb_eq in E. apply Z.ltb_lt in Hcmp. split; [intros _; exact E | intros H; lia].
  - destruct (nred =? Z.of_nat (total_reds tern m n M)) eqn:E; cbn [negb] in Hj; [|discriminate].
    apply Z.eqb_eq in E. apply Z.ltb_ge in Hcmp. split; [intros H; lia | intros _; exact E].
Qed.

