(* Properties_C14.v — C14: representation-matrix construction and its round trip through recognition. *)
From Coq Require Import Permutation.
From Cmr Require Import Base Det BaseProofs GraphModel GraphProofs.
Local Open Scope Z_scope.

(* matrix -> graph -> matrix is the identity: the fundamental-cycle matrix of a forest is unique, so any matrix that
   satisfies the fundamental-cycle specification for the graph returned by recognition IS the recognised matrix *)
Theorem C14_roundtrip_unsigned : forall m n M M' T C,
  is_forest T -> is_binary M = true -> is_binary M' = true ->
  wf_mat m n M = true -> wf_mat m n M' = true ->
  fund_cycle_spec m n M T C -> fund_cycle_spec m n M' T C -> M = M'.
Proof. exact FundCycle_functional. Qed.
Print Assumptions C14_roundtrip_unsigned.

Theorem C14_roundtrip_signed : forall m n M M' T C,
  is_forest T -> wf_mat m n M = true -> wf_mat m n M' = true ->
  network_spec m n M T C -> network_spec m n M' T C -> M = M'.
Proof. exact Network_functional. Qed.
Print Assumptions C14_roundtrip_signed.

(* the path search used by the certificate check returns a simple path that uses exactly the given edges *)
Theorem C14_path_search_sound : forall es u v p,
  path_of es u v = Some p -> simple_path es u v p /\ Permutation (map fst p) es.
Proof. exact path_of_sound. Qed.
Print Assumptions C14_path_search_sound.

(* a list accepted by the leaf-stripping test is a forest in the inductive sense used for uniqueness *)
Theorem C14_acyclic_is_forest : forall T, acyclic T = true -> is_forest T.
Proof. exact acyclic_forest. Qed.
Print Assumptions C14_acyclic_is_forest.

(* ---------- edge-list files (EdgeModel.v / EdgeProofs.v) ---------- *)
From Cmr Require Import TextModel EdgeModel.
From Cmr Require EdgeProofs.

(* an accepted `edgelist` record: the library's nodes, edges (line order, end nodes numbered by first appearance,
   row/column labels) and node labels are exactly what the documented grammar assigns to the bytes *)
Theorem C14_edgelist_judge_sound : forall rec,
  judge_edgelist rec = 0 ->
  exists bytes rc nn hl labs es rest,
    EdgeProofs.edgelist_input rec = Some ((bytes, rc, nn, hl, labs, es), rest) /\
    rc = 0 /\
    exists names, parse_edges [] (lines bytes) = Some (names, es) /\
                  nn = length names /\ (hl <> 0 -> labs = names).
Proof. exact EdgeProofs.judge_edgelist_sound. Qed.
Print Assumptions C14_edgelist_judge_sound.

(* print / parse round trip of the grammar: any graph whose nodes are numbered in order of first appearance, with
   well-formed distinct names, is read back from its printed edge list *)
Theorem C14_edgelist_roundtrip : forall names es,
  EdgeProofs.names_ok names -> EdgeProofs.seen_after 0 es = Some (length names) ->
  (forall u v e, In (u, v, e) es -> Z.abs e < 10 ^ 80) ->
  parse_edges [] (lines (EdgeProofs.print_edgelist names es)) = Some (names, es).
Proof. exact EdgeProofs.parse_print_edgelist. Qed.
Print Assumptions C14_edgelist_roundtrip.

Theorem C14_edgelist_end_nodes_valid : forall ls names0 names es,
  parse_edges names0 ls = Some (names, es) ->
  (forall u v e, In (u, v, e) es -> (u < length names)%nat /\ (v < length names)%nat) /\
  (exists ext, names = names0 ++ ext).
Proof. exact EdgeProofs.parse_edges_nodes_lt. Qed.
Print Assumptions C14_edgelist_end_nodes_valid.

(* ---------- the element encoding (include/cmr/element.h, translated on every run): rows are -1-k, columns 1+k, the
   predicates and index functions invert them — the convention the edge-list labels r<k> / c<k> rely on ---------- *)
From Cmr Require LeafGen LeafProofs.
Theorem C14_element_encoding_row : forall k, 0 <= k <= 2147483647 ->
  exists e, LeafGen.c_CMRrowToElement k = Some e /\ LeafGen.c_CMRelementIsRow e = Some 1 /\
    LeafGen.c_CMRelementIsColumn e = Some 0 /\ LeafGen.c_CMRelementIsValid e = Some 1 /\ LeafGen.c_CMRelementToRowIndex e = Some k.
Proof. exact LeafProofs.elements_roundtrip_row. Qed.
Print Assumptions C14_element_encoding_row.

Theorem C14_element_encoding_column : forall k, 0 <= k <= 2147483646 ->
  exists e, LeafGen.c_CMRcolumnToElement k = Some e /\ LeafGen.c_CMRelementIsRow e = Some 0 /\
    LeafGen.c_CMRelementIsColumn e = Some 1 /\ LeafGen.c_CMRelementIsValid e = Some 1 /\ LeafGen.c_CMRelementToColumnIndex e = Some k.
Proof. exact LeafProofs.elements_roundtrip_column. Qed.
Print Assumptions C14_element_encoding_column.

(* ---------- round trip through recognition ---------- *)
From Cmr Require RtModel RtProofs.
Theorem C14_recognition_roundtrip_judge_sound : forall rec signed rc cf Mo rc2 v rc3 M2o rest,
  RtModel.reprt_input rec = Some ((signed, rc, cf, Mo, rc2, v, rc3, M2o), rest) -> cf = 1 -> RtModel.judge_reprt rec = 0 ->
  rc = 0 /\ rc2 = 0 /\ v = 1 /\ rc3 = 0 /\ exists m n M, Mo = Some (m, n, M) /\ M2o = Some (m, n, M).
Proof. exact RtProofs.judge_reprt_sound. Qed.
Print Assumptions C14_recognition_roundtrip_judge_sound.

(* ---------- cmr-graphic -c / cmr-network -c judged byte file to byte file ---------- *)
From Cmr Require CliModel CliProofs.
Theorem C14_tool_compute_judge_sound : forall rec signed tr outfmt inb rc hasout outb rest G f c T C,
  CliProofs.cligraph_input rec = Some ((signed, tr, outfmt, inb, rc, hasout, outb), rest) ->
  CliModel.judge_cligraph rec = 0 ->
  CliModel.edgelist_graph inb = Some (G, f, c) ->
  is_spanning_forest G f = true ->
  lookup_all (g_edges G) f = Some T ->
  lookup_all (g_edges G) c = Some C ->
  rc = 0 /\ hasout = true /\
  parse outfmt 0 outb =
    (if tr then TOk (List.length C) (List.length T) (transpose (List.length T) (List.length C) (rep_matrix signed T C))
     else TOk (List.length T) (List.length C) (rep_matrix signed T C)).
Proof. exact CliProofs.judge_cligraph_sound. Qed.
Print Assumptions C14_tool_compute_judge_sound.

(* ---------- the judge accepts EXACTLY the records that satisfy its specification: besides soundness (above) also completeness,
   i.e. a record of a correct answer is never rejected (JudgeComplete2.v) ---------- *)
From Cmr Require JudgeComplete2 JudgeCompleteLeaf.
Theorem C14_judge_leaf_accepts_exactly_the_specification :
    forall rec : list Z,
    LeafModel.judge_leaf rec = 0%Z <->
    (exists (fn : Z) (args : list Z) (r : Z) (rest : list Z),
    LeafJudgeProofs.leaf_input rec = Some (fn, args, r, rest) /\
    LeafModel.leaf_gen fn args = Some (Some r) /\ LeafModel.leaf_spec fn args r = true).
Proof. exact JudgeCompleteLeaf.judge_leaf_iff_total. Qed.
Print Assumptions C14_judge_leaf_accepts_exactly_the_specification.
Theorem C14_judge_reprt_accepts_exactly_the_specification :
    forall (rec : list Z) (signed : bool) (rc cf : Z) (Mo : option (nat * nat * mat)) 
    (rc2 v rc3 : Z) (M2o : option (nat * nat * mat)) (rest : list Z),
    RtModel.reprt_input rec = Some (signed, rc, cf, Mo, rc2, v, rc3, M2o, rest) ->
    RtModel.judge_reprt rec = 0%Z <-> JudgeComplete2.reprt_spec rc cf Mo rc2 v rc3 M2o.
Proof. exact JudgeComplete2.judge_reprt_iff. Qed.
Print Assumptions C14_judge_reprt_accepts_exactly_the_specification.

(* ---------- the judge accepts EXACTLY the records that satisfy its specification (JudgeComplete3.v): completeness besides soundness,
   a record of a correct answer is never rejected ---------- *)
From Cmr Require JudgeComplete3.
Theorem C14_judge_edgelist_accepts_exactly_the_specification :
    forall rec : list Z,
    EdgeModel.judge_edgelist rec = 0%Z <->
    (exists
    (bytes : list Z) (rc : Z) (nn : nat) (hl : Z) (labs : list (list Z)) (es : list (nat * nat * Z)) 
    (rest : list Z),
    EdgeProofs.edgelist_input rec = Some (bytes, rc, nn, hl, labs, es, rest) /\
    rc = 0%Z /\
    (exists names : list (list Z),
    EdgeModel.parse_edges [] (EdgeModel.lines bytes) = Some (names, es) /\
    nn = length names /\ (hl <> 0%Z -> labs = names))).
Proof. exact JudgeComplete3.judge_edgelist_iff_total. Qed.
Print Assumptions C14_judge_edgelist_accepts_exactly_the_specification.
Theorem C14_judge_cligraph_accepts_exactly_the_specification :
    forall (rec : list Z) (signed tr : bool) (outfmt : Z) (inb : list Z) (rc : Z) 
    (hasout : bool) (outb rest : list Z),
    CliProofs.cligraph_input rec = Some (signed, tr, outfmt, inb, rc, hasout, outb, rest) ->
    CliModel.judge_cligraph rec = 0%Z <-> JudgeComplete3.cligraph_spec signed tr outfmt inb rc hasout outb.
Proof. exact JudgeComplete3.judge_cligraph_iff. Qed.
Print Assumptions C14_judge_cligraph_accepts_exactly_the_specification.

(* ---------- through the translator: the C text of nextPower2 (hashtable.h: pre-decrement, for loop, |=, >>, sizeof) returns the smallest
   power of two >= x for 1 <= x <= 2^63, and 0 (wrap-around) for x = 0 and for x > 2^63 (Pow2Proofs.v, about the generated
   LeafGen.c_nextPower2) ---------- *)
From Cmr Require LeafGen LeafModel Pow2Proofs.
Theorem C14_nextPower2_is_the_smallest_power_of_two :
    forall x : Z,
    (1 <= x <= 2 ^ 63)%Z ->
    exists k : Z,
    LeafGen.c_nextPower2 8 x = Some (2 ^ k)%Z /\
    (0 <= k <= 63)%Z /\ (x <= 2 ^ k)%Z /\ (k = 0%Z \/ (2 ^ (k - 1) < x)%Z) /\ (2 ^ k < 2 * x)%Z.
Proof. exact Pow2Proofs.nextPower2_smallest. Qed.
Print Assumptions C14_nextPower2_is_the_smallest_power_of_two.
Theorem C14_nextPower2_value :
    forall x : Z, (1 <= x <= 2 ^ 63)%Z -> LeafGen.c_nextPower2 8 x = Some (2 ^ Z.log2_up x)%Z.
Proof. exact Pow2Proofs.nextPower2_spec. Qed.
Print Assumptions C14_nextPower2_value.
Theorem C14_nextPower2_of_zero :
    LeafGen.c_nextPower2 8 0 = Some 0%Z.
Proof. exact Pow2Proofs.nextPower2_zero. Qed.
Print Assumptions C14_nextPower2_of_zero.
Theorem C14_nextPower2_beyond_the_range :
    forall x : Z, (2 ^ 63 < x < 2 ^ 64)%Z -> LeafGen.c_nextPower2 8 x = Some 0%Z.
Proof. exact Pow2Proofs.nextPower2_big. Qed.
Print Assumptions C14_nextPower2_beyond_the_range.
Theorem C14_nextPower2_leaf_judge_specification :
    forall x : Z,
    exists r : Z, LeafModel.leaf_gen 14 [x] = Some (Some r) /\ LeafModel.leaf_spec 14 [x] r = true.
Proof. exact Pow2Proofs.leaf_spec_nextPower2. Qed.
Print Assumptions C14_nextPower2_leaf_judge_specification.
