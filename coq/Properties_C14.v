(* Properties_C14.v — C14: representation-matrix construction and its round trip through recognition. *)
From Coq Require Import Permutation.
From Cmr Require Import Base Det BaseProofs GraphModel GraphProofs.
Local Open Scope Z_scope.

(* matrix -> graph -> matrix is the identity: the fundamental-cycle matrix of a forest is unique, so any matrix that
   satisfies the fundamental-cycle specification for the graph returned by recognition IS the recognised matrix *)
Theorem C14_roundtrip_unsigned : forall m n M M' T C,
  is_forest T -> is_binary M = true -> is_binary M' = true ->
  wf_mat m n M = true -> wf_mat m n M' = true ->
  fund_cycle_spec m n M T C -> fund_cycle_spec m n M' T C -> M = M'.
Proof. exact FundCycle_functional. Qed.
Print Assumptions C14_roundtrip_unsigned.

Theorem C14_roundtrip_signed : forall m n M M' T C,
  is_forest T -> wf_mat m n M = true -> wf_mat m n M' = true ->
  network_spec m n M T C -> network_spec m n M' T C -> M = M'.
Proof. exact Network_functional. Qed.
Print Assumptions C14_roundtrip_signed.

(* the path search used by the certificate check returns a simple path that uses exactly the given edges *)
Theorem C14_path_search_sound : forall es u v p,
  path_of es u v = Some p -> simple_path es u v p /\ Permutation (map fst p) es.
Proof. exact path_of_sound. Qed.
Print Assumptions C14_path_search_sound.

(* a list accepted by the leaf-stripping test is a forest in the inductive sense used for uniqueness *)
Theorem C14_acyclic_is_forest : forall T, acyclic T = true -> is_forest T.
Proof. exact acyclic_forest. Qed.
Print Assumptions C14_acyclic_is_forest.
