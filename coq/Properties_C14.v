From Cmr Require Import Base Det GraphModel.
Theorem placeholder_C14 : True. Proof. exact I. Qed.
