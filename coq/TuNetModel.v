(* TuNetModel.v — C01 at every size for network matrices: the case carries a witness (a digraph with tree, non-tree arcs and
   reversals, produced by the generator and echoed by the harness).  If the witness passes the certificate check
   check_network_cert, the matrix is a network matrix and hence totally unimodular (NetworkTU.network_cert_tu_bf), so
   CMRtuTest must answer "totally unimodular" whatever its parameters.  No proofs here. *)
From Cmr Require Import Base Det TuModel GraphModel SpModel.
Local Open Scope Z_scope.

Definition tu_net_input :=
  cfg <- dlist dZ ;; x <- dmat ;; rc <- dZ ;; v <- dZ ;; h <- dbool ;;
  sub <- (if h then (rs <- dlist dnat ;; cs <- dlist dnat ;; dret (Some (rs, cs))) else dret None) ;;
  w <- dwitness ;; dend (cfg, x, rc, v, sub, w).

(* record: ncfg cfg M rc verdict(0/1, 2 = not written) hasSub [nr rows nc cols] witness
   0 accepted (also when neither a network witness nor the series-parallel reduction certifies the matrix: then nothing is claimed); 1 malformed record;
   430 CMRtuTest failed on a network matrix; 431 verdict not written although no stop flag is set;
   432 a network matrix is reported not totally unimodular; 433 a violating submatrix is returned for a network matrix *)
(* what the record certifies about the matrix without any oracle: a digraph witness that passes the certificate check (network
   matrix), or - with no witness - a {-1,0,1} matrix that the ternary series-parallel reduction model reduces to nothing
   (SpTU.sp_ternary_TU: such a matrix is totally unimodular, whatever its size) *)
Definition tu_certified (m n : nat) (M : mat) (w : witness) : bool :=
  match w with
  | WGraph G f c r => check_network_cert m n M G r f c
  | WNone => is_ternary M && sp_greedy true m n M
  | WCore _ _ => false
  end.

Definition judge_tu_net (rec : list Z) : Z :=
  match tu_net_input rec with
  | Some ((cfg, (m, n, M), rc, v, sub, w), _) =>
    (* the expected answer is accepted at once; the (quadratic) certificate check only runs when something is to be refuted *)
    if (rc =? 0) && (v =? 1) && (match sub with None => true | Some _ => false end) then 0
    else if negb (tu_certified m n M w) then 0
    else if negb (rc =? 0) then 430
    else if v =? 2 then (if cfg_stopflags cfg then 0 else 431)
    else if negb (v =? 1) then 432
    else match sub with None => 0 | Some _ => 433 end
  | None => 1
  end.
