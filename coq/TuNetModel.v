(* TuNetModel.v — C01 at every size for network matrices: the case carries a witness (a digraph with tree, non-tree arcs and
   reversals, produced by the generator and echoed by the harness).  If the witness passes the certificate check
   check_network_cert, the matrix is a network matrix and hence totally unimodular (NetworkTU.network_cert_tu_bf), so
   CMRtuTest must answer "totally unimodular" whatever its parameters.  No proofs here. *)
From Cmr Require Import Base Det TuModel GraphModel.
Local Open Scope Z_scope.

Definition tu_net_input :=
  cfg <- dlist dZ ;; x <- dmat ;; rc <- dZ ;; v <- dZ ;; h <- dbool ;;
  sub <- (if h then (rs <- dlist dnat ;; cs <- dlist dnat ;; dret (Some (rs, cs))) else dret None) ;;
  w <- dwitness ;; dend (cfg, x, rc, v, sub, w).

(* record: ncfg cfg M rc verdict(0/1, 2 = not written) hasSub [nr rows nc cols] witness
   0 accepted (also when the witness does not certify a network matrix: then nothing is claimed); 1 malformed record;
   430 CMRtuTest failed on a network matrix; 431 verdict not written although no stop flag is set;
   432 a network matrix is reported not totally unimodular; 433 a violating submatrix is returned for a network matrix *)
Definition judge_tu_net (rec : list Z) : Z :=
  match tu_net_input rec with
  | Some ((cfg, (m, n, M), rc, v, sub, w), _) =>
    match w with
    | WGraph G f c r =>
      (* the expected answer is accepted at once; the (quadratic) certificate check only runs when something is to be refuted *)
      if (rc =? 0) && (v =? 1) && (match sub with None => true | Some _ => false end) then 0
      else if negb (check_network_cert m n M G r f c) then 0
      else if negb (rc =? 0) then 430
      else if v =? 2 then (if cfg_stopflags cfg then 0 else 431)
      else if negb (v =? 1) then 432
      else match sub with None => 0 | Some _ => 433 end
    | _ => 0
    end
  | None => 1
  end.
