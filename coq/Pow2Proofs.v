(* Pow2Proofs.v — the specification of nextPower2 (src/cmr/hashtable.h), proved about the definition c_nextPower2
   that tools/c2gallina.py GENERATES from the C text (LeafGen.v; semantics LeafSem.v).  For 1 <= x <= 2^63 the result
   is the smallest power of two >= x; for x = 0 and for 2^63 < x < 2^64 the result is 0 (unsigned wrap-around), so
   callers must not pass 0 or more than 2^63.  The loop runs 6 times (i = 1, 2, 4, 8, 16, 32) and needs fuel 7. *)
From Coq Require Import ZArith Bool Lia.
From Cmr Require Import LeafSem LeafGen.
Local Open Scope Z_scope.

Definition W : Z := 18446744073709551616.   (* 2^64 *)
Lemma W_pow : W = 2 ^ 64. Proof. reflexivity. Qed.

Lemma wrapU_ok x : 0 <= x < W -> wrap U64 x = Some x.
Proof. intros H. unfold wrap. fold W. rewrite Z.mod_small by exact H. reflexivity. Qed.

(* ---------- bits: "the top w bits of y are set" ---------- *)
Definition top_set (h w y : Z) : Prop :=
  0 < y /\ Z.log2 y = h /\ forall j, 0 <= j -> h - w < j <= h -> Z.testbit y j = true.

Definition smear (y w : Z) : Z := Z.lor y (Z.shiftr y w).

Lemma top_set_init y : 0 < y -> top_set (Z.log2 y) 1 y.
Proof.
  intros Hy. split; [exact Hy|]. split; [reflexivity|].
  intros j Hj Hr. replace j with (Z.log2 y) by lia. apply Z.bit_log2. exact Hy.
Qed.

Lemma smear_log2 y w : 0 < y -> 0 <= w -> Z.log2 (smear y w) = Z.log2 y.
Proof.
  intros Hy Hw. unfold smear.
  assert (Hs : 0 <= Z.shiftr y w) by (apply Z.shiftr_nonneg; lia).
  rewrite Z.log2_lor by lia.
  destruct (Z.eq_dec (Z.shiftr y w) 0) as [E|NE].
  - rewrite E. change (Z.log2 0) with 0. pose proof (Z.log2_nonneg y). lia.
  - rewrite Z.log2_shiftr by exact Hy. pose proof (Z.log2_nonneg y). lia.
Qed.

Lemma smear_pos y w : 0 < y -> 0 <= w -> 0 < smear y w.
Proof.
  intros Hy Hw. unfold smear.
  assert (Hs : 0 <= Z.shiftr y w) by (apply Z.shiftr_nonneg; lia).
  assert (H0 : 0 <= Z.lor y (Z.shiftr y w)) by (apply Z.lor_nonneg; lia).
  destruct (Z.eq_dec (Z.lor y (Z.shiftr y w)) 0) as [E|NE]; [|lia].
  apply Z.lor_eq_0_iff in E. lia.
Qed.

Lemma top_set_step h w y : 0 < w -> top_set h w y -> top_set h (2 * w) (smear y w).
Proof.
  intros Hw (Hy & Hh & Hb). split; [apply smear_pos; lia|]. split; [rewrite smear_log2 by lia; exact Hh|].
  intros j Hj Hr. unfold smear. rewrite Z.lor_spec, Z.shiftr_spec by exact Hj.
  destruct (Z_lt_le_dec (h - w) j) as [Hin|Hout].
  - rewrite (Hb j Hj) by lia. reflexivity.
  - rewrite (Hb (j + w)) by lia. apply orb_true_r.
Qed.

Lemma top_set_full h w y : h < w -> top_set h w y -> y = 2 ^ (h + 1) - 1.
Proof.
  intros Hw (Hy & Hh & Hb).
  assert (H0 : 0 <= h) by (rewrite <- Hh; apply Z.log2_nonneg).
  replace (2 ^ (h + 1) - 1) with (Z.ones (h + 1)) by (rewrite Z.ones_equiv; lia).
  apply Z.bits_inj'. intros j Hj.
  destruct (Z_le_gt_dec j h) as [Hle|Hgt].
  - rewrite Z.ones_spec_low by lia. apply Hb; lia.
  - rewrite Z.ones_spec_high by lia. apply Z.bits_above_log2; lia.
Qed.

Lemma smear_range y w : 0 <= y < W -> 0 <= w -> 0 <= smear y w < W.
Proof.
  intros Hy Hw. destruct (Z.eq_dec y 0) as [->|NZ].
  - unfold smear. rewrite Z.shiftr_0_l. cbn. unfold W. lia.
  - assert (Hp : 0 < smear y w) by (apply smear_pos; lia). split; [lia|].
    rewrite W_pow in *. apply Z.log2_lt_pow2; [exact Hp|]. rewrite smear_log2 by lia.
    apply Z.log2_lt_pow2; lia.
Qed.

(* the six smearing steps *)
Definition smear6 (y : Z) : Z := smear (smear (smear (smear (smear (smear y 1) 2) 4) 8) 16) 32.

Lemma smear6_spec y : 0 < y < W -> smear6 y = 2 ^ (Z.log2 y + 1) - 1.
Proof.
  intros Hy. unfold smear6.
  assert (Hl : Z.log2 y < 64) by (apply Z.log2_lt_pow2; [lia|rewrite <- W_pow; lia]).
  pose proof (top_set_init y (proj1 Hy)) as T.
  apply (top_set_step _ 1) in T; [|lia]. apply (top_set_step _ 2) in T; [|lia].
  apply (top_set_step _ 4) in T; [|lia]. apply (top_set_step _ 8) in T; [|lia].
  apply (top_set_step _ 16) in T; [|lia]. apply (top_set_step _ 32) in T; [|lia].
  change (2 * 1) with 2 in T. change (2 * 2) with 4 in T. change (2 * 4) with 8 in T.
  change (2 * 8) with 16 in T. change (2 * 16) with 32 in T.
  apply (top_set_full _ (2 * 32)); [lia|exact T].
Qed.

Lemma smear6_0 : smear6 0 = 0.
Proof. reflexivity. Qed.

Lemma smear6_range y : 0 <= y < W -> 0 <= smear6 y < W.
Proof. intros H. unfold smear6. repeat apply smear_range; try lia. Qed.

(* ---------- the generated loop ---------- *)
Lemma np_loop_exit f y : c_nextPower2_loop1 (S f) y 64 = Some (y, 64).
Proof. reflexivity. Qed.

Lemma np_loop_step f y i : 0 <= y < W -> 0 <= i < 64 ->
  c_nextPower2_loop1 (S f) y i = c_nextPower2_loop1 f (smear y i) (i * 2).
Proof.
  intros Hy Hi. cbn [c_nextPower2_loop1].
  assert (Hs : 0 <= Z.shiftr y i < W).
  { split; [apply Z.shiftr_nonneg; lia|]. rewrite Z.shiftr_div_pow2 by lia.
    assert (0 < 2 ^ i) by (apply Z.pow_pos_nonneg; lia).
    apply Z.le_lt_trans with y; [|lia]. apply Z.div_le_upper_bound; nia. }
  pose proof (smear_range y i Hy (proj1 Hi)) as Hm. unfold smear in *.
  unfold c_true, c_mul, c_or, c_shr, c_cast, c_bool.
  assert (E1 : (i <? 64) = true) by (apply Z.ltb_lt; lia).
  assert (E2 : (0 <=? i) = true) by (apply Z.leb_le; lia).
  repeat first [ progress cbn [obind andb negb]
               | rewrite E1 | rewrite E2
               | rewrite wrapU_ok by (first [exact Hs | exact Hm | unfold W; lia])
               | progress change (8 * 8) with 64
               | progress change (1 =? 0) with false ].
  reflexivity.
Qed.

Lemma np_loop f y : 0 <= y < W -> c_nextPower2_loop1 (7 + f) y 1 = Some (smear6 y, 64).
Proof.
  intros Hy. cbn [Nat.add]. unfold smear6.
  rewrite np_loop_step by (try lia; exact Hy).
  rewrite np_loop_step by (try lia; repeat apply smear_range; lia).
  rewrite np_loop_step by (try lia; repeat apply smear_range; lia).
  rewrite np_loop_step by (try lia; repeat apply smear_range; lia).
  rewrite np_loop_step by (try lia; repeat apply smear_range; lia).
  rewrite np_loop_step by (try lia; repeat apply smear_range; lia).
  change (1 * 2 * 2 * 2 * 2 * 2 * 2) with 64. change (1 * 2 * 2 * 2 * 2 * 2) with 32.
  change (1 * 2 * 2 * 2 * 2) with 16. change (1 * 2 * 2 * 2) with 8. change (1 * 2 * 2) with 4. change (1 * 2) with 2.
  apply np_loop_exit.
Qed.

(* the whole function, for every fuel >= 7 and every size_t argument *)
Lemma nextPower2_eq f x : 0 <= x < W ->
  c_nextPower2 (7 + f) x = Some ((smear6 ((x - 1) mod W) + 1) mod W).
Proof.
  intros Hx. unfold c_nextPower2.
  assert (Hy : 0 <= (x - 1) mod W < W) by (apply Z.mod_pos_bound; reflexivity).
  unfold c_sub, c_add, c_cast. unfold wrap at 1. fold W. cbn [obind].
  repeat (change (wrap U64 1) with (Some 1); cbn [obind]).
  rewrite (np_loop f _ Hy). cbn [obind].
  unfold wrap. fold W. cbn [obind]. rewrite Z.mod_mod by (unfold W; lia). reflexivity.
Qed.

(* ---------- the specification ---------- *)
Theorem nextPower2_spec : forall x, 1 <= x <= 2 ^ 63 -> c_nextPower2 8 x = Some (2 ^ Z.log2_up x).
Proof.
  intros x Hx. assert (H63 : 2 ^ 63 = 9223372036854775808) by reflexivity. rewrite H63 in Hx.
  change 8%nat with (7 + 1)%nat. rewrite nextPower2_eq by (unfold W; lia).
  rewrite (Z.mod_small (x - 1)) by (unfold W; lia). f_equal.
  destruct (Z.eq_dec x 1) as [->|NE]; [reflexivity|].
  rewrite smear6_spec by (unfold W; lia).
  rewrite Z.log2_up_eqn by lia. unfold Z.succ, Z.pred. replace (x + -1) with (x - 1) by lia.
  replace (2 ^ (Z.log2 (x - 1) + 1) - 1 + 1) with (2 ^ (Z.log2 (x - 1) + 1)) by lia.
  apply Z.mod_small.
  assert (Hl : Z.log2 (x - 1) < 63) by (apply Z.log2_lt_pow2; lia).
  pose proof (Z.log2_nonneg (x - 1)) as Hn.
  split; [apply Z.pow_nonneg; lia|].
  apply Z.le_lt_trans with (2 ^ 63); [apply Z.pow_le_mono_r; lia|reflexivity].
Qed.

(* the same, spelled out: the result is the power of two 2^k with 2^(k-1) < x <= 2^k *)
Corollary nextPower2_smallest : forall x, 1 <= x <= 2 ^ 63 ->
  exists k, c_nextPower2 8 x = Some (2 ^ k) /\ 0 <= k <= 63 /\ x <= 2 ^ k /\ (k = 0 \/ 2 ^ (k - 1) < x) /\ 2 ^ k < 2 * x.
Proof.
  intros x Hx. exists (Z.log2_up x). split; [apply nextPower2_spec; exact Hx|].
  pose proof (Z.log2_up_nonneg x) as H0.
  assert (H63 : Z.log2_up x <= 63) by (apply Z.log2_up_le_pow2; lia).
  destruct (Z.eq_dec x 1) as [->|NE].
  - change (Z.log2_up 1) with 0. cbn. lia.
  - destruct (Z.log2_up_spec x) as (Hlo & Hhi); [lia|]. unfold Z.pred in Hlo.
    replace (Z.log2_up x + -1) with (Z.log2_up x - 1) in Hlo by lia.
    assert (Hk : 0 < Z.log2_up x) by (apply Z.log2_up_pos; lia).
    assert (E : 2 ^ Z.log2_up x = 2 * 2 ^ (Z.log2_up x - 1)).
    { rewrite <- Z.pow_succ_r by lia. f_equal. lia. }
    repeat split; try lia.
Qed.

(* the boundary: 0 and everything above 2^63 wrap around to 0 *)
Theorem nextPower2_zero : c_nextPower2 8 0 = Some 0.
Proof. vm_compute. reflexivity. Qed.

Theorem nextPower2_big : forall x, 2 ^ 63 < x < 2 ^ 64 -> c_nextPower2 8 x = Some 0.
Proof.
  intros x Hx. assert (H63 : 2 ^ 63 = 9223372036854775808) by reflexivity.
  assert (H64 : 2 ^ 64 = W) by reflexivity.
  change 8%nat with (7 + 1)%nat. rewrite nextPower2_eq by lia.
  rewrite (Z.mod_small (x - 1)) by lia. f_equal.
  rewrite smear6_spec by lia.
  rewrite (Z.log2_unique (x - 1) 63) by lia. reflexivity.
Qed.

(* fuel: 7 suffices, more changes nothing, 6 is not enough *)
Corollary nextPower2_fuel_ge : forall f x, (7 <= f)%nat -> 0 <= x < 2 ^ 64 -> c_nextPower2 f x = c_nextPower2 8 x.
Proof.
  intros f x Hf Hx. assert (H64 : 2 ^ 64 = W) by reflexivity.
  replace f with (7 + (f - 7))%nat by lia. change 8%nat with (7 + 1)%nat.
  rewrite !nextPower2_eq by lia. reflexivity.
Qed.

Example nextPower2_fuel_6 : c_nextPower2 6 5 = None.
Proof. vm_compute. reflexivity. Qed.

(* an argument outside [0, 2^64) is read modulo 2^64 (a record may show a size_t signed) *)
Lemma nextPower2_mod : forall f x, c_nextPower2 f x = c_nextPower2 f (x mod W).
Proof.
  intros f x. assert (E : forall a, c_sub U64 a 1 = Some ((a - 1) mod W)) by reflexivity.
  unfold c_nextPower2. rewrite !E, Zminus_mod_idemp_l. reflexivity.
Qed.

(* ---------- LeafModel: the record of function 14 is always defined and satisfies leaf_spec ---------- *)
From Cmr Require Import LeafModel.
Import List.ListNotations.

Theorem leaf_spec_nextPower2 : forall x, exists r,
  leaf_gen 14 [x] = Some (Some r) /\ leaf_spec 14 [x] r = true.
Proof.
  intros x. unfold leaf_gen, leaf_spec, pow2_fuel. fold W. rewrite nextPower2_mod.
  assert (H63 : 2 ^ 63 = 9223372036854775808) by reflexivity.
  assert (H64 : 2 ^ 64 = W) by reflexivity.
  assert (Hm : 0 <= x mod W < W) by (apply Z.mod_pos_bound; reflexivity).
  set (y := x mod W) in *. clearbody y. cbv zeta.
  destruct (Z.eqb_spec y 0) as [->|NZ]; [exists 0; split; reflexivity|].
  destruct (Z.ltb_spec 9223372036854775808 y) as [Hb|Hs]; cbn [orb].
  - exists 0. rewrite nextPower2_big by lia. split; reflexivity.
  - destruct (nextPower2_smallest y) as (k & E & Hk & H1 & _ & H2); [lia|].
    exists (2 ^ k). rewrite E. split; [reflexivity|].
    assert (Hp : 0 < 2 ^ k) by (apply Z.pow_pos_nonneg; lia).
    rewrite Z.log2_pow2 by lia. rewrite Z.eqb_refl.
    rewrite (proj2 (Z.ltb_lt _ _) Hp), (proj2 (Z.leb_le _ _) H1), (proj2 (Z.ltb_lt _ _) H2). reflexivity.
Qed.

Print Assumptions nextPower2_spec.
Print Assumptions nextPower2_smallest.
Print Assumptions nextPower2_zero.
Print Assumptions nextPower2_big.
Print Assumptions nextPower2_fuel_ge.
Print Assumptions leaf_spec_nextPower2.
