(* BaseProofs.v — generic lemmas about the list-of-rows matrices and decoders of Base.v. *)
From Cmr Require Import Base.
Local Open Scope Z_scope.

(* ------------------------------------------------------------------------------------------ *)
(* 1. Basic lemmas: iota, nthZ / nthR, mk_mat, get, wf_mat, mat_eqb                              *)
(* ------------------------------------------------------------------------------------------ *)

Lemma length_iota : forall k s, length (iota s k) = k.
Proof. induction k; intros s; simpl; [reflexivity | now rewrite IHk]. Qed.

Lemma in_iota : forall k s x, In x (iota s k) <-> (s <= x < s + k)%nat.
Proof.
  induction k; intros s x; simpl.
  - split; [intros [] | lia].
  - rewrite IHk. lia.
Qed.

Lemma nthZ_map_iota : forall (f : nat -> Z) k s j,
  (j < k)%nat -> nthZ (map f (iota s k)) j = f (s + j)%nat.
Proof.
  intros f; induction k; intros s j H; [lia|].
  destruct j; simpl.
  - f_equal; lia.
  - rewrite IHk by lia. f_equal; lia.
Qed.

Lemma nthR_map_iota : forall (f : nat -> list Z) k s j,
  (j < k)%nat -> nthR (map f (iota s k)) j = f (s + j)%nat.
Proof.
  intros f; induction k; intros s j H; [lia|].
  destruct j; simpl.
  - f_equal; lia.
  - rewrite IHk by lia. f_equal; lia.
Qed.

Lemma get_mk_mat : forall m n f i j,
  (i < m)%nat -> (j < n)%nat -> get (mk_mat m n f) i j = f i j.
Proof.
  intros m n f i j Hi Hj. unfold get, mk_mat.
  rewrite nthR_map_iota by assumption. rewrite nthZ_map_iota by assumption.
  reflexivity.
Qed.

Lemma wf_mk_mat : forall m n f, wf_mat m n (mk_mat m n f) = true.
Proof.
  intros m n f. unfold wf_mat, mk_mat.
  rewrite map_length, length_iota, Nat.eqb_refl. cbn [andb].
  apply forallb_forall. intros r Hr. apply in_map_iff in Hr. destruct Hr as [i [Hi _]].
  subst r. rewrite map_length, length_iota. apply Nat.eqb_refl.
Qed.

Lemma nthZ_ext : forall a b : list Z,
  length a = length b -> (forall i, (i < length a)%nat -> nthZ a i = nthZ b i) -> a = b.
Proof.
  induction a as [|x a IH]; destruct b as [|y b]; simpl; intros HL H; try discriminate; auto.
  f_equal.
  - apply (H 0%nat). lia.
  - apply IH; [lia|]. intros i Hi. apply (H (S i)). lia.
Qed.

Lemma nthR_ext : forall a b : mat,
  length a = length b -> (forall i, (i < length a)%nat -> nthR a i = nthR b i) -> a = b.
Proof.
  induction a as [|x a IH]; destruct b as [|y b]; simpl; intros HL H; try discriminate; auto.
  f_equal.
  - apply (H 0%nat). lia.
  - apply IH; [lia|]. intros i Hi. apply (H (S i)). lia.
Qed.

Lemma nthR_In : forall (M : mat) i, (i < length M)%nat -> In (nthR M i) M.
Proof.
  induction M as [|x M IH]; simpl; intros i Hi; [lia|].
  destruct i; [now left | right; apply IH; lia].
Qed.

Lemma wf_mat_length : forall m n M, wf_mat m n M = true -> length M = m.
Proof.
  intros m n M H. unfold wf_mat in H. apply andb_true_iff in H. destruct H as [H _].
  now apply Nat.eqb_eq in H.
Qed.

Lemma wf_mat_row_length : forall m n M i,
  wf_mat m n M = true -> (i < m)%nat -> length (nthR M i) = n.
Proof.
  intros m n M i H Hi. pose proof (wf_mat_length _ _ _ H) as HL.
  unfold wf_mat in H. apply andb_true_iff in H. destruct H as [_ H].
  rewrite forallb_forall in H. apply Nat.eqb_eq. apply H. apply nthR_In. lia.
Qed.

Lemma mat_ext : forall m n A B,
  wf_mat m n A = true -> wf_mat m n B = true ->
  (forall i j, (i < m)%nat -> (j < n)%nat -> get A i j = get B i j) -> A = B.
Proof.
  intros m n A B HA HB H.
  pose proof (wf_mat_length _ _ _ HA) as LA. pose proof (wf_mat_length _ _ _ HB) as LB.
  apply nthR_ext; [congruence|]. intros i Hi. rewrite LA in Hi.
  pose proof (wf_mat_row_length _ _ _ i HA Hi) as RA.
  pose proof (wf_mat_row_length _ _ _ i HB Hi) as RB.
  apply nthZ_ext; [congruence|]. intros j Hj. rewrite RA in Hj.
  apply (H i j Hi Hj).
Qed.

Lemma mk_mat_get : forall m n M, wf_mat m n M = true -> mk_mat m n (get M) = M.
Proof.
  intros m n M H. apply (mat_ext m n); [apply wf_mk_mat | assumption |].
  intros i j Hi Hj. now apply get_mk_mat.
Qed.

Lemma list_eqb_eq : forall (A : Type) (eqb : A -> A -> bool),
  (forall x y, eqb x y = true <-> x = y) ->
  forall a b, list_eqb eqb a b = true <-> a = b.
Proof.
  intros A eqb Heq. induction a as [|x a IH]; destruct b as [|y b]; simpl.
  - split; auto.
  - split; discriminate.
  - split; discriminate.
  - rewrite andb_true_iff, Heq, IH. split.
    + intros [-> ->]; reflexivity.
    + intros E; inversion E; auto.
Qed.

Lemma zlist_eqb_eq : forall a b, zlist_eqb a b = true <-> a = b.
Proof. apply list_eqb_eq. apply Z.eqb_eq. Qed.

Lemma mat_eqb_eq : forall A B, mat_eqb A B = true <-> A = B.
Proof. apply list_eqb_eq. apply zlist_eqb_eq. Qed.

(* ---------- binary matrices ---------- *)

Lemma is_binary_entry_iff : forall x, is_binary_entry x = true <-> (x = 0 \/ x = 1).
Proof.
  intros x. unfold is_binary_entry. rewrite orb_true_iff, !Z.eqb_eq. reflexivity.
Qed.

Lemma nthZ_forallb : forall (p : Z -> bool) l j,
  p 0 = true -> forallb p l = true -> p (nthZ l j) = true.
Proof.
  intros p; induction l as [|x l IH]; intros j H0 H; simpl.
  - destruct j; assumption.
  - simpl in H. apply andb_true_iff in H. destruct H as [Hx Hl].
    destruct j; [assumption | now apply IH].
Qed.

Lemma nthR_forallb : forall (p : list Z -> bool) (M : mat) i,
  p [] = true -> forallb p M = true -> p (nthR M i) = true.
Proof.
  intros p; induction M as [|x M IH]; intros i H0 H; simpl.
  - destruct i; assumption.
  - simpl in H. apply andb_true_iff in H. destruct H as [Hx Hl].
    destruct i; [assumption | now apply IH].
Qed.

Lemma get_binary : forall M i j, is_binary M = true -> get M i j = 0 \/ get M i j = 1.
Proof.
  intros M i j H. apply is_binary_entry_iff. unfold get.
  apply nthZ_forallb; [reflexivity|].
  apply (nthR_forallb (forallb is_binary_entry)); [reflexivity | exact H].
Qed.

Lemma is_binary_mk_mat : forall m n f,
  (forall i j, f i j = 0 \/ f i j = 1) -> is_binary (mk_mat m n f) = true.
Proof.
  intros m n f H. unfold is_binary, mat_forall, mk_mat.
  apply forallb_forall. intros r Hr. apply in_map_iff in Hr. destruct Hr as [i [<- _]].
  apply forallb_forall. intros x Hx. apply in_map_iff in Hx. destruct Hx as [j [<- _]].
  apply is_binary_entry_iff. apply H.
Qed.


(* what the decoder guarantees: a decoded dense matrix is well-formed *)
Lemma drep_length : forall (A : Type) (d : dec A) k l xs r,
  drep d k l = Some (xs, r) -> length xs = k.
Proof.
  intros A d; induction k; intros l xs r H; simpl in H.
  - unfold dret in H. inversion H; reflexivity.
  - unfold dbind in H.
    destruct (d l) as [[x r1]|]; [|discriminate].
    destruct (drep d k r1) as [[xs' r2]|] eqn:E; [|discriminate].
    unfold dret in H. inversion H; subst. simpl. f_equal. eapply IHk; eassumption.
Qed.

Lemma drep_forallb : forall (A : Type) (d : dec A) (p : A -> bool),
  (forall l x r, d l = Some (x, r) -> p x = true) ->
  forall k l xs r, drep d k l = Some (xs, r) -> forallb p xs = true.
Proof.
  intros A d p Hd; induction k; intros l xs r H; simpl in H.
  - unfold dret in H. inversion H; reflexivity.
  - unfold dbind in H.
    destruct (d l) as [[x r1]|] eqn:E0; [|discriminate].
    destruct (drep d k r1) as [[xs' r2]|] eqn:E; [|discriminate].
    unfold dret in H. inversion H; subst. simpl.
    rewrite (Hd _ _ _ E0). cbn [andb]. eapply IHk; eassumption.
Qed.

Lemma dmat_wf : forall l m n M r, dmat l = Some ((m, n, M), r) -> wf_mat m n M = true.
Proof.
  intros l m n M r H. unfold dmat, dbind in H.
  destruct (dnat l) as [[m' r1]|]; [|discriminate].
  destruct (dnat r1) as [[n' r2]|]; [|discriminate].
  destruct (drep (drep dZ n') m' r2) as [[rows r3]|] eqn:E; [|discriminate].
  unfold dret in H. inversion H; subst.
  unfold wf_mat. rewrite (drep_length _ _ _ _ _ _ E), Nat.eqb_refl. cbn [andb].
  eapply drep_forallb; [|exact E].
  intros l0 x r0 H0. apply Nat.eqb_eq. eapply drep_length; exact H0.
Qed.

Definition ctu_compl_input : dec (nat * nat * mat * option nat * option nat * Z) :=
  x <- dmat ;; r <- dopt ;; c <- dopt ;; rc <- dZ ;; dret (x, r, c, rc).

